import XPathV.Lemmas.ParserFull.Tokens
/-!
# Facts about the reference parser alone

What stands right after a sub-expression that a loop of the reference parser continues from can
follow an operand (`follow`), and two dead ends of `pRel`.
-/
set_option linter.unusedSimpArgs false
set_option linter.unusedVariables false
namespace XPathV.Lemmas.ParserFull
open XPathV XPathV.Model XPathV.Bridge XPathV.Spec.Full

theorem pTierLoop_follow {ns : Option NsMap} {rf : Nat} {ops : List (ETok × String)} {more : List (List (ETok × String))}
    {acc b : Ast} {ets rest : List ETok} (hops : ops ∈ upperTiers)
    (h : pTierLoop ns rf ops more acc ets = some (b, rest)) (hf : follow rest = true) : follow ets = true := by
  cases rf with
  | zero => simp [pTierLoop] at h
  | succ rf =>
    cases ets with
    | nil => rfl
    | cons t r =>
      simp only [pTierLoop] at h
      split at h
      · rename_i op hop
        have := tier_key_isOperator hops (mem_of_lookup hop)
        simp [follow, this]
      · simp only [Option.some.injEq, Prod.mk.injEq] at h
        rw [h.2]; exact hf

theorem pUnionLoop_follow {ns : Option NsMap} {rf : Nat} {acc b : Ast} {ets rest : List ETok}
    (h : pUnionLoop ns rf acc ets = some (b, rest)) (hf : follow rest = true) : follow ets = true := by
  unfold pUnionLoop at h
  split at h
  · cases h
  · rfl
  · simp only [Option.some.injEq, Prod.mk.injEq] at h
    rw [h.2]; exact hf

theorem pRelLoop_follow {ns : Option NsMap} {rf : Nat} {acc b : Ast} {ets rest : List ETok}
    (h : pRelLoop ns rf acc ets = some (b, rest)) (hf : follow rest = true) : follow ets = true := by
  unfold pRelLoop at h
  split at h
  · cases h
  · rfl
  · rfl
  · simp only [Option.some.injEq, Prod.mk.injEq] at h
    rw [h.2]; exact hf

/-- no relative path starts with a token that is neither a step abbreviation, an axis, nor a node test -/
theorem pRel_dead {ns : Option NsMap} {rf : Nat} {inp : Ast} {e : ETok} {r : List ETok}
    (he : e = .invalid ∨ ∃ w, e = .opName w) : pRel ns rf inp (e :: r) = none := by
  cases rf with
  | zero => simp [pRel]
  | succ rf =>
    simp only [pRel]
    have : pStep ns rf inp (e :: r) = none := by
      cases rf with
      | zero => simp [pStep]
      | succ rf =>
        rcases he with rfl | ⟨w, rfl⟩ <;> simp [pStep, pAxisSpec, pNodeTest]
    rw [this]

/-- `p:*` followed by `(`: the path ends before the parenthesis -/
theorem pRel_nsWild_lparen {ns : Option NsMap} {rf : Nat} {inp b : Ast} {p : String} {r rest : List ETok}
    (h : pRel ns rf inp (.nsWild p :: .lparen :: r) = some (b, rest)) : rest = .lparen :: r := by
  cases rf with
  | zero => simp [pRel] at h
  | succ rf =>
    simp only [pRel] at h
    split at h
    · rename_i t rest1 hst
      have h1 : rest1 = .lparen :: r := by
        cases rf with
        | zero => simp [pStep] at hst
        | succ rf =>
          simp only [pStep, pAxisSpec, pNodeTest] at hst
          split at hst
          · rename_i info rest' heq
            have hr : rest' = .lparen :: r := by
              split at heq
              · simp only [Option.some.injEq, Prod.mk.injEq] at heq
                exact heq.2.symm
              · cases heq
            subst hr
            cases rf with
            | zero => simp [pPreds] at hst
            | succ rf =>
              unfold pPreds at hst
              simp only [Option.some.injEq, Prod.mk.injEq] at hst
              exact hst.2.symm
          · cases hst
      subst h1
      cases rf with
      | zero => simp [pRelLoop] at h
      | succ rf =>
        unfold pRelLoop at h
        simp only [Option.some.injEq, Prod.mk.injEq] at h
        exact h.2.symm
    · cases h

end XPathV.Lemmas.ParserFull
