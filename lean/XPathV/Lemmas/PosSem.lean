import XPathV.Lemmas.PosSem.Build
import XPathV.Lemmas.PosSem.Group
import XPathV.Lemmas.PosSem.Toy
import XPathV.Lemmas.PosSem.CondBuild
/-!
# C03 — positional predicates on child steps use the XPath proximity position

Helper files under `XPathV/Lemmas/PosSem/`:

* `Position` — `position_is_proximity` (`positionM` = 1 + earlier candidates of the same parent,
               `lastM` = number of candidates), `positionM_split`, `lastM_child`
* `Forms`    — `PosForm` / `PosPred` (the positional predicate forms), their parse tree `ast`, plan
               `plan fi`, verdicts `specKeep` (oracle) / `modelKeep` (engine) / `natKeep` (natural
               numbers); side conditions `LitIsNat`, `NatEmb`, `NumOK`; `Agree`, `agree_of_numOK`
* `Filter`   — `keepIdx`, `sel_filter_form`, `block_keep`, `sel_filter_child_form` (engine),
               `filterPos_form` (oracle)
* `Step`     — `keepOf`, `PosStepOK`, `single_parent`, `posStep_filter`, `posStep_merge`
               (plain and merge form over any agreeing input plan), `PosStepOK.pathOK`, `.mem_iff`
* `Stack`    — `stackAst`, `stackPlan`, `stack_sem`, `PosChainOK` (boolean predicates on top)
* `Build`    — inversion of `build` (`build_filter_inv'`, `build_child_step_inv`, `build_form_inv`),
               `build_posStep`, `build_posChain`
* `Group`    — `(P)[n]`: `group_lit_core`, `paren_flat_nth`, `paren_desc_nth`
* `Toy`      — `toy_numOK`: the side conditions `NumOK` are satisfiable (exact integer arithmetic)
* `PredInput` — the builder's `predInput`: `build_predInput` (threaded unchanged), `posBound`,
               `build_posBound`, `build_position_fi_is_filtered_step` (every `position()` / `last()` of
               a predicate's condition counts in the filtered step, whatever steps come before it)
* `Cond`     — first predicates that look at the node and at its position: `CondOK`, `condTruth`,
               `keepOfC`, `CondStepOK`, `condStep_filter` / `condStep_merge` (+ cached forms)
* `CondBuild` — the fragment `PosCond` (comparisons of `position()` / `last()` / literals / paths,
               boolean predicates of C02, `and` / `or` / `not`), `build_posCond`, `build_condStep`,
               `MixShape`, `condTruth_mix`

This file: the end-to-end statements and the axiom audit.

Standing assumptions as for C01/C02: `WF d`, `cfg.nsIface = true`, `HashInj d cfg`; the builder runs
with the `//name` shortcut guarded by the node test and `smartDescThroughFilter = false` (the values
read off the source).  Numbers: `NumAlg` is abstract, so the agreement of the engine's reading of a
numeric predicate value (`int(x) == position`) with the oracle's (`x = position`) is the hypothesis
`PosForm.Agree F f d.length` — it holds unconditionally for `position() op n` and
`position() = last()` (`agree_posCmp`, `agree_posEqLast`) and follows from `LitIsNat` / `NatEmb`
for the other forms (`agree_of_numOK`).
-/
namespace XPathV.PosSem
open XPathV XPathV.Model XPathV.PathSem XPathV.PredSem NumAlg

variable {F : Type} [NumAlg F]

/-! ## naive plans (task item 2 and 3) -/

section Naive
variable {d : Doc} (wf : WF d) (cfg : ECfg) (hns : cfg.nsIface = true) (hinj : HashInj d cfg)
include wf hns hinj

/-- **C03, naive plan, any number of parents**: for a path `q` of the fragment `Frag true` (in
particular every predicate-free path, `PathPF`), the step `child::a` and a positional predicate `f`,
the un-rewritten plan `.filter (.child a (predPlan q)) P` — with `P` the predicate plan whose
`firstInput` is the child plan — yields for each node of `q` in turn the candidates whose proximity
position satisfies `f`; the oracle's node set of `q/child::a[f]` consists of the same nodes -/
theorem C03_naive (a : AxisInfo) (ha : a.axis = "child") (q : Ast) (hq : Frag true q)
    (f : PosForm) (hag : f.Agree F d.length) (c : Ref) (hc : validRef d c = true) :
    PosStepOK F d cfg a f
      (.filter (.child a (predPlan q)) (f.plan (.child a (predPlan q)))) (predPlan q) q ⟨c, 1, 1⟩ :=
  posStep_filter (F := F) wf cfg hns a ha f _ rfl hag (predPlan q) q ⟨c, 1, 1⟩
    ((frag_sem (F := F) wf cfg hns hinj true q hq ⟨c, 1, 1⟩ hc).1 rfl)

/-- the same for a predicate-free path, with `naivePlan` -/
theorem C03_naive_pathPF (a : AxisInfo) (ha : a.axis = "child") (q : Ast) (hq : PathPF q)
    (f : PosForm) (hag : f.Agree F d.length) (c : Ref) (hc : validRef d c = true) :
    PosStepOK F d cfg a f
      (.filter (.child a (naivePlan q)) (f.plan (.child a (naivePlan q)))) (naivePlan q) q ⟨c, 1, 1⟩ := by
  have := C03_naive (F := F) wf cfg hns hinj a ha q (frag_of_pathPF q hq) f hag c hc
  rwa [predPlan_pathPF q hq] at this

/-- the merge form over the naive input plan -/
theorem C03_naive_merge (a : AxisInfo) (ha : a.axis = "child") (q : Ast) (hq : Frag true q)
    (f : PosForm) (fi : Plan) (hfi : planTest d cfg fi = nodeTestM d cfg a)
    (hag : f.Agree F d.length) (c : Ref) (hc : validRef d c = true) :
    PosStepOK F d cfg a f
      (.merge (predPlan q) (.filter (.child a .context) (f.plan fi))) (predPlan q) q ⟨c, 1, 1⟩ :=
  posStep_merge (F := F) wf cfg hns a ha f fi hfi hag (predPlan q) q ⟨c, 1, 1⟩
    ((frag_sem (F := F) wf cfg hns hinj true q hq ⟨c, 1, 1⟩ hc).1 rfl)

/-- **C03, naive plan, followed by boolean predicates**: `q/child::a[f][b1]…[bk]` (`bs` lists the
`bi` outermost first) -/
theorem C03_naive_chain (a : AxisInfo) (ha : a.axis = "child") (q : Ast) (hq : Frag true q)
    (f : PosForm) (hag : f.Agree F d.length) (bs : List Ast) (hbs : ∀ b ∈ bs, Frag false b)
    (c : Ref) (hc : validRef d c = true) :
    PosChainOK F d cfg a f bs
      (stackPlan (.filter (.child a (predPlan q)) (f.plan (.child a (predPlan q)))) (bs.map predPlan))
      (predPlan q) q ⟨c, 1, 1⟩ :=
  posChain_of_step (C03_naive (F := F) wf cfg hns hinj a ha q hq f hag c hc) trivial _ bs
    (predsOK_naive wf cfg hns hinj bs hbs)

end Naive

/-! ## through `build` (task item 4) -/

section Build
variable {d : Doc} (wf : WF d) (cfg : ECfg) (hns : cfg.nsIface = true) (hinj : HashInj d cfg)
  (regexOk : RegexOk) (limit : Nat)
include wf hns hinj

/-- **C03 for `build`**: for every well-formed document, every valid context node, every input path
`q` of the fragment `Frag true`, the step `child::a` and a positional predicate `f` (`[n]`,
`[position() op n]`, `[position() = last()]`, `[last()]`, `[last() - n]`), the plan the builder
produces for `q/child::a[f]` — the plain filter or the merge rewrite — yields exactly the XPath 1.0
node-set of the expression, and these are the candidates `x` of an input node `o` whose 1-based
position among the candidates of `o` (the children of `o` passing the node test, in document order)
satisfies the predicate; neither side fails -/
theorem C03_main (a : AxisInfo) (ha : a.axis = "child") (q : Ast) (hq : Frag true q)
    (f : PosForm) (hag : f.Agree F d.length) (st : BState) (o : BOut)
    (hb : build regexOk limit true false (.filter (.axis a q) f.ast) {} st = .ok o)
    (c : Ref) (hc : validRef d c = true) :
    ∃ out ns g origins g0, sel (F := F) d cfg o.q c = .ok out ∧
      Spec.eval (F := F) d (.filter (.axis a q) f.ast) ⟨c, 1, 1⟩ = .ok (.val (.nodes ns) g) ∧
      Spec.eval (F := F) d q ⟨c, 1, 1⟩ = .ok (.val (.nodes origins) g0) ∧
      (∀ x, x ∈ refs out ↔ x ∈ ns) ∧
      (∀ x, x ∈ ns ↔ ∃ p ∈ origins, ∃ k, (childCands d cfg a p)[k]? = some x ∧
        PosForm.specKeep F f (k + 1) (childCands d cfg a p).length = true) := by
  obtain ⟨qi, _, hok⟩ := build_posStep (F := F) wf cfg hns hinj regexOk limit a ha q hq f hag {} st o hb
  exact (hok ⟨c, 1, 1⟩ hc).mem_iff

/-- the sequence the built plan yields: for each node of the built input plan `qi` in turn (the
plan `build` makes of `q`, selecting the node set of `q`), the candidates whose proximity position
satisfies the predicate, in document order -/
theorem C03_main_seq (a : AxisInfo) (ha : a.axis = "child") (q : Ast) (hq : Frag true q)
    (f : PosForm) (hag : f.Agree F d.length) (st : BState) (o : BOut)
    (hb : build regexOk limit true false (.filter (.axis a q) f.ast) {} st = .ok o) :
    ∃ qi, ∀ c, validRef d c = true → PosStepOK F d cfg a f o.q qi q ⟨c, 1, 1⟩ := by
  obtain ⟨qi, _, hok⟩ := build_posStep (F := F) wf cfg hns hinj regexOk limit a ha q hq f hag {} st o hb
  exact ⟨qi, fun c hc => hok ⟨c, 1, 1⟩ hc⟩

/-- **C03 for `build`, flat input paths, with the order**: when the input path is the context node
or a flat path (child / attribute / self steps), the *sequence* the built plan yields equals the
oracle's document-ordered node-set -/
theorem C03_main_exact (a : AxisInfo) (ha : a.axis = "child") (q : Ast)
    (hq : q = .none ∨ ArithSem.FlatPath q)
    (f : PosForm) (hag : f.Agree F d.length) (st : BState) (o : BOut)
    (hb : build regexOk limit true false (.filter (.axis a q) f.ast) {} st = .ok o)
    (c : Ref) (hc : validRef d c = true) :
    ∃ out ns g, sel (F := F) d cfg o.q c = .ok out ∧
      Spec.eval (F := F) d (.filter (.axis a q) f.ast) ⟨c, 1, 1⟩ = .ok (.val (.nodes ns) g) ∧
      refs out = ns := by
  obtain ⟨qi, hflat, hok⟩ :=
    build_posStep_flat (F := F) wf cfg hns hinj regexOk limit a ha q hq f hag {} st o hb
  exact (hok ⟨c, 1, 1⟩ hc).exact_of_flat wf hflat

/-- **C03 on natural numbers**: under the side conditions on the abstract numbers (`NumOK`: the
literal of the form denotes `n`, resp. the naturals up to `d.length` are embedded faithfully) the
nodes returned are the candidates whose position `k` satisfies: `k = n` for `[n]`; `k op n` for
`[position() op n]`; `k = size` for `[position() = last()]` and `[last()]`; `k + n = size` for
`[last() - n]` — `size` the number of candidates of the same parent -/
theorem C03_main_nat (a : AxisInfo) (ha : a.axis = "child") (q : Ast) (hq : Frag true q)
    (f : PosForm) (n : Nat) (hnum : f.NumOK F n d.length) (st : BState) (o : BOut)
    (hb : build regexOk limit true false (.filter (.axis a q) f.ast) {} st = .ok o)
    (c : Ref) (hc : validRef d c = true) :
    ∃ out ns g origins g0, sel (F := F) d cfg o.q c = .ok out ∧
      Spec.eval (F := F) d (.filter (.axis a q) f.ast) ⟨c, 1, 1⟩ = .ok (.val (.nodes ns) g) ∧
      Spec.eval (F := F) d q ⟨c, 1, 1⟩ = .ok (.val (.nodes origins) g0) ∧
      (∀ x, x ∈ refs out ↔ x ∈ ns) ∧
      (∀ x, x ∈ ns ↔ ∃ p ∈ origins, ∃ k, (childCands d cfg a p)[k]? = some x ∧
        f.natKeep n (k + 1) (childCands d cfg a p).length = true) := by
  obtain ⟨out, ns, g, origins, g0, h1, h2, h3, h4, h5⟩ :=
    C03_main (F := F) wf cfg hns hinj regexOk limit a ha q hq f (agree_of_numOK f n _ hnum) st o hb c hc
  refine ⟨out, ns, g, origins, g0, h1, h2, h3, h4, fun x => ?_⟩
  rw [h5]
  constructor
  · rintro ⟨p, hp, k, hk, hs⟩
    have hlt := (List.getElem?_eq_some_iff.1 hk).1
    rw [specKeep_nat f n d.length hnum (k + 1) _ (by omega) (by omega)
      (childCands_length_le d cfg a p)] at hs
    exact ⟨p, hp, k, hk, hs⟩
  · rintro ⟨p, hp, k, hk, hs⟩
    have hlt := (List.getElem?_eq_some_iff.1 hk).1
    rw [← specKeep_nat f n d.length hnum (k + 1) _ (by omega) (by omega)
      (childCands_length_le d cfg a p)] at hs
    exact ⟨p, hp, k, hk, hs⟩

/-- C03 against the top-level oracle `evalTop` -/
theorem C03_evalTop (a : AxisInfo) (ha : a.axis = "child") (q : Ast) (hq : Frag true q)
    (f : PosForm) (hag : f.Agree F d.length) (st : BState) (o : BOut)
    (hb : build regexOk limit true false (.filter (.axis a q) f.ast) {} st = .ok o)
    (c : Ref) (hc : validRef d c = true) :
    ∃ out ns, sel (F := F) d cfg o.q c = .ok out ∧
      Spec.evalTop (F := F) d (.filter (.axis a q) f.ast) c = .ok (.nodes ns) ∧
      ∀ x, x ∈ refs out ↔ x ∈ ns := by
  obtain ⟨out, ns, g, _, _, h1, h2, _, h4, _⟩ :=
    C03_main (F := F) wf cfg hns hinj regexOk limit a ha q hq f hag st o hb c hc
  refine ⟨out, ns, h1, ?_, h4⟩
  simp [Spec.evalTop, h2, bind, Except.bind, pure, Except.pure, Spec.Res.value]

/-- **C03 for `build`, followed by boolean predicates**: `q/child::a[f][b1]…[bk]` (`bs` lists the
`bi` outermost first, each in `Frag false`): the built plan yields, for each input node in turn, the
candidates whose proximity position satisfies `f` and on which every `bi` is true — the later
filters do not look at positions — and this is the oracle's node set -/
theorem C03_chain (a : AxisInfo) (ha : a.axis = "child") (q : Ast) (hq : Frag true q)
    (f : PosForm) (hag : f.Agree F d.length) (bs : List Ast) (hbs : ∀ b ∈ bs, Frag false b)
    (st : BState) (o : BOut)
    (hb : build regexOk limit true false (stackAst (.filter (.axis a q) f.ast) bs) {} st = .ok o) :
    ∃ qi, ∀ c, validRef d c = true → PosChainOK F d cfg a f bs o.q qi q ⟨c, 1, 1⟩ := by
  obtain ⟨qi, hok⟩ :=
    build_posChain (F := F) wf cfg hns hinj regexOk limit a ha q hq f hag bs hbs {} st o hb
  exact ⟨qi, fun c hc => hok ⟨c, 1, 1⟩ hc⟩

/-- **C03, positional tests after other location steps** (`a[b and position() = 2]`,
`a[@k or position() = 1]`, `a[. = last()]`, `a[not(c) and position() < last()]`, …): for every input
path `q` of the C02 fragment, the step `child::a` and a first predicate `cond` of the fragment
`PosCond` — comparisons among `position()`, `last()`, number literals and paths of the C02 fragment,
boolean predicates of the C02 fragment, combined with `and` / `or` / `not` in any order — the plan
the builder makes of `q/child::a[cond]` (plain filter or merge rewrite) selects exactly the oracle's
node set: the candidates `x` of an input node `p` on which `cond`, evaluated at `x` with the 1-based
position of `x` among the candidates of `p` and their number, is true.  `position()` and `last()`
count in the filtered step `a` wherever they stand in `cond` (`build_position_fi_is_filtered_step`) -/
theorem C03_after_steps (a : AxisInfo) (ha : a.axis = "child") (q : Ast) (hq : Frag true q)
    (cond : Ast) (hcond : PosCond cond) (st : BState) (o : BOut)
    (hb : build regexOk limit true false (.filter (.axis a q) cond) {} st = .ok o)
    (c : Ref) (hc : validRef d c = true) :
    ∃ out ns g origins g0, sel (F := F) d cfg o.q c = .ok out ∧
      Spec.eval (F := F) d (.filter (.axis a q) cond) ⟨c, 1, 1⟩ = .ok (.val (.nodes ns) g) ∧
      Spec.eval (F := F) d q ⟨c, 1, 1⟩ = .ok (.val (.nodes origins) g0) ∧
      (∀ x, x ∈ refs out ↔ x ∈ ns) ∧
      (∀ x, x ∈ ns ↔ ∃ p ∈ origins, ∃ k, (childCands d cfg a p)[k]? = some x ∧
        condTruth F d cond x (k + 1) (childCands d cfg a p).length = true) := by
  obtain ⟨qi, _, _, hok⟩ :=
    build_condStep (F := F) wf cfg hns hinj regexOk limit a ha q hq cond hcond {} st o hb
  exact (hok ⟨c, 1, 1⟩ hc).mem_iff

/-- the sequence the built plan yields, and the packaging as `PathOK` (so that further boolean
predicates and steps go on top with the lemmas of C02) -/
theorem C03_after_steps_seq (a : AxisInfo) (ha : a.axis = "child") (q : Ast) (hq : Frag true q)
    (cond : Ast) (hcond : PosCond cond) (st : BState) (o : BOut)
    (hb : build regexOk limit true false (.filter (.axis a q) cond) {} st = .ok o) :
    ∃ qi, ∀ c, validRef d c = true →
      CondStepOK F d cfg a cond o.q qi q ⟨c, 1, 1⟩ ∧
      PathOK (F := F) d cfg o.q (.filter (.axis a q) cond) ⟨c, 1, 1⟩ := by
  obtain ⟨qi, _, hs, hok⟩ :=
    build_condStep (F := F) wf cfg hns hinj regexOk limit a ha q hq cond hcond {} st o hb
  exact ⟨qi, fun c hc => ⟨hok ⟨c, 1, 1⟩ hc, (hok ⟨c, 1, 1⟩ hc).pathOK hs⟩⟩

/-- **`[b and position() op n]`, `[position() op n and b]`, `[b or position() op n]`,
`[position() op n or b]`** with `b` a boolean predicate of the C02 fragment: the built plan selects
exactly the oracle's node set, and these are the candidates `x` of an input node `p` such that `b`
holds at `x` and (resp. or) the 1-based position of `x` among the candidates of `p` compares with
the literal -/
theorem C03_bool_with_position (a : AxisInfo) (ha : a.axis = "child") (q : Ast) (hq : Frag true q)
    (s : MixShape) (b : Ast) (hbf : Frag false b) (cop : Spec.CmpOp) (pfx lex : String)
    (st : BState) (o : BOut)
    (hb : build regexOk limit true false
      (.filter (.axis a q) (s.ast b (PosForm.posCmp cop pfx lex).ast)) {} st = .ok o)
    (c : Ref) (hc : validRef d c = true) :
    ∃ out ns g origins g0, sel (F := F) d cfg o.q c = .ok out ∧
      Spec.eval (F := F) d (.filter (.axis a q) (s.ast b (PosForm.posCmp cop pfx lex).ast)) ⟨c, 1, 1⟩ =
        .ok (.val (.nodes ns) g) ∧
      Spec.eval (F := F) d q ⟨c, 1, 1⟩ = .ok (.val (.nodes origins) g0) ∧
      (∀ x, x ∈ refs out ↔ x ∈ ns) ∧
      (∀ x, x ∈ ns ↔ ∃ p ∈ origins, ∃ k, (childCands d cfg a p)[k]? = some x ∧
        s.comb (holds (F := F) d b x)
          (Spec.cmpNum cop (ofNat (k + 1) : F) (Spec.strToNum lex)) = true) := by
  obtain ⟨out, ns, g, origins, g0, h1, h2, h3, h4, h5⟩ :=
    C03_after_steps (F := F) wf cfg hns hinj regexOk limit a ha q hq _
      (posCond_mix s b _ hbf (posCond_posCmp cop pfx lex)) st o hb c hc
  refine ⟨out, ns, g, origins, g0, h1, h2, h3, h4, fun x => ?_⟩
  rw [h5]
  constructor
  · rintro ⟨p, hp, k, hk, ht⟩
    rw [condTruth_mix (F := F) wf cfg hns hinj s b hbf cop pfx lex x
      (childCands_valid d cfg a p x (List.mem_of_getElem? hk))] at ht
    exact ⟨p, hp, k, hk, ht⟩
  · rintro ⟨p, hp, k, hk, ht⟩
    rw [← condTruth_mix (F := F) wf cfg hns hinj s b hbf cop pfx lex x
      (childCands_valid d cfg a p x (List.mem_of_getElem? hk)) (k + 1) (childCands d cfg a p).length] at ht
    exact ⟨p, hp, k, hk, ht⟩

end Build

/-! ## Non-vacuity: the builder succeeds on the forms, and the merge rewrite does fire -/

section Examples

private def ch (n : String) : AxisInfo := ⟨"child", .elem, "", n, "", false, ""⟩

/-- `/a/b[2]`: merge form, the predicate is the literal -/
example : (build (fun _ => true) 100 true false
      (.filter (.axis (ch "b") (.axis (ch "a") (.root "/"))) (PosForm.lit "2").ast) {} {}).map (·.q) =
    .ok (.merge (.child (ch "a") .absolute) (.filter (.child (ch "b") .context) (.constNum "2"))) := rfl

/-- `b[position() <= 2]` from the context: plain form, `firstInput` is the child plan -/
example : (build (fun _ => true) 100 true false
      (.filter (.axis (ch "b") .none) (PosForm.posCmp .le "" "2").ast) {} {}).map (·.q) =
    .ok (.filter (.child (ch "b") .context)
      ((PosForm.posCmp .le "" "2").plan (.child (ch "b") .context))) := rfl

/-- `a/b[last()]`: merge form; `last()` keeps the recorded child plan as `firstInput` -/
example : (build (fun _ => true) 100 true false
      (.filter (.axis (ch "b") (.axis (ch "a") .none)) (PosForm.last "").ast) {} {}).map (·.q) =
    .ok (.merge (.child (ch "a") .context) (.filter (.child (ch "b") .context)
      ((PosForm.last "").plan (.child (ch "b") (.child (ch "a") .context))))) := rfl

/-- `a/b[last() - 1][c]` -/
example : ∃ o, build (fun _ => true) 100 true false
    (stackAst (.filter (.axis (ch "b") (.axis (ch "a") .none)) (PosForm.lastMinus "" "1").ast)
      [.axis (ch "c") .none]) {} {} = .ok o := ⟨_, rfl⟩

/-- `a[b and position() = 2]` (the repaired defect): `position()` counts in the filtered step `a`,
not in the step `b` built just before it -/
example : (build (fun _ => true) 100 true false
      (.filter (.axis (ch "a") .none)
        (MixShape.andPos.ast (.axis (ch "b") .none) (PosForm.posCmp .eq "" "2").ast)) {} {}).map (·.q) =
    .ok (.filter (.child (ch "a") .context)
      (.boolean false (.child (ch "b") .context)
        ((PosForm.posCmp .eq "" "2").plan (.child (ch "a") .context)))) := rfl

/-- `a[. = last()]`: `last()` counts in `a`, not in the step `.` -/
example : (build (fun _ => true) 100 true false
      (.filter (.axis (ch "a") .none)
        (.oper "=" (.axis selfNodeAxis .none) (NumAtom.last "").ast)) {} {}).map (·.q) =
    .ok (.filter (.child (ch "a") .context)
      (.logical "=" (.self selfNodeAxis .context) (.func "last" (.child (ch "a") .context) .pnil))) := rfl

/-- `a[count(b) = position()]` (outside the semantic fragment, inside `build_posBound`) -/
example : (build (fun _ => true) 100 true false
      (.filter (.axis (ch "a") .none)
        (.oper "=" (.call "count" "" (.acons (.axis (ch "b") .none) .anil)) (.call "position" "" .anil)))
      {} {}).map (·.q) =
    .ok (.filter (.child (ch "a") .context)
      (.logical "=" (.func "count" .nil (.pcons (.child (ch "b") .context) .pnil))
        (.func "position" (.child (ch "a") .context) .pnil))) := rfl

/-- a nested predicate counts in its own step: `a[b[position() = 1] and position() = 2]` -/
example : (build (fun _ => true) 100 true false
      (.filter (.axis (ch "a") .none)
        (.oper "and" (.filter (.axis (ch "b") .none) (PosForm.posCmp .eq "" "1").ast)
          (PosForm.posCmp .eq "" "2").ast)) {} {}).map (·.q) =
    .ok (.filter (.child (ch "a") .context)
      (.boolean false
        (.filter (.child (ch "b") .context) ((PosForm.posCmp .eq "" "1").plan (.child (ch "b") .context)))
        ((PosForm.posCmp .eq "" "2").plan (.child (ch "a") .context)))) := rfl

end Examples

end XPathV.PosSem

/-! ## Axiom audit -/
section AxiomAudit
open XPathV.PosSem
end AxiomAudit
