import XPathV.Lemmas.PosSem2
/-!
# C03 — `position()` / `last()` anywhere in the first predicate, on the extended fragment `Frag2`

`PosSem/CondBuild.lean` has the fragment `PosCond` of first predicates (boolean combinations of C02
predicates and of comparisons among `position()`, `last()`, number literals and paths) with the
embedded predicates and paths in `PredSem.Frag`; `PosSem2` lifted the *input path* to
`PredSem2.Frag2`.  Here the inside of the condition is lifted as well:

* `PosCond2` — the constructors of `PosCond`, the embedded boolean predicates in `Frag2 false`, the
  paths compared with `position()` / `last()` / a literal in `Frag2 true`;
* `posCond2_of_posCond : PosCond c → PosCond2 c`;
* `frag2_false_shape`, `build_posCond2`, `build_condStep3` — the counterparts of `frag_false_shape`,
  `build_posCond`, `build_condStep` / `build_condStep2`;
* `condTruth_frag2`, `posCond2_mix`, `condTruth_mix2` — the counterparts of `condTruth_frag`,
  `posCond_mix`, `condTruth_mix`;
* `C03_after_steps3`, `C03_bool_with_position3` — the two statements.
-/
namespace XPathV.PosSem3
open XPathV XPathV.Model XPathV.PathSem XPathV.PredSem XPathV.PredSem2 XPathV.PosSem XPathV.PosSem2
  NumAlg

variable {F : Type} [NumAlg F]

/-! ## the fragment -/

/-- first predicates in which positional tests and tests on the node are freely combined; the tests
on the node are those of the whole C02 fragment `Frag2` -/
inductive PosCond2 : Ast → Prop
  /-- `position() op n`, `position() = last()`, `2 >= position()`, … -/
  | cmpNN (op : String) (l r : NumAtom) : op ∈ cmpOps → PosCond2 (.oper op l.ast r.ast)
  /-- `p op position()`, `. = last()`, … for a path `p` of `Frag2` -/
  | cmpPN (op : String) (p : Ast) (n : NumAtom) : op ∈ cmpOps → Frag2 true p →
      PosCond2 (.oper op p n.ast)
  | cmpNP (op : String) (n : NumAtom) (p : Ast) : op ∈ cmpOps → Frag2 true p →
      PosCond2 (.oper op n.ast p)
  /-- a boolean predicate of `Frag2` -/
  | frag (b : Ast) : Frag2 false b → PosCond2 b
  | and (c1 c2 : Ast) : PosCond2 c1 → PosCond2 c2 → PosCond2 (.oper "and" c1 c2)
  | or (c1 c2 : Ast) : PosCond2 c1 → PosCond2 c2 → PosCond2 (.oper "or" c1 c2)
  | not (pfx : String) (c : Ast) : PosCond2 c → PosCond2 (.call "not" pfx (.acons c .anil))

/-- the extension contains `PosCond` -/
theorem posCond2_of_posCond (c : Ast) (h : PosCond c) : PosCond2 c := by
  induction h with
  | cmpNN op l r hop => exact .cmpNN op l r hop
  | cmpPN op p n hop hp => exact .cmpPN op p n hop (frag2_of_frag true p hp)
  | cmpNP op n p hop hp => exact .cmpNP op n p hop (frag2_of_frag true p hp)
  | frag b hb => exact .frag b (frag2_of_frag false b hb)
  | and c1 c2 _ _ ih1 ih2 => exact .and c1 c2 ih1 ih2
  | or c1 c2 _ _ ih1 ih2 => exact .or c1 c2 ih1 ih2
  | not pfx c _ ih => exact .not pfx c ih

theorem posCond2_posCmp (cop : Spec.CmpOp) (pfx lex : String) :
    PosCond2 (PosForm.posCmp cop pfx lex).ast :=
  posCond2_of_posCond _ (posCond_posCmp cop pfx lex)

theorem posCond2_posEqLast (p1 p2 : String) : PosCond2 (PosForm.posEqLast p1 p2).ast :=
  posCond2_of_posCond _ (posCond_posEqLast p1 p2)

theorem posCond2_mix (s : MixShape) (b f : Ast) (hb : Frag2 false b) (hf : PosCond2 f) :
    PosCond2 (s.ast b f) := by
  cases s
  · exact .and _ _ (.frag b hb) hf
  · exact .and _ _ hf (.frag b hb)
  · exact .or _ _ (.frag b hb) hf
  · exact .or _ _ hf (.frag b hb)

section Sem
variable {d : Doc} (wf : WF d) (cfg : ECfg) (hns : cfg.nsIface = true) (hinj : HashInj d cfg)
  (regexOk : RegexOk) (limit : Nat)
include wf hns hinj

/-! ## the plan of a boolean predicate of `Frag2` is not what `processFilter` rewrites -/

/-- the plan of a boolean predicate of `Frag2` is never a function call whose `firstInput` is a
filter (the shape `processFilter` rewrites to `lastFuncQuery`): it is a path-shaped plan, a
`.logical`, a `.boolean`, or a `.func` with `firstInput = .nil` -/
theorem frag2_false_shape (G : Type) [NumAlg G] (b : Ast) (hb : Frag2 false b) (fl : Flags)
    (st : BState) (o : BOut) (h : build regexOk limit true false b fl st = .ok o) :
    ∀ n fi fp ar, o.q ≠ .func n (.filter fi fp) ar := by
  intro n fi fp ar e
  have cmp : ∀ op l r, op ∈ cmpOps → b = .oper op l r → False := by
    intro op l r hop hb'
    subst hb'
    obtain ⟨_, _, _, _, _, hq, _⟩ := build_cmp_inv regexOk limit true false op hop _ _ fl st o h
    rw [hq] at e; cases e
  have tst : ∀ name pfx x y, name ∈ strTests → b = .call name pfx (.acons x (.acons y .anil)) →
      False := by
    intro name pfx x y hn hb'
    subst hb'
    obtain ⟨_, _, _, _, _, hq, _⟩ := build_strTest2_inv regexOk limit true false name hn pfx x y fl st o h
    rw [hq] at e; cases e
  have nt : ∀ pfx x, b = .call "not" pfx (.acons x .anil) → False := by
    intro pfx x hb'
    subst hb'
    obtain ⟨_, _, _, hq, _⟩ := build_not_inv regexOk limit true false pfx x fl st o h
    rw [hq] at e; cases e
  cases hb with
  | exist _ hp =>
    have hs := (((build_frag2 (F := G) wf cfg hns hinj regexOk limit true b hp).1 rfl).1 fl st o h).2.1
    rw [e] at hs; exact hs
  | eqStr p s _ => exact cmp "=" _ _ (by simp [cmpOps]) rfl
  | neStr p s _ => exact cmp "!=" _ _ (by simp [cmpOps]) rfl
  | cmpNumR op p lex hop _ => exact cmp op _ _ hop rfl
  | cmpNumL op lex p hop _ => exact cmp op _ _ hop rfl
  | not pfx b' _ => exact nt pfx _ rfl
  | and b1 b2 _ _ =>
    obtain ⟨_, _, _, _, _, hq, _⟩ := build_and_inv regexOk limit true false b1 b2 fl st o h
    rw [hq] at e; cases e
  | or b1 b2 _ _ =>
    obtain ⟨_, _, _, _, _, hq, _⟩ := build_or_inv regexOk limit true false b1 b2 fl st o h
    rw [hq] at e; cases e
  | countR op pfx p lex hop _ _ => exact cmp op _ _ hop rfl
  | countL op lex pfx p hop _ _ => exact cmp op _ _ hop rfl
  | notCount pfx pfx' p _ _ => exact nt pfx _ rfl
  | lnCmp op pfx lit hop => exact cmp op _ _ (eqOps_cmpOps hop) rfl
  | lnPathCmp op pfx p lit hop _ _ => exact cmp op _ _ (eqOps_cmpOps hop) rfl
  | strLit name pfx s lit hn => exact tst name pfx _ _ hn rfl
  | strLn name pfx pfx' lit hn => exact tst name pfx _ _ hn rfl
  | strLnPath name pfx pfx' p lit hn _ _ => exact tst name pfx _ _ hn rfl
  | strPath name pfx p lit hn _ _ => exact tst name pfx _ _ hn rfl
  | strPath2 name pfx p q hn _ _ _ _ => exact tst name pfx _ _ hn rfl
  | strLitPath name pfx s q hn _ _ => exact tst name pfx _ _ hn rfl
  | cmpPath op p q hop _ _ => exact cmp op _ _ hop rfl
  | cmpStrR op p s hop _ => exact cmp op _ _ hop rfl
  | cmpStrL op s p hop _ => exact cmp op _ _ hop rfl

/-! ## through the builder -/

/-- **conditions of `PosCond2`, built under `predInput = some step`**: wherever in the condition
`position()` / `last()` stand — behind `and` / `or` / `not`, next to any predicate of `Frag2`, after
any number of location steps — they count in `step`; when `step` tests what the child step `a`
tests, the plan agrees with the oracle at every candidate of the step, in the oracle's context
(proximity position, number of candidates of the same parent) -/
theorem build_posCond2 (a : AxisInfo) (step : Plan) (hstep : planTest d cfg step = nodeTestM d cfg a)
    (cond : Ast) (hc : PosCond2 cond) :
    ∀ (fl : Flags) (st : BState) (o : BOut), st.predInput = some step →
      build regexOk limit true false cond fl st = .ok o →
      CondOK F d cfg a o.q cond ∧ ∀ n fi fp ar, o.q ≠ .func n (.filter fi fp) ar := by
  induction hc with
  | cmpNN op l r hop =>
    intro fl st o hst0 hb
    have hst : BState.predInput ⟨st.depth + 1, st.firstInput, st.predInput⟩ = some step := hst0
    obtain ⟨lo, ro, hlo, hro, hq⟩ := build_cmp_inv' regexOk limit true false op hop _ _ fl st o hb
    obtain ⟨hl, hlp⟩ := build_numAtom_inv regexOk limit true false l _ _ lo step hst hlo
    obtain ⟨hr, _⟩ := build_numAtom_inv regexOk limit true false r _ _ ro step hlp hro
    refine ⟨fun p x k hk => ?_, fun n fi fp ar e => by rw [hq] at e; cases e⟩
    obtain ⟨h1, _, h3⟩ := position_is_proximity wf cfg a step hstep p x k hk
    rw [hq, hl, hr]
    refine predOK_cmpNumNum d cfg op hop _ _ _ _ _ _ _ ?_ ?_ (eval_numAtom d l x _ _)
      (eval_numAtom d r x _ _)
    · show evalP (F := F) d cfg (l.plan step) x = _
      rw [evalP_numAtom, h1, h3]
    · show evalP (F := F) d cfg (r.plan step) x = _
      rw [evalP_numAtom, h1, h3]
  | cmpPN op p n hop hp =>
    intro fl st o hst0 hb
    have hst : BState.predInput ⟨st.depth + 1, st.firstInput, st.predInput⟩ = some step := hst0
    obtain ⟨lo, ro, hlo, hro, hq⟩ := build_cmp_inv' regexOk limit true false op hop _ _ fl st o hb
    have hlp : lo.st.predInput = some step :=
      (build_predInput regexOk limit true false _ _ _ lo hlo).trans hst
    obtain ⟨hr, _⟩ := build_numAtom_inv regexOk limit true false n _ _ ro step hlp hro
    refine ⟨fun pp x k hk => ?_, fun n fi fp ar e => by rw [hq] at e; cases e⟩
    obtain ⟨h1, _, h3⟩ := position_is_proximity wf cfg a step hstep pp x k hk
    have hx : validRef d x = true := childCands_valid d cfg a pp x (List.mem_of_getElem? hk)
    have hpath := (operand_pathOK2 (F := F) wf cfg hns hinj regexOk limit p hp
      ((build_frag2 (F := F) wf cfg hns hinj regexOk limit true p hp).1 rfl).1 _ lo hlo
      ⟨x, k + 1, (childCands d cfg a pp).length⟩ hx).2
    rw [hq, hr]
    refine predOK_cmpPathNum d cfg op hop _ _ _ _ _ _ hpath ?_ (eval_numAtom d n x _ _)
    show evalP (F := F) d cfg (n.plan step) x = _
    rw [evalP_numAtom, h1, h3]
  | cmpNP op n p hop hp =>
    intro fl st o hst0 hb
    have hst : BState.predInput ⟨st.depth + 1, st.firstInput, st.predInput⟩ = some step := hst0
    obtain ⟨lo, ro, hlo, hro, hq⟩ := build_cmp_inv' regexOk limit true false op hop _ _ fl st o hb
    obtain ⟨hl, hlp⟩ := build_numAtom_inv regexOk limit true false n _ _ lo step hst hlo
    refine ⟨fun pp x k hk => ?_, fun n fi fp ar e => by rw [hq] at e; cases e⟩
    obtain ⟨h1, _, h3⟩ := position_is_proximity wf cfg a step hstep pp x k hk
    have hx : validRef d x = true := childCands_valid d cfg a pp x (List.mem_of_getElem? hk)
    have hpath := (operand_pathOK2 (F := F) wf cfg hns hinj regexOk limit p hp
      ((build_frag2 (F := F) wf cfg hns hinj regexOk limit true p hp).1 rfl).1 _ ro hro
      ⟨x, k + 1, (childCands d cfg a pp).length⟩ hx).2
    rw [hq, hl]
    refine predOK_cmpNumPath d cfg op hop _ _ _ _ _ _ hpath ?_ (eval_numAtom d n x _ _)
    show evalP (F := F) d cfg (n.plan step) x = _
    rw [evalP_numAtom, h1, h3]
  | frag b hb =>
    intro fl st o _ hbld
    refine ⟨fun pp x k hk => ?_, frag2_false_shape wf cfg hns hinj regexOk limit F b hb fl st o hbld⟩
    have hx : validRef d x = true := childCands_valid d cfg a pp x (List.mem_of_getElem? hk)
    exact (((build_frag2 (F := F) wf cfg hns hinj regexOk limit false b hb).2 rfl) fl st o hbld).2
      ⟨x, k + 1, (childCands d cfg a pp).length⟩ hx
  | and c1 c2 _ _ ih1 ih2 =>
    intro fl st o hst0 hb
    have hst : BState.predInput ⟨st.depth + 1, st.firstInput, st.predInput⟩ = some step := hst0
    obtain ⟨lo, ro, hlo, hro, hq⟩ := build_and_inv' regexOk limit true false c1 c2 fl st o hb
    have hlp : lo.st.predInput = some step :=
      (build_predInput regexOk limit true false _ _ _ lo hlo).trans hst
    obtain ⟨h1, _⟩ := ih1 _ _ lo hst hlo
    obtain ⟨h2, _⟩ := ih2 _ _ ro hlp hro
    refine ⟨fun pp x k hk => ?_, fun n fi fp ar e => by rw [hq] at e; cases e⟩
    rw [hq]
    exact predOK_and d cfg lo.q ro.q c1 c2 _ (h1 pp x k hk) (h2 pp x k hk)
  | or c1 c2 _ _ ih1 ih2 =>
    intro fl st o hst0 hb
    have hst : BState.predInput ⟨st.depth + 1, st.firstInput, st.predInput⟩ = some step := hst0
    obtain ⟨lo, ro, hlo, hro, hq⟩ := build_or_inv' regexOk limit true false c1 c2 fl st o hb
    have hlp : lo.st.predInput = some step :=
      (build_predInput regexOk limit true false _ _ _ lo hlo).trans hst
    obtain ⟨h1, _⟩ := ih1 _ _ lo hst hlo
    obtain ⟨h2, _⟩ := ih2 _ _ ro hlp hro
    refine ⟨fun pp x k hk => ?_, fun n fi fp ar e => by rw [hq] at e; cases e⟩
    rw [hq]
    exact predOK_or d cfg lo.q ro.q c1 c2 _ (h1 pp x k hk) (h2 pp x k hk)
  | not pfx c _ ih =>
    intro fl st o hst0 hb
    have hst : BState.predInput ⟨st.depth + 1, st.firstInput, st.predInput⟩ = some step := hst0
    obtain ⟨ho, hho, hq⟩ := build_not_inv' regexOk limit true false pfx c fl st o hb
    obtain ⟨h1, _⟩ := ih _ _ ho hst hho
    refine ⟨fun pp x k hk => ?_, fun n fi fp ar e => by rw [hq] at e; cases e⟩
    rw [hq]
    exact predOK_not d cfg ho.q c pfx _ (h1 pp x k hk)

/-- **`q/child::a[cond]` through `build`** (any flags), input path `q` in `Frag2 true`, `cond` in
`PosCond2`: the built plan is the plain filter or the merge form over the plan `qi` built for the
input path, and it keeps, for each input node in turn, the candidates on which the oracle's reading
of `cond` — at the candidate, with its proximity position and the number of candidates of the same
parent — is true -/
theorem build_condStep3 (a : AxisInfo) (ha : a.axis = "child") (q : Ast) (hq : Frag2 true q)
    (cond : Ast) (hc : PosCond2 cond) (fl : Flags) (st : BState) (o : BOut)
    (hb : build regexOk limit true false (.filter (.axis a q) cond) fl st = .ok o) :
    ∃ qi, ((q = .none ∧ qi = .context) ∨
        (q ≠ .none ∧ ∃ st' o1, build regexOk limit true false q {} st' = .ok o1 ∧ qi = o1.q)) ∧
      PathShape o.q ∧
      ∀ c : Spec.Ctx, validRef d c.node = true → CondStepOK F d cfg a cond o.q qi q c := by
  obtain ⟨st1, io, co, hio, hco, hres⟩ := build_filter_inv' regexOk limit true false _ _ fl st o hb
  obtain ⟨qi, hshape, hfirst, hqi⟩ := build_child_step_inv regexOk limit true false a ha q _ rfl st1 io hio
  have hstep : planTest d cfg io.q = nodeTestM d cfg a := by
    rcases hshape with h | h <;> rw [h] <;> rfl
  obtain ⟨hcond, hnf⟩ := build_posCond2 (F := F) wf cfg hns hinj regexOk limit a io.q hstep cond hc
    fl _ co hfirst hco
  have hin : ∀ c : Spec.Ctx, validRef d c.node = true → PathOK (F := F) d cfg qi q c :=
    fun c hc => input_pathOK2 (F := F) wf cfg hns hinj regexOk limit q hq qi hqi c hc
  refine ⟨qi, hqi, ?_, fun c hc => ?_⟩
  · rcases hres hnf with h | ⟨_, parent, _, h⟩ <;> rw [h] <;> trivial
  · rcases hshape with hio' | hio'
    · rcases hres hnf with h | ⟨_, parent, hpar, h⟩
      · rw [h, hio']
        exact condStep_filter (F := F) wf cfg hns a ha co.q cond hcond qi q c (hin c hc)
      · rw [hio'] at hpar
        cases hpar
        rw [h, hio']
        exact condStep_merge (F := F) wf cfg hns a ha co.q cond hcond qi q c (hin c hc)
    · rcases hres hnf with h | ⟨_, parent, hpar, h⟩
      · rw [h, hio']
        exact condStep_filter_cached (F := F) wf cfg hns a ha co.q cond hcond qi q c (hin c hc)
      · rw [hio'] at hpar
        cases hpar
        rw [h, hio']
        exact condStep_merge_cached (F := F) wf cfg hns a ha co.q cond hcond qi q c (hin c hc)

/-- **C03, positional tests anywhere in the first predicate, everything in `Frag2`**: the plan the
builder produces for `q/child::a[cond]` (`q` in `Frag2 true`, `cond` in `PosCond2`) selects exactly
the XPath 1.0 node set of the expression, and these are the candidates `x` of an input node `p` on
which the oracle's reading of `cond` — at `x`, with the 1-based position of `x` among the candidates
of `p` and their number — is true -/
theorem C03_after_steps3 (a : AxisInfo) (ha : a.axis = "child") (q : Ast) (hq : Frag2 true q)
    (cond : Ast) (hcond : PosCond2 cond) (st : BState) (o : BOut)
    (hb : build regexOk limit true false (.filter (.axis a q) cond) {} st = .ok o)
    (c : Ref) (hc : validRef d c = true) :
    ∃ out ns g origins g0, sel (F := F) d cfg o.q c = .ok out ∧
      Spec.eval (F := F) d (.filter (.axis a q) cond) ⟨c, 1, 1⟩ = .ok (.val (.nodes ns) g) ∧
      Spec.eval (F := F) d q ⟨c, 1, 1⟩ = .ok (.val (.nodes origins) g0) ∧
      (∀ x, x ∈ refs out ↔ x ∈ ns) ∧
      (∀ x, x ∈ ns ↔ ∃ p ∈ origins, ∃ k, (childCands d cfg a p)[k]? = some x ∧
        condTruth F d cond x (k + 1) (childCands d cfg a p).length = true) := by
  obtain ⟨qi, _, _, hok⟩ :=
    build_condStep3 (F := F) wf cfg hns hinj regexOk limit a ha q hq cond hcond {} st o hb
  exact (hok ⟨c, 1, 1⟩ hc).mem_iff

/-! ## the oracle's verdict, spelled out -/

/-- a boolean predicate of `Frag2`: its truth at the node, whatever position and size -/
theorem condTruth_frag2 (b : Ast) (hb : Frag2 false b) (x : Ref) (hx : validRef d x = true)
    (pos size : Nat) : condTruth F d b x pos size = holds (F := F) d b x := by
  have hp := fun pos size => (frag_sem2 (F := F) wf cfg hns hinj false b hb ⟨x, pos, size⟩ hx).2 rfl
  obtain ⟨_, sv, g, _, hS, _, hnn, _⟩ := hp pos size
  obtain ⟨_, res, _, hS', _, _, _, htr⟩ := predOK_holds (F := F) d cfg (predPlan2 b) b x hp pos size
  rw [hS] at hS'
  cases hS'
  rw [condTruth_of_eval (F := F) b x pos size sv g hS hnn]
  exact htr

/-- the oracle's verdict on `b and position() op n` (and the three other arrangements) at a
candidate, `b` in `Frag2 false`: `b` holds at the node, and/or the candidate's position compares
with `n` -/
theorem condTruth_mix2 (s : MixShape) (b : Ast) (hb : Frag2 false b) (cop : Spec.CmpOp)
    (pfx lex : String) (x : Ref) (hx : validRef d x = true) (pos size : Nat) :
    condTruth F d (s.ast b (PosForm.posCmp cop pfx lex).ast) x pos size =
      s.comb (holds (F := F) d b x) (Spec.cmpNum cop (ofNat pos : F) (Spec.strToNum lex)) := by
  obtain ⟨_, r1, _, h1, _, _, _, ht1⟩ := predOK_holds (F := F) d cfg (predPlan2 b) b x
    (fun pos size => (frag_sem2 (F := F) wf cfg hns hinj false b hb ⟨x, pos, size⟩ hx).2 rfl) pos size
  have h2 := eval_form (F := F) d (.posCmp cop pfx lex) x pos size
  have ht2 : Spec.toBool (Spec.Res.val ((PosForm.posCmp cop pfx lex).specVal (F := F) pos size) none).value =
      Spec.cmpNum cop (ofNat pos : F) (Spec.strToNum lex) := rfl
  cases s
  · rw [MixShape.ast, condTruth_and (F := F) _ _ x pos size _ _ h1 h2, ht1, ht2]; rfl
  · rw [MixShape.ast, condTruth_and (F := F) _ _ x pos size _ _ h2 h1, ht1, ht2, Bool.and_comm]; rfl
  · rw [MixShape.ast, condTruth_or (F := F) _ _ x pos size _ _ h1 h2, ht1, ht2]; rfl
  · rw [MixShape.ast, condTruth_or (F := F) _ _ x pos size _ _ h2 h1, ht1, ht2, Bool.or_comm]; rfl

/-- **`[b and position() op n]` / `[position() op n and b]` / `[b or position() op n]` /
`[position() op n or b]`, everything in `Frag2`**: `q` in `Frag2 true`, `b` in `Frag2 false` -/
theorem C03_bool_with_position3 (a : AxisInfo) (ha : a.axis = "child") (q : Ast) (hq : Frag2 true q)
    (s : MixShape) (b : Ast) (hbf : Frag2 false b) (cop : Spec.CmpOp) (pfx lex : String)
    (st : BState) (o : BOut)
    (hb : build regexOk limit true false
      (.filter (.axis a q) (s.ast b (PosForm.posCmp cop pfx lex).ast)) {} st = .ok o)
    (c : Ref) (hc : validRef d c = true) :
    ∃ out ns g origins g0, sel (F := F) d cfg o.q c = .ok out ∧
      Spec.eval (F := F) d (.filter (.axis a q) (s.ast b (PosForm.posCmp cop pfx lex).ast)) ⟨c, 1, 1⟩ =
        .ok (.val (.nodes ns) g) ∧
      Spec.eval (F := F) d q ⟨c, 1, 1⟩ = .ok (.val (.nodes origins) g0) ∧
      (∀ x, x ∈ refs out ↔ x ∈ ns) ∧
      (∀ x, x ∈ ns ↔ ∃ p ∈ origins, ∃ k, (childCands d cfg a p)[k]? = some x ∧
        s.comb (holds (F := F) d b x)
          (Spec.cmpNum cop (ofNat (k + 1) : F) (Spec.strToNum lex)) = true) := by
  obtain ⟨out, ns, g, origins, g0, h1, h2, h3, h4, h5⟩ :=
    C03_after_steps3 (F := F) wf cfg hns hinj regexOk limit a ha q hq _
      (posCond2_mix s b _ hbf (posCond2_posCmp cop pfx lex)) st o hb c hc
  refine ⟨out, ns, g, origins, g0, h1, h2, h3, h4, fun x => ?_⟩
  rw [h5]
  constructor
  · rintro ⟨p, hp, k, hk, ht⟩
    rw [condTruth_mix2 (F := F) wf cfg hns hinj s b hbf cop pfx lex x
      (childCands_valid d cfg a p x (List.mem_of_getElem? hk))] at ht
    exact ⟨p, hp, k, hk, ht⟩
  · rintro ⟨p, hp, k, hk, ht⟩
    rw [← condTruth_mix2 (F := F) wf cfg hns hinj s b hbf cop pfx lex x
      (childCands_valid d cfg a p x (List.mem_of_getElem? hk)) (k + 1) (childCands d cfg a p).length] at ht
    exact ⟨p, hp, k, hk, ht⟩

end Sem

end XPathV.PosSem3

/-! ## Axiom audit -/
section AxiomAudit
open XPathV.PosSem3
end AxiomAudit
