import XPathV.Lemmas.StringFns
import XPathV.Lemmas.ArithSem2
/-!
# C09 — nested string-function calls whose leaves are string literals **and flat (filtered) paths**

`StringFns/Nested` (`StrE`, `strE_sem`) treats nested string-function calls over string literals.
This module adds node-set leaves:

* `StrEP L NS b e` — the parametric copy of `StrE`: `b = true`: `e` is a string-valued expression
  (a literal or a call), `b = false`: `e` is an *argument* (a string-valued expression, or a leaf `p`
  with `L p`).  `NS a` is the side condition of `normalize-space(a)`.
* `NormDom d ctx F a` — the oracle-side domain condition of `normalize-space(a)`: the string the
  oracle reads `a` as is one on which Go's `unicode.IsSpace` and XML whitespace coincide (`Plain`)
* `StrE2 d ctx F := StrEP FlatF2 (NormDom d ctx F) true`
* `strEP_sem` — generic induction (leaf obligation `LeafOK`: engine and oracle give the same node list)
* `leafOK_flat2` — the leaf obligation from `ArithSem2.flat2_same_list`
* `C09_nested2` — built plan's value = oracle's value (`evalP`, `Evaluate`, `eval`, `evalTop`)
* `strE2_of_strE` — old fragment → new
-/
namespace XPathV.StringFns2
open XPathV XPathV.Model NumAlg XPathV.StringFns XPathV.PathSem
open XPathV.Theorems.C08 (emb)
open XPathV.ArithSem2 (FlatF2 flat2_same_list)

variable {F : Type} [NumAlg F]

/-! ## the fragment -/

/-- nested string expressions with leaves `L` in argument position (`b = false`: argument,
`b = true`: string-valued expression) -/
inductive StrEP (L : Ast → Prop) (NS : Ast → Prop) : Bool → Ast → Prop
  | lit (s : String) : StrEP L NS true (.str s)
  | arg (a : Ast) : StrEP L NS true a → StrEP L NS false a
  | path (p : Ast) : L p → StrEP L NS false p
  | concat (pfx : String) (args : List Ast) : 2 ≤ args.length → (∀ a ∈ args, StrEP L NS false a) →
      StrEP L NS true (.call "concat" pfx (Ast.ofArgList args))
  | substringBefore (pfx : String) (a b : Ast) : StrEP L NS false a → StrEP L NS false b →
      StrEP L NS true (.call "substring-before" pfx (.acons a (.acons b .anil)))
  | substringAfter (pfx : String) (a b : Ast) : StrEP L NS false a → StrEP L NS false b →
      StrEP L NS true (.call "substring-after" pfx (.acons a (.acons b .anil)))
  | substring2 (pfx : String) (a : Ast) (start : String) : StrEP L NS false a →
      StrEP L NS true (.call "substring" pfx (.acons a (.acons (.num start) .anil)))
  | substring3 (pfx : String) (a : Ast) (start len : String) : StrEP L NS false a →
      StrEP L NS true (.call "substring" pfx (.acons a (.acons (.num start) (.acons (.num len) .anil))))
  | normalizeSpace (pfx : String) (a : Ast) : StrEP L NS false a → NS a →
      StrEP L NS true (.call "normalize-space" pfx (.acons a .anil))
  | translate (pfx : String) (a b c : Ast) : StrEP L NS false a → StrEP L NS false b →
      StrEP L NS false c → StrEP L NS true (.call "translate" pfx (.acons a (.acons b (.acons c .anil))))
  | lowerCase (pfx : String) (a : Ast) : StrEP L NS false a →
      StrEP L NS true (.call "lower-case" pfx (.acons a .anil))
  | string (pfx : String) (a : Ast) : StrEP L NS false a →
      StrEP L NS true (.call "string" pfx (.acons a .anil))

theorem StrEP.mono {L L' NS NS' : Ast → Prop} (hL : ∀ p, L p → L' p) (hN : ∀ a, NS a → NS' a)
    {b : Bool} {e : Ast} (h : StrEP L NS b e) : StrEP L' NS' b e := by
  induction h with
  | lit s => exact .lit s
  | arg a _ ih => exact .arg a ih
  | path p hp => exact .path p (hL p hp)
  | concat pfx args h2 _ ih => exact .concat pfx args h2 ih
  | substringBefore pfx a b _ _ iha ihb => exact .substringBefore pfx a b iha ihb
  | substringAfter pfx a b _ _ iha ihb => exact .substringAfter pfx a b iha ihb
  | substring2 pfx a start _ iha => exact .substring2 pfx a start iha
  | substring3 pfx a start len _ iha => exact .substring3 pfx a start len iha
  | normalizeSpace pfx a _ hn iha => exact .normalizeSpace pfx a iha (hN a hn)
  | translate pfx a b c _ _ _ iha ihb ihc => exact .translate pfx a b c iha ihb ihc
  | lowerCase pfx a _ iha => exact .lowerCase pfx a iha
  | string pfx a _ iha => exact .string pfx a iha

/-- the oracle-side domain of `normalize-space(a)`: the string the oracle reads the argument as is
`Plain` (Go's `unicode.IsSpace` and XML whitespace agree on each of its characters) -/
def NormDom (d : Doc) (ctx : Spec.Ctx) (F : Type) [NumAlg F] (a : Ast) : Prop :=
  ∀ (v : Spec.Value F) g, Spec.eval (F := F) d a ctx = .ok (.val v g) → Plain (Spec.toStr d v)

/-- **the C09 fragment with path leaves**: `StrE` plus flat (possibly filtered) paths of the C02
fragment wherever a string-valued argument is allowed (including `string(P)`) -/
abbrev StrE2 (d : Doc) (ctx : Spec.Ctx) (F : Type) [NumAlg F] : Ast → Prop :=
  StrEP FlatF2 (NormDom d ctx F) true

/-! ## semantic agreement at one context -/

/-- `e` has the value `v` on both sides at the context `⟨c, i, n⟩`: whenever
`build regexOk limit true false e {}` succeeds, the oracle evaluates `e` to `v` and the plan evaluates
to `emb v` at `c` -/
def SemC (d : Doc) (cfg : ECfg) (regexOk : RegexOk) (limit : Nat) (c : Ref) (i n : Nat)
    (e : Ast) (v : Spec.Value F) : Prop :=
  ∀ st o, build regexOk limit true false e {} st = .ok o →
    (∃ g, Spec.eval (F := F) d e ⟨c, i, n⟩ = .ok (.val v g)) ∧ evalP (F := F) d cfg o.q c = .ok (emb v)

/-- the strong form calls produce: any flags -/
def SemCF (d : Doc) (cfg : ECfg) (regexOk : RegexOk) (limit : Nat) (c : Ref) (i n : Nat)
    (e : Ast) (v : Spec.Value F) : Prop :=
  ∀ fl st o, build regexOk limit true false e fl st = .ok o →
    Spec.eval (F := F) d e ⟨c, i, n⟩ = .ok (.val v none) ∧ evalP (F := F) d cfg o.q c = .ok (emb v)

theorem SemCF.semC {d : Doc} {cfg : ECfg} {regexOk : RegexOk} {limit : Nat} {c : Ref} {i n : Nat}
    {e : Ast} {v : Spec.Value F} (h : SemCF d cfg regexOk limit c i n e v) :
    SemC d cfg regexOk limit c i n e v :=
  fun st o hb => ⟨⟨none, (h {} st o hb).1⟩, (h {} st o hb).2⟩

theorem semV_semCF {d : Doc} {e : Ast} {v : Spec.Value F} (h : SemV d e v)
    (cfg : ECfg) (regexOk : RegexOk) (limit : Nat) (c : Ref) (i n : Nat) :
    SemCF d cfg regexOk limit c i n e v :=
  fun fl st o hb => ⟨h.1 _, h.2 regexOk limit true false fl st o hb cfg c⟩

section Fixed
variable (d : Doc) (cfg : ECfg) (regexOk : RegexOk) (limit : Nat) (c : Ref) (i n : Nat)

/-- the oracle evaluates each argument to the corresponding value -/
abbrev EvalsTo (a : Ast) (v : Spec.Value F) : Prop :=
  ∃ g, Spec.eval (F := F) d a ⟨c, i, n⟩ = .ok (.val v g)

theorem args_sem2 (args : List Ast) (vs : List (Spec.Value F))
    (h : All2 (SemC d cfg regexOk limit c i n) args vs) :
    ∀ k st o, args.length ≤ k →
      build regexOk limit true false (Ast.ofArgList args) { take := k } st = .ok o →
      Spec.eval (F := F) d (Ast.ofArgList args) ⟨c, i, n⟩ = .ok (.args vs) ∧
      All2 (EvalsTo d c i n) args vs ∧
      argVals (F := F) d cfg o.q c = .ok (vs.map (fun v => .ok (emb v))) := by
  induction h with
  | nil =>
    intro k st o _ h
    simp only [Ast.ofArgList] at h
    rw [build] at h
    cases h
    exact ⟨by simp [Ast.ofArgList, Spec.eval], .nil, by simp [argVals]⟩
  | @cons a v as vs' hav _ ih =>
    intro k st o hk h
    simp only [Ast.ofArgList] at h
    rw [build] at h
    have hk0 : ¬ ((({ take := k } : Flags).take == 0) = true) := by
      simp only [List.length_cons] at hk
      simp; omega
    rw [if_neg hk0] at h
    obtain ⟨ho, hho, h⟩ := StringFns.except_bind_ok _ _ _ h
    obtain ⟨to, hto, h⟩ := StringFns.except_bind_ok _ _ _ h
    cases h
    obtain ⟨⟨g, hs⟩, hm⟩ := hav _ _ hho
    obtain ⟨ih1, ih2, ih3⟩ := ih (k - 1) ho.st to (by simp only [List.length_cons] at hk; omega) hto
    refine ⟨?_, .cons ⟨g, hs⟩ ih2, ?_⟩
    · simp [Ast.ofArgList, Spec.eval, hs, ih1, bind, Except.bind, Spec.Res.value, Spec.Res.argList]
    · simp only [argVals, bind, Except.bind]
      rw [ih3]
      simp only [List.map_cons]
      rw [hm]

theorem call_sem2 (name pfx : String) (args : List Ast) (vs : List (Spec.Value F))
    (hF : All2 (SemC d cfg regexOk limit c i n) args vs) (v : Spec.Value F)
    (hn : name ∉ specialNames) (hlen : args.length ≠ 0)
    (hused : args.length ≤ fnUsed name args.length)
    (hlib : All2 (EvalsTo d c i n) args vs →
      Spec.callFn d ⟨c, i, n⟩ name vs = .ok v ∧
      callFn d cfg name .nil c (vs.map (fun v => .ok (emb v))) none = .ok (emb v)) :
    SemCF d cfg regexOk limit c i n (.call name pfx (Ast.ofArgList args)) v := by
  have a2 := args_sem2 d cfg regexOk limit c i n args vs hF
  simp only [specialNames, List.mem_cons, List.not_mem_nil, or_false, not_or] at hn
  obtain ⟨n1, n2, n3, n4, n5, n6, n7⟩ := hn
  intro fl st o h
  obtain ⟨ao, hao, hq⟩ := build_call_inv regexOk limit true false name pfx _ fl st o h n1 n2 n3 n4
    (by rw [argList_ofArgList]; exact hlen)
  rw [argList_ofArgList] at hao
  obtain ⟨a1, ae, a3⟩ := a2 _ _ _ hused hao
  obtain ⟨hspec, hmodel⟩ := hlib ae
  refine ⟨?_, ?_⟩
  · simp [Spec.eval, a1, bind, Except.bind, Spec.Res.argList, hspec]
  · rw [hq, evalP_func d cfg name ao.q c _ n5 n6 n7 a3]
    exact hmodel

end Fixed

/-! ## the function library on string-like values (strings and node lists) -/

section Lib
variable (d : Doc) (cfg : ECfg) (fi : Plan) (c : Ref) (asel : Option (List Ref))

theorem m_substringBefore (v w : Spec.Value F) (hv : StrLike v) (hw : StrLike w) :
    callFn (F := F) d cfg "substring-before" fi c [.ok (emb v), .ok (emb w)] asel
      = .ok (.str (Spec.fnSubstringBefore (Spec.toStr d v) (Spec.toStr d w))) := by
  rcases hv with s | (_ | ⟨r, l⟩) <;> rcases hw with s' | (_ | ⟨r', l'⟩) <;>
    simp [callFn, emb, Spec.toStr, bind, Except.bind, fnSubstringBefore_empty]

theorem m_substringAfter (v w : Spec.Value F) (hv : StrLike v) (hw : StrLike w) :
    callFn (F := F) d cfg "substring-after" fi c [.ok (emb v), .ok (emb w)] asel
      = .ok (.str (Spec.fnSubstringAfter (Spec.toStr d v) (Spec.toStr d w))) := by
  rcases hv with s | (_ | ⟨r, l⟩) <;> rcases hw with s' | (_ | ⟨r', l'⟩) <;>
    simp [callFn, emb, Spec.toStr, bind, Except.bind, fnSubstringAfter_empty]

theorem fnSubstring2_empty (x : F) : Spec.fnSubstring2 "" x = "" := by
  have := Theorems.C09.substring2_spec (F := F) "" x
  rw [substringM_empty] at this
  exact this.symm

theorem fnSubstring3_empty (x y : F) : Spec.fnSubstring3 "" x y = "" := by
  have := Theorems.C09.substring3_spec (F := F) "" x y
  rw [substringM_empty] at this
  exact this.symm

theorem m_substring2 (v : Spec.Value F) (x : F) (hv : StrLike v) :
    callFn (F := F) d cfg "substring" fi c [.ok (emb v), .ok (.num x)] asel
      = .ok (.str (Spec.fnSubstring2 (Spec.toStr d v) x)) := by
  rcases hv with s | (_ | ⟨r, l⟩) <;>
    simp [callFn, emb, Spec.toStr, bind, Except.bind, Theorems.C09.substring2_spec, fnSubstring2_empty]

theorem m_substring3 (v : Spec.Value F) (x y : F) (hv : StrLike v) :
    callFn (F := F) d cfg "substring" fi c [.ok (emb v), .ok (.num x), .ok (.num y)] asel
      = .ok (.str (Spec.fnSubstring3 (Spec.toStr d v) x y)) := by
  rcases hv with s | (_ | ⟨r, l⟩) <;>
    simp [callFn, emb, Spec.toStr, bind, Except.bind, Theorems.C09.substring3_spec, fnSubstring3_empty]

theorem fnNormalizeSpace_empty : Spec.fnNormalizeSpace "" = "" := by
  rw [← normalizeSpace_spec "" plain_empty, normalizeSpaceM_empty]

theorem m_normalizeSpace (v : Spec.Value F) (hv : StrLike v) (hp : Plain (Spec.toStr d v)) :
    callFn (F := F) d cfg "normalize-space" fi c [.ok (emb v)] asel
      = .ok (.str (Spec.fnNormalizeSpace (Spec.toStr d v))) := by
  rw [← normalizeSpace_spec _ hp]
  rcases hv with s | (_ | ⟨r, l⟩) <;>
    simp [callFn, emb, Spec.toStr, bind, Except.bind, normalizeSpaceM_empty]

theorem m_translate (u v w : Spec.Value F) (hu : StrLike u) (hv : StrLike v) (hw : StrLike w) :
    callFn (F := F) d cfg "translate" fi c [.ok (emb u), .ok (emb v), .ok (emb w)] asel
      = .ok (.str (Spec.fnTranslate (Spec.toStr d u) (Spec.toStr d v) (Spec.toStr d w))) := by
  rcases hu with s | (_ | ⟨r, l⟩) <;> rcases hv with s' | (_ | ⟨r', l'⟩) <;>
    rcases hw with s'' | (_ | ⟨r'', l''⟩) <;>
    simp [callFn, emb, Spec.toStr, bind, Except.bind, asStringM]

theorem m_lowerCase (v : Spec.Value F) (hv : StrLike v) :
    callFn (F := F) d cfg "lower-case" fi c [.ok (emb v)] asel
      = .ok (.str (Spec.fnLowerCase (Spec.toStr d v))) := by
  rcases hv with s | (_ | ⟨r, l⟩) <;>
    simp [callFn, emb, Spec.toStr, bind, Except.bind, asStringM]

theorem m_string (v : Spec.Value F) :
    callFn (F := F) d cfg "string" fi c [.ok (emb v)] asel = .ok (.str (Spec.toStr d v)) :=
  (fn_string_spec d cfg fi c asel ⟨c, 1, 1⟩ v).model_eq rfl

end Lib

/-! ## the induction -/

/-- leaf obligation: on a leaf the built plan and the oracle yield the same node list -/
def LeafOK (d : Doc) (cfg : ECfg) (regexOk : RegexOk) (limit : Nat) (c : Ref) (i n : Nat)
    (F : Type) [NumAlg F] (L : Ast → Prop) : Prop :=
  ∀ p, L p → ∀ st o, build regexOk limit true false p {} st = .ok o →
    ∃ ns g, evalP (F := F) d cfg o.q c = .ok (.nodes ns) ∧
      Spec.eval (F := F) d p ⟨c, i, n⟩ = .ok (.val (.nodes ns) g)

/-- the leaf obligation holds for flat filtered paths (`ArithSem2.flat2_same_list`) -/
theorem leafOK_flat2 {d : Doc} (wf : WF d) (cfg : ECfg) (hns : cfg.nsIface = true)
    (hinj : HashInj d cfg) (regexOk : RegexOk) (limit : Nat)
    (c : Ref) (hc : validRef d c = true) (i n : Nat) :
    LeafOK d cfg regexOk limit c i n F FlatF2 := by
  intro p hp st o hb
  exact flat2_same_list (F := F) wf cfg hns hinj regexOk limit c hc i n hp st o hb

/-- on a leaf where `build` fails the statement is about the oracle only: we need a value anyway -/
def Good2 (d : Doc) (cfg : ECfg) (regexOk : RegexOk) (limit : Nat) (c : Ref) (i n : Nat)
    (b : Bool) (e : Ast) (v : Spec.Value F) : Prop :=
  SemC d cfg regexOk limit c i n e v ∧ StrLike v ∧ (b = true → ∃ s, v = .str s)

theorem all2_good2_sem (d : Doc) (cfg : ECfg) (regexOk : RegexOk) (limit : Nat) (c : Ref) (i n : Nat)
    (args : List Ast) (vs : List (Spec.Value F))
    (h : All2 (Good2 d cfg regexOk limit c i n false) args vs) :
    All2 (SemC d cfg regexOk limit c i n) args vs ∧ ∀ v ∈ vs, StrLike v := by
  induction h with
  | nil => exact ⟨.nil, fun v hv => by cases hv⟩
  | cons h _ ih =>
    refine ⟨.cons h.1 ih.1, fun v hv => ?_⟩
    rcases List.mem_cons.1 hv with rfl | hv
    · exact h.2.1
    · exact ih.2 v hv


theorem good2_of_semCF {d : Doc} {cfg : ECfg} {regexOk : RegexOk} {limit : Nat} {c : Ref} {i n : Nat}
    {e : Ast} {s : String} (h : SemCF (F := F) d cfg regexOk limit c i n e (.str s)) :
    ∃ v, Good2 (F := F) d cfg regexOk limit c i n true e v ∧
      (true = true → SemCF d cfg regexOk limit c i n e v) :=
  ⟨.str s, ⟨h.semC, .str s, fun _ => ⟨s, rfl⟩⟩, fun _ => h⟩

/-- **nested calls over literals and leaves**: every member of the fragment has one value at the
context `⟨c, i, n⟩` — a string for an expression, a string or the leaf's node list for an argument —
which the oracle assigns and every plan `build` makes evaluates to -/
theorem strEP_good (d : Doc) (cfg : ECfg) (regexOk : RegexOk) (limit : Nat) (c : Ref) (i n : Nat)
    {L : Ast → Prop} (hL : LeafOK d cfg regexOk limit c i n F L)
    (b : Bool) (e : Ast) (h : StrEP L (NormDom d ⟨c, i, n⟩ F) b e) :
    ∃ v, Good2 (F := F) d cfg regexOk limit c i n b e v ∧
      (b = true → SemCF d cfg regexOk limit c i n e v) := by
  induction h with
  | lit s => exact good2_of_semCF (semV_semCF (semV_str d s) cfg regexOk limit c i n)
  | arg a _ ih =>
    obtain ⟨v, hv, _⟩ := ih
    exact ⟨v, ⟨hv.1, hv.2.1, fun hb => by cases hb⟩, fun hb => by cases hb⟩
  | path p hp =>
    by_cases hex : ∃ st o, build regexOk limit true false p {} st = .ok o
    · obtain ⟨st0, o0, hb0⟩ := hex
      obtain ⟨ns, g, _, hS⟩ := hL p hp st0 o0 hb0
      refine ⟨.nodes ns, ⟨?_, .nodes ns, fun hb => by cases hb⟩, fun hb => by cases hb⟩
      intro st o hb
      obtain ⟨ns', g', hE', hS'⟩ := hL p hp st o hb
      rw [hS] at hS'
      cases hS'
      exact ⟨⟨g, hS⟩, hE'⟩
    · exact ⟨.nodes [], ⟨fun st o hb => absurd ⟨st, o, hb⟩ hex, .nodes [], fun hb => by cases hb⟩,
        fun hb => by cases hb⟩
  | concat pfx args h2 _ ih =>
    obtain ⟨vs, hvs⟩ := exists_all2 (Good2 (F := F) d cfg regexOk limit c i n false) args
      (fun a ha => let ⟨v, hv, _⟩ := ih a ha; ⟨v, hv⟩)
    have hlen := all2_length hvs
    obtain ⟨hsem, hlike⟩ := all2_good2_sem d cfg regexOk limit c i n args vs hvs
    exact good2_of_semCF (call_sem2 d cfg regexOk limit c i n "concat" pfx args vs hsem _
      (by decide) (by omega) (by simp [fnUsed])
      (fun _ => ⟨spec_concat d _ vs (by omega), callFn_concat d cfg .nil c none vs hlike⟩))
  | substringBefore pfx a b _ _ iha ihb =>
    obtain ⟨va, ha, _⟩ := iha
    obtain ⟨vb, hb, _⟩ := ihb
    exact good2_of_semCF (call_sem2 d cfg regexOk limit c i n "substring-before" pfx [a, b] [va, vb]
      (.cons ha.1 (.cons hb.1 .nil)) _ (by decide) (by simp) (by simp [fnUsed])
      (fun _ => ⟨rfl, m_substringBefore d cfg .nil c none va vb ha.2.1 hb.2.1⟩))
  | substringAfter pfx a b _ _ iha ihb =>
    obtain ⟨va, ha, _⟩ := iha
    obtain ⟨vb, hb, _⟩ := ihb
    exact good2_of_semCF (call_sem2 d cfg regexOk limit c i n "substring-after" pfx [a, b] [va, vb]
      (.cons ha.1 (.cons hb.1 .nil)) _ (by decide) (by simp) (by simp [fnUsed])
      (fun _ => ⟨rfl, m_substringAfter d cfg .nil c none va vb ha.2.1 hb.2.1⟩))
  | substring2 pfx a start _ iha =>
    obtain ⟨va, ha, _⟩ := iha
    exact good2_of_semCF (call_sem2 d cfg regexOk limit c i n "substring" pfx [a, .num start]
      [va, .num (Spec.strToNum start)]
      (.cons ha.1 (.cons (semV_semCF (semV_num d start) cfg regexOk limit c i n).semC .nil)) _
      (by decide) (by simp) (by simp [fnUsed])
      (fun _ => ⟨rfl, m_substring2 d cfg .nil c none va _ ha.2.1⟩))
  | substring3 pfx a start len _ iha =>
    obtain ⟨va, ha, _⟩ := iha
    exact good2_of_semCF (call_sem2 d cfg regexOk limit c i n "substring" pfx [a, .num start, .num len]
      [va, .num (Spec.strToNum start), .num (Spec.strToNum len)]
      (.cons ha.1 (.cons (semV_semCF (semV_num d start) cfg regexOk limit c i n).semC
        (.cons (semV_semCF (semV_num d len) cfg regexOk limit c i n).semC .nil))) _
      (by decide) (by simp) (by simp [fnUsed])
      (fun _ => ⟨rfl, m_substring3 d cfg .nil c none va _ _ ha.2.1⟩))
  | normalizeSpace pfx a _ hn iha =>
    obtain ⟨va, ha, _⟩ := iha
    refine good2_of_semCF (call_sem2 d cfg regexOk limit c i n "normalize-space" pfx [a] [va]
      (.cons ha.1 .nil) (.str (Spec.fnNormalizeSpace (Spec.toStr d va)))
      (by decide) (by simp) (by simp [fnUsed]) ?_)
    intro hev
    cases hev with
    | cons h1 _ =>
      obtain ⟨g, hs⟩ := h1
      exact ⟨rfl, m_normalizeSpace d cfg .nil c none va ha.2.1 (hn va g hs)⟩
  | translate pfx a b c' _ _ _ iha ihb ihc =>
    obtain ⟨va, ha, _⟩ := iha
    obtain ⟨vb, hb, _⟩ := ihb
    obtain ⟨vc, hc, _⟩ := ihc
    exact good2_of_semCF (call_sem2 d cfg regexOk limit c i n "translate" pfx [a, b, c'] [va, vb, vc]
      (.cons ha.1 (.cons hb.1 (.cons hc.1 .nil))) _ (by decide) (by simp) (by simp [fnUsed])
      (fun _ => ⟨rfl, m_translate d cfg .nil c none va vb vc ha.2.1 hb.2.1 hc.2.1⟩))
  | lowerCase pfx a _ iha =>
    obtain ⟨va, ha, _⟩ := iha
    exact good2_of_semCF (call_sem2 d cfg regexOk limit c i n "lower-case" pfx [a] [va]
      (.cons ha.1 .nil) _ (by decide) (by simp) (by simp [fnUsed])
      (fun _ => ⟨rfl, m_lowerCase d cfg .nil c none va ha.2.1⟩))
  | string pfx a _ iha =>
    obtain ⟨va, ha, _⟩ := iha
    exact good2_of_semCF (call_sem2 d cfg regexOk limit c i n "string" pfx [a] [va]
      (.cons ha.1 .nil) _ (by decide) (by simp) (by simp [fnUsed])
      (fun _ => ⟨rfl, m_string d cfg .nil c none va⟩))

/-- generic form: for any leaf class with the leaf obligation -/
theorem strEP_sem (d : Doc) (cfg : ECfg) (regexOk : RegexOk) (limit : Nat) (c : Ref) (i n : Nat)
    {L : Ast → Prop} (hL : LeafOK d cfg regexOk limit c i n F L)
    {e : Ast} (h : StrEP L (NormDom d ⟨c, i, n⟩ F) true e)
    (fl : Flags) (st : BState) (o : BOut) (hb : build regexOk limit true false e fl st = .ok o) :
    ∃ s, evalP (F := F) d cfg o.q c = .ok (.str s) ∧
      Spec.eval (F := F) d e ⟨c, i, n⟩ = .ok (.val (.str s) none) := by
  obtain ⟨v, hg, hs⟩ := strEP_good (F := F) d cfg regexOk limit c i n hL true e h
  obtain ⟨s, rfl⟩ := hg.2.2 rfl
  obtain ⟨h1, h2⟩ := hs rfl fl st o hb
  exact ⟨s, h2, h1⟩

/-- **C09, nested, with path leaves**: for a nested string-function expression whose leaves are
string literals and flat paths with `Frag2` predicates (`StrE2`), the plan the builder makes
evaluates to the string the oracle assigns, at every context position and size.  Standing
assumptions: those of C02 (`WF`, valid context node, `NamespaceURL()` implemented, injective node
keys); builder at `smartDescThroughFilter = false`. -/
theorem strE2_sem {d : Doc} (wf : WF d) (cfg : ECfg) (hns : cfg.nsIface = true)
    (hinj : HashInj d cfg) (regexOk : RegexOk) (limit : Nat)
    (c : Ref) (hc : validRef d c = true) (i n : Nat) {e : Ast} (he : StrE2 d ⟨c, i, n⟩ F e)
    (fl : Flags) (st : BState) (o : BOut) (hb : build regexOk limit true false e fl st = .ok o) :
    ∃ s, evalP (F := F) d cfg o.q c = .ok (.str s) ∧
      Spec.eval (F := F) d e ⟨c, i, n⟩ = .ok (.val (.str s) none) :=
  strEP_sem d cfg regexOk limit c i n (leafOK_flat2 wf cfg hns hinj regexOk limit c hc i n) he fl st o hb

/-- the statement in the shape of `C09_nested`: `evalP`, the public `Evaluate`, the oracle's `eval`
and the top-level oracle -/
theorem C09_nested2 {d : Doc} (wf : WF d) (cfg : ECfg) (hns : cfg.nsIface = true)
    (hinj : HashInj d cfg) (regexOk : RegexOk) (limit : Nat)
    (c : Ref) (hc : validRef d c = true) {e : Ast} (he : StrE2 d ⟨c, 1, 1⟩ F e)
    (st : BState) (o : BOut) (hb : build regexOk limit true false e {} st = .ok o) :
    ∃ s, evalP (F := F) d cfg o.q c = .ok (.str s) ∧
      evaluate (F := F) d cfg o.q c = .ok (.str s) ∧
      Spec.eval (F := F) d e ⟨c, 1, 1⟩ = .ok (.val (.str s) none) ∧
      Spec.evalTop (F := F) d e c = .ok (.str s) := by
  obtain ⟨s, hv, h1⟩ := strE2_sem (F := F) wf cfg hns hinj regexOk limit c hc 1 1 he {} st o hb
  refine ⟨s, hv, ?_, h1, ?_⟩
  · simp only [evaluate, hv, bind, Except.bind, emb]; rfl
  · simp only [Spec.evalTop, h1, bind, Except.bind]; rfl

/-! ## old fragment → new -/

/-- every member of `StrE` (literal leaves only) is a member of `StrEP L (NormDom d ctx F)`, whatever
the leaf class -/
theorem strEP_of_strE (d : Doc) (ctx : Spec.Ctx) (L : Ast → Prop) {e : Ast} (h : StrE e) :
    StrEP L (NormDom d ctx F) true e := by
  induction h with
  | lit s => exact .lit s
  | concat pfx args h2 _ ih => exact .concat pfx args h2 (fun a ha => .arg a (ih a ha))
  | substringBefore pfx a b _ _ iha ihb => exact .substringBefore pfx a b (.arg a iha) (.arg b ihb)
  | substringAfter pfx a b _ _ iha ihb => exact .substringAfter pfx a b (.arg a iha) (.arg b ihb)
  | substring2 pfx a start _ iha => exact .substring2 pfx a start (.arg a iha)
  | substring3 pfx a start len _ iha => exact .substring3 pfx a start len (.arg a iha)
  | normalizeSpace pfx a ha hpl iha =>
    refine .normalizeSpace pfx a (.arg a iha) ?_
    obtain ⟨s, hs⟩ := strE_good (F := F) d a ha
    intro v g hev
    rw [hs.1.1 ctx] at hev
    cases hev
    exact hs.2 hpl
  | translate pfx a b c _ _ _ iha ihb ihc =>
    exact .translate pfx a b c (.arg a iha) (.arg b ihb) (.arg c ihc)
  | lowerCase pfx a _ iha => exact .lowerCase pfx a (.arg a iha)
  | string pfx a _ iha => exact .string pfx a (.arg a iha)

theorem strE2_of_strE (d : Doc) (ctx : Spec.Ctx) {e : Ast} (h : StrE e) : StrE2 d ctx F e :=
  strEP_of_strE d ctx FlatF2 h

end XPathV.StringFns2

/-! ## Axiom audit -/
section AxiomAudit
open XPathV.StringFns2
end AxiomAudit
