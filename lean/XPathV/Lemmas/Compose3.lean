import XPathV.Lemmas.Compose2
import XPathV.Lemmas.PredSem2
/-!
# C13 on the extended C02 fragment `PredSem2.Frag2`

`Compose2` lifted from `PredSem.Frag` to `PredSem2.Frag2` (count / contains / starts-with / ends-with /
local-name predicates, path-vs-path and path-vs-string comparisons with six operators, `(P)[b]`).

* §1 `RelFrag2` / `AbsFrag2` (the shapes of `Compose2.RelFrag` / `AbsFrag` over `Frag2` predicates;
  `AbsFrag2` also has `(P)[b]` with `P` absolute; `RelFrag2` has not: `appendPath2` does not descend
  into parentheses, and `q/(P)[b]` is not an XPath 1.0 expression), the embeddings
  `RelFrag → RelFrag2`, `AbsFrag → AbsFrag2`, the `appendPath2` algebra
* §2 oracle side, without any model or well-formedness hypothesis: `frag_oracle3` (the oracle is
  total on `Frag2`, paths yield node-sets, predicates values that are not numbers, and the value
  depends on the context *node* only — all in one induction: `UPath` / `UPred`), `eval_append3`
* §3 model side through `C02_main2` / `C02_naive2`: `compose_build3`, `rel_compose_build3`,
  `abs_build_indep3`; rooted plans: `build_rooted3`, `abs_build_start_indep3`
-/
namespace XPathV.Compose3
open XPathV XPathV.Model XPathV.PathSem XPathV.PredSem XPathV.PredSem2 XPathV.Compose XPathV.Compose2

variable {F : Type} [NumAlg F]

/-! ## §1 The fragments -/

/-- *relative* paths of the extended fragment: the leaf of the step chain is `.none` -/
inductive RelFrag2 : Ast → Prop
  | none : RelFrag2 .none
  | axis (a : AxisInfo) (inp : Ast) : RelFrag2 inp → a.axis ∈ axes12 → RelFrag2 (.axis a inp)
  | filter (inp b : Ast) : RelFrag2 inp → Frag2 false b → RelFrag2 (.filter inp b)

/-- *absolute* paths of the extended fragment: the leaf of the step chain is `.root _`; a
parenthesised absolute path may be filtered, `(P)[b]`, and continued -/
inductive AbsFrag2 : Ast → Prop
  | root (s : String) : AbsFrag2 (.root s)
  | axis (a : AxisInfo) (inp : Ast) : AbsFrag2 inp → a.axis ∈ axes12 → AbsFrag2 (.axis a inp)
  | filter (inp b : Ast) : AbsFrag2 inp → Frag2 false b → AbsFrag2 (.filter inp b)
  | gfilter (p b : Ast) : AbsFrag2 p → Frag2 false b → AbsFrag2 (.filter (.group p) b)

theorem RelFrag2.frag2 {p : Ast} (h : RelFrag2 p) : Frag2 true p := by
  induction h with
  | none => exact .none
  | axis a inp _ ha ih => exact .axis a inp ih ha
  | filter inp b _ hb ih => exact .filter inp b ih hb

theorem AbsFrag2.frag2 {p : Ast} (h : AbsFrag2 p) : Frag2 true p := by
  induction h with
  | root s => exact .root s
  | axis a inp _ ha ih => exact .axis a inp ih ha
  | filter inp b _ hb ih => exact .filter inp b ih hb
  | gfilter p b _ hb ih => exact .gfilter p b ih hb

/-- the fragments of `Compose2` embed -/
theorem relFrag2_of_relFrag {p : Ast} (h : RelFrag p) : RelFrag2 p := by
  induction h with
  | none => exact .none
  | axis a inp _ ha ih => exact .axis a inp ih ha
  | filter inp b _ hb ih => exact .filter inp b ih (frag2_of_frag false b hb)

theorem absFrag2_of_absFrag {p : Ast} (h : AbsFrag p) : AbsFrag2 p := by
  induction h with
  | root s => exact .root s
  | axis a inp _ ha ih => exact .axis a inp ih ha
  | filter inp b _ hb ih => exact .filter inp b ih (frag2_of_frag false b hb)

theorem appendPath2_frag2 {q p : Ast} (hq : Frag2 true q) (hp : RelFrag2 p) :
    Frag2 true (appendPath2 q p) := by
  induction hp with
  | none => exact hq
  | axis a inp _ ha ih => exact .axis a _ ih ha
  | filter inp b _ hb ih => exact .filter _ b ih hb

theorem appendPath2_relFrag2 {q p : Ast} (hq : RelFrag2 q) (hp : RelFrag2 p) :
    RelFrag2 (appendPath2 q p) := by
  induction hp with
  | none => exact hq
  | axis a inp _ ha ih => exact .axis a _ ih ha
  | filter inp b _ hb ih => exact .filter _ b ih hb

theorem appendPath2_absFrag2 {q p : Ast} (hq : AbsFrag2 q) (hp : RelFrag2 p) :
    AbsFrag2 (appendPath2 q p) := by
  induction hp with
  | none => exact hq
  | axis a inp _ ha ih => exact .axis a _ ih ha
  | filter inp b _ hb ih => exact .filter _ b ih hb

/-- an absolute path ignores what it is appended to -/
theorem appendPath2_abs3 (q : Ast) {p : Ast} (hp : AbsFrag2 p) : appendPath2 q p = p := by
  induction hp with
  | root s => rfl
  | axis a inp _ _ ih => simp only [appendPath2, ih]
  | filter inp b _ _ ih => simp only [appendPath2, ih]
  | gfilter p b _ _ _ => simp only [appendPath2]

/-- `.` is a left unit -/
theorem appendPath2_none_left3 {p : Ast} (hp : RelFrag2 p) : appendPath2 .none p = p := by
  induction hp with
  | none => rfl
  | axis a inp _ _ ih => simp only [appendPath2, ih]
  | filter inp b _ _ ih => simp only [appendPath2, ih]

/-! ## §2 Oracle side (no model, no well-formedness hypothesis) -/

/-- the groups invariant: when a result carries per-origin groups, the node-set is the set of valid
nodes of the groups -/
def GInv (d : Doc) (ns : List Ref) (g : Option (List (List Ref))) : Prop :=
  ∀ gs, g = some gs → ∀ x, x ∈ ns ↔ (x ∈ gs.flatten ∧ validRef d x = true)

/-- an argument-like expression evaluates, at node `n`, to one value whatever the position/size -/
def UArg (d : Doc) (e : Ast) (n : Ref) : Prop :=
  ∃ (sv : Spec.Value F) (g : Option (List (List Ref))), ∀ pos size, Spec.eval (F := F) d e ⟨n, pos, size⟩ = .ok (.val sv g)

/-- a path evaluates, at node `n`, to one node-set (and one grouping) whatever the position/size -/
def UPath (d : Doc) (p : Ast) (n : Ref) : Prop :=
  ∃ ns g, (∀ pos size, Spec.eval (F := F) d p ⟨n, pos, size⟩ = .ok (.val (.nodes ns) g)) ∧ GInv d ns g

/-- a predicate evaluates, at node `n`, to one value whatever the position/size, and it is not a
number -/
def UPred (d : Doc) (b : Ast) (n : Ref) : Prop :=
  ∃ (sv : Spec.Value F) (g : Option (List (List Ref))), (∀ pos size, Spec.eval (F := F) d b ⟨n, pos, size⟩ = .ok (.val sv g)) ∧
    NotNum sv

theorem UPath.uarg {d : Doc} {p : Ast} {n : Ref} (h : UPath (F := F) d p n) : UArg (F := F) d p n := by
  obtain ⟨ns, g, hev, _⟩ := h
  exact ⟨.nodes ns, g, hev⟩

theorem uarg_str (d : Doc) (s : String) (n : Ref) : UArg (F := F) d (.str s) n :=
  ⟨.str s, none, fun _ _ => eval_str d s _⟩

theorem uarg_localName0 (d : Doc) (pfx : String) (n : Ref) :
    UArg (F := F) d (.call "local-name" pfx .anil) n :=
  ⟨.str (localName d n), none, fun pos size => eval_localName0 d pfx ⟨n, pos, size⟩⟩

theorem eval_localName1 (d : Doc) (pfx : String) (p : Ast) (c : Spec.Ctx) (ns : List Ref)
    (g : Option (List (List Ref))) (h : Spec.eval (F := F) d p c = .ok (.val (.nodes ns) g)) :
    Spec.eval (F := F) d (.call "local-name" pfx (.acons p .anil)) c =
      .ok (.val (.str (firstLocalName d ns)) none) := by
  rw [ArithSem.eval_call1 d "local-name" pfx p c _ g h, spec_localName1]
  rfl

theorem uarg_localName1 (d : Doc) (pfx : String) (p : Ast) (n : Ref) (h : UPath (F := F) d p n) :
    UArg (F := F) d (.call "local-name" pfx (.acons p .anil)) n := by
  obtain ⟨ns, g, hev, _⟩ := h
  exact ⟨.str (firstLocalName d ns), none, fun pos size => eval_localName1 d pfx p _ ns g (hev pos size)⟩

/-- the oracle's string tests are total, boolean-valued and do not look at the context -/
theorem spec_strTest_total (d : Doc) (name : String) (hn : name ∈ strTests) (v w : Spec.Value F) :
    ∃ r : Bool, ∀ ctx, Spec.callFn (F := F) d ctx name [v, w] = .ok (.bool r) := by
  simp only [strTests, List.mem_cons, List.not_mem_nil, or_false] at hn
  rcases hn with rfl | rfl | rfl <;> exact ⟨_, fun _ => rfl⟩

theorem upred_strTest (d : Doc) (name : String) (hn : name ∈ strTests) (pfx : String) (a b : Ast)
    (n : Ref) (ha : UArg (F := F) d a n) (hb : UArg (F := F) d b n) :
    UPred (F := F) d (.call name pfx (.acons a (.acons b .anil))) n := by
  obtain ⟨v, g, hv⟩ := ha
  obtain ⟨w, g', hw⟩ := hb
  obtain ⟨r, hr⟩ := spec_strTest_total (F := F) d name hn v w
  refine ⟨.bool r, none, fun pos size => ?_, trivial⟩
  rw [eval_call2 d name pfx a b _ v w g g' (hv pos size) (hw pos size), hr]
  rfl

theorem upred_cmp (d : Doc) (op : String) (hop : op ∈ cmpOps) (a b : Ast) (n : Ref)
    (ha : UArg (F := F) d a n) (hb : UArg (F := F) d b n) : UPred (F := F) d (.oper op a b) n := by
  obtain ⟨v, g, hv⟩ := ha
  obtain ⟨w, g', hw⟩ := hb
  obtain ⟨cop, hcop⟩ := cmpOps_ofString op hop
  exact ⟨.bool (Spec.compare d cop v w), none,
    fun pos size => eval_cmp d op cop hcop a b _ _ _ (hv pos size) (hw pos size), trivial⟩

theorem uarg_num (d : Doc) (lex : String) (n : Ref) : UArg (F := F) d (.num lex) n :=
  ⟨.num (Spec.strToNum lex), none, fun _ _ => eval_num d lex _⟩

theorem uarg_count (d : Doc) (pfx : String) (p : Ast) (n : Ref) (h : UPath (F := F) d p n) :
    UArg (F := F) d (.call "count" pfx (.acons p .anil)) n := by
  obtain ⟨ns, g, hev, _⟩ := h
  exact ⟨.num (NumAlg.ofNat ns.length), none, fun pos size => eval_count d pfx p _ ns g (hev pos size)⟩

/-- the oracle's filter over an evaluated input, for a predicate that is well-behaved everywhere -/
theorem oracle_filter3 (d : Doc) (inp b : Ast) (hpred : ∀ x, UPred (F := F) d b x)
    (ns0 : List Ref) (g0 : Option (List (List Ref))) (hg0 : GInv d ns0 g0) :
    ∃ ns g, (∀ c, Spec.eval (F := F) d inp c = .ok (.val (.nodes ns0) g0) →
        Spec.eval (F := F) d (.filter inp b) c = .ok (.val (.nodes ns) g)) ∧
      (∀ x, x ∈ ns ↔ x ∈ ns0 ∧ holds (F := F) d b x = true) ∧ GInv d ns g := by
  have hfp : ∀ l : List Ref,
      Spec.filterPos l (Spec.eval (F := F) d b) = .ok (l.filter (holds (F := F) d b)) := by
    intro l
    apply filterPos_bool
    intro r _ pos size
    obtain ⟨sv, g, hS, hnn⟩ := hpred r
    refine ⟨_, hS pos size, hnn, ?_⟩
    simp only [holds, hS 1 1]
  cases g0 with
  | none =>
    refine ⟨ns0.filter (holds (F := F) d b), none, ?_, fun x => List.mem_filter,
      by intro gs h; cases h⟩
    intro c hev
    simp only [Spec.eval, hev, bind, Except.bind, Spec.asNodes, hfp ns0]
  | some gs =>
    have hmap : gs.mapM (fun g => Spec.filterPos g (Spec.eval (F := F) d b)) =
        .ok (gs.map (List.filter (holds (F := F) d b))) :=
      PredSem.mapM_ok _ _ gs (fun g _ => hfp g)
    refine ⟨Spec.docOrder d (gs.map (List.filter (holds (F := F) d b))).flatten,
      some (gs.map (List.filter (holds (F := F) d b))), ?_, ?_, ?_⟩
    · intro c hev
      simp only [Spec.eval, hev, bind, Except.bind, hmap]
    · intro x
      rw [mem_docOrder, mem_flatten_map_filter, hg0 gs rfl x]
      exact ⟨fun h => ⟨⟨h.1.1, h.2⟩, h.1.2⟩, fun h => ⟨⟨h.1.1, h.2⟩, h.1.2⟩⟩
    · intro gs' hgs' x
      cases hgs'
      rw [mem_docOrder]

/-- **the oracle is total on `Frag2` and looks at the context node only**: at every node, a path
evaluates to one node-set and a predicate to one value that is not a number, whatever the context
position and size — on every document -/
theorem frag_oracle3 (d : Doc) (k : Bool) (e : Ast) (he : Frag2 k e) :
    ∀ n : Ref, (k = true → UPath (F := F) d e n) ∧ (k = false → UPred (F := F) d e n) := by
  induction he with
  | none =>
    exact fun n => ⟨fun _ => ⟨[n], none, fun _ _ => by simp only [Spec.eval], by intro gs h; cases h⟩,
      fun h => nomatch h⟩
  | root s =>
    exact fun n => ⟨fun _ => ⟨[.node 0], none, fun _ _ => by simp only [Spec.eval],
      by intro gs h; cases h⟩, fun h => nomatch h⟩
  | axis a inp _ ha ih =>
    refine fun n => ⟨fun _ => ?_, fun h => nomatch h⟩
    obtain ⟨ns, g, hev, _⟩ := (ih n).1 rfl
    refine ⟨_, _, fun pos size => eval_axis_groups (F := F) d a ha inp _ ns g (hev pos size), ?_⟩
    intro gs hgs x
    cases hgs
    rw [mem_docOrder]
  | filter inp b _ _ ihp ihb =>
    refine fun n => ⟨fun _ => ?_, fun h => nomatch h⟩
    obtain ⟨ns0, g0, hev, hg0⟩ := (ihp n).1 rfl
    obtain ⟨ns, g, h1, _, h3⟩ := oracle_filter3 (F := F) d inp b (fun x => (ihb x).2 rfl) ns0 g0 hg0
    exact ⟨ns, g, fun pos size => h1 _ (hev pos size), h3⟩
  | gfilter p b _ _ ihp ihb =>
    refine fun n => ⟨fun _ => ?_, fun h => nomatch h⟩
    obtain ⟨ns0, g0, hev, _⟩ := (ihp n).1 rfl
    obtain ⟨ns, g, h1, _, h3⟩ := oracle_filter3 (F := F) d (.group p) b (fun x => (ihb x).2 rfl) ns0 none
      (by intro gs h; cases h)
    exact ⟨ns, g, fun pos size => h1 _ (ArithSem.eval_group (F := F) d p _ _ g0 (hev pos size)), h3⟩
  | exist p _ ih =>
    refine fun n => ⟨(fun h => nomatch h), fun _ => ?_⟩
    obtain ⟨ns, g, hev, _⟩ := (ih n).1 rfl
    exact ⟨.nodes ns, g, hev, trivial⟩
  | eqStr p s _ ih =>
    exact fun n => ⟨(fun h => nomatch h), fun _ =>
      upred_cmp d "=" (by simp [cmpOps]) p (.str s) n ((ih n).1 rfl).uarg (uarg_str d s n)⟩
  | neStr p s _ ih =>
    exact fun n => ⟨(fun h => nomatch h), fun _ =>
      upred_cmp d "!=" (by simp [cmpOps]) p (.str s) n ((ih n).1 rfl).uarg (uarg_str d s n)⟩
  | cmpNumR op p lex hop _ ih =>
    exact fun n => ⟨(fun h => nomatch h), fun _ =>
      upred_cmp d op hop p (.num lex) n ((ih n).1 rfl).uarg (uarg_num d lex n)⟩
  | cmpNumL op lex p hop _ ih =>
    exact fun n => ⟨(fun h => nomatch h), fun _ =>
      upred_cmp d op hop (.num lex) p n (uarg_num d lex n) ((ih n).1 rfl).uarg⟩
  | not pfx b _ ih =>
    refine fun n => ⟨(fun h => nomatch h), fun _ => ?_⟩
    obtain ⟨sv, g, hev, _⟩ := (ih n).2 rfl
    exact ⟨_, _, fun pos size => eval_not (F := F) d pfx b _ _ (hev pos size), trivial⟩
  | and b1 b2 _ _ ih1 ih2 =>
    refine fun n => ⟨(fun h => nomatch h), fun _ => ?_⟩
    obtain ⟨sv1, g1, hev1, _⟩ := (ih1 n).2 rfl
    obtain ⟨sv2, g2, hev2, _⟩ := (ih2 n).2 rfl
    exact ⟨_, _, fun pos size => eval_and (F := F) d b1 b2 _ _ _ (hev1 pos size) (hev2 pos size), trivial⟩
  | or b1 b2 _ _ ih1 ih2 =>
    refine fun n => ⟨(fun h => nomatch h), fun _ => ?_⟩
    obtain ⟨sv1, g1, hev1, _⟩ := (ih1 n).2 rfl
    obtain ⟨sv2, g2, hev2, _⟩ := (ih2 n).2 rfl
    exact ⟨_, _, fun pos size => eval_or (F := F) d b1 b2 _ _ _ (hev1 pos size) (hev2 pos size), trivial⟩
  | countR op pfx p lex hop _ _ ih =>
    exact fun n => ⟨(fun h => nomatch h), fun _ =>
      upred_cmp d op hop _ (.num lex) n (uarg_count d pfx p n ((ih n).1 rfl)) (uarg_num d lex n)⟩
  | countL op lex pfx p hop _ _ ih =>
    exact fun n => ⟨(fun h => nomatch h), fun _ =>
      upred_cmp d op hop (.num lex) _ n (uarg_num d lex n) (uarg_count d pfx p n ((ih n).1 rfl))⟩
  | notCount pfx pfx' p _ _ ih =>
    refine fun n => ⟨(fun h => nomatch h), fun _ => ?_⟩
    obtain ⟨sv, g, hev⟩ := uarg_count (F := F) d pfx' p n ((ih n).1 rfl)
    exact ⟨_, _, fun pos size => eval_not (F := F) d pfx _ _ _ (hev pos size), trivial⟩
  | lnCmp op pfx lit hop =>
    exact fun n => ⟨(fun h => nomatch h), fun _ =>
      upred_cmp d op (eqOps_cmpOps hop) _ (.str lit) n (uarg_localName0 d pfx n) (uarg_str d lit n)⟩
  | lnPathCmp op pfx p lit hop _ _ ih =>
    exact fun n => ⟨(fun h => nomatch h), fun _ =>
      upred_cmp d op (eqOps_cmpOps hop) _ (.str lit) n (uarg_localName1 d pfx p n ((ih n).1 rfl))
        (uarg_str d lit n)⟩
  | strLit name pfx s lit hn =>
    exact fun n => ⟨(fun h => nomatch h), fun _ =>
      upred_strTest d name hn pfx _ _ n (uarg_str d s n) (uarg_str d lit n)⟩
  | strLn name pfx pfx' lit hn =>
    exact fun n => ⟨(fun h => nomatch h), fun _ =>
      upred_strTest d name hn pfx _ _ n (uarg_localName0 d pfx' n) (uarg_str d lit n)⟩
  | strLnPath name pfx pfx' p lit hn _ _ ih =>
    exact fun n => ⟨(fun h => nomatch h), fun _ =>
      upred_strTest d name hn pfx _ _ n (uarg_localName1 d pfx' p n ((ih n).1 rfl)) (uarg_str d lit n)⟩
  | strPath name pfx p lit hn _ _ ih =>
    exact fun n => ⟨(fun h => nomatch h), fun _ =>
      upred_strTest d name hn pfx _ _ n ((ih n).1 rfl).uarg (uarg_str d lit n)⟩
  | strPath2 name pfx p q hn _ _ _ _ ihp ihq =>
    exact fun n => ⟨(fun h => nomatch h), fun _ =>
      upred_strTest d name hn pfx _ _ n ((ihp n).1 rfl).uarg ((ihq n).1 rfl).uarg⟩
  | strLitPath name pfx s q hn _ _ ihq =>
    exact fun n => ⟨(fun h => nomatch h), fun _ =>
      upred_strTest d name hn pfx _ _ n (uarg_str d s n) ((ihq n).1 rfl).uarg⟩
  | cmpPath op p q hop _ _ ihp ihq =>
    exact fun n => ⟨(fun h => nomatch h), fun _ =>
      upred_cmp d op hop p q n ((ihp n).1 rfl).uarg ((ihq n).1 rfl).uarg⟩
  | cmpStrR op p s hop _ ih =>
    exact fun n => ⟨(fun h => nomatch h), fun _ =>
      upred_cmp d op hop p (.str s) n ((ih n).1 rfl).uarg (uarg_str d s n)⟩
  | cmpStrL op s p hop _ ih =>
    exact fun n => ⟨(fun h => nomatch h), fun _ =>
      upred_cmp d op hop (.str s) p n (uarg_str d s n) ((ih n).1 rfl).uarg⟩

/-- **the value of an expression of `Frag2` depends on the context node only** -/
theorem eval_frag2_ctx (d : Doc) {k : Bool} {e : Ast} (he : Frag2 k e) (n : Ref) (i j i' j' : Nat) :
    Spec.eval (F := F) d e ⟨n, i, j⟩ = Spec.eval (F := F) d e ⟨n, i', j'⟩ := by
  cases k with
  | true =>
    obtain ⟨ns, g, hev, _⟩ := (frag_oracle3 (F := F) d true e he n).1 rfl
    rw [hev i j, hev i' j']
  | false =>
    obtain ⟨sv, g, hev, _⟩ := (frag_oracle3 (F := F) d false e he n).2 rfl
    rw [hev i j, hev i' j']

/-- the oracle is total on the paths of `Frag2` and yields a node-set (with the groups invariant) -/
theorem frag2_opath (d : Doc) {p : Ast} (hp : Frag2 true p) (c : Spec.Ctx) : OPath (F := F) d p c := by
  obtain ⟨ns, g, hev, hg⟩ := (frag_oracle3 (F := F) d true p hp c.node).1 rfl
  exact ⟨ns, g, hev c.pos c.size, hg⟩

/-- the oracle is total on the predicates of `Frag2`; the value is never a number -/
theorem frag2_opred (d : Doc) {b : Ast} (hb : Frag2 false b) (c : Spec.Ctx) : OPred (F := F) d b c := by
  obtain ⟨sv, g, hev, hn⟩ := (frag_oracle3 (F := F) d false b hb c.node).2 rfl
  exact ⟨sv, g, hev c.pos c.size, hn⟩

theorem eval_frag2_ok (d : Doc) {p : Ast} (hp : Frag2 true p) (c : Spec.Ctx) :
    ∃ ns g, Spec.eval (F := F) d p c = .ok (.val (.nodes ns) g) := by
  obtain ⟨ns, g, h, _⟩ := frag2_opath (F := F) d hp c
  exact ⟨ns, g, h⟩

theorem eval_frag2_eq_nodesOf (d : Doc) {p : Ast} (hp : Frag2 true p) (c : Spec.Ctx) :
    ∃ g, Spec.eval (F := F) d p c = .ok (.val (.nodes (nodesOf (Spec.eval (F := F) d p c))) g) := by
  obtain ⟨ns, g, h⟩ := eval_frag2_ok (F := F) d hp c
  exact ⟨g, by rw [h]; rfl⟩

/-- membership in the node list of a step over a path of `Frag2` -/
theorem mem_nodesOf_axis3 (d : Doc) (a : AxisInfo) (ha : a.axis ∈ axes12) {inp : Ast}
    (hinp : Frag2 true inp) (c : Spec.Ctx) (x : Ref) :
    x ∈ nodesOf (Spec.eval (F := F) d (.axis a inp) c) ↔
      validRef d x = true ∧ ∃ o ∈ nodesOf (Spec.eval (F := F) d inp c), x ∈ stepSet d a o := by
  obtain ⟨ns, g, h⟩ := eval_frag2_ok (F := F) d hinp c
  rw [eval_axis_groups (F := F) d a ha inp c ns g h, h]
  simp only [nodesOf_ok]
  rw [mem_docOrder, List.mem_flatten]
  constructor
  · rintro ⟨⟨l, hl, hx⟩, hv⟩
    obtain ⟨o, ho, rfl⟩ := List.mem_map.1 hl
    exact ⟨hv, o, ho, hx⟩
  · rintro ⟨hv, o, ho, hx⟩
    exact ⟨⟨_, List.mem_map.2 ⟨o, ho, rfl⟩, hx⟩, hv⟩

/-- **a predicate of `Frag2` keeps exactly the nodes on which it holds (oracle)** -/
theorem mem_nodesOf_filter3 (d : Doc) {inp b : Ast} (hinp : Frag2 true inp) (hb : Frag2 false b)
    (c : Spec.Ctx) (x : Ref) :
    x ∈ nodesOf (Spec.eval (F := F) d (.filter inp b) c) ↔
      x ∈ nodesOf (Spec.eval (F := F) d inp c) ∧ holds (F := F) d b x = true := by
  obtain ⟨ns0, g0, hev, hg0⟩ := frag2_opath (F := F) d hinp c
  obtain ⟨ns, g, h1, h2, _⟩ :=
    oracle_filter3 (F := F) d inp b (fun y => (frag_oracle3 (F := F) d false b hb y).2 rfl) ns0 g0 hg0
  rw [h1 c hev, hev]
  exact h2 x

/-- **path composition (oracle), paths of `Frag2`**: a node is selected by `q/p` from context `c` iff
it is selected by `p` from some node that `q` selects from `c` -/
theorem eval_append3 (d : Doc) {q p : Ast} (hq : Frag2 true q) (hp : RelFrag2 p) (c : Spec.Ctx) (x : Ref) :
    x ∈ nodesOf (Spec.eval (F := F) d (appendPath2 q p) c) ↔
      ∃ n ∈ nodesOf (Spec.eval (F := F) d q c), x ∈ nodesOf (Spec.eval (F := F) d p ⟨n, 1, 1⟩) := by
  induction hp generalizing x with
  | none =>
    simp only [appendPath2, Spec.eval, nodesOf_ok, List.mem_cons, List.not_mem_nil, or_false]
    constructor
    · intro h; exact ⟨x, h, rfl⟩
    · rintro ⟨n, hn, rfl⟩; exact hn
  | axis a inp hinp ha ih =>
    simp only [appendPath2]
    rw [mem_nodesOf_axis3 d a ha (appendPath2_frag2 hq hinp) c x]
    constructor
    · rintro ⟨hv, o, ho, hx⟩
      obtain ⟨n, hn, hon⟩ := (ih o).1 ho
      exact ⟨n, hn, (mem_nodesOf_axis3 d a ha hinp.frag2 _ x).2 ⟨hv, o, hon, hx⟩⟩
    · rintro ⟨n, hn, hx⟩
      obtain ⟨hv, o, ho, hxo⟩ := (mem_nodesOf_axis3 d a ha hinp.frag2 _ x).1 hx
      exact ⟨hv, o, (ih o).2 ⟨n, hn, ho⟩, hxo⟩
  | filter inp b hinp hb ih =>
    simp only [appendPath2]
    rw [mem_nodesOf_filter3 d (appendPath2_frag2 hq hinp) hb c x, ih x]
    constructor
    · rintro ⟨⟨n, hn, hx⟩, hh⟩
      exact ⟨n, hn, (mem_nodesOf_filter3 d hinp.frag2 hb _ x).2 ⟨hx, hh⟩⟩
    · rintro ⟨n, hn, hx⟩
      obtain ⟨hx', hh⟩ := (mem_nodesOf_filter3 d hinp.frag2 hb _ x).1 hx
      exact ⟨⟨n, hn, hx'⟩, hh⟩

/-- `eval_append3` as an equation of document-ordered lists -/
theorem eval_append3_docOrder (d : Doc) {q p : Ast} (hq : Frag2 true q) (hp : RelFrag2 p) (c : Spec.Ctx) :
    Spec.docOrder d (nodesOf (Spec.eval (F := F) d (appendPath2 q p) c)) =
      Spec.docOrder d ((nodesOf (Spec.eval (F := F) d q c)).flatMap
        (fun n => nodesOf (Spec.eval (F := F) d p ⟨n, 1, 1⟩))) := by
  apply docOrder_congr
  intro x
  rw [eval_append3 d hq hp c x, List.mem_flatMap]

/-- **relative paths compose with the context (oracle)** -/
theorem rel_compose_spec_ctx3 (d : Doc) {q p : Ast} (hq : Frag2 true q) (hp : RelFrag2 p) (c : Spec.Ctx)
    (n : Ref) (h : ∀ y, y ∈ nodesOf (Spec.eval (F := F) d q c) ↔ y = n) (x : Ref) :
    x ∈ nodesOf (Spec.eval (F := F) d p ⟨n, 1, 1⟩) ↔
      x ∈ nodesOf (Spec.eval (F := F) d (appendPath2 q p) c) := by
  rw [eval_append3 d hq hp c x]
  constructor
  · intro hx; exact ⟨n, (h n).2 rfl, hx⟩
  · rintro ⟨m, hm, hx⟩; rw [(h m).1 hm] at hx; exact hx

theorem rel_compose_spec3 (d : Doc) {q p : Ast} (hq : Frag2 true q) (hp : RelFrag2 p) (n : Ref)
    (h : nodesOf (Spec.eval (F := F) d q ⟨.node 0, 1, 1⟩) = [n]) (x : Ref) :
    x ∈ nodesOf (Spec.eval (F := F) d p ⟨n, 1, 1⟩) ↔
      x ∈ nodesOf (Spec.eval (F := F) d (appendPath2 q p) ⟨.node 0, 1, 1⟩) :=
  rel_compose_spec_ctx3 d hq hp _ n (fun y => by rw [h]; simp) x

/-- **start-node independence (oracle)**: an absolute path of `AbsFrag2` has the same value in every
context -/
theorem abs_eval_indep3 (d : Doc) {p : Ast} (hp : AbsFrag2 p) (c₁ c₂ : Spec.Ctx) :
    Spec.eval (F := F) d p c₁ = Spec.eval (F := F) d p c₂ := by
  induction hp with
  | root s => simp only [Spec.eval]
  | axis a inp _ _ ih => simp only [Spec.eval, ih]
  | filter inp b _ _ ih => simp only [Spec.eval, ih]
  | gfilter p b _ _ ih => simp only [Spec.eval, ih]

/-! ## §3 Model side (through C02 on `Frag2`) -/

/-- `C02_naive2` in `nodesOf` form -/
theorem naive_nodesOf3 {d : Doc} (wf : WF d) (cfg : ECfg) (hns : cfg.nsIface = true)
    (hinj : HashInj d cfg) {p : Ast} (hp : Frag2 true p) (c : Ref) (hc : validRef d c = true) :
    ∃ out, sel (F := F) d cfg (predPlan2 p) c = .ok out ∧
      (∀ x, x ∈ refs out ↔ x ∈ nodesOf (Spec.eval (F := F) d p ⟨c, 1, 1⟩)) ∧
      (∀ x ∈ refs out, validRef d x = true) := by
  obtain ⟨out, ns, g, h1, h2, h3, h4⟩ := C02_naive2 (F := F) wf cfg hns hinj p hp c hc
  refine ⟨out, h1, ?_, fun x hx => h4 x ((h3 x).1 hx)⟩
  rw [h2]; exact h3

/-- `C02_main2` (built plan, all rewrites, merge included) in `nodesOf` form -/
theorem build_nodesOf3 {d : Doc} (wf : WF d) (cfg : ECfg) (hns : cfg.nsIface = true)
    (hinj : HashInj d cfg) (regexOk : RegexOk) (limit : Nat) {p : Ast} (hp : Frag2 true p)
    (st : BState) (o : BOut) (hb : build regexOk limit true false p {} st = .ok o)
    (c : Ref) (hc : validRef d c = true) :
    ∃ out, sel (F := F) d cfg o.q c = .ok out ∧
      ∀ x, x ∈ refs out ↔ x ∈ nodesOf (Spec.eval (F := F) d p ⟨c, 1, 1⟩) := by
  obtain ⟨out, ns, g, h1, h2, h3⟩ := C02_main2 (F := F) wf cfg hns hinj regexOk limit p hp st o hb c hc
  refine ⟨out, h1, ?_⟩
  rw [h2]; exact h3

/-- **path composition (model, built plans), `Frag2`** -/
theorem compose_build3 {d : Doc} (wf : WF d) (cfg : ECfg) (hns : cfg.nsIface = true)
    (hinj : HashInj d cfg) (regexOk : RegexOk) (limit : Nat)
    {q p : Ast} (hq : Frag2 true q) (hp : RelFrag2 p)
    (stq stp stqp : BState) (bq bp bqp : BOut)
    (hbq : build regexOk limit true false q {} stq = .ok bq)
    (hbp : build regexOk limit true false p {} stp = .ok bp)
    (hbqp : build regexOk limit true false (appendPath2 q p) {} stqp = .ok bqp)
    (c : Ref) (hc : validRef d c = true) :
    ∃ oq oqp, sel (F := F) d cfg bq.q c = .ok oq ∧ sel (F := F) d cfg bqp.q c = .ok oqp ∧
      (∀ n ∈ refs oq, ∃ on, sel (F := F) d cfg bp.q n = .ok on) ∧
      ∀ x, x ∈ refs oqp ↔
        ∃ n ∈ refs oq, ∃ on, sel (F := F) d cfg bp.q n = .ok on ∧ x ∈ refs on := by
  obtain ⟨_, _, hmq', hvq'⟩ := naive_nodesOf3 (F := F) wf cfg hns hinj hq c hc
  obtain ⟨oq, hoq, hmq⟩ := build_nodesOf3 (F := F) wf cfg hns hinj regexOk limit hq stq bq hbq c hc
  have hvq : ∀ n ∈ refs oq, validRef d n = true := fun n hn =>
    hvq' n ((hmq' n).2 ((hmq n).1 hn))
  obtain ⟨oqp, hoqp, hmqp⟩ :=
    build_nodesOf3 (F := F) wf cfg hns hinj regexOk limit (appendPath2_frag2 hq hp) stqp bqp hbqp c hc
  have hpn := fun n (hn : n ∈ refs oq) =>
    build_nodesOf3 (F := F) wf cfg hns hinj regexOk limit hp.frag2 stp bp hbp n (hvq n hn)
  refine ⟨oq, oqp, hoq, hoqp, fun n hn => ⟨_, (hpn n hn).choose_spec.1⟩, fun x => ?_⟩
  rw [hmqp, eval_append3 d hq hp ⟨c, 1, 1⟩ x]
  constructor
  · rintro ⟨n, hn, hx⟩
    have hn' := (hmq n).2 hn
    obtain ⟨on, hon, hmn⟩ := hpn n hn'
    exact ⟨n, hn', on, hon, (hmn x).2 hx⟩
  · rintro ⟨n, hn, on, hon, hx⟩
    obtain ⟨on', hon', hmn⟩ := hpn n hn
    rw [hon] at hon'; cases hon'
    exact ⟨n, (hmq n).1 hn, (hmn x).1 hx⟩

/-- **`rel_compose_model3`** (naive plans) -/
theorem rel_compose_model3 {d : Doc} (wf : WF d) (cfg : ECfg) (hns : cfg.nsIface = true)
    (hinj : HashInj d cfg) {q p : Ast} (hq : Frag2 true q) (hp : RelFrag2 p) (n : Ref)
    (h : nodesOf (Spec.eval (F := F) d q ⟨.node 0, 1, 1⟩) = [n]) :
    ∃ o1 o2, sel (F := F) d cfg (predPlan2 p) n = .ok o1 ∧
      sel (F := F) d cfg (predPlan2 (appendPath2 q p)) (.node 0) = .ok o2 ∧
      ∀ x, x ∈ refs o1 ↔ x ∈ refs o2 := by
  obtain ⟨oq, _, hmq, hvq⟩ := naive_nodesOf3 (F := F) wf cfg hns hinj hq (.node 0) (valid_root wf)
  have hnv : validRef d n = true := hvq n ((hmq n).2 (by rw [h]; simp))
  obtain ⟨o1, ho1, hm1, _⟩ := naive_nodesOf3 (F := F) wf cfg hns hinj hp.frag2 n hnv
  obtain ⟨o2, ho2, hm2, _⟩ :=
    naive_nodesOf3 (F := F) wf cfg hns hinj (appendPath2_frag2 hq hp) (.node 0) (valid_root wf)
  exact ⟨o1, o2, ho1, ho2, fun x => by rw [hm1, hm2]; exact rel_compose_spec3 d hq hp n h x⟩

/-- **`rel_compose_build3`**: a relative path `p` of `RelFrag2` evaluated (built plan, every
rewrite) at the node `n` returns the same node set as the path `q/p` that first addresses `n`
(`q` in `Frag2` denotes exactly `n`), through `C02_main2` -/
theorem rel_compose_build3 {d : Doc} (wf : WF d) (cfg : ECfg) (hns : cfg.nsIface = true)
    (hinj : HashInj d cfg) (regexOk : RegexOk) (limit : Nat)
    {q p : Ast} (hq : Frag2 true q) (hp : RelFrag2 p) (n : Ref)
    (h : nodesOf (Spec.eval (F := F) d q ⟨.node 0, 1, 1⟩) = [n])
    (st st' : BState) (o o' : BOut)
    (hb : build regexOk limit true false p {} st = .ok o)
    (hb' : build regexOk limit true false (appendPath2 q p) {} st' = .ok o') :
    ∃ o1 o2, sel (F := F) d cfg o.q n = .ok o1 ∧ sel (F := F) d cfg o'.q (.node 0) = .ok o2 ∧
      ∀ x, x ∈ refs o1 ↔ x ∈ refs o2 := by
  obtain ⟨oq, _, hmq, hvq⟩ := naive_nodesOf3 (F := F) wf cfg hns hinj hq (.node 0) (valid_root wf)
  have hnv : validRef d n = true := hvq n ((hmq n).2 (by rw [h]; simp))
  obtain ⟨o1, ho1, hm1⟩ :=
    build_nodesOf3 (F := F) wf cfg hns hinj regexOk limit hp.frag2 st o hb n hnv
  obtain ⟨o2, ho2, hm2⟩ :=
    build_nodesOf3 (F := F) wf cfg hns hinj regexOk limit (appendPath2_frag2 hq hp) st' o' hb'
      (.node 0) (valid_root wf)
  exact ⟨o1, o2, ho1, ho2, fun x => by rw [hm1, hm2]; exact rel_compose_spec3 d hq hp n h x⟩

/-- `rel_compose_build3` at the configuration the model reads off the source -/
theorem rel_compose_build3_source {d : Doc} (wf : WF d) (cfg : ECfg) (hns : cfg.nsIface = true)
    (hinj : HashInj d cfg) (regexOk : RegexOk) (limit : Nat)
    {q p : Ast} (hq : Frag2 true q) (hp : RelFrag2 p) (n : Ref)
    (h : nodesOf (Spec.eval (F := F) d q ⟨.node 0, 1, 1⟩) = [n]) (o o' : BOut)
    (hb : build regexOk limit shortcutNeedsNodeTestFromSource smartDescThroughFilterFromSource
      p {} {} = .ok o)
    (hb' : build regexOk limit shortcutNeedsNodeTestFromSource smartDescThroughFilterFromSource
      (appendPath2 q p) {} {} = .ok o') :
    ∃ o1 o2, sel (F := F) d cfg o.q n = .ok o1 ∧ sel (F := F) d cfg o'.q (.node 0) = .ok o2 ∧
      ∀ x, x ∈ refs o1 ↔ x ∈ refs o2 := by
  rw [Lemmas.SourceConfig.shortcut_guard_from_source,
    Lemmas.SourceConfig.smartdesc_stops_at_filters_from_source] at hb hb'
  exact rel_compose_build3 wf cfg hns hinj regexOk limit hq hp n h {} {} o o' hb hb'

/-- **start-node independence (model, built plan, through C02)**, node sets -/
theorem abs_build_indep3 {d : Doc} (wf : WF d) (cfg : ECfg) (hns : cfg.nsIface = true)
    (hinj : HashInj d cfg) (regexOk : RegexOk) (limit : Nat) {p : Ast} (hp : AbsFrag2 p)
    (st : BState) (o : BOut) (hb : build regexOk limit true false p {} st = .ok o)
    (c₁ c₂ : Ref) (h₁ : validRef d c₁ = true) (h₂ : validRef d c₂ = true) :
    ∃ o1 o2, sel (F := F) d cfg o.q c₁ = .ok o1 ∧ sel (F := F) d cfg o.q c₂ = .ok o2 ∧
      ∀ x, x ∈ refs o1 ↔ x ∈ refs o2 := by
  obtain ⟨o1, ho1, hm1⟩ := build_nodesOf3 (F := F) wf cfg hns hinj regexOk limit hp.frag2 st o hb c₁ h₁
  obtain ⟨o2, ho2, hm2⟩ := build_nodesOf3 (F := F) wf cfg hns hinj regexOk limit hp.frag2 st o hb c₂ h₂
  refine ⟨o1, o2, ho1, ho2, fun x => ?_⟩
  rw [hm1, hm2, abs_eval_indep3 d hp ⟨c₁, 1, 1⟩ ⟨c₂, 1, 1⟩]

/-! ### Rooted plans (sequence-level independence) -/

/-- the un-rewritten plan of an absolute path of `AbsFrag2` is rooted -/
theorem rooted2_predPlan2 {p : Ast} (hp : AbsFrag2 p) : Rooted2 (predPlan2 p) = true := by
  induction hp with
  | root s => rfl
  | axis a inp _ ha ih => simp only [predPlan2, rooted2_stepPlan a ha, ih]
  | filter inp b _ _ ih => simp only [predPlan2, Rooted2, ih]
  | gfilter p b _ _ ih => simp only [predPlan2, Rooted2, ih]

/-- **start-node independence (model, naive plan)**: the same *sequence* from every start node -/
theorem abs_model_indep3 (d : Doc) (cfg : ECfg) {p : Ast} (hp : AbsFrag2 p) (c₁ c₂ : Ref) :
    sel (F := F) d cfg (predPlan2 p) c₁ = sel (F := F) d cfg (predPlan2 p) c₂ :=
  abs_start_indep2 d cfg _ (rooted2_predPlan2 hp) c₁ c₂

theorem build_rooted3_all (regexOk : RegexOk) (limit : Nat) (snt sdf : Bool) {p : Ast} (hp : AbsFrag2 p) :
    BuildRooted2 regexOk limit snt sdf p ∧
      ∀ b g, p = .axis b g → BuildRooted2 regexOk limit snt sdf g := by
  induction hp with
  | root s =>
    refine ⟨?_, fun b g h => by cases h⟩
    intro fl st o h
    rw [build] at h
    replace h := enter_ok _ _ _ _ h
    cases h
    rfl
  | filter inp b hinp hb ih =>
    refine ⟨?_, fun b g h => by cases h⟩
    intro fl st o h
    obtain ⟨st1, io, X, hio, hor⟩ :=
      FlatFiltered.build_filter_shape regexOk limit snt sdf inp b fl st o h
    have hr := ih.1 _ _ io hio
    rcases hor with hq | ⟨_, parent, hpar, hq⟩
    · rw [hq]; simpa only [Rooted2] using hr
    · rw [hq]; simpa only [Rooted2] using rooted2_inputOf io.q parent hr hpar
  | gfilter p b hp _ ih =>
    refine ⟨?_, fun b g h => by cases h⟩
    intro fl st o h
    obtain ⟨st1, io, X, hio, hor⟩ :=
      FlatFiltered.build_filter_shape regexOk limit snt sdf (.group p) b fl st o h
    obtain ⟨st', o1, ho1, hq1, _⟩ := build_group_inv regexOk limit snt sdf p _ st1 io hio
    have hr : Rooted2 io.q = true := by
      rw [hq1]; simpa only [Rooted2] using ih.1 _ _ o1 ho1
    rcases hor with hq | ⟨_, parent, hpar, hq⟩
    · rw [hq]; simpa only [Rooted2] using hr
    · rw [hq]; simpa only [Rooted2] using rooted2_inputOf io.q parent hr hpar
  | axis a inp hinp ha ih =>
    refine ⟨?_, fun b g h => by cases h; exact ih.1⟩
    have other : ∀ inp', (inp' ≠ .none) → (∀ b g, inp' = .axis b g → False) →
        BuildRooted2 regexOk limit snt sdf inp' → BuildRooted2 regexOk limit snt sdf (.axis a inp') := by
      intro inp' h1 h2 hin fl st o h
      rw [build] at h
      · replace h := enter_ok _ _ _ _ h
        obtain ⟨o1, ho1, h⟩ := except_bind_ok _ _ _ h
        obtain ⟨⟨q, props⟩, hq, hfin⟩ := except_bind_ok _ _ _ h
        rw [finAxis_q _ _ _ _ hfin, axisPlan_rooted2 _ _ _ _ _ _ hq]
        exact hin _ _ o1 ho1
      · exact h1
      · exact h2
    cases hinp with
    | root s => exact other _ (fun h => by cases h) (fun b g h => by cases h) ih.1
    | filter i c hi hc => exact other _ (fun h => by cases h) (fun b g h => by cases h) ih.1
    | gfilter i c hi hc => exact other _ (fun h => by cases h) (fun b g h => by cases h) ih.1
    | axis b grand hg hb =>
      intro fl st o h
      rw [build] at h
      replace h := enter_ok _ _ _ _ h
      simp only [] at h
      split at h
      · have key : ∀ gq, Rooted2 gq = true → o.q = .descendant a false gq → Rooted2 o.q = true := by
          intro gq hr hq; rw [hq]; exact hr
        cases hg with
        | root s =>
          simp only [] at h
          obtain ⟨o1, ho1, h⟩ := except_bind_ok _ _ _ h
          simp only [pure, Except.pure, bind, Except.bind] at h
          exact key o1.q (ih.2 b _ rfl _ _ o1 ho1) (finAxis_q _ _ _ _ h)
        | axis e g2 hg2 he =>
          simp only [] at h
          obtain ⟨o1, ho1, h⟩ := except_bind_ok _ _ _ h
          simp only [pure, Except.pure, bind, Except.bind] at h
          exact key o1.q (ih.2 b _ rfl _ _ o1 ho1) (finAxis_q _ _ _ _ h)
        | filter i c hi hc =>
          simp only [] at h
          obtain ⟨o1, ho1, h⟩ := except_bind_ok _ _ _ h
          simp only [pure, Except.pure, bind, Except.bind] at h
          exact key o1.q (ih.2 b _ rfl _ _ o1 ho1) (finAxis_q _ _ _ _ h)
        | gfilter i c hi hc =>
          simp only [] at h
          obtain ⟨o1, ho1, h⟩ := except_bind_ok _ _ _ h
          simp only [pure, Except.pure, bind, Except.bind] at h
          exact key o1.q (ih.2 b _ rfl _ _ o1 ho1) (finAxis_q _ _ _ _ h)
      · obtain ⟨o1, ho1, h⟩ := except_bind_ok _ _ _ h
        obtain ⟨⟨q, props⟩, hq, hfin⟩ := except_bind_ok _ _ _ h
        rw [finAxis_q _ _ _ _ hfin, axisPlan_rooted2 _ _ _ _ _ _ hq]
        exact ih.1 _ _ o1 ho1

/-- **the plan `build` makes of an absolute path of `AbsFrag2` is rooted** (whatever the flags, the
builder state and the two source-configuration switches; only the shape of the step chain is used) -/
theorem build_rooted3 (regexOk : RegexOk) (limit : Nat) (snt sdf : Bool) {p : Ast} (hp : AbsFrag2 p)
    (fl : Flags) (st : BState) (o : BOut) (h : build regexOk limit snt sdf p fl st = .ok o) :
    Rooted2 o.q = true :=
  (build_rooted3_all regexOk limit snt sdf hp).1 fl st o h

/-- **start-node independence (model, built plan, sequence level), `AbsFrag2`**: the same *sequence*
(or the same failure) from every start node — no assumption on the document, the start nodes or
the hash -/
theorem abs_build_start_indep3 (d : Doc) (cfg : ECfg) (regexOk : RegexOk) (limit : Nat) (snt sdf : Bool)
    {p : Ast} (hp : AbsFrag2 p) (fl : Flags) (st : BState) (o : BOut)
    (h : build regexOk limit snt sdf p fl st = .ok o) (c₁ c₂ : Ref) :
    sel (F := F) d cfg o.q c₁ = sel (F := F) d cfg o.q c₂ :=
  abs_start_indep2 d cfg o.q (build_rooted3 regexOk limit snt sdf hp fl st o h) c₁ c₂

/-- appending an absolute path to anything changes nothing, on both sides -/
theorem abs_append_ignored3 (d : Doc) (cfg : ECfg) (q : Ast) {p : Ast} (hp : AbsFrag2 p)
    (c₁ c₂ : Ref) :
    Spec.eval (F := F) d (appendPath2 q p) ⟨c₁, 1, 1⟩ = Spec.eval (F := F) d p ⟨c₂, 1, 1⟩ ∧
    sel (F := F) d cfg (predPlan2 (appendPath2 q p)) c₁ = sel (F := F) d cfg (predPlan2 p) c₂ := by
  rw [appendPath2_abs3 q hp]
  exact ⟨abs_eval_indep3 d hp _ _, abs_model_indep3 d cfg hp c₁ c₂⟩

end XPathV.Compose3

/-! ## Axiom audit -/
section AxiomAudit
open XPathV.Compose3
end AxiomAudit
