import XPathV.Lemmas.PredSem.Frag
/-!
# C02 helpers — inversion of `build` on the constructors of the predicate fragment

Each lemma reads off, from a successful `build`, the sub-builds that happened and the plan that
was assembled.  For `processFilter` the result is either the plain `.filter` or the merge rewrite.
-/
namespace XPathV.PredSem
open XPathV XPathV.Model XPathV.PathSem

variable (regexOk : RegexOk) (limit : Nat) (snt sdf : Bool)

theorem build_root_inv (s : String) (fl : Flags)
    (st : BState) (o : BOut) (h : build regexOk limit snt sdf (.root s) fl st = .ok o) :
    o.q = .absolute ∧ o.props = {} := by
  rw [build] at h
  replace h := enter_ok _ _ _ _ h
  cases h; exact ⟨rfl, rfl⟩

theorem build_str_inv (s : String) (fl : Flags)
    (st : BState) (o : BOut) (h : build regexOk limit snt sdf (.str s) fl st = .ok o) :
    o.q = .constStr s ∧ o.props = {} := by
  rw [build] at h
  replace h := enter_ok _ _ _ _ h
  cases h; exact ⟨rfl, rfl⟩

theorem build_num_inv (s : String) (fl : Flags)
    (st : BState) (o : BOut) (h : build regexOk limit snt sdf (.num s) fl st = .ok o) :
    o.q = .constNum s ∧ o.props = {} := by
  rw [build] at h
  replace h := enter_ok _ _ _ _ h
  cases h; exact ⟨rfl, rfl⟩

theorem build_cmp_inv (op : String) (hop : op ∈ cmpOps) (l r : Ast) (fl : Flags)
    (st : BState) (o : BOut) (h : build regexOk limit snt sdf (.oper op l r) fl st = .ok o) :
    ∃ st1 lo ro, build regexOk limit snt sdf l {} st1 = .ok lo ∧
      build regexOk limit snt sdf r {} lo.st = .ok ro ∧
      o.q = .logical op lo.q ro.q ∧ o.props = lo.props.or ro.props := by
  rw [build] at h
  replace h := enter_ok _ _ _ _ h
  obtain ⟨lo, hlo, h⟩ := except_bind_ok _ _ _ h
  obtain ⟨ro, hro, h⟩ := except_bind_ok _ _ _ h
  refine ⟨_, lo, ro, hlo, hro, ?_⟩
  simp only [cmpOps, List.mem_cons, List.not_mem_nil, or_false] at hop
  rcases hop with rfl | rfl | rfl | rfl | rfl | rfl <;>
  · simp at h
    cases h; exact ⟨rfl, rfl⟩

theorem build_and_inv (l r : Ast) (fl : Flags)
    (st : BState) (o : BOut) (h : build regexOk limit snt sdf (.oper "and" l r) fl st = .ok o) :
    ∃ st1 lo ro, build regexOk limit snt sdf l {} st1 = .ok lo ∧
      build regexOk limit snt sdf r {} lo.st = .ok ro ∧
      o.q = .boolean false lo.q ro.q ∧ o.props = lo.props.or ro.props := by
  rw [build] at h
  replace h := enter_ok _ _ _ _ h
  obtain ⟨lo, hlo, h⟩ := except_bind_ok _ _ _ h
  obtain ⟨ro, hro, h⟩ := except_bind_ok _ _ _ h
  refine ⟨_, lo, ro, hlo, hro, ?_⟩
  simp at h
  cases h; exact ⟨rfl, rfl⟩

theorem build_or_inv (l r : Ast) (fl : Flags)
    (st : BState) (o : BOut) (h : build regexOk limit snt sdf (.oper "or" l r) fl st = .ok o) :
    ∃ st1 lo ro, build regexOk limit snt sdf l {} st1 = .ok lo ∧
      build regexOk limit snt sdf r {} lo.st = .ok ro ∧
      o.q = .boolean true lo.q ro.q ∧ o.props = lo.props.or ro.props := by
  rw [build] at h
  replace h := enter_ok _ _ _ _ h
  obtain ⟨lo, hlo, h⟩ := except_bind_ok _ _ _ h
  obtain ⟨ro, hro, h⟩ := except_bind_ok _ _ _ h
  refine ⟨_, lo, ro, hlo, hro, ?_⟩
  simp at h
  cases h; exact ⟨rfl, rfl⟩

theorem fnArity_not : fnArity "not" = some (1, none, false) := by rfl
theorem fnUsed_not (n : Nat) : fnUsed "not" n = 1 := by rfl

theorem build_not_inv (pfx : String) (b : Ast) (fl : Flags) (st : BState) (o : BOut)
    (h : build regexOk limit snt sdf (.call "not" pfx (.acons b .anil)) fl st = .ok o) :
    ∃ st1 ho, build regexOk limit snt sdf b {} st1 = .ok ho ∧
      o.q = .func "not" .nil (.pcons ho.q .pnil) ∧ o.props = ho.props := by
  rw [build] at h
  replace h := enter_ok _ _ _ _ h
  simp only [fnArity_not, fnUsed_not, Ast.argList, List.length_cons, List.length_nil,
    show ("not" == "matches") = false from by decide,
    show ("not" == "reverse") = false from by decide,
    show ("not" == "normalize-space") = false from by decide,
    show ("not" == "string") = false from by decide,
    show ("not" == "number") = false from by decide,
    show ("not" == "last") = false from by decide,
    show ("not" == "position") = false from by decide,
    Bool.false_eq_true, ↓reduceIte, Bool.or_self, Bool.false_and, Nat.lt_irrefl,
    show ((1 : Nat) == 0) = false from rfl, Nat.zero_add] at h
  obtain ⟨ao, hao, h⟩ := except_bind_ok _ _ _ h
  rw [build] at hao
  simp only [show ((1 : Nat) == 0) = false from rfl, Bool.false_eq_true, ↓reduceIte] at hao
  obtain ⟨ho, hho, hao⟩ := except_bind_ok _ _ _ hao
  rw [build] at hao
  simp only [bind, Except.bind] at hao h
  cases hao; cases h
  exact ⟨_, ho, hho, rfl, by simp⟩

/-- `processFilter`: the two sub-builds, and — when the predicate does not use `last()` — the
result is the plain filter or the merge rewrite over an axis input; `hasPosition`/`hasLast` of the
result are those of the input -/
theorem build_filter_inv (inp cond : Ast) (fl : Flags)
    (st : BState) (o : BOut) (h : build regexOk limit snt sdf (.filter inp cond) fl st = .ok o) :
    ∃ st1 io co,
      build regexOk limit snt sdf inp { fl with filter := true, smartDesc := fl.smartDesc && sdf } st1 = .ok io ∧
      build regexOk limit snt sdf cond fl ⟨io.st.depth, io.st.firstInput, io.st.firstInput⟩ = .ok co ∧
      (co.props.hasLast = false →
        (o.q = .filter io.q co.q ∨
          (inp.isAxis = true ∧ ∃ parent, io.q.inputOf = some parent ∧
            o.q = .merge parent (.filter (io.q.withInput .context) co.q))) ∧
        o.props.hasPosition = io.props.hasPosition ∧ o.props.hasLast = io.props.hasLast) := by
  rw [build] at h
  replace h := enter_ok _ _ _ _ h
  obtain ⟨io, hio, h⟩ := except_bind_ok _ _ _ h
  obtain ⟨co, hco, h⟩ := except_bind_ok _ _ _ h
  refine ⟨_, io, co, hio, hco, fun hlast => ?_⟩
  simp only [hlast, Bool.or_false] at h
  cases hvt : co.q.valueType with
  | none => simp only [hvt, bind, Except.bind] at h; cases h
  | some vt =>
    cases hmg : io.q.hasMerge with
    | none => simp only [hvt, hmg, bind, Except.bind, pure, Except.pure] at h; cases h
    | some mg =>
      simp only [hvt, hmg, bind, Except.bind, pure, Except.pure] at h
      rename_i h1 h2
      clear h1 h2
      generalize (vt == Plan.VType.any || vt == Plan.VType.number || co.props.hasPosition) = cb at h
      cases cb <;> cases hif : inp.isFilter <;>
        simp only [hif, hlast, Bool.false_eq_true, ↓reduceIte, Bool.and_false, Bool.and_true] at h
      all_goals (cases hcp : co.props.hasPosition <;>
        try simp only [hcp, Bool.false_eq_true, ↓reduceIte] at h)
      all_goals (repeat' split at h)
      all_goals (cases h)
      all_goals first
        | exact ⟨Or.inl rfl, rfl, rfl⟩
        | (rename_i hax _ _ _ hpar; exact ⟨Or.inr ⟨hax, _, hpar, rfl⟩, rfl, rfl⟩)

end XPathV.PredSem
