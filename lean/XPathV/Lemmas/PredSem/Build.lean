import XPathV.Lemmas.PredSem.BuildSem
/-!
# C02 — `build` on paths with boolean-valued predicates

The plan `build` makes of a path of the fragment `Frag` (with `smartDescThroughFilter = false`, the
configuration read off the source, and the `//name` shortcut guarded by the node test) selects the
node set of the naive plan `predPlan`; a predicate of the fragment is built into a plan with the
oracle's truth.  All rewrites are covered: `cachedChild`, the `//name` shortcut,
descendant-over-descendant (also inside predicates and around filtered steps) and the merge rewrite
of `processFilter` (it fires for `not(…)` predicates, whose static type is "any").
-/
namespace XPathV.PredSem
open XPathV XPathV.Model XPathV.PathSem

variable {F : Type} [NumAlg F]

/-! ## statements of the induction -/

/-- a path: props without position/last, a path-shaped plan, related to the naive plan -/
def BuildP (d : Doc) (cfg : ECfg) (regexOk : RegexOk) (limit : Nat) (p : Ast) : Prop :=
  ∀ fl st o, build regexOk limit true false p fl st = .ok o →
    PropsOK o.props ∧ PathShape o.q ∧
      ∀ c, validRef d c = true → Rel (F := F) d cfg fl.smartDesc o.q (predPlan p) c

/-- a step built as the input of a filter: the step constructor over a plan `qi` that succeeds -/
def StepOver (d : Doc) (cfg : ECfg) (a : AxisInfo) (q : Plan) : Prop :=
  ∃ qi, q.inputOf = some qi ∧
    (∀ (n : Plan) (c : Ref), sel (F := F) d cfg (q.withInput n) c = sel (F := F) d cfg (stepPlan a n) c) ∧
    (∀ c : Ref, sel (F := F) d cfg q c = sel (F := F) d cfg (stepPlan a qi) c) ∧
    ∀ c, validRef d c = true →
      ∃ ins, sel (F := F) d cfg qi c = .ok ins ∧ ∀ x ∈ refs ins, validRef d x = true

def AxisDecomp (d : Doc) (cfg : ECfg) (regexOk : RegexOk) (limit : Nat) (p : Ast) : Prop :=
  ∀ a inp', p = .axis a inp' → ∀ fl st o, fl.filter = true → fl.smartDesc = false →
    build regexOk limit true false p fl st = .ok o → StepOver (F := F) d cfg a o.q

/-- a predicate: props without position/last, a plan with the oracle's truth -/
def BuildB (d : Doc) (cfg : ECfg) (regexOk : RegexOk) (limit : Nat) (b : Ast) : Prop :=
  ∀ fl st o, build regexOk limit true false b fl st = .ok o →
    PropsOK o.props ∧ ∀ c : Spec.Ctx, validRef d c.node = true → PredOK (F := F) d cfg o.q b c

/-! ## steps -/

theorem finAxis_props (q : Plan) (props : Props) (st : BState) (o : BOut)
    (h : build.finAxis q props st = .ok o) : o.props = props := by
  unfold build.finAxis at h
  cases h; rfl

/-- `axisPlan` + `finAxis` over an already related input -/
theorem axis_core {d : Doc} (wf : WF d) (cfg : ECfg) (hinj : HashInj d cfg) (a : AxisInfo)
    (ha : a.axis ∈ axes12) (fl : Flags) (qin nin : Plan) (pin : Props) (smartIn : Bool)
    (hpr : PropsOK pin)
    (hin : ∀ c, validRef d c = true → Rel (F := F) d cfg smartIn qin nin c)
    (hsm : ¬ IsDescAxis a → smartIn = false)
    (q : Plan) (props : Props) (st' : BState) (o : BOut)
    (hq : axisPlan a fl pin qin = .ok (q, props)) (hfin : build.finAxis q props st' = .ok o) :
    PropsOK o.props ∧ PathShape o.q ∧
      (∀ c, validRef d c = true → Rel (F := F) d cfg fl.smartDesc o.q (stepPlan a nin) c) ∧
      (fl.smartDesc = false → StepOver (F := F) d cfg a o.q) := by
  rw [finAxis_q _ _ _ _ hfin, finAxis_props _ _ _ _ hfin]
  obtain ⟨hshape, hp1, hp2⟩ := axisPlan_inv a fl pin qin q props hq
  refine ⟨⟨hp1 ▸ hpr.1, hp2 ▸ hpr.2⟩, hshape, fun c hc => ?_, fun hfl => ?_⟩
  · exact axis_combine (F := F) wf cfg hinj a ha fl _ _ qin nin q c smartIn (hin c hc) hsm hq
  · obtain ⟨h1, h2, h3⟩ := axisPlan_step (F := F) a ha fl hfl pin qin q props hq
    exact ⟨qin, h1, fun n c => h2 n d cfg c, fun c => h3 d cfg c,
      fun c hc => rel_out_valid d cfg smartIn qin nin c (hin c hc)⟩

theorem rel_context (d : Doc) (cfg : ECfg) (smart : Bool) (c : Ref) (hc : validRef d c = true) :
    Rel (F := F) d cfg smart .context .context c :=
  Rel.refl_of_ok d cfg smart .context c _ (sel_context d cfg c) (by
    intro x hx; simp only [refs, List.map_cons, List.map_nil, List.mem_cons, List.not_mem_nil,
      or_false] at hx; rw [hx]; exact hc)

section
variable {d : Doc} (wf : WF d) (cfg : ECfg) (hns : cfg.nsIface = true) (hinj : HashInj d cfg)
  (regexOk : RegexOk) (limit : Nat)
include wf hinj

theorem build_axis_none' (a : AxisInfo) (ha : a.axis ∈ axes12) :
    BuildP (F := F) d cfg regexOk limit (.axis a .none) ∧
    AxisDecomp (F := F) d cfg regexOk limit (.axis a .none) := by
  have key : ∀ fl st o, build regexOk limit true false (.axis a .none) fl st = .ok o →
      PropsOK o.props ∧ PathShape o.q ∧
      (∀ c, validRef d c = true → Rel (F := F) d cfg fl.smartDesc o.q (stepPlan a .context) c) ∧
      (fl.smartDesc = false → StepOver (F := F) d cfg a o.q) := by
    intro fl st o h
    rw [build] at h
    have h := enter_ok _ _ _ _ h
    obtain ⟨⟨q, props⟩, hq, hfin⟩ := except_bind_ok _ _ _ h
    exact axis_core (F := F) wf cfg hinj a ha fl .context .context {} false propsOK_empty
      (fun c hc => rel_context d cfg false c hc) (fun _ => rfl) q props _ o hq hfin
  refine ⟨fun fl st o h => ?_, fun a' inp' he fl st o _ hsd h => ?_⟩
  · obtain ⟨h1, h2, h3, _⟩ := key fl st o h
    exact ⟨h1, h2, h3⟩
  · cases he
    exact (key fl st o h).2.2.2 hsd

/-- a step over an input that is neither the context nor a step (a root or a filtered path) -/
theorem build_axis_other (a : AxisInfo) (ha : a.axis ∈ axes12) (other : Ast)
    (hn : other ≠ .none) (hx : ∀ b g, other ≠ .axis b g)
    (ih : BuildP (F := F) d cfg regexOk limit other) :
    BuildP (F := F) d cfg regexOk limit (.axis a other) ∧
    AxisDecomp (F := F) d cfg regexOk limit (.axis a other) := by
  have key : ∀ fl st o, build regexOk limit true false (.axis a other) fl st = .ok o →
      PropsOK o.props ∧ PathShape o.q ∧
      (∀ c, validRef d c = true →
        Rel (F := F) d cfg fl.smartDesc o.q (stepPlan a (predPlan other)) c) ∧
      (fl.smartDesc = false → StepOver (F := F) d cfg a o.q) := by
    intro fl st o h
    rw [build] at h
    · have h := enter_ok _ _ _ _ h
      obtain ⟨o1, ho1, h⟩ := except_bind_ok _ _ _ h
      obtain ⟨⟨q, props⟩, hq, hfin⟩ := except_bind_ok _ _ _ h
      obtain ⟨hp1, _, hr1⟩ := ih _ _ o1 ho1
      exact axis_core (F := F) wf cfg hinj a ha fl o1.q (predPlan other) o1.props _ hp1 hr1
        (inFlagsOf_smart a fl) q props _ o hq hfin
    · exact hn
    · exact hx
  refine ⟨fun fl st o h => ?_, fun a' inp' he fl st o _ hsd h => ?_⟩
  · obtain ⟨h1, h2, h3, _⟩ := key fl st o h
    exact ⟨h1, h2, h3⟩
  · cases he
    exact (key fl st o h).2.2.2 hsd

/-- a step over a step: the `//name` shortcut or the general arm -/
theorem build_axis_axis' (a b : AxisInfo) (grand : Ast) (ha : a.axis ∈ axes12)
    (hg : Frag true grand)
    (ihb : BuildP (F := F) d cfg regexOk limit (.axis b grand))
    (ihg : BuildP (F := F) d cfg regexOk limit grand) :
    BuildP (F := F) d cfg regexOk limit (.axis a (.axis b grand)) ∧
    AxisDecomp (F := F) d cfg regexOk limit (.axis a (.axis b grand)) := by
  have key : ∀ fl st o, build regexOk limit true false (.axis a (.axis b grand)) fl st = .ok o →
      PropsOK o.props ∧ PathShape o.q ∧
      (∀ c, validRef d c = true →
        Rel (F := F) d cfg fl.smartDesc o.q (stepPlan a (stepPlan b (predPlan grand))) c) ∧
      (fl.filter = true → fl.smartDesc = false → StepOver (F := F) d cfg a o.q) := by
    intro fl st o h
    rw [build] at h
    replace h := enter_ok _ _ _ _ h
    simp only [] at h
    split at h
    · rename_i hcond
      simp only [Bool.and_eq_true, beq_iff_eq, isPlainDos, Bool.not_true, Bool.false_or,
        Bool.not_eq_true'] at hcond
      obtain ⟨⟨hflt, hax⟩, hbx, ⟨h1, h2⟩, h3⟩ := hcond
      -- the shortcut: descendant over the grand-input
      have fin : ∀ gq gprops st', PropsOK gprops →
          (∀ c, validRef d c = true → Rel (F := F) d cfg true gq (predPlan grand) c) →
          build.finAxis (.descendant a false gq) { gprops with nonFlat := true } st' = .ok o →
          PropsOK o.props ∧ PathShape o.q ∧
          (∀ c, validRef d c = true →
            Rel (F := F) d cfg fl.smartDesc o.q (stepPlan a (stepPlan b (predPlan grand))) c) ∧
          (fl.filter = true → fl.smartDesc = false → StepOver (F := F) d cfg a o.q) := by
        intro gq gprops st' hgp hgr hfin
        rw [finAxis_q _ _ _ _ hfin, finAxis_props _ _ _ _ hfin]
        refine ⟨⟨hgp.1, hgp.2⟩, trivial, fun c hc => ?_, fun hf => ?_⟩
        · exact shortcut_combine wf cfg hinj a b hax hbx h1 h2 h3 gq _ c _ (hgr c hc)
        · rw [hf] at hflt; cases hflt
      cases hg with
      | none =>
        simp only [pure, Except.pure, bind, Except.bind] at h
        exact fin .context {} _ propsOK_empty (fun c hc => rel_context d cfg true c hc) h
      | root s =>
        simp only [] at h
        obtain ⟨o1, ho1, h⟩ := except_bind_ok _ _ _ h
        simp only [pure, Except.pure, bind, Except.bind] at h
        obtain ⟨hp1, _, hr1⟩ := ihg _ _ o1 ho1
        exact fin o1.q o1.props _ hp1 hr1 h
      | axis e g2 hg2 he =>
        simp only [] at h
        obtain ⟨o1, ho1, h⟩ := except_bind_ok _ _ _ h
        simp only [pure, Except.pure, bind, Except.bind] at h
        obtain ⟨hp1, _, hr1⟩ := ihg _ _ o1 ho1
        exact fin o1.q o1.props _ hp1 hr1 h
      | filter i2 b2 hi2 hb2 =>
        simp only [] at h
        obtain ⟨o1, ho1, h⟩ := except_bind_ok _ _ _ h
        simp only [pure, Except.pure, bind, Except.bind] at h
        obtain ⟨hp1, _, hr1⟩ := ihg _ _ o1 ho1
        exact fin o1.q o1.props _ hp1 hr1 h
    · obtain ⟨o1, ho1, h⟩ := except_bind_ok _ _ _ h
      obtain ⟨⟨q, props⟩, hq, hfin⟩ := except_bind_ok _ _ _ h
      obtain ⟨hp1, _, hr1⟩ := ihb _ _ o1 ho1
      obtain ⟨k1, k2, k3, k4⟩ := axis_core (F := F) wf cfg hinj a ha fl o1.q
        (stepPlan b (predPlan grand)) o1.props _ hp1 hr1 (inFlagsOf_smart a fl) q props _ o hq hfin
      exact ⟨k1, k2, k3, fun _ hsd => k4 hsd⟩
  refine ⟨fun fl st o h => ?_, fun a' inp' he fl st o hf hsd h => ?_⟩
  · obtain ⟨h1, h2, h3, _⟩ := key fl st o h
    exact ⟨h1, h2, h3⟩
  · cases he
    exact (key fl st o h).2.2.2 hf hsd

/-! ## the filter -/

include hns in
theorem build_filter_case (inp b : Ast) (hinp : Frag true inp) (hb : Frag false b)
    (ihp : BuildP (F := F) d cfg regexOk limit inp)
    (ihd : AxisDecomp (F := F) d cfg regexOk limit inp)
    (ihb : BuildB (F := F) d cfg regexOk limit b) :
    BuildP (F := F) d cfg regexOk limit (.filter inp b) := by
  intro fl st o h
  obtain ⟨st1, io, co, hio, hco, hres⟩ := build_filter_inv regexOk limit true false inp b fl st o h
  obtain ⟨hiop, _, hior⟩ := ihp _ _ io hio
  obtain ⟨hcop, hcor⟩ := ihb _ _ co hco
  obtain ⟨hq, hp1, hp2⟩ := hres hcop.2
  have htq : PredTr (F := F) d cfg co.q (holds (F := F) d b) := predTr_of_predOK d cfg co.q b hcor
  have htn : PredTr (F := F) d cfg (predPlan b) (holds (F := F) d b) :=
    predTr_of_predOK d cfg (predPlan b) b
      (fun c hc => (frag_sem (F := F) wf cfg hns hinj false b hb c hc).2 rfl)
  have hior' : ∀ c, validRef d c = true → Rel (F := F) d cfg false io.q (predPlan inp) c := by
    intro c hc
    have := hior c hc
    simpa only [Bool.and_false] using this
  have hA : ∀ c, validRef d c = true →
      Rel (F := F) d cfg fl.smartDesc (.filter io.q co.q) (predPlan (.filter inp b)) c :=
    fun c hc => rel_filter d cfg _ io.q (predPlan inp) co.q (predPlan b) c _ (hior' c hc) htq htn
  refine ⟨⟨hp1 ▸ hiop.1, hp2 ▸ hiop.2⟩, ?_, ?_⟩
  · rcases hq with hq | ⟨_, parent, _, hq⟩ <;> rw [hq] <;> trivial
  · intro c hc
    rcases hq with hq | ⟨hax, parent, hpar, hq⟩
    · rw [hq]; exact hA c hc
    · -- the merge rewrite
      cases hinp with
      | none => cases hax
      | root s => cases hax
      | filter i2 b2 _ _ => cases hax
      | axis a inp' hinp' ha =>
        obtain ⟨qi, hi1, hi2, hi3, hi4⟩ := ihd a inp' rfl _ _ io rfl (by simp) hio
        have hqp : qi = parent := Option.some.inj (hi1.symm.trans hpar)
        subst hqp
        obtain ⟨ins, hins, hinsv⟩ := hi4 c hc
        obtain ⟨o1, o2, ho1, ho2, hm⟩ := merge_sem (F := F) wf cfg hinj a ha io.q qi co.q hi2 hi3 c ins
          hins hinsv (holds (F := F) d b) htq
        rw [hq]
        exact rel_of_seteq d cfg _ _ _ _ c o1 o2 ho1 ho2 hm (hA c hc)

/-! ## predicates -/

include hns in
theorem buildB_exist (p : Ast) (hp : Frag true p) (ih : BuildP (F := F) d cfg regexOk limit p) :
    BuildB (F := F) d cfg regexOk limit p := by
  intro fl st o h
  obtain ⟨hpr, hs, hr⟩ := ih fl st o h
  exact ⟨hpr, fun c hc => predOK_of_rel d cfg _ o.q (predPlan p) p c (hr c.node hc) hs
    ((frag_sem (F := F) wf cfg hns hinj true p hp c hc).1 rfl)⟩

include hns in
/-- the left operand of a comparison, built with empty flags, agrees with the oracle -/
theorem operand_pathOK (p : Ast) (hp : Frag true p) (ih : BuildP (F := F) d cfg regexOk limit p)
    (st : BState) (lo : BOut) (h : build regexOk limit true false p {} st = .ok lo)
    (c : Spec.Ctx) (hc : validRef d c.node = true) :
    PropsOK lo.props ∧ PathOK (F := F) d cfg lo.q p c := by
  obtain ⟨hpr, hs, hr⟩ := ih {} st lo h
  exact ⟨hpr, pathOK_of_rel d cfg lo.q (predPlan p) p c (hr c.node hc) hs
    ((frag_sem (F := F) wf cfg hns hinj true p hp c hc).1 rfl)⟩

include hns in
theorem buildB_eqStr (p : Ast) (s : String) (hp : Frag true p)
    (ih : BuildP (F := F) d cfg regexOk limit p) :
    BuildB (F := F) d cfg regexOk limit (.oper "=" p (.str s)) := by
  intro fl st o h
  obtain ⟨st1, lo, ro, hlo, hro, hq, hpr⟩ :=
    build_cmp_inv regexOk limit true false "=" (by simp [cmpOps]) p (.str s) fl st o h
  obtain ⟨hrq, hrp⟩ := build_str_inv regexOk limit true false s _ _ ro hro
  have hlp : PropsOK lo.props := (ih {} st1 lo hlo).1
  refine ⟨by rw [hpr, hrp]; exact propsOK_or _ _ hlp propsOK_empty, fun c hc => ?_⟩
  rw [hq, hrq]
  exact predOK_eqStr d cfg lo.q p s c
    (operand_pathOK (F := F) wf cfg hns hinj regexOk limit p hp ih st1 lo hlo c hc).2

include hns in
theorem buildB_neStr (p : Ast) (s : String) (hp : Frag true p)
    (ih : BuildP (F := F) d cfg regexOk limit p) :
    BuildB (F := F) d cfg regexOk limit (.oper "!=" p (.str s)) := by
  intro fl st o h
  obtain ⟨st1, lo, ro, hlo, hro, hq, hpr⟩ :=
    build_cmp_inv regexOk limit true false "!=" (by simp [cmpOps]) p (.str s) fl st o h
  obtain ⟨hrq, hrp⟩ := build_str_inv regexOk limit true false s _ _ ro hro
  have hlp : PropsOK lo.props := (ih {} st1 lo hlo).1
  refine ⟨by rw [hpr, hrp]; exact propsOK_or _ _ hlp propsOK_empty, fun c hc => ?_⟩
  rw [hq, hrq]
  exact predOK_neStr d cfg lo.q p s c
    (operand_pathOK (F := F) wf cfg hns hinj regexOk limit p hp ih st1 lo hlo c hc).2

include hns in
theorem buildB_cmpNumR (op : String) (hop : op ∈ cmpOps) (p : Ast) (lex : String) (hp : Frag true p)
    (ih : BuildP (F := F) d cfg regexOk limit p) :
    BuildB (F := F) d cfg regexOk limit (.oper op p (.num lex)) := by
  intro fl st o h
  obtain ⟨st1, lo, ro, hlo, hro, hq, hpr⟩ :=
    build_cmp_inv regexOk limit true false op hop p (.num lex) fl st o h
  obtain ⟨hrq, hrp⟩ := build_num_inv regexOk limit true false lex _ _ ro hro
  have hlp : PropsOK lo.props := (ih {} st1 lo hlo).1
  refine ⟨by rw [hpr, hrp]; exact propsOK_or _ _ hlp propsOK_empty, fun c hc => ?_⟩
  rw [hq, hrq]
  exact predOK_cmpNumR d cfg op hop lo.q p lex c
    (operand_pathOK (F := F) wf cfg hns hinj regexOk limit p hp ih st1 lo hlo c hc).2

include hns in
theorem buildB_cmpNumL (op : String) (hop : op ∈ cmpOps) (lex : String) (p : Ast) (hp : Frag true p)
    (ih : BuildP (F := F) d cfg regexOk limit p) :
    BuildB (F := F) d cfg regexOk limit (.oper op (.num lex) p) := by
  intro fl st o h
  obtain ⟨st1, lo, ro, hlo, hro, hq, hpr⟩ :=
    build_cmp_inv regexOk limit true false op hop (.num lex) p fl st o h
  obtain ⟨hlq, hlp⟩ := build_num_inv regexOk limit true false lex _ _ lo hlo
  have hrp : PropsOK ro.props := (ih {} lo.st ro hro).1
  refine ⟨by rw [hpr, hlp]; exact propsOK_or _ _ propsOK_empty hrp, fun c hc => ?_⟩
  rw [hq, hlq]
  exact predOK_cmpNumL d cfg op hop ro.q p lex c
    (operand_pathOK (F := F) wf cfg hns hinj regexOk limit p hp ih lo.st ro hro c hc).2

omit wf hinj in
theorem buildB_not (pfx : String) (b : Ast) (ih : BuildB (F := F) d cfg regexOk limit b) :
    BuildB (F := F) d cfg regexOk limit (.call "not" pfx (.acons b .anil)) := by
  intro fl st o h
  obtain ⟨st1, ho, hho, hq, hpr⟩ := build_not_inv regexOk limit true false pfx b fl st o h
  obtain ⟨hp, hr⟩ := ih {} st1 ho hho
  refine ⟨hpr ▸ hp, fun c hc => ?_⟩
  rw [hq]
  exact predOK_not d cfg ho.q b pfx c (hr c hc)

omit wf hinj in
theorem buildB_and (b1 b2 : Ast) (ih1 : BuildB (F := F) d cfg regexOk limit b1)
    (ih2 : BuildB (F := F) d cfg regexOk limit b2) :
    BuildB (F := F) d cfg regexOk limit (.oper "and" b1 b2) := by
  intro fl st o h
  obtain ⟨st1, lo, ro, hlo, hro, hq, hpr⟩ := build_and_inv regexOk limit true false b1 b2 fl st o h
  obtain ⟨hp1, hr1⟩ := ih1 {} st1 lo hlo
  obtain ⟨hp2, hr2⟩ := ih2 {} lo.st ro hro
  refine ⟨hpr ▸ propsOK_or _ _ hp1 hp2, fun c hc => ?_⟩
  rw [hq]
  exact predOK_and d cfg lo.q ro.q b1 b2 c (hr1 c hc) (hr2 c hc)

omit wf hinj in
theorem buildB_or (b1 b2 : Ast) (ih1 : BuildB (F := F) d cfg regexOk limit b1)
    (ih2 : BuildB (F := F) d cfg regexOk limit b2) :
    BuildB (F := F) d cfg regexOk limit (.oper "or" b1 b2) := by
  intro fl st o h
  obtain ⟨st1, lo, ro, hlo, hro, hq, hpr⟩ := build_or_inv regexOk limit true false b1 b2 fl st o h
  obtain ⟨hp1, hr1⟩ := ih1 {} st1 lo hlo
  obtain ⟨hp2, hr2⟩ := ih2 {} lo.st ro hro
  refine ⟨hpr ▸ propsOK_or _ _ hp1 hp2, fun c hc => ?_⟩
  rw [hq]
  exact predOK_or d cfg lo.q ro.q b1 b2 c (hr1 c hc) (hr2 c hc)

/-! ## the induction -/

include hns in
/-- every path of the fragment is built into a plan related to its naive plan (together with the
decomposition used by the merge rewrite and the statement for the input of its last step), every
predicate into a plan with the oracle's truth -/
theorem build_frag (k : Bool) (e : Ast) (he : Frag k e) :
    (k = true → BuildP (F := F) d cfg regexOk limit e ∧ AxisDecomp (F := F) d cfg regexOk limit e ∧
      ∀ b g, e = .axis b g → BuildP (F := F) d cfg regexOk limit g) ∧
    (k = false → BuildB (F := F) d cfg regexOk limit e) := by
  induction he with
  | none =>
    refine ⟨fun _ => ⟨?_, ?_, fun b g h => by cases h⟩, (fun h => nomatch h)⟩
    · intro fl st o h; rw [build] at h; cases h
    · intro a inp' h; cases h
  | root s =>
    refine ⟨fun _ => ⟨?_, ?_, fun b g h => by cases h⟩, (fun h => nomatch h)⟩
    · intro fl st o h
      obtain ⟨hq, hp⟩ := build_root_inv regexOk limit true false s fl st o h
      rw [hq, hp]
      refine ⟨propsOK_empty, trivial, fun c hc => ?_⟩
      exact Rel.refl_of_ok d cfg _ .absolute c [⟨.node 0, 1, 0⟩] (by simp [sel, Nav.root]) (by
        intro x hx; simp only [refs, List.map_cons, List.map_nil, List.mem_cons, List.not_mem_nil,
          or_false] at hx; rw [hx]; exact (validRef_node d 0).2 wf.pos)
    · intro a inp' h; cases h
  | axis a inp hinp ha ih =>
    refine ⟨fun _ => ?_, (fun h => nomatch h)⟩
    obtain ⟨ihp, _, ihg⟩ := ih.1 rfl
    have : BuildP (F := F) d cfg regexOk limit (.axis a inp) ∧
        AxisDecomp (F := F) d cfg regexOk limit (.axis a inp) := by
      cases hinp with
      | none => exact build_axis_none' wf cfg hinj regexOk limit a ha
      | root s =>
        exact build_axis_other wf cfg hinj regexOk limit a ha (.root s) (by intro h; cases h)
          (by intro b g h; cases h) ihp
      | filter i2 b2 _ _ =>
        exact build_axis_other wf cfg hinj regexOk limit a ha (.filter i2 b2) (by intro h; cases h)
          (by intro b g h; cases h) ihp
      | axis b g hg hb =>
        exact build_axis_axis' wf cfg hinj regexOk limit a b g ha hg ihp (ihg b g rfl)
    exact ⟨this.1, this.2, fun b g h => by cases h; exact ihp⟩
  | filter inp b hinp hb ihp ihb =>
    refine ⟨fun _ => ⟨?_, ?_, fun b g h => by cases h⟩, (fun h => nomatch h)⟩
    · obtain ⟨ihp1, ihp2, _⟩ := ihp.1 rfl
      exact build_filter_case wf cfg hns hinj regexOk limit inp b hinp hb ihp1 ihp2 (ihb.2 rfl)
    · intro a inp' h; cases h
  | exist p hp ih =>
    exact ⟨(fun h => nomatch h), fun _ => buildB_exist wf cfg hns hinj regexOk limit p hp (ih.1 rfl).1⟩
  | eqStr p s hp ih =>
    exact ⟨(fun h => nomatch h), fun _ => buildB_eqStr wf cfg hns hinj regexOk limit p s hp (ih.1 rfl).1⟩
  | neStr p s hp ih =>
    exact ⟨(fun h => nomatch h), fun _ => buildB_neStr wf cfg hns hinj regexOk limit p s hp (ih.1 rfl).1⟩
  | cmpNumR op p lex hop hp ih =>
    exact ⟨(fun h => nomatch h),
      fun _ => buildB_cmpNumR wf cfg hns hinj regexOk limit op hop p lex hp (ih.1 rfl).1⟩
  | cmpNumL op lex p hop hp ih =>
    exact ⟨(fun h => nomatch h),
      fun _ => buildB_cmpNumL wf cfg hns hinj regexOk limit op hop lex p hp (ih.1 rfl).1⟩
  | not pfx b _ ih =>
    exact ⟨(fun h => nomatch h), fun _ => buildB_not cfg regexOk limit pfx b (ih.2 rfl)⟩
  | and b1 b2 _ _ ih1 ih2 =>
    exact ⟨(fun h => nomatch h), fun _ => buildB_and cfg regexOk limit b1 b2 (ih1.2 rfl) (ih2.2 rfl)⟩
  | or b1 b2 _ _ ih1 ih2 =>
    exact ⟨(fun h => nomatch h), fun _ => buildB_or cfg regexOk limit b1 b2 (ih1.2 rfl) (ih2.2 rfl)⟩

end

end XPathV.PredSem
