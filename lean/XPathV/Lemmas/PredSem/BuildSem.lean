import XPathV.Lemmas.PredSem.BuildInv
/-!
# C02 helpers — semantic steps for the builder: plan shapes, the filter over related inputs,
the merge rewrite
-/
namespace XPathV.PredSem
open XPathV XPathV.Model XPathV.PathSem

variable {F : Type} [NumAlg F]

/-! ## props -/

/-- neither `position()` nor `last()` occurs -/
def PropsOK (pr : Props) : Prop := pr.hasPosition = false ∧ pr.hasLast = false

theorem propsOK_empty : PropsOK {} := ⟨rfl, rfl⟩

theorem propsOK_or (a b : Props) (ha : PropsOK a) (hb : PropsOK b) : PropsOK (a.or b) := by
  obtain ⟨a1, a2⟩ := ha
  obtain ⟨b1, b2⟩ := hb
  simp [PropsOK, Props.or, a1, a2, b1, b2]

/-! ## plans on which `evalP` takes the default arm -/

def PathShape : Plan → Prop
  | .context | .absolute | .ancestor _ _ _ | .attr _ _ | .child _ _ | .cachedChild _ _
  | .descendant _ _ _ | .following _ _ _ | .preceding _ _ _ | .parent _ _ | .self _ _
  | .filter _ _ | .descOverDesc _ _ _ | .merge _ _ => True
  | _ => False

theorem evalP_pathShape (d : Doc) (cfg : ECfg) (q : Plan) (hq : PathShape q) (c : Ref)
    (out : List Item) (h : sel (F := F) d cfg q c = .ok out) :
    evalP (F := F) d cfg q c = .ok (.nodes (nodesVal d cfg out)) := by
  cases q <;> first
    | exact False.elim hq
    | simp only [evalP, h, bind, Except.bind, nodesVal, refs]

theorem axisPlan_inv (a : AxisInfo) (fl : Flags) (pr : Props) (inp q : Plan) (pr' : Props)
    (h : axisPlan a fl pr inp = .ok (q, pr')) :
    PathShape q ∧ pr'.hasPosition = pr.hasPosition ∧ pr'.hasLast = pr.hasLast := by
  unfold axisPlan at h
  split at h <;> cases h
  all_goals (refine ⟨?_, rfl, rfl⟩; first | trivial | (split <;> trivial))

/-- with `smartDesc` off, the plan of a step is the step constructor over its input: its input can
be replaced, and over any input it selects what the plain `stepPlan` selects -/
theorem axisPlan_step (a : AxisInfo) (ha : a.axis ∈ axes12) (fl : Flags) (hfl : fl.smartDesc = false)
    (pr : Props) (qi q : Plan) (pr' : Props) (h : axisPlan a fl pr qi = .ok (q, pr')) :
    q.inputOf = some qi ∧
    (∀ (n : Plan) (d : Doc) (cfg : ECfg) (c : Ref),
      sel (F := F) d cfg (q.withInput n) c = sel (F := F) d cfg (stepPlan a n) c) ∧
    (∀ (d : Doc) (cfg : ECfg) (c : Ref), sel (F := F) d cfg q c = sel (F := F) d cfg (stepPlan a qi) c) := by
  simp only [axes12, List.mem_cons, List.not_mem_nil, or_false] at ha
  rcases ha with hax | hax | hax | hax | hax | hax | hax | hax | hax | hax | hax | hax
  · -- child
    simp only [axisPlan, hax, Except.ok.injEq, Prod.mk.injEq] at h
    obtain ⟨rfl, _⟩ := h
    split
    · exact ⟨rfl, fun n d cfg c => by simp [Plan.withInput, stepPlan, hax, sel],
        fun d cfg c => by simp [stepPlan, hax, sel]⟩
    · exact ⟨rfl, fun n d cfg c => by simp [Plan.withInput, stepPlan, hax],
        fun d cfg c => by simp [stepPlan, hax]⟩
  all_goals
    simp only [axisPlan, hax, hfl, Except.ok.injEq, Prod.mk.injEq] at h
    obtain ⟨rfl, _⟩ := h
    exact ⟨rfl, fun n d cfg c => by simp [Plan.withInput, stepPlan, hax],
      fun d cfg c => by simp [stepPlan, hax]⟩

/-! ## `Rel` bookkeeping -/

theorem covers_congr_left (d : Doc) (S1 S1' S : List Ref) (h : ∀ x, x ∈ S1' ↔ x ∈ S1)
    (hc : Covers d S1 S) : Covers d S1' S :=
  ⟨fun x hx => hc.1 x ((h x).1 hx), fun o ho => by
    obtain ⟨o', ho', hr⟩ := hc.2 o ho
    exact ⟨o', (h o').2 ho', hr⟩⟩

theorem rel_of_seteq (d : Doc) (cfg : ECfg) (smart : Bool) (q' q n : Plan) (c : Ref)
    (o1 o2 : List Item) (h1 : sel (F := F) d cfg q' c = .ok o1) (h2 : sel (F := F) d cfg q c = .ok o2)
    (hm : ∀ x, x ∈ refs o1 ↔ x ∈ refs o2) (hr : Rel (F := F) d cfg smart q n c) :
    Rel (F := F) d cfg smart q' n c := by
  obtain ⟨out, nv, hq, hn, hv, heq, hcov⟩ := hr
  rw [h2] at hq; cases hq
  exact ⟨o1, nv, h1, hn, hv, fun hs x => (hm x).trans (heq hs x), covers_congr_left d _ _ _ hm hcov⟩

theorem rel_out_valid (d : Doc) (cfg : ECfg) (smart : Bool) (q n : Plan) (c : Ref)
    (hr : Rel (F := F) d cfg smart q n c) :
    ∃ out, sel (F := F) d cfg q c = .ok out ∧ ∀ o ∈ refs out, validRef d o = true := by
  obtain ⟨out, nv, hq, _, hv, _, hcov⟩ := hr
  exact ⟨out, hq, fun o ho => hv o (hcov.1 o ho)⟩

theorem covers_isEmpty (d : Doc) (S' S : List Ref) (h : Covers d S' S) : S'.isEmpty = S.isEmpty := by
  cases S' with
  | nil =>
    cases S with
    | nil => rfl
    | cons b t =>
      obtain ⟨o', ho', _⟩ := h.2 b List.mem_cons_self
      cases ho'
  | cons a t =>
    cases S with
    | nil => exact absurd (h.1 a List.mem_cons_self) (by simp)
    | cons b t' => rfl

/-- a built path plan that selects the naive plan's node set agrees with the oracle -/
theorem pathOK_of_rel (d : Doc) (cfg : ECfg) (q n : Plan) (p : Ast) (c : Spec.Ctx)
    (hr : Rel (F := F) d cfg false q n c.node) (hq : PathShape q)
    (hn : PathOK (F := F) d cfg n p c) : PathOK (F := F) d cfg q p c := by
  obtain ⟨out, nv, h1, h2, _, heq, _⟩ := hr
  obtain ⟨nv', ns, g, hsel, _, hS, hm, hv, hg⟩ := hn
  rw [h2] at hsel; cases hsel
  exact ⟨out, ns, g, h1, evalP_pathShape d cfg q hq c.node out h1, hS,
    fun x => (heq rfl x).trans (hm x), hv, hg⟩

/-- existence test through a covering plan -/
theorem predOK_of_rel (d : Doc) (cfg : ECfg) (smart : Bool) (q n : Plan) (p : Ast) (c : Spec.Ctx)
    (hr : Rel (F := F) d cfg smart q n c.node) (hq : PathShape q)
    (hn : PathOK (F := F) d cfg n p c) : PredOK (F := F) d cfg q p c := by
  obtain ⟨out, nv, h1, h2, hvn, _, hcov⟩ := hr
  obtain ⟨nv', ns, g, hsel, _, hS, hm, hv, _⟩ := hn
  rw [h2] at hsel; cases hsel
  refine ⟨_, _, g, evalP_pathShape d cfg q hq c.node out h1, hS, trivial, trivial, ?_⟩
  simp only [truthM, Spec.toBool]
  have e1 : (nodesVal d cfg out).isEmpty = (refs out).isEmpty :=
    isEmpty_congr_mem _ _ (mem_nodesVal d cfg out (refs out) (fun _ => Iff.rfl)
      (fun x hx => hvn x (hcov.1 x hx)))
  rw [e1, covers_isEmpty d _ _ hcov, isEmpty_congr_mem _ _ hm]

/-! ## the filter over related inputs -/

/-- what `sel_filter_bool` needs from a predicate plan, on valid nodes -/
def PredTr (d : Doc) (cfg : ECfg) (pred : Plan) (tr : Ref → Bool) : Prop :=
  ∀ x, validRef d x = true → ∃ v, evalP (F := F) d cfg pred x = .ok v ∧ IsBSN v ∧ truthM v = tr x

theorem predTr_of_predOK (d : Doc) (cfg : ECfg) (pl : Plan) (b : Ast)
    (h : ∀ c : Spec.Ctx, validRef d c.node = true → PredOK (F := F) d cfg pl b c) :
    PredTr (F := F) d cfg pl (holds (F := F) d b) := by
  intro x hx
  obtain ⟨v, _, hE, _, hbn, _, htr, _⟩ := predOK_holds (F := F) d cfg pl b x
    (fun pos size => h ⟨x, pos, size⟩ hx) 1 1
  exact ⟨v, hE, hbn.isBSN, htr⟩

theorem rel_filter (d : Doc) (cfg : ECfg) (smart : Bool) (q n pq pn : Plan) (c : Ref) (tr : Ref → Bool)
    (hin : Rel (F := F) d cfg false q n c)
    (hpq : PredTr (F := F) d cfg pq tr) (hpn : PredTr (F := F) d cfg pn tr) :
    Rel (F := F) d cfg smart (.filter q pq) (.filter n pn) c := by
  obtain ⟨out, nv, h1, h2, hv, heq, _⟩ := hin
  have heq := heq rfl
  obtain ⟨o1, ho1, hr1⟩ := sel_filter_bool (F := F) d cfg q pq c out tr h1
    (fun it hit => hpq it.r (hv _ ((heq _).1 (List.mem_map.2 ⟨it, hit, rfl⟩))))
  obtain ⟨o2, ho2, hr2⟩ := sel_filter_bool (F := F) d cfg n pn c nv tr h2
    (fun it hit => hpn it.r (hv _ (List.mem_map.2 ⟨it, hit, rfl⟩)))
  have hm : ∀ x, x ∈ refs o1 ↔ x ∈ refs o2 := by
    intro x; rw [hr1, hr2, List.mem_filter, List.mem_filter, heq]
  refine ⟨o1, o2, ho1, ho2, ?_, fun _ => hm, Covers.of_seteq d _ _ hm⟩
  intro o ho
  rw [hr2] at ho
  exact hv o (List.mem_filter.1 ho).1

/-! ## the merge rewrite -/

theorem sel_filter_congr (d : Doc) (cfg : ECfg) (i1 i2 pred : Plan) (c : Ref)
    (h : sel (F := F) d cfg i1 c = sel (F := F) d cfg i2 c) :
    sel (F := F) d cfg (.filter i1 pred) c = sel (F := F) d cfg (.filter i2 pred) c := by
  simp only [sel, h]

theorem sel_merge (d : Doc) (cfg : ECfg) (inp child : Plan) (c : Ref) (ins : List Item)
    (g : Item → List Item) (h : sel (F := F) d cfg inp c = .ok ins)
    (hc : ∀ it ∈ ins, sel (F := F) d cfg child it.r = .ok (g it)) :
    sel (F := F) d cfg (.merge inp child) c = .ok (plain ((ins.map g).flatten.map (·.r))) := by
  simp only [sel, h, bind, Except.bind]
  rw [mapM_ok _ g ins hc]

/-- **the merge rewrite preserves the node set** when the predicate value is never a number:
filtering the step per input node and concatenating selects what filtering the whole step selects -/
theorem merge_sem {d : Doc} (wf : WF d) (cfg : ECfg) (hinj : HashInj d cfg) (a : AxisInfo)
    (ha : a.axis ∈ axes12) (q qi pred : Plan)
    (hwi : ∀ (n : Plan) (c : Ref), sel (F := F) d cfg (q.withInput n) c = sel (F := F) d cfg (stepPlan a n) c)
    (hq : ∀ c : Ref, sel (F := F) d cfg q c = sel (F := F) d cfg (stepPlan a qi) c)
    (c : Ref) (ins : List Item) (hsel : sel (F := F) d cfg qi c = .ok ins)
    (hv : ∀ o ∈ refs ins, validRef d o = true) (tr : Ref → Bool)
    (hpred : PredTr (F := F) d cfg pred tr) :
    ∃ o1 o2, sel (F := F) d cfg (.merge qi (.filter (q.withInput .context) pred)) c = .ok o1 ∧
      sel (F := F) d cfg (.filter q pred) c = .ok o2 ∧ ∀ x, x ∈ refs o1 ↔ x ∈ refs o2 := by
  -- the plain filter
  obtain ⟨s2, hs2, hm2, hv2⟩ := stepPlan_ok (F := F) wf cfg hinj a ha qi c ins hv hsel
  have hs2' : sel (F := F) d cfg q c = .ok s2 := by rw [hq]; exact hs2
  obtain ⟨o2, ho2, hr2⟩ := sel_filter_bool (F := F) d cfg q pred c s2 tr hs2'
    (fun it hit => hpred it.r (hv2 _ (List.mem_map.2 ⟨it, hit, rfl⟩)))
  -- per input node
  have hitem : ∀ it ∈ ins, ∃ l, sel (F := F) d cfg (.filter (q.withInput .context) pred) it.r = .ok l ∧
      ∀ x, x ∈ refs l ↔ (x ∈ (axisRefsM d a.axis it.r).filter (test d cfg a) ∧ tr x = true) := by
    intro it hit
    have hvit : validRef d it.r = true := hv it.r (List.mem_map.2 ⟨it, hit, rfl⟩)
    obtain ⟨s, hs, hm, hvs⟩ := stepPlan_ok (F := F) wf cfg hinj a ha .context it.r [⟨it.r, 1, 0⟩]
      (by intro o ho; simp only [refs, List.map_cons, List.map_nil, List.mem_cons, List.not_mem_nil,
            or_false] at ho; rw [ho]; exact hvit)
      (sel_context d cfg it.r)
    have hs' : sel (F := F) d cfg (q.withInput .context) it.r = .ok s := by rw [hwi]; exact hs
    obtain ⟨l, hl, hrl⟩ := sel_filter_bool (F := F) d cfg (q.withInput .context) pred it.r s tr hs'
      (fun jt hjt => hpred jt.r (hvs _ (List.mem_map.2 ⟨jt, hjt, rfl⟩)))
    refine ⟨l, hl, fun x => ?_⟩
    rw [hrl, List.mem_filter, hm]
    simp only [refs, List.map_cons, List.map_nil, List.mem_cons, List.not_mem_nil, or_false,
      exists_eq_left]
  let g : Item → List Item := fun it =>
    match sel (F := F) d cfg (.filter (q.withInput .context) pred) it.r with
    | .ok l => l
    | .error _ => []
  have hg : ∀ it ∈ ins, sel (F := F) d cfg (.filter (q.withInput .context) pred) it.r = .ok (g it) := by
    intro it hit
    obtain ⟨l, hl, _⟩ := hitem it hit
    simp only [g, hl]
  refine ⟨_, o2, sel_merge d cfg qi _ c ins g hsel hg, ho2, fun x => ?_⟩
  rw [plain_refs, hr2, List.mem_filter, hm2]
  constructor
  · intro hx
    obtain ⟨y, hy, rfl⟩ := List.mem_map.1 hx
    obtain ⟨l', hl', hy⟩ := List.mem_flatten.1 hy
    obtain ⟨it, hit, rfl⟩ := List.mem_map.1 hl'
    obtain ⟨l, hl, hchar⟩ := hitem it hit
    have hgl : g it = l := by simp only [g, hl]
    have := (hchar y.r).1 (List.mem_map.2 ⟨y, hgl ▸ hy, rfl⟩)
    exact ⟨⟨it.r, List.mem_map.2 ⟨it, hit, rfl⟩, this.1⟩, this.2⟩
  · rintro ⟨⟨o, ho, hx⟩, ht⟩
    obtain ⟨it, hit, rfl⟩ := List.mem_map.1 ho
    obtain ⟨l, hl, hchar⟩ := hitem it hit
    have hgl : g it = l := by simp only [g, hl]
    obtain ⟨y, hy, rfl⟩ := List.mem_map.1 ((hchar x).2 ⟨hx, ht⟩)
    exact List.mem_map.2 ⟨y, List.mem_flatten.2 ⟨g it, List.mem_map.2 ⟨it, hit, rfl⟩, hgl ▸ hy⟩, rfl⟩

end XPathV.PredSem
