import XPathV.Lemmas.PredSem.Path
/-!
# C02 — the predicate fragments, the naive plan `predPlan`, model = oracle on naive plans

* `PredB` — the task's fragment: boolean-valued predicates over predicate-free paths (`PathPF`)
* `Frag`  — the mutually nested generalisation (one inductive family indexed by "is a path"):
  predicates on every step, stacked predicates, predicates inside predicates
* `frag_sem` — the induction; `pred_truth`, `filtered_step_sem`, `C02_naive`,
  `C02_filter_keeps_true` — the statements

Standing assumptions as for C01: `WF d`, `cfg.nsIface = true`, `HashInj d cfg`.
-/
namespace XPathV.PredSem
open XPathV XPathV.Model XPathV.PathSem

variable {F : Type} [NumAlg F]

/-! ## the naive plan of a path-with-predicates / of a predicate -/

/-- the plan without any builder rewrite: steps as `stepPlan`, predicates as `.filter`,
comparisons as `.logical`, `and`/`or` as `.boolean`, `not(b)` as the `not` function -/
def predPlan : Ast → Plan
  | .none => .context
  | .root _ => .absolute
  | .axis a inp => stepPlan a (predPlan inp)
  | .filter inp b => .filter (predPlan inp) (predPlan b)
  | .oper op l r =>
    if op = "and" then .boolean false (predPlan l) (predPlan r)
    else if op = "or" then .boolean true (predPlan l) (predPlan r)
    else .logical op (predPlan l) (predPlan r)
  | .str s => .constStr s
  | .num l => .constNum l
  | .call name _ (.acons b .anil) => .func name .nil (.pcons (predPlan b) .pnil)
  | _ => .nil

theorem predPlan_pathPF (p : Ast) (hp : PathPF p) : predPlan p = naivePlan p := by
  induction hp with
  | none => rfl
  | root s => rfl
  | axis a inp _ _ ih => simp only [predPlan, naivePlan, ih]

theorem predPlan_cmp (op : String) (hop : op ∈ cmpOps) (l r : Ast) :
    predPlan (.oper op l r) = .logical op (predPlan l) (predPlan r) := by
  simp only [cmpOps, List.mem_cons, List.not_mem_nil, or_false] at hop
  rcases hop with rfl | rfl | rfl | rfl | rfl | rfl <;> simp [predPlan]

/-! ## the task's fragment: boolean predicates over predicate-free paths -/

/-- boolean-valued predicates over predicate-free paths -/
inductive PredB : Ast → Prop
  /-- existence test (relative or absolute path) -/
  | path (p : Ast) : PathPF p → PredB p
  | eqStr (p : Ast) (s : String) : PathPF p → PredB (.oper "=" p (.str s))
  | neStr (p : Ast) (s : String) : PathPF p → PredB (.oper "!=" p (.str s))
  | cmpNumR (op : String) (p : Ast) (lex : String) : op ∈ cmpOps → PathPF p →
      PredB (.oper op p (.num lex))
  | cmpNumL (op : String) (lex : String) (p : Ast) : op ∈ cmpOps → PathPF p →
      PredB (.oper op (.num lex) p)
  | not (pfx : String) (b : Ast) : PredB b → PredB (.call "not" pfx (.acons b .anil))
  | and (b1 b2 : Ast) : PredB b1 → PredB b2 → PredB (.oper "and" b1 b2)
  | or (b1 b2 : Ast) : PredB b1 → PredB b2 → PredB (.oper "or" b1 b2)

/-! ## the general fragment: predicates on every step, stacked, and nested -/

/-- `Frag true e`: `e` is a location path over the twelve axes whose steps (and the path start) may
carry any number of boolean-valued predicates; `Frag false e`: `e` is a boolean-valued predicate
(existence test, path compared with a literal, `not`, `and`, `or`) over such paths -/
inductive Frag : Bool → Ast → Prop
  | none : Frag true .none
  | root (s : String) : Frag true (.root s)
  | axis (a : AxisInfo) (inp : Ast) : Frag true inp → a.axis ∈ axes12 → Frag true (.axis a inp)
  | filter (inp b : Ast) : Frag true inp → Frag false b → Frag true (.filter inp b)
  | exist (p : Ast) : Frag true p → Frag false p
  | eqStr (p : Ast) (s : String) : Frag true p → Frag false (.oper "=" p (.str s))
  | neStr (p : Ast) (s : String) : Frag true p → Frag false (.oper "!=" p (.str s))
  | cmpNumR (op : String) (p : Ast) (lex : String) : op ∈ cmpOps → Frag true p →
      Frag false (.oper op p (.num lex))
  | cmpNumL (op : String) (lex : String) (p : Ast) : op ∈ cmpOps → Frag true p →
      Frag false (.oper op (.num lex) p)
  | not (pfx : String) (b : Ast) : Frag false b → Frag false (.call "not" pfx (.acons b .anil))
  | and (b1 b2 : Ast) : Frag false b1 → Frag false b2 → Frag false (.oper "and" b1 b2)
  | or (b1 b2 : Ast) : Frag false b1 → Frag false b2 → Frag false (.oper "or" b1 b2)

theorem frag_of_pathPF (p : Ast) (hp : PathPF p) : Frag true p := by
  induction hp with
  | none => exact .none
  | root s => exact .root s
  | axis a inp _ ha ih => exact .axis a inp ih ha

theorem frag_of_predB (b : Ast) (hb : PredB b) : Frag false b := by
  induction hb with
  | path p hp => exact .exist p (frag_of_pathPF p hp)
  | eqStr p s hp => exact .eqStr p s (frag_of_pathPF p hp)
  | neStr p s hp => exact .neStr p s (frag_of_pathPF p hp)
  | cmpNumR op p lex hop hp => exact .cmpNumR op p lex hop (frag_of_pathPF p hp)
  | cmpNumL op lex p hop hp => exact .cmpNumL op lex p hop (frag_of_pathPF p hp)
  | not pfx b _ ih => exact .not pfx b ih
  | and b1 b2 _ _ ih1 ih2 => exact .and b1 b2 ih1 ih2
  | or b1 b2 _ _ ih1 ih2 => exact .or b1 b2 ih1 ih2

/-! ## the main induction -/

/-- **model = oracle on the whole fragment** (naive plans): at every valid context node and any
context position/size, a path of the fragment yields the same node set on both sides (`PathOK`), a
predicate of the fragment the same truth, and never a number (`PredOK`) -/
theorem frag_sem {d : Doc} (wf : WF d) (cfg : ECfg) (hns : cfg.nsIface = true) (hinj : HashInj d cfg)
    (k : Bool) (e : Ast) (he : Frag k e) :
    ∀ c : Spec.Ctx, validRef d c.node = true →
      (k = true → PathOK (F := F) d cfg (predPlan e) e c) ∧
      (k = false → PredOK (F := F) d cfg (predPlan e) e c) := by
  induction he with
  | none => exact fun c hc => ⟨fun _ => pathOK_none d cfg c hc, fun h => nomatch h⟩
  | root s => exact fun c _ => ⟨fun _ => pathOK_root wf cfg s c, fun h => nomatch h⟩
  | axis a inp _ ha ih =>
    exact fun c hc => ⟨fun _ => pathOK_axis wf cfg hns hinj a ha _ inp c ((ih c hc).1 rfl),
      fun h => nomatch h⟩
  | filter inp b _ _ ihp ihb =>
    exact fun c hc => ⟨fun _ => pathOK_filter d cfg _ _ inp b c ((ihp c hc).1 rfl)
      (fun x hx pos size => (ihb ⟨x, pos, size⟩ hx).2 rfl), fun h => nomatch h⟩
  | exist p _ ih =>
    exact fun c hc => ⟨(fun h => nomatch h), fun _ => predOK_path d cfg _ p c ((ih c hc).1 rfl)⟩
  | eqStr p s _ ih =>
    exact fun c hc => ⟨(fun h => nomatch h), fun _ => predOK_eqStr d cfg _ p s c ((ih c hc).1 rfl)⟩
  | neStr p s _ ih =>
    exact fun c hc => ⟨(fun h => nomatch h), fun _ => predOK_neStr d cfg _ p s c ((ih c hc).1 rfl)⟩
  | cmpNumR op p lex hop _ ih =>
    refine fun c hc => ⟨(fun h => nomatch h), fun _ => ?_⟩
    rw [predPlan_cmp op hop]
    exact predOK_cmpNumR d cfg op hop _ p lex c ((ih c hc).1 rfl)
  | cmpNumL op lex p hop _ ih =>
    refine fun c hc => ⟨(fun h => nomatch h), fun _ => ?_⟩
    rw [predPlan_cmp op hop]
    exact predOK_cmpNumL d cfg op hop _ p lex c ((ih c hc).1 rfl)
  | not pfx b _ ih =>
    exact fun c hc => ⟨(fun h => nomatch h), fun _ => predOK_not d cfg _ b pfx c ((ih c hc).2 rfl)⟩
  | and b1 b2 _ _ ih1 ih2 =>
    exact fun c hc => ⟨(fun h => nomatch h),
      fun _ => predOK_and d cfg _ _ b1 b2 c ((ih1 c hc).2 rfl) ((ih2 c hc).2 rfl)⟩
  | or b1 b2 _ _ ih1 ih2 =>
    exact fun c hc => ⟨(fun h => nomatch h),
      fun _ => predOK_or d cfg _ _ b1 b2 c ((ih1 c hc).2 rfl) ((ih2 c hc).2 rfl)⟩

/-! ## the statements of the task -/

/-- **truth of a boolean predicate** (task item 2): for `b ∈ PredB` the naive predicate plan
evaluates, at every valid node and whatever the context position/size, to a value that is not a
number (a boolean or a node-set) and whose truth is `boolean()` of the oracle's value — which is
not a number either -/
theorem pred_truth {d : Doc} (wf : WF d) (cfg : ECfg) (hns : cfg.nsIface = true)
    (hinj : HashInj d cfg) (b : Ast) (hb : PredB b) (c : Ref) (hc : validRef d c = true)
    (pos size : Nat) :
    ∃ v sv g, evalP (F := F) d cfg (predPlan b) c = .ok v ∧
      Spec.eval (F := F) d b ⟨c, pos, size⟩ = .ok (.val sv g) ∧
      truthM v = Spec.toBool sv ∧ IsBN v ∧ NotNum sv := by
  obtain ⟨v, sv, g, hE, hS, hbn, hnn, htr⟩ :=
    (frag_sem (F := F) wf cfg hns hinj false b (frag_of_predB b hb) ⟨c, pos, size⟩ hc).2 rfl
  exact ⟨v, sv, g, hE, hS, htr, hbn, hnn⟩

/-- `pred_truth` with the oracle's truth written as `holds` (context position 1 of 1; it does not
depend on them) -/
theorem pred_truth_holds {d : Doc} (wf : WF d) (cfg : ECfg) (hns : cfg.nsIface = true)
    (hinj : HashInj d cfg) (b : Ast) (hb : PredB b) (c : Ref) (hc : validRef d c = true) :
    ∃ v, evalP (F := F) d cfg (predPlan b) c = .ok v ∧ IsBN v ∧ truthM v = holds (F := F) d b c := by
  obtain ⟨v, _, hE, _, hbn, _, htr, _⟩ := predOK_holds (F := F) d cfg (predPlan b) b c
    (fun pos size => (frag_sem (F := F) wf cfg hns hinj false b (frag_of_predB b hb) ⟨c, pos, size⟩ hc).2 rfl)
    1 1
  exact ⟨v, hE, hbn, htr⟩

/-- **one filtered step** (task item 3): for a predicate-free path `q`, one more step `a` and a
predicate `b ∈ PredB`, the naive plan `.filter (stepPlan a (naivePlan q)) (predPlan b)` selects,
from any valid context node, exactly the nodes `x` of the XPath denotation `ns0` of `q/a` for which
`b` is true at `x`, and this is the node set the oracle assigns to `q/a[b]`; the model keeps the
order of the unfiltered step -/
theorem filtered_step_sem {d : Doc} (wf : WF d) (cfg : ECfg) (hns : cfg.nsIface = true)
    (hinj : HashInj d cfg) (q : Ast) (hq : PathPF q) (a : AxisInfo) (ha : a.axis ∈ axes12)
    (b : Ast) (hb : PredB b) (c : Ref) (hc : validRef d c = true) :
    ∃ out0 ns0 g0 out ns g,
      sel (F := F) d cfg (stepPlan a (naivePlan q)) c = .ok out0 ∧
      Spec.eval (F := F) d (.axis a q) ⟨c, 1, 1⟩ = .ok (.val (.nodes ns0) g0) ∧
      (∀ x, x ∈ refs out0 ↔ x ∈ ns0) ∧
      sel (F := F) d cfg (.filter (stepPlan a (naivePlan q)) (predPlan b)) c = .ok out ∧
      Spec.eval (F := F) d (.filter (.axis a q) b) ⟨c, 1, 1⟩ = .ok (.val (.nodes ns) g) ∧
      refs out = (refs out0).filter (holds (F := F) d b) ∧
      (∀ x, x ∈ ns ↔ x ∈ ns0 ∧ holds (F := F) d b x = true) ∧
      (∀ x, x ∈ refs out ↔ x ∈ ns) := by
  have hpath := (frag_sem (F := F) wf cfg hns hinj true (.axis a q)
    (.axis a q (frag_of_pathPF q hq) ha) ⟨c, 1, 1⟩ hc).1 rfl
  obtain ⟨out0, ns0, g0, hsel, _, hev, hm0, hv0, hg0⟩ := hpath
  have hpl : predPlan (.axis a q) = stepPlan a (naivePlan q) := by
    simp only [predPlan, predPlan_pathPF q hq]
  rw [hpl] at hsel
  obtain ⟨out, ns, g, hout, hev', hrefs, hnsm, _⟩ :=
    filter_sem (F := F) d cfg (stepPlan a (naivePlan q)) (predPlan b) (.axis a q) b ⟨c, 1, 1⟩
      out0 ns0 g0 hsel hev hm0 hv0 hg0
      (fun x hx pos size =>
        (frag_sem (F := F) wf cfg hns hinj false b (frag_of_predB b hb) ⟨x, pos, size⟩ hx).2 rfl)
  refine ⟨out0, ns0, g0, out, ns, g, hsel, hev, hm0, hout, hev', hrefs, hnsm, fun x => ?_⟩
  rw [hrefs, List.mem_filter, hm0, hnsm]

/-! ## the general statements (task item 4, naive plans) -/

/-- **C02, naive plans**: for every path of the fragment — predicates on any step, several
predicates per step, predicates nested inside predicates — the un-rewritten plan yields from every
valid context node exactly the node-set of the XPath 1.0 oracle; neither side fails -/
theorem C02_naive {d : Doc} (wf : WF d) (cfg : ECfg) (hns : cfg.nsIface = true)
    (hinj : HashInj d cfg) (p : Ast) (hp : Frag true p) (c : Ref) (hc : validRef d c = true) :
    ∃ out ns g, sel (F := F) d cfg (predPlan p) c = .ok out ∧
      Spec.eval (F := F) d p ⟨c, 1, 1⟩ = .ok (.val (.nodes ns) g) ∧
      (∀ x, x ∈ refs out ↔ x ∈ ns) ∧ (∀ x ∈ ns, validRef d x = true) := by
  obtain ⟨out, ns, g, hsel, _, hev, hm, hv, _⟩ :=
    (frag_sem (F := F) wf cfg hns hinj true p hp ⟨c, 1, 1⟩ hc).1 rfl
  exact ⟨out, ns, g, hsel, hev, hm, hv⟩

/-- **C02, the property itself** (naive plans): a predicate `b` of the fragment on top of *any*
path `p` of the fragment (so also `p[b1][b2]…` and predicates on inner steps) keeps exactly the
nodes of `p` at which `b` is true — on the oracle side as a set, on the model side as the
sub-sequence of the unfiltered sequence (same order, nothing else dropped, nothing added) -/
theorem C02_filter_keeps_true {d : Doc} (wf : WF d) (cfg : ECfg) (hns : cfg.nsIface = true)
    (hinj : HashInj d cfg) (p b : Ast) (hp : Frag true p) (hb : Frag false b)
    (c : Ref) (hc : validRef d c = true) :
    ∃ out0 ns0 g0 out ns g,
      sel (F := F) d cfg (predPlan p) c = .ok out0 ∧
      Spec.eval (F := F) d p ⟨c, 1, 1⟩ = .ok (.val (.nodes ns0) g0) ∧
      (∀ x, x ∈ refs out0 ↔ x ∈ ns0) ∧
      sel (F := F) d cfg (predPlan (.filter p b)) c = .ok out ∧
      Spec.eval (F := F) d (.filter p b) ⟨c, 1, 1⟩ = .ok (.val (.nodes ns) g) ∧
      refs out = (refs out0).filter (holds (F := F) d b) ∧
      (∀ x, x ∈ ns ↔ x ∈ ns0 ∧ holds (F := F) d b x = true) ∧
      (∀ x, x ∈ refs out ↔ x ∈ ns) := by
  obtain ⟨out0, ns0, g0, hsel, _, hev, hm0, hv0, hg0⟩ :=
    (frag_sem (F := F) wf cfg hns hinj true p hp ⟨c, 1, 1⟩ hc).1 rfl
  obtain ⟨out, ns, g, hout, hev', hrefs, hnsm, _⟩ :=
    filter_sem (F := F) d cfg (predPlan p) (predPlan b) p b ⟨c, 1, 1⟩
      out0 ns0 g0 hsel hev hm0 hv0 hg0
      (fun x hx pos size => (frag_sem (F := F) wf cfg hns hinj false b hb ⟨x, pos, size⟩ hx).2 rfl)
  refine ⟨out0, ns0, g0, out, ns, g, hsel, hev, hm0, hout, hev', hrefs, hnsm, fun x => ?_⟩
  rw [hrefs, List.mem_filter, hm0, hnsm]

/-- the truth `holds` used above is the model's own verdict: on every valid node the predicate plan
evaluates to a boolean or a node-set whose truth is `holds` -/
theorem holds_is_model_truth {d : Doc} (wf : WF d) (cfg : ECfg) (hns : cfg.nsIface = true)
    (hinj : HashInj d cfg) (b : Ast) (hb : Frag false b) (x : Ref) (hx : validRef d x = true) :
    ∃ v, evalP (F := F) d cfg (predPlan b) x = .ok v ∧ IsBN v ∧ truthM v = holds (F := F) d b x := by
  obtain ⟨v, _, hE, _, hbn, _, htr, _⟩ := predOK_holds (F := F) d cfg (predPlan b) b x
    (fun pos size => (frag_sem (F := F) wf cfg hns hinj false b hb ⟨x, pos, size⟩ hx).2 rfl) 1 1
  exact ⟨v, hE, hbn, htr⟩

end XPathV.PredSem

