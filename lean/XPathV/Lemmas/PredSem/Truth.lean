import XPathV.Lemmas.PredSem.Filter
import XPathV.Lemmas.C07Base
/-!
# C02 helpers — truth of boolean-valued predicates: model value vs oracle value

`PathOK` / `PredOK` are the agreement statements between a plan and a parse tree at one context;
the lemmas below are the per-constructor steps (existence test, comparisons of a path with a
literal, `not`, `and`, `or`).
-/
namespace XPathV.PredSem
open XPathV XPathV.Model XPathV.PathSem

variable {F : Type} [NumAlg F]

/-- the six comparison operators -/
def cmpOps : List String := ["=", "!=", "<", "<=", ">", ">="]

/-- a boolean or a node-set (what the predicate fragment produces on the model side) -/
def IsBN : MVal F → Prop
  | .bool _ | .nodes _ => True
  | _ => False

omit [NumAlg F] in
theorem IsBN.isBSN {v : MVal F} (h : IsBN v) : IsBSN v := by
  cases v <;> simp_all [IsBN, IsBSN]

/-- the node-set *value* `evalP` makes of a selected sequence -/
def nodesVal (d : Doc) (cfg : ECfg) (out : List Item) : List Ref :=
  if cfg.setSemantics then Spec.docOrder d (refs out) else refs out

/-- plan `pl` and path `p` agree at context `c`: both succeed, same node set, all nodes valid;
`evalP` takes the default arm; the oracle's per-origin groups cover exactly the node set -/
def PathOK (d : Doc) (cfg : ECfg) (pl : Plan) (p : Ast) (c : Spec.Ctx) : Prop :=
  ∃ out ns g, sel (F := F) d cfg pl c.node = .ok out ∧
    evalP (F := F) d cfg pl c.node = .ok (.nodes (nodesVal d cfg out)) ∧
    Spec.eval (F := F) d p c = .ok (.val (.nodes ns) g) ∧
    (∀ x, x ∈ refs out ↔ x ∈ ns) ∧ (∀ x ∈ ns, validRef d x = true) ∧
    (∀ gs, g = some gs → ∀ x, x ∈ gs.flatten ↔ x ∈ ns)

/-- plan `pl` and predicate `b` agree at context `c`: both succeed, neither value is a number
(the model's is a boolean or a node-set), same truth -/
def PredOK (d : Doc) (cfg : ECfg) (pl : Plan) (b : Ast) (c : Spec.Ctx) : Prop :=
  ∃ v sv g, evalP (F := F) d cfg pl c.node = .ok v ∧ Spec.eval (F := F) d b c = .ok (.val sv g) ∧
    IsBN v ∧ NotNum sv ∧ truthM v = Spec.toBool sv

theorem mem_nodesVal (d : Doc) (cfg : ECfg) (out : List Item) (ns : List Ref)
    (hm : ∀ x, x ∈ refs out ↔ x ∈ ns) (hv : ∀ x ∈ ns, validRef d x = true) (x : Ref) :
    x ∈ nodesVal d cfg out ↔ x ∈ ns := by
  unfold nodesVal
  split
  · rw [mem_docOrder, hm]
    exact ⟨fun h => h.1, fun h => ⟨h, hv x h⟩⟩
  · exact hm x

/-! ## existence test -/

theorem predOK_path (d : Doc) (cfg : ECfg) (pl : Plan) (p : Ast) (c : Spec.Ctx)
    (h : PathOK (F := F) d cfg pl p c) : PredOK (F := F) d cfg pl p c := by
  obtain ⟨out, ns, g, _, hE, hS, hm, hv, _⟩ := h
  refine ⟨_, _, g, hE, hS, trivial, trivial, ?_⟩
  simp only [truthM, Spec.toBool]
  rw [isEmpty_congr_mem _ _ (mem_nodesVal d cfg out ns hm hv)]

/-! ## oracle-side evaluation steps -/

theorem ofString_or : Spec.CmpOp.ofString "or" = none := by decide
theorem ofString_and : Spec.CmpOp.ofString "and" = none := by decide

theorem cmpOps_ofString (op : String) (h : op ∈ cmpOps) : ∃ cop, Spec.CmpOp.ofString op = some cop := by
  simp only [cmpOps, List.mem_cons, List.not_mem_nil, or_false] at h
  rcases h with rfl | rfl | rfl | rfl | rfl | rfl <;> exact ⟨_, rfl⟩

theorem eval_cmp (d : Doc) (op : String) (cop : Spec.CmpOp) (hop : Spec.CmpOp.ofString op = some cop)
    (l r : Ast) (c : Spec.Ctx) (lv rv : Spec.Res F)
    (hl : Spec.eval (F := F) d l c = .ok lv) (hr : Spec.eval (F := F) d r c = .ok rv) :
    Spec.eval (F := F) d (.oper op l r) c =
      .ok (.val (.bool (Spec.compare d cop lv.value rv.value)) none) := by
  rw [Spec.eval]
  simp only [hl, hr, bind, Except.bind]
  split
  · rw [ofString_or] at hop; cases hop
  · rw [ofString_and] at hop; cases hop
  · simp only [hop]

theorem eval_and (d : Doc) (l r : Ast) (c : Spec.Ctx) (lv rv : Spec.Res F)
    (hl : Spec.eval (F := F) d l c = .ok lv) (hr : Spec.eval (F := F) d r c = .ok rv) :
    Spec.eval (F := F) d (.oper "and" l r) c =
      .ok (.val (.bool (Spec.toBool lv.value && Spec.toBool rv.value)) none) := by
  rw [Spec.eval]
  simp only [hl, hr, bind, Except.bind]
  cases h : Spec.toBool lv.value <;> simp

theorem eval_or (d : Doc) (l r : Ast) (c : Spec.Ctx) (lv rv : Spec.Res F)
    (hl : Spec.eval (F := F) d l c = .ok lv) (hr : Spec.eval (F := F) d r c = .ok rv) :
    Spec.eval (F := F) d (.oper "or" l r) c =
      .ok (.val (.bool (Spec.toBool lv.value || Spec.toBool rv.value)) none) := by
  rw [Spec.eval]
  simp only [hl, hr, bind, Except.bind]
  cases h : Spec.toBool lv.value <;> simp

theorem spec_callFn_not (d : Doc) (c : Spec.Ctx) (a : Spec.Value F) :
    Spec.callFn d c "not" [a] = .ok (.bool (!Spec.toBool a)) := rfl

theorem eval_not (d : Doc) (pfx : String) (b : Ast) (c : Spec.Ctx) (bv : Spec.Res F)
    (hb : Spec.eval (F := F) d b c = .ok bv) :
    Spec.eval (F := F) d (.call "not" pfx (.acons b .anil)) c =
      .ok (.val (.bool (!Spec.toBool bv.value)) none) := by
  simp only [Spec.eval, hb, bind, Except.bind, Spec.Res.argList, spec_callFn_not]

theorem eval_str (d : Doc) (s : String) (c : Spec.Ctx) :
    Spec.eval (F := F) d (.str s) c = .ok (.val (.str s) none) := by simp only [Spec.eval]

theorem eval_num (d : Doc) (l : String) (c : Spec.Ctx) :
    Spec.eval (F := F) d (.num l) c = .ok (.val (.num (Spec.strToNum l)) none) := by
  simp only [Spec.eval]

/-! ## model-side evaluation steps -/

theorem callFn_not_bool (d : Doc) (cfg : ECfg) (c : Ref) (b : Bool) :
    callFn (F := F) d cfg "not" .nil c [.ok (.bool b)] none = .ok (.bool (!b)) := by
  simp [callFn, bind, Except.bind]

theorem callFn_not_nodes (d : Doc) (cfg : ECfg) (c : Ref) (l : List Ref) :
    callFn (F := F) d cfg "not" .nil c [.ok (.nodes l)] none = .ok (.bool l.isEmpty) := by
  simp [callFn, bind, Except.bind]

/-- after the repair of `notFunc` (`default: return !asBool(t, v)`): `not(number)` is the oracle's -/
theorem callFn_not_num (d : Doc) (cfg : ECfg) (c : Ref) (x : F) :
    callFn (F := F) d cfg "not" .nil c [.ok (.num x)] none =
      .ok (.bool (!Spec.toBool (F := F) (.num x))) := by
  simp [callFn, asBoolM, Spec.toBool, bind, Except.bind]

/-- … and so is `not(string)` -/
theorem callFn_not_str (d : Doc) (cfg : ECfg) (c : Ref) (s : String) :
    callFn (F := F) d cfg "not" .nil c [.ok (.str s)] none =
      .ok (.bool (!Spec.toBool (F := F) (.str s))) := by
  simp [callFn, asBoolM, Spec.toBool, bind, Except.bind]

theorem evalP_not (d : Doc) (cfg : ECfg) (pl : Plan) (c : Ref) :
    evalP (F := F) d cfg (.func "not" .nil (.pcons pl .pnil)) c =
      callFn (F := F) d cfg "not" .nil c [evalP (F := F) d cfg pl c] none := by
  simp [evalP, argVals, bind, Except.bind, pure, Except.pure]

theorem evalP_logical (d : Doc) (cfg : ECfg) (op : String) (cop : Spec.CmpOp)
    (hop : Spec.CmpOp.ofString op = some cop) (l r : Plan) (c : Ref) (m n : MVal F) (b : Bool)
    (hl : evalP (F := F) d cfg l c = .ok m) (hr : evalP (F := F) d cfg r c = .ok n)
    (hc : cmpM d cop m n = .ok b) :
    evalP (F := F) d cfg (.logical op l r) c = .ok (.bool b) := by
  simp only [evalP, hl, hr, bind, Except.bind, logicalVal, hop, hc]

theorem evalP_boolean (d : Doc) (cfg : ECfg) (isOr : Bool) (l r : Plan) (c : Ref) (m n : MVal F)
    (bl br : Bool)
    (hl : evalP (F := F) d cfg l c = .ok m) (hr : evalP (F := F) d cfg r c = .ok n)
    (hbl : asBoolM m = .ok bl) (hbr : asBoolM n = .ok br) :
    evalP (F := F) d cfg (.boolean isOr l r) c = .ok (.bool (if isOr then bl || br else bl && br)) := by
  simp only [evalP, hl, hr, hbl, hbr, bind, Except.bind]
  cases isOr <;> cases bl <;> simp

theorem asBoolM_BN (v : MVal F) (h : IsBN v) : asBoolM v = .ok (truthM v) := by
  cases v <;> simp_all [IsBN, asBoolM, truthM]

theorem beq_str_comm (a b : String) : (a == b) = (b == a) := by
  rw [Bool.eq_iff_iff]; simp only [beq_iff_eq]; exact eq_comm

theorem bne_str_comm (a b : String) : (a != b) = (b != a) := by
  simp only [bne, beq_str_comm a b]

theorem compare_nodes_str_eq (d : Doc) (ns : List Ref) (s : String) :
    Spec.compare (F := F) d .eq (.nodes ns) (.str s) = ns.any (fun x => stringValue d x == s) := by
  simp only [Spec.compare, Spec.cmpAtom, Spec.CmpOp.isRel, Spec.toStr]
  simp

theorem compare_nodes_str_ne (d : Doc) (ns : List Ref) (s : String) :
    Spec.compare (F := F) d .ne (.nodes ns) (.str s) = ns.any (fun x => stringValue d x != s) := by
  simp only [Spec.compare, Spec.cmpAtom, Spec.CmpOp.isRel, Spec.toStr]
  simp [bne]

/-- (the engine now tests `node value = literal`, operands in order; `==` on strings is symmetric,
so the statement — written with the literal first, as the engine used to call it — still holds) -/
theorem cmpM_nodes_str_eq (d : Doc) (l : List Ref) (s : String) :
    cmpM (F := F) d .eq (.nodes l) (.str s) = .ok (l.any (fun x => s == stringValue d x)) := by
  simp only [cmpM, xtypeOf, bind, Except.bind, pure, Except.pure, cmpStrF]
  congr 2; funext x; exact beq_str_comm _ _

theorem cmpM_nodes_str_ne (d : Doc) (l : List Ref) (s : String) :
    cmpM (F := F) d .ne (.nodes l) (.str s) = .ok (l.any (fun x => s != stringValue d x)) := by
  simp only [cmpM, xtypeOf, bind, Except.bind, pure, Except.pure, cmpStrF]
  congr 2; funext x; exact bne_str_comm _ _

theorem evalP_constStr (d : Doc) (cfg : ECfg) (s : String) (c : Ref) :
    evalP (F := F) d cfg (.constStr s) c = .ok (.str s) := by simp only [evalP]

theorem evalP_constNum (d : Doc) (cfg : ECfg) (l : String) (c : Ref) :
    evalP (F := F) d cfg (.constNum l) c = .ok (.num (Spec.strToNum l)) := by simp only [evalP]

/-! ## comparisons with a literal -/

theorem predOK_eqStr (d : Doc) (cfg : ECfg) (pl : Plan) (p : Ast) (s : String) (c : Spec.Ctx)
    (h : PathOK (F := F) d cfg pl p c) :
    PredOK (F := F) d cfg (.logical "=" pl (.constStr s)) (.oper "=" p (.str s)) c := by
  obtain ⟨out, ns, g, _, hE, hS, hm, hv, _⟩ := h
  refine ⟨.bool ((nodesVal d cfg out).any (fun x => s == stringValue d x)),
    .bool (ns.any (fun x => stringValue d x == s)), none, ?_, ?_, trivial, trivial, ?_⟩
  · exact evalP_logical d cfg "=" .eq rfl _ _ _ _ _ _ hE (evalP_constStr d cfg s _)
      (cmpM_nodes_str_eq d _ s)
  · rw [eval_cmp d "=" .eq rfl p (.str s) c _ _ hS (eval_str d s c)]
    simp only [Spec.Res.value, compare_nodes_str_eq]
  · simp only [truthM, Spec.toBool]
    rw [any_congr_mem _ _ _ (mem_nodesVal d cfg out ns hm hv)]
    congr 1; funext x
    exact beq_str_comm _ _

theorem predOK_neStr (d : Doc) (cfg : ECfg) (pl : Plan) (p : Ast) (s : String) (c : Spec.Ctx)
    (h : PathOK (F := F) d cfg pl p c) :
    PredOK (F := F) d cfg (.logical "!=" pl (.constStr s)) (.oper "!=" p (.str s)) c := by
  obtain ⟨out, ns, g, _, hE, hS, hm, hv, _⟩ := h
  refine ⟨.bool ((nodesVal d cfg out).any (fun x => s != stringValue d x)),
    .bool (ns.any (fun x => stringValue d x != s)), none, ?_, ?_, trivial, trivial, ?_⟩
  · exact evalP_logical d cfg "!=" .ne rfl _ _ _ _ _ _ hE (evalP_constStr d cfg s _)
      (cmpM_nodes_str_ne d _ s)
  · rw [eval_cmp d "!=" .ne rfl p (.str s) c _ _ hS (eval_str d s c)]
    simp only [Spec.Res.value, compare_nodes_str_ne]
  · simp only [truthM, Spec.toBool]
    rw [any_congr_mem _ _ _ (mem_nodesVal d cfg out ns hm hv)]
    congr 1; funext x
    exact bne_str_comm _ _

/-- path `op` number -/
theorem predOK_cmpNumR (d : Doc) (cfg : ECfg) (op : String) (hop : op ∈ cmpOps) (pl : Plan) (p : Ast)
    (lex : String) (c : Spec.Ctx) (h : PathOK (F := F) d cfg pl p c) :
    PredOK (F := F) d cfg (.logical op pl (.constNum lex)) (.oper op p (.num lex)) c := by
  obtain ⟨out, ns, g, _, hE, hS, hm, hv, _⟩ := h
  obtain ⟨cop, hcop⟩ := cmpOps_ofString op hop
  refine ⟨.bool (Spec.compare d cop (.nodes (nodesVal d cfg out)) (.num (Spec.strToNum (F := F) lex))),
    .bool (Spec.compare d cop (.nodes ns) (.num (Spec.strToNum (F := F) lex))), none, ?_, ?_, trivial, trivial, ?_⟩
  · exact evalP_logical d cfg op cop hcop _ _ _ _ _ _ hE (evalP_constNum d cfg lex _)
      (Theorems.C07.cell_setNum d cop _ _)
  · rw [eval_cmp d op cop hcop p (.num lex) c _ _ hS (eval_num d lex c)]
    simp only [Spec.Res.value]
  · simp only [truthM, Spec.toBool, Spec.compare]
    exact any_congr_mem _ _ _ (mem_nodesVal d cfg out ns hm hv)

/-- number `op` path -/
theorem predOK_cmpNumL (d : Doc) (cfg : ECfg) (op : String) (hop : op ∈ cmpOps) (pl : Plan) (p : Ast)
    (lex : String) (c : Spec.Ctx) (h : PathOK (F := F) d cfg pl p c) :
    PredOK (F := F) d cfg (.logical op (.constNum lex) pl) (.oper op (.num lex) p) c := by
  obtain ⟨out, ns, g, _, hE, hS, hm, hv, _⟩ := h
  obtain ⟨cop, hcop⟩ := cmpOps_ofString op hop
  refine ⟨.bool (Spec.compare d cop (.num (Spec.strToNum (F := F) lex)) (.nodes (nodesVal d cfg out))),
    .bool (Spec.compare d cop (.num (Spec.strToNum (F := F) lex)) (.nodes ns)), none, ?_, ?_, trivial, trivial, ?_⟩
  · exact evalP_logical d cfg op cop hcop _ _ _ _ _ _ (evalP_constNum d cfg lex _) hE
      (Theorems.C07.cell_numSet d cop _ _)
  · rw [eval_cmp d op cop hcop (.num lex) p c _ _ (eval_num d lex c) hS]
    simp only [Spec.Res.value]
  · simp only [truthM, Spec.toBool, Spec.compare]
    exact any_congr_mem _ _ _ (mem_nodesVal d cfg out ns hm hv)

/-! ## `not`, `and`, `or` -/

theorem predOK_not (d : Doc) (cfg : ECfg) (pl : Plan) (b : Ast) (pfx : String) (c : Spec.Ctx)
    (h : PredOK (F := F) d cfg pl b c) :
    PredOK (F := F) d cfg (.func "not" .nil (.pcons pl .pnil)) (.call "not" pfx (.acons b .anil)) c := by
  obtain ⟨v, sv, g, hE, hS, hbn, _, htr⟩ := h
  refine ⟨.bool (!truthM v), .bool (!Spec.toBool sv), none, ?_, ?_, trivial, trivial, ?_⟩
  · rw [evalP_not, hE]
    cases v with
    | bool b => simp only [callFn_not_bool, truthM]
    | nodes l => simp only [callFn_not_nodes, truthM, Bool.not_not]
    | num x => exact absurd hbn (by simp [IsBN])
    | str s => exact absurd hbn (by simp [IsBN])
    | int i => exact absurd hbn (by simp [IsBN])
    | nilv => exact absurd hbn (by simp [IsBN])
  · rw [eval_not d pfx b c _ hS]; rfl
  · show (!truthM v) = (!Spec.toBool sv)
    rw [htr]

theorem predOK_and (d : Doc) (cfg : ECfg) (pl1 pl2 : Plan) (b1 b2 : Ast) (c : Spec.Ctx)
    (h1 : PredOK (F := F) d cfg pl1 b1 c) (h2 : PredOK (F := F) d cfg pl2 b2 c) :
    PredOK (F := F) d cfg (.boolean false pl1 pl2) (.oper "and" b1 b2) c := by
  obtain ⟨v1, sv1, g1, hE1, hS1, hbn1, _, htr1⟩ := h1
  obtain ⟨v2, sv2, g2, hE2, hS2, hbn2, _, htr2⟩ := h2
  refine ⟨.bool (truthM v1 && truthM v2), .bool (Spec.toBool sv1 && Spec.toBool sv2), none,
    ?_, ?_, trivial, trivial, ?_⟩
  · rw [evalP_boolean d cfg false _ _ _ _ _ _ _ hE1 hE2 (asBoolM_BN v1 hbn1) (asBoolM_BN v2 hbn2)]
    rfl
  · rw [eval_and d b1 b2 c _ _ hS1 hS2]; rfl
  · show (truthM v1 && truthM v2) = (Spec.toBool sv1 && Spec.toBool sv2)
    rw [htr1, htr2]

theorem predOK_or (d : Doc) (cfg : ECfg) (pl1 pl2 : Plan) (b1 b2 : Ast) (c : Spec.Ctx)
    (h1 : PredOK (F := F) d cfg pl1 b1 c) (h2 : PredOK (F := F) d cfg pl2 b2 c) :
    PredOK (F := F) d cfg (.boolean true pl1 pl2) (.oper "or" b1 b2) c := by
  obtain ⟨v1, sv1, g1, hE1, hS1, hbn1, _, htr1⟩ := h1
  obtain ⟨v2, sv2, g2, hE2, hS2, hbn2, _, htr2⟩ := h2
  refine ⟨.bool (truthM v1 || truthM v2), .bool (Spec.toBool sv1 || Spec.toBool sv2), none,
    ?_, ?_, trivial, trivial, ?_⟩
  · rw [evalP_boolean d cfg true _ _ _ _ _ _ _ hE1 hE2 (asBoolM_BN v1 hbn1) (asBoolM_BN v2 hbn2)]
    rfl
  · rw [eval_or d b1 b2 c _ _ hS1 hS2]; rfl
  · show (truthM v1 || truthM v2) = (Spec.toBool sv1 || Spec.toBool sv2)
    rw [htr1, htr2]

end XPathV.PredSem
