import XPathV.Lemmas.PathSem
/-!
# C02 helpers — what a filter keeps when the predicate value is never a number

Model side: `sel_filter_bool` (the `.filter` arm of `sel`, `predDecision`, `filterPositions`).
Oracle side: `filterPos_bool` (`Spec.filterPos` with proximity positions).
-/
namespace XPathV.PredSem
open XPathV XPathV.Model XPathV.PathSem

variable {F : Type} [NumAlg F]

/-! ## generic list facts -/

theorem mapM_ok {α β ε : Type} (f : α → Except ε β) (g : α → β) (l : List α)
    (h : ∀ x ∈ l, f x = .ok (g x)) : l.mapM f = .ok (l.map g) := by
  induction l with
  | nil => rfl
  | cons a t ih =>
    rw [List.mapM_cons, h a List.mem_cons_self, ih (fun x hx => h x (List.mem_cons_of_mem _ hx))]
    rfl

theorem zip_map_filterMap {α : Type} (l : List α) (g : α → Bool) :
    (l.zip (l.map g)).filterMap (fun (p : α × Bool) => if p.2 then some p.1 else none) = l.filter g := by
  induction l with
  | nil => rfl
  | cons a t ih =>
    simp only [List.map_cons, List.zip_cons_cons, List.filterMap_cons, List.filter_cons, ih]
    cases g a <;> simp

theorem any_congr_mem {α : Type} (l1 l2 : List α) (f : α → Bool) (h : ∀ x, x ∈ l1 ↔ x ∈ l2) :
    l1.any f = l2.any f := by
  rw [Bool.eq_iff_iff, List.any_eq_true, List.any_eq_true]
  constructor
  · rintro ⟨x, hx, hf⟩; exact ⟨x, (h x).1 hx, hf⟩
  · rintro ⟨x, hx, hf⟩; exact ⟨x, (h x).2 hx, hf⟩

theorem isEmpty_congr_mem {α : Type} (l1 l2 : List α) (h : ∀ x, x ∈ l1 ↔ x ∈ l2) :
    l1.isEmpty = l2.isEmpty := by
  cases l1 with
  | nil =>
    cases l2 with
    | nil => rfl
    | cons b t => exact absurd ((h b).2 List.mem_cons_self) (by simp)
  | cons a t =>
    cases l2 with
    | nil => exact absurd ((h a).1 List.mem_cons_self) (by simp)
    | cons b t' => rfl

/-! ## model side -/

/-- the truth a filter reads off a non-numeric predicate value -/
def truthM : MVal F → Bool
  | .bool b => b
  | .str s => s != ""
  | .nodes l => !l.isEmpty
  | _ => false

/-- a boolean, a string or a node-set: the values for which the position plays no role -/
def IsBSN : MVal F → Prop
  | .bool _ | .str _ | .nodes _ => True
  | _ => False

/-- `filterPositions` renumbers, it keeps the refs and their order -/
theorem filterPositions_refs (kept : List Item) : refs (filterPositions kept) = refs kept := by
  unfold filterPositions
  have gen : ∀ (l : List Item) (acc : List Item × List (Nat × Nat)),
      refs (l.foldl (fun (acc : List Item × List (Nat × Nat)) (it : Item) =>
          let (out, counts) := acc
          let c := ((counts.lookup it.lvl).getD 0) + 1
          (out ++ [⟨it.r, c, 0⟩], (it.lvl, c) :: counts.filter (fun p => p.1 != it.lvl))) acc).1
        = refs acc.1 ++ refs l := by
    intro l
    induction l with
    | nil => intro acc; simp
    | cons a t ih =>
      intro acc
      rw [List.foldl_cons, ih]
      obtain ⟨out, counts⟩ := acc
      simp [refs]
  have := gen kept ([], [])
  simpa using this

/-- **filter semantics, model side**: when the predicate plan evaluates, on every candidate, to a
boolean, a string or a node-set (never a number), the filter keeps exactly the candidates on which
that value is true — same order; the verdict for a candidate depends on that candidate alone -/
theorem sel_filter_bool (d : Doc) (cfg : ECfg) (inp pred : Plan) (c : Ref) (ins : List Item)
    (tr : Ref → Bool)
    (h : sel (F := F) d cfg inp c = .ok ins)
    (hp : ∀ it ∈ ins, ∃ v, evalP (F := F) d cfg pred it.r = .ok v ∧ IsBSN v ∧ truthM v = tr it.r) :
    ∃ out, sel (F := F) d cfg (.filter inp pred) c = .ok out ∧ refs out = (refs ins).filter tr := by
  refine ⟨filterPositions (ins.filter (fun it => tr it.r)), ?_, ?_⟩
  · simp only [sel, h, bind, Except.bind]
    rw [mapM_ok _ (fun it => tr it.r) ins ?_]
    · simp only [zip_map_filterMap]
    · intro it hit
      obtain ⟨v, hv, hbsn, htr⟩ := hp it hit
      rw [hv]
      cases v with
      | bool b => simp only [truthM] at htr; simp [pure, Except.pure, predDecision, htr]
      | str s => simp only [truthM] at htr; simp [pure, Except.pure, predDecision, htr]
      | nodes l => simp only [truthM] at htr; simp [pure, Except.pure, predDecision, htr]
      | num x => exact absurd hbsn (by simp [IsBSN])
      | int i => exact absurd hbsn (by simp [IsBSN])
      | nilv => exact absurd hbsn (by simp [IsBSN])
  · rw [filterPositions_refs]
    simp only [refs, List.filter_map, Function.comp_def]

/-! ## oracle side -/

/-- a spec value that is not a number -/
def NotNum : Spec.Value F → Prop
  | .num _ => False
  | _ => True

theorem predTruth_notNum (v : Spec.Value F) (h : NotNum v) (pos : Nat) :
    Spec.predTruth v pos = Spec.toBool v := by
  cases v <;> simp_all [Spec.predTruth, NotNum]

/-- **filter semantics, oracle side**: proximity positions are irrelevant when the predicate value
is never a number — `filterPos` is `filter` -/
theorem filterPos_bool (l : List Ref) (cond : Spec.Ctx → Except Spec.Err (Spec.Res F)) (tr : Ref → Bool)
    (h : ∀ r ∈ l, ∀ pos size, ∃ res, cond ⟨r, pos, size⟩ = .ok res ∧ NotNum res.value ∧
      Spec.toBool res.value = tr r) :
    Spec.filterPos l cond = .ok (l.filter tr) := by
  unfold Spec.filterPos
  have hflags : l.zipIdx.mapM (fun (p : Ref × Nat) => do
      let v ← cond ⟨p.1, p.2 + 1, l.length⟩
      pure (Spec.predTruth v.value (p.2 + 1))) = .ok (l.zipIdx.map (fun p => tr p.1)) := by
    apply mapM_ok
    intro p hp
    have hmem : p.1 ∈ l := by
      have := List.mem_map_of_mem (f := Prod.fst) hp
      rwa [List.zipIdx_map_fst] at this
    obtain ⟨res, hres, hnn, htr⟩ := h p.1 hmem (p.2 + 1) l.length
    simp only [hres, bind, Except.bind, pure, Except.pure, predTruth_notNum _ hnn, htr]
  have hmap : l.zipIdx.map (fun p => tr p.1) = l.map tr := by
    rw [show (fun (p : Ref × Nat) => tr p.1) = tr ∘ Prod.fst from rfl, ← List.map_map,
      List.zipIdx_map_fst]
  simp only [bind, Except.bind, pure, Except.pure] at hflags ⊢
  rw [hflags, hmap]
  simp only [zip_map_filterMap]

end XPathV.PredSem
