import XPathV.Lemmas.PredSem.Truth
/-!
# C02 helpers — `PathOK` is preserved by a step and by a boolean-valued predicate
-/
namespace XPathV.PredSem
open XPathV XPathV.Model XPathV.PathSem

variable {F : Type} [NumAlg F]

/-- truth of predicate `b` at node `x` according to the oracle (false if the oracle fails) -/
def holds (d : Doc) (b : Ast) (x : Ref) : Bool :=
  match Spec.eval (F := F) d b ⟨x, 1, 1⟩ with
  | .ok r => Spec.toBool r.value
  | .error _ => false

/-! ## `evalP` takes the default arm on path plans -/

theorem evalP_of_sel_context (d : Doc) (cfg : ECfg) (c : Ref) :
    evalP (F := F) d cfg .context c = .ok (.nodes (nodesVal d cfg [⟨c, 1, 0⟩])) := by
  simp only [evalP, sel, bind, Except.bind, nodesVal, refs]

theorem evalP_of_sel_absolute (d : Doc) (cfg : ECfg) (c : Ref) :
    evalP (F := F) d cfg .absolute c = .ok (.nodes (nodesVal d cfg [⟨Nav.root d, 1, 0⟩])) := by
  simp only [evalP, sel, bind, Except.bind, nodesVal, refs]

theorem evalP_stepPlan (d : Doc) (cfg : ECfg) (a : AxisInfo) (ha : a.axis ∈ axes12) (inp : Plan)
    (c : Ref) (out : List Item) (h : sel (F := F) d cfg (stepPlan a inp) c = .ok out) :
    evalP (F := F) d cfg (stepPlan a inp) c = .ok (.nodes (nodesVal d cfg out)) := by
  simp only [axes12, List.mem_cons, List.not_mem_nil, or_false] at ha
  rcases ha with hax | hax | hax | hax | hax | hax | hax | hax | hax | hax | hax | hax <;>
    (simp only [stepPlan, hax] at h ⊢
     simp only [evalP, h, bind, Except.bind, nodesVal, refs])

theorem evalP_filter (d : Doc) (cfg : ECfg) (inp pred : Plan)
    (c : Ref) (out : List Item) (h : sel (F := F) d cfg (.filter inp pred) c = .ok out) :
    evalP (F := F) d cfg (.filter inp pred) c = .ok (.nodes (nodesVal d cfg out)) := by
  simp only [evalP, h, bind, Except.bind, nodesVal, refs]

/-! ## base cases -/

theorem pathOK_none (d : Doc) (cfg : ECfg) (c : Spec.Ctx) (hc : validRef d c.node = true) :
    PathOK (F := F) d cfg .context .none c := by
  refine ⟨[⟨c.node, 1, 0⟩], [c.node], none, sel_context d cfg c.node, evalP_of_sel_context d cfg c.node,
    by simp only [Spec.eval], by simp [refs], ?_, by intro gs h; cases h⟩
  intro x hx; simp only [List.mem_cons, List.not_mem_nil, or_false] at hx; rw [hx]; exact hc

theorem pathOK_root {d : Doc} (wf : WF d) (cfg : ECfg) (s : String) (c : Spec.Ctx) :
    PathOK (F := F) d cfg .absolute (.root s) c := by
  refine ⟨[⟨.node 0, 1, 0⟩], [.node 0], none, by simp [sel, Nav.root],
    evalP_of_sel_absolute d cfg c.node, by simp only [Spec.eval], by simp [refs], ?_,
    by intro gs h; cases h⟩
  intro x hx; simp only [List.mem_cons, List.not_mem_nil, or_false] at hx; rw [hx]
  exact (validRef_node d 0).2 wf.pos

/-! ## one more step -/

/-- the oracle's value of a step over an evaluated input, with its per-origin groups -/
theorem eval_axis_groups (d : Doc) (a : AxisInfo) (ha : a.axis ∈ axes12) (inp : Ast) (c : Spec.Ctx)
    (origins : List Ref) (g : Option (List (List Ref)))
    (h : Spec.eval (F := F) d inp c = .ok (.val (.nodes origins) g)) :
    Spec.eval (F := F) d (.axis a inp) c =
      .ok (.val (.nodes (Spec.docOrder d (origins.map (fun o =>
        ((Spec.axisProx d a.axis o).getD []).filter (Spec.nodeTest d a))).flatten))
        (some (origins.map (fun o =>
        ((Spec.axisProx d a.axis o).getD []).filter (Spec.nodeTest d a))))) := by
  obtain ⟨l, hl⟩ := axisProx_some d a.axis ha (.node 0)
  simp only [Spec.eval, h, bind, Except.bind, Spec.Res.value, Spec.asNodes, hl]

theorem pathOK_axis {d : Doc} (wf : WF d) (cfg : ECfg) (hns : cfg.nsIface = true)
    (hinj : HashInj d cfg) (a : AxisInfo) (ha : a.axis ∈ axes12) (pl : Plan) (inp : Ast)
    (c : Spec.Ctx) (h : PathOK (F := F) d cfg pl inp c) :
    PathOK (F := F) d cfg (stepPlan a pl) (.axis a inp) c := by
  obtain ⟨ins, origins, g, hsel, _, hev, hmem, hval, _⟩ := h
  have hinsv : ∀ o ∈ refs ins, validRef d o = true := fun o ho => hval o ((hmem o).1 ho)
  obtain ⟨out, hout, hom⟩ := stepPlan_sem (F := F) d cfg hinj a ha pl c.node ins hinsv hsel
  have hev' := eval_axis_groups (F := F) d a ha inp c origins g hev
  -- every node in a group is valid
  have hgv : ∀ x, x ∈ (origins.map (fun o =>
      ((Spec.axisProx d a.axis o).getD []).filter (Spec.nodeTest d a))).flatten → validRef d x = true := by
    intro x hx
    rw [List.mem_flatten] at hx
    obtain ⟨l, hl, hx⟩ := hx
    obtain ⟨o, ho, rfl⟩ := List.mem_map.1 hl
    have := (List.mem_filter.1 hx).1
    rw [mem_axisProx] at this
    exact axisNodes_valid wf o (hval o ho) a.axis ha x this
  refine ⟨out, _, _, hout, evalP_stepPlan d cfg a ha pl c.node out hout, hev', fun x => ?_,
    fun x hx => ((mem_docOrder d _ x).1 hx).2, ?_⟩
  · rw [hom, mem_docOrder, List.mem_flatten]
    constructor
    · rintro ⟨o, ho, hx⟩
      have hov := hinsv o ho
      have hx' := (step_mem_iff wf cfg hns a ha o hov x).1 hx
      have hin : x ∈ (origins.map (fun o =>
          ((Spec.axisProx d a.axis o).getD []).filter (Spec.nodeTest d a))).flatten :=
        List.mem_flatten.2 ⟨_, List.mem_map.2 ⟨o, (hmem o).1 ho, rfl⟩, hx'⟩
      exact ⟨List.mem_flatten.1 hin, hgv x hin⟩
    · rintro ⟨⟨l, hl, hx⟩, _⟩
      obtain ⟨o, ho, rfl⟩ := List.mem_map.1 hl
      exact ⟨o, (hmem o).2 ho, (step_mem_iff wf cfg hns a ha o (hval o ho) x).2 hx⟩
  · intro gs hgs x
    cases hgs
    rw [mem_docOrder]
    exact ⟨fun hx => ⟨hx, hgv x hx⟩, fun hx => hx.1⟩

/-! ## one more predicate -/

theorem mem_flatten_map_filter (gs : List (List Ref)) (tr : Ref → Bool) (x : Ref) :
    x ∈ (gs.map (List.filter tr)).flatten ↔ x ∈ gs.flatten ∧ tr x = true := by
  simp only [List.mem_flatten, List.mem_map]
  constructor
  · rintro ⟨l, ⟨g, hg, rfl⟩, hx⟩
    have := List.mem_filter.1 hx
    exact ⟨⟨g, hg, this.1⟩, this.2⟩
  · rintro ⟨⟨g, hg, hx⟩, ht⟩
    exact ⟨_, ⟨g, hg, rfl⟩, List.mem_filter.2 ⟨hx, ht⟩⟩

/-- `PredOK` at every position/size fixes the oracle's truth: it is `holds` -/
theorem predOK_holds (d : Doc) (cfg : ECfg) (plb : Plan) (b : Ast) (x : Ref)
    (h : ∀ pos size, PredOK (F := F) d cfg plb b ⟨x, pos, size⟩) (pos size : Nat) :
    ∃ v res, evalP (F := F) d cfg plb x = .ok v ∧ Spec.eval (F := F) d b ⟨x, pos, size⟩ = .ok res ∧
      IsBN v ∧ NotNum res.value ∧ truthM v = holds (F := F) d b x ∧
      Spec.toBool res.value = holds (F := F) d b x := by
  obtain ⟨v, sv, g, hE, hS, hbn, hnn, htr⟩ := h pos size
  obtain ⟨v1, sv1, g1, hE1, hS1, _, _, htr1⟩ := h 1 1
  have hv : v1 = v := by
    have := hE1.symm.trans hE
    cases this; rfl
  subst hv
  have hh : holds (F := F) d b x = Spec.toBool sv1 := by
    simp only [holds, hS1, Spec.Res.value]
  refine ⟨v1, _, hE, hS, hbn, hnn, ?_, ?_⟩
  · rw [hh, htr1]
  · rw [hh, ← htr1]; exact htr.symm

/-- **one boolean-valued predicate on top of an agreeing path**: both sides keep exactly the nodes
on which the predicate holds; the model keeps them in the order of its input -/
theorem filter_sem (d : Doc) (cfg : ECfg) (pl plb : Plan) (inp b : Ast) (c : Spec.Ctx)
    (out0 : List Item) (ns0 : List Ref) (g0 : Option (List (List Ref)))
    (hsel : sel (F := F) d cfg pl c.node = .ok out0)
    (hev : Spec.eval (F := F) d inp c = .ok (.val (.nodes ns0) g0))
    (hm0 : ∀ x, x ∈ refs out0 ↔ x ∈ ns0) (hv0 : ∀ x ∈ ns0, validRef d x = true)
    (hg0 : ∀ gs, g0 = some gs → ∀ x, x ∈ gs.flatten ↔ x ∈ ns0)
    (hpred : ∀ x, validRef d x = true → ∀ pos size, PredOK (F := F) d cfg plb b ⟨x, pos, size⟩) :
    ∃ out ns g, sel (F := F) d cfg (.filter pl plb) c.node = .ok out ∧
      Spec.eval (F := F) d (.filter inp b) c = .ok (.val (.nodes ns) g) ∧
      refs out = (refs out0).filter (holds (F := F) d b) ∧
      (∀ x, x ∈ ns ↔ x ∈ ns0 ∧ holds (F := F) d b x = true) ∧
      (∀ gs, g = some gs → ∀ x, x ∈ gs.flatten ↔ x ∈ ns) := by
  -- model side
  obtain ⟨out, hout, hrefs⟩ := sel_filter_bool (F := F) d cfg pl plb c.node out0 (holds (F := F) d b) hsel
    (by
      intro it hit
      have hv : validRef d it.r = true := hv0 _ ((hm0 _).1 (List.mem_map.2 ⟨it, hit, rfl⟩))
      obtain ⟨v, res, hE, _, hbn, _, htr, _⟩ := predOK_holds d cfg plb b it.r (hpred it.r hv) 1 1
      exact ⟨v, hE, hbn.isBSN, htr⟩)
  -- oracle side: one group
  have hfp : ∀ l : List Ref, (∀ x ∈ l, validRef d x = true) →
      Spec.filterPos l (Spec.eval (F := F) d b) = .ok (l.filter (holds (F := F) d b)) := by
    intro l hl
    apply filterPos_bool
    intro r hr pos size
    obtain ⟨v, res, _, hS, _, hnn, _, htb⟩ := predOK_holds d cfg plb b r (hpred r (hl r hr)) pos size
    exact ⟨res, hS, hnn, htb⟩
  cases g0 with
  | none =>
    refine ⟨out, ns0.filter (holds (F := F) d b), none, hout, ?_, hrefs, ?_, by intro gs h; cases h⟩
    · simp only [Spec.eval, hev, bind, Except.bind, Spec.asNodes, hfp ns0 hv0]
    · intro x; exact List.mem_filter
  | some gs =>
    have hgv : ∀ g ∈ gs, ∀ x ∈ g, validRef d x = true := fun g hg x hx =>
      hv0 x ((hg0 gs rfl x).1 (List.mem_flatten.2 ⟨g, hg, hx⟩))
    have hmap : gs.mapM (fun g => Spec.filterPos g (Spec.eval (F := F) d b)) =
        .ok (gs.map (List.filter (holds (F := F) d b))) :=
      mapM_ok _ _ gs (fun g hg => hfp g (hgv g hg))
    refine ⟨out, Spec.docOrder d (gs.map (List.filter (holds (F := F) d b))).flatten,
      some (gs.map (List.filter (holds (F := F) d b))), hout, ?_, hrefs, ?_, ?_⟩
    · simp only [Spec.eval, hev, bind, Except.bind, hmap]
    · intro x
      rw [mem_docOrder, mem_flatten_map_filter, hg0 gs rfl x]
      exact ⟨fun h => h.1, fun h => ⟨h, hv0 x h.1⟩⟩
    · intro gs' hgs' x
      cases hgs'
      rw [mem_docOrder, mem_flatten_map_filter, hg0 gs rfl x]
      exact ⟨fun h => ⟨h, hv0 x h.1⟩, fun h => h.1⟩

theorem pathOK_filter (d : Doc) (cfg : ECfg) (pl plb : Plan) (inp b : Ast) (c : Spec.Ctx)
    (h : PathOK (F := F) d cfg pl inp c)
    (hpred : ∀ x, validRef d x = true → ∀ pos size, PredOK (F := F) d cfg plb b ⟨x, pos, size⟩) :
    PathOK (F := F) d cfg (.filter pl plb) (.filter inp b) c := by
  obtain ⟨out0, ns0, g0, hsel, _, hev, hm0, hv0, hg0⟩ := h
  obtain ⟨out, ns, g, hout, hev', hrefs, hns, hg⟩ :=
    filter_sem (F := F) d cfg pl plb inp b c out0 ns0 g0 hsel hev hm0 hv0 hg0 hpred
  refine ⟨out, ns, g, hout, evalP_filter d cfg pl plb c.node out hout, hev', fun x => ?_,
    fun x hx => hv0 x ((hns x).1 hx).1, hg⟩
  rw [hrefs, List.mem_filter, hm0, hns]

end XPathV.PredSem
