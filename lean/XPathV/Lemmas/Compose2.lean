import XPathV.Lemmas.Compose
import XPathV.Lemmas.PredSem
import XPathV.Lemmas.FlatFiltered
/-!
# C13 for paths with boolean predicates (`PredSem.Frag true`)

* §1 `appendPath2 q p` (plug `q` into the `.none` leaf of the step chain of `p`, descending through
  `.filter inp b` on the *input* side only — predicates are not rewritten), `RelFrag` / `AbsFrag`
* §2 oracle side, without any model hypothesis: `eval_frag_ctx` (the value of an expression of the
  fragment depends on the context *node* only), `frag_oracle` (totality, shapes), `mem_nodesOf_filter`
  (a predicate keeps the nodes on which it `holds`), `eval_append2`
* §3 model side through C02: `rel_compose_build2`, `abs_build_indep2`; `Rooted2` (rooted plans with
  `.filter` and `.merge`), `abs_start_indep2`, `build_rooted2`, `abs_build_start_indep2`
-/
namespace XPathV.Compose2
open XPathV XPathV.Model XPathV.PathSem XPathV.PredSem XPathV.Compose

variable {F : Type} [NumAlg F]

/-! ## §1 Path composition on parse trees with predicates -/

/-- `appendPath2 q p`: the path `q/p` — the `.none` leaf of the step chain `p` is replaced by `q`;
the chain is followed through steps and through the *input* of a filter; predicates are left alone
(a relative path inside a predicate is relative to the candidate node, not to the leaf) -/
def appendPath2 (q : Ast) : Ast → Ast
  | .none => q
  | .axis a inp => .axis a (appendPath2 q inp)
  | .filter inp b => .filter (appendPath2 q inp) b
  | p => p

/-- *relative* paths of the fragment: the leaf of the step chain is `.none` -/
inductive RelFrag : Ast → Prop
  | none : RelFrag .none
  | axis (a : AxisInfo) (inp : Ast) : RelFrag inp → a.axis ∈ axes12 → RelFrag (.axis a inp)
  | filter (inp b : Ast) : RelFrag inp → Frag false b → RelFrag (.filter inp b)

/-- *absolute* paths of the fragment: the leaf of the step chain is `.root _` -/
inductive AbsFrag : Ast → Prop
  | root (s : String) : AbsFrag (.root s)
  | axis (a : AxisInfo) (inp : Ast) : AbsFrag inp → a.axis ∈ axes12 → AbsFrag (.axis a inp)
  | filter (inp b : Ast) : AbsFrag inp → Frag false b → AbsFrag (.filter inp b)

theorem RelFrag.frag {p : Ast} (h : RelFrag p) : Frag true p := by
  induction h with
  | none => exact .none
  | axis a inp _ ha ih => exact .axis a inp ih ha
  | filter inp b _ hb ih => exact .filter inp b ih hb

theorem AbsFrag.frag {p : Ast} (h : AbsFrag p) : Frag true p := by
  induction h with
  | root s => exact .root s
  | axis a inp _ ha ih => exact .axis a inp ih ha
  | filter inp b _ hb ih => exact .filter inp b ih hb

/-- a path of the fragment is relative or absolute -/
theorem frag_rel_or_abs : ∀ {k : Bool} {p : Ast}, Frag k p → k = true → RelFrag p ∨ AbsFrag p := by
  intro k p h
  induction h with
  | none => exact fun _ => .inl .none
  | root s => exact fun _ => .inr (.root s)
  | axis a inp _ ha ih =>
    intro _
    rcases ih rfl with ih | ih
    · exact .inl (.axis a inp ih ha)
    · exact .inr (.axis a inp ih ha)
  | filter inp b _ hb ih _ =>
    intro _
    rcases ih rfl with ih | ih
    · exact .inl (.filter inp b ih hb)
    · exact .inr (.filter inp b ih hb)
  | exist | eqStr | neStr | cmpNumR | cmpNumL | not | and | or => exact fun h => nomatch h

theorem RelPF.relFrag {p : Ast} (h : RelPF p) : RelFrag p := by
  induction h with
  | none => exact .none
  | axis a inp _ ha ih => exact .axis a inp ih ha

theorem AbsPF.absFrag {p : Ast} (h : AbsPF p) : AbsFrag p := by
  induction h with
  | root s => exact .root s
  | axis a inp _ ha ih => exact .axis a inp ih ha

/-- on predicate-free relative paths `appendPath2` is `Compose.appendPath` -/
theorem appendPath2_relPF (q : Ast) {p : Ast} (h : RelPF p) : appendPath2 q p = appendPath q p := by
  induction h with
  | none => rfl
  | axis a inp _ _ ih => simp only [appendPath2, appendPath, ih]

theorem appendPath2_frag {q p : Ast} (hq : Frag true q) (hp : RelFrag p) :
    Frag true (appendPath2 q p) := by
  induction hp with
  | none => exact hq
  | axis a inp _ ha ih => exact .axis a _ ih ha
  | filter inp b _ hb ih => exact .filter _ b ih hb

theorem appendPath2_relFrag {q p : Ast} (hq : RelFrag q) (hp : RelFrag p) :
    RelFrag (appendPath2 q p) := by
  induction hp with
  | none => exact hq
  | axis a inp _ ha ih => exact .axis a _ ih ha
  | filter inp b _ hb ih => exact .filter _ b ih hb

theorem appendPath2_absFrag {q p : Ast} (hq : AbsFrag q) (hp : RelFrag p) :
    AbsFrag (appendPath2 q p) := by
  induction hp with
  | none => exact hq
  | axis a inp _ ha ih => exact .axis a _ ih ha
  | filter inp b _ hb ih => exact .filter _ b ih hb

/-- an absolute path ignores what it is appended to -/
theorem appendPath2_abs (q : Ast) {p : Ast} (hp : AbsFrag p) : appendPath2 q p = p := by
  induction hp with
  | root s => rfl
  | axis a inp _ _ ih => simp only [appendPath2, ih]
  | filter inp b _ _ ih => simp only [appendPath2, ih]

/-- `.` is a left unit -/
theorem appendPath2_none_left {p : Ast} (hp : RelFrag p) : appendPath2 .none p = p := by
  induction hp with
  | none => rfl
  | axis a inp _ _ ih => simp only [appendPath2, ih]
  | filter inp b _ _ ih => simp only [appendPath2, ih]

/-- `.` is a right unit -/
theorem appendPath2_none_right (q : Ast) : appendPath2 q .none = q := rfl

/-- `(q/p)/r = q/(p/r)` -/
theorem appendPath2_assoc (q p r : Ast) :
    appendPath2 q (appendPath2 p r) = appendPath2 (appendPath2 q p) r := by
  induction r with
  | none => rfl
  | axis a inp ih => simp only [appendPath2, ih]
  | filter inp b ih _ => simp only [appendPath2, ih]
  | _ => rfl

/-! ## §2 Oracle side (no model, no well-formedness hypothesis) -/

/-- **the value of an expression of the fragment depends on the context node only** — not on the
context position or size -/
theorem eval_frag_ctx (d : Doc) {k : Bool} {e : Ast} (he : Frag k e) (n : Ref) (i j i' j' : Nat) :
    Spec.eval (F := F) d e ⟨n, i, j⟩ = Spec.eval (F := F) d e ⟨n, i', j'⟩ := by
  induction he with
  | none => simp only [Spec.eval]
  | root s => simp only [Spec.eval]
  | axis a inp _ _ ih => simp only [Spec.eval, ih]
  | filter inp b _ _ ih _ => simp only [Spec.eval, ih]
  | exist p _ ih => exact ih
  | eqStr p s _ ih => simp only [Spec.eval, ih]
  | neStr p s _ ih => simp only [Spec.eval, ih]
  | cmpNumR op p lex _ _ ih => simp only [Spec.eval, ih]
  | cmpNumL op lex p _ _ ih => simp only [Spec.eval, ih]
  | not pfx b _ ih =>
    simp only [Spec.eval, ih]
    cases Spec.eval (F := F) d b ⟨n, i', j'⟩ with
    | error e => rfl
    | ok r => rfl
  | and b1 b2 _ _ ih1 ih2 => simp only [Spec.eval, ih1, ih2]
  | or b1 b2 _ _ ih1 ih2 => simp only [Spec.eval, ih1, ih2]

/-- `holds` is the truth at any context position/size -/
theorem holds_eq (d : Doc) {b : Ast} (hb : Frag false b) (x : Ref) (pos size : Nat) (res : Spec.Res F)
    (h : Spec.eval (F := F) d b ⟨x, pos, size⟩ = .ok res) :
    Spec.toBool res.value = holds (F := F) d b x := by
  rw [eval_frag_ctx d hb x pos size 1 1] at h
  simp only [holds, h]

/-- oracle-side well-behavedness of a path at a context: it evaluates to a node-set, and when the
result carries per-origin groups, the node-set is the set of valid nodes of the groups -/
def OPath (d : Doc) (p : Ast) (c : Spec.Ctx) : Prop :=
  ∃ ns g, Spec.eval (F := F) d p c = .ok (.val (.nodes ns) g) ∧
    ∀ gs, g = some gs → ∀ x, x ∈ ns ↔ (x ∈ gs.flatten ∧ validRef d x = true)

/-- oracle-side well-behavedness of a predicate at a context: a value that is not a number -/
def OPred (d : Doc) (b : Ast) (c : Spec.Ctx) : Prop :=
  ∃ sv g, Spec.eval (F := F) d b c = .ok (.val sv g) ∧ NotNum sv

/-- the oracle's filter over an evaluated input, for a predicate that is well-behaved everywhere -/
theorem oracle_filter (d : Doc) (inp b : Ast) (hb : Frag false b) (c : Spec.Ctx)
    (ns0 : List Ref) (g0 : Option (List (List Ref)))
    (hev : Spec.eval (F := F) d inp c = .ok (.val (.nodes ns0) g0))
    (hg0 : ∀ gs, g0 = some gs → ∀ x, x ∈ ns0 ↔ (x ∈ gs.flatten ∧ validRef d x = true))
    (hpred : ∀ c', OPred (F := F) d b c') :
    ∃ ns g, Spec.eval (F := F) d (.filter inp b) c = .ok (.val (.nodes ns) g) ∧
      (∀ x, x ∈ ns ↔ x ∈ ns0 ∧ holds (F := F) d b x = true) ∧
      (∀ gs, g = some gs → ∀ x, x ∈ ns ↔ (x ∈ gs.flatten ∧ validRef d x = true)) := by
  have hfp : ∀ l : List Ref,
      Spec.filterPos l (Spec.eval (F := F) d b) = .ok (l.filter (holds (F := F) d b)) := by
    intro l
    apply filterPos_bool
    intro r _ pos size
    obtain ⟨sv, g, hS, hnn⟩ := hpred ⟨r, pos, size⟩
    exact ⟨_, hS, hnn, holds_eq d hb r pos size _ hS⟩
  cases g0 with
  | none =>
    refine ⟨ns0.filter (holds (F := F) d b), none, ?_, fun x => List.mem_filter,
      by intro gs h; cases h⟩
    simp only [Spec.eval, hev, bind, Except.bind, Spec.asNodes, hfp ns0]
  | some gs =>
    have hmap : gs.mapM (fun g => Spec.filterPos g (Spec.eval (F := F) d b)) =
        .ok (gs.map (List.filter (holds (F := F) d b))) :=
      PredSem.mapM_ok _ _ gs (fun g _ => hfp g)
    refine ⟨Spec.docOrder d (gs.map (List.filter (holds (F := F) d b))).flatten,
      some (gs.map (List.filter (holds (F := F) d b))), ?_, ?_, ?_⟩
    · simp only [Spec.eval, hev, bind, Except.bind, hmap]
    · intro x
      rw [mem_docOrder, mem_flatten_map_filter, hg0 gs rfl x]
      exact ⟨fun h => ⟨⟨h.1.1, h.2⟩, h.1.2⟩, fun h => ⟨⟨h.1.1, h.2⟩, h.1.2⟩⟩
    · intro gs' hgs' x
      cases hgs'
      rw [mem_docOrder]

/-- **the oracle is total on the fragment**: paths evaluate to node-sets, predicates to values that
are not numbers — in every context, on every document -/
theorem frag_oracle (d : Doc) (k : Bool) (e : Ast) (he : Frag k e) :
    ∀ c : Spec.Ctx, (k = true → OPath (F := F) d e c) ∧ (k = false → OPred (F := F) d e c) := by
  induction he with
  | none =>
    exact fun c => ⟨fun _ => ⟨[c.node], none, by simp only [Spec.eval], by intro gs h; cases h⟩,
      fun h => nomatch h⟩
  | root s =>
    exact fun c => ⟨fun _ => ⟨[.node 0], none, by simp only [Spec.eval], by intro gs h; cases h⟩,
      fun h => nomatch h⟩
  | axis a inp _ ha ih =>
    refine fun c => ⟨fun _ => ?_, fun h => nomatch h⟩
    obtain ⟨ns, g, hev, _⟩ := (ih c).1 rfl
    refine ⟨_, _, eval_axis_groups (F := F) d a ha inp c ns g hev, ?_⟩
    intro gs hgs x
    cases hgs
    rw [mem_docOrder]
  | filter inp b _ hb ihp ihb =>
    refine fun c => ⟨fun _ => ?_, fun h => nomatch h⟩
    obtain ⟨ns0, g0, hev, hg0⟩ := (ihp c).1 rfl
    obtain ⟨ns, g, h1, _, h3⟩ :=
      oracle_filter (F := F) d inp b hb c ns0 g0 hev hg0 (fun c' => (ihb c').2 rfl)
    exact ⟨ns, g, h1, h3⟩
  | exist p _ ih =>
    refine fun c => ⟨(fun h => nomatch h), fun _ => ?_⟩
    obtain ⟨ns, g, hev, _⟩ := (ih c).1 rfl
    exact ⟨_, g, hev, trivial⟩
  | eqStr p s _ ih =>
    refine fun c => ⟨(fun h => nomatch h), fun _ => ?_⟩
    obtain ⟨ns, g, hev, _⟩ := (ih c).1 rfl
    exact ⟨_, _, eval_cmp (F := F) d "=" .eq rfl p (.str s) c _ _ hev (eval_str d s c), trivial⟩
  | neStr p s _ ih =>
    refine fun c => ⟨(fun h => nomatch h), fun _ => ?_⟩
    obtain ⟨ns, g, hev, _⟩ := (ih c).1 rfl
    exact ⟨_, _, eval_cmp (F := F) d "!=" .ne rfl p (.str s) c _ _ hev (eval_str d s c), trivial⟩
  | cmpNumR op p lex hop _ ih =>
    refine fun c => ⟨(fun h => nomatch h), fun _ => ?_⟩
    obtain ⟨ns, g, hev, _⟩ := (ih c).1 rfl
    obtain ⟨cop, hcop⟩ := cmpOps_ofString op hop
    exact ⟨_, _, eval_cmp (F := F) d op cop hcop p (.num lex) c _ _ hev (eval_num d lex c), trivial⟩
  | cmpNumL op lex p hop _ ih =>
    refine fun c => ⟨(fun h => nomatch h), fun _ => ?_⟩
    obtain ⟨ns, g, hev, _⟩ := (ih c).1 rfl
    obtain ⟨cop, hcop⟩ := cmpOps_ofString op hop
    exact ⟨_, _, eval_cmp (F := F) d op cop hcop (.num lex) p c _ _ (eval_num d lex c) hev, trivial⟩
  | not pfx b _ ih =>
    refine fun c => ⟨(fun h => nomatch h), fun _ => ?_⟩
    obtain ⟨sv, g, hev, _⟩ := (ih c).2 rfl
    exact ⟨_, _, eval_not (F := F) d pfx b c _ hev, trivial⟩
  | and b1 b2 _ _ ih1 ih2 =>
    refine fun c => ⟨(fun h => nomatch h), fun _ => ?_⟩
    obtain ⟨sv1, g1, hev1, _⟩ := (ih1 c).2 rfl
    obtain ⟨sv2, g2, hev2, _⟩ := (ih2 c).2 rfl
    exact ⟨_, _, eval_and (F := F) d b1 b2 c _ _ hev1 hev2, trivial⟩
  | or b1 b2 _ _ ih1 ih2 =>
    refine fun c => ⟨(fun h => nomatch h), fun _ => ?_⟩
    obtain ⟨sv1, g1, hev1, _⟩ := (ih1 c).2 rfl
    obtain ⟨sv2, g2, hev2, _⟩ := (ih2 c).2 rfl
    exact ⟨_, _, eval_or (F := F) d b1 b2 c _ _ hev1 hev2, trivial⟩

/-- the oracle is total on the paths of the fragment and yields a node-set -/
theorem eval_frag_ok (d : Doc) {p : Ast} (hp : Frag true p) (c : Spec.Ctx) :
    ∃ ns g, Spec.eval (F := F) d p c = .ok (.val (.nodes ns) g) := by
  obtain ⟨ns, g, h, _⟩ := (frag_oracle (F := F) d true p hp c).1 rfl
  exact ⟨ns, g, h⟩

theorem eval_frag_eq_nodesOf (d : Doc) {p : Ast} (hp : Frag true p) (c : Spec.Ctx) :
    ∃ g, Spec.eval (F := F) d p c = .ok (.val (.nodes (nodesOf (Spec.eval (F := F) d p c))) g) := by
  obtain ⟨ns, g, h⟩ := eval_frag_ok (F := F) d hp c
  exact ⟨g, by rw [h]; rfl⟩

/-- the oracle is total on the predicates of the fragment; the value is never a number -/
theorem eval_pred_ok (d : Doc) {b : Ast} (hb : Frag false b) (c : Spec.Ctx) :
    ∃ sv g, Spec.eval (F := F) d b c = .ok (.val sv g) ∧ NotNum sv :=
  (frag_oracle (F := F) d false b hb c).2 rfl

/-- membership in the node list of a step over a path of the fragment -/
theorem mem_nodesOf_axis2 (d : Doc) (a : AxisInfo) (ha : a.axis ∈ axes12) {inp : Ast}
    (hinp : Frag true inp) (c : Spec.Ctx) (x : Ref) :
    x ∈ nodesOf (Spec.eval (F := F) d (.axis a inp) c) ↔
      validRef d x = true ∧ ∃ o ∈ nodesOf (Spec.eval (F := F) d inp c), x ∈ stepSet d a o := by
  obtain ⟨ns, g, h⟩ := eval_frag_ok (F := F) d hinp c
  rw [eval_axis_groups (F := F) d a ha inp c ns g h, h]
  simp only [nodesOf_ok]
  rw [mem_docOrder, List.mem_flatten]
  constructor
  · rintro ⟨⟨l, hl, hx⟩, hv⟩
    obtain ⟨o, ho, rfl⟩ := List.mem_map.1 hl
    exact ⟨hv, o, ho, hx⟩
  · rintro ⟨hv, o, ho, hx⟩
    exact ⟨⟨_, List.mem_map.2 ⟨o, ho, rfl⟩, hx⟩, hv⟩

/-- **a boolean predicate keeps exactly the nodes on which it holds (oracle)** — whatever the
proximity positions: the truth of a predicate of the fragment does not depend on them -/
theorem mem_nodesOf_filter (d : Doc) {inp b : Ast} (hinp : Frag true inp) (hb : Frag false b)
    (c : Spec.Ctx) (x : Ref) :
    x ∈ nodesOf (Spec.eval (F := F) d (.filter inp b) c) ↔
      x ∈ nodesOf (Spec.eval (F := F) d inp c) ∧ holds (F := F) d b x = true := by
  obtain ⟨ns0, g0, hev, hg0⟩ := (frag_oracle (F := F) d true inp hinp c).1 rfl
  obtain ⟨ns, g, h1, h2, _⟩ :=
    oracle_filter (F := F) d inp b hb c ns0 g0 hev hg0 (fun c' => eval_pred_ok d hb c')
  rw [h1, hev]
  exact h2 x

/-- **path composition (oracle), paths with boolean predicates**: a node is selected by `q/p` from
context `c` iff it is selected by `p` from some node that `q` selects from `c` -/
theorem eval_append2 (d : Doc) {q p : Ast} (hq : Frag true q) (hp : RelFrag p) (c : Spec.Ctx) (x : Ref) :
    x ∈ nodesOf (Spec.eval (F := F) d (appendPath2 q p) c) ↔
      ∃ n ∈ nodesOf (Spec.eval (F := F) d q c), x ∈ nodesOf (Spec.eval (F := F) d p ⟨n, 1, 1⟩) := by
  induction hp generalizing x with
  | none =>
    simp only [appendPath2, Spec.eval, nodesOf_ok, List.mem_cons, List.not_mem_nil, or_false]
    constructor
    · intro h; exact ⟨x, h, rfl⟩
    · rintro ⟨n, hn, rfl⟩; exact hn
  | axis a inp hinp ha ih =>
    simp only [appendPath2]
    rw [mem_nodesOf_axis2 d a ha (appendPath2_frag hq hinp) c x]
    constructor
    · rintro ⟨hv, o, ho, hx⟩
      obtain ⟨n, hn, hon⟩ := (ih o).1 ho
      exact ⟨n, hn, (mem_nodesOf_axis2 d a ha hinp.frag _ x).2 ⟨hv, o, hon, hx⟩⟩
    · rintro ⟨n, hn, hx⟩
      obtain ⟨hv, o, ho, hxo⟩ := (mem_nodesOf_axis2 d a ha hinp.frag _ x).1 hx
      exact ⟨hv, o, (ih o).2 ⟨n, hn, ho⟩, hxo⟩
  | filter inp b hinp hb ih =>
    simp only [appendPath2]
    rw [mem_nodesOf_filter d (appendPath2_frag hq hinp) hb c x, ih x]
    constructor
    · rintro ⟨⟨n, hn, hx⟩, hh⟩
      exact ⟨n, hn, (mem_nodesOf_filter d hinp.frag hb _ x).2 ⟨hx, hh⟩⟩
    · rintro ⟨n, hn, hx⟩
      obtain ⟨hx', hh⟩ := (mem_nodesOf_filter d hinp.frag hb _ x).1 hx
      exact ⟨⟨n, hn, hx'⟩, hh⟩

/-- `eval_append2` with every evaluation spelled out (no `nodesOf`) -/
theorem eval_append2_explicit (d : Doc) {q p : Ast} (hq : Frag true q) (hp : RelFrag p) (c : Ref) :
    ∃ (Q R : List Ref) (N : Ref → List Ref) (gq gr : Option (List (List Ref)))
      (gn : Ref → Option (List (List Ref))),
      Spec.eval (F := F) d q ⟨c, 1, 1⟩ = .ok (.val (.nodes Q) gq) ∧
      Spec.eval (F := F) d (appendPath2 q p) ⟨c, 1, 1⟩ = .ok (.val (.nodes R) gr) ∧
      (∀ n, Spec.eval (F := F) d p ⟨n, 1, 1⟩ = .ok (.val (.nodes (N n)) (gn n))) ∧
      ∀ x, x ∈ R ↔ ∃ n ∈ Q, x ∈ N n := by
  obtain ⟨gq, h1⟩ := eval_frag_eq_nodesOf (F := F) d hq ⟨c, 1, 1⟩
  obtain ⟨gr, h2⟩ := eval_frag_eq_nodesOf (F := F) d (appendPath2_frag hq hp) ⟨c, 1, 1⟩
  have h3 := fun n => eval_frag_eq_nodesOf (F := F) d hp.frag ⟨n, 1, 1⟩
  exact ⟨_, _, fun n => nodesOf (Spec.eval (F := F) d p ⟨n, 1, 1⟩), gq, gr, fun n => (h3 n).choose,
    h1, h2, fun n => (h3 n).choose_spec, fun x => eval_append2 d hq hp ⟨c, 1, 1⟩ x⟩

/-- `eval_append2` as an equation of document-ordered lists -/
theorem eval_append2_docOrder (d : Doc) {q p : Ast} (hq : Frag true q) (hp : RelFrag p) (c : Spec.Ctx) :
    Spec.docOrder d (nodesOf (Spec.eval (F := F) d (appendPath2 q p) c)) =
      Spec.docOrder d ((nodesOf (Spec.eval (F := F) d q c)).flatMap
        (fun n => nodesOf (Spec.eval (F := F) d p ⟨n, 1, 1⟩))) := by
  apply docOrder_congr
  intro x
  rw [eval_append2 d hq hp c x, List.mem_flatMap]

/-- **relative paths compose with the context (oracle)**: if `q` denotes exactly the node `n`
from context `c`, then `p` evaluated at `n` and `q/p` evaluated at `c` select the same nodes -/
theorem rel_compose_spec_ctx2 (d : Doc) {q p : Ast} (hq : Frag true q) (hp : RelFrag p) (c : Spec.Ctx)
    (n : Ref) (h : ∀ y, y ∈ nodesOf (Spec.eval (F := F) d q c) ↔ y = n) (x : Ref) :
    x ∈ nodesOf (Spec.eval (F := F) d p ⟨n, 1, 1⟩) ↔
      x ∈ nodesOf (Spec.eval (F := F) d (appendPath2 q p) c) := by
  rw [eval_append2 d hq hp c x]
  constructor
  · intro hx; exact ⟨n, (h n).2 rfl, hx⟩
  · rintro ⟨m, hm, hx⟩; rw [(h m).1 hm] at hx; exact hx

/-- **`rel_compose_spec2`**: `q` denotes exactly one node `n` from the root ⇒ the relative path `p`
at `n` has the same node set as `q/p` at the root -/
theorem rel_compose_spec2 (d : Doc) {q p : Ast} (hq : Frag true q) (hp : RelFrag p) (n : Ref)
    (h : nodesOf (Spec.eval (F := F) d q ⟨.node 0, 1, 1⟩) = [n]) (x : Ref) :
    x ∈ nodesOf (Spec.eval (F := F) d p ⟨n, 1, 1⟩) ↔
      x ∈ nodesOf (Spec.eval (F := F) d (appendPath2 q p) ⟨.node 0, 1, 1⟩) :=
  rel_compose_spec_ctx2 d hq hp _ n (fun y => by rw [h]; simp) x

/-- **start-node independence (oracle)**: an absolute path of the fragment has the same value
(node-set *and* proximity groups) in every context -/
theorem abs_eval_indep2 (d : Doc) {p : Ast} (hp : AbsFrag p) (c₁ c₂ : Spec.Ctx) :
    Spec.eval (F := F) d p c₁ = Spec.eval (F := F) d p c₂ := by
  induction hp with
  | root s => simp only [Spec.eval]
  | axis a inp _ _ ih => simp only [Spec.eval, ih]
  | filter inp b _ _ ih => simp only [Spec.eval, ih]

/-! ## §3 Model side (through C02) -/

/-- C02 (naive plans) in `nodesOf` form -/
theorem naive_nodesOf2 {d : Doc} (wf : WF d) (cfg : ECfg) (hns : cfg.nsIface = true)
    (hinj : HashInj d cfg) {p : Ast} (hp : Frag true p) (c : Ref) (hc : validRef d c = true) :
    ∃ out, sel (F := F) d cfg (predPlan p) c = .ok out ∧
      (∀ x, x ∈ refs out ↔ x ∈ nodesOf (Spec.eval (F := F) d p ⟨c, 1, 1⟩)) ∧
      (∀ x ∈ refs out, validRef d x = true) := by
  obtain ⟨out, ns, g, h1, h2, h3, h4⟩ := C02_naive (F := F) wf cfg hns hinj p hp c hc
  refine ⟨out, h1, ?_, fun x hx => h4 x ((h3 x).1 hx)⟩
  rw [h2]; exact h3

/-- C02 (built plan, all rewrites, merge included) in `nodesOf` form -/
theorem build_nodesOf2 {d : Doc} (wf : WF d) (cfg : ECfg) (hns : cfg.nsIface = true)
    (hinj : HashInj d cfg) (regexOk : RegexOk) (limit : Nat) {p : Ast} (hp : Frag true p)
    (st : BState) (o : BOut) (hb : build regexOk limit true false p {} st = .ok o)
    (c : Ref) (hc : validRef d c = true) :
    ∃ out, sel (F := F) d cfg o.q c = .ok out ∧
      ∀ x, x ∈ refs out ↔ x ∈ nodesOf (Spec.eval (F := F) d p ⟨c, 1, 1⟩) := by
  obtain ⟨out, ns, g, h1, h2, h3⟩ := C02_main (F := F) wf cfg hns hinj regexOk limit p hp st o hb c hc
  refine ⟨out, h1, ?_⟩
  rw [h2]; exact h3

/-- **path composition (model, naive plans)**: from a valid context node `c` the plan of `q/p`
selects `x` iff the plan of `p`, started at some node that the plan of `q` selects from `c`,
selects `x`; none of the evaluations fails -/
theorem compose_model2 {d : Doc} (wf : WF d) (cfg : ECfg) (hns : cfg.nsIface = true)
    (hinj : HashInj d cfg) {q p : Ast} (hq : Frag true q) (hp : RelFrag p) (c : Ref)
    (hc : validRef d c = true) :
    ∃ oq oqp, sel (F := F) d cfg (predPlan q) c = .ok oq ∧
      sel (F := F) d cfg (predPlan (appendPath2 q p)) c = .ok oqp ∧
      (∀ n ∈ refs oq, ∃ on, sel (F := F) d cfg (predPlan p) n = .ok on) ∧
      ∀ x, x ∈ refs oqp ↔
        ∃ n ∈ refs oq, ∃ on, sel (F := F) d cfg (predPlan p) n = .ok on ∧ x ∈ refs on := by
  obtain ⟨oq, hoq, hmq, hvq⟩ := naive_nodesOf2 (F := F) wf cfg hns hinj hq c hc
  obtain ⟨oqp, hoqp, hmqp, _⟩ :=
    naive_nodesOf2 (F := F) wf cfg hns hinj (appendPath2_frag hq hp) c hc
  have hpn := fun n (hn : n ∈ refs oq) =>
    naive_nodesOf2 (F := F) wf cfg hns hinj hp.frag n (hvq n hn)
  refine ⟨oq, oqp, hoq, hoqp, fun n hn => ⟨_, (hpn n hn).choose_spec.1⟩, fun x => ?_⟩
  rw [hmqp, eval_append2 d hq hp ⟨c, 1, 1⟩ x]
  constructor
  · rintro ⟨n, hn, hx⟩
    have hn' := (hmq n).2 hn
    obtain ⟨on, hon, hmn, _⟩ := hpn n hn'
    exact ⟨n, hn', on, hon, (hmn x).2 hx⟩
  · rintro ⟨n, hn, on, hon, hx⟩
    obtain ⟨on', hon', hmn, _⟩ := hpn n hn
    rw [hon] at hon'; cases hon'
    exact ⟨n, (hmq n).1 hn, (hmn x).1 hx⟩

/-- **path composition (model, built plans)**: the same for the plans `build` makes — with every
rewrite, the merge rewrite of `processFilter` included — of `q`, `p` and `q/p` -/
theorem compose_build2 {d : Doc} (wf : WF d) (cfg : ECfg) (hns : cfg.nsIface = true)
    (hinj : HashInj d cfg) (regexOk : RegexOk) (limit : Nat)
    {q p : Ast} (hq : Frag true q) (hp : RelFrag p)
    (stq stp stqp : BState) (bq bp bqp : BOut)
    (hbq : build regexOk limit true false q {} stq = .ok bq)
    (hbp : build regexOk limit true false p {} stp = .ok bp)
    (hbqp : build regexOk limit true false (appendPath2 q p) {} stqp = .ok bqp)
    (c : Ref) (hc : validRef d c = true) :
    ∃ oq oqp, sel (F := F) d cfg bq.q c = .ok oq ∧ sel (F := F) d cfg bqp.q c = .ok oqp ∧
      (∀ n ∈ refs oq, ∃ on, sel (F := F) d cfg bp.q n = .ok on) ∧
      ∀ x, x ∈ refs oqp ↔
        ∃ n ∈ refs oq, ∃ on, sel (F := F) d cfg bp.q n = .ok on ∧ x ∈ refs on := by
  obtain ⟨_, _, hmq', hvq'⟩ := naive_nodesOf2 (F := F) wf cfg hns hinj hq c hc
  obtain ⟨oq, hoq, hmq⟩ := build_nodesOf2 (F := F) wf cfg hns hinj regexOk limit hq stq bq hbq c hc
  have hvq : ∀ n ∈ refs oq, validRef d n = true := fun n hn =>
    hvq' n ((hmq' n).2 ((hmq n).1 hn))
  obtain ⟨oqp, hoqp, hmqp⟩ :=
    build_nodesOf2 (F := F) wf cfg hns hinj regexOk limit (appendPath2_frag hq hp) stqp bqp hbqp c hc
  have hpn := fun n (hn : n ∈ refs oq) =>
    build_nodesOf2 (F := F) wf cfg hns hinj regexOk limit hp.frag stp bp hbp n (hvq n hn)
  refine ⟨oq, oqp, hoq, hoqp, fun n hn => ⟨_, (hpn n hn).choose_spec.1⟩, fun x => ?_⟩
  rw [hmqp, eval_append2 d hq hp ⟨c, 1, 1⟩ x]
  constructor
  · rintro ⟨n, hn, hx⟩
    have hn' := (hmq n).2 hn
    obtain ⟨on, hon, hmn⟩ := hpn n hn'
    exact ⟨n, hn', on, hon, (hmn x).2 hx⟩
  · rintro ⟨n, hn, on, hon, hx⟩
    obtain ⟨on', hon', hmn⟩ := hpn n hn
    rw [hon] at hon'; cases hon'
    exact ⟨n, (hmq n).1 hn, (hmn x).1 hx⟩

/-- **`rel_compose_model2`** (naive plans): if (by the oracle) `q` denotes exactly the node `n` from
the root, the plan of the relative path `p` started at `n` and the plan of `q/p` started at the
root select the same node set -/
theorem rel_compose_model2 {d : Doc} (wf : WF d) (cfg : ECfg) (hns : cfg.nsIface = true)
    (hinj : HashInj d cfg) {q p : Ast} (hq : Frag true q) (hp : RelFrag p) (n : Ref)
    (h : nodesOf (Spec.eval (F := F) d q ⟨.node 0, 1, 1⟩) = [n]) :
    ∃ o1 o2, sel (F := F) d cfg (predPlan p) n = .ok o1 ∧
      sel (F := F) d cfg (predPlan (appendPath2 q p)) (.node 0) = .ok o2 ∧
      ∀ x, x ∈ refs o1 ↔ x ∈ refs o2 := by
  obtain ⟨oq, _, hmq, hvq⟩ := naive_nodesOf2 (F := F) wf cfg hns hinj hq (.node 0) (valid_root wf)
  have hnv : validRef d n = true := hvq n ((hmq n).2 (by rw [h]; simp))
  obtain ⟨o1, ho1, hm1, _⟩ := naive_nodesOf2 (F := F) wf cfg hns hinj hp.frag n hnv
  obtain ⟨o2, ho2, hm2, _⟩ :=
    naive_nodesOf2 (F := F) wf cfg hns hinj (appendPath2_frag hq hp) (.node 0) (valid_root wf)
  exact ⟨o1, o2, ho1, ho2, fun x => by rw [hm1, hm2]; exact rel_compose_spec2 d hq hp n h x⟩

/-- **`rel_compose_build2`**: the same for the plans `build` produces (with every rewrite), through
`C02_main`: a relative path `p` with boolean predicates evaluated at the node `n` returns the same
node set as the absolute path `q/p` that first addresses `n` (`q` denotes exactly `n`) -/
theorem rel_compose_build2 {d : Doc} (wf : WF d) (cfg : ECfg) (hns : cfg.nsIface = true)
    (hinj : HashInj d cfg) (regexOk : RegexOk) (limit : Nat)
    {q p : Ast} (hq : Frag true q) (hp : RelFrag p) (n : Ref)
    (h : nodesOf (Spec.eval (F := F) d q ⟨.node 0, 1, 1⟩) = [n])
    (st st' : BState) (o o' : BOut)
    (hb : build regexOk limit true false p {} st = .ok o)
    (hb' : build regexOk limit true false (appendPath2 q p) {} st' = .ok o') :
    ∃ o1 o2, sel (F := F) d cfg o.q n = .ok o1 ∧ sel (F := F) d cfg o'.q (.node 0) = .ok o2 ∧
      ∀ x, x ∈ refs o1 ↔ x ∈ refs o2 := by
  obtain ⟨oq, _, hmq, hvq⟩ := naive_nodesOf2 (F := F) wf cfg hns hinj hq (.node 0) (valid_root wf)
  have hnv : validRef d n = true := hvq n ((hmq n).2 (by rw [h]; simp))
  obtain ⟨o1, ho1, hm1⟩ :=
    build_nodesOf2 (F := F) wf cfg hns hinj regexOk limit hp.frag st o hb n hnv
  obtain ⟨o2, ho2, hm2⟩ :=
    build_nodesOf2 (F := F) wf cfg hns hinj regexOk limit (appendPath2_frag hq hp) st' o' hb'
      (.node 0) (valid_root wf)
  exact ⟨o1, o2, ho1, ho2, fun x => by rw [hm1, hm2]; exact rel_compose_spec2 d hq hp n h x⟩

/-- `rel_compose_build2` at the configuration the model reads off the source, from the initial
builder state (what `Api.compile` runs) -/
theorem rel_compose_build2_source {d : Doc} (wf : WF d) (cfg : ECfg) (hns : cfg.nsIface = true)
    (hinj : HashInj d cfg) (regexOk : RegexOk) (limit : Nat)
    {q p : Ast} (hq : Frag true q) (hp : RelFrag p) (n : Ref)
    (h : nodesOf (Spec.eval (F := F) d q ⟨.node 0, 1, 1⟩) = [n]) (o o' : BOut)
    (hb : build regexOk limit shortcutNeedsNodeTestFromSource smartDescThroughFilterFromSource
      p {} {} = .ok o)
    (hb' : build regexOk limit shortcutNeedsNodeTestFromSource smartDescThroughFilterFromSource
      (appendPath2 q p) {} {} = .ok o') :
    ∃ o1 o2, sel (F := F) d cfg o.q n = .ok o1 ∧ sel (F := F) d cfg o'.q (.node 0) = .ok o2 ∧
      ∀ x, x ∈ refs o1 ↔ x ∈ refs o2 := by
  rw [Lemmas.SourceConfig.shortcut_guard_from_source,
    Lemmas.SourceConfig.smartdesc_stops_at_filters_from_source] at hb hb'
  exact rel_compose_build2 wf cfg hns hinj regexOk limit hq hp n h {} {} o o' hb hb'

/-! ### Absolute paths -/

/-- **start-node independence (model, built plan, through C02)**: the plan `build` produces for an
absolute path with boolean predicates selects the same node set from any two valid start nodes -/
theorem abs_build_indep2 {d : Doc} (wf : WF d) (cfg : ECfg) (hns : cfg.nsIface = true)
    (hinj : HashInj d cfg) (regexOk : RegexOk) (limit : Nat) {p : Ast} (hp : AbsFrag p)
    (st : BState) (o : BOut) (hb : build regexOk limit true false p {} st = .ok o)
    (c₁ c₂ : Ref) (h₁ : validRef d c₁ = true) (h₂ : validRef d c₂ = true) :
    ∃ o1 o2, sel (F := F) d cfg o.q c₁ = .ok o1 ∧ sel (F := F) d cfg o.q c₂ = .ok o2 ∧
      ∀ x, x ∈ refs o1 ↔ x ∈ refs o2 := by
  obtain ⟨o1, ho1, hm1⟩ := build_nodesOf2 (F := F) wf cfg hns hinj regexOk limit hp.frag st o hb c₁ h₁
  obtain ⟨o2, ho2, hm2⟩ := build_nodesOf2 (F := F) wf cfg hns hinj regexOk limit hp.frag st o hb c₂ h₂
  refine ⟨o1, o2, ho1, ho2, fun x => ?_⟩
  rw [hm1, hm2, abs_eval_indep2 d hp ⟨c₁, 1, 1⟩ ⟨c₂, 1, 1⟩]

/-! ### Rooted plans with filters and merges (sequence-level independence) -/

/-- a plan is *rooted* when every read of the start node outside predicates goes through
`absoluteQuery`: `RootedPlans.Rooted` extended by `.filter inp pred` (the predicate is evaluated at
the candidates `inp` yields, never at the start node) and `.merge inp child` (`child` is started at
the nodes `inp` yields) -/
def Rooted2 : Plan → Bool
  | .absolute => true
  | .child _ i | .cachedChild _ i | .attr _ i | .parent _ i | .self _ i | .descendant _ _ i | .ancestor _ _ i
  | .following _ _ i | .preceding _ _ i | .descOverDesc _ _ i | .group i | .transform _ i => Rooted2 i
  | .filter i _ => Rooted2 i
  | .merge i _ => Rooted2 i
  | .union l r => Rooted2 l && Rooted2 r
  | _ => false

theorem rooted2_of_rooted (p : Plan) (h : RootedPlans.Rooted p = true) : Rooted2 p = true := by
  induction p with
  | absolute => rfl
  | child a i ih | cachedChild a i ih | attr a i ih | parent a i ih | self a i ih | group i ih =>
    simp only [RootedPlans.Rooted] at h; simp only [Rooted2, ih h]
  | descendant a s i ih | ancestor a s i ih | following a s i ih | preceding a s i ih | descOverDesc a s i ih | transform n i ih =>
    simp only [RootedPlans.Rooted] at h; simp only [Rooted2, ih h]
  | union l r ihl ihr =>
    simp only [RootedPlans.Rooted, Bool.and_eq_true] at h
    simp only [Rooted2, ihl h.1, ihr h.2, Bool.and_self]
  | _ => simp [RootedPlans.Rooted] at h

/-- **start-node independence**: a rooted plan — filters and merges included — yields the same
sequence (or the same failure) from every start node -/
theorem abs_start_indep2 (d : Doc) (cfg : ECfg) (p : Plan) (h : Rooted2 p = true) (c₁ c₂ : Ref) :
    sel (F := F) d cfg p c₁ = sel (F := F) d cfg p c₂ := by
  induction p with
  | absolute => simp [sel]
  | child a i ih | cachedChild a i ih | attr a i ih | parent a i ih | self a i ih | group i ih =>
    simp only [Rooted2] at h; simp only [sel, ih h]
  | descendant a s i ih | ancestor a s i ih | following a s i ih | preceding a s i ih | descOverDesc a s i ih | transform n i ih =>
    simp only [Rooted2] at h; simp only [sel, ih h]
  | filter i pr ih _ =>
    simp only [Rooted2] at h; simp only [sel, ih h]
  | merge i ch ih _ =>
    simp only [Rooted2] at h; simp only [sel, ih h]
  | union l r ihl ihr =>
    simp only [Rooted2, Bool.and_eq_true] at h
    simp only [sel, ihl h.1, ihr h.2]
  | _ => simp [Rooted2] at h

theorem rooted2_stepPlan (a : AxisInfo) (ha : a.axis ∈ axes12) (inp : Plan) :
    Rooted2 (stepPlan a inp) = Rooted2 inp := by
  simp only [axes12, List.mem_cons, List.not_mem_nil, or_false] at ha
  rcases ha with h | h | h | h | h | h | h | h | h | h | h | h <;> simp [stepPlan, h, Rooted2]

/-- the un-rewritten plan of an absolute path with predicates is rooted -/
theorem rooted2_predPlan {p : Ast} (hp : AbsFrag p) : Rooted2 (predPlan p) = true := by
  induction hp with
  | root s => rfl
  | axis a inp _ ha ih => simp only [predPlan, rooted2_stepPlan a ha, ih]
  | filter inp b _ _ ih => simp only [predPlan, Rooted2, ih]

/-- **start-node independence (model, naive plan)**: the same *sequence* from every start node -/
theorem abs_model_indep2 (d : Doc) (cfg : ECfg) {p : Ast} (hp : AbsFrag p) (c₁ c₂ : Ref) :
    sel (F := F) d cfg (predPlan p) c₁ = sel (F := F) d cfg (predPlan p) c₂ :=
  abs_start_indep2 d cfg _ (rooted2_predPlan hp) c₁ c₂

theorem axisPlan_rooted2 (a : AxisInfo) (fl : Flags) (pr pr' : Props) (inp q : Plan)
    (h : axisPlan a fl pr inp = .ok (q, pr')) : Rooted2 q = Rooted2 inp := by
  unfold axisPlan at h
  split at h <;> first
    | (cases h; done)
    | (simp only [Except.ok.injEq, Prod.mk.injEq] at h
       obtain ⟨rfl, _⟩ := h
       first | rfl | (split <;> rfl))

/-- the input of a rooted plan (the part the merge rewrite moves out) is rooted -/
theorem rooted2_inputOf (q parent : Plan) (h : Rooted2 q = true) (hp : q.inputOf = some parent) :
    Rooted2 parent = true := by
  cases q <;> simp only [Plan.inputOf, Option.some.injEq] at hp <;> first
    | (cases hp; done)
    | (subst hp; simpa only [Rooted2] using h)

/-- every plan `build` returns for this path is rooted -/
def BuildRooted2 (regexOk : RegexOk) (limit : Nat) (snt sdf : Bool) (p : Ast) : Prop :=
  ∀ fl st o, build regexOk limit snt sdf p fl st = .ok o → Rooted2 o.q = true

theorem build_rooted2_all (regexOk : RegexOk) (limit : Nat) (snt sdf : Bool) {p : Ast} (hp : AbsFrag p) :
    BuildRooted2 regexOk limit snt sdf p ∧
      ∀ b g, p = .axis b g → BuildRooted2 regexOk limit snt sdf g := by
  induction hp with
  | root s =>
    refine ⟨?_, fun b g h => by cases h⟩
    intro fl st o h
    rw [build] at h
    replace h := enter_ok _ _ _ _ h
    cases h
    rfl
  | filter inp b hinp hb ih =>
    refine ⟨?_, fun b g h => by cases h⟩
    intro fl st o h
    obtain ⟨st1, io, X, hio, hor⟩ :=
      FlatFiltered.build_filter_shape regexOk limit snt sdf inp b fl st o h
    have hr := ih.1 _ _ io hio
    rcases hor with hq | ⟨_, parent, hpar, hq⟩
    · rw [hq]; simpa only [Rooted2] using hr
    · rw [hq]; simpa only [Rooted2] using rooted2_inputOf io.q parent hr hpar
  | axis a inp hinp ha ih =>
    refine ⟨?_, fun b g h => by cases h; exact ih.1⟩
    have other : ∀ inp', (inp' ≠ .none) → (∀ b g, inp' = .axis b g → False) →
        BuildRooted2 regexOk limit snt sdf inp' → BuildRooted2 regexOk limit snt sdf (.axis a inp') := by
      intro inp' h1 h2 hin fl st o h
      rw [build] at h
      · replace h := enter_ok _ _ _ _ h
        obtain ⟨o1, ho1, h⟩ := except_bind_ok _ _ _ h
        obtain ⟨⟨q, props⟩, hq, hfin⟩ := except_bind_ok _ _ _ h
        rw [finAxis_q _ _ _ _ hfin, axisPlan_rooted2 _ _ _ _ _ _ hq]
        exact hin _ _ o1 ho1
      · exact h1
      · exact h2
    cases hinp with
    | root s => exact other _ (fun h => by cases h) (fun b g h => by cases h) ih.1
    | filter i c hi hc => exact other _ (fun h => by cases h) (fun b g h => by cases h) ih.1
    | axis b grand hg hb =>
      intro fl st o h
      rw [build] at h
      replace h := enter_ok _ _ _ _ h
      simp only [] at h
      split at h
      · have key : ∀ gq, Rooted2 gq = true → o.q = .descendant a false gq → Rooted2 o.q = true := by
          intro gq hr hq; rw [hq]; exact hr
        cases hg with
        | root s =>
          simp only [] at h
          obtain ⟨o1, ho1, h⟩ := except_bind_ok _ _ _ h
          simp only [pure, Except.pure, bind, Except.bind] at h
          exact key o1.q (ih.2 b _ rfl _ _ o1 ho1) (finAxis_q _ _ _ _ h)
        | axis e g2 hg2 he =>
          simp only [] at h
          obtain ⟨o1, ho1, h⟩ := except_bind_ok _ _ _ h
          simp only [pure, Except.pure, bind, Except.bind] at h
          exact key o1.q (ih.2 b _ rfl _ _ o1 ho1) (finAxis_q _ _ _ _ h)
        | filter i c hi hc =>
          simp only [] at h
          obtain ⟨o1, ho1, h⟩ := except_bind_ok _ _ _ h
          simp only [pure, Except.pure, bind, Except.bind] at h
          exact key o1.q (ih.2 b _ rfl _ _ o1 ho1) (finAxis_q _ _ _ _ h)
      · obtain ⟨o1, ho1, h⟩ := except_bind_ok _ _ _ h
        obtain ⟨⟨q, props⟩, hq, hfin⟩ := except_bind_ok _ _ _ h
        rw [finAxis_q _ _ _ _ hfin, axisPlan_rooted2 _ _ _ _ _ _ hq]
        exact ih.1 _ _ o1 ho1

/-- **the plan `build` makes of an absolute path with predicates is rooted** (whatever the flags,
the builder state and the two source-configuration switches; whatever the predicates are made of —
only the shape `AbsFrag` of the step chain is used) -/
theorem build_rooted2 (regexOk : RegexOk) (limit : Nat) (snt sdf : Bool) {p : Ast} (hp : AbsFrag p)
    (fl : Flags) (st : BState) (o : BOut) (h : build regexOk limit snt sdf p fl st = .ok o) :
    Rooted2 o.q = true :=
  (build_rooted2_all regexOk limit snt sdf hp).1 fl st o h

/-- **start-node independence (model, built plan, sequence level)**: the plan `build` makes of an
absolute path with boolean predicates yields the same *sequence* (or the same failure) from every
start node — no assumption on the document, the start nodes or the hash -/
theorem abs_build_start_indep2 (d : Doc) (cfg : ECfg) (regexOk : RegexOk) (limit : Nat) (snt sdf : Bool)
    {p : Ast} (hp : AbsFrag p) (fl : Flags) (st : BState) (o : BOut)
    (h : build regexOk limit snt sdf p fl st = .ok o) (c₁ c₂ : Ref) :
    sel (F := F) d cfg o.q c₁ = sel (F := F) d cfg o.q c₂ :=
  abs_start_indep2 d cfg o.q (build_rooted2 regexOk limit snt sdf hp fl st o h) c₁ c₂

/-- appending an absolute path to anything changes nothing, on both sides -/
theorem abs_append_ignored2 (d : Doc) (cfg : ECfg) (q : Ast) {p : Ast} (hp : AbsFrag p)
    (c₁ c₂ : Ref) :
    Spec.eval (F := F) d (appendPath2 q p) ⟨c₁, 1, 1⟩ = Spec.eval (F := F) d p ⟨c₂, 1, 1⟩ ∧
    sel (F := F) d cfg (predPlan (appendPath2 q p)) c₁ = sel (F := F) d cfg (predPlan p) c₂ := by
  rw [appendPath2_abs q hp]
  exact ⟨abs_eval_indep2 d hp _ _, abs_model_indep2 d cfg hp c₁ c₂⟩

/-! ## Non-vacuity: concrete paths -/

section Examples

private def ch (n : String) : AxisInfo := ⟨"child", .elem, "", n, "", false, ""⟩
private theorem ch_axis (n : String) : (ch n).axis ∈ axes12 := by simp [axes12, ch]

/-- `/a/b[not(c)]` as the parser produces it -/
def exAbs : Ast :=
  .filter (.axis (ch "b") (.axis (ch "a") (.root "/")))
    (.call "not" "" (.acons (.axis (ch "c") .none) .anil))

theorem exAbs_abs : AbsFrag exAbs :=
  .filter _ _ (.axis _ _ (.axis _ _ (.root _) (ch_axis _)) (ch_axis _))
    (.not _ _ (.exist _ (.axis _ _ .none (ch_axis _))))

/-- `d[e = 'x']/f` -/
def exRel : Ast :=
  .axis (ch "f") (.filter (.axis (ch "d") .none) (.oper "=" (.axis (ch "e") .none) (.str "x")))

theorem exRel_rel : RelFrag exRel :=
  .axis _ _ (.filter _ _ (.axis _ _ .none (ch_axis _)) (.eqStr _ _ (.axis _ _ .none (ch_axis _))))
    (ch_axis _)

/-- `/a/b[not(c)]` / `d[e = 'x']/f` is `/a/b[not(c)]/d[e = 'x']/f`: the predicate `e = 'x'` stays
relative to the `d` candidates -/
example : appendPath2 exAbs exRel =
    .axis (ch "f") (.filter (.axis (ch "d") exAbs) (.oper "=" (.axis (ch "e") .none) (.str "x"))) := rfl

/-- the builder succeeds on the composed path (with the merge rewrite inside) -/
theorem exAppend_build :
    ∃ o, build (fun _ => true) 100 true false (appendPath2 exAbs exRel) {} {} = .ok o := ⟨_, rfl⟩

/-- the built plan of the absolute path is rooted although it is a `.merge` over a `.filter` -/
example : (build (fun _ => true) 100 true false exAbs {} {}).map (fun o => (o.q, Rooted2 o.q)) =
    .ok (.merge (.child (ch "a") .absolute)
      (.filter (.child (ch "b") .context)
        (.func "not" .nil (.pcons (.child (ch "c") .context) .pnil))), true) := rfl

/-- `eval_append2` on the concrete paths: no hypothesis left -/
example (d : Doc) (c : Spec.Ctx) (x : Ref) :
    x ∈ nodesOf (Spec.eval (F := F) d (appendPath2 exAbs exRel) c) ↔
      ∃ n ∈ nodesOf (Spec.eval (F := F) d exAbs c), x ∈ nodesOf (Spec.eval (F := F) d exRel ⟨n, 1, 1⟩) :=
  eval_append2 d exAbs_abs.frag exRel_rel c x

end Examples

end XPathV.Compose2

/-! ## Axiom audit -/
section AxiomAudit
open XPathV.Compose2
end AxiomAudit
