import XPathV.Lemmas.StringFns.Basic
import XPathV.Lemmas.StringFns.Nested
/-!
# C09 — string functions: the model's function library against the XPath 1.0 oracle

* `StringFns/Basic`  — per-function theorems `fn_<name>_spec` (`Agrees (Model.callFn …) (Spec.callFn …)`),
  `normalizeSpace_spec` (Go `unicode.IsSpace`/`TrimSpace` loop = XML-whitespace normalisation on
  strings where the two whitespace classes coincide), `nodeset_arg_is_first` (+ the oracle-side
  `spec_nodeset_arg_is_first` and the combination `nodeset_arg_agrees`); after the repair of
  `contains`/`starts-with`/`ends-with` (second argument read like the first): `nodeset_arg_is_second`,
  `spec_nodeset_arg_is_second`, `fn_strtest_strlike_spec` (a string or a node-set in EITHER position:
  engine = oracle = the test on the two string-values), `fn_strtest_raises` (numbers/booleans still raise)
* `StringFns/Nested` — the fragment `StrE` of nested string expressions, `strE_good` / `strE_sem`
  (model value = oracle value through `build`, to any depth), `strE_builds` / `strE_total`
  (`build` succeeds when the depth limit suffices: the statements are not vacuous)
-/
namespace XPathV.StringFns
open XPathV XPathV.Model

/-- non-vacuity: `concat(substring-before('a b', ' '), normalize-space(' x  y '), lower-case(string('Q')))`
(as the parser produces it) is in the fragment -/
example : StrE (.call "concat" "" (Ast.ofArgList
    [.call "substring-before" "" (.acons (.str "a b") (.acons (.str " ") .anil)),
     .call "normalize-space" "" (.acons (.str " x  y ") .anil),
     .call "lower-case" "" (.acons (.call "string" "" (.acons (.str "Q") .anil)) .anil)])) := by
  refine .concat "" _ (by decide) ?_
  intro a ha
  simp only [List.mem_cons, List.not_mem_nil, or_false] at ha
  rcases ha with rfl | rfl | rfl
  · exact .substringBefore _ _ _ (.lit _) (.lit _)
  · refine .normalizeSpace _ _ (.lit _) ?_
    intro c hc
    have : " x  y ".toList = [' ', 'x', ' ', ' ', 'y', ' '] := by decide
    rw [this] at hc
    simp only [List.mem_cons, List.not_mem_nil, or_false] at hc
    rcases hc with rfl | rfl | rfl | rfl | rfl | rfl <;> decide
  · exact .lowerCase _ _ (.string _ _ (.lit _))

end XPathV.StringFns

