import XPathV.Lemmas.Abbrev.Classify
set_option linter.unusedSimpArgs false
/-!
# What `expandWith` does at the two extremes

(The theorems "the written-out stream has the same tree" would also hold of the identity function;
these facts, with the examples of `Abbrev.lean`, say that `expandAbbrev` really writes everything out.)

* `expandWith_none`: nothing selected — nothing changes;
* `expandAbbrev_no_abbrev_tok`: with everything selected, no `@`, `.`, `..`, `//` token is left;
* `expandWith_expandAbbrev`: the fully written-out stream is a fixed point of every `expandWith sel`
  — no step without an axis specifier is left either; `Expands_expandAbbrev`, `expandAbbrev_idem`;
* `expandAt_at`, `expandAt_dot`, `expandAt_dotdot`, `expandAt_slashslash`: selecting the one position
  `|pre|` of `pre ++ t :: post` replaces `t` by its expansion and nothing else (`expandWith_skip`,
  `expandWith_none_from`).
-/
namespace XPathV.Lemmas.Abbrev
open XPathV XPathV.Spec.Full

theorem childPfx_false (prev : Option ETok) (t : ETok) : childPfx false prev t = [] := by
  simp [childPfx]

/-- nothing selected: the stream is unchanged -/
theorem expandWith_none {sel : Nat → Bool} (hsel : ∀ j, sel j = false) (prev : Option ETok) (i : Nat)
    (toks : List TokV) : expandWith sel prev i toks = toks := by
  fun_induction expandWith sel prev i toks <;>
    simp_all [childPfx_false]

/-- not one of the abbreviation tokens `@`, `.`, `..`, `//` -/
def notAbbrevTok : TokV → Bool
  | .at | .dot | .dotdot | .slashslash => false
  | _ => true

theorem all_childPfx (b : Bool) (prev : Option ETok) (e : ETok) :
    (childPfx b prev e).all notAbbrevTok = true := by
  unfold childPfx
  split <;> simp [notAbbrevTok]

theorem expandWith_all_ok (prev : Option ETok) (i : Nat) (toks : List TokV) :
    (expandWith (fun _ => true) prev i toks).all notAbbrevTok = true := by
  fun_induction expandWith (fun _ => true) prev i toks <;>
    simp_all [List.all_append, List.all_cons, notAbbrevTok, all_childPfx, nodeT, dosT]

/-- everything selected: no abbreviation token is left -/
theorem expandWith_all_no_abbrev_tok (prev : Option ETok) (i : Nat) (toks : List TokV) :
    ∀ t ∈ expandWith (fun _ => true) prev i toks,
      t ≠ TokV.at ∧ t ≠ .dot ∧ t ≠ .dotdot ∧ t ≠ .slashslash := by
  intro t ht
  have h := List.all_eq_true.1 (expandWith_all_ok prev i toks) t ht
  cases t <;> first | (simp; done) | (simp [notAbbrevTok] at h)

theorem expandAbbrev_no_abbrev_tok (toks : List TokV) :
    ∀ t ∈ expandAbbrev toks, t ≠ TokV.at ∧ t ≠ .dot ∧ t ≠ .dotdot ∧ t ≠ .slashslash :=
  expandWith_all_no_abbrev_tok none 0 toks

/-! ## the fully written-out stream has nothing left to write out -/

theorem childPfx_nil {s : Bool} {p : Option ETok} {t : ETok} (h : (nameTestStart t && !isAx p) = false) :
    childPfx s p t = [] := by
  unfold childPfx
  rw [Bool.and_assoc, h]
  simp

theorem expandWith_axis_cons (sel : Nat → Bool) (q : Option ETok) (j : Nat) (s : String) (r : List TokV) :
    expandWith sel q j (.axis s :: r) = .axis s :: expandWith sel (some (.axisName s)) (j + 1) r := by
  simp only [expandWith]

theorem expandWith_nodeT (sel : Nat → Bool) (q : Option ETok) (j : Nat) (ax : String) (r : List TokV) :
    expandWith sel q j (nodeT ax ++ r) = nodeT ax ++ expandWith sel (some .rparen) (j + 4) r := by
  simp [nodeT, expandWith, classifyName_node, childPfx_nil, nameTestStart, isAx, isAxTok]

theorem expandWith_dosT (sel : Nat → Bool) (q : Option ETok) (j : Nat) (r : List TokV) :
    expandWith sel q j (dosT ++ r) = dosT ++ expandWith sel (some .slash) (j + 6) r := by
  have h := expandWith_nodeT sel (some .slash) (j + 1) "descendant-or-self" (.slash :: r)
  simp only [dosT, List.cons_append, List.append_assoc, List.nil_append, expandWith] at h ⊢
  rw [h]

/-- a name or `*` token `tk` with classification `t`, after full expansion, is left alone -/
theorem fix_child_case {sel' : Nat → Bool} {p p' : Option ETok} {i' : Nat} {t : ETok} {tk : TokV}
    {R : List TokV} (hag : Agree p p')
    (hcl : ∀ q j r, operatorPosition q = operatorPosition p →
      expandWith sel' q j (tk :: r) = childPfx (sel' j) q t ++ tk :: expandWith sel' (some t) (j + 1) r)
    (hax : nameTestStart t = true → ∀ j r, expandWith sel' (some (.axisName "child")) j (tk :: r)
      = childPfx (sel' j) (some (.axisName "child")) t ++ tk :: expandWith sel' (some t) (j + 1) r)
    (ih : ∀ j, expandWith sel' (some t) j R = R) :
    expandWith sel' p' i' (childPfx true p t ++ tk :: R) = childPfx true p t ++ tk :: R := by
  by_cases hc : (nameTestStart t && !isAx p) = true
  · have e : childPfx true p t = [.axis "child"] := by simp [childPfx, hc]
    simp only [Bool.and_eq_true] at hc
    rw [e, List.cons_append, List.nil_append, expandWith_axis_cons, hax hc.1,
      childPfx_nil (by simp [isAx, isAxTok]), List.nil_append, ih]
  · have hc' : (nameTestStart t && !isAx p) = false := by simpa using hc
    have hc'' : (nameTestStart t && !isAx p') = false := by rw [hag.2]; exact hc'
    rw [childPfx_nil hc', List.nil_append, hcl p' i' R hag.1, childPfx_nil hc'', List.nil_append, ih]

/-- **The fully written-out stream is a fixed point** of writing out any set of abbreviations. -/
theorem expandWith_fix (sel' : Nat → Bool) (p : Option ETok) (i : Nat) (toks : List TokV) :
    ∀ (p' : Option ETok) (i' : Nat), Agree p p' →
      expandWith sel' p' i' (expandWith (fun _ => true) p i toks) = expandWith (fun _ => true) p i toks := by
  fun_induction expandWith (fun _ => true) p i toks
  case case1 => intro p' i' _; simp [expandWith]
  case case2 x i q l b rest ih =>
    intro p' i' _
    rw [expandWith.eq_2, ih _ _ (Agree.rfl' _)]
  case case3 x i rest hne ih =>
    intro p' i' _
    rw [expandWith.eq_3 _ _ _ _ (expandWith_head_not_name _ _ _ hne), ih _ _ (Agree.rfl' _)]
  case case4 prev i q l b rest t ih =>
    intro p' i' hag
    refine fix_child_case hag (fun q' j r hq => ?_) (fun hn j r => ?_) (fun j => ih _ j (Agree.rfl' _))
    · simp only [expandWith]
      rw [classifyName_congr hq]
    · simp only [expandWith]
      rw [classifyName_after_axis "child" hn]
  case case5 prev i rest t ih =>
    intro p' i' hag
    refine fix_child_case hag (fun q' j r hq => ?_) (fun hn j r => ?_) (fun j => ih _ j (Agree.rfl' _))
    · simp only [expandWith]
      rw [hq]
    · simp only [expandWith]
      rw [star_after_axis "child" hn]
  case case6 x i rest ih =>
    intro p' i' _
    simp only [if_true, expandWith]
    rw [ih (some (.axisName "attribute")) _ ⟨rfl, rfl⟩]
  case case7 x i rest ih =>
    intro p' i' _
    simp only [if_true]
    rw [expandWith_nodeT, ih (some .rparen) _ ⟨rfl, rfl⟩]
  case case8 x i rest ih =>
    intro p' i' _
    simp only [if_true]
    rw [expandWith_nodeT, ih (some .rparen) _ ⟨rfl, rfl⟩]
  case case9 x i rest ih =>
    intro p' i' _
    simp only [if_true]
    rw [expandWith_dosT, ih (some .slash) _ ⟨rfl, rfl⟩]
  all_goals
    rename_i ih
    intro p' i' _
    simp only [expandWith]
    rw [ih _ _ (Agree.rfl' _)]

/-- nothing is left to write out in `expandAbbrev toks` -/
theorem Expands_expandAbbrev {toks toks' : List TokV} (h : Expands (expandAbbrev toks) toks') :
    toks' = expandAbbrev toks := by
  obtain ⟨sel, rfl⟩ := h
  exact expandWith_fix sel none 0 toks none 0 (Agree.rfl' _)

theorem expandAbbrev_idem (toks : List TokV) : expandAbbrev (expandAbbrev toks) = expandAbbrev toks :=
  Expands_expandAbbrev (Expands.all _)

/-- no single occurrence is left either -/
theorem expandAbbrev_final (toks : List TokV) (i : Nat) :
    expandAt i (expandAbbrev toks) = expandAbbrev toks :=
  Expands_expandAbbrev (Expands.one i _)

/-! ## a single occurrence: what `expandAt` does to `@`, `.`, `..`, `//` -/

/-- nothing selected from `i` on: the stream is unchanged -/
theorem expandWith_none_from (sel : Nat → Bool) (prev : Option ETok) (i : Nat) (toks : List TokV) :
    (∀ j, i ≤ j → sel j = false) → expandWith sel prev i toks = toks := by
  fun_induction expandWith sel prev i toks
  case case1 => intro _; rfl
  case case2 x i q l b rest ih =>
    intro h
    rw [ih (fun j hj => h j (by omega))]
  case case3 x i rest hne ih =>
    intro h
    rw [ih (fun j hj => h j (by omega))]
  all_goals
    rename_i ih
    intro h
    have h0 := h _ (Nat.le_refl _)
    rw [ih (fun j hj => h j (by omega))]
    first | done | simp [h0, childPfx_false]

/-- an unselected prefix is copied (the context `q` in which the rest is continued is not named) -/
theorem expandWith_skip (sel : Nat → Bool) (prev : Option ETok) (i : Nat) (pre : List TokV) :
    ∀ (rest : List TokV), (∀ j, i ≤ j → j < i + pre.length → sel j = false) →
      (∀ p l b r, rest = TokV.name p l b :: r → False) →
      ∃ q, expandWith sel prev i (pre ++ rest) = pre ++ expandWith sel q (i + pre.length) rest := by
  fun_induction expandWith sel prev i pre
  case case1 x i => intro rest _ _; exact ⟨x, by simp⟩
  case case2 x i q l b pre' ih =>
    intro rest h hr
    obtain ⟨q', e⟩ := ih rest (fun j h₁ h₂ => h j (by omega) (by simp only [List.length_cons]; omega)) hr
    refine ⟨q', ?_⟩
    rw [List.cons_append, List.cons_append, expandWith.eq_2, e]
    simp only [List.length_cons, List.cons_append]
    rw [show i + (pre'.length + 1 + 1) = i + 2 + pre'.length by omega]
  case case3 x i pre' hne ih =>
    intro rest h hr
    obtain ⟨q', e⟩ := ih rest (fun j h₁ h₂ => h j (by omega) (by simp only [List.length_cons]; omega)) hr
    refine ⟨q', ?_⟩
    have hne' : ∀ p l b r, pre' ++ rest = TokV.name p l b :: r → False := by
      intro p l b r he
      cases pre' with
      | nil => exact hr p l b r (by simpa using he)
      | cons t r' =>
        simp only [List.cons_append, List.cons.injEq] at he
        exact hne p l b r' (by rw [he.1])
    rw [List.cons_append, expandWith.eq_3 _ _ _ _ hne', e]
    simp only [List.length_cons, List.cons_append]
    rw [show i + (pre'.length + 1) = i + 1 + pre'.length by omega]
  case case4 prev i q l b pre' t ih =>
    intro rest h hr
    have hl : ∀ k : Nat, k + (pre'.length + 1) = k + 1 + pre'.length := fun k => by omega
    have h0 := h _ (Nat.le_refl _) (by simp only [List.length_cons]; omega)
    obtain ⟨q', e⟩ := ih rest (fun j h₁ h₂ => h j (by omega) (by simp only [List.length_cons]; omega)) hr
    refine ⟨q', ?_⟩
    simp only [List.cons_append, expandWith, h0, childPfx_false, List.nil_append, List.length_cons, hl]
    exact congrArg _ e
  case case5 prev i pre' t ih =>
    intro rest h hr
    have hl : ∀ k : Nat, k + (pre'.length + 1) = k + 1 + pre'.length := fun k => by omega
    have h0 := h _ (Nat.le_refl _) (by simp only [List.length_cons]; omega)
    obtain ⟨q', e⟩ := ih rest (fun j h₁ h₂ => h j (by omega) (by simp only [List.length_cons]; omega)) hr
    refine ⟨q', ?_⟩
    simp only [List.cons_append, expandWith, h0, childPfx_false, List.nil_append, List.length_cons, hl]
    exact congrArg _ e
  all_goals
    rename_i pre' ih
    intro rest h hr
    have hl : ∀ k : Nat, k + (pre'.length + 1) = k + 1 + pre'.length := fun k => by omega
    have h0 := h _ (Nat.le_refl _) (by simp only [List.length_cons]; omega)
    obtain ⟨q', e⟩ := ih rest (fun j h₁ h₂ => h j (by omega) (by simp only [List.length_cons]; omega)) hr
    refine ⟨q', ?_⟩
    simp only [List.cons_append, expandWith, h0, childPfx_false, List.nil_append, e, List.length_cons,
      Bool.false_eq_true, if_false, hl]

/-- the single-occurrence form: only position `|pre|` selected, the token there is `t` with
replacement `repl` whatever the context -/
theorem expandAt_splice {t : TokV} {repl : List TokV} (pre post : List TokV)
    (hname : ∀ p l b, t ≠ TokV.name p l b)
    (hrepl : ∀ (sel : Nat → Bool) q k r, sel k = true →
      ∃ q', expandWith sel q k (t :: r) = repl ++ expandWith sel q' (k + 1) r) :
    expandAt pre.length (pre ++ t :: post) = pre ++ repl ++ post := by
  unfold expandAt
  obtain ⟨q, e⟩ := expandWith_skip (fun j => j == pre.length) none 0 pre (t :: post)
    (fun j _ h => by simp only [Nat.zero_add] at h; simp; omega)
    (fun p l b r h => hname p l b (by simp only [List.cons.injEq] at h; exact h.1))
  obtain ⟨q', e'⟩ := hrepl (fun j => j == pre.length) q (0 + pre.length) post (by simp)
  rw [e, e', expandWith_none_from _ _ _ _ (fun j hj => by simp; omega)]
  simp

/-- `@` at position `|pre|` becomes `attribute::` -/
theorem expandAt_at (pre post : List TokV) :
    expandAt pre.length (pre ++ .at :: post) = pre ++ [.axis "attribute"] ++ post :=
  expandAt_splice pre post (by simp) (fun sel q k r h => ⟨some .at, by simp [expandWith, h]⟩)

/-- `.` at position `|pre|` becomes `self::node()` -/
theorem expandAt_dot (pre post : List TokV) :
    expandAt pre.length (pre ++ .dot :: post) = pre ++ nodeT "self" ++ post :=
  expandAt_splice pre post (by simp) (fun sel q k r h => ⟨some .dot, by simp [expandWith, h]⟩)

/-- `..` at position `|pre|` becomes `parent::node()` -/
theorem expandAt_dotdot (pre post : List TokV) :
    expandAt pre.length (pre ++ .dotdot :: post) = pre ++ nodeT "parent" ++ post :=
  expandAt_splice pre post (by simp) (fun sel q k r h => ⟨some .dotdot, by simp [expandWith, h]⟩)

/-- `//` at position `|pre|` becomes `/descendant-or-self::node()/` -/
theorem expandAt_slashslash (pre post : List TokV) :
    expandAt pre.length (pre ++ .slashslash :: post) = pre ++ dosT ++ post :=
  expandAt_splice pre post (by simp) (fun sel q k r h => ⟨some .slashslash, by simp [expandWith, h]⟩)

end XPathV.Lemmas.Abbrev
