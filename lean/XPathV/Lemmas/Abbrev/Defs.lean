import XPathV.Spec.FullGrammar
/-!
# C10, third clause — abbreviations and their expansions: definitions

XPath 1.0 §2.5: `a` = `child::a`, `@a` = `attribute::a`, `.` = `self::node()`, `..` = `parent::node()`,
`//` = `/descendant-or-self::node()/`.

* `expandWith sel prev i toks` — the token stream `toks` (scanner tokens `TokV`, what a user writes)
  with the abbreviations at the positions selected by `sel : Nat → Bool` written out; it walks the list
  exactly as `classify` does, so that "a NameTest or NodeType in step position with no axis specifier"
  can be recognised: a name or `*` token that §3.7 classifies as a NameTest / NodeType and whose
  preceding token is neither `@` nor an `AxisName '::'`.
  `expandAbbrev` = all positions; `expandAt i` = the single position `i`.
* `EE b ts ts'` — the same on classified tokens (`ETok`), as a relation: `ts'` is `ts` with some
  abbreviations written out (`b`: the token before `ts` is an axis specifier).
-/
namespace XPathV.Lemmas.Abbrev
open XPathV XPathV.Spec.Full

/-! ## on classified tokens -/

/-- `@` or `AxisName '::'` -/
def isAxTok : ETok → Bool
  | .at | .axisName _ => true
  | _ => false

def isAx : Option ETok → Bool
  | some t => isAxTok t
  | none => false

/-- the first token of a NodeTest [7]: a NameTest [37] or a NodeType [38] -/
def nameTestStart : ETok → Bool
  | .wild | .nsWild _ | .qname _ _ | .nodeType _ => true
  | _ => false

/-- tokens that no abbreviation rule touches -/
def plain : ETok → Bool
  | .at | .dot | .dotdot | .slashslash | .wild | .nsWild _ | .qname _ _ | .nodeType _ => false
  | _ => true

/-- `ax::node()` -/
def nodeE (ax : String) : List ETok := [.axisName ax, .nodeType "node", .lparen, .rparen]

/-- `/descendant-or-self::node()/` -/
def dosE : List ETok := .slash :: nodeE "descendant-or-self" ++ [.slash]

/-- `EE b ts ts'`: `ts'` is `ts` with some of its abbreviations written out.  `b` = the token before
`ts` is `@` or an `AxisName '::'` (then the first token of `ts` is not a step without axis specifier). -/
inductive EE : Bool → List ETok → List ETok → Prop
  | nil {b} : EE b [] []
  /-- leave the token as it is -/
  | keep {b t ts ts'} : EE (isAxTok t) ts ts' → EE b (t :: ts) (t :: ts')
  /-- `@` ↦ `attribute::` -/
  | at {b ts ts'} : EE true ts ts' → EE b (.at :: ts) (.axisName "attribute" :: ts')
  /-- `.` ↦ `self::node()` -/
  | dot {b ts ts'} : EE false ts ts' → EE b (.dot :: ts) (nodeE "self" ++ ts')
  /-- `..` ↦ `parent::node()` -/
  | dotdot {b ts ts'} : EE false ts ts' → EE b (.dotdot :: ts) (nodeE "parent" ++ ts')
  /-- `//` ↦ `/descendant-or-self::node()/` -/
  | slashslash {b ts ts'} : EE false ts ts' → EE b (.slashslash :: ts) (dosE ++ ts')
  /-- a NodeTest with no axis specifier ↦ `child::` in front -/
  | child {t ts ts'} : nameTestStart t = true → EE false ts ts' →
      EE false (t :: ts) (.axisName "child" :: t :: ts')

/-! ## on scanner tokens -/

/-- `ax::node()` -/
def nodeT (ax : String) : List TokV := [.axis ax, .name "" "node" true, .lparen, .rparen]

/-- `/descendant-or-self::node()/` -/
def dosT : List TokV := .slash :: nodeT "descendant-or-self" ++ [.slash]

/-- `child::` in front of a name / `*` token whose classification is `t` and whose preceding token is
`prev`, when it is a NodeTest with no axis specifier (and the position is selected) -/
def childPfx (selected : Bool) (prev : Option ETok) (t : ETok) : List TokV :=
  if selected && nameTestStart t && !isAx prev then [.axis "child"] else []

/-- The token stream with the abbreviations at the selected positions (indices into the original list,
starting at `i`) written out.  `prev` is the classification of the preceding token of the *original*
stream, computed as in `classify`. -/
def expandWith (sel : Nat → Bool) : Option ETok → Nat → List TokV → List TokV
  | _, _, [] => []
  | _, i, .dollar :: .name p l b :: rest =>
    .dollar :: .name p l b ::
      expandWith sel (some (if l == "*" then .invalid else .varRef p l)) (i + 2) rest
  | _, i, .dollar :: rest => .dollar :: expandWith sel (some .invalid) (i + 1) rest
  | prev, i, .name p l b :: rest =>
    let t := classifyName prev p l b
    childPfx (sel i) prev t ++ .name p l b :: expandWith sel (some t) (i + 1) rest
  | prev, i, .star :: rest =>
    let t := if operatorPosition prev then ETok.mul else ETok.wild
    childPfx (sel i) prev t ++ .star :: expandWith sel (some t) (i + 1) rest
  | _, i, .at :: rest =>
    (if sel i then TokV.axis "attribute" else .at) :: expandWith sel (some .at) (i + 1) rest
  | _, i, .dot :: rest =>
    (if sel i then nodeT "self" else [.dot]) ++ expandWith sel (some .dot) (i + 1) rest
  | _, i, .dotdot :: rest =>
    (if sel i then nodeT "parent" else [.dotdot]) ++ expandWith sel (some .dotdot) (i + 1) rest
  | _, i, .slashslash :: rest =>
    (if sel i then dosT else [.slashslash]) ++ expandWith sel (some .slashslash) (i + 1) rest
  | _, i, .axis s :: rest => .axis s :: expandWith sel (some (.axisName s)) (i + 1) rest
  | _, i, .str s :: rest => .str s :: expandWith sel (some (.literal s)) (i + 1) rest
  | _, i, .num s :: rest => .num s :: expandWith sel (some (.number s)) (i + 1) rest
  | _, i, .slash :: rest => .slash :: expandWith sel (some .slash) (i + 1) rest
  | _, i, .lparen :: rest => .lparen :: expandWith sel (some .lparen) (i + 1) rest
  | _, i, .rparen :: rest => .rparen :: expandWith sel (some .rparen) (i + 1) rest
  | _, i, .lbracket :: rest => .lbracket :: expandWith sel (some .lbracket) (i + 1) rest
  | _, i, .rbracket :: rest => .rbracket :: expandWith sel (some .rbracket) (i + 1) rest
  | _, i, .comma :: rest => .comma :: expandWith sel (some .comma) (i + 1) rest
  | _, i, .union :: rest => .union :: expandWith sel (some .union) (i + 1) rest
  | _, i, .plus :: rest => .plus :: expandWith sel (some .plus) (i + 1) rest
  | _, i, .minus :: rest => .minus :: expandWith sel (some .minus) (i + 1) rest
  | _, i, .eq :: rest => .eq :: expandWith sel (some .eq) (i + 1) rest
  | _, i, .ne :: rest => .ne :: expandWith sel (some .ne) (i + 1) rest
  | _, i, .lt :: rest => .lt :: expandWith sel (some .lt) (i + 1) rest
  | _, i, .le :: rest => .le :: expandWith sel (some .le) (i + 1) rest
  | _, i, .gt :: rest => .gt :: expandWith sel (some .gt) (i + 1) rest
  | _, i, .ge :: rest => .ge :: expandWith sel (some .ge) (i + 1) rest

/-- every abbreviation written out -/
def expandAbbrev (toks : List TokV) : List TokV := expandWith (fun _ => true) none 0 toks

/-- the abbreviation at position `i` of `toks` (if there is one) written out, nothing else -/
def expandAt (i : Nat) (toks : List TokV) : List TokV := expandWith (fun j => j == i) none 0 toks

/-- `toks'` is `toks` with some set of its abbreviations written out -/
def Expands (toks toks' : List TokV) : Prop := ∃ sel, toks' = expandWith sel none 0 toks

theorem Expands.all (toks : List TokV) : Expands toks (expandAbbrev toks) := ⟨_, rfl⟩
theorem Expands.one (i : Nat) (toks : List TokV) : Expands toks (expandAt i toks) := ⟨_, rfl⟩

/-- the kind of abbreviation a scanner token can be (a name or `*` is one only in step position) -/
inductive Kind | child | attribute | self | parent | descendantOrSelf
  deriving DecidableEq, Repr

def kindOf : TokV → Option Kind
  | .name _ _ _ | .star => some .child
  | .at => some .attribute
  | .dot => some .self
  | .dotdot => some .parent
  | .slashslash => some .descendantOrSelf
  | _ => none

/-- all abbreviations of one kind written out, the others left as they are -/
def expandKind (k : Kind) (toks : List TokV) : List TokV :=
  expandWith (fun j => (toks[j]?).bind kindOf == some k) none 0 toks

theorem Expands.kind (k : Kind) (toks : List TokV) : Expands toks (expandKind k toks) := ⟨_, rfl⟩

/-! ## basic facts about `EE` -/

theorem EE.weaken {b ts ts'} (h : EE b ts ts') : EE false ts ts' := by
  cases h with
  | nil => exact .nil
  | keep h => exact .keep h
  | «at» h => exact .at h
  | dot h => exact .dot h
  | dotdot h => exact .dotdot h
  | slashslash h => exact .slashslash h
  | child hn h => exact .child hn h

theorem EE.refl : ∀ (b : Bool) (ts : List ETok), EE b ts ts
  | _, [] => .nil
  | _, _ :: ts => .keep (EE.refl _ ts)

theorem plain_not_nameTestStart {t : ETok} (hp : plain t = true) : nameTestStart t = false := by
  cases t <;> first | rfl | cases hp

/-- a plain token stays -/
theorem EE.cons_plain {b t ts ts'} (hp : plain t = true) (h : EE b (t :: ts) ts') :
    ∃ r', ts' = t :: r' ∧ EE (isAxTok t) ts r' := by
  cases h with
  | keep h => exact ⟨_, rfl, h⟩
  | «at» h => cases hp
  | dot h => cases hp
  | dotdot h => cases hp
  | slashslash h => cases hp
  | child hn h => rw [plain_not_nameTestStart hp] at hn; cases hn

theorem EE.nil_inv {b ts'} (h : EE b [] ts') : ts' = [] := by
  cases h; rfl

theorem EE.single_plain {b t ts'} (hp : plain t = true) (h : EE b [t] ts') : ts' = [t] := by
  obtain ⟨r', rfl, h'⟩ := EE.cons_plain hp h
  rw [h'.nil_inv]

theorem EE.at_inv {b ts ts'} (h : EE b (.at :: ts) ts') :
    ∃ r', EE true ts r' ∧ (ts' = .at :: r' ∨ ts' = .axisName "attribute" :: r') := by
  cases h with
  | keep h => exact ⟨_, h, .inl rfl⟩
  | «at» h => exact ⟨_, h, .inr rfl⟩
  | child hn _ => cases hn

theorem EE.dot_inv {b ts ts'} (h : EE b (.dot :: ts) ts') :
    ∃ r', EE false ts r' ∧ (ts' = .dot :: r' ∨ ts' = nodeE "self" ++ r') := by
  cases h with
  | keep h => exact ⟨_, h, .inl rfl⟩
  | dot h => exact ⟨_, h, .inr rfl⟩
  | child hn _ => cases hn

theorem EE.dotdot_inv {b ts ts'} (h : EE b (.dotdot :: ts) ts') :
    ∃ r', EE false ts r' ∧ (ts' = .dotdot :: r' ∨ ts' = nodeE "parent" ++ r') := by
  cases h with
  | keep h => exact ⟨_, h, .inl rfl⟩
  | dotdot h => exact ⟨_, h, .inr rfl⟩
  | child hn _ => cases hn

theorem EE.slashslash_inv {b ts ts'} (h : EE b (.slashslash :: ts) ts') :
    ∃ r', EE false ts r' ∧ (ts' = .slashslash :: r' ∨ ts' = dosE ++ r') := by
  cases h with
  | keep h => exact ⟨_, h, .inl rfl⟩
  | slashslash h => exact ⟨_, h, .inr rfl⟩
  | child hn _ => cases hn

/-- a NodeTest's first token stays, with `child::` put in front or not (not after an axis specifier) -/
theorem EE.nameTest_inv {b t ts ts'} (hn : nameTestStart t = true) (h : EE b (t :: ts) ts') :
    ∃ r', EE false ts r' ∧ (ts' = t :: r' ∨ (b = false ∧ ts' = .axisName "child" :: t :: r')) := by
  cases h with
  | keep h => exact ⟨_, h.weaken, .inl rfl⟩
  | «at» h => cases hn
  | dot h => cases hn
  | dotdot h => cases hn
  | slashslash h => cases hn
  | child _ h => exact ⟨_, h, .inr ⟨rfl, rfl⟩⟩

/-- `EE` splits along `++`; the second part is in an unknown context, weakened to `false` -/
theorem EE.append_inv : ∀ {ts₁ ts₂ : List ETok} {b ts'}, EE b (ts₁ ++ ts₂) ts' →
    ∃ ts₁' ts₂', ts' = ts₁' ++ ts₂' ∧ EE b ts₁ ts₁' ∧ EE false ts₂ ts₂'
  | [], ts₂, b, ts', h => ⟨[], ts', rfl, .nil, h.weaken⟩
  | t :: r, ts₂, b, ts', h => by
    rw [List.cons_append] at h
    cases h with
    | keep h =>
      obtain ⟨a, c, rfl, h₁, h₂⟩ := EE.append_inv h
      exact ⟨t :: a, c, rfl, .keep h₁, h₂⟩
    | «at» h =>
      obtain ⟨a, c, rfl, h₁, h₂⟩ := EE.append_inv h
      exact ⟨.axisName "attribute" :: a, c, rfl, .at h₁, h₂⟩
    | dot h =>
      obtain ⟨a, c, rfl, h₁, h₂⟩ := EE.append_inv h
      exact ⟨nodeE "self" ++ a, c, by simp, .dot h₁, h₂⟩
    | dotdot h =>
      obtain ⟨a, c, rfl, h₁, h₂⟩ := EE.append_inv h
      exact ⟨nodeE "parent" ++ a, c, by simp, .dotdot h₁, h₂⟩
    | slashslash h =>
      obtain ⟨a, c, rfl, h₁, h₂⟩ := EE.append_inv h
      exact ⟨dosE ++ a, c, by simp, .slashslash h₁, h₂⟩
    | child hn h =>
      obtain ⟨a, c, rfl, h₁, h₂⟩ := EE.append_inv h
      exact ⟨.axisName "child" :: t :: a, c, rfl, .child hn h₁, h₂⟩

theorem EE.append {ts₁ ts₂ ts₁' ts₂' : List ETok} {b} (h₁ : EE b ts₁ ts₁')
    (h₂ : ∀ b', EE b' ts₂ ts₂') : EE b (ts₁ ++ ts₂) (ts₁' ++ ts₂') := by
  induction h₁ with
  | nil => exact h₂ _
  | keep _ ih => exact .keep ih
  | «at» _ ih => exact .at ih
  | dot _ ih => simpa [List.append_assoc] using EE.dot ih
  | dotdot _ ih => simpa [List.append_assoc] using EE.dotdot ih
  | slashslash _ ih => simpa [List.append_assoc] using EE.slashslash ih
  | child hn _ ih => exact .child hn ih

/-- `ts₁ tok ts₂` with a plain `tok` -/
theorem EE.mid_inv {ts₁ ts₂ : List ETok} {tok b ts'} (hp : plain tok = true)
    (h : EE b (ts₁ ++ [tok] ++ ts₂) ts') :
    ∃ ts₁' ts₂', ts' = ts₁' ++ [tok] ++ ts₂' ∧ EE b ts₁ ts₁' ∧ EE false ts₂ ts₂' := by
  rw [List.append_assoc] at h
  obtain ⟨a, c, rfl, h₁, h₂⟩ := EE.append_inv h
  obtain ⟨r', rfl, h₃⟩ := EE.cons_plain hp (by simpa using h₂)
  exact ⟨a, r', by simp, h₁, h₃.weaken⟩

/-- `ts₁ // ts₂` -/
theorem EE.mid_ss {ts₁ ts₂ : List ETok} {b ts'} (h : EE b (ts₁ ++ [.slashslash] ++ ts₂) ts') :
    ∃ ts₁' ts₂', EE b ts₁ ts₁' ∧ EE false ts₂ ts₂' ∧
      (ts' = ts₁' ++ [.slashslash] ++ ts₂' ∨ ts' = ts₁' ++ dosE ++ ts₂') := by
  rw [List.append_assoc] at h
  obtain ⟨a, c, rfl, h₁, h₂⟩ := EE.append_inv h
  obtain ⟨r', h₃, e | e⟩ := EE.slashslash_inv (by simpa using h₂)
  · exact ⟨a, r', h₁, h₃, .inl (by simp [e])⟩
  · exact ⟨a, r', h₁, h₃, .inr (by simp [e])⟩

/-- `l ts r` with plain `l`, `r` -/
theorem EE.bracket_inv {l r : ETok} {ts : List ETok} {b ts'} (hl : plain l = true) (hr : plain r = true)
    (h : EE b ([l] ++ ts ++ [r]) ts') : ∃ ts'', ts' = [l] ++ ts'' ++ [r] ∧ EE false ts ts'' := by
  obtain ⟨r', rfl, h₁⟩ := EE.cons_plain hl (by simpa using h)
  obtain ⟨a, c, rfl, h₂, h₃⟩ := EE.append_inv h₁
  rw [EE.single_plain hr h₃]
  exact ⟨a, by simp, h₂.weaken⟩

end XPathV.Lemmas.Abbrev
