import XPathV.Lemmas.Abbrev.Defs
set_option linter.unusedSimpArgs false
/-!
# Writing out abbreviations commutes with the lexical classification of §3.7

The classification of a name or `*` depends on the token before it, and writing out an abbreviation
changes tokens.  It changes them harmlessly: every replacement ends in a token that is in operator
position exactly when the original was (`@` / `attribute::`: no;  `.` `..` / `)`: yes;  `//` / `/`:
no;  `child::` in front of a NameTest: the NameTest was not in operator position, or is one whatever
precedes it).  Hence

`classify_expand : EE (isAx p) (classify p toks) (classify p' (expandWith sel p i toks))`

for contexts `p`, `p'` that agree on `operatorPosition` and on being an axis specifier.
-/
namespace XPathV.Lemmas.Abbrev
open XPathV XPathV.Spec.Full

theorem classifyName_congr {p p' : Option ETok} (h : operatorPosition p' = operatorPosition p)
    (q l : String) (b : Bool) : classifyName p' q l b = classifyName p q l b := by
  simp only [classifyName, h]

/-- a name that is a NameTest / NodeType in its context is the same one after an axis specifier -/
theorem classifyName_after_axis {p : Option ETok} {q l : String} {b : Bool} (s : String)
    (h : nameTestStart (classifyName p q l b) = true) :
    classifyName (some (.axisName s)) q l b = classifyName p q l b := by
  unfold classifyName at h ⊢
  by_cases hl : (l == "*") = true
  · simp only [hl, if_true]
  · simp only [hl] at h ⊢
    cases hop : operatorPosition p
    · simp [operatorPosition]
    · by_cases hq : (q == "") = true
      · simp [hop, hq, nameTestStart] at h
      · simp only [hq, Bool.and_false, Bool.false_eq_true, if_false, operatorPosition] at h ⊢

theorem star_after_axis {p : Option ETok} (s : String)
    (h : nameTestStart (if operatorPosition p then ETok.mul else ETok.wild) = true) :
    (if operatorPosition (some (.axisName s)) then ETok.mul else ETok.wild)
      = (if operatorPosition p then ETok.mul else ETok.wild) := by
  cases hop : operatorPosition p
  · simp [operatorPosition]
  · simp [hop, nameTestStart] at h

theorem classify_name_cons (prev : Option ETok) (q l : String) (b : Bool) (rest : List TokV) :
    classify prev (.name q l b :: rest)
      = classifyName prev q l b :: classify (some (classifyName prev q l b)) rest := by
  simp [classify]

theorem classify_star_cons (prev : Option ETok) (rest : List TokV) :
    classify prev (.star :: rest)
      = (if operatorPosition prev then ETok.mul else ETok.wild) ::
          classify (some (if operatorPosition prev then ETok.mul else ETok.wild)) rest := by
  simp [classify]

theorem classify_axis_cons (prev : Option ETok) (s : String) (rest : List TokV) :
    classify prev (.axis s :: rest) = .axisName s :: classify (some (.axisName s)) rest := by
  simp [classify]

theorem classifyName_node (s : String) :
    classifyName (some (.axisName s)) "" "node" true = .nodeType "node" := by
  simp [classifyName, operatorPosition, nodeTypes]

/-- `ax::node()` classified -/
theorem classify_nodeT (prev : Option ETok) (ax : String) (rest : List TokV) :
    classify prev (nodeT ax ++ rest) = nodeE ax ++ classify (some .rparen) rest := by
  simp [nodeT, nodeE, classify, classifyName_node]

/-- `/descendant-or-self::node()/` classified -/
theorem classify_dosT (prev : Option ETok) (rest : List TokV) :
    classify prev (dosT ++ rest) = dosE ++ classify (some .slash) rest := by
  have h := classify_nodeT (some .slash) "descendant-or-self" (.slash :: rest)
  simp only [dosT, dosE, List.cons_append, List.append_assoc, List.nil_append, classify] at h ⊢
  rw [h]

/-- the contexts `p` (original stream) and `p'` (written-out stream) agree on what matters -/
def Agree (p p' : Option ETok) : Prop :=
  operatorPosition p' = operatorPosition p ∧ isAx p' = isAx p

theorem Agree.rfl' (p : Option ETok) : Agree p p := ⟨rfl, rfl⟩

/-- a name or `*` token `tk` classified as `t` in context `p` and as the same `t` in context `p'`
(`hcl`), and as `t` again after an axis specifier when it is a NodeTest start (`hax`) -/
theorem child_case {sel : Bool} {p p' : Option ETok} {t : ETok} {tk : TokV} {rest rest' : List TokV}
    (hag : Agree p p')
    (hcl : ∀ q r, operatorPosition q = operatorPosition p → classify q (tk :: r) = t :: classify (some t) r)
    (hax : nameTestStart t = true → ∀ r, classify (some (.axisName "child")) (tk :: r) = t :: classify (some t) r)
    (ih : EE (isAxTok t) (classify (some t) rest) (classify (some t) rest')) :
    EE (isAx p) (t :: classify (some t) rest) (classify p' (childPfx sel p t ++ tk :: rest')) := by
  unfold childPfx
  by_cases hc : (sel && nameTestStart t && !isAx p) = true
  · simp only [hc, if_true, List.cons_append, List.nil_append, classify_axis_cons]
    simp only [Bool.and_eq_true, Bool.not_eq_true'] at hc
    obtain ⟨⟨_, hn⟩, hp⟩ := hc
    rw [hax hn, hp]
    have hf : isAxTok t = false := by cases t <;> first | rfl | cases hn
    rw [hf] at ih
    exact .child hn ih
  · simp only [hc, Bool.false_eq_true, if_false, List.nil_append]
    rw [hcl p' rest' hag.1]
    exact .keep ih

/-- the written-out stream begins with a name token only if the original does (so a `$` is fused
with the token after it in the one exactly when it is in the other) -/
theorem expandWith_head_not_name (sel : Nat → Bool) (prev : Option ETok) (i : Nat) {rest : List TokV}
    (h : ∀ (p l : String) (b : Bool) (r : List TokV), rest = .name p l b :: r → False) :
    ∀ (p l : String) (b : Bool) (r : List TokV), expandWith sel prev i rest = .name p l b :: r → False := by
  intro p l b r
  cases rest with
  | nil => simp [expandWith]
  | cons t rest' =>
    cases t with
    | name p₁ l₁ b₁ => exact (h _ _ _ _ rfl).elim
    | dollar =>
      cases rest' with
      | nil => simp [expandWith]
      | cons t' r' => cases t' <;> simp [expandWith]
    | star => simp only [expandWith, childPfx]; split <;> split <;> simp
    | dot => simp only [expandWith]; split <;> simp [nodeT]
    | dotdot => simp only [expandWith]; split <;> simp [nodeT]
    | slashslash => simp only [expandWith]; split <;> simp [dosT]
    | «at» => simp only [expandWith]; split <;> simp
    | _ => simp [expandWith]

/-- **Classification commutes with expansion.** -/
theorem classify_expand (sel : Nat → Bool) (p : Option ETok) (toks : List TokV) :
    ∀ (p' : Option ETok) (i : Nat), Agree p p' →
      EE (isAx p) (classify p toks) (classify p' (expandWith sel p i toks)) := by
  fun_induction classify p toks with
  | case1 prev => intro p' i _; simp only [expandWith, classify]; exact .nil
  | case2 prev q l b rest hl ih =>
    intro p' i _
    simp only [expandWith, classify, hl, if_true]
    exact .keep (.keep (ih _ _ (Agree.rfl' _)))
  | case3 prev q l b rest hl ih =>
    intro p' i _
    simp only [expandWith, classify, hl]
    exact .keep (ih _ _ (Agree.rfl' _))
  | case4 prev rest hne ih =>
    intro p' i _
    rw [expandWith.eq_3 _ _ _ _ hne, classify.eq_3 _ _ (expandWith_head_not_name sel _ _ hne)]
    exact .keep (ih _ _ (Agree.rfl' _))
  | case5 prev q l b rest t ih =>
    intro p' i hag
    simp only [expandWith]
    refine child_case hag (fun q' r hq => ?_) (fun hn r => ?_) (ih _ _ (Agree.rfl' _))
    · rw [classify_name_cons, classifyName_congr hq]
    · rw [classify_name_cons, classifyName_after_axis "child" hn]
  | case6 prev rest t ih =>
    intro p' i hag
    simp only [expandWith]
    refine child_case hag (fun q' r hq => ?_) (fun hn r => ?_) (ih _ _ (Agree.rfl' _))
    · rw [classify_star_cons, hq]
    · rw [classify_star_cons, star_after_axis "child" hn]
  | case7 prev s rest ih =>
    intro p' i _; simp only [expandWith, classify]; exact .keep (ih _ _ (Agree.rfl' _))
  | case8 prev s rest ih =>
    intro p' i _; simp only [expandWith, classify]; exact .keep (ih _ _ (Agree.rfl' _))
  | case9 prev s rest ih =>
    intro p' i _; simp only [expandWith, classify]; exact .keep (ih _ _ (Agree.rfl' _))
  | case10 prev rest ih =>
    intro p' i _; simp only [expandWith, classify]; exact .keep (ih _ _ (Agree.rfl' _))
  | case11 prev rest ih =>
    intro p' i _
    simp only [expandWith]
    by_cases hs : sel i = true
    · simp only [hs, if_true, List.append_assoc]
      rw [classify_dosT]
      exact .slashslash (ih _ _ ⟨rfl, rfl⟩)
    · simp only [hs, List.cons_append, List.nil_append, classify]
      exact .keep (ih _ _ (Agree.rfl' _))
  | case12 prev rest ih =>
    intro p' i _
    simp only [expandWith]
    by_cases hs : sel i = true
    · simp only [hs, if_true, classify]
      exact .at (ih _ _ ⟨rfl, rfl⟩)
    · simp only [hs, classify]
      exact .keep (ih _ _ (Agree.rfl' _))
  | case13 prev rest ih =>
    intro p' i _
    simp only [expandWith]
    by_cases hs : sel i = true
    · simp only [hs, if_true]
      rw [classify_nodeT]
      exact .dot (ih _ _ ⟨rfl, rfl⟩)
    · simp only [hs, List.cons_append, List.nil_append, classify]
      exact .keep (ih _ _ (Agree.rfl' _))
  | case14 prev rest ih =>
    intro p' i _
    simp only [expandWith]
    by_cases hs : sel i = true
    · simp only [hs, if_true]
      rw [classify_nodeT]
      exact .dotdot (ih _ _ ⟨rfl, rfl⟩)
    · simp only [hs, List.cons_append, List.nil_append, classify]
      exact .keep (ih _ _ (Agree.rfl' _))
  | case15 prev rest ih =>
    intro p' i _; simp only [expandWith, classify]; exact .keep (ih _ _ (Agree.rfl' _))
  | case16 prev rest ih =>
    intro p' i _; simp only [expandWith, classify]; exact .keep (ih _ _ (Agree.rfl' _))
  | case17 prev rest ih =>
    intro p' i _; simp only [expandWith, classify]; exact .keep (ih _ _ (Agree.rfl' _))
  | case18 prev rest ih =>
    intro p' i _; simp only [expandWith, classify]; exact .keep (ih _ _ (Agree.rfl' _))
  | case19 prev rest ih =>
    intro p' i _; simp only [expandWith, classify]; exact .keep (ih _ _ (Agree.rfl' _))
  | case20 prev rest ih =>
    intro p' i _; simp only [expandWith, classify]; exact .keep (ih _ _ (Agree.rfl' _))
  | case21 prev rest ih =>
    intro p' i _; simp only [expandWith, classify]; exact .keep (ih _ _ (Agree.rfl' _))
  | case22 prev rest ih =>
    intro p' i _; simp only [expandWith, classify]; exact .keep (ih _ _ (Agree.rfl' _))
  | case23 prev rest ih =>
    intro p' i _; simp only [expandWith, classify]; exact .keep (ih _ _ (Agree.rfl' _))
  | case24 prev rest ih =>
    intro p' i _; simp only [expandWith, classify]; exact .keep (ih _ _ (Agree.rfl' _))
  | case25 prev rest ih =>
    intro p' i _; simp only [expandWith, classify]; exact .keep (ih _ _ (Agree.rfl' _))
  | case26 prev rest ih =>
    intro p' i _; simp only [expandWith, classify]; exact .keep (ih _ _ (Agree.rfl' _))
  | case27 prev rest ih =>
    intro p' i _; simp only [expandWith, classify]; exact .keep (ih _ _ (Agree.rfl' _))
  | case28 prev rest ih =>
    intro p' i _; simp only [expandWith, classify]; exact .keep (ih _ _ (Agree.rfl' _))

end XPathV.Lemmas.Abbrev
