import XPathV.Lemmas.Abbrev.Defs
/-!
# Abbreviations mean their expansions — in the grammar `D`, on classified tokens

`D_expand : D ns X ts a → EE b ts ts' → D ns (upNT X) ts' a`: writing out any set of abbreviations of
a derivable token list gives a derivable token list with the *same* tree (not merely the same up to a
normalisation).  `upNT` accounts for the three non-terminals that exist only for abbreviated forms:
what `AbbreviatedStep` derives is, written out, a `Step`, and so on.

The five single-production facts are `step_child`, `step_attribute`, `step_self`, `step_parent`,
`rel_dslash` / `abs_dslash` / `path_dslash`.
-/
namespace XPathV.Lemmas.Abbrev
open XPathV XPathV.Spec.Full

/-- the non-terminal of the written-out form -/
def upNT : NT → NT
  | .AbbreviatedStep inp => .Step inp
  | .AbbreviatedRelativeLocationPath inp => .RelativeLocationPath inp
  | .AbbreviatedAbsoluteLocationPath => .AbsoluteLocationPath
  | X => X

theorem upNT_binary {X Y : NT} {ops} (h : X.binary = some (Y, ops)) : upNT X = X ∧ upNT Y = Y := by
  cases X <;> simp [NT.binary] at h <;> obtain ⟨rfl, _⟩ := h <;> exact ⟨rfl, rfl⟩

theorem binary_tok_plain {X Y : NT} {ops tok op} (h : X.binary = some (Y, ops)) (hm : (tok, op) ∈ ops) :
    plain tok = true := by
  have key : ∀ p ∈ ops, plain p.1 = true := by
    cases X <;> simp [NT.binary] at h <;> obtain ⟨_, rfl⟩ := h <;> decide
  exact key _ hm

theorem typeOfNodeType_node : typeOfNodeType "node" = .all := by decide

/-! ## the single productions -/

/-- `ax::node()` is the step that `.`, `..` and `//` insert -/
theorem step_node (ns : Option NsMap) (inp : Ast) {ax : String} (h : ax ∈ axisNames) :
    D ns (.Step inp) (nodeE ax) (nodeStep ax inp) := by
  have d : D ns (.Step inp) ([.axisName ax] ++ [.nodeType "node", .lparen, .rparen] ++ [])
      (.axis ⟨ax, typeOfNodeType "node", "", "", "node", false, ""⟩ inp) :=
    .step (.named h) (.nodeType (by simp [nodeTypes])) .preds_nil
  rw [typeOfNodeType_node] at d
  simpa [nodeE, nodeStep] using d

/-- `.` = `self::node()` -/
theorem step_self (ns : Option NsMap) (inp : Ast) :
    D ns (.Step inp) [.dot] (nodeStep "self" inp) ∧ D ns (.Step inp) (nodeE "self") (nodeStep "self" inp) :=
  ⟨.step_abbrev .dot, step_node ns inp (by simp [axisNames])⟩

/-- `..` = `parent::node()` -/
theorem step_parent (ns : Option NsMap) (inp : Ast) :
    D ns (.Step inp) [.dotdot] (nodeStep "parent" inp) ∧
      D ns (.Step inp) (nodeE "parent") (nodeStep "parent" inp) :=
  ⟨.step_abbrev .dotdot, step_node ns inp (by simp [axisNames])⟩

/-- no axis specifier = `child::` : a step derived with the empty AbbreviatedAxisSpecifier is derived,
with the same tree, with `child::` in front -/
theorem step_child {ns : Option NsMap} {inp : Ast} {ts₂ ts₃ : List ETok} {info : AxisInfo} {t : Ast}
    (h₂ : NodeTestD ns "child" ts₂ info) (h₃ : D ns (.Predicates (.axis info inp)) ts₃ t) :
    D ns (.Step inp) (ts₂ ++ ts₃) t ∧ D ns (.Step inp) (.axisName "child" :: (ts₂ ++ ts₃)) t :=
  ⟨by simpa using D.step (.abbrev .child) h₂ h₃,
   by simpa using D.step (.named (s := "child") (by simp [axisNames])) h₂ h₃⟩

/-- `@` = `attribute::` -/
theorem step_attribute {ns : Option NsMap} {inp : Ast} {ts₂ ts₃ : List ETok} {info : AxisInfo} {t : Ast}
    (h₂ : NodeTestD ns "attribute" ts₂ info) (h₃ : D ns (.Predicates (.axis info inp)) ts₃ t) :
    D ns (.Step inp) (.at :: (ts₂ ++ ts₃)) t ∧ D ns (.Step inp) (.axisName "attribute" :: (ts₂ ++ ts₃)) t :=
  ⟨by simpa using D.step (.abbrev .attribute) h₂ h₃,
   by simpa using D.step (.named (s := "attribute") (by simp [axisNames])) h₂ h₃⟩

/-- motive of `rel_prepend` -/
def PrepM (ns : Option NsMap) (inp : Ast) (ts₀ : List ETok) : NT → List ETok → Ast → Prop
  | .RelativeLocationPath t₁, ts, t | .AbbreviatedRelativeLocationPath t₁, ts, t =>
    D ns (.RelativeLocationPath inp) ts₀ t₁ → D ns (.RelativeLocationPath inp) (ts₀ ++ [.slash] ++ ts) t
  | _, _, _ => True

theorem prepM_binary {ns inp ts₀} {X Y : NT} {ops ts t} (h : X.binary = some (Y, ops)) :
    PrepM ns inp ts₀ X ts t := by
  cases X <;> simp [NT.binary] at h <;> trivial

theorem rel_prepend_aux {ns : Option NsMap} {inp : Ast} {ts₀ : List ETok} {X : NT} {ts : List ETok}
    {t : Ast} (h : D ns X ts t) : PrepM ns inp ts₀ X ts t := by
  induction h with
  | rel_step d _ => exact fun d₀ => .rel_slash d₀ d
  | rel_slash _ d₂ ih₁ _ =>
    exact fun d₀ => by simpa [List.append_assoc] using D.rel_slash (ih₁ d₀) d₂
  | rel_abbrev _ ih => exact ih
  | abbrevRel _ d₂ ih₁ _ =>
    exact fun d₀ => by simpa [List.append_assoc] using D.rel_abbrev (D.abbrevRel (ih₁ d₀) d₂)
  | up hb _ _ => exact prepM_binary hb
  | bin hb _ _ _ _ _ => exact prepM_binary hb
  | _ => trivial

/-- a relative path over the result of a relative path is a relative path: `(p)/q` re-associated -/
theorem rel_prepend {ns : Option NsMap} {inp t₁ : Ast} {ts₀ ts : List ETok} {t : Ast}
    (d₀ : D ns (.RelativeLocationPath inp) ts₀ t₁) (d : D ns (.RelativeLocationPath t₁) ts t) :
    D ns (.RelativeLocationPath inp) (ts₀ ++ [.slash] ++ ts) t :=
  rel_prepend_aux (inp := inp) (ts₀ := ts₀) d d₀

/-- `/descendant-or-self::node()/ q` over `inp`, when `q` is a relative path over `dos inp` -/
theorem rel_dos {ns : Option NsMap} {inp : Ast} {ts : List ETok} {t : Ast}
    (d : D ns (.RelativeLocationPath (dos inp)) ts t) :
    D ns (.RelativeLocationPath inp) (nodeE "descendant-or-self" ++ [.slash] ++ ts) t :=
  rel_prepend (.rel_step (step_node ns inp (by simp [axisNames]))) d

/-- `p//s` = `p/descendant-or-self::node()/s` -/
theorem rel_dslash {ns : Option NsMap} {inp t₁ t₂ : Ast} {ts₁ ts₂ : List ETok}
    (d₁ : D ns (.RelativeLocationPath inp) ts₁ t₁) (d₂ : D ns (.Step (dos t₁)) ts₂ t₂) :
    D ns (.RelativeLocationPath inp) (ts₁ ++ [.slashslash] ++ ts₂) t₂ ∧
      D ns (.RelativeLocationPath inp) (ts₁ ++ dosE ++ ts₂) t₂ := by
  refine ⟨.rel_abbrev (.abbrevRel d₁ d₂), ?_⟩
  have := D.rel_slash (D.rel_slash d₁ (step_node ns t₁ (ax := "descendant-or-self") (by simp [axisNames]))) d₂
  simpa [dosE, nodeE, List.append_assoc] using this

/-- `//p` = `/descendant-or-self::node()/p` -/
theorem abs_dslash {ns : Option NsMap} {ts : List ETok} {t : Ast}
    (d : D ns (.RelativeLocationPath (dos (.root "/"))) ts t) :
    D ns .AbsoluteLocationPath (.slashslash :: ts) t ∧ D ns .AbsoluteLocationPath (dosE ++ ts) t := by
  refine ⟨.abs_abbrev (.abbrevAbs d), ?_⟩
  have := D.abs_rel (rel_dos d)
  simpa [dosE, nodeE, List.append_assoc] using this

/-- `f//p` = `f/descendant-or-self::node()/p` for a FilterExpr `f` -/
theorem path_dslash {ns : Option NsMap} {ts₁ ts₂ : List ETok} {f t : Ast}
    (d₁ : D ns .FilterExpr ts₁ f) (d₂ : D ns (.RelativeLocationPath (dos f)) ts₂ t) :
    D ns .PathExpr (ts₁ ++ [.slashslash] ++ ts₂) t ∧ D ns .PathExpr (ts₁ ++ dosE ++ ts₂) t := by
  refine ⟨.path_slashslash d₁ d₂, ?_⟩
  have := D.path_slash d₁ (rel_dos d₂)
  simpa [dosE, nodeE, List.append_assoc] using this

/-! ## any set of abbreviations -/

/-- after an axis specifier a NodeTest is left alone; otherwise `child::` may have been put in front -/
theorem nodeTest_inv {ns : Option NsMap} {ax : String} {ts : List ETok} {info : AxisInfo} {b ts'}
    (h : NodeTestD ns ax ts info) (e : EE b ts ts') :
    ts' = ts ∨ (b = false ∧ ts' = .axisName "child" :: ts) := by
  have key : ∀ t r, ts = t :: r → nameTestStart t = true → (∀ c r', EE c r r' → r' = r) →
      ts' = ts ∨ (b = false ∧ ts' = .axisName "child" :: ts) := by
    intro t r hts hn hr
    subst hts
    obtain ⟨r', e', h' | ⟨hb, h'⟩⟩ := EE.nameTest_inv hn e
    · left; rw [h', hr _ _ e']
    · right; exact ⟨hb, by rw [h', hr _ _ e']⟩
  cases h with
  | wild => exact key _ _ rfl rfl (fun _ _ e => e.nil_inv)
  | nsWild _ => exact key _ _ rfl rfl (fun _ _ e => e.nil_inv)
  | qname _ => exact key _ _ rfl rfl (fun _ _ e => e.nil_inv)
  | nodeType _ =>
    refine key _ _ rfl rfl (fun _ _ e => ?_)
    obtain ⟨r₁, rfl, e₁⟩ := EE.cons_plain (t := .lparen) rfl e
    rw [EE.single_plain (t := .rparen) rfl e₁]
  | pi =>
    refine key _ _ rfl rfl (fun _ _ e => ?_)
    obtain ⟨r₁, rfl, e₁⟩ := EE.cons_plain (t := .lparen) rfl e
    obtain ⟨r₂, rfl, e₂⟩ := EE.cons_plain (t := .literal _) rfl e₁
    rw [EE.single_plain (t := .rparen) rfl e₂]

/-- **Abbreviations mean their expansions (grammar, classified tokens).**  If `ts` derives `a` from
`X` and `ts'` is `ts` with any set of its abbreviations written out, then `ts'` derives the same tree
`a` (from `X`, or from the unabbreviated non-terminal if `X` is one of the three `Abbreviated…`). -/
theorem D_expand {ns : Option NsMap} {X : NT} {ts : List ETok} {a : Ast} (h : D ns X ts a) :
    ∀ {b : Bool} {ts' : List ETok}, EE b ts ts' → D ns (upNT X) ts' a := by
  induction h with
  | loc_rel _ ih => intro b ts' e; exact .loc_rel (ih e)
  | loc_abs _ ih => intro b ts' e; exact .loc_abs (ih e)
  | abs_root => intro b ts' e; rw [EE.single_plain (t := .slash) rfl e]; exact .abs_root
  | abs_rel _ ih =>
    intro b ts' e
    obtain ⟨r', rfl, e'⟩ := EE.cons_plain (t := .slash) rfl e
    exact .abs_rel (ih e')
  | abs_abbrev _ ih => intro b ts' e; exact ih e
  | rel_step _ ih => intro b ts' e; exact .rel_step (ih e)
  | rel_slash _ _ ih₁ ih₂ =>
    intro b ts' e
    obtain ⟨ts₁', ts₂', rfl, e₁, e₂⟩ := EE.mid_inv (tok := .slash) rfl e
    exact .rel_slash (ih₁ e₁) (ih₂ e₂)
  | rel_abbrev _ ih => intro b ts' e; exact ih e
  | step h₁ h₂ _ ih =>
    intro b ts' e
    cases h₁ with
    | named hs =>
      obtain ⟨r', rfl, e'⟩ := EE.cons_plain (t := .axisName _) rfl (by simpa using e)
      obtain ⟨ts₂', ts₃', rfl, e₂, e₃⟩ := EE.append_inv e'
      rcases nodeTest_inv h₂ e₂ with rfl | ⟨hb, _⟩
      · simpa [upNT] using D.step (.named hs) h₂ (ih e₃)
      · cases hb
    | «abbrev» hab =>
      cases hab with
      | «attribute» =>
        obtain ⟨r', e', hr⟩ := EE.at_inv (by simpa using e)
        obtain ⟨ts₂', ts₃', rfl, e₂, e₃⟩ := EE.append_inv e'
        rcases nodeTest_inv h₂ e₂ with rfl | ⟨hb, _⟩
        · rcases hr with rfl | rfl
          · exact (step_attribute h₂ (ih e₃)).1
          · exact (step_attribute h₂ (ih e₃)).2
        · cases hb
      | child =>
        obtain ⟨ts₂', ts₃', rfl, e₂, e₃⟩ := EE.append_inv (by simpa using e)
        rcases nodeTest_inv h₂ e₂ with rfl | ⟨_, rfl⟩
        · exact (step_child h₂ (ih e₃)).1
        · exact (step_child h₂ (ih e₃)).2
  | step_abbrev _ ih => intro b ts' e; exact ih e
  | preds_nil => intro b ts' e; rw [e.nil_inv]; exact .preds_nil
  | preds_snoc _ _ ih₁ ih₂ =>
    intro b ts' e
    obtain ⟨ts₁', ts₂', rfl, e₁, e₂⟩ := EE.append_inv e
    exact .preds_snoc (ih₁ e₁) (ih₂ e₂)
  | predicate _ ih =>
    intro b ts' e
    obtain ⟨ts'', rfl, e'⟩ := EE.bracket_inv (l := .lbracket) (r := .rbracket) rfl rfl e
    exact .predicate (ih e')
  | predicateExpr _ ih => intro b ts' e; exact .predicateExpr (ih e)
  | abbrevAbs _ ih =>
    intro b ts' e
    obtain ⟨r', e', rfl | rfl⟩ := EE.slashslash_inv e
    · exact (abs_dslash (ih e')).1
    · exact (abs_dslash (ih e')).2
  | abbrevRel _ _ ih₁ ih₂ =>
    intro b ts' e
    obtain ⟨ts₁', ts₂', e₁, e₂, rfl | rfl⟩ := EE.mid_ss e
    · exact (rel_dslash (ih₁ e₁) (ih₂ e₂)).1
    · exact (rel_dslash (ih₁ e₁) (ih₂ e₂)).2
  | dot =>
    intro b ts' e
    obtain ⟨r', e', rfl | rfl⟩ := EE.dot_inv e <;> rw [e'.nil_inv]
    · exact (step_self ns _).1
    · simpa [upNT] using (step_self ns _).2
  | dotdot =>
    intro b ts' e
    obtain ⟨r', e', rfl | rfl⟩ := EE.dotdot_inv e <;> rw [e'.nil_inv]
    · exact (step_parent ns _).1
    · simpa [upNT] using (step_parent ns _).2
  | expr _ ih => intro b ts' e; exact .expr (ih e)
  | prim_var => intro b ts' e; rw [EE.single_plain (t := .varRef _ _) rfl e]; exact .prim_var
  | prim_group _ ih =>
    intro b ts' e
    obtain ⟨ts'', rfl, e'⟩ := EE.bracket_inv (l := .lparen) (r := .rparen) rfl rfl e
    exact .prim_group (ih e')
  | prim_literal => intro b ts' e; rw [EE.single_plain (t := .literal _) rfl e]; exact .prim_literal
  | prim_number => intro b ts' e; rw [EE.single_plain (t := .number _) rfl e]; exact .prim_number
  | prim_call _ ih => intro b ts' e; exact .prim_call (ih e)
  | call_nil =>
    intro b ts' e
    obtain ⟨r₁, rfl, e₁⟩ := EE.cons_plain (t := .funcName _ _) rfl e
    obtain ⟨r₂, rfl, e₂⟩ := EE.cons_plain (t := .lparen) rfl e₁
    rw [EE.single_plain (t := .rparen) rfl e₂]
    exact .call_nil
  | call_args _ ih =>
    intro b ts' e
    obtain ⟨r₁, rfl, e₁⟩ := EE.cons_plain (t := .funcName _ _) rfl (by simpa using e)
    obtain ⟨ts'', h'', e'⟩ := EE.bracket_inv (l := .lparen) (r := .rparen) rfl rfl (by simpa using e₁)
    subst h''
    simpa [upNT] using D.call_args (ih e')
  | args_one _ ih => intro b ts' e; exact .args_one (ih e)
  | args_cons _ _ ih₁ ih₂ =>
    intro b ts' e
    obtain ⟨ts₁', ts₂', rfl, e₁, e₂⟩ := EE.mid_inv (tok := .comma) rfl e
    exact .args_cons (ih₁ e₁) (ih₂ e₂)
  | argument _ ih => intro b ts' e; exact .argument (ih e)
  | path_loc _ ih => intro b ts' e; exact .path_loc (ih e)
  | path_filter _ ih => intro b ts' e; exact .path_filter (ih e)
  | path_slash _ _ ih₁ ih₂ =>
    intro b ts' e
    obtain ⟨ts₁', ts₂', rfl, e₁, e₂⟩ := EE.mid_inv (tok := .slash) rfl e
    exact .path_slash (ih₁ e₁) (ih₂ e₂)
  | path_slashslash _ _ ih₁ ih₂ =>
    intro b ts' e
    obtain ⟨ts₁', ts₂', e₁, e₂, rfl | rfl⟩ := EE.mid_ss e
    · exact (path_dslash (ih₁ e₁) (ih₂ e₂)).1
    · exact (path_dslash (ih₁ e₁) (ih₂ e₂)).2
  | filter_prim _ ih => intro b ts' e; exact .filter_prim (ih e)
  | filter_pred _ _ ih₁ ih₂ =>
    intro b ts' e
    obtain ⟨ts₁', ts₂', rfl, e₁, e₂⟩ := EE.append_inv e
    exact .filter_pred (ih₁ e₁) (ih₂ e₂)
  | up hb _ ih =>
    intro b ts' e
    obtain ⟨hX, hY⟩ := upNT_binary hb
    rw [hX]
    have d := ih e
    rw [hY] at d
    exact .up hb d
  | bin hb hm _ _ ih₁ ih₂ =>
    intro b ts' e
    obtain ⟨hX, hY⟩ := upNT_binary hb
    obtain ⟨ts₁', ts₂', rfl, e₁, e₂⟩ := EE.mid_inv (binary_tok_plain hb hm) e
    rw [hX]
    have d₁ := ih₁ e₁
    have d₂ := ih₂ e₂
    rw [hX] at d₁
    rw [hY] at d₂
    exact .bin hb hm d₁ d₂
  | unary_union _ ih => intro b ts' e; exact .unary_union (ih e)
  | unary_minus _ ih =>
    intro b ts' e
    obtain ⟨r', rfl, e'⟩ := EE.cons_plain (t := .minus) rfl e
    exact .unary_minus (ih e')
  | unary _ ih => intro b ts' e; exact .unary (ih e)

/-- for a whole expression -/
theorem D_expr_expand {ns : Option NsMap} {ts ts' : List ETok} {a : Ast} {b : Bool}
    (h : D ns .Expr ts a) (e : EE b ts ts') : D ns .Expr ts' a :=
  D_expand h e

end XPathV.Lemmas.Abbrev
