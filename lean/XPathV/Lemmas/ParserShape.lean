import XPathV.Lemmas.SourceConfig
/-!
# C10 for chains of every length: the shape of what `parseChain` returns

`Theorems/C10` has the one-step facts about the tier loop.  Here they are closed under induction:

* `tierLoop_foldl`, `parseChain_tier` — however many operators of one tier follow each other, the
  result is the *left* fold of the operands, and every right operand was produced by the tighter
  stages only;
* `Strat` / `parseChain_strat` — the tree returned for a stage list is stratified: a node built by a
  tier has a left operand of the same stage list and a right operand of the strictly tighter one;
  nothing else occurs except what `parsePathExpr` returns (primary / parenthesised expressions, paths);
* corollaries for the concrete stage list `stages` of `Model/Chain.lean`;
* `parseExpression_chain` — `parseExpression` only adds the depth bookkeeping.
-/
namespace XPathV.Lemmas.ParserShape
open XPathV XPathV.Model

/-! ## helpers -/

theorem bind_ok {α β : Type} {x : Except PErr α} {k : α → Except PErr β} {b : β}
    (h : (x >>= k) = .ok b) : ∃ a, x = .ok a ∧ k a = .ok b := by
  cases x with
  | error e => simp [bind, Except.bind] at h
  | ok a => exact ⟨a, rfl, h⟩

/-- `a` is the result of some successful run of `parsePathExpr` -/
def FromPath (cfg : PCfg) (a : Ast) : Prop :=
  ∃ f st st', parsePathExpr f cfg st = .ok (a, st')

/-! ## 1. the tier loop is a left fold -/

theorem tierLoop_foldl {cfg : PCfg} {ops : List String} {rest : List Stage} :
    ∀ (f : Nat) (acc : Ast) (st : PState) {a : Ast} {st' : PState},
      tierLoop f cfg ops rest acc st = .ok (a, st') →
      ∃ items : List (String × Ast),
        a = items.foldl (fun l (p : String × Ast) => Ast.oper p.1 l p.2) acc ∧
        ∀ p ∈ items, p.1 ∈ ops ∧ ∃ f' st'' st''', parseChain f' cfg rest st'' = .ok (p.2, st''') := by
  intro f
  induction f with
  | zero => intro acc st a st' h; simp [tierLoop] at h
  | succ f ih =>
    intro acc st a st' h
    simp only [tierLoop] at h
    split at h
    · simp only [pure, Except.pure, Except.ok.injEq, Prod.mk.injEq] at h
      exact ⟨[], by simp [h.1], by simp⟩
    · rename_i op hfind
      obtain ⟨st1, h1, h⟩ := bind_ok h
      obtain ⟨⟨r, st2⟩, h2, h⟩ := bind_ok h
      obtain ⟨items, ha, hitems⟩ := ih _ _ h
      refine ⟨(op, r) :: items, by simpa using ha, ?_⟩
      intro p hp
      rcases List.mem_cons.mp hp with rfl | hp
      · exact ⟨List.mem_of_find?_eq_some hfind, f, st1, st2, h2⟩
      · exact hitems p hp

/-! ## 2. one tier stage: first operand from the tighter stages, then a left fold -/

theorem parseChain_tier {cfg : PCfg} {ops : List String} {rest : List Stage} {f : Nat} {st st' : PState} {a : Ast}
    (h : parseChain f cfg (.tier ops :: rest) st = .ok (a, st')) :
    ∃ (first : Ast) (items : List (String × Ast)),
      (∃ f' st1, parseChain f' cfg rest st = .ok (first, st1)) ∧
      a = items.foldl (fun l (p : String × Ast) => Ast.oper p.1 l p.2) first ∧
      ∀ p ∈ items, p.1 ∈ ops ∧ ∃ f' st'' st''', parseChain f' cfg rest st'' = .ok (p.2, st''') := by
  cases f with
  | zero => simp [parseChain] at h
  | succ f =>
    simp only [parseChain] at h
    obtain ⟨⟨first, st1⟩, h1, h⟩ := bind_ok h
    obtain ⟨items, ha, hitems⟩ := tierLoop_foldl _ _ _ h
    exact ⟨first, items, ⟨f, st1, h1⟩, ha, hitems⟩

/-- the unary stage: the operand of the tighter stages, bare (no `-` sign: the current token is not a
minus), wrapped as `x * -1` (odd number of signs) or as `(x * -1) * -1` (even non-zero number of
signs: the current token is a minus) -/
theorem parseChain_unary {cfg : PCfg} {rest : List Stage} {f : Nat} {st st' : PState} {a : Ast}
    (h : parseChain f cfg (.unary :: rest) st = .ok (a, st')) :
    ∃ (x : Ast), (∃ f' st1 st2, parseChain f' cfg rest st1 = .ok (x, st2)) ∧
      ((st.s.typ ≠ .minus ∧ a = x) ∨ a = .oper "*" x (.num "-1") ∨
       (st.s.typ = .minus ∧ a = .oper "*" (.oper "*" x (.num "-1")) (.num "-1"))) := by
  cases f with
  | zero => simp [parseChain] at h
  | succ f =>
    simp only [parseChain] at h
    obtain ⟨⟨minus, st1⟩, h1, h⟩ := bind_ok h
    obtain ⟨⟨x, st2⟩, h2, h⟩ := bind_ok h
    simp only [pure, Except.pure, Except.ok.injEq, Prod.mk.injEq] at h
    refine ⟨x, ⟨f, st1, st2, h2⟩, ?_⟩
    cases minus
    · by_cases hs : st.s.typ = .minus
      · right; right; exact ⟨hs, by simpa [hs] using h.1.symm⟩
      · left; exact ⟨hs, by simpa [hs] using h.1.symm⟩
    · right; left; simpa using h.1.symm

theorem parseChain_nil {cfg : PCfg} {f : Nat} {st st' : PState} {a : Ast}
    (h : parseChain f cfg [] st = .ok (a, st')) : ∃ f' st1 st2, parsePathExpr f' cfg st1 = .ok (a, st2) := by
  cases f with
  | zero => simp [parseChain] at h
  | succ f =>
    simp only [parseChain] at h
    exact ⟨f, st, st', h⟩

/-! ## 3. stratification -/

/-- all operator strings of the tiers of a stage list -/
def stageOps : List Stage → List String
  | [] => []
  | .tier ops :: rest => ops ++ stageOps rest
  | .unary :: rest => stageOps rest

/-- `Strat cfg stages a`: `a` is grouped as the stage list prescribes.  A node made by a tier has its
left operand from the same stage list (left associativity) and its right operand from the strictly
tighter stages; the unary stage wraps as `x * -1` (odd number of `-` signs) or `(x * -1) * -1` (even
non-zero number); below the last stage is whatever `parsePathExpr` returns. -/
inductive Strat (cfg : PCfg) : List Stage → Ast → Prop
  | path {a : Ast} : (∃ f st st', parsePathExpr f cfg st = .ok (a, st')) → Strat cfg [] a
  | tierUp {ops : List String} {rest : List Stage} {a : Ast} :
      Strat cfg rest a → Strat cfg (.tier ops :: rest) a
  | tierOp {ops : List String} {rest : List Stage} {op : String} {l r : Ast} :
      op ∈ ops → Strat cfg (.tier ops :: rest) l → Strat cfg rest r →
      Strat cfg (.tier ops :: rest) (.oper op l r)
  | unaryUp {rest : List Stage} {x : Ast} : Strat cfg rest x → Strat cfg (.unary :: rest) x
  | unaryNeg {rest : List Stage} {x : Ast} :
      Strat cfg rest x → Strat cfg (.unary :: rest) (.oper "*" x (.num "-1"))
  | unaryNeg2 {rest : List Stage} {x : Ast} :
      Strat cfg rest x → Strat cfg (.unary :: rest) (.oper "*" (.oper "*" x (.num "-1")) (.num "-1"))

theorem strat_foldl {cfg : PCfg} {ops : List String} {rest : List Stage} :
    ∀ (items : List (String × Ast)) (acc : Ast), Strat cfg (.tier ops :: rest) acc →
      (∀ p ∈ items, p.1 ∈ ops ∧ Strat cfg rest p.2) →
      Strat cfg (.tier ops :: rest) (items.foldl (fun l (p : String × Ast) => Ast.oper p.1 l p.2) acc) := by
  intro items
  induction items with
  | nil => intro acc h _; simpa using h
  | cons p items ih =>
    intro acc h hitems
    simp only [List.foldl_cons]
    refine ih _ (.tierOp (hitems p (by simp)).1 h (hitems p (by simp)).2) ?_
    intro q hq
    exact hitems q (List.mem_cons_of_mem _ hq)

/-- every successful run of a stage list returns a stratified tree -/
theorem parseChain_strat {cfg : PCfg} : ∀ (stages : List Stage) {f : Nat} {st st' : PState} {a : Ast},
    parseChain f cfg stages st = .ok (a, st') → Strat cfg stages a := by
  intro stages
  induction stages with
  | nil => intro f st st' a h; exact .path (parseChain_nil h)
  | cons s rest ih =>
    intro f st st' a h
    cases s with
    | tier ops =>
      obtain ⟨first, items, ⟨f1, st1, hfirst⟩, ha, hitems⟩ := parseChain_tier h
      subst ha
      refine strat_foldl items first (.tierUp (ih hfirst)) ?_
      intro p hp
      obtain ⟨hop, f2, st2, st3, hr⟩ := hitems p hp
      exact ⟨hop, ih hr⟩
    | unary =>
      obtain ⟨x, ⟨f1, st1, st2, hx⟩, ⟨_, ha⟩ | ha | ⟨_, ha⟩⟩ := parseChain_unary h
      · subst ha; exact .unaryUp (ih hx)
      · subst ha; exact .unaryNeg (ih hx)
      · subst ha; exact .unaryNeg2 (ih hx)

/-! ### reading the stratification: which operator can sit at the top of a tree of a stage list -/

/-- the operator strings a node built by the stages `S` can carry: the operators of its tiers, and
`*` if the unary stage is among them (`-x` is `x * -1`) -/
abbrev Heads (S : List Stage) (op : String) : Prop := op ∈ stageOps S ∨ (op = "*" ∧ Stage.unary ∈ S)

theorem Heads.cons {s : Stage} {S : List Stage} {op : String} (h : Heads S op) : Heads (s :: S) op := by
  rcases h with h | ⟨h1, h2⟩
  · left; cases s <;> simp [stageOps, h]
  · right; exact ⟨h1, List.mem_cons_of_mem _ h2⟩

theorem Heads.of_drop {op : String} : ∀ (S : List Stage) (k : Nat), Heads (S.drop k) op → Heads S op := by
  intro S
  induction S with
  | nil => intro k h; simpa using h
  | cons s S ih =>
    intro k h
    cases k with
    | zero => simpa using h
    | succ k => exact (ih k (by simpa using h)).cons

/-- an operator node of a stratified tree either came from `parsePathExpr` (a parenthesised /
primary sub-expression or a path) or carries an operator of the stage list -/
theorem strat_head {cfg : PCfg} {S : List Stage} {a : Ast} (h : Strat cfg S a) :
    ∀ {op : String} {l r : Ast}, a = .oper op l r → FromPath cfg a ∨ Heads S op := by
  induction h with
  | path hp => intro _ _ _ _; exact .inl hp
  | tierUp _ ih =>
    intro op l r e
    rcases ih e with hp | hh
    · exact .inl hp
    · exact .inr hh.cons
  | tierOp hop _ _ _ _ =>
    intro op' l' r' e
    injection e with e1 _ _
    subst e1
    exact .inr (.inl (by simp [stageOps, hop]))
  | unaryUp _ ih =>
    intro op l r e
    rcases ih e with hp | hh
    · exact .inl hp
    · exact .inr hh.cons
  | unaryNeg _ _ =>
    intro op' l' r' e
    injection e with e1 _ _
    subst e1
    exact .inr (.inr ⟨rfl, by simp⟩)
  | unaryNeg2 _ _ =>
    intro op' l' r' e
    injection e with e1 _ _
    subst e1
    exact .inr (.inr ⟨rfl, by simp⟩)

/-- a stratified operator node whose operator does not belong to the stage list came from
`parsePathExpr`: a looser operator never appears inside a tighter stage unparenthesised -/
theorem strat_foreign_head {cfg : PCfg} {S : List Stage} {op : String} {l r : Ast}
    (h : Strat cfg S (.oper op l r)) (hno : ¬ Heads S op) : FromPath cfg (.oper op l r) := by
  rcases strat_head h rfl with hp | hh
  · exact hp
  · exact absurd hh hno

theorem strat_skip_tier {cfg : PCfg} {ops : List String} {rest : List Stage} {op : String} {l r : Ast}
    (h : Strat cfg (.tier ops :: rest) (.oper op l r)) (hno : op ∉ ops) : Strat cfg rest (.oper op l r) := by
  cases h with
  | tierUp h' => exact h'
  | tierOp hop _ _ => exact absurd hop hno

/-- the node of the tier `ops`: if the operator belongs to no other stage, the left operand is a
tree of the same stages (tier `ops` and tighter), the right operand of the strictly tighter ones -/
theorem strat_node {cfg : PCfg} {ops : List String} {rest : List Stage} {op : String} {l r : Ast} :
    ∀ (pre : List Stage), Strat cfg (pre ++ .tier ops :: rest) (.oper op l r) →
      ¬ Heads pre op → ¬ Heads rest op →
      FromPath cfg (.oper op l r) ∨ (op ∈ ops ∧ Strat cfg (.tier ops :: rest) l ∧ Strat cfg rest r) := by
  intro pre
  induction pre with
  | nil =>
    intro h _ hrest
    simp only [List.nil_append] at h
    cases h with
    | tierUp h' => exact .inl (strat_foreign_head h' hrest)
    | tierOp hop hl hr => exact .inr ⟨hop, hl, hr⟩
  | cons s pre ih =>
    intro h hpre hrest
    simp only [List.cons_append] at h
    have hpre' : ¬ Heads pre op := fun hh => hpre hh.cons
    cases s with
    | tier ops0 =>
      cases h with
      | tierUp h' => exact ih h' hpre' hrest
      | tierOp hop _ _ => exact absurd (.inl (by simp [stageOps, hop])) hpre
    | unary =>
      cases h with
      | unaryUp h' => exact ih h' hpre' hrest
      | unaryNeg _ => exact absurd (.inr ⟨rfl, by simp⟩) hpre
      | unaryNeg2 _ => exact absurd (.inr ⟨rfl, by simp⟩) hpre

/-! ### the concrete stage list of `Model/Chain.lean` -/

theorem stages_eq : stages =
    [.tier ["or"], .tier ["and"], .tier ["=", "!="], .tier ["<", ">", "<=", ">="], .tier ["+", "-"],
     .tier ["*", "div", "mod"], .unary, .tier ["|"]] := by decide

/-- what the parser's expression entry returns is stratified along the XPath 1.0 tiers -/
theorem parseChain_stages_strat {cfg : PCfg} {f : Nat} {st st' : PState} {a : Ast}
    (h : parseChain f cfg stages st = .ok (a, st')) :
    Strat cfg ((Spec.Grammar.upperTiers.map Stage.tier) ++ [Stage.unary] ++ (Spec.Grammar.lowerTiers.map Stage.tier)) a := by
  rw [← Lemmas.SourceConfig.stages_are_xpath_tiers]
  exact parseChain_strat stages h

/-- all binary operator spellings, loosest tier first -/
def allOps : List String := ["or", "and", "=", "!=", "<", ">", "<=", ">=", "+", "-", "*", "div", "mod", "|"]

theorem stageOps_stages : stageOps stages = allOps := by decide

/-- index of the tier of a binary operator in `stages` (0 = `or` … 5 = `* div mod`, 7 = `|`) -/
def tierRank (op : String) : Nat :=
  stages.findIdx (fun s => match s with | .tier ops => ops.contains op | .unary => false)

theorem rank_table : ∀ op' ∈ allOps, ∀ k ∈ [0, 1, 2, 3, 4, 5, 7, 8],
    Heads (stages.drop k) op' → k ≤ tierRank op' := by decide

theorem rank_of_heads {op' : String} {k : Nat} (hk : k ∈ [0, 1, 2, 3, 4, 5, 7, 8])
    (h : Heads (stages.drop k) op') : k ≤ tierRank op' := by
  have hmem : op' ∈ allOps := by
    rcases Heads.of_drop stages k h with h1 | ⟨h1, _⟩
    · rw [← stageOps_stages]; exact h1
    · subst h1; decide
  exact rank_table op' hmem k hk h

/-- where the tier of each operator sits: `stages = pre ++ .tier ops :: rest` with the operator in
no other stage -/
theorem tier_split : ∀ op ∈ allOps, op ≠ "*" →
    ∃ pre ops rest, stages = pre ++ .tier ops :: rest ∧ ¬ Heads pre op ∧ ¬ Heads rest op ∧
      stages.drop (tierRank op) = .tier ops :: rest ∧ stages.drop (tierRank op + 1) = rest ∧
      tierRank op ∈ [0, 1, 2, 3, 4, 5, 7] := by
  intro op hop hne
  simp only [allOps, List.mem_cons, List.not_mem_nil, or_false] at hop
  rcases hop with rfl | rfl | rfl | rfl | rfl | rfl | rfl | rfl | rfl | rfl | rfl | rfl | rfl | rfl
  · exact ⟨stages.take 0, ["or"], stages.drop 1, by decide, by decide, by decide, by decide, by decide, by decide⟩
  · exact ⟨stages.take 1, ["and"], stages.drop 2, by decide, by decide, by decide, by decide, by decide, by decide⟩
  · exact ⟨stages.take 2, ["=", "!="], stages.drop 3, by decide, by decide, by decide, by decide, by decide, by decide⟩
  · exact ⟨stages.take 2, ["=", "!="], stages.drop 3, by decide, by decide, by decide, by decide, by decide, by decide⟩
  · exact ⟨stages.take 3, ["<", ">", "<=", ">="], stages.drop 4, by decide, by decide, by decide, by decide, by decide, by decide⟩
  · exact ⟨stages.take 3, ["<", ">", "<=", ">="], stages.drop 4, by decide, by decide, by decide, by decide, by decide, by decide⟩
  · exact ⟨stages.take 3, ["<", ">", "<=", ">="], stages.drop 4, by decide, by decide, by decide, by decide, by decide, by decide⟩
  · exact ⟨stages.take 3, ["<", ">", "<=", ">="], stages.drop 4, by decide, by decide, by decide, by decide, by decide, by decide⟩
  · exact ⟨stages.take 4, ["+", "-"], stages.drop 5, by decide, by decide, by decide, by decide, by decide, by decide⟩
  · exact ⟨stages.take 4, ["+", "-"], stages.drop 5, by decide, by decide, by decide, by decide, by decide, by decide⟩
  · exact absurd rfl hne
  · exact ⟨stages.take 5, ["*", "div", "mod"], stages.drop 6, by decide, by decide, by decide, by decide, by decide, by decide⟩
  · exact ⟨stages.take 5, ["*", "div", "mod"], stages.drop 6, by decide, by decide, by decide, by decide, by decide, by decide⟩
  · exact ⟨stages.take 7, ["|"], stages.drop 8, by decide, by decide, by decide, by decide, by decide, by decide⟩

/-- a node of a binary operator other than `*`, not from a parenthesised/primary sub-expression:
its left operand is grouped by the stages from the operator's own tier on (left associativity, tighter
tiers bind first), its right operand by the strictly tighter stages -/
theorem binary_node {cfg : PCfg} {op : String} {l r : Ast}
    (h : Strat cfg stages (.oper op l r)) (hnp : ¬ FromPath cfg (.oper op l r)) (hne : op ≠ "*") :
    op ∈ allOps ∧ tierRank op ∈ [0, 1, 2, 3, 4, 5, 7] ∧
    Strat cfg (stages.drop (tierRank op)) l ∧ Strat cfg (stages.drop (tierRank op + 1)) r := by
  have hop : op ∈ allOps := by
    rcases strat_head h rfl with hp | h1 | ⟨h1, _⟩
    · exact absurd hp hnp
    · rw [← stageOps_stages]; exact h1
    · exact absurd h1 hne
  obtain ⟨pre, ops, rest, hs, hpre, hrest, hd1, hd2, hk⟩ := tier_split op hop hne
  rw [hs] at h
  rcases strat_node pre h hpre hrest with hp | ⟨_, hl, hr⟩
  · exact absurd hp hnp
  · rw [← hs] at h
    exact ⟨hop, hk, by rw [hd1]; exact hl, by rw [hd2]; exact hr⟩

/-- a `*` node not from a parenthesised/primary sub-expression is either a multiplication (operands
as for the other binary operators) or the encoding of unary minus: `x * -1` (odd number of signs) or
`(x * -1) * -1` (even non-zero number), whose operand `x` is a union expression -/
theorem star_node {cfg : PCfg} {l r : Ast}
    (h : Strat cfg stages (.oper "*" l r)) (hnp : ¬ FromPath cfg (.oper "*" l r)) :
    (Strat cfg (stages.drop 5) l ∧ Strat cfg (stages.drop 6) r) ∨
    (r = .num "-1" ∧ (Strat cfg (stages.drop 7) l ∨
      ∃ x, l = .oper "*" x (.num "-1") ∧ Strat cfg (stages.drop 7) x)) := by
  rw [stages_eq] at h
  have h := strat_skip_tier h (by decide)
  have h := strat_skip_tier h (by decide)
  have h := strat_skip_tier h (by decide)
  have h := strat_skip_tier h (by decide)
  have h := strat_skip_tier h (by decide)
  have e5 : stages.drop 5 = [.tier ["*", "div", "mod"], .unary, .tier ["|"]] := by decide
  have e6 : stages.drop 6 = [.unary, .tier ["|"]] := by decide
  have e7 : stages.drop 7 = [.tier ["|"]] := by decide
  rw [e5, e6, e7]
  cases h with
  | tierOp _ hl hr => exact .inl ⟨hl, hr⟩
  | tierUp h =>
    cases h with
    | unaryNeg hx => exact .inr ⟨rfl, .inl hx⟩
    | unaryNeg2 hx => exact .inr ⟨rfl, .inr ⟨_, rfl, hx⟩⟩
    | unaryUp h =>
      have h := strat_skip_tier h (by decide)
      cases h with
      | path hp => exact absurd hp hnp

/-- head operator of a right operand: of a strictly tighter tier, or the unary-minus encoding -/
theorem rank_of_strat {cfg : PCfg} {k : Nat} {op' : String} {x y : Ast} (hk : k ∈ [0, 1, 2, 3, 4, 5, 6, 7, 8])
    (h : Strat cfg (stages.drop k) (.oper op' x y)) (hnp : ¬ FromPath cfg (.oper op' x y)) :
    k ≤ tierRank op' ∨ (k = 6 ∧ op' = "*" ∧ y = .num "-1") := by
  by_cases h6 : k = 6
  · subst h6
    have e6 : stages.drop 6 = [.unary, .tier ["|"]] := by decide
    rw [e6] at h
    cases h with
    | unaryNeg _ => exact .inr ⟨rfl, rfl, rfl⟩
    | unaryNeg2 _ => exact .inr ⟨rfl, rfl, rfl⟩
    | unaryUp h =>
      left
      rcases strat_head h rfl with hp | hh
      · exact absurd hp hnp
      · have : 7 ≤ tierRank op' := rank_of_heads (k := 7) (by decide) hh
        omega
  · left
    rcases strat_head h rfl with hp | hh
    · exact absurd hp hnp
    · refine rank_of_heads ?_ hh
      simp only [List.mem_cons, List.not_mem_nil, or_false] at hk ⊢
      omega

/-- **C10 for chains of every length.**  In the tree `parseChain … stages` returns, an operator
node that is not itself a parenthesised/primary sub-expression never has a looser operator as the
head of an unparenthesised operand: the left operand's operator is of the same or a tighter tier
(left associativity), the right operand's of a strictly tighter tier (or is the `x * -1` encoding
of a unary minus).  E.g. `or` is never an operand of `and`, `and` never of `=`, `+` never of `*`,
and `a - b - c` is `(a - b) - c`. -/
theorem operands_not_looser {cfg : PCfg} {op : String} {l r : Ast}
    (h : Strat cfg stages (.oper op l r)) (hnp : ¬ FromPath cfg (.oper op l r)) :
    (∀ op' x y, l = .oper op' x y → ¬ FromPath cfg l → tierRank op ≤ tierRank op') ∧
    (∀ op' x y, r = .oper op' x y → ¬ FromPath cfg r →
        tierRank op < tierRank op' ∨ (op' = "*" ∧ y = .num "-1" ∧ tierRank op ≤ 5)) := by
  have key : ∃ k1 k2, tierRank op ≤ k1 ∧ tierRank op + 1 ≤ k2 ∧ k1 ∈ [0, 1, 2, 3, 4, 5, 7] ∧
      (r = .num "-1" ∨ (k2 ∈ [0, 1, 2, 3, 4, 5, 6, 7, 8] ∧ Strat cfg (stages.drop k2) r)) ∧
      Strat cfg (stages.drop k1) l := by
    by_cases hst : op = "*"
    · subst hst
      have hr : tierRank "*" = 5 := by decide
      rcases star_node h hnp with ⟨hl, hr'⟩ | ⟨hr', hl | ⟨x, hlx, hx⟩⟩
      · exact ⟨5, 6, by omega, by omega, by decide, .inr ⟨by decide, hr'⟩, hl⟩
      · exact ⟨7, 6, by omega, by omega, by decide, .inl hr', hl⟩
      · -- `(x * -1) * -1`: the left operand is itself the unary encoding, a tree of the stages from 5 on
        have e5 : stages.drop 5 = [.tier ["*", "div", "mod"], .unary, .tier ["|"]] := by decide
        have e7 : stages.drop 7 = [.tier ["|"]] := by decide
        refine ⟨5, 6, by omega, by omega, by decide, .inl hr', ?_⟩
        rw [hlx, e5]; rw [e7] at hx
        exact .tierUp (.unaryNeg hx)
    · obtain ⟨_, hk, hl, hr⟩ := binary_node h hnp hst
      refine ⟨tierRank op, tierRank op + 1, Nat.le_refl _, Nat.le_refl _, hk, .inr ⟨?_, hr⟩, hl⟩
      simp only [List.mem_cons, List.not_mem_nil, or_false] at hk ⊢
      omega
  obtain ⟨k1, k2, hk1, hk2, hm1, hr, hl⟩ := key
  constructor
  · intro op' x y e hnl
    subst e
    rcases strat_head hl rfl with hp | hh
    · exact absurd hp hnl
    · have : k1 ≤ tierRank op' := rank_of_heads (by
        simp only [List.mem_cons, List.not_mem_nil, or_false] at hm1 ⊢; omega) hh
      omega
  · intro op' x y e hnr
    subst e
    rcases hr with hr | ⟨hm2, hr⟩
    · cases hr
    · rcases rank_of_strat hm2 hr hnr with h1 | h1
      · left; omega
      · exact .inr ⟨h1.2.1, h1.2.2, by omega⟩

/-- instances named in the property: an unparenthesised `or` is never an operand of `and` -/
theorem or_not_operand_of_and {cfg : PCfg} {l r : Ast}
    (h : Strat cfg stages (.oper "and" l r)) (hnp : ¬ FromPath cfg (.oper "and" l r)) :
    (∀ x y, l = .oper "or" x y → FromPath cfg l) ∧ (∀ x y, r = .oper "or" x y → FromPath cfg r) ∧
    (∀ x y, r = .oper "and" x y → FromPath cfg r) := by
  obtain ⟨hl, hr⟩ := operands_not_looser h hnp
  refine ⟨?_, ?_, ?_⟩
  · intro x y e
    refine Classical.byContradiction fun hn => ?_
    exact absurd (hl _ _ _ e hn) (by decide)
  · intro x y e
    refine Classical.byContradiction fun hn => ?_
    rcases hr _ _ _ e hn with h1 | ⟨h1, _⟩
    · exact absurd h1 (by decide)
    · exact absurd h1 (by decide)
  · intro x y e
    refine Classical.byContradiction fun hn => ?_
    rcases hr _ _ _ e hn with h1 | ⟨h1, _⟩
    · exact absurd h1 (by decide)
    · exact absurd h1 (by decide)

/-- … `and` never of `=`/`!=`, additive operators never of multiplicative ones, etc.: stated once for
any two operators by their tier ranks -/
theorem looser_not_operand {cfg : PCfg} {op op' : String} {l r x y : Ast}
    (h : Strat cfg stages (.oper op l r)) (hnp : ¬ FromPath cfg (.oper op l r))
    (hlt : tierRank op' < tierRank op) :
    (l = .oper op' x y → FromPath cfg l) ∧ (r = .oper op' x y → FromPath cfg r) := by
  obtain ⟨hl, hr⟩ := operands_not_looser h hnp
  constructor
  · intro e
    refine Classical.byContradiction fun hn => ?_
    have := hl _ _ _ e hn
    omega
  · intro e
    refine Classical.byContradiction fun hn => ?_
    rcases hr _ _ _ e hn with h1 | ⟨h1, _, _⟩
    · omega
    · subst h1
      have : tierRank "*" = 5 := by decide
      omega

/-- left associativity for chains of any length: the right operand of an operator node is never an
unparenthesised node of the same operator (`a - b - c` is never `a - (b - c)`); the one exception is
the encoding of `a * -b` -/
theorem right_operand_not_same_op {cfg : PCfg} {op : String} {l x y : Ast}
    (h : Strat cfg stages (.oper op l (.oper op x y))) (hnp : ¬ FromPath cfg (.oper op l (.oper op x y))) :
    FromPath cfg (.oper op x y) ∨ (op = "*" ∧ y = .num "-1") := by
  refine Classical.byContradiction fun hn => ?_
  have hn1 : ¬ FromPath cfg (.oper op x y) := fun hp => hn (.inl hp)
  rcases (operands_not_looser h hnp).2 _ _ _ rfl hn1 with h1 | ⟨h1, h2, _⟩
  · omega
  · exact hn (.inr ⟨h1, h2⟩)

/-! ## 4. `parseExpression` only adds the depth bookkeeping -/

theorem parseExpression_chain {cfg : PCfg} {f : Nat} {st st' : PState} {a : Ast}
    (h : parseExpression (f+1) cfg st = .ok (a, st')) :
    ∃ st'', parseChain f cfg cfg.chain { st with d := st.d + 1 } = .ok (a, st'') ∧
      st' = { st'' with d := st''.d - 1 } ∧ st.d + 1 ≤ cfg.depthLimit := by
  simp only [parseExpression] at h
  split at h
  · simp at h
  · rename_i hd
    obtain ⟨⟨a1, st1⟩, h1, h⟩ := bind_ok h
    simp only [pure, Except.pure, Except.ok.injEq, Prod.mk.injEq] at h
    refine ⟨st1, ?_, h.2.symm, by omega⟩
    rw [h1, h.1]

/-- end to end: what `parseExpression` returns with the default configuration is stratified along
the XPath 1.0 tiers, so all the corollaries above apply to it -/
theorem parseExpression_strat {ns : Option (List (String × String))} {f : Nat} {st st' : PState} {a : Ast}
    (h : parseExpression f (defaultCfg ns) st = .ok (a, st')) : Strat (defaultCfg ns) stages a := by
  cases f with
  | zero => simp [parseExpression] at h
  | succ f =>
    obtain ⟨st'', h1, _, _⟩ := parseExpression_chain h
    exact parseChain_strat stages h1

#print axioms tierLoop_foldl
#print axioms parseChain_tier
#print axioms parseChain_unary
#print axioms parseChain_strat
#print axioms parseChain_stages_strat
#print axioms strat_head
#print axioms strat_node
#print axioms binary_node
#print axioms star_node
#print axioms operands_not_looser
#print axioms or_not_operand_of_and
#print axioms looser_not_operand
#print axioms right_operand_not_same_op
#print axioms parseExpression_chain
#print axioms parseExpression_strat

end XPathV.Lemmas.ParserShape
