import XPathV.Generated.ExtraFacts
import XPathV.Model.Api
import XPathV.Lemmas.Facts
/-!
# C07 — comparison and boolean operators follow XPath 1.0 (existential on node-sets)
-/
namespace XPathV.Theorems.C07
open XPathV XPathV.Model XPathV.Facts NumAlg

variable {F : Type} [NumAlg F]

/-- number vs number -/
theorem cell_numNum (d : Doc) (op : Spec.CmpOp) (a b : F) :
    cmpM d op (.num a) (.num b) = .ok (Spec.compare d op (.num a) (.num b)) := by
  cases op <;> simp [cmpM, xtypeOf, Spec.compare, Spec.cmpAtom, Spec.CmpOp.isRel, Spec.toNum, Spec.cmpNum, bind, Except.bind, pure, Except.pure]

/-- node-set vs number: true iff some node's number value satisfies the comparison; a
non-numeric string-value is NaN; the outcome is never a crash, whatever the document holds -/
theorem cell_setNum (d : Doc) (op : Spec.CmpOp) (l : List Ref) (b : F) :
    cmpM d op (.nodes l) (.num b) = .ok (Spec.compare d op (.nodes l) (.num b)) := by
  simp [cmpM, xtypeOf, Spec.compare, goParseFloat, bind, Except.bind, pure, Except.pure]

theorem cell_numSet (d : Doc) (op : Spec.CmpOp) (a : F) (l : List Ref) :
    cmpM d op (.num a) (.nodes l) = .ok (Spec.compare d op (.num a) (.nodes l)) := by
  simp [cmpM, xtypeOf, Spec.compare, goParseFloat, bind, Except.bind, pure, Except.pure]

/-! ### the cells with a string or two node-sets, all six operators

After the repair of `cmpStringStringF` (the four relational operators compare
`stringToNumber(a)` with `stringToNumber(b)` — they used to compare the strings byte-wise), of
`cmpNodeSetString` (operands handed over in order — they used to be `(literal, node value)`) and
of `cmpStringNumeric` (operands in order — they used to be `(number, string-as-number)`) every cell
below is XPath's comparison for **all six** operators.  The `_eq` / `_ne` theorems further down are
the former statements (restricted to `=` / `!=` only because of the old lexical/swapped behaviour),
kept as corollaries. -/

/-- string vs string, all six operators: `=`/`!=` on the strings, the relational operators on their
numbers -/
theorem cell_strStr (d : Doc) (op : Spec.CmpOp) (a b : String) :
    cmpM (F := F) d op (.str a) (.str b) = .ok (Spec.compare (F := F) d op (.str a) (.str b)) := by
  cases op <;> simp [cmpM, xtypeOf, Spec.compare, Spec.cmpAtom, Spec.CmpOp.isRel, Spec.toStr,
    Spec.toNum, cmpStrF, goParseFloat, bind, Except.bind, pure, Except.pure, bne]

/-- string vs number, all six operators: the string is converted with `number()`, the operands stay
on their sides -/
theorem cell_strNum (d : Doc) (op : Spec.CmpOp) (s : String) (b : F) :
    cmpM d op (.str s) (.num b) = .ok (Spec.compare d op (.str s) (.num b)) := by
  cases op <;> simp [cmpM, xtypeOf, Spec.compare, Spec.cmpAtom, Spec.CmpOp.isRel, Spec.toNum,
    Spec.cmpNum, goParseFloat, bind, Except.bind, pure, Except.pure]

/-- number vs string, all six operators -/
theorem cell_numStr (d : Doc) (op : Spec.CmpOp) (a : F) (s : String) :
    cmpM d op (.num a) (.str s) = .ok (Spec.compare d op (.num a) (.str s)) := by
  cases op <;> simp [cmpM, xtypeOf, Spec.compare, Spec.cmpAtom, Spec.CmpOp.isRel, Spec.toNum,
    Spec.cmpNum, goParseFloat, bind, Except.bind, pure, Except.pure]

/-- node-set vs string, all six operators: true iff some node's string-value (for the relational
operators: its number) compares with the string (its number), the node on the left -/
theorem cell_setStr (d : Doc) (op : Spec.CmpOp) (l : List Ref) (s : String) :
    cmpM (F := F) d op (.nodes l) (.str s) = .ok (Spec.compare (F := F) d op (.nodes l) (.str s)) := by
  cases op <;> simp [cmpM, xtypeOf, Spec.compare, Spec.cmpAtom, Spec.CmpOp.isRel, Spec.toStr,
    Spec.toNum, cmpStrF, goParseFloat, bind, Except.bind, pure, Except.pure, bne]

/-- string vs node-set, all six operators -/
theorem cell_strSet (d : Doc) (op : Spec.CmpOp) (s : String) (l : List Ref) :
    cmpM (F := F) d op (.str s) (.nodes l) = .ok (Spec.compare (F := F) d op (.str s) (.nodes l)) := by
  cases op <;> simp [cmpM, xtypeOf, Spec.compare, Spec.cmpAtom, Spec.CmpOp.isRel, Spec.toStr,
    Spec.toNum, cmpStrF, goParseFloat, bind, Except.bind, pure, Except.pure, bne]

/-- node-set vs node-set, all six operators: some pair of nodes whose string-values (`=`, `!=`) /
whose numbers (`<`, `<=`, `>`, `>=`) compare -/
theorem cell_setSet (d : Doc) (op : Spec.CmpOp) (la lb : List Ref) :
    cmpM (F := F) d op (.nodes la) (.nodes lb) = .ok (Spec.compare (F := F) d op (.nodes la) (.nodes lb)) := by
  cases op <;> simp [cmpM, xtypeOf, Spec.compare, Spec.CmpOp.isRel, cmpStrF, goParseFloat, bind,
    Except.bind, pure, Except.pure]

/-- string vs string, `=` (corollary of `cell_strStr`) -/
theorem cell_strStr_eq (d : Doc) (a b : String) :
    cmpM (F := F) d .eq (.str a) (.str b) = .ok (Spec.compare (F := F) d .eq (.str a) (.str b)) :=
  cell_strStr d .eq a b

theorem cell_strStr_ne (d : Doc) (a b : String) :
    cmpM (F := F) d .ne (.str a) (.str b) = .ok (Spec.compare (F := F) d .ne (.str a) (.str b)) :=
  cell_strStr d .ne a b

/-- node-set vs node-set, `=` : some pair of nodes has equal string-values (corollary of
`cell_setSet`) -/
theorem cell_setSet_eq (d : Doc) (la lb : List Ref) :
    cmpM (F := F) d .eq (.nodes la) (.nodes lb) = .ok (Spec.compare (F := F) d .eq (.nodes la) (.nodes lb)) :=
  cell_setSet d .eq la lb

theorem cell_setSet_ne (d : Doc) (la lb : List Ref) :
    cmpM (F := F) d .ne (.nodes la) (.nodes lb) = .ok (Spec.compare (F := F) d .ne (.nodes la) (.nodes lb)) :=
  cell_setSet d .ne la lb

/-- truth conversion: NaN and zero are false (the pinned `asBool` made NaN true) -/
theorem asBool_spec (v : Spec.Value F) :
    asBoolM (F := F) (match v with | .nodes l => .nodes l | .bool b => .bool b | .num x => .num x | .str s => .str s)
      = .ok (Spec.toBool v) := by
  cases v <;> simp [asBoolM, Spec.toBool]

end XPathV.Theorems.C07
