import XPathV.Generated.ExtraFacts
import XPathV.Model.Api
import XPathV.Lemmas.Facts
/-!
# C07 — comparison and boolean operators follow XPath 1.0 (existential on node-sets)
-/
namespace XPathV.Theorems.C07
open XPathV XPathV.Model XPathV.Facts NumAlg

variable {F : Type} [NumAlg F]

/-- number vs number -/
theorem cell_numNum (d : Doc) (op : Spec.CmpOp) (a b : F) :
    cmpM d op (.num a) (.num b) = .ok (Spec.compare d op (.num a) (.num b)) := by
  cases op <;> simp [cmpM, xtypeOf, Spec.compare, Spec.cmpAtom, Spec.CmpOp.isRel, Spec.toNum, Spec.cmpNum, bind, Except.bind, pure, Except.pure]

/-- node-set vs number: true iff some node's number value satisfies the comparison; a
non-numeric string-value is NaN; the outcome is never a crash, whatever the document holds -/
theorem cell_setNum (d : Doc) (op : Spec.CmpOp) (l : List Ref) (b : F) :
    cmpM d op (.nodes l) (.num b) = .ok (Spec.compare d op (.nodes l) (.num b)) := by
  simp [cmpM, xtypeOf, Spec.compare, goParseFloat, bind, Except.bind, pure, Except.pure]

theorem cell_numSet (d : Doc) (op : Spec.CmpOp) (a : F) (l : List Ref) :
    cmpM d op (.num a) (.nodes l) = .ok (Spec.compare d op (.num a) (.nodes l)) := by
  simp [cmpM, xtypeOf, Spec.compare, goParseFloat, bind, Except.bind, pure, Except.pure]

/-- string vs string, `=` and `!=` -/
theorem cell_strStr_eq (d : Doc) (a b : String) :
    cmpM (F := F) d .eq (.str a) (.str b) = .ok (Spec.compare (F := F) d .eq (.str a) (.str b)) := by
  simp [cmpM, xtypeOf, Spec.compare, Spec.cmpAtom, Spec.CmpOp.isRel, Spec.toStr, cmpStrF, bind, Except.bind, pure, Except.pure]

theorem cell_strStr_ne (d : Doc) (a b : String) :
    cmpM (F := F) d .ne (.str a) (.str b) = .ok (Spec.compare (F := F) d .ne (.str a) (.str b)) := by
  simp [cmpM, xtypeOf, Spec.compare, Spec.cmpAtom, Spec.CmpOp.isRel, Spec.toStr, cmpStrF, bind, Except.bind, pure, Except.pure, bne]

/-- node-set vs node-set, `=` : some pair of nodes has equal string-values -/
theorem cell_setSet_eq (d : Doc) (la lb : List Ref) :
    cmpM (F := F) d .eq (.nodes la) (.nodes lb) = .ok (Spec.compare (F := F) d .eq (.nodes la) (.nodes lb)) := by
  simp [cmpM, xtypeOf, Spec.compare, Spec.CmpOp.isRel, cmpStrF, bind, Except.bind, pure, Except.pure]

theorem cell_setSet_ne (d : Doc) (la lb : List Ref) :
    cmpM (F := F) d .ne (.nodes la) (.nodes lb) = .ok (Spec.compare (F := F) d .ne (.nodes la) (.nodes lb)) := by
  simp [cmpM, xtypeOf, Spec.compare, Spec.CmpOp.isRel, cmpStrF, bind, Except.bind, pure, Except.pure]

/-- truth conversion: NaN and zero are false (the pinned `asBool` made NaN true) -/
theorem asBool_spec (v : Spec.Value F) :
    asBoolM (F := F) (match v with | .nodes l => .nodes l | .bool b => .bool b | .num x => .num x | .str s => .str s)
      = .ok (Spec.toBool v) := by
  cases v <;> simp [asBoolM, Spec.toBool]

end XPathV.Theorems.C07
