import XPathV.Lemmas.ApiSem2
import XPathV.Lemmas.UnionSem2
/-!
# C11 at the public API: a text that parses into `A | B`, operands in `Frag2 true`

`ApiSem2.C02_compile_total2` takes a text of the fragment `Frag2` through `compile`, `selectAll` and
`evaluate`.  Here the same for a text that parses into `.oper "|" A B` with `Frag2 true A`,
`Frag2 true B` (plan-level: `UnionSem2.C11_main2` / `C11_evalTop2`).

A union plan is not `PathShape` (that predicate lists steps, filters and merges only), but neither
`selectAll` nor `evaluate` needs it: `selectAll` is `sel`, and `evalP` on `.union l r` takes its
default arm (`sel` then `.nodes`), after which `evaluate` drains `selectAll`
(`evalP_union`, `evaluate_of_sel_union`).  So both entry points are covered.

* `build_union_q`, `build_union_ne_nil` — the plan of `A | B` is `.union _ _`, never the nil query
* `compile_of_union` — `compile` returns the builder's plan
* `C11_compile`, `C11_compile_source`, `C11_compile_total`
-/
namespace XPathV.ApiSem
open XPathV XPathV.Model XPathV.PathSem XPathV.PredSem XPathV.PredSem2 XPathV.UnionSem
  XPathV.UnionSem2

variable {F : Type} [NumAlg F]

/-- the plan `build` makes of `A | B` is a union plan -/
theorem build_union_q (regexOk : RegexOk) (limit : Nat) (snt sdf : Bool) (A B : Ast) (fl : Flags)
    (st : BState) (o : BOut) (h : build regexOk limit snt sdf (.oper "|" A B) fl st = .ok o) :
    ∃ l r, o.q = .union l r := by
  obtain ⟨_, lo, ro, _, _, hq, _⟩ := build_union_inv regexOk limit snt sdf A B fl st o h
  exact ⟨lo.q, ro.q, hq⟩

/-- … in particular not the nil query -/
theorem build_union_ne_nil (regexOk : RegexOk) (limit : Nat) (snt sdf : Bool) (A B : Ast) (fl : Flags)
    (st : BState) (o : BOut) (h : build regexOk limit snt sdf (.oper "|" A B) fl st = .ok o) :
    o.q ≠ .nil := by
  obtain ⟨l, r, hq⟩ := build_union_q regexOk limit snt sdf A B fl st o h
  rw [hq]; intro h'; cases h'

/-- `evalP` on a union plan takes the default arm: the selected sequence as a node-set value -/
theorem evalP_union (d : Doc) (cfg : ECfg) (l r : Plan) (c : Ref) (out : List Item)
    (h : sel (F := F) d cfg (.union l r) c = .ok out) :
    evalP (F := F) d cfg (.union l r) c = .ok (.nodes (nodesVal d cfg out)) := by
  simp only [evalP, h, bind, Except.bind, nodesVal, refs]

/-- `evaluate` on a union plan: the drained iterator -/
theorem evaluate_of_sel_union (d : Doc) (cfg : ECfg) (l r : Plan) (c : Ref) (out : List Item)
    (h : sel (F := F) d cfg (.union l r) c = .ok out) :
    evaluate (F := F) d cfg (.union l r) c = .ok (.nodes (refs out)) := by
  simp only [evaluate, evalP_union d cfg l r c out h, selectAll_of_sel d cfg _ c out h, bind,
    Except.bind, pure, Except.pure]

/-- **`compile` on a text that parses into a union**: whenever the builder succeeds, `compile`
returns the builder's plan -/
theorem compile_of_union (cc : CompileCfg) (ns : Option (List (String × String))) (text : List Char)
    (A B : Ast) (o : BOut)
    (hparse : parse (fuelFor text) (defaultCfg ns) text = .ok (.oper "|" A B))
    (hb : build cc.regexOk apiLimit cc.shortcutNeedsNodeTest cc.smartDescThroughFilter
      (.oper "|" A B) {} {} = .ok o) :
    compile cc ns text = .ok o.q :=
  compile_of_build cc ns text (text_ne_nil_of_parse ns text _ hparse) _ o hparse hb
    (build_union_ne_nil _ _ _ _ A B _ _ o hb)

/-- **C11 against `compile` / `selectAll` / `evaluate`**: for a text the parser turns into `A | B`
with operands in `Frag2 true`, every plan `compile` returns (under a configuration with the `//name`
shortcut guarded and no smartDesc through filters) selects, from every valid context node of every
well-formed document, a sequence without repetition whose members are exactly those of the node-set
the oracle assigns to `A | B` (itself without repetition, and the union of the operands' node-sets);
`evaluate` returns the same list -/
theorem C11_compile {d : Doc} (wf : WF d) (cfg : ECfg) (hns : cfg.nsIface = true)
    (hinj : HashInj d cfg) (cc : CompileCfg) (hsnt : cc.shortcutNeedsNodeTest = true)
    (hsdf : cc.smartDescThroughFilter = false) (ns : Option (List (String × String)))
    (text : List Char) (A B : Ast)
    (hparse : parse (fuelFor text) (defaultCfg ns) text = .ok (.oper "|" A B))
    (hA : Frag2 true A) (hB : Frag2 true B) (p : Plan) (hcomp : compile cc ns text = .ok p)
    (c : Ref) (hc : validRef d c = true) :
    ∃ l nsl, selectAll (F := F) d cfg p c = .ok l ∧ evaluate (F := F) d cfg p c = .ok (.nodes l) ∧
      l.Nodup ∧ Spec.evalTop (F := F) d (.oper "|" A B) c = .ok (.nodes nsl) ∧ nsl.Nodup ∧
      (∀ x, x ∈ l ↔ x ∈ nsl) ∧
      (∀ x, x ∈ nsl ↔ x ∈ nodesAt d F A c ∨ x ∈ nodesAt d F B c) := by
  obtain ⟨_, a', o, hp', hb, hq, _⟩ := compile_inv cc ns text p hcomp
  rw [hparse] at hp'; cases hp'
  obtain ⟨l, r, hu⟩ := build_union_q _ _ _ _ A B _ _ o hb
  rw [hsnt, hsdf] at hb
  rw [← hq]
  obtain ⟨out, nsU, h1, h2, h3, h4, h5, h6⟩ :=
    C11_evalTop2 (F := F) wf cfg hns hinj cc.regexOk apiLimit A B hA hB {} o hb c hc
  refine ⟨refs out, nsU, selectAll_of_sel d cfg o.q c out h1, ?_, h2, h3, h4, ?_, h6⟩
  · rw [hu] at h1 ⊢
    exact evaluate_of_sel_union d cfg l r c out h1
  · intro x; rw [h5 x, h6 x]

/-- **C11 against `compile` at the source configuration** (`CompileCfg`'s default switches are the
ones read off the current source); any regexp oracle -/
theorem C11_compile_source {d : Doc} (wf : WF d) (cfg : ECfg) (hns : cfg.nsIface = true)
    (hinj : HashInj d cfg) (regexOk : RegexOk) (ns : Option (List (String × String)))
    (text : List Char) (A B : Ast)
    (hparse : parse (fuelFor text) (defaultCfg ns) text = .ok (.oper "|" A B))
    (hA : Frag2 true A) (hB : Frag2 true B) (p : Plan)
    (hcomp : compile { regexOk := regexOk } ns text = .ok p)
    (c : Ref) (hc : validRef d c = true) :
    ∃ l nsl, selectAll (F := F) d cfg p c = .ok l ∧ evaluate (F := F) d cfg p c = .ok (.nodes l) ∧
      l.Nodup ∧ Spec.evalTop (F := F) d (.oper "|" A B) c = .ok (.nodes nsl) ∧ nsl.Nodup ∧
      (∀ x, x ∈ l ↔ x ∈ nsl) ∧
      (∀ x, x ∈ nsl ↔ x ∈ nodesAt d F A c ∨ x ∈ nodesAt d F B c) :=
  C11_compile wf cfg hns hinj { regexOk := regexOk } (srcCfg_snt regexOk) (srcCfg_sdf regexOk)
    ns text A B hparse hA hB p hcomp c hc

/-- **the whole pipeline on a text that parses into `A | B`** (operands in `Frag2 true`): `compile`
(source configuration) either reports a *builder* error (never "empty", a parse error, lack of fuel
or the nil query), or returns a union plan on which `selectAll` and `evaluate` agree with the oracle
at every valid context node of every well-formed document, each node exactly once -/
theorem C11_compile_total (regexOk : RegexOk) (ns : Option (List (String × String)))
    (text : List Char) (A B : Ast)
    (hparse : parse (fuelFor text) (defaultCfg ns) text = .ok (.oper "|" A B))
    (hA : Frag2 true A) (hB : Frag2 true B) :
    (∃ e, compile { regexOk := regexOk } ns text = .error (.build e)) ∨
    (∃ p, compile { regexOk := regexOk } ns text = .ok p ∧ (∃ l r, p = .union l r) ∧
      ∀ (F : Type) [NumAlg F] (d : Doc), WF d → ∀ cfg : ECfg, cfg.nsIface = true → HashInj d cfg →
        ∀ c, validRef d c = true →
          ∃ l nsl, selectAll (F := F) d cfg p c = .ok l ∧ evaluate (F := F) d cfg p c = .ok (.nodes l) ∧
            l.Nodup ∧ Spec.evalTop (F := F) d (.oper "|" A B) c = .ok (.nodes nsl) ∧ nsl.Nodup ∧
            (∀ x, x ∈ l ↔ x ∈ nsl) ∧
            (∀ x, x ∈ nsl ↔ x ∈ nodesAt d F A c ∨ x ∈ nodesAt d F B c)) := by
  let cc : CompileCfg := { regexOk := regexOk }
  cases hb : build cc.regexOk apiLimit cc.shortcutNeedsNodeTest cc.smartDescThroughFilter
      (.oper "|" A B) {} {} with
  | error e => exact .inl ⟨e, compile_of_build_error cc ns text _ e hparse hb⟩
  | ok o =>
    have hcomp := compile_of_union cc ns text A B o hparse hb
    refine .inr ⟨o.q, hcomp, build_union_q _ _ _ _ A B _ _ o hb, ?_⟩
    intro F _ d wf cfg hns hinj c hc
    exact C11_compile (F := F) wf cfg hns hinj cc (srcCfg_snt regexOk) (srcCfg_sdf regexOk) ns text
      A B hparse hA hB o.q hcomp c hc

end XPathV.ApiSem

/-! ## Axiom audit -/
section AxiomAudit
open XPathV.ApiSem
end AxiomAudit
