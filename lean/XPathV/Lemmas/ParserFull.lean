import XPathV.Lemmas.ParserFull.Sim
/-!
# C10 — every expression of the full XPath 1.0 grammar is parsed by the model, with the grammar's tree

`Spec/FullGrammar.lean` is the whole XPath 1.0 expression grammar (`D`, `Parses`) with the executable
reference parser `refParseFull` (sound for the grammar: `refParseFull_sound`).  The model parser is
more lenient than the grammar, so the provable direction is completeness of the model with respect to
the reference parser:

  `full_complete : tokVsRel text toks → refParseFull ns toks = some b → nesting b < 200 →
     ∃ a, parse (fuelFor text) (defaultCfg ns) text = .ok a ∧ normConv a = normConv b`

(`nesting b`, `ParserFull/Depth.lean`: the number of Expr levels nested through predicates,
parentheses and function arguments below the top one; 200 is the model's depth limit.  `full_complete'`
states the hypothesis as "`parse` does not stop with `.tooComplex`"; `full_reject_only_deep`: the model
rejects an expression of the reference parser only with `.tooComplex`, and only when `200 ≤ nesting b`.)

The proof is a simulation (`ParserFull/Sim.lean`, `Simu`): one lemma per function of the reference
parser (`pTier pTierLoop pUnary pUnion pUnionLoop pPath pRel pRelLoop pStep pPreds pFilter pPrimary
pArgs`, with `pAxisSpec`/`pNodeTest` in `ParserFull/NodeTest.lean`), by induction on the reference
parser's fuel, for every amount of model fuel; the model call either runs out of fuel, or exceeds the
depth limit (only if `depthLimit < st.d + nesting b`), or returns a tree equal to the reference tree up
to `normConv` in a scanner state whose classified token stream is what the reference parser left, with
the depth counter restored.  `ParserFuel.parse_fuel_enough_default` removes the first alternative for
`fuelFor`; the hypothesis on `nesting b` removes the second.
-/
namespace XPathV.Lemmas.ParserFull
open XPathV XPathV.Model XPathV.Bridge XPathV.Spec.Full

theorem defaultCfg_chain (ns : Option NsMap) : (defaultCfg ns).chain = stagesOf upperTiers :=
  stagesOf_upper.symm

/-- the simulation for the configuration the library uses -/
theorem simu_default (ns : Option NsMap) (rf : Nat) : Simu (defaultCfg ns) ns rf :=
  simu_all rfl (defaultCfg_chain ns) rf

/-- the expression level: from a scanner state whose classified stream is `ets`, if the reference
parser reads an Expr `b` and leaves `rest` (something that can follow an operand), then
`parseExpression` — unless it runs out of fuel, or stops at the depth limit, which it does only if
`depthLimit < st.d + nesting b + 1` — returns `b` up to `normConv`, leaves the scanner at `rest` and
the depth counter where it was -/
theorem parseExpression_complete {ns : Option NsMap} {rf : Nat} {ets rest : List ETok} {b : Ast} {st : PState}
    {prev : Option ETok} (hes : ES prev st.s ets) (h : pTier ns rf upperTiers ets = some (b, rest))
    (hf : follow rest = true) (f : Nat) :
    Sim (parseExpression f (defaultCfg ns) st) b (Post rest) st.d (defaultCfg ns).depthLimit (nesting b + 1) :=
  expr_sim (defaultCfg_chain ns) (simu_default ns rf) h hf ⟨prev, hes⟩ f

/-- the depth limit of the configuration the library uses (regenerated from `parse.go`) -/
theorem depthLimit_default (ns : Option NsMap) : (defaultCfg ns).depthLimit = 200 := rfl

/-- the common form: `parse` returns the reference tree up to `normConv`, or stops at the depth limit
and then the tree nests at least as deep as the limit -/
theorem full_complete_or_deep {ns : Option NsMap} {text : List Char} {toks : List TokV} {b : Ast}
    (htoks : tokVsRel text toks) (href : refParseFull ns toks = some b) :
    (parse (fuelFor text) (defaultCfg ns) text = .error .tooComplex ∧ 200 ≤ nesting b) ∨
    ∃ a, parse (fuelFor text) (defaultCfg ns) text = .ok a ∧ normConv a = normConv b := by
  obtain ⟨s, hs, hes⟩ := htoks.es
  have hfuel := ParserFuel.parse_fuel_enough_default ns text
  unfold refParseFull at href
  simp only at href
  split at href
  · rename_i b' hp
    cases href
    have hsim := parseExpression_complete (st := { s := s, d := 0 }) hes hp rfl (fuelFor text)
    unfold parse at hfuel ⊢
    simp only [hs] at hfuel ⊢
    rcases hsim with e | ⟨e, hl⟩ | ⟨a, st', e, ha, ⟨p, hes', _⟩, _⟩
    · rw [e] at hfuel; exact absurd rfl hfuel
    · left
      rw [e]
      rw [depthLimit_default] at hl
      exact ⟨rfl, by simp only at hl; omega⟩
    · right
      have heof := hes'.nil_inv
      refine ⟨a, ?_, ha⟩
      rw [e]
      simp [bind, Except.bind, heof, pure, Except.pure]
  · cases href

/-- **Completeness of the model parser for the full grammar's reference parser.**  If the scanner's
token stream of `text` is `toks` and the reference parser of the full XPath 1.0 grammar accepts `toks`
with a tree `b` whose predicates / parentheses / function arguments nest fewer than 200 deep (the
model's depth limit, counting the top level), then the model parser accepts `text` with a tree that
equals `b` up to the four representation conventions of `normConv`. -/
theorem full_complete {ns : Option NsMap} {text : List Char} {toks : List TokV} {b : Ast}
    (htoks : tokVsRel text toks) (href : refParseFull ns toks = some b) (hdepth : nesting b < 200) :
    ∃ a, parse (fuelFor text) (defaultCfg ns) text = .ok a ∧ normConv a = normConv b := by
  rcases full_complete_or_deep htoks href with ⟨_, h⟩ | h
  · omega
  · exact h

/-- the same, with the depth hypothesis stated on the model's run: it does not stop with `.tooComplex` -/
theorem full_complete' {ns : Option NsMap} {text : List Char} {toks : List TokV} {b : Ast}
    (htoks : tokVsRel text toks) (href : refParseFull ns toks = some b)
    (hdeep : parse (fuelFor text) (defaultCfg ns) text ≠ .error .tooComplex) :
    ∃ a, parse (fuelFor text) (defaultCfg ns) text = .ok a ∧ normConv a = normConv b := by
  rcases full_complete_or_deep htoks href with ⟨h, _⟩ | h
  · exact absurd h hdeep
  · exact h

/-- the same with the driver's function `tokVs` -/
theorem full_complete_tokVs {ns : Option NsMap} {text : List Char} {toks : List TokV} {b : Ast}
    (htoks : tokVs text = some toks) (href : refParseFull ns toks = some b) (hdepth : nesting b < 200) :
    ∃ a, parse (fuelFor text) (defaultCfg ns) text = .ok a ∧ normConv a = normConv b :=
  full_complete (tokVs_sound htoks) href hdepth

/-- with soundness of the reference parser: the tree the model returns is, up to `normConv`, a tree
the XPath 1.0 grammar derives for the token stream -/
theorem full_complete_parses {ns : Option NsMap} {text : List Char} {toks : List TokV} {b : Ast}
    (htoks : tokVsRel text toks) (href : refParseFull ns toks = some b) (hdepth : nesting b < 200) :
    ∃ a, parse (fuelFor text) (defaultCfg ns) text = .ok a ∧ normConv a = normConv b ∧ Parses ns toks b := by
  obtain ⟨a, h1, h2⟩ := full_complete htoks href hdepth
  exact ⟨a, h1, h2, refParseFull_sound href⟩

/-- the model never rejects an expression of the reference parser for another reason than depth: if it
fails, the error is `.tooComplex` and the tree nests 200 deep or more -/
theorem full_reject_only_deep {ns : Option NsMap} {text : List Char} {toks : List TokV} {b : Ast} {e : PErr}
    (htoks : tokVsRel text toks) (href : refParseFull ns toks = some b)
    (herr : parse (fuelFor text) (defaultCfg ns) text = .error e) : e = .tooComplex ∧ 200 ≤ nesting b := by
  rcases full_complete_or_deep htoks href with ⟨h, hd⟩ | ⟨a, h, _⟩
  · rw [h] at herr; cases herr; exact ⟨rfl, hd⟩
  · rw [h] at herr; cases herr

/-- the statement of the property, for `Theorems/C10` -/
def FullCompleteStatement : Prop :=
  ∀ (ns : Option NsMap) (text : List Char) (toks : List TokV) (b : Ast),
    tokVsRel text toks → refParseFull ns toks = some b → nesting b < 200 →
    ∃ a, parse (fuelFor text) (defaultCfg ns) text = .ok a ∧ normConv a = normConv b

theorem full_complete_statement : FullCompleteStatement :=
  fun _ _ _ _ htoks href hdepth => full_complete htoks href hdepth

/-! ## The hypotheses are satisfiable; the converse direction is false

(kernel evaluation of the scanner model, `tokVs` and `refParseFull`; no `native_decide`) -/
section Examples

/-- model tree and reference tree of a text, when both parsers accept it -/
def bothTrees (ns : Option NsMap) (t : String) : Option (Ast × Ast) :=
  match parse (fuelFor t.toList) (defaultCfg ns) t.toList, (tokVs t.toList).bind (refParseFull ns) with
  | .ok a, some b => some (a, b)
  | _, _ => none

example : ((tokVs "a/b[1]".toList).bind (refParseFull none)).isSome = true := by decide +kernel
example : ((tokVs "//a[@k='x'] | f(1, $v)/..".toList).bind (refParseFull none)).isSome = true := by
  decide +kernel
example : ((tokVs "-(a and b)[2]".toList).bind (refParseFull none)).map nesting = some 1 := by decide +kernel
-- the two trees differ before `normConv` (`//` keeps its spelling in the root node, `node()` its name):
example : (bothTrees none "//node()").map (fun p => (p.1 == p.2, normConv p.1 == normConv p.2))
    = some (false, true) := by decide +kernel

-- the model is more lenient than the grammar: predicates on `.`, the sequence form, unknown axis names
example : (parse 100 (defaultCfg none) ".[1]".toList).isOk = true ∧
    (tokVs ".[1]".toList).bind (refParseFull none) = none := by decide +kernel
example : (parse 100 (defaultCfg none) "a/(b, c)".toList).isOk = true ∧
    (tokVs "a/(b, c)".toList).bind (refParseFull none) = none := by decide +kernel
example : (parse 100 (defaultCfg none) "foo::a".toList).isOk = true ∧
    (tokVs "foo::a".toList).bind (refParseFull none) = none := by decide +kernel

end Examples

end XPathV.Lemmas.ParserFull

