import XPathV.Model.Scanner
/-!
# Scanner progress: every non-EOF token consumes at least one character
-/
namespace XPathV.Lemmas.ScanProgress
open XPathV XPathV.Model

/-- characters not yet consumed, given the look-ahead character and the rest -/
def remCR (c : Char) (r : List Char) : Nat := r.length + (if c = '\x00' then 0 else 1)

/-- characters not yet consumed (the look-ahead `curr` counts unless it is the end marker) -/
def remaining (s : Scan) : Nat := remCR s.curr s.rest

theorem remCR_le (c : Char) (r : List Char) : remCR c r ≤ r.length + 1 := by
  unfold remCR; split <;> omega
theorem le_remCR (c : Char) (r : List Char) : r.length ≤ remCR c r := by
  unfold remCR; omega
theorem remCR_ne (c : Char) (r : List Char) (h : c ≠ '\x00') : remCR c r = r.length + 1 := by
  unfold remCR; simp [h]
@[simp] theorem remCR_zero (r : List Char) : remCR '\x00' r = r.length := by
  unfold remCR; simp

theorem skipSpaceAux_le : ∀ (r : List Char) (c c' : Char) (r' : List Char),
    skipSpaceAux c r = (c', r') → remCR c' r' ≤ remCR c r
  | [], c, c', r', h => by
    unfold skipSpaceAux at h; split at h <;> (cases h; simp [remCR])
  | x :: xs, c, c', r', h => by
    unfold skipSpaceAux at h; split at h
    · have := skipSpaceAux_le xs x c' r' h
      have h1 := remCR_le x xs
      have h2 := le_remCR c (x :: xs)
      simp only [List.length_cons] at h2
      omega
    · cases h; exact Nat.le_refl _

theorem takeRun_le (p : Char → Bool) : ∀ (r : List Char) (c : Char) (run : List Char) (c' : Char) (r' : List Char),
    takeRun p c r = (run, c', r') → remCR c' r' ≤ remCR c r
  | [], c, run, c', r', h => by
    unfold takeRun at h; split at h <;> (cases h; simp [remCR])
  | x :: xs, c, run, c', r', h => by
    unfold takeRun at h; split at h
    · generalize hq : takeRun p x xs = q at h
      obtain ⟨run1, c1, r1⟩ := q
      cases h
      have := takeRun_le p xs x _ _ _ hq
      have h1 := remCR_le x xs
      have h2 := le_remCR c (x :: xs)
      simp only [List.length_cons] at h2
      omega
    · cases h; exact Nat.le_refl _

theorem takeRun_lt (p : Char → Bool) (r : List Char) (c : Char) (hp : p c = true) (hc : c ≠ '\x00')
    (run : List Char) (c' : Char) (r' : List Char) (h : takeRun p c r = (run, c', r')) :
    remCR c' r' < remCR c r := by
  cases r with
  | nil => unfold takeRun at h; simp only [hp, ↓reduceIte] at h; cases h; simp [remCR, hc]
  | cons x xs =>
    unfold takeRun at h; simp only [hp, ↓reduceIte] at h
    generalize hq : takeRun p x xs = q at h
    obtain ⟨run1, c1, r1⟩ := q
    cases h
    have := takeRun_le p xs x _ _ _ hq
    have h1 := remCR_le x xs
    rw [remCR_ne c _ hc]
    simp only [List.length_cons]
    omega

theorem skipSpace_le (s : Scan) : remaining s.skipSpace ≤ remaining s := by
  simp only [Scan.skipSpace, remaining]; exact skipSpaceAux_le _ _ _ _ rfl

@[simp] theorem skipSpace_typ (s : Scan) : s.skipSpace.typ = s.typ := rfl

theorem nextChar_le (s : Scan) : remaining s.nextChar.1 ≤ remaining s := by
  unfold Scan.nextChar remaining; split <;> rename_i h <;> simp only [h]
  · simp
  · have h1 := remCR_le ‹Char› ‹List Char›
    have h2 := le_remCR s.curr (‹Char› :: ‹List Char›)
    simp only [List.length_cons] at h2
    omega

theorem nextChar_lt (s : Scan) (hc : s.curr ≠ '\x00') : remaining s.nextChar.1 < remaining s := by
  unfold Scan.nextChar remaining; split <;> rename_i h <;> simp only [h]
  · simp [remCR, hc]
  · have h1 := remCR_le ‹Char› ‹List Char›
    rw [remCR_ne s.curr _ hc]
    simp only [List.length_cons]
    omega

@[simp] theorem nextChar_typ (s : Scan) : s.nextChar.1.typ = s.typ := by
  unfold Scan.nextChar; split <;> rfl

theorem scanName_le (s : Scan) : remaining s.scanName.2 ≤ remaining s := by
  simp only [Scan.scanName, remaining]; exact takeRun_le _ _ _ _ _ _ rfl

theorem scanName_lt (s : Scan) (h : isName s.curr = true) (hc : s.curr ≠ '\x00') :
    remaining s.scanName.2 < remaining s := by
  simp only [Scan.scanName, remaining]; exact takeRun_lt _ _ _ h hc _ _ _ rfl

@[simp] theorem scanName_typ (s : Scan) : s.scanName.2.typ = s.typ := rfl


def Prog (s s' : Scan) : Prop :=
  (s'.typ = .eof ∧ remaining s' ≤ remaining s) ∨ (s'.typ ≠ .eof ∧ remaining s' < remaining s)

theorem Prog.mono {s0 s s' : Scan} (h : remaining s ≤ remaining s0) (hp : Prog s s') : Prog s0 s' := by
  rcases hp with ⟨a, b⟩ | ⟨a, b⟩
  · exact Or.inl ⟨a, Nat.le_trans b h⟩
  · exact Or.inr ⟨a, Nat.lt_of_lt_of_le b h⟩

theorem prog_of_lt {s s' : Scan} (ht : s'.typ ≠ .eof) (h : remaining s' < remaining s) : Prog s s' :=
  Or.inr ⟨ht, h⟩

set_option hygiene false in
macro "ifcase " t:term : tactic =>
  `(tactic| (by_cases hx : $t
             · rw [if_pos hx] at h; exact hsingle _ (by decide) _ h
             rw [if_neg hx] at h; clear hx))

theorem scanStringAux_lt (q : Char) : ∀ (r : List Char) (str rest : List Char),
    scanStringAux q r = some (str, rest) → rest.length < r.length
  | [], _, _, h => by simp [scanStringAux] at h
  | x :: xs, str, rest, h => by
    unfold scanStringAux at h
    split at h
    · cases h; simp
    · split at h
      · rename_i s1 r1 hq
        cases h
        have := scanStringAux_lt q xs _ _ hq
        simp only [List.length_cons]; omega
      · cases h

theorem scanName_eq_le (x : Scan) (nm : String) (y : Scan) (h : x.scanName = (nm, y)) :
    y.typ = x.typ ∧ remaining y ≤ remaining x := by
  have h1 := scanName_le x
  have h2 := scanName_typ x
  rw [h] at h1 h2
  exact ⟨h2, h1⟩

macro "rem_le" : tactic =>
  `(tactic| repeat (first
      | exact Nat.le_refl _
      | refine Nat.le_trans (nextChar_le _) ?_
      | refine Nat.le_trans (skipSpace_le _) ?_))

theorem nextItem_prog (s0 s' : Scan) (h : s0.nextItem = .ok s') : Prog s0 s' := by
  refine Prog.mono (skipSpace_le s0) ?_
  unfold Scan.nextItem at h
  generalize s0.skipSpace = s at h
  extract_lets s_ adv single two c s1 fin at h
  by_cases h0 : (c == '\x00') = true
  · rw [if_pos h0] at h
    cases h
    exact Or.inl ⟨rfl, Nat.le_refl _⟩
  rw [if_neg h0] at h
  have hc : s.curr ≠ '\x00' := by simpa [c] using h0
  have hadv : ∀ t, remaining (adv { s with typ := t }) < remaining s := fun t =>
    nextChar_lt { s with typ := t } hc
  have hsingle : ∀ t, t ≠ .eof → ∀ s', single t = .ok s' → Prog s s' := by
    intro t ht s' h
    cases h
    exact prog_of_lt (by simpa [adv] using ht) (hadv t)
  have htwo : ∀ t1 t2 c2, t1 ≠ .eof → t2 ≠ .eof → ∀ s', two t1 t2 c2 = .ok s' → Prog s s' := by
    intro t1 t2 c2 ht1 ht2 s' h
    simp only [two] at h
    split at h
    · cases h
      refine prog_of_lt (by simpa [adv] using ht2) (Nat.lt_of_le_of_lt (nextChar_le _) ?_)
      exact hadv t1
    · cases h
      exact prog_of_lt (by simpa [adv] using ht1) (hadv t1)
  ifcase (c == ',') = true
  ifcase (c == '@') = true
  ifcase (c == '(') = true
  ifcase (c == ')') = true
  ifcase (c == '|') = true
  ifcase (c == '*') = true
  ifcase (c == '[') = true
  ifcase (c == ']') = true
  ifcase (c == '+') = true
  ifcase (c == '-') = true
  ifcase (c == '=') = true
  ifcase (c == '$') = true
  by_cases hx : (c == '#') = true
  · rw [if_pos hx] at h; cases h
  rw [if_neg hx] at h; clear hx
  by_cases hx : (c == '<') = true
  · rw [if_pos hx] at h; exact htwo _ _ _ (by decide) (by decide) _ h
  rw [if_neg hx] at h; clear hx
  by_cases hx : (c == '>') = true
  · rw [if_pos hx] at h; exact htwo _ _ _ (by decide) (by decide) _ h
  rw [if_neg hx] at h; clear hx
  by_cases hx : (c == '!') = true
  · rw [if_pos hx] at h; exact htwo _ _ _ (by decide) (by decide) _ h
  rw [if_neg hx] at h; clear hx
  by_cases hx : (c == '/') = true
  · rw [if_pos hx] at h; exact htwo _ _ _ (by decide) (by decide) _ h
  rw [if_neg hx] at h; clear hx
  clear hsingle htwo
  have hs1 : remaining s1 < remaining s := hadv _
  have hs1t : s1.typ = .dot := by simp [s1, adv]
  by_cases hx : (c == '.') = true
  · rw [if_pos hx] at h
    clear_value s1
    split at h
    · cases h
      exact prog_of_lt (by simp [adv]) (Nat.lt_of_le_of_lt (nextChar_le _) hs1)
    split at h
    · generalize hq : takeRun isDigit s1.curr s1.rest = q at h
      obtain ⟨run, c', r'⟩ := q
      simp only [] at h
      split at h
      · cases h
        refine prog_of_lt (by simp) (Nat.lt_of_le_of_lt ?_ hs1)
        exact takeRun_le _ _ _ _ _ _ hq
      · cases h
    · cases h
      exact prog_of_lt (by simp [hs1t]) hs1
  rw [if_neg hx] at h; clear hx
  clear hs1 hs1t
  clear_value s1
  clear s1
  by_cases hx : (c == '\"' || c == '\'') = true
  · rw [if_pos hx] at h
    split at h
    · cases h
    · rename_i str rest hq
      cases h
      have hlt : rest.length < s.rest.length := scanStringAux_lt _ _ _ _ hq
      refine prog_of_lt (by simp [adv]) (Nat.lt_of_le_of_lt (nextChar_le _) ?_)
      show remCR s.curr rest < remCR s.curr s.rest
      rw [remCR_ne _ _ hc, remCR_ne _ _ hc]
      omega
  rw [if_neg hx] at h; clear hx
  by_cases hx : isDigit c = true
  · rw [if_pos hx] at h
    generalize hq : takeRun isDigit c s_.rest = q at h
    obtain ⟨ip, c1, r1⟩ := q
    have h1 : remCR c1 r1 < remaining s := takeRun_lt _ _ _ hx hc _ _ _ hq
    simp only [] at h
    generalize hq2 : (if (c1 == '.') = true then
        match r1 with
        | [] => (['.'], '\x00', [])
        | x :: xs => match takeRun isDigit x xs with
          | (run, c', r') => ('.' :: run, c', r')
      else ([], c1, r1)) = q2 at h
    obtain ⟨fp, c2, r2⟩ := q2
    have h2 : remCR c2 r2 ≤ remCR c1 r1 := by
      split at hq2
      · split at hq2
        · cases hq2; simp
        · rename_i x xs
          generalize hq3 : takeRun isDigit x xs = q3 at hq2
          obtain ⟨run, c', r'⟩ := q3
          cases hq2
          have := takeRun_le _ _ _ _ _ _ hq3
          have := remCR_le x xs
          have := le_remCR c1 (x :: xs)
          simp only [List.length_cons] at this
          omega
      · cases hq2; exact Nat.le_refl _
    simp only [] at h
    split at h
    · cases h
      exact prog_of_lt (by simp) (Nat.lt_of_le_of_lt h2 h1)
    · cases h
  rw [if_neg hx] at h; clear hx
  by_cases hx : isName c = true
  · rw [if_pos hx] at h
    have hfin : ∀ x s', fin x = .ok s' → s'.typ = x.typ ∧ remaining s' ≤ remaining x := by
      intro x s' h
      cases h
      exact ⟨rfl, skipSpace_le x⟩
    clear_value fin
    generalize hq : s_.scanName = q at h
    obtain ⟨nm, s1⟩ := q
    have h1 : remaining s1 < remaining s := by
      have := scanName_lt s hx hc
      rw [show s.scanName = (nm, s1) from hq] at this; exact this
    clear hq
    simp only [] at h
    split at h
    · split at h
      · obtain ⟨ht, hr⟩ := hfin _ _ h
        refine prog_of_lt (by rw [ht]; simp [adv]) (Nat.lt_of_le_of_lt hr (Nat.lt_of_le_of_lt ?_ h1))
        rem_le
      · split at h
        · obtain ⟨ht, hr⟩ := hfin _ _ h
          refine prog_of_lt (by rw [ht]; simp [adv]) (Nat.lt_of_le_of_lt hr (Nat.lt_of_le_of_lt ?_ h1))
          rem_le
        · split at h
          · generalize hq : Scan.scanName _ = q at h
            obtain ⟨nm2, s3⟩ := q
            simp only [] at h
            obtain ⟨ht, hr⟩ := hfin _ _ h
            obtain ⟨h3t, h3⟩ := scanName_eq_le _ _ _ hq
            refine prog_of_lt (by rw [ht]; simp [adv, h3t]) (Nat.lt_of_le_of_lt hr (Nat.lt_of_le_of_lt ?_ h1))
            refine Nat.le_trans (Nat.le_trans (Nat.le_refl _) h3) ?_
            rem_le
          · cases h
    · split at h
      · split at h
        · obtain ⟨ht, hr⟩ := hfin _ _ h
          refine prog_of_lt (by rw [ht]; simp [adv]) (Nat.lt_of_le_of_lt hr (Nat.lt_of_le_of_lt ?_ h1))
          rem_le
        · cases h
      · obtain ⟨ht, hr⟩ := hfin _ _ h
        refine prog_of_lt (by rw [ht]; simp) (Nat.lt_of_le_of_lt hr (Nat.lt_of_le_of_lt ?_ h1))
        rem_le
  rw [if_neg hx] at h; clear hx
  cases h

end XPathV.Lemmas.ScanProgress
