import XPathV.Lemmas.PathSem.Build
/-!
# C16 — a constant pattern of `matches()` that does not compile is rejected by the builder

`build.go: processFunction, case "matches"` tests a constant second argument with `getRegexp` before it builds the
function query.  The regexp compiler is the parameter `regexOk` of the builder model.
-/
namespace XPathV.Lemmas.RegexPrecheck
open XPathV XPathV.Model XPathV.PathSem

/-- whatever the first argument, the flags, the depth and the builder configuration: `matches(x, 'p')` with a
string-literal pattern that the regexp compiler rejects is never built -/
theorem matches_bad_constant_rejected (rx : RegexOk) (lim : Nat) (a b : Bool) (pfx : String) (x : Ast) (p : String)
    (fl : Flags) (st : BState) (hbad : rx p = false) (o : BOut) :
    build rx lim a b (.call "matches" pfx (.acons x (.acons (.str p) .anil))) fl st ≠ .ok o := by
  intro h
  have hA : fnArity "matches" = some (2, some 2, false) := rfl
  have hU : fnUsed "matches" 2 = 2 := rfl
  rw [build] at h
  have h := enter_ok _ _ _ _ h
  simp only [Ast.argList, List.length_cons, List.length_nil, Nat.zero_add, Nat.reduceAdd, hA, hU] at h
  simp only [(by decide : ¬ (2 < 2)), (by decide : decide (2 > 2) = false), ↓reduceIte,
    Bool.false_eq_true] at h
  obtain ⟨ao, hao, h⟩ := except_bind_ok _ _ _ h
  -- the argument list: `x`, then the literal
  rw [build] at hao
  simp only [(by decide : ((2 : Nat) == 0) = false), Bool.false_eq_true, ↓reduceIte] at hao
  obtain ⟨ho, _, hao⟩ := except_bind_ok _ _ _ hao
  obtain ⟨to, hto, hao⟩ := except_bind_ok _ _ _ hao
  rw [build] at hto
  simp only [(by decide : ((2 - 1 : Nat) == 0) = false), Bool.false_eq_true, ↓reduceIte] at hto
  obtain ⟨so, hso, hto⟩ := except_bind_ok _ _ _ hto
  obtain ⟨no, hno, hto⟩ := except_bind_ok _ _ _ hto
  rw [build] at hso
  have hso := enter_ok _ _ _ _ hso
  cases hso
  cases hto
  cases hao
  simp only [Plan.argList, List.getD_cons_succ, List.getD_cons_zero, hbad, Bool.false_eq_true, ↓reduceIte,
    (by decide : ("matches" == "matches") = true)] at h
  cases h

/-- … and one the compiler accepts passes the precheck: the statement is not vacuous -/
example : ∃ o, build (fun _ => true) 1024 true false (.call "matches" "" (.acons (.str "a") (.acons (.str "a") .anil))) {} ⟨0, none, none⟩ = Except.ok o :=
  ⟨_, rfl⟩

end XPathV.Lemmas.RegexPrecheck
