import XPathV.Lemmas.PathSem.Build
import XPathV.Model.Api
import XPathV.Lemmas.SourceConfig
/-!
# C01 — predicate-free location paths: the engine's node set is the XPath 1.0 denotation

Stages (helper files under `XPathV/Lemmas/PathSem/`):

* `Basic`    — `stepPlan`, `axisRefsM`, `HashInj`; `stepPlan_sem` (node set of one plan step per origin)
* `Walks`    — `axisRefsM_spec` (each walk = the XPath axis, node *and* attribute origins)
* `Naive`    — stage 1/2 `step_sem`, `step_sem_node`, `step_sem_attr`; stage 3 `naive_sem`
* `Rewrites` — stage 4 (a) `sel_cachedChild`, (b) `shortcut_sem`, (c) `descOverDesc_sem`
* `Build`    — `build_pathpf`

Standing assumptions of the main theorem: the document is well formed, the navigator implements
`NamespaceURL()` (`cfg.nsIface = true`, the post-fix configuration) and the node key is injective
on the nodes of the document (`HashInj` — formerly the NoFnvCollision assumption, now the theorem
`hashInj_holds` of `PathSem/Basic.lean` — needed for the ancestor axes which de-duplicate by key).
-/
namespace XPathV.PathSem
open XPathV XPathV.Model

variable {F : Type} [NumAlg F]

/-- **C01**: for every well-formed document, every valid context node (attributes included) and
every predicate-free location path over the twelve axes, the plan the builder produces (with all
its rewrites) yields exactly the XPath 1.0 node-set of the path; neither side fails. -/
theorem C01_main {d : Doc} (wf : WF d) (cfg : ECfg) (hns : cfg.nsIface = true)
    (hinj : HashInj d cfg) (regexOk : RegexOk) (limit : Nat) (sdf : Bool) (p : Ast) (hp : PathPF p)
    (st : BState) (o : BOut) (hb : build regexOk limit true sdf p {} st = .ok o)
    (c : Ref) (hc : validRef d c = true) :
    ∃ out ns g, sel (F := F) d cfg o.q c = .ok out ∧
      Spec.eval (F := F) d p ⟨c, 1, 1⟩ = .ok (.val (.nodes ns) g) ∧
      ∀ x, x ∈ refs out ↔ x ∈ ns := by
  obtain ⟨out, nv, h1, h2, h12⟩ := build_pathpf (F := F) wf cfg hinj regexOk limit sdf p hp st o hb c hc
  obtain ⟨nv', ns, g, h2', hev, hmem, _⟩ := naive_sem (F := F) wf cfg hns hinj p hp c hc
  rw [h2] at h2'; cases h2'
  exact ⟨out, ns, g, h1, hev, fun x => (h12 x).trans (hmem x)⟩

/-- C01 against the top-level oracle `evalTop` -/
theorem C01_evalTop {d : Doc} (wf : WF d) (cfg : ECfg) (hns : cfg.nsIface = true)
    (hinj : HashInj d cfg) (regexOk : RegexOk) (limit : Nat) (sdf : Bool) (p : Ast) (hp : PathPF p)
    (st : BState) (o : BOut) (hb : build regexOk limit true sdf p {} st = .ok o)
    (c : Ref) (hc : validRef d c = true) :
    ∃ out ns, sel (F := F) d cfg o.q c = .ok out ∧
      Spec.evalTop (F := F) d p c = .ok (.nodes ns) ∧ ∀ x, x ∈ refs out ↔ x ∈ ns := by
  obtain ⟨out, ns, g, h1, h2, h3⟩ := C01_main (F := F) wf cfg hns hinj regexOk limit sdf p hp st o hb c hc
  refine ⟨out, ns, h1, ?_, h3⟩
  simp [Spec.evalTop, h2, bind, Except.bind, pure, Except.pure, Spec.Res.value]

/-- C01 at the configuration the model reads off the source (`//name` shortcut guarded by the
node test, no smartDesc through filters) -/
theorem C01_source_config {d : Doc} (wf : WF d) (cfg : ECfg) (hns : cfg.nsIface = true)
    (hinj : HashInj d cfg) (regexOk : RegexOk) (limit : Nat) (p : Ast) (hp : PathPF p)
    (o : BOut)
    (hb : build regexOk limit shortcutNeedsNodeTestFromSource smartDescThroughFilterFromSource p {} {} = .ok o)
    (c : Ref) (hc : validRef d c = true) :
    ∃ out ns, sel (F := F) d cfg o.q c = .ok out ∧
      Spec.evalTop (F := F) d p c = .ok (.nodes ns) ∧ ∀ x, x ∈ refs out ↔ x ∈ ns := by
  have e : shortcutNeedsNodeTestFromSource = true := Lemmas.SourceConfig.shortcut_guard_from_source
  rw [e] at hb
  exact C01_evalTop wf cfg hns hinj regexOk limit _ p hp {} o hb c hc

end XPathV.PathSem

/-! ## Axiom audit -/
section AxiomAudit
open XPathV.PathSem
#print axioms stepPlan_sem
#print axioms axisRefsM_spec
#print axioms step_sem
#print axioms step_sem_node
#print axioms step_sem_attr
#print axioms naive_sem
#print axioms sel_cachedChild
#print axioms shortcut_sem
#print axioms descOverDesc_sem
#print axioms descendant_of_covers
#print axioms descOverDesc_covers
#print axioms build_pathpf
#print axioms C01_main
#print axioms C01_evalTop
#print axioms C01_source_config
end AxiomAudit
