import XPathV.Doc
/-!
# Arithmetic facts about the pre-order/depth encoding

`endOf`, `parentFrom`, `prevFrom` characterised by depth inequalities; subtree nesting.
-/
namespace XPathV

/-! ## `endFrom` / `endOf` -/

theorem endFrom_ge (di : Nat) (xs : List Rec) (j : Nat) : j ≤ endFrom di xs j := by
  induction xs generalizing j with
  | nil => simp [endFrom]
  | cons x xs ih =>
    simp only [endFrom]; split
    · exact Nat.le_refl _
    · exact Nat.le_trans (Nat.le_succ j) (ih (j+1))

theorem endFrom_le (di : Nat) (xs : List Rec) (j : Nat) : endFrom di xs j ≤ j + xs.length := by
  induction xs generalizing j with
  | nil => simp [endFrom]
  | cons x xs ih =>
    simp only [endFrom, List.length_cons]; split
    · omega
    · have := ih (j+1); omega

theorem endFrom_gt (di : Nat) (xs : List Rec) (j k : Nat) (hk : j + k < endFrom di xs j) :
    di < (xs.getD k default).depth := by
  induction xs generalizing j k with
  | nil => simp [endFrom] at hk; omega
  | cons x xs ih =>
    simp only [endFrom] at hk
    split at hk
    · omega
    · cases k with
      | zero => simp; omega
      | succ k =>
        simp only [List.getD_cons_succ]
        apply ih (j+1) k; omega

theorem endFrom_at (di : Nat) (xs : List Rec) (j : Nat) (h : endFrom di xs j < j + xs.length) :
    (xs.getD (endFrom di xs j - j) default).depth ≤ di := by
  induction xs generalizing j with
  | nil => simp [endFrom] at h
  | cons x xs ih =>
    simp only [endFrom] at h ⊢
    split
    · simpa
    · rename_i hx
      simp only [hx, ↓reduceIte, List.length_cons] at h
      have hge := endFrom_ge di xs (j+1)
      have : endFrom di xs (j+1) - j = (endFrom di xs (j+1) - (j+1)) + 1 := by omega
      rw [this, List.getD_cons_succ]
      apply ih; omega

theorem dep_drop (d : Doc) (i k : Nat) : ((d.drop i).getD k default).depth = dep d (i + k) := by
  simp [dep, List.getD_eq_getElem?_getD, List.getElem?_drop]

theorem endOf_gt (d : Doc) (i : Nat) : i < endOf d i := by
  have := endFrom_ge (dep d i) (d.drop (i+1)) (i+1); unfold endOf; omega

theorem endOf_le (d : Doc) (i : Nat) (hi : i < d.length) : endOf d i ≤ d.length := by
  have := endFrom_le (dep d i) (d.drop (i+1)) (i+1); unfold endOf
  simp only [List.length_drop] at this; omega

theorem endOf_inside (d : Doc) (i k : Nat) (h1 : i < k) (h2 : k < endOf d i) :
    dep d i < dep d k := by
  have := endFrom_gt (dep d i) (d.drop (i+1)) (i+1) (k - (i+1)) (by unfold endOf at h2; omega)
  rw [dep_drop] at this
  have e : i + 1 + (k - (i+1)) = k := by omega
  rwa [e] at this

theorem endOf_at (d : Doc) (i : Nat) (h : endOf d i < d.length) :
    dep d (endOf d i) ≤ dep d i := by
  have hgt := endOf_gt d i
  have := endFrom_at (dep d i) (d.drop (i+1)) (i+1) (by
    unfold endOf at h; simp only [List.length_drop]; omega)
  rw [dep_drop] at this
  have e : i + 1 + (endFrom (dep d i) (d.drop (i+1)) (i+1) - (i+1)) = endOf d i := by
    unfold endOf at hgt ⊢; omega
  rwa [e] at this

/-- characterisation of `endOf`: the first index after `i` whose depth is not greater -/
theorem endOf_eq (d : Doc) (i m : Nat) (hi : i < m) (hm : m ≤ d.length)
    (hin : ∀ k, i < k → k < m → dep d i < dep d k)
    (hat : m = d.length ∨ dep d m ≤ dep d i) : endOf d i = m := by
  have hlt : i < d.length := by omega
  have hle := endOf_le d i hlt
  have hgt := endOf_gt d i
  rcases Nat.lt_trichotomy (endOf d i) m with h | h | h
  · have := endOf_at d i (by omega)
    have := hin _ hgt h
    omega
  · exact h
  · have := endOf_inside d i m hi h
    rcases hat with hat | hat <;> omega

/-! ## `parentFrom` -/

theorem parentFrom_some (d : Doc) (di j p : Nat) (h : parentFrom d di j = some p) :
    p < j ∧ dep d p < di ∧ ∀ k, p < k → k < j → di ≤ dep d k := by
  induction j with
  | zero => simp [parentFrom] at h
  | succ j ih =>
    simp only [parentFrom] at h
    split at h
    · cases h; refine ⟨by omega, by assumption, ?_⟩; intro k h1 h2; omega
    · rename_i hn
      obtain ⟨a, b, c⟩ := ih h
      refine ⟨by omega, b, ?_⟩
      intro k h1 h2
      by_cases hk : k = j
      · subst hk; omega
      · exact c k h1 (by omega)

theorem parentFrom_none (d : Doc) (di j : Nat) (h : parentFrom d di j = none) :
    ∀ k, k < j → di ≤ dep d k := by
  induction j with
  | zero => intro k hk; omega
  | succ j ih =>
    simp only [parentFrom] at h
    split at h
    · cases h
    · intro k hk
      by_cases hkj : k = j
      · subst hkj; omega
      · exact ih h k (by omega)

/-- converse of `parentFrom_some`: the characterisation determines the result -/
theorem parentFrom_eq (d : Doc) (di j p : Nat) (hp : p < j) (hd : dep d p < di)
    (hb : ∀ k, p < k → k < j → di ≤ dep d k) : parentFrom d di j = some p := by
  cases h : parentFrom d di j with
  | none => have := parentFrom_none d di j h p hp; omega
  | some q =>
    obtain ⟨hq, hqd, hqb⟩ := parentFrom_some d di j q h
    rcases Nat.lt_trichotomy p q with h1 | h1 | h1
    · have := hb q h1 hq; omega
    · rw [h1]
    · have := hqb p h1 hp; omega

theorem parentFrom_zero (d : Doc) (di : Nat) : parentFrom d di 0 = none := rfl

/-- depths inside a wf document: every non-root node has depth ≥ 1 -/
theorem WF.dep_pos {d : Doc} (wf : WF d) (j : Nat) (h0 : 0 < j) (hj : j < d.length) :
    1 ≤ dep d j := by
  cases j with
  | zero => omega
  | succ j => exact (wf.step j hj).1

theorem parent_depth {d : Doc} (wf : WF d) (j p : Nat) (hj : j < d.length)
    (h : parentFrom d (dep d j) j = some p) : dep d p + 1 = dep d j := by
  obtain ⟨hpj, hpd, hb⟩ := parentFrom_some d _ _ _ h
  have h1 : dep d j ≤ dep d (p+1) := by
    rcases Nat.lt_or_ge (p+1) j with h | h
    · exact hb (p+1) (by omega) h
    · have : p + 1 = j := by omega
      rw [this]; exact Nat.le_refl _
  have := (wf.step p (by omega)).2
  omega

theorem parent_exists {d : Doc} (wf : WF d) (j : Nat) (h0 : 0 < j) (hj : j < d.length) :
    ∃ p, parentFrom d (dep d j) j = some p := by
  cases h : parentFrom d (dep d j) j with
  | some p => exact ⟨p, rfl⟩
  | none =>
    have := parentFrom_none d _ _ h 0 h0
    have := wf.dep_pos j h0 hj
    have := wf.root.1
    omega

theorem parent_root (d : Doc) : parentFrom d (dep d 0) 0 = none := rfl

/-! ## `prevFrom` -/

theorem prevFrom_some (d : Doc) (di j p : Nat) (h : prevFrom d di j = some p) :
    p < j ∧ dep d p = di ∧ ∀ k, p < k → k < j → di < dep d k := by
  induction j with
  | zero => simp [prevFrom] at h
  | succ j ih =>
    simp only [prevFrom] at h
    split at h
    · cases h
    · split at h
      · cases h; refine ⟨by omega, by assumption, ?_⟩; intro k h1 h2; omega
      · obtain ⟨a, b, c⟩ := ih h
        refine ⟨by omega, b, ?_⟩
        intro k h1 h2
        by_cases hk : k = j
        · subst hk; omega
        · exact c k h1 (by omega)

/-- `prevFrom = none`: either nothing before has depth `≤ di`, or the nearest such has depth `< di` -/
theorem prevFrom_none (d : Doc) (di j : Nat) (h : prevFrom d di j = none) :
    (∀ k, k < j → di < dep d k) ∨
    (∃ q, q < j ∧ dep d q < di ∧ ∀ k, q < k → k < j → di < dep d k) := by
  induction j with
  | zero => left; intro k hk; omega
  | succ j ih =>
    simp only [prevFrom] at h
    split at h
    · right; refine ⟨j, by omega, by assumption, ?_⟩; intro k h1 h2; omega
    · split at h
      · cases h
      · rcases ih h with h1 | ⟨q, hq, hqd, hqb⟩
        · left; intro k hk
          by_cases hkj : k = j
          · subst hkj; omega
          · exact h1 k (by omega)
        · right; refine ⟨q, by omega, hqd, ?_⟩
          intro k h1 h2
          by_cases hkj : k = j
          · subst hkj; omega
          · exact hqb k h1 (by omega)

theorem prevFrom_eq (d : Doc) (di j p : Nat) (hp : p < j) (hd : dep d p = di)
    (hb : ∀ k, p < k → k < j → di < dep d k) : prevFrom d di j = some p := by
  cases h : prevFrom d di j with
  | none =>
    rcases prevFrom_none d di j h with h1 | ⟨q, hq, hqd, hqb⟩
    · have := h1 p hp; omega
    · rcases Nat.lt_trichotomy p q with h1 | h1 | h1
      · have := hb q h1 hq; omega
      · subst h1; omega
      · have := hqb p h1 hp; omega
  | some q =>
    obtain ⟨hq, hqd, hqb⟩ := prevFrom_some d di j q h
    rcases Nat.lt_trichotomy p q with h1 | h1 | h1
    · have := hb q h1 hq; omega
    · rw [h1]
    · have := hqb p h1 hp; omega

/-- the previous sibling: greatest `p < j` of the same depth with only deeper nodes between -/
theorem prevFrom_iff (d : Doc) (j p : Nat) :
    prevFrom d (dep d j) j = some p ↔
      (p < j ∧ dep d p = dep d j ∧ ∀ k, p < k → k < j → dep d j < dep d k) :=
  ⟨prevFrom_some d _ j p, fun ⟨a, b, c⟩ => prevFrom_eq d _ j p a b c⟩

theorem parentFrom_iff (d : Doc) (di j p : Nat) :
    parentFrom d di j = some p ↔ (p < j ∧ dep d p < di ∧ ∀ k, p < k → k < j → di ≤ dep d k) :=
  ⟨parentFrom_some d di j p, fun ⟨a, b, c⟩ => parentFrom_eq d di j p a b c⟩

/-! ## Subtree nesting -/

/-- for a wf document, `p` is the parent of `j` iff `j` lies in the subtree interval of `p`
one level below `p` -/
theorem parent_iff_subtree {d : Doc} (wf : WF d) (p j : Nat) (hj : j < d.length) (hpj : p < j) :
    parentFrom d (dep d j) j = some p ↔ (j < endOf d p ∧ dep d j = dep d p + 1) := by
  constructor
  · intro h
    have hdep := parent_depth wf j p hj h
    obtain ⟨_, hpd, hb⟩ := parentFrom_some d _ _ _ h
    refine ⟨?_, by omega⟩
    rcases Nat.lt_or_ge j (endOf d p) with h1 | h1
    · exact h1
    · have hgt := endOf_gt d p
      have hat := endOf_at d p (by omega)
      rcases Nat.lt_or_ge (endOf d p) j with h2 | h2
      · have := hb _ hgt h2; omega
      · have : endOf d p = j := by omega
        rw [this] at hat; omega
  · intro ⟨hlt, hdep⟩
    apply parentFrom_eq d _ j p hpj (by omega)
    intro k h1 h2
    have := endOf_inside d p k h1 (by omega)
    omega

/-- subtrees are nested: a node inside the subtree of `p` has its whole subtree inside -/
theorem endOf_nested (d : Doc) (p j : Nat) (hp : p < d.length) (h1 : p < j) (h2 : j < endOf d p) :
    endOf d j ≤ endOf d p := by
  have hle := endOf_le d p hp
  rcases Nat.lt_or_ge (endOf d p) (endOf d j) with h | h
  · have hgt := endOf_gt d p
    have a := endOf_inside d j (endOf d p) h2 h
    have b := endOf_at d p (by have := endOf_le d j (by omega); omega)
    have c := endOf_inside d p j h1 h2
    omega
  · exact h

/-- the parent's subtree contains the child's subtree -/
theorem parent_endOf {d : Doc} (wf : WF d) (p j : Nat) (hj : j < d.length)
    (h : parentFrom d (dep d j) j = some p) : p < j ∧ j < endOf d p ∧ endOf d j ≤ endOf d p := by
  have hpj := (parentFrom_some d _ _ _ h).1
  have := (parent_iff_subtree wf p j hj hpj).1 h
  exact ⟨hpj, this.1, endOf_nested d p j (by omega) hpj this.1⟩

end XPathV
