import XPathV.Lemmas.FullGrammarComplete.Loops
/-!
# Completeness of the reference parser: the one-token decisions

How each parser function branches on the first token(s), given the First-set facts.
-/
set_option linter.unusedSimpArgs false
namespace XPathV.Spec.Full
open XPathV

variable {ns : Option NsMap}

theorem exists_succ (f : Nat) (h : 1 ≤ f) : ∃ g, f = g + 1 := ⟨f - 1, by omega⟩

/-- [4]: after the axis specifier and the node test, the predicates -/
theorem pStep_axis {ts₁ ts₂ : List ETok} {ax : String} {info : AxisInfo}
    (h₁ : AxisSpecifierD ts₁ ax) (h₂ : NodeTestD ns ax ts₂ info) (g : Nat) (inp : Ast) (r : List ETok) :
    pStep ns (g + 1) inp (ts₁ ++ ts₂ ++ r) = pPreds ns g (.axis info inp) r := by
  cases h₁ with
  | named hs =>
    cases h₂ with
    | wild => simp [pStep, pAxisSpec, pNodeTest, hs]
    | nsWild hr => simp [pStep, pAxisSpec, pNodeTest, hs, hr]
    | qname hr => simp [pStep, pAxisSpec, pNodeTest, hs, hr]
    | nodeType hn => simp [pStep, pAxisSpec, pNodeTest, hs, hn]
    | pi => simp [pStep, pAxisSpec, pNodeTest, hs]
  | «abbrev» h =>
    cases h with
    | «attribute» =>
      cases h₂ with
      | wild => simp [pStep, pAxisSpec, pNodeTest]
      | nsWild hr => simp [pStep, pAxisSpec, pNodeTest, hr]
      | qname hr => simp [pStep, pAxisSpec, pNodeTest, hr]
      | nodeType hn => simp [pStep, pAxisSpec, pNodeTest, hn]
      | pi => simp [pStep, pAxisSpec, pNodeTest]
    | child =>
      cases h₂ with
      | wild => simp [pStep, pAxisSpec, pNodeTest]
      | nsWild hr => simp [pStep, pAxisSpec, pNodeTest, hr]
      | qname hr => simp [pStep, pAxisSpec, pNodeTest, hr]
      | nodeType hn => simp [pStep, pAxisSpec, pNodeTest, hn]
      | pi => simp [pStep, pAxisSpec, pNodeTest]

/-- [19]: a token that starts a step sends `pPath` to `pRel` over `.none` -/
theorem pPath_step {t0 : ETok} (h : stepStart t0 = true) (g : Nat) (r : List ETok) :
    pPath ns (g + 1) (t0 :: r) = pRel ns g .none (t0 :: r) := by
  cases t0 <;> simp [stepStart] at h <;> simp [pPath, startsPrimary]

/-- [19]: a token that starts a PrimaryExpr sends `pPath` to `pFilter`; nothing follows -/
theorem pPath_prim_stop {t0 : ETok} (h : primStart t0 = true) {g : Nat} {r rest : List ETok} {x : Ast}
    (e : pFilter ns g (t0 :: r) = some (x, rest)) (hr : okHead blkPath rest) :
    pPath ns (g + 1) (t0 :: r) = some (x, rest) := by
  have key : pPath ns (g + 1) (t0 :: r) = (match (some (x, rest) : PR) with
      | some (x, .slash :: rest) => pRel ns g x rest
      | some (x, .slashslash :: rest) => pRel ns g (dos x) rest
      | r => r) := by
    cases t0 <;> simp [primStart] at h <;> simp only [pPath, startsPrimary, e] <;> rfl
  rw [key]
  cases rest with
  | nil => rfl
  | cons t r' => cases t <;> first | rfl | (simp [okHead, blkPath] at hr)

/-- [19]: FilterExpr '/' RelativeLocationPath -/
theorem pPath_prim_slash {t0 : ETok} (h : primStart t0 = true) {g : Nat} {r rest : List ETok} {x : Ast}
    (e : pFilter ns g (t0 :: r) = some (x, .slash :: rest)) :
    pPath ns (g + 1) (t0 :: r) = pRel ns g x rest := by
  cases t0 <;> simp [primStart] at h <;> simp only [pPath, startsPrimary, e] <;> rfl

/-- [19]: FilterExpr '//' RelativeLocationPath -/
theorem pPath_prim_dslash {t0 : ETok} (h : primStart t0 = true) {g : Nat} {r rest : List ETok} {x : Ast}
    (e : pFilter ns g (t0 :: r) = some (x, .slashslash :: rest)) :
    pPath ns (g + 1) (t0 :: r) = pRel ns g (dos x) rest := by
  cases t0 <;> simp [primStart] at h <;> simp only [pPath, startsPrimary, e] <;> rfl

/-- [27]: no minus sign ahead -/
theorem pUnary_union {t0 : ETok} (h : pathStart t0 = true) {g : Nat} (m : Nat) {r rest : List ETok}
    {x : Ast} (e : pUnion ns g (t0 :: r) = some (x, rest)) :
    pUnary ns (g + 1) m (t0 :: r) = some (negEnc m x, rest) := by
  cases t0 <;> simp [pathStart, stepStart, primStart, isSl] at h <;> simp only [pUnary, e]

/-- [16]: a function call with at least one argument -/
theorem pPrimary_call {t0 : ETok} (h : exprStart t0 = true) {g : Nat} (p fn : String)
    {r rest : List ETok} {as : Ast} (e : pArgs ns g (t0 :: r) = some (as, rest)) :
    pPrimary ns (g + 1) (.funcName p fn :: .lparen :: t0 :: r) = some (.call fn p as, rest) := by
  cases t0 <;> simp [exprStart, pathStart, stepStart, primStart, isSl] at h <;> simp only [pPrimary, e]

theorem startsStep_false {rest : List ETok} (h : okHead blkPath rest) : startsStep rest = false := by
  cases rest with
  | nil => rfl
  | cons t r => rw [startsStep_cons]; exact blkPath_stepStart t h

theorem startsStep_true {ts : List ETok} (h : SW stepStart ts) (rest : List ETok) :
    startsStep (ts ++ rest) = true := by
  obtain ⟨t, r, rfl, ht⟩ := h.exists
  simp only [List.cons_append, startsStep_cons, ht]

end XPathV.Spec.Full
