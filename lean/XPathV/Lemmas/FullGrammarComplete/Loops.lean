import XPathV.Lemmas.FullGrammarComplete.Defs
/-!
# Completeness of the reference parser: the loops

The accumulator loops `pPreds`, `pRelLoop`, `pTierLoop`, `pUnionLoop` read an iterative tail completely
and stop at a `rest` that does not continue it; hence the functions that start them (`pRel`, `pFilter`,
`pTier`, `pUnion`) parse the iterative forms.
-/
set_option linter.unusedSimpArgs false
namespace XPathV.Spec.Full
open XPathV

variable {ns : Option NsMap}

theorem okHead.append {p : ETok → Bool} {tl rest : List ETok} (h₁ : okHead p tl) (h₂ : okHead p rest) :
    okHead p (tl ++ rest) := by
  cases tl with
  | nil => exact h₂
  | cons t r => exact h₁

theorem blkT_upper_rbracket : blkT upperTiers .rbracket = false := by decide
theorem blkT_upper_rparen : blkT upperTiers .rparen = false := by decide
theorem blkT_upper_comma : blkT upperTiers .comma = false := by decide

/-! ### Predicate* -/

theorem pPreds_stop {f : Nat} {acc : Ast} {rest : List ETok} (h : okHead isLb rest) :
    pPreds ns (f + 1) acc rest = some (acc, rest) := by
  cases rest with
  | nil => simp [pPreds]
  | cons t r =>
    cases t <;> first | (simp [pPreds]; done) | (exact absurd h (by simp [okHead, isLb]))

theorem preds_loop {acc : Ast} {tl : List ETok} {res : Ast} (h : PTail (PExpr ns) acc tl res) :
    ∀ f rest, okHead isLb rest → 16 * tl.length + 1 ≤ f →
      pPreds ns f acc (tl ++ rest) = some (res, rest) := by
  induction h with
  | nil =>
    intro f rest hr hf
    obtain ⟨g, rfl⟩ : ∃ g, f = g + 1 := ⟨f - 1, by omega⟩
    exact pPreds_stop hr
  | @cons acc ts c tl res hq _ ih =>
    intro f rest hr hf
    obtain ⟨g, rfl⟩ : ∃ g, f = g + 1 := ⟨f - 1, by omega⟩
    simp only [List.length_cons, List.length_append] at hf
    have e := hq g (.rbracket :: (tl ++ rest)) blkT_upper_rbracket (by omega)
    have e2 := ih g rest hr (by omega)
    simp only [List.cons_append, List.append_assoc, pPreds, e, e2]

/-! ### RelativeLocationPath -/

theorem pRelLoop_stop {f : Nat} {acc : Ast} {rest : List ETok} (h : okHead isRelCont rest) :
    pRelLoop ns (f + 1) acc rest = some (acc, rest) := by
  cases rest with
  | nil => simp [pRelLoop]
  | cons t r =>
    cases t <;> first | (simp [pRelLoop]; done) | (exact absurd h (by simp [okHead, isRelCont]))

theorem rel_loop {acc : Ast} {tl : List ETok} {res : Ast} (h : RTail (PStep ns) acc tl res) :
    ∀ f rest, okHead isRelCont rest → 16 * tl.length + 1 ≤ f →
      pRelLoop ns f acc (tl ++ rest) = some (res, rest) := by
  induction h with
  | nil =>
    intro f rest hr hf
    obtain ⟨g, rfl⟩ : ∃ g, f = g + 1 := ⟨f - 1, by omega⟩
    exact pRelLoop_stop hr
  | @slash acc ts t tl res hs htl ih =>
    intro f rest hr hf
    obtain ⟨g, rfl⟩ : ∃ g, f = g + 1 := ⟨f - 1, by omega⟩
    simp only [List.length_cons, List.length_append] at hf
    have e := hs g (tl ++ rest) (htl.head.append (hr.mono isRelCont_isLb)) (by omega)
    have e2 := ih g rest hr (by omega)
    simp only [List.cons_append, List.append_assoc, pRelLoop, e, e2]
  | @dslash acc ts t tl res hs htl ih =>
    intro f rest hr hf
    obtain ⟨g, rfl⟩ : ∃ g, f = g + 1 := ⟨f - 1, by omega⟩
    simp only [List.length_cons, List.length_append] at hf
    have e := hs g (tl ++ rest) (htl.head.append (hr.mono isRelCont_isLb)) (by omega)
    have e2 := ih g rest hr (by omega)
    simp only [List.cons_append, List.append_assoc, pRelLoop, e, e2]

theorem rel_of_spine {inp : Ast} {ts : List ETok} {a : Ast} (h : RSpine (PStep ns) inp ts a) :
    PRel ns inp ts a := by
  obtain ⟨ts0, t0, tl, rfl, hs, htl⟩ := h
  intro f rest hr hf
  obtain ⟨g, rfl⟩ : ∃ g, f = g + 1 := ⟨f - 1, by omega⟩
  simp only [List.length_append] at hf
  have e := hs g (tl ++ rest) (htl.head.append (hr.mono isRelCont_isLb)) (by omega)
  have e2 := rel_loop htl g rest hr (by omega)
  simp only [List.append_assoc, pRel, e, e2]

/-! ### FilterExpr -/

theorem filter_of_spine {ts : List ETok} {a : Ast} (h : FSpine ns ts a) : PFilter ns ts a := by
  obtain ⟨ts0, x, tl, rfl, hp, htl⟩ := h
  intro f rest hr hf
  obtain ⟨g, rfl⟩ : ∃ g, f = g + 1 := ⟨f - 1, by omega⟩
  simp only [List.length_append] at hf
  have e := hp g (tl ++ rest) (by omega)
  have e2 := preds_loop htl g rest hr (by omega)
  simp only [List.append_assoc, pFilter, e, e2]

/-! ### the binary tiers -/

theorem pTierLoop_stop {f : Nat} {ops more} {acc : Ast} {rest : List ETok}
    (h : okHead (blkT (ops :: more)) rest) : pTierLoop ns (f + 1) ops more acc rest = some (acc, rest) := by
  cases rest with
  | nil => simp [pTierLoop]
  | cons t r => simp [pTierLoop, (blkT_cons t h).1]

theorem tier_loop {ops : List (ETok × String)} {more : List (List (ETok × String))} {k : Nat}
    (huniq : ∀ tok op, (tok, op) ∈ ops → ops.lookup tok = some op)
    (hsep : ∀ tok op, (tok, op) ∈ ops → blkT more tok = false)
    {acc : Ast} {tl : List ETok} {res : Ast} (h : TTail (PTier ns more k) ops acc tl res) :
    ∀ f rest, okHead (blkT (ops :: more)) rest → 16 * tl.length + k + 1 ≤ f →
      pTierLoop ns f ops more acc (tl ++ rest) = some (res, rest) := by
  induction h with
  | nil =>
    intro f rest hr hf
    obtain ⟨g, rfl⟩ : ∃ g, f = g + 1 := ⟨f - 1, by omega⟩
    exact pTierLoop_stop hr
  | @cons acc tok op ts r tl res hm hp htl ih =>
    intro f rest hr hf
    obtain ⟨g, rfl⟩ : ∃ g, f = g + 1 := ⟨f - 1, by omega⟩
    simp only [List.length_cons, List.length_append] at hf
    have hok : okHead (blkT more) (tl ++ rest) := by
      rcases htl.head with rfl | ⟨tok', op', r', hm', rfl⟩
      · exact hr.mono (fun t ht => (blkT_cons t ht).2)
      · exact hsep tok' op' hm'
    have e := hp g (tl ++ rest) hok (by omega)
    have e2 := ih g rest hr (by omega)
    simp only [List.cons_append, List.append_assoc, pTierLoop, huniq tok op hm, e, e2]

theorem tier_of_spine {ops : List (ETok × String)} {more : List (List (ETok × String))} {k : Nat}
    (huniq : ∀ tok op, (tok, op) ∈ ops → ops.lookup tok = some op)
    (hsep : ∀ tok op, (tok, op) ∈ ops → blkT more tok = false)
    {ts : List ETok} {a : Ast} (h : TSpine (PTier ns more k) ops ts a) :
    PTier ns (ops :: more) (k + 2) ts a := by
  obtain ⟨ts0, l0, tl, rfl, hp, htl⟩ := h
  intro f rest hr hf
  obtain ⟨g, rfl⟩ : ∃ g, f = g + 1 := ⟨f - 1, by omega⟩
  simp only [List.length_append] at hf
  have hok : okHead (blkT more) (tl ++ rest) := by
    rcases htl.head with rfl | ⟨tok', op', r', hm', rfl⟩
    · exact hr.mono (fun t ht => (blkT_cons t ht).2)
    · exact hsep tok' op' hm'
  have e := hp g (tl ++ rest) hok (by omega)
  have e2 := tier_loop huniq hsep htl g rest hr (by omega)
  simp only [List.append_assoc, pTier, e, e2]

/-! ### UnionExpr -/

theorem pUnionLoop_stop {f : Nat} {acc : Ast} {rest : List ETok} (h : okHead blkU rest) :
    pUnionLoop ns (f + 1) acc rest = some (acc, rest) := by
  cases rest with
  | nil => simp [pUnionLoop]
  | cons t r =>
    cases t <;> first | (simp [pUnionLoop]; done) | (exact absurd h (by simp [okHead, blkU]))

theorem union_loop {acc : Ast} {tl : List ETok} {res : Ast}
    (h : TTail (PPath ns) [(.union, "|")] acc tl res) :
    ∀ f rest, okHead blkU rest → 16 * tl.length + 1 ≤ f →
      pUnionLoop ns f acc (tl ++ rest) = some (res, rest) := by
  induction h with
  | nil =>
    intro f rest hr hf
    obtain ⟨g, rfl⟩ : ∃ g, f = g + 1 := ⟨f - 1, by omega⟩
    exact pUnionLoop_stop hr
  | @cons acc tok op ts r tl res hm hp htl ih =>
    intro f rest hr hf
    obtain ⟨g, rfl⟩ : ∃ g, f = g + 1 := ⟨f - 1, by omega⟩
    simp only [List.mem_singleton, Prod.mk.injEq] at hm
    obtain ⟨rfl, rfl⟩ := hm
    simp only [List.length_cons, List.length_append] at hf
    have hok : okHead blkPath (tl ++ rest) := by
      rcases htl.head with rfl | ⟨tok', op', r', hm', rfl⟩
      · exact hr.mono blkU_blkPath
      · simp only [List.mem_singleton, Prod.mk.injEq] at hm'
        obtain ⟨rfl, rfl⟩ := hm'
        rfl
    have e := hp g (tl ++ rest) hok (by omega)
    have e2 := ih g rest hr (by omega)
    simp only [List.cons_append, List.append_assoc, pUnionLoop, e, e2]

theorem union_of_spine {ts : List ETok} {a : Ast} (h : TSpine (PPath ns) [(.union, "|")] ts a) :
    PUnion ns ts a := by
  obtain ⟨ts0, l0, tl, rfl, hp, htl⟩ := h
  intro f rest hr hf
  obtain ⟨g, rfl⟩ : ∃ g, f = g + 1 := ⟨f - 1, by omega⟩
  simp only [List.length_append] at hf
  have hok : okHead blkPath (tl ++ rest) := by
    rcases htl.head with rfl | ⟨tok', op', r', hm', rfl⟩
    · exact hr.mono blkU_blkPath
    · simp only [List.mem_singleton, Prod.mk.injEq] at hm'
      obtain ⟨rfl, rfl⟩ := hm'
      rfl
  have e := hp g (tl ++ rest) hok (by omega)
  have e2 := union_loop htl g rest hr (by omega)
  simp only [List.append_assoc, pUnion, e, e2]

end XPathV.Spec.Full
