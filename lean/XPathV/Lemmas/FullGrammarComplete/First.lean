import XPathV.Spec.FullGrammar
/-!
# First sets of the full XPath 1.0 grammar

`D ns X ts a → First X ts`: the first token of whatever a non-terminal derives lies in a fixed set
(`Predicate*` may be empty and is exempt).  These facts are what lets the reference parser choose a
production by looking at one token.
-/
namespace XPathV.Spec.Full
open XPathV

/-- the tokens a Step can begin with (cf. `startsStep`) -/
def stepStart : ETok → Bool
  | .axisName _ | .at | .wild | .nsWild _ | .qname _ _ | .nodeType _ | .dot | .dotdot => true
  | _ => false

/-- the tokens a PrimaryExpr can begin with (cf. `startsPrimary`) -/
def primStart : ETok → Bool
  | .varRef _ _ | .lparen | .literal _ | .number _ | .funcName _ _ => true
  | _ => false

def isSl : ETok → Bool
  | .slash | .slashslash => true
  | _ => false

def isLb : ETok → Bool
  | .lbracket => true
  | _ => false

/-- the tokens a PathExpr can begin with -/
def pathStart (t : ETok) : Bool := stepStart t || primStart t || isSl t

/-- the tokens an Expr can begin with -/
def exprStart : ETok → Bool
  | .minus => true
  | t => pathStart t

theorem startsStep_cons (t : ETok) (r : List ETok) : startsStep (t :: r) = stepStart t := by
  cases t <;> rfl

theorem startsPrimary_cons (t : ETok) (r : List ETok) : startsPrimary (t :: r) = primStart t := by
  cases t <;> rfl

/-- `ts` is not empty and its first token satisfies `p` -/
def SW (p : ETok → Bool) : List ETok → Prop
  | [] => False
  | t :: _ => p t = true

theorem SW.append {p : ETok → Bool} {ts : List ETok} (h : SW p ts) (ts' : List ETok) :
    SW p (ts ++ ts') := by
  cases ts with
  | nil => exact h.elim
  | cons t r => exact h

theorem SW.mono {p q : ETok → Bool} {ts : List ETok} (hpq : ∀ t, p t = true → q t = true)
    (h : SW p ts) : SW q ts := by
  cases ts with
  | nil => exact h.elim
  | cons t r => exact hpq t h

theorem SW.ne_nil {p : ETok → Bool} {ts : List ETok} (h : SW p ts) : ts ≠ [] := by
  cases ts with
  | nil => exact h.elim
  | cons t r => simp

theorem SW.exists {p : ETok → Bool} {ts : List ETok} (h : SW p ts) :
    ∃ t r, ts = t :: r ∧ p t = true := by
  cases ts with
  | nil => exact h.elim
  | cons t r => exact ⟨t, r, rfl, h⟩

/-- the First set of each non-terminal -/
def fstP : NT → ETok → Bool
  | .LocationPath => fun t => stepStart t || isSl t
  | .AbsoluteLocationPath | .AbbreviatedAbsoluteLocationPath => isSl
  | .RelativeLocationPath _ | .Step _ | .AbbreviatedRelativeLocationPath _ | .AbbreviatedStep _ =>
    stepStart
  | .Predicates _ => fun _ => true
  | .Predicate => isLb
  | .PrimaryExpr | .FunctionCall | .FilterExpr => primStart
  | .PathExpr | .UnionExpr => pathStart
  | _ => exprStart

def First : NT → List ETok → Prop
  | .Predicates _, _ => True
  | X, ts => SW (fstP X) ts

theorem pathStart_exprStart (t : ETok) (h : pathStart t = true) : exprStart t = true := by
  cases t <;> first | rfl | exact h

theorem stepStart_pathStart (t : ETok) (h : stepStart t = true) : pathStart t = true := by
  simp [pathStart, h]

theorem primStart_pathStart (t : ETok) (h : primStart t = true) : pathStart t = true := by
  simp [pathStart, h]

theorem isSl_pathStart (t : ETok) (h : isSl t = true) : pathStart t = true := by
  simp [pathStart, h]

theorem axisSpec_nodeTest_first {ns : Option NsMap} {ts₁ ts₂ : List ETok} {ax : String}
    {info : AxisInfo} (h₁ : AxisSpecifierD ts₁ ax) (h₂ : NodeTestD ns ax ts₂ info) :
    SW stepStart (ts₁ ++ ts₂) := by
  cases h₁ with
  | named _ => rfl
  | «abbrev» h =>
    cases h with
    | «attribute» => rfl
    | child => cases h₂ <;> rfl

/-- **First sets.** -/
theorem D.first {ns : Option NsMap} {X : NT} {ts : List ETok} {a : Ast} (h : D ns X ts a) :
    First X ts := by
  induction h with
  | loc_rel _ ih => exact SW.mono (q := fstP .LocationPath) (fun t h => by simp [fstP, show stepStart t = true from h]) ih
  | loc_abs _ ih => exact SW.mono (q := fstP .LocationPath) (fun t h => by simp [fstP, show isSl t = true from h]) ih
  | abs_root => exact rfl
  | abs_rel _ _ => exact rfl
  | abs_abbrev _ ih => exact ih
  | rel_step _ ih => exact ih
  | rel_slash _ _ ih₁ _ =>
    show SW stepStart _
    exact (SW.append (show SW stepStart _ from ih₁) _).append _
  | rel_abbrev _ ih => exact ih
  | step h₁ h₂ _ _ =>
    show SW stepStart _
    exact (axisSpec_nodeTest_first h₁ h₂).append _
  | step_abbrev _ ih => exact ih
  | preds_nil => trivial
  | preds_snoc _ _ _ _ => trivial
  | predicate _ _ => exact rfl
  | predicateExpr _ ih => exact ih
  | abbrevAbs _ _ => exact rfl
  | abbrevRel _ _ ih₁ _ =>
    show SW stepStart _
    exact (SW.append (show SW stepStart _ from ih₁) _).append _
  | dot => exact rfl
  | dotdot => exact rfl
  | expr _ ih => exact ih
  | prim_var => exact rfl
  | prim_group _ _ => exact rfl
  | prim_literal => exact rfl
  | prim_number => exact rfl
  | prim_call _ ih => exact ih
  | call_nil => exact rfl
  | call_args _ _ => exact rfl
  | args_one _ ih => exact ih
  | args_cons _ _ ih₁ _ =>
    show SW exprStart _
    exact (SW.append (show SW exprStart _ from ih₁) _).append _
  | argument _ ih => exact ih
  | path_loc _ ih =>
    refine SW.mono (q := pathStart) (fun t h => ?_) (show SW (fstP .LocationPath) _ from ih)
    have h' : (stepStart t || isSl t) = true := h
    simp only [Bool.or_eq_true] at h'
    rcases h' with h' | h'
    · exact stepStart_pathStart t h'
    · exact isSl_pathStart t h'
  | path_filter _ ih => exact SW.mono (q := pathStart) primStart_pathStart (show SW primStart _ from ih)
  | path_slash _ _ ih₁ _ =>
    show SW pathStart _
    exact ((SW.mono primStart_pathStart (show SW primStart _ from ih₁)).append _).append _
  | path_slashslash _ _ ih₁ _ =>
    show SW pathStart _
    exact ((SW.mono primStart_pathStart (show SW primStart _ from ih₁)).append _).append _
  | filter_prim _ ih => exact ih
  | filter_pred _ _ ih₁ _ =>
    show SW primStart _
    exact SW.append (show SW primStart _ from ih₁) _
  | @up X Y ops ts t hb _ ih =>
    cases X <;> simp [NT.binary] at hb <;> obtain ⟨rfl, rfl⟩ := hb
    all_goals first
      | exact ih
      | exact SW.mono (q := exprStart) pathStart_exprStart (show SW pathStart _ from ih)
  | @bin X Y ops tok op ts₁ ts₂ l r hb _ _ _ ih₁ _ =>
    cases X <;> simp [NT.binary] at hb <;> obtain ⟨rfl, rfl⟩ := hb
    all_goals first
      | exact (SW.append (show SW exprStart _ from ih₁) _).append _
      | exact (SW.append (show SW pathStart _ from ih₁) _).append _
  | unary_union _ ih => exact SW.mono (q := exprStart) pathStart_exprStart (show SW pathStart _ from ih)
  | unary_minus _ _ => exact rfl
  | unary _ ih => exact ih

end XPathV.Spec.Full
