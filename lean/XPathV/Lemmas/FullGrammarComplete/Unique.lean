import XPathV.Lemmas.FullGrammarComplete.Main
/-!
# Every non-terminal of the full grammar is unambiguous

`D_unique : D ns X ts a → D ns X ts b → a = b` for every non-terminal `X` (on ExprToken lists): each
parse statement determines the tree, since it says what a function returns.
-/
set_option linter.unusedSimpArgs false
namespace XPathV.Spec.Full
open XPathV

variable {ns : Option NsMap}

theorem some_pair_inj {a b : Ast} {r : List ETok} (h : (some (a, r) : PR) = some (b, r)) : a = b := by
  simpa using h

theorem PPath.unique {ts a b} (ha : PPath ns ts a) (hb : PPath ns ts b) : a = b :=
  some_pair_inj ((ha _ [] trivial (Nat.le_refl _)).symm.trans (hb _ [] trivial (Nat.le_refl _)))

theorem PRel.unique {inp ts a b} (ha : PRel ns inp ts a) (hb : PRel ns inp ts b) : a = b :=
  some_pair_inj ((ha _ [] trivial (Nat.le_refl _)).symm.trans (hb _ [] trivial (Nat.le_refl _)))

theorem PStep.unique {inp ts a b} (ha : PStep ns inp ts a) (hb : PStep ns inp ts b) : a = b :=
  some_pair_inj ((ha _ [] trivial (Nat.le_refl _)).symm.trans (hb _ [] trivial (Nat.le_refl _)))

theorem PPrim.unique {ts a b} (ha : PPrim ns ts a) (hb : PPrim ns ts b) : a = b :=
  some_pair_inj ((ha _ [] (Nat.le_refl _)).symm.trans (hb _ [] (Nat.le_refl _)))

theorem PFilter.unique {ts a b} (ha : PFilter ns ts a) (hb : PFilter ns ts b) : a = b :=
  some_pair_inj ((ha _ [] trivial (Nat.le_refl _)).symm.trans (hb _ [] trivial (Nat.le_refl _)))

theorem PUnion.unique {ts a b} (ha : PUnion ns ts a) (hb : PUnion ns ts b) : a = b :=
  some_pair_inj ((ha _ [] trivial (Nat.le_refl _)).symm.trans (hb _ [] trivial (Nat.le_refl _)))

theorem PTier.unique {tiers k ts a b} (ha : PTier ns tiers k ts a) (hb : PTier ns tiers k ts b) :
    a = b :=
  some_pair_inj ((ha _ [] trivial (Nat.le_refl _)).symm.trans (hb _ [] trivial (Nat.le_refl _)))

theorem PArgs.unique {ts a b} (ha : PArgs ns ts a) (hb : PArgs ns ts b) : a = b :=
  some_pair_inj ((ha _ [] (Nat.le_refl _)).symm.trans (hb _ [] (Nat.le_refl _)))

theorem PTail.unique {acc ts a b} (ha : PTail (PExpr ns) acc ts a) (hb : PTail (PExpr ns) acc ts b) :
    a = b :=
  some_pair_inj ((preds_loop ha _ [] trivial (Nat.le_refl _)).symm.trans
    (preds_loop hb _ [] trivial (Nat.le_refl _)))

theorem negEnc_inj {n : Nat} {a b : Ast} (h : negEnc n a = negEnc n b) : a = b := by
  unfold negEnc at h
  split at h
  · exact h
  · split at h <;> simpa using h

theorem PUnaryRun.unique {n ts a b} (ha : PUnaryRun ns n ts a) (hb : PUnaryRun ns n ts b) : a = b := by
  have h := (ha _ 0 [] trivial (Nat.le_refl _)).symm.trans (hb _ 0 [] trivial (Nat.le_refl _))
  simp only [Option.some.injEq, Prod.mk.injEq, and_true] at h
  exact negEnc_inj h

/-- the motive of each non-terminal determines the tree -/
theorem M.unique {X : NT} {ts : List ETok} {a b : Ast} (ha : M ns X ts a) (hb : M ns X ts b) :
    a = b := by
  cases X with
  | LocationPath | AbsoluteLocationPath | AbbreviatedAbsoluteLocationPath | PathExpr =>
    exact PPath.unique ha hb
  | RelativeLocationPath inp | AbbreviatedRelativeLocationPath inp =>
    exact PRel.unique (rel_of_spine ha) (rel_of_spine hb)
  | Step inp | AbbreviatedStep inp => exact PStep.unique ha hb
  | Predicates inp => exact PTail.unique ha hb
  | Predicate =>
    obtain ⟨ta, rfl, ha⟩ := ha
    obtain ⟨tb, e, hb⟩ := hb
    have : ta = tb := by simpa using e
    subst this
    exact PTier.unique ha hb
  | PredicateExpr | Expr | Argument => exact PTier.unique ha hb
  | PrimaryExpr | FunctionCall => exact PPrim.unique ha hb
  | Arguments => exact PArgs.unique ha hb
  | FilterExpr => exact PFilter.unique (filter_of_spine ha) (filter_of_spine hb)
  | UnionExpr => exact PUnion.unique (union_of_spine ha) (union_of_spine hb)
  | OrExpr => exact PTier.unique (or_of_M ha) (or_of_M hb)
  | AndExpr => exact PTier.unique (and_of_M ha) (and_of_M hb)
  | EqualityExpr => exact PTier.unique (eq_of_M ha) (eq_of_M hb)
  | RelationalExpr => exact PTier.unique (rel_of_M ha) (rel_of_M hb)
  | AdditiveExpr => exact PTier.unique (add_of_M ha) (add_of_M hb)
  | MultiplicativeExpr => exact PTier.unique (mul_of_M ha) (mul_of_M hb)
  | UnaryExpr => exact PTier.unique ha hb
  | UnaryRun n => exact PUnaryRun.unique ha hb

/-- **Every non-terminal of the full XPath 1.0 grammar is unambiguous** on ExprToken lists: the tree
(for the location-path non-terminals: given the inherited tree) is a function of the tokens. -/
theorem D_unique {X : NT} {ts : List ETok} {a b : Ast} (ha : D ns X ts a) (hb : D ns X ts b) :
    a = b :=
  M.unique (D.complete ha) (D.complete hb)

/-- unambiguity of `Derives`, any non-terminal -/
theorem Derives_unique {X : NT} {toks : List TokV} {a b : Ast} (ha : Derives ns X toks a)
    (hb : Derives ns X toks b) : a = b :=
  D_unique ha hb

end XPathV.Spec.Full
