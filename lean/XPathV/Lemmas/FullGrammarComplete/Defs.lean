import XPathV.Lemmas.FullGrammarComplete.First
/-!
# Completeness of the reference parser: statements

For each function `pX` of the reference parser, `PX ns … ts a` says: on `ts ++ rest`, with any `rest`
that does not continue the construct (a Follow condition on the first token of `rest`) and any fuel
`f ≥ 16·|ts| + k`, the function returns `(a, rest)`.

The left-recursive productions are put in iterative form (`TTail`, `RTail`, `PTail`): a first operand
and a list of (operator, operand) pairs, each operand carrying the parse statement of the next level.
-/
set_option linter.unusedSimpArgs false
namespace XPathV.Spec.Full
open XPathV

/-- the first token of `rest`, if any, does not satisfy `p` -/
def okHead (p : ETok → Bool) : List ETok → Prop
  | [] => True
  | t :: _ => p t = false

theorem okHead.mono {p q : ETok → Bool} {rest : List ETok} (hqp : ∀ t, p t = false → q t = false)
    (h : okHead p rest) : okHead q rest := by
  cases rest with
  | nil => trivial
  | cons t r => exact hqp t h

/-- tokens that continue a RelativeLocationPath or a Step's predicates -/
def isRelCont : ETok → Bool
  | .slash | .slashslash | .lbracket => true
  | _ => false

/-- tokens that may not follow a PathExpr: they would continue it -/
def blkPath : ETok → Bool
  | .slash | .slashslash | .lbracket => true
  | t => stepStart t

/-- tokens that may not follow a UnionExpr -/
def blkU : ETok → Bool
  | .union => true
  | t => blkPath t

/-- tokens that may not follow the non-terminal parsed by `pTier … tiers` -/
def blkT (tiers : List (List (ETok × String))) (t : ETok) : Bool :=
  blkU t || tiers.any (fun ops => (ops.lookup t).isSome)

theorem blkPath_isRelCont (t : ETok) (h : blkPath t = false) : isRelCont t = false := by
  cases t <;> first | rfl | (simp [blkPath, blkU, stepStart, isRelCont] at h)

theorem blkPath_isLb (t : ETok) (h : blkPath t = false) : isLb t = false := by
  cases t <;> first | rfl | (simp [blkPath, blkU, stepStart, isRelCont] at h)

theorem isRelCont_isLb (t : ETok) (h : isRelCont t = false) : isLb t = false := by
  cases t <;> first | rfl | (simp [blkPath, blkU, stepStart, isRelCont] at h)

theorem blkPath_stepStart (t : ETok) (h : blkPath t = false) : stepStart t = false := by
  cases t <;> first | rfl | (simp [blkPath, blkU, stepStart, isRelCont] at h)

theorem blkU_blkPath (t : ETok) (h : blkU t = false) : blkPath t = false := by
  cases t <;> first | rfl | exact h | (simp [blkPath, blkU, stepStart, isRelCont] at h)

theorem blkT_blkU {tiers} (t : ETok) (h : blkT tiers t = false) : blkU t = false := by
  simp only [blkT, Bool.or_eq_false_iff] at h
  exact h.1

theorem blkT_nil (t : ETok) (h : blkU t = false) : blkT [] t = false := by
  simp [blkT, h]

theorem blkT_cons {ops more} (t : ETok) (h : blkT (ops :: more) t = false) :
    ops.lookup t = none ∧ blkT more t = false := by
  simp only [blkT, List.any_cons, Bool.or_eq_false_iff] at h
  refine ⟨?_, ?_⟩
  · have := h.2.1
    cases hl : ops.lookup t <;> simp_all
  · simp only [blkT, Bool.or_eq_false_iff]
    exact ⟨h.1, h.2.2⟩

variable (ns : Option NsMap)

/-! ### parse statements -/

def PStep (inp : Ast) (ts : List ETok) (t : Ast) : Prop :=
  ∀ f rest, okHead isLb rest → 16 * ts.length + 2 ≤ f → pStep ns f inp (ts ++ rest) = some (t, rest)

def PRel (inp : Ast) (ts : List ETok) (t : Ast) : Prop :=
  ∀ f rest, okHead isRelCont rest → 16 * ts.length + 3 ≤ f →
    pRel ns f inp (ts ++ rest) = some (t, rest)

def PPrim (ts : List ETok) (t : Ast) : Prop :=
  ∀ f rest, 16 * ts.length + 1 ≤ f → pPrimary ns f (ts ++ rest) = some (t, rest)

def PFilter (ts : List ETok) (t : Ast) : Prop :=
  ∀ f rest, okHead isLb rest → 16 * ts.length + 2 ≤ f → pFilter ns f (ts ++ rest) = some (t, rest)

def PPath (ts : List ETok) (t : Ast) : Prop :=
  ∀ f rest, okHead blkPath rest → 16 * ts.length + 4 ≤ f → pPath ns f (ts ++ rest) = some (t, rest)

def PUnion (ts : List ETok) (t : Ast) : Prop :=
  ∀ f rest, okHead blkU rest → 16 * ts.length + 5 ≤ f → pUnion ns f (ts ++ rest) = some (t, rest)

def PUnaryRun (n : Nat) (ts : List ETok) (x : Ast) : Prop :=
  ∀ f m rest, okHead blkU rest → 16 * ts.length + 6 ≤ f →
    pUnary ns f m (ts ++ rest) = some (negEnc (m + n) x, rest)

def PTier (tiers : List (List (ETok × String))) (k : Nat) (ts : List ETok) (a : Ast) : Prop :=
  ∀ f rest, okHead (blkT tiers) rest → 16 * ts.length + k ≤ f →
    pTier ns f tiers (ts ++ rest) = some (a, rest)

/-- Expr [14] -/
def PExpr (ts : List ETok) (a : Ast) : Prop := PTier ns upperTiers 19 ts a

def PArgs (ts : List ETok) (as : Ast) : Prop :=
  ∀ f rest, 16 * ts.length + 20 ≤ f → pArgs ns f (ts ++ .rparen :: rest) = some (as, rest)

/-! ### iterative forms of the left-recursive productions -/

/-- `(op operand)*` folded to the left onto `acc` -/
inductive TTail (P : List ETok → Ast → Prop) (ops : List (ETok × String)) :
    Ast → List ETok → Ast → Prop
  | nil {acc} : TTail P ops acc [] acc
  | cons {acc tok op ts r tl res} : (tok, op) ∈ ops → P ts r → TTail P ops (.oper op acc r) tl res →
      TTail P ops acc (tok :: (ts ++ tl)) res

def TSpine (P : List ETok → Ast → Prop) (ops : List (ETok × String)) (ts : List ETok) (a : Ast) :
    Prop :=
  ∃ ts0 l0 tl, ts = ts0 ++ tl ∧ P ts0 l0 ∧ TTail P ops l0 tl a

theorem TTail.snoc {P ops acc tl b tok op ts r} (h : TTail P ops acc tl b) (hm : (tok, op) ∈ ops)
    (hp : P ts r) : TTail P ops acc (tl ++ tok :: ts) (.oper op b r) := by
  induction h with
  | nil => simpa using TTail.cons hm hp .nil
  | cons hm' hp' _ ih => simpa [List.append_assoc] using TTail.cons hm' hp' ih

theorem TTail.head {P ops acc tl b} (h : TTail P ops acc tl b) :
    tl = [] ∨ ∃ tok op r, (tok, op) ∈ ops ∧ tl = tok :: r := by
  cases h with
  | nil => exact .inl rfl
  | cons hm _ _ => exact .inr ⟨_, _, _, hm, rfl⟩

/-- `('/' Step | '//' Step)*` threaded through the inherited tree -/
inductive RTail (S : Ast → List ETok → Ast → Prop) : Ast → List ETok → Ast → Prop
  | nil {acc} : RTail S acc [] acc
  | slash {acc ts t tl res} : S acc ts t → RTail S t tl res → RTail S acc (.slash :: (ts ++ tl)) res
  | dslash {acc ts t tl res} : S (dos acc) ts t → RTail S t tl res →
      RTail S acc (.slashslash :: (ts ++ tl)) res

def RSpine (S : Ast → List ETok → Ast → Prop) (inp : Ast) (ts : List ETok) (a : Ast) : Prop :=
  ∃ ts0 t0 tl, ts = ts0 ++ tl ∧ S inp ts0 t0 ∧ RTail S t0 tl a

theorem RTail.snoc_slash {S acc tl b ts t} (h : RTail S acc tl b) (hs : S b ts t) :
    RTail S acc (tl ++ .slash :: ts) t := by
  induction h with
  | nil => simpa using RTail.slash hs .nil
  | slash hs' _ ih => simpa [List.append_assoc] using RTail.slash hs' (ih hs)
  | dslash hs' _ ih => simpa [List.append_assoc] using RTail.dslash hs' (ih hs)

theorem RTail.snoc_dslash {S acc tl b ts t} (h : RTail S acc tl b) (hs : S (dos b) ts t) :
    RTail S acc (tl ++ .slashslash :: ts) t := by
  induction h with
  | nil => simpa using RTail.dslash hs .nil
  | slash hs' _ ih => simpa [List.append_assoc] using RTail.slash hs' (ih hs)
  | dslash hs' _ ih => simpa [List.append_assoc] using RTail.dslash hs' (ih hs)

theorem RTail.head {S acc tl b} (h : RTail S acc tl b) : okHead isLb tl := by
  cases h <;> first | trivial | rfl

/-- `('[' Expr ']')*` folded onto `acc` -/
inductive PTail (Q : List ETok → Ast → Prop) : Ast → List ETok → Ast → Prop
  | nil {acc} : PTail Q acc [] acc
  | cons {acc ts c tl res} : Q ts c → PTail Q (.filter acc c) tl res →
      PTail Q acc (.lbracket :: (ts ++ .rbracket :: tl)) res

theorem PTail.snoc {Q acc tl b ts c} (h : PTail Q acc tl b) (hq : Q ts c) :
    PTail Q acc (tl ++ .lbracket :: (ts ++ [.rbracket])) (.filter b c) := by
  induction h with
  | nil => simpa using PTail.cons hq .nil
  | cons hq' _ ih => simpa [List.append_assoc] using PTail.cons hq' ih

/-- FilterExpr [20] in iterative form -/
def FSpine (ts : List ETok) (a : Ast) : Prop :=
  ∃ ts0 x tl, ts = ts0 ++ tl ∧ PPrim ns ts0 x ∧ PTail (PExpr ns) x tl a

/-! ### the tiers -/

/-- the tiers `pTier` is called with for each of the non-terminals [21]–[27] -/
def tiersOf : NT → List (List (ETok × String))
  | .OrExpr => upperTiers
  | .AndExpr => upperTiers.drop 1
  | .EqualityExpr => upperTiers.drop 2
  | .RelationalExpr => upperTiers.drop 3
  | .AdditiveExpr => upperTiers.drop 4
  | .MultiplicativeExpr => upperTiers.drop 5
  | _ => []

def kOf : NT → Nat
  | .OrExpr => 19
  | .AndExpr => 17
  | .EqualityExpr => 15
  | .RelationalExpr => 13
  | .AdditiveExpr => 11
  | .MultiplicativeExpr => 9
  | _ => 7

/-- the parse statement of an operand level: `pPath` for PathExpr, `pTier` for [21]–[27] -/
def POperand : NT → List ETok → Ast → Prop
  | .PathExpr => PPath ns
  | X => PTier ns (tiersOf X) (kOf X)

/-- the induction motive: what the derivation of each non-terminal gives -/
def M (X : NT) (ts : List ETok) (a : Ast) : Prop :=
  match X.binary with
  | some (Y, ops) => TSpine (POperand ns Y) ops ts a
  | none =>
    match X with
    | .LocationPath | .AbsoluteLocationPath | .AbbreviatedAbsoluteLocationPath | .PathExpr =>
      PPath ns ts a
    | .RelativeLocationPath inp | .AbbreviatedRelativeLocationPath inp => RSpine (PStep ns) inp ts a
    | .Step inp | .AbbreviatedStep inp => PStep ns inp ts a
    | .Predicates inp => PTail (PExpr ns) inp ts a
    | .Predicate => ∃ ts', ts = .lbracket :: (ts' ++ [.rbracket]) ∧ PExpr ns ts' a
    | .PredicateExpr | .Expr | .Argument => PExpr ns ts a
    | .PrimaryExpr | .FunctionCall => PPrim ns ts a
    | .Arguments => PArgs ns ts a
    | .FilterExpr => FSpine ns ts a
    | .UnaryExpr => PTier ns [] 7 ts a
    | .UnaryRun n => PUnaryRun ns n ts a
    | _ => True

end XPathV.Spec.Full
