import XPathV.Lemmas.FullGrammarComplete.Heads
/-!
# Completeness of the reference parser: induction on the derivation
-/
set_option linter.unusedSimpArgs false
namespace XPathV.Spec.Full
open XPathV

variable {ns : Option NsMap}

theorem huniq_of {ops : List (ETok × String)}
    (h : (ops.all fun p => ops.lookup p.1 == some p.2) = true) :
    ∀ tok op, (tok, op) ∈ ops → ops.lookup tok = some op := by
  intro tok op hm
  have := List.all_eq_true.mp h (tok, op) hm
  simpa using this

theorem hsep_of {ops : List (ETok × String)} {more : List (List (ETok × String))}
    (h : (ops.all fun p => !blkT more p.1) = true) :
    ∀ tok op, (tok, op) ∈ ops → blkT more tok = false := by
  intro tok op hm
  have := List.all_eq_true.mp h (tok, op) hm
  simpa using this

/-- one tier: the iterative form over the next tier's parse statement gives this tier's -/
theorem tier_step {ops : List (ETok × String)} {more : List (List (ETok × String))} {k : Nat}
    (hu : (ops.all fun p => ops.lookup p.1 == some p.2) = true)
    (hs : (ops.all fun p => !blkT more p.1) = true)
    {ts : List ETok} {a : Ast} (h : TSpine (PTier ns more k) ops ts a) :
    PTier ns (ops :: more) (k + 2) ts a :=
  tier_of_spine (huniq_of hu) (hsep_of hs) h

theorem mul_of_M {ts a} (h : M ns .MultiplicativeExpr ts a) : POperand ns .MultiplicativeExpr ts a :=
  tier_step (more := []) (k := 7) (by decide) (by decide) h

theorem add_of_M {ts a} (h : M ns .AdditiveExpr ts a) : POperand ns .AdditiveExpr ts a :=
  tier_step (more := upperTiers.drop 5) (k := 9) (by decide) (by decide) h

theorem rel_of_M {ts a} (h : M ns .RelationalExpr ts a) : POperand ns .RelationalExpr ts a :=
  tier_step (more := upperTiers.drop 4) (k := 11) (by decide) (by decide) h

theorem eq_of_M {ts a} (h : M ns .EqualityExpr ts a) : POperand ns .EqualityExpr ts a :=
  tier_step (more := upperTiers.drop 3) (k := 13) (by decide) (by decide) h

theorem and_of_M {ts a} (h : M ns .AndExpr ts a) : POperand ns .AndExpr ts a :=
  tier_step (more := upperTiers.drop 2) (k := 15) (by decide) (by decide) h

theorem or_of_M {ts a} (h : M ns .OrExpr ts a) : PExpr ns ts a :=
  tier_step (more := upperTiers.drop 1) (k := 17) (by decide) (by decide) h

/-- the motive of an operand non-terminal gives its parse statement -/
theorem operand_of_M {X Y : NT} {ops : List (ETok × String)} (hb : X.binary = some (Y, ops))
    {ts a} (h : M ns Y ts a) : POperand ns Y ts a := by
  cases X <;> simp [NT.binary] at hb <;> obtain ⟨rfl, rfl⟩ := hb
  · exact h
  · exact and_of_M h
  · exact eq_of_M h
  · exact rel_of_M h
  · exact add_of_M h
  · exact mul_of_M h
  · exact h

theorem M_binary {X Y : NT} {ops : List (ETok × String)} (hb : X.binary = some (Y, ops))
    (ts : List ETok) (a : Ast) : M ns X ts a = TSpine (POperand ns Y) ops ts a := by
  simp only [M, hb]

/-- **The induction**: every derivation gives the parse statement of its non-terminal. -/
theorem D.complete {X : NT} {ts : List ETok} {a : Ast} (h : D ns X ts a) : M ns X ts a := by
  induction h with
  | @loc_rel ts t hd ih =>
    show PPath ns ts t
    have hrel : PRel ns .none ts t := rel_of_spine ih
    obtain ⟨t0, r, rfl, ht⟩ := (show SW stepStart ts from hd.first).exists
    intro f rest hr hf
    obtain ⟨g, rfl⟩ := exists_succ f (by omega)
    rw [List.cons_append, pPath_step ht]
    exact hrel g rest (hr.mono blkPath_isRelCont) (by omega)
  | loc_abs _ ih => exact ih
  | abs_root =>
    show PPath ns [.slash] (.root "/")
    intro f rest hr hf
    obtain ⟨g, rfl⟩ := exists_succ f (by omega)
    simp [pPath, startsStep_false hr]
  | @abs_rel ts t hd ih =>
    show PPath ns (.slash :: ts) t
    have hrel : PRel ns (.root "/") ts t := rel_of_spine ih
    intro f rest hr hf
    obtain ⟨g, rfl⟩ := exists_succ f (by omega)
    simp only [List.length_cons] at hf
    have e := hrel g rest (hr.mono blkPath_isRelCont) (by omega)
    simp [pPath, startsStep_true (show SW stepStart ts from hd.first) rest, e]
  | abs_abbrev _ ih => exact ih
  | @rel_step inp ts t _ ih => exact ⟨ts, t, [], by simp, ih, .nil⟩
  | @rel_slash inp ts₁ ts₂ t₁ t₂ _ _ ih₁ ih₂ =>
    obtain ⟨ts0, t0, tl, rfl, hs, htl⟩ := ih₁
    exact ⟨ts0, t0, tl ++ .slash :: ts₂, by simp, hs, htl.snoc_slash ih₂⟩
  | rel_abbrev _ ih => exact ih
  | @step inp ts₁ ts₂ ts₃ ax info t h₁ h₂ _ ih =>
    show PStep ns inp (ts₁ ++ ts₂ ++ ts₃) t
    intro f rest hr hf
    obtain ⟨g, rfl⟩ := exists_succ f (by omega)
    simp only [List.length_append] at hf
    rw [List.append_assoc (ts₁ ++ ts₂), pStep_axis h₁ h₂]
    exact preds_loop ih g rest hr (by omega)
  | step_abbrev _ ih => exact ih
  | preds_nil => exact .nil
  | @preds_snoc t₀ ts₁ ts₂ t c _ _ ih₁ ih₂ =>
    obtain ⟨ts', rfl, hq⟩ := ih₂
    exact PTail.snoc ih₁ hq
  | @predicate ts c _ ih => exact ⟨ts, by simp, ih⟩
  | predicateExpr _ ih => exact ih
  | @abbrevAbs ts t _ ih =>
    show PPath ns (.slashslash :: ts) t
    have hrel : PRel ns (dos (.root "/")) ts t := rel_of_spine ih
    intro f rest hr hf
    obtain ⟨g, rfl⟩ := exists_succ f (by omega)
    simp only [List.length_cons] at hf
    have e := hrel g rest (hr.mono blkPath_isRelCont) (by omega)
    simp [pPath, e]
  | @abbrevRel inp ts₁ ts₂ t₁ t₂ _ _ ih₁ ih₂ =>
    obtain ⟨ts0, t0, tl, rfl, hs, htl⟩ := ih₁
    exact ⟨ts0, t0, tl ++ .slashslash :: ts₂, by simp, hs, htl.snoc_dslash ih₂⟩
  | @dot inp =>
    show PStep ns inp [.dot] _
    intro f rest hr hf
    obtain ⟨g, rfl⟩ := exists_succ f (by omega)
    simp [pStep]
  | @dotdot inp =>
    show PStep ns inp [.dotdot] _
    intro f rest hr hf
    obtain ⟨g, rfl⟩ := exists_succ f (by omega)
    simp [pStep]
  | expr _ ih => exact or_of_M ih
  | @prim_var p l =>
    show PPrim ns [.varRef p l] _
    intro f rest hf
    obtain ⟨g, rfl⟩ := exists_succ f (by omega)
    simp [pPrimary]
  | @prim_group ts t _ ih =>
    show PPrim ns ([.lparen] ++ ts ++ [.rparen]) (.group t)
    intro f rest hf
    obtain ⟨g, rfl⟩ := exists_succ f (by omega)
    simp only [List.length_append, List.length_cons, List.length_nil] at hf
    have e := (show PExpr ns ts t from ih) g (.rparen :: rest) blkT_upper_rparen (by omega)
    simp [pPrimary, e]
  | @prim_literal s =>
    show PPrim ns [.literal s] _
    intro f rest hf
    obtain ⟨g, rfl⟩ := exists_succ f (by omega)
    simp [pPrimary]
  | @prim_number s =>
    show PPrim ns [.number s] _
    intro f rest hf
    obtain ⟨g, rfl⟩ := exists_succ f (by omega)
    simp [pPrimary]
  | prim_call _ ih => exact ih
  | @call_nil p fn =>
    show PPrim ns [.funcName p fn, .lparen, .rparen] _
    intro f rest hf
    obtain ⟨g, rfl⟩ := exists_succ f (by omega)
    simp [pPrimary]
  | @call_args p fn ts as hd ih =>
    show PPrim ns ([.funcName p fn, .lparen] ++ ts ++ [.rparen]) _
    obtain ⟨t0, r, rfl, ht⟩ := (show SW exprStart ts from hd.first).exists
    intro f rest hf
    obtain ⟨g, rfl⟩ := exists_succ f (by omega)
    simp only [List.length_append, List.length_cons, List.length_nil] at hf
    have e := (show PArgs ns (t0 :: r) as from ih) g rest (by simp only [List.length_cons]; omega)
    simp only [List.cons_append, List.nil_append, List.append_assoc] at e ⊢
    exact pPrimary_call ht p fn e
  | @args_one ts a _ ih =>
    show PArgs ns ts _
    intro f rest hf
    obtain ⟨g, rfl⟩ := exists_succ f (by omega)
    have e := (show PExpr ns ts a from ih) g (.rparen :: rest) blkT_upper_rparen (by omega)
    simp [pArgs, e]
  | @args_cons ts₁ ts₂ a as _ _ ih₁ ih₂ =>
    show PArgs ns (ts₁ ++ [.comma] ++ ts₂) _
    intro f rest hf
    obtain ⟨g, rfl⟩ := exists_succ f (by omega)
    simp only [List.length_append, List.length_cons, List.length_nil] at hf
    have e₁ := (show PExpr ns ts₁ a from ih₁) g (.comma :: (ts₂ ++ .rparen :: rest)) blkT_upper_comma
      (by omega)
    have e₂ := (show PArgs ns ts₂ as from ih₂) g rest (by omega)
    simp [pArgs, e₁, e₂]
  | argument _ ih => exact ih
  | path_loc _ ih => exact ih
  | @path_filter ts t hd ih =>
    show PPath ns ts t
    have hfl : PFilter ns ts t := filter_of_spine ih
    obtain ⟨t0, r, rfl, ht⟩ := (show SW primStart ts from hd.first).exists
    intro f rest hr hf
    obtain ⟨g, rfl⟩ := exists_succ f (by omega)
    have e := hfl g rest (hr.mono blkPath_isLb) (by omega)
    exact pPath_prim_stop ht e hr
  | @path_slash ts₁ ts₂ x t hd _ ih₁ ih₂ =>
    show PPath ns (ts₁ ++ [.slash] ++ ts₂) t
    have hfl : PFilter ns ts₁ x := filter_of_spine ih₁
    have hrel : PRel ns x ts₂ t := rel_of_spine ih₂
    obtain ⟨t0, r, rfl, ht⟩ := (show SW primStart ts₁ from hd.first).exists
    intro f rest hr hf
    obtain ⟨g, rfl⟩ := exists_succ f (by omega)
    simp only [List.length_append, List.length_cons, List.length_nil] at hf
    have e := hfl g (.slash :: (ts₂ ++ rest)) rfl (by simp only [List.length_cons]; omega)
    simp only [List.cons_append, List.nil_append, List.append_assoc] at e ⊢
    rw [pPath_prim_slash ht e]
    exact hrel g rest (hr.mono blkPath_isRelCont) (by omega)
  | @path_slashslash ts₁ ts₂ x t hd _ ih₁ ih₂ =>
    show PPath ns (ts₁ ++ [.slashslash] ++ ts₂) t
    have hfl : PFilter ns ts₁ x := filter_of_spine ih₁
    have hrel : PRel ns (dos x) ts₂ t := rel_of_spine ih₂
    obtain ⟨t0, r, rfl, ht⟩ := (show SW primStart ts₁ from hd.first).exists
    intro f rest hr hf
    obtain ⟨g, rfl⟩ := exists_succ f (by omega)
    simp only [List.length_append, List.length_cons, List.length_nil] at hf
    have e := hfl g (.slashslash :: (ts₂ ++ rest)) rfl (by simp only [List.length_cons]; omega)
    simp only [List.cons_append, List.nil_append, List.append_assoc] at e ⊢
    rw [pPath_prim_dslash ht e]
    exact hrel g rest (hr.mono blkPath_isRelCont) (by omega)
  | @filter_prim ts t _ ih => exact ⟨ts, t, [], by simp, ih, .nil⟩
  | @filter_pred ts₁ ts₂ x c _ _ ih₁ ih₂ =>
    obtain ⟨ts0, x0, tl, rfl, hp, htl⟩ := ih₁
    obtain ⟨ts', rfl, hq⟩ := ih₂
    exact ⟨ts0, x0, tl ++ .lbracket :: (ts' ++ [.rbracket]), by simp, hp, htl.snoc hq⟩
  | @up X Y ops ts t hb _ ih =>
    rw [M_binary hb]
    exact ⟨ts, t, [], by simp, operand_of_M hb ih, .nil⟩
  | @bin X Y ops tok op ts₁ ts₂ l r hb hm _ _ ih₁ ih₂ =>
    rw [M_binary hb] at ih₁ ⊢
    obtain ⟨ts0, l0, tl, rfl, hp, htl⟩ := ih₁
    exact ⟨ts0, l0, tl ++ tok :: ts₂, by simp, hp, htl.snoc hm (operand_of_M hb ih₂)⟩
  | @unary_union ts x hd ih =>
    show PUnaryRun ns 0 ts x
    have hu : PUnion ns ts x := union_of_spine ih
    obtain ⟨t0, r, rfl, ht⟩ := (show SW pathStart ts from hd.first).exists
    intro f m rest hr hf
    obtain ⟨g, rfl⟩ := exists_succ f (by omega)
    have e := hu g rest hr (by omega)
    exact pUnary_union ht m e
  | @unary_minus n ts x _ ih =>
    show PUnaryRun ns (n + 1) (.minus :: ts) x
    intro f m rest hr hf
    obtain ⟨g, rfl⟩ := exists_succ f (by omega)
    simp only [List.length_cons] at hf
    have e := (show PUnaryRun ns n ts x from ih) g (m + 1) rest hr (by omega)
    simp only [List.cons_append, pUnary, e]
    simp [Nat.add_assoc, Nat.add_comm 1 n]
  | @unary n ts x _ ih =>
    show PTier ns [] 7 ts (negEnc n x)
    intro f rest hr hf
    obtain ⟨g, rfl⟩ := exists_succ f (by omega)
    have e := (show PUnaryRun ns n ts x from ih) g 0 rest (hr.mono (fun t => blkT_blkU t)) (by omega)
    simp only [pTier, e, Nat.zero_add]

end XPathV.Spec.Full
