import XPathV.Lemmas.FlatFiltered
import XPathV.Lemmas.ParserFuel
import XPathV.Lemmas.NameSem.ScanKeep
import XPathV.Lemmas.NameSem.RePrefix
/-!
# C14 — name tests, namespaces and the name functions, end to end

1. parser: the `AxisInfo` `parseNodeTest` records for a name token (`parseNodeTest_name_spec`,
   `parse_name_noMap/_bound/_unprefixed/_unbound`, `parseNodeTest_star_spec`)
2. one step on every axis (`step_ctx`, `step_noNS`, `step_NS`, `step_NS_noIface`, `step_star`,
   `test_prefix_wildcard`), prefix irrelevance (`prefix_irrelevant` node level,
   `prefix_irrelevant_step/_path/_rePrefix` document level; helper `NameSem/RePrefix.lean`)
3. predicate-free paths of name tests through `build` (`C14_main`, `nameDen`), one-step texts
   through `parse` and `compile` (`parse_one_step`, `parse_name_text'`, `parse_attr_text'`,
   `parse_axis_text'`, `compile_step`, `compile_sem_bound`, `compile_sem_noNS`,
   `compile_err_unbound`, `compileWithNS_name/_attr/_axis`, …; helper `NameSem/ScanKeep.lean`),
   concrete texts through the real scanner (`ex_*`)
4. the name functions through the builder (`name0_sem`, `name1_path_sem`, `name1_flat_sem`)
-/
namespace XPathV.NameSem
open XPathV XPathV.Model XPathV.PathSem XPathV.ArithSem XPathV.FlatFiltered

variable {F : Type} [NumAlg F]

/-! ## 1. the parser: what a name token becomes -/

/-- the local name `parseNodeTest` records: the name of the token, except that the name `*` (the
scanner's rendering of `pfx:*`) stands for "any local name" and is recorded as the empty name.  It is
decided on the name token itself, before the token is consumed. -/
def scannedLocal (st : PState) : String := if st.s.name == "*" then "" else st.s.name

/-- the `AxisInfo` of a name test `pfx:lname` (or `lname`, `pfx = ""`) under the namespace map `ns`;
`none`: the prefix is not bound.  No binding is ever applied to an unprefixed name. -/
def nameInfo (ns : Option (List (String × String))) (axis : String) (mt : NType) (pfx lname : String) :
    Option AxisInfo :=
  if pfx = "" then some ⟨axis, mt, "", lname, "", false, ""⟩ else
  match ns with
  | none => some ⟨axis, mt, pfx, lname, "", false, ""⟩
  | some m =>
    match m.lookup pfx with
    | some uri => some ⟨axis, mt, pfx, lname, "", true, uri⟩
    | none => none

/-- **parser, name tokens**: for a name token that is not a node-type test, `parseNodeTest` consumes
exactly that token and yields the step whose `AxisInfo` is `nameInfo …`, or fails with
`prefixUndefined` when there is a map that does not bind the prefix -/
theorem parseNodeTest_name_spec (cfg : PCfg) (inp : Ast) (axis : String) (mt : NType) (st st1 : PState)
    (ht : st.s.typ = .name) (hnf : (st.s.canBeFunc && isNodeType st.s) = false)
    (hnext : st.next = .ok st1) :
    parseNodeTest cfg inp axis mt st =
      match nameInfo cfg.ns axis mt st.s.pfx (scannedLocal st) with
      | some a => .ok (.axis a inp, st1)
      | none => .error .prefixUndefined := by
  unfold parseNodeTest nameInfo scannedLocal
  simp only [ht, hnf, hnext, bind, Except.bind, Bool.false_eq_true, ↓reduceIte, mkAxis, pure, Except.pure]
  by_cases hp : st.s.pfx = ""
  · simp [hp]
  · simp only [bne_iff_ne, ne_eq, hp, not_false_eq_true, ↓reduceIte]
    cases cfg.ns with
    | none => rfl
    | some m =>
      simp only []
      cases m.lookup st.s.pfx <;> rfl

/-- the `*` token: any name, no namespace -/
theorem parseNodeTest_star_spec (cfg : PCfg) (inp : Ast) (axis : String) (mt : NType) (st st1 : PState)
    (ht : st.s.typ = .star) (hnext : st.next = .ok st1) :
    parseNodeTest cfg inp axis mt st = .ok (.axis ⟨axis, mt, "", "", "", false, ""⟩ inp, st1) := by
  simp [parseNodeTest, ht, hnext, bind, Except.bind, mkAxis, pure, Except.pure]

/-- no namespace map (`Compile`): `hasNS = false`, prefix and local name as scanned -/
theorem parse_name_noMap (cfg : PCfg) (inp : Ast) (axis : String) (mt : NType) (st st1 : PState)
    (hns : cfg.ns = none)
    (ht : st.s.typ = .name) (hnf : (st.s.canBeFunc && isNodeType st.s) = false)
    (hnext : st.next = .ok st1) :
    parseNodeTest cfg inp axis mt st =
      .ok (.axis ⟨axis, mt, st.s.pfx, scannedLocal st, "", false, ""⟩ inp, st1) := by
  rw [parseNodeTest_name_spec cfg inp axis mt st st1 ht hnf hnext, hns]
  unfold nameInfo
  by_cases hp : st.s.pfx = ""
  · simp [hp]
  · simp [hp]

/-- a map that binds the prefix (`CompileWithNS`): `hasNS = true`, `nsURI` = the bound URI -/
theorem parse_name_bound (cfg : PCfg) (m : List (String × String)) (uri : String) (inp : Ast) (axis : String)
    (mt : NType) (st st1 : PState) (hns : cfg.ns = some m)
    (ht : st.s.typ = .name) (hnf : (st.s.canBeFunc && isNodeType st.s) = false)
    (hp : st.s.pfx ≠ "") (hl : m.lookup st.s.pfx = some uri) (hnext : st.next = .ok st1) :
    parseNodeTest cfg inp axis mt st =
      .ok (.axis ⟨axis, mt, st.s.pfx, scannedLocal st, "", true, uri⟩ inp, st1) := by
  rw [parseNodeTest_name_spec cfg inp axis mt st st1 ht hnf hnext, hns]
  simp [nameInfo, hp, hl]

/-- an unprefixed name is never given a namespace, whatever the map says (XPath 1.0 §2.3: an
unprefixed name test is in no namespace; there is no default namespace for name tests) -/
theorem parse_name_unprefixed (cfg : PCfg) (inp : Ast) (axis : String) (mt : NType) (st st1 : PState)
    (ht : st.s.typ = .name) (hnf : (st.s.canBeFunc && isNodeType st.s) = false)
    (hp : st.s.pfx = "") (hnext : st.next = .ok st1) :
    parseNodeTest cfg inp axis mt st =
      .ok (.axis ⟨axis, mt, "", scannedLocal st, "", false, ""⟩ inp, st1) := by
  rw [parseNodeTest_name_spec cfg inp axis mt st st1 ht hnf hnext]
  simp [nameInfo, hp]

/-- a map that does not bind the prefix: compile error -/
theorem parse_name_unbound (cfg : PCfg) (m : List (String × String)) (inp : Ast) (axis : String)
    (mt : NType) (st st1 : PState) (hns : cfg.ns = some m)
    (ht : st.s.typ = .name) (hnf : (st.s.canBeFunc && isNodeType st.s) = false)
    (hp : st.s.pfx ≠ "") (hl : m.lookup st.s.pfx = none) (hnext : st.next = .ok st1) :
    parseNodeTest cfg inp axis mt st = .error .prefixUndefined := by
  rw [parseNodeTest_name_spec cfg inp axis mt st st1 ht hnf hnext, hns]
  simp [nameInfo, hp, hl]

/-- `pfx:local` / `local`: when the token's name is not `*`, the recorded local name is the scanned
one (whatever token follows) -/
theorem scannedLocal_name (st : PState) (hne : st.s.name ≠ "*") :
    scannedLocal st = st.s.name := by
  simp [scannedLocal, hne]

/-- `pfx:*`: the scanner delivers the name `*`; the recorded local name is empty -/
theorem scannedLocal_star (st : PState) (he : st.s.name = "*") :
    scannedLocal st = "" := by
  simp [scannedLocal, he]

/-! ## 2. one step, every axis -/

/-- **one step from the context node, any of the twelve axes, any node test**: the plain plan of the
step yields exactly the nodes of the XPath axis (oracle `Spec.axisNodes`) that pass the engine's
node test.  No assumption on `cfg.nsIface`. -/
theorem step_ctx {d : Doc} (wf : WF d) (cfg : ECfg) (hinj : HashInj d cfg) (a : AxisInfo)
    (ha : a.axis ∈ axes12) (c : Ref) (hc : validRef d c = true) :
    ∃ out, sel (F := F) d cfg (stepPlan a .context) c = .ok out ∧
      ∀ x, x ∈ refs out ↔
        (x ∈ (Spec.axisNodes d a.axis c).getD [] ∧ nodeTestM d cfg a x = true) := by
  obtain ⟨out, hout, hmem⟩ := stepPlan_sem (F := F) d cfg hinj a ha .context c [⟨c, 1, 0⟩]
    (by intro o ho; simp only [refs, List.map_cons, List.map_nil, List.mem_cons, List.not_mem_nil,
          or_false] at ho; rw [ho]; exact hc)
    (sel_context d cfg c)
  refine ⟨out, hout, fun x => ?_⟩
  rw [hmem]
  simp only [refs, List.map_cons, List.map_nil, List.mem_cons, List.not_mem_nil, or_false,
    exists_eq_left, List.mem_filter, test]
  rw [axisRefsM_spec wf c hc a.axis ha x]

/-! ### the three regimes of the name test -/

/-- no namespace information in the step (`Compile`, or an unprefixed name): principal node type,
equal prefix, equal local name -/
theorem test_noNS (d : Doc) (cfg : ECfg) (axis : String) (mt : NType) (pfx lname prop : String) (uri : String)
    (hmt : mt ≠ .all) (hl : lname ≠ "") (x : Ref) :
    nodeTestM d cfg ⟨axis, mt, pfx, lname, prop, false, uri⟩ x = true ↔
      (nodeType d x = mt ∧ prefixOf d x = pfx ∧ localName d x = lname) := by
  simp only [nodeTestM, hl, false_or, bne_iff_ne, ne_eq, not_false_eq_true, true_or, ↓reduceIte, Bool.and_false,
    Bool.false_eq_true, Bool.and_eq_true, Bool.or_eq_true, beq_iff_eq]
  constructor
  · rintro ⟨h1 | h1, h2, h3⟩
    · exact ⟨h1.symm, h3.symm, h2.symm⟩
    · exact absurd h1 hmt
  · rintro ⟨h1, h2, h3⟩
    exact ⟨Or.inl h1.symm, h3.symm, h2.symm⟩

/-- a bound prefix (`CompileWithNS`) and a navigator with `NamespaceURL()`: principal node type,
equal namespace URI, equal local name — the prefix of the node is not looked at -/
theorem test_NS (d : Doc) (cfg : ECfg) (hi : cfg.nsIface = true) (axis : String) (mt : NType)
    (pfx lname prop uri : String) (hmt : mt ≠ .all) (hl : lname ≠ "") (x : Ref) :
    nodeTestM d cfg ⟨axis, mt, pfx, lname, prop, true, uri⟩ x = true ↔
      (nodeType d x = mt ∧ nsURL d x = uri ∧ localName d x = lname) := by
  simp only [nodeTestM, hl, hi, false_or, bne_iff_ne, ne_eq, not_false_eq_true, true_or, ↓reduceIte, Bool.and_self,
    Bool.and_eq_true, Bool.or_eq_true, beq_iff_eq]
  constructor
  · rintro ⟨h1 | h1, h2, h3⟩
    · exact ⟨h1.symm, h3.symm, h2.symm⟩
    · exact absurd h1 hmt
  · rintro ⟨h1, h2, h3⟩
    exact ⟨Or.inl h1.symm, h3.symm, h2.symm⟩

/-- a bound prefix but a navigator *without* `NamespaceURL()` (`cfg.nsIface = false`): Go's
`axisPredicate` falls back to the textual comparison — the URI is ignored and the prefix written in
the expression is compared with the prefix used in the document -/
theorem test_NS_noIface (d : Doc) (cfg : ECfg) (hi : cfg.nsIface = false) (axis : String) (mt : NType)
    (pfx lname prop uri : String) (hmt : mt ≠ .all) (hl : lname ≠ "") (x : Ref) :
    nodeTestM d cfg ⟨axis, mt, pfx, lname, prop, true, uri⟩ x = true ↔
      (nodeType d x = mt ∧ prefixOf d x = pfx ∧ localName d x = lname) := by
  simp only [nodeTestM, hl, hi, false_or, bne_iff_ne, ne_eq, not_false_eq_true, true_or, ↓reduceIte, Bool.false_and,
    Bool.false_eq_true, Bool.and_eq_true, Bool.or_eq_true, beq_iff_eq]
  constructor
  · rintro ⟨h1 | h1, h2, h3⟩
    · exact ⟨h1.symm, h3.symm, h2.symm⟩
    · exact absurd h1 hmt
  · rintro ⟨h1, h2, h3⟩
    exact ⟨Or.inl h1.symm, h3.symm, h2.symm⟩

/-- `*`: every node of the principal type -/
theorem test_star (d : Doc) (cfg : ECfg) (axis : String) (mt : NType) (prop uri : String) (hn : Bool)
    (hmt : mt ≠ .all) (x : Ref) :
    nodeTestM d cfg ⟨axis, mt, "", "", prop, hn, uri⟩ x = true ↔ nodeType d x = mt := by
  simp only [nodeTestM, bne_self_eq_false, Bool.or_self, Bool.false_eq_true, ↓reduceIte, Bool.and_true,
    Bool.or_eq_true, beq_iff_eq]
  constructor
  · rintro (h | h)
    · exact h.symm
    · exact absurd h hmt
  · intro h; exact Or.inl h.symm

/-- `pfx:*` — XPath 1.0's `NCName:*` (after the repair of `axisPredicate`, which used to compare the
empty local name the parser records): every node of the principal type whose name is in the
namespace of the prefix — the URI bound to it with a map and a navigator exposing URIs, the same
prefix otherwise — whatever its local name -/
theorem test_prefix_wildcard (d : Doc) (cfg : ECfg) (axis : String) (mt : NType)
    (pfx prop uri : String) (hn : Bool) (hmt : mt ≠ .all) (hp : pfx ≠ "") (x : Ref) :
    nodeTestM d cfg ⟨axis, mt, pfx, "", prop, hn, uri⟩ x = true ↔
      (nodeType d x = mt ∧ (if (cfg.nsIface && hn) = true then nsURL d x = uri else prefixOf d x = pfx)) := by
  simp only [nodeTestM, hp, bne_iff_ne, ne_eq, not_false_eq_true, or_true, ↓reduceIte,
    Bool.and_eq_true, Bool.or_eq_true, beq_iff_eq, beq_self_eq_true, Bool.true_or, Bool.true_and]
  constructor
  · rintro ⟨h1 | h1, h2⟩
    · refine ⟨h1.symm, ?_⟩
      split at h2
      · rename_i hc; rw [if_pos (by simpa using hc)]; exact (beq_iff_eq.1 h2).symm
      · rename_i hc; rw [if_neg (by simpa using hc)]; exact (beq_iff_eq.1 h2).symm
    · exact absurd h1 hmt
  · rintro ⟨h1, h2⟩
    refine ⟨Or.inl h1.symm, ?_⟩
    split
    · rename_i hc; rw [if_pos (by simpa using hc)] at h2; exact beq_iff_eq.2 h2.symm
    · rename_i hc; rw [if_neg (by simpa using hc)] at h2; exact beq_iff_eq.2 h2.symm

/-! ### the step theorems -/

section Steps
variable {d : Doc} (wf : WF d) (cfg : ECfg) (hinj : HashInj d cfg)
include wf hinj

/-- **no namespace map** (or an unprefixed name under any map): from every valid context node, on
each of the twelve axes, the step `axis::pfx:lname` (`pfx` possibly empty) selects exactly the nodes
on the axis of the principal node type whose prefix *and* local name are those of the test; in
particular an unprefixed test (`pfx = ""`) selects only unprefixed nodes -/
theorem step_noNS (axis : String) (ha : axis ∈ axes12) (mt : NType) (hmt : mt ≠ .all)
    (pfx lname : String) (hl : lname ≠ "") (c : Ref) (hc : validRef d c = true) :
    ∃ out, sel (F := F) d cfg (stepPlan ⟨axis, mt, pfx, lname, "", false, ""⟩ .context) c = .ok out ∧
      ∀ x, x ∈ refs out ↔
        (x ∈ (Spec.axisNodes d axis c).getD [] ∧
          nodeType d x = mt ∧ prefixOf d x = pfx ∧ localName d x = lname) := by
  obtain ⟨out, h1, h2⟩ := step_ctx (F := F) wf cfg hinj ⟨axis, mt, pfx, lname, "", false, ""⟩ ha c hc
  exact ⟨out, h1, fun x => by rw [h2 x, test_noNS d cfg axis mt pfx lname "" "" hmt hl x]⟩

/-- an unprefixed test selects only unprefixed nodes -/
theorem step_unprefixed_only (axis : String) (ha : axis ∈ axes12) (mt : NType) (hmt : mt ≠ .all)
    (lname : String) (hl : lname ≠ "") (c : Ref) (hc : validRef d c = true) (out : List Item)
    (h : sel (F := F) d cfg (stepPlan ⟨axis, mt, "", lname, "", false, ""⟩ .context) c = .ok out) :
    ∀ x ∈ refs out, prefixOf d x = "" := by
  obtain ⟨out', h1, h2⟩ := step_noNS (F := F) wf cfg hinj axis ha mt hmt "" lname hl c hc
  rw [h] at h1; cases h1
  intro x hx
  exact ((h2 x).1 hx).2.2.1

/-- **bound prefix, navigator with `NamespaceURL()`**: the step selects exactly the nodes on the
axis of the principal node type whose namespace URI is the one bound to the prefix and whose local
name is the test's — `prefixOf d x` does not occur -/
theorem step_NS (hi : cfg.nsIface = true) (axis : String) (ha : axis ∈ axes12) (mt : NType) (hmt : mt ≠ .all)
    (pfx lname uri : String) (hl : lname ≠ "") (c : Ref) (hc : validRef d c = true) :
    ∃ out, sel (F := F) d cfg (stepPlan ⟨axis, mt, pfx, lname, "", true, uri⟩ .context) c = .ok out ∧
      ∀ x, x ∈ refs out ↔
        (x ∈ (Spec.axisNodes d axis c).getD [] ∧
          nodeType d x = mt ∧ nsURL d x = uri ∧ localName d x = lname) := by
  obtain ⟨out, h1, h2⟩ := step_ctx (F := F) wf cfg hinj ⟨axis, mt, pfx, lname, "", true, uri⟩ ha c hc
  exact ⟨out, h1, fun x => by rw [h2 x, test_NS d cfg hi axis mt pfx lname "" uri hmt hl x]⟩

/-- **bound prefix, navigator without `NamespaceURL()`**: the binding is ignored; the step matches
by (prefix as written in the expression, local name) against the document's prefixes -/
theorem step_NS_noIface (hi : cfg.nsIface = false) (axis : String) (ha : axis ∈ axes12) (mt : NType)
    (hmt : mt ≠ .all) (pfx lname uri : String) (hl : lname ≠ "") (c : Ref) (hc : validRef d c = true) :
    ∃ out, sel (F := F) d cfg (stepPlan ⟨axis, mt, pfx, lname, "", true, uri⟩ .context) c = .ok out ∧
      ∀ x, x ∈ refs out ↔
        (x ∈ (Spec.axisNodes d axis c).getD [] ∧
          nodeType d x = mt ∧ prefixOf d x = pfx ∧ localName d x = lname) := by
  obtain ⟨out, h1, h2⟩ := step_ctx (F := F) wf cfg hinj ⟨axis, mt, pfx, lname, "", true, uri⟩ ha c hc
  exact ⟨out, h1, fun x => by rw [h2 x, test_NS_noIface d cfg hi axis mt pfx lname "" uri hmt hl x]⟩

/-- `axis::*`: all nodes of the principal type on the axis -/
theorem step_star (axis : String) (ha : axis ∈ axes12) (mt : NType) (hmt : mt ≠ .all)
    (c : Ref) (hc : validRef d c = true) :
    ∃ out, sel (F := F) d cfg (stepPlan ⟨axis, mt, "", "", "", false, ""⟩ .context) c = .ok out ∧
      ∀ x, x ∈ refs out ↔ (x ∈ (Spec.axisNodes d axis c).getD [] ∧ nodeType d x = mt) := by
  obtain ⟨out, h1, h2⟩ := step_ctx (F := F) wf cfg hinj ⟨axis, mt, "", "", "", false, ""⟩ ha c hc
  exact ⟨out, h1, fun x => by rw [h2 x, test_star d cfg axis mt "" "" false hmt x]⟩

end Steps

/-- the step as the *builder* makes it (`axisPlan`, outermost step over the context node) has the
sequence of the plain plan -/
theorem step_built (d : Doc) (cfg : ECfg) (a : AxisInfo) (ha : a.axis ∈ axes12) (c : Ref) :
    ∃ p pr, axisPlan a {} {} .context = .ok (p, pr) ∧
      sel (F := F) d cfg p c = sel (F := F) d cfg (stepPlan a .context) c := by
  obtain ⟨q, pr', hq, hsel⟩ := axisPlan_sel (F := F) a ha {} rfl {} .context
  exact ⟨q, pr', hq, hsel d cfg c⟩

/-! ### the prefix used in the document is irrelevant under a namespace map -/

/-- node level: under a binding (and `NamespaceURL()`), two nodes — of the same or of different
documents — with the same node type, namespace URI and local name are matched alike by every
name test, whatever their prefixes -/
theorem prefix_irrelevant (d₁ d₂ : Doc) (cfg : ECfg) (hi : cfg.nsIface = true) (a : AxisInfo)
    (hn : a.hasNS = true) (r₁ r₂ : Ref) (ht : nodeType d₁ r₁ = nodeType d₂ r₂)
    (hu : nsURL d₁ r₁ = nsURL d₂ r₂) (hl : localName d₁ r₁ = localName d₂ r₂) :
    nodeTestM d₁ cfg a r₁ = nodeTestM d₂ cfg a r₂ := by
  simp only [nodeTestM, hi, hn, Bool.and_self, ↓reduceIte, ht, hu, hl]

/-! ## 4. the name functions through the builder -/

def nameFns : List String := ["name", "local-name", "namespace-uri"]

/-- the qualified name of a node: `prefix:local`, or `local` when there is no prefix -/
def qname (d : Doc) (r : Ref) : String :=
  if prefixOf d r == "" then localName d r else prefixOf d r ++ ":" ++ localName d r

/-- what XPath 1.0 §4.1 says `name`, `local-name`, `namespace-uri` report of a node -/
def specName (d : Doc) (nm : String) (r : Ref) : String :=
  if nm == "local-name" then localName d r
  else if nm == "namespace-uri" then nsURL d r
  else qname d r

/-- what the engine reports of a node: as `specName`, except that `namespace-uri` falls back to the
*prefix* when the navigator has no `NamespaceURL()` -/
def engineName (d : Doc) (cfg : ECfg) (nm : String) (r : Ref) : String :=
  if nm == "local-name" then localName d r
  else if nm == "namespace-uri" then (if cfg.nsIface then nsURL d r else prefixOf d r)
  else qname d r

theorem engineName_eq (d : Doc) (cfg : ECfg) (hi : cfg.nsIface = true) (nm : String) (r : Ref) :
    engineName d cfg nm r = specName d nm r := by
  simp [engineName, specName, hi]

/-- of the first node of a list, `""` for the empty list -/
def firstOr (f : Ref → String) : List Ref → String
  | [] => ""
  | r :: _ => f r

theorem specName_name (d : Doc) (r : Ref) : specName d "name" r = qname d r := by
  simp [specName]
theorem specName_local (d : Doc) (r : Ref) : specName d "local-name" r = localName d r := by
  simp [specName]
theorem specName_uri (d : Doc) (r : Ref) : specName d "namespace-uri" r = nsURL d r := by
  simp [specName]

/-! ### `build` inversion -/

section BuildInv
variable (regexOk : RegexOk) (limit : Nat) (snt sdf : Bool)

theorem fnArity_name {nm : String} (h : nm ∈ nameFns) : fnArity nm = some (0, some 1, false) := by
  simp only [nameFns, List.mem_cons, List.not_mem_nil, or_false] at h
  rcases h with h | h | h <;> subst h <;> rfl

theorem fnUsed_name {nm : String} (h : nm ∈ nameFns) (n : Nat) : fnUsed nm n = min n 1 := by
  simp only [nameFns, List.mem_cons, List.not_mem_nil, or_false] at h
  rcases h with h | h | h <;> subst h <;> rfl

theorem name_not_others {nm : String} (h : nm ∈ nameFns) :
    (nm == "normalize-space" || nm == "string" || nm == "number") = false ∧
    (nm == "matches") = false ∧ (nm == "last") = false ∧ (nm == "position") = false ∧
    (nm == "reverse") = false := by
  simp only [nameFns, List.mem_cons, List.not_mem_nil, or_false] at h
  rcases h with h | h | h <;> subst h <;> decide

theorem name_is_namefn {nm : String} (h : nm ∈ nameFns) :
    (nm == "name" || nm == "local-name" || nm == "namespace-uri") = true := by
  simp only [nameFns, List.mem_cons, List.not_mem_nil, or_false] at h
  rcases h with h | h | h <;> subst h <;> decide

/-- `name()`, `local-name()`, `namespace-uri()`: the builder makes a function query without
arguments (and without a first input) -/
theorem build_name0 (nm pfx : String) (hnm : nm ∈ nameFns) (fl : Flags) (st : BState) (o : BOut)
    (h : build regexOk limit snt sdf (.call nm pfx .anil) fl st = .ok o) :
    o.q = .func nm .nil .pnil := by
  obtain ⟨h1, h4, h2, h2', h3⟩ := name_not_others hnm
  rw [build] at h
  replace h := enter_ok _ _ _ _ h
  have hn : Ast.anil.argList.length = 0 := rfl
  simp only [hn] at h
  rw [fnArity_name hnm] at h
  have hU : fnUsed nm 0 = 0 := by rw [fnUsed_name hnm]; rfl
  simp only [hU, h1, h2, h2', h3, h4, Nat.lt_irrefl, ↓reduceIte, Bool.false_eq_true, Bool.false_and,
    (by decide : decide (0 > 1) = false), Bool.or_self] at h
  obtain ⟨ao, hao, h⟩ := except_bind_ok _ _ _ h
  rw [build] at hao
  cases hao
  cases h
  rfl

/-- `name(P)` …: a function query over the plan of `P` -/
theorem build_name1 (nm pfx : String) (hnm : nm ∈ nameFns) (a : Ast) (fl : Flags) (st : BState) (o : BOut)
    (h : build regexOk limit snt sdf (.call nm pfx (.acons a .anil)) fl st = .ok o) :
    ∃ st' ao, build regexOk limit snt sdf a {} st' = .ok ao ∧
      o.q = .func nm .nil (.pcons ao.q .pnil) := by
  obtain ⟨_, h4, h2, h2', h3⟩ := name_not_others hnm
  exact build_call1 regexOk limit snt sdf nm pfx a 0 (some 1) false (fnArity_name hnm) (by omega)
    (by intro m hm; cases hm; omega) (by rw [fnUsed_name hnm]; rfl) h4 h2 h2' h3 fl st o h

end BuildInv

/-! ### engine side -/

section Engine
variable (d : Doc) (cfg : ECfg)

/-- the name-function arm of `callFn`: the node is the context node when there is no argument
(`asel = none`), else the first node the argument's `Select` yields -/
theorem callFn_name (nm : String) (hnm : nm ∈ nameFns) (fi : Plan) (c : Ref)
    (avs : List (Except EErr (MVal F))) (asel : Option (List Ref)) :
    callFn (F := F) d cfg nm fi c avs asel =
      .ok (.str (match asel with
        | none => engineName d cfg nm c
        | some l => firstOr (engineName d cfg nm) l)) := by
  simp only [nameFns, List.mem_cons, List.not_mem_nil, or_false] at hnm
  rcases hnm with h | h | h <;> subst h
  · cases asel with
    | none => simp [callFn, engineName, qname]
    | some l => cases l <;> simp [callFn, engineName, qname, firstOr]
  · cases asel with
    | none => simp [callFn, engineName]
    | some l => cases l <;> simp [callFn, engineName, firstOr]
  · cases asel with
    | none => simp [callFn, engineName]
    | some l => cases l <;> simp [callFn, engineName, firstOr]

theorem evalP_name0 (nm : String) (hnm : nm ∈ nameFns) (fi : Plan) (c : Ref) :
    evalP (F := F) d cfg (.func nm fi .pnil) c = .ok (.str (engineName d cfg nm c)) := by
  rw [evalP]
  simp only [argVals, bind, Except.bind, pure, Except.pure]
  rw [callFn_name d cfg nm hnm]

theorem evalP_name1 (nm : String) (hnm : nm ∈ nameFns) (fi h : Plan) (c : Ref) (out : List Item)
    (hsel : sel (F := F) d cfg h c = .ok out) :
    evalP (F := F) d cfg (.func nm fi (.pcons h .pnil)) c =
      .ok (.str (firstOr (engineName d cfg nm) (refs out))) := by
  rw [evalP]
  simp only [argVals, name_is_namefn hnm, hsel, bind, Except.bind, pure, Except.pure, ↓reduceIte]
  rw [callFn_name d cfg nm hnm]

end Engine

/-! ### oracle side -/

theorem spec_callFn_name0 (d : Doc) (ctx : Spec.Ctx) (nm : String) (hnm : nm ∈ nameFns) :
    Spec.callFn (F := F) d ctx nm [] = .ok (.str (specName d nm ctx.node)) := by
  simp only [nameFns, List.mem_cons, List.not_mem_nil, or_false] at hnm
  rcases hnm with h | h | h <;> subst h
  · rw [specName_name]; rfl
  · rw [specName_local]; rfl
  · rw [specName_uri]; rfl

theorem spec_callFn_name1 (d : Doc) (ctx : Spec.Ctx) (nm : String) (hnm : nm ∈ nameFns) (l : List Ref) :
    Spec.callFn (F := F) d ctx nm [.nodes l] = .ok (.str (firstOr (specName d nm) l)) := by
  simp only [nameFns, List.mem_cons, List.not_mem_nil, or_false] at hnm
  rcases hnm with h | h | h <;> subst h
  · cases l with
    | nil => rfl
    | cons r t => simp only [firstOr]; rw [specName_name]; rfl
  · cases l with
    | nil => rfl
    | cons r t => simp only [firstOr]; rw [specName_local]; rfl
  · cases l with
    | nil => rfl
    | cons r t => simp only [firstOr]; rw [specName_uri]; rfl

theorem eval_name0 (d : Doc) (ctx : Spec.Ctx) (nm pfx : String) (hnm : nm ∈ nameFns) :
    Spec.eval (F := F) d (.call nm pfx .anil) ctx = .ok (.val (.str (specName d nm ctx.node)) none) := by
  simp only [Spec.eval, bind, Except.bind, Spec.Res.argList, spec_callFn_name0 d ctx nm hnm]

theorem eval_name1 (d : Doc) (ctx : Spec.Ctx) (nm pfx : String) (hnm : nm ∈ nameFns) (p : Ast)
    (ns : List Ref) (g : Option (List (List Ref)))
    (hp : Spec.eval (F := F) d p ctx = .ok (.val (.nodes ns) g)) :
    Spec.eval (F := F) d (.call nm pfx (.acons p .anil)) ctx =
      .ok (.val (.str (firstOr (specName d nm) ns)) none) := by
  simp only [Spec.eval, hp, bind, Except.bind, Spec.Res.argList, Spec.Res.value,
    spec_callFn_name1 d ctx nm hnm]

/-! ### the theorems -/

/-- **`name()`, `local-name()`, `namespace-uri()` without argument, through `build`**: the built
plan evaluates to the qualified name / local name / namespace URI of the context node, which is what
the oracle assigns to the call (any builder configuration, any context position and size) -/
theorem name0_sem (d : Doc) (cfg : ECfg) (hi : cfg.nsIface = true) (regexOk : RegexOk) (limit : Nat)
    (snt sdf : Bool) (nm pfx : String) (hnm : nm ∈ nameFns) (fl : Flags) (st : BState) (o : BOut)
    (hb : build regexOk limit snt sdf (.call nm pfx .anil) fl st = .ok o) (c : Ref) (i n : Nat) :
    evalP (F := F) d cfg o.q c = .ok (.str (specName d nm c)) ∧
      Spec.eval (F := F) d (.call nm pfx .anil) ⟨c, i, n⟩ = .ok (.val (.str (specName d nm c)) none) := by
  rw [build_name0 regexOk limit snt sdf nm pfx hnm fl st o hb, evalP_name0 d cfg nm hnm,
    engineName_eq d cfg hi]
  exact ⟨rfl, eval_name0 d ⟨c, i, n⟩ nm pfx hnm⟩

/-- without `NamespaceURL()` the engine's `namespace-uri()` reports the *prefix* of the context node -/
theorem namespace_uri0_noIface (d : Doc) (cfg : ECfg) (hi : cfg.nsIface = false) (regexOk : RegexOk)
    (limit : Nat) (snt sdf : Bool) (pfx : String) (fl : Flags) (st : BState) (o : BOut)
    (hb : build regexOk limit snt sdf (.call "namespace-uri" pfx .anil) fl st = .ok o) (c : Ref) :
    evalP (F := F) d cfg o.q c = .ok (.str (prefixOf d c)) := by
  rw [build_name0 regexOk limit snt sdf _ pfx (by simp [nameFns]) fl st o hb,
    evalP_name0 d cfg _ (by simp [nameFns])]
  simp [engineName, hi]

/-- **a name function over a predicate-free path (any axes)**: the engine reports the first node *of
the sequence its plan selects*; that sequence has exactly the members of the oracle's node-set, so
the answer is `""` exactly when the oracle's set is empty and otherwise names a node of the set.
(For the *first in document order* see `name1_flat_sem`.) -/
theorem name1_path_sem {d : Doc} (wf : WF d) (cfg : ECfg) (hi : cfg.nsIface = true)
    (hinj : HashInj d cfg) (regexOk : RegexOk) (limit : Nat) (sdf : Bool) (nm pfx : String)
    (hnm : nm ∈ nameFns) (p : Ast) (hp : PathPF p) (fl : Flags) (st : BState) (o : BOut)
    (hb : build regexOk limit true sdf (.call nm pfx (.acons p .anil)) fl st = .ok o)
    (c : Ref) (hc : validRef d c = true) (i n : Nat) :
    ∃ (out : List Item) (ns : List Ref),
      evalP (F := F) d cfg o.q c = .ok (.str (firstOr (specName d nm) (refs out))) ∧
      Spec.eval (F := F) d (.call nm pfx (.acons p .anil)) ⟨c, i, n⟩ =
        .ok (.val (.str (firstOr (specName d nm) ns)) none) ∧
      (∀ x, x ∈ refs out ↔ x ∈ ns) := by
  obtain ⟨st', ao, hao, hq⟩ := build_name1 regexOk limit true sdf nm pfx hnm p fl st o hb
  obtain ⟨out, ns, g, hsel, hev, hmem⟩ :=
    C01_main (F := F) wf cfg hi hinj regexOk limit sdf p hp st' ao hao c hc
  refine ⟨out, ns, ?_, ?_, hmem⟩
  · rw [hq, evalP_name1 d cfg nm hnm .nil ao.q c out hsel]
    congr 2
    cases refs out with
    | nil => rfl
    | cons r t => exact engineName_eq d cfg hi nm r
  · exact eval_name1 d ⟨c, i, n⟩ nm pfx hnm p ns g (by rw [eval_pathpf_ctx d hp]; exact hev)

/-- **a name function over a flat path** (steps on the `child`, `attribute`, `self` axes, no
predicates — the restriction under which the engine's sequence is in document order): the built plan
evaluates to the qualified name / local name / namespace URI of the **first node in document order**
of the path's node-set, and to `""` when the node-set is empty — the oracle's value of the call.
`ns` is the oracle's node list; it is strictly increasing in document order. -/
theorem name1_flat_sem {d : Doc} (wf : WF d) (cfg : ECfg) (hi : cfg.nsIface = true)
    (hinj : HashInj d cfg) (regexOk : RegexOk) (limit : Nat) (sdf : Bool) (nm pfx : String)
    (hnm : nm ∈ nameFns) (p : Ast) (hp : FlatPath p) (fl : Flags) (st : BState) (o : BOut)
    (hb : build regexOk limit true sdf (.call nm pfx (.acons p .anil)) fl st = .ok o)
    (c : Ref) (hc : validRef d c = true) (i n : Nat) :
    ∃ (ns : List Ref) (g : Option (List (List Ref))),
      Spec.eval (F := F) d p ⟨c, 1, 1⟩ = .ok (.val (.nodes ns) g) ∧
      ns.Pairwise (fun a b => Ref.lt a b = true) ∧
      evalP (F := F) d cfg o.q c = .ok (.str (firstOr (specName d nm) ns)) ∧
      Spec.eval (F := F) d (.call nm pfx (.acons p .anil)) ⟨c, i, n⟩ =
        .ok (.val (.str (firstOr (specName d nm) ns)) none) := by
  obtain ⟨st', ao, hao, hq⟩ := build_name1 regexOk limit true sdf nm pfx hnm p fl st o hb
  obtain ⟨out, ns, g, hsel, hev, hmem⟩ :=
    C01_main (F := F) wf cfg hi hinj regexOk limit sdf p hp.pathPF st' ao hao c hc
  have hsorted := (flatPath_sorted (F := F) wf cfg regexOk limit true sdf p hp {} st' ao hao c out hsel).1
  have hns : ns.Pairwise (fun a b => Ref.lt a b = true) := by
    cases hp with
    | step a _ =>
      obtain ⟨l, rfl⟩ := eval_axis_inv (F := F) d a _ _ ns g hev
      exact docOrder_sorted d l
    | cons a inp _ _ =>
      obtain ⟨l, rfl⟩ := eval_axis_inv (F := F) d a _ _ ns g hev
      exact docOrder_sorted d l
  have heq : refs out = ns := FlatFiltered.sorted_ext _ _ hsorted hns hmem
  refine ⟨ns, g, hev, hns, ?_, ?_⟩
  · rw [hq, evalP_name1 d cfg nm hnm .nil ao.q c out hsel, heq]
    congr 2
    cases ns with
    | nil => rfl
    | cons r t => exact engineName_eq d cfg hi nm r
  · exact eval_name1 d ⟨c, i, n⟩ nm pfx hnm p ns g (by rw [eval_pathpf_ctx d hp.pathPF]; exact hev)

/-! ## 3. predicate-free paths of name tests through `build` -/

/-- the documented meaning of a name test recorded as `a`: principal node type, local name, and
the namespace URI bound to the prefix (with a map) or the prefix itself (without) -/
def NameCond (d : Doc) (a : AxisInfo) (x : Ref) : Prop :=
  nodeType d x = a.typeTest ∧ localName d x = a.lname ∧
    (if a.hasNS = true then nsURL d x = a.nsURI else prefixOf d x = a.pfx)

/-- the oracle's node test on a name test is `NameCond`: it compares (URI, local name) under a
binding and (prefix, local name) without -/
theorem spec_nodeTest_name (d : Doc) (a : AxisInfo) (hmt : a.typeTest ≠ .all) (hl : a.lname ≠ "") (x : Ref) :
    Spec.nodeTest d a x = true ↔ NameCond d a x := by
  simp only [Spec.nodeTest, NameCond, hl, false_or, bne_iff_ne, ne_eq, not_false_eq_true, true_or, ↓reduceIte,
    Bool.and_eq_true, Bool.or_eq_true, beq_iff_eq]
  constructor
  · rintro ⟨h1 | h1, h2, h3⟩
    · exact absurd h1 hmt
    · refine ⟨h1.symm, h2.symm, ?_⟩
      split at h3
      · rename_i hn; rw [if_pos hn]; exact (beq_iff_eq.1 h3).symm
      · rename_i hn; rw [if_neg hn]; exact (beq_iff_eq.1 h3).symm
  · rintro ⟨h1, h2, h3⟩
    refine ⟨Or.inr h1.symm, h2.symm, ?_⟩
    split
    · rename_i hn; rw [if_pos hn] at h3; exact beq_iff_eq.2 h3.symm
    · rename_i hn; rw [if_neg hn] at h3; exact beq_iff_eq.2 h3.symm

/-- predicate-free paths all of whose steps are name tests as the parser records them under the
namespace map `ns` (`nameInfo`), on any of the twelve axes -/
inductive NamePath (ns : Option (List (String × String))) : Ast → Prop
  | none : NamePath ns .none
  | root (s : String) : NamePath ns (.root s)
  | axis (a : AxisInfo) (inp : Ast) (axis : String) (mt : NType) (pfx lname : String) :
      NamePath ns inp → axis ∈ axes12 → mt ≠ .all → lname ≠ "" →
      nameInfo ns axis mt pfx lname = some a → NamePath ns (.axis a inp)

theorem nameInfo_fields {ns : Option (List (String × String))} {axis : String} {mt : NType}
    {pfx lname : String} {a : AxisInfo} (h : nameInfo ns axis mt pfx lname = some a) :
    a.axis = axis ∧ a.typeTest = mt ∧ a.lname = lname ∧ a.pfx = pfx ∧
      (a.hasNS = true ↔ ∃ m uri, pfx ≠ "" ∧ ns = some m ∧ m.lookup pfx = some uri ∧ a.nsURI = uri) := by
  unfold nameInfo at h
  split at h
  · rename_i hp
    cases h
    exact ⟨rfl, rfl, rfl, hp.symm, by simp [hp]⟩
  · rename_i hp
    split at h
    · cases h
      exact ⟨rfl, rfl, rfl, rfl, by simp⟩
    · rename_i m
      split at h
      · rename_i uri hu
        cases h
        exact ⟨rfl, rfl, rfl, rfl, by simp [hp, hu]⟩
      · cases h

theorem NamePath.pathPF {ns : Option (List (String × String))} {p : Ast} (h : NamePath ns p) : PathPF p := by
  induction h with
  | none => exact .none
  | root s => exact .root s
  | axis a inp axis mt pfx lname _ hax _ _ hi ih =>
    exact .axis a inp ih (by rw [(nameInfo_fields hi).1]; exact hax)

/-- the node-set a path of name tests denotes, stated with the axes of the oracle and the
documented meaning of the name test only -/
def nameDen (d : Doc) : Ast → Ref → Ref → Prop
  | .none, c, x => x = c
  | .root _, _, x => x = .node 0
  | .axis a inp, c, x =>
      ∃ o, nameDen d inp c o ∧ x ∈ (Spec.axisNodes d a.axis o).getD [] ∧ NameCond d a x
  | _, _, _ => False

/-- the oracle's value of a path of name tests is `nameDen` -/
theorem eval_nameDen {d : Doc} (wf : WF d) (ns : Option (List (String × String))) (p : Ast)
    (hp : NamePath ns p) (c : Ref) (hc : validRef d c = true) :
    ∃ nodes g, Spec.eval (F := F) d p ⟨c, 1, 1⟩ = .ok (.val (.nodes nodes) g) ∧
      (∀ x, x ∈ nodes ↔ nameDen d p c x) ∧ (∀ x ∈ nodes, validRef d x = true) := by
  induction hp with
  | none =>
    refine ⟨[c], none, by simp [Spec.eval], by simp [nameDen], ?_⟩
    intro x hx; simp only [List.mem_cons, List.not_mem_nil, or_false] at hx; rw [hx]; exact hc
  | root s =>
    refine ⟨[.node 0], none, by simp [Spec.eval], by simp [nameDen], ?_⟩
    intro x hx; simp only [List.mem_cons, List.not_mem_nil, or_false] at hx; rw [hx]
    exact (validRef_node d 0).2 wf.pos
  | axis a inp axis mt pfx lname _ hax hmt hl hi ih =>
    obtain ⟨origins, g, hev, hmem, hval⟩ := ih
    obtain ⟨e1, e2, e3, _, _⟩ := nameInfo_fields hi
    have ha : a.axis ∈ axes12 := by rw [e1]; exact hax
    obtain ⟨g', hev'⟩ := eval_axis (F := F) d a ha inp ⟨c, 1, 1⟩ origins g hev
    refine ⟨_, g', hev', fun x => ?_, fun x hx => ((mem_docOrder d _ x).1 hx).2⟩
    rw [mem_docOrder, List.mem_flatten]
    simp only [nameDen]
    constructor
    · rintro ⟨⟨l, hl', hx⟩, _⟩
      obtain ⟨o, ho, rfl⟩ := List.mem_map.1 hl'
      rw [List.mem_filter, mem_axisProx] at hx
      exact ⟨o, (hmem o).1 ho, hx.1,
        (spec_nodeTest_name d a (by rw [e2]; exact hmt) (by rw [e3]; exact hl) x).1 hx.2⟩
    · rintro ⟨o, ho, hx, hcnd⟩
      have ho' := (hmem o).2 ho
      refine ⟨⟨_, List.mem_map.2 ⟨o, ho', rfl⟩, ?_⟩, axisNodes_valid wf o (hval o ho') a.axis ha x hx⟩
      rw [List.mem_filter, mem_axisProx]
      exact ⟨hx, (spec_nodeTest_name d a (by rw [e2]; exact hmt) (by rw [e3]; exact hl) x).2 hcnd⟩

/-- **C14, predicate-free paths of name tests, through `build`**: for every well-formed document,
every valid context node, every namespace map `ns` (absent, binding, re-binding) and every
predicate-free path over the twelve axes whose steps are name tests as the parser records them
under `ns`, the plan the builder makes (with all its rewrites) yields exactly

* the oracle's node-set of the path (`Spec.eval`, whose `Spec.nodeTest` compares URI and local name
  under a binding), which is
* `nameDen`: the nodes reached along the oracle's axes through nodes of the principal type with the
  local name of the test and the namespace URI bound to its prefix (the *prefix itself* when there
  is no map or the name is unprefixed) — the prefix a node uses in the document is not consulted
  when a binding exists.

Standing assumptions as for C01: `cfg.nsIface = true`, `HashInj`. -/
theorem C14_main {d : Doc} (wf : WF d) (cfg : ECfg) (hns : cfg.nsIface = true)
    (hinj : HashInj d cfg) (regexOk : RegexOk) (limit : Nat) (sdf : Bool)
    (ns : Option (List (String × String))) (p : Ast) (hp : NamePath ns p)
    (st : BState) (o : BOut) (hb : build regexOk limit true sdf p {} st = .ok o)
    (c : Ref) (hc : validRef d c = true) :
    ∃ out nodes g, sel (F := F) d cfg o.q c = .ok out ∧
      Spec.eval (F := F) d p ⟨c, 1, 1⟩ = .ok (.val (.nodes nodes) g) ∧
      (∀ x, x ∈ refs out ↔ x ∈ nodes) ∧ (∀ x, x ∈ refs out ↔ nameDen d p c x) := by
  obtain ⟨out, nodes, g, h1, h2, h3⟩ :=
    C01_main (F := F) wf cfg hns hinj regexOk limit sdf p hp.pathPF st o hb c hc
  obtain ⟨nodes', g', h2', h4, _⟩ := eval_nameDen (F := F) wf ns p hp c hc
  rw [h2] at h2'; cases h2'
  exact ⟨out, nodes, g, h1, h2, h3, fun x => (h3 x).trans (h4 x)⟩

/-! ### document level: the prefixes a document uses are irrelevant under a namespace map -/

/-- **one step**: two documents with the same tree, local names and namespace URIs (they may differ
in every prefix, `SameNames`) yield the same node set for every bound name test on every axis -/
theorem prefix_irrelevant_step {d₁ d₂ : Doc} (wf₁ : WF d₁) (hs : SameNames d₁ d₂) (cfg : ECfg)
    (hi : cfg.nsIface = true) (hinj₁ : HashInj d₁ cfg) (hinj₂ : HashInj d₂ cfg)
    (axis : String) (ha : axis ∈ axes12) (mt : NType) (hmt : mt ≠ .all)
    (pfx lname uri : String) (hl : lname ≠ "") (c : Ref) (hc : validRef d₁ c = true) :
    ∃ out₁ out₂,
      sel (F := F) d₁ cfg (stepPlan ⟨axis, mt, pfx, lname, "", true, uri⟩ .context) c = .ok out₁ ∧
      sel (F := F) d₂ cfg (stepPlan ⟨axis, mt, pfx, lname, "", true, uri⟩ .context) c = .ok out₂ ∧
      ∀ x, x ∈ refs out₁ ↔ x ∈ refs out₂ := by
  have wf₂ : WF d₂ := hs.toSameShape.wf wf₁
  have hc₂ : validRef d₂ c = true := by rw [← validRef_shape hs.toSameShape]; exact hc
  obtain ⟨o1, h1, m1⟩ := step_NS (F := F) wf₁ cfg hinj₁ hi axis ha mt hmt pfx lname uri hl c hc
  obtain ⟨o2, h2, m2⟩ := step_NS (F := F) wf₂ cfg hinj₂ hi axis ha mt hmt pfx lname uri hl c hc₂
  refine ⟨o1, o2, h1, h2, fun x => ?_⟩
  rw [m1, m2, axisNodes_shape hs.toSameShape, nodeType_shape hs.toSameShape, hs.uri, hs.lname]

/-- every step of the path carries a namespace binding -/
def AllBound : Ast → Prop
  | .axis a inp => a.hasNS = true ∧ AllBound inp
  | _ => True

theorem nameCond_same {d₁ d₂ : Doc} (hs : SameNames d₁ d₂) (a : AxisInfo) (hn : a.hasNS = true) (x : Ref) :
    NameCond d₁ a x ↔ NameCond d₂ a x := by
  simp only [NameCond, hn, ↓reduceIte, nodeType_shape hs.toSameShape, hs.uri, hs.lname]

theorem nameDen_same {d₁ d₂ : Doc} (hs : SameNames d₁ d₂) : ∀ (p : Ast), AllBound p →
    ∀ c x, nameDen d₁ p c x ↔ nameDen d₂ p c x
  | .none, _, _, _ => Iff.rfl
  | .root _, _, _, _ => Iff.rfl
  | .axis a inp, hb, c, x => by
    simp only [nameDen, axisNodes_shape hs.toSameShape]
    constructor
    · rintro ⟨o, h1, h2, h3⟩
      exact ⟨o, (nameDen_same hs inp hb.2 c o).1 h1, h2, (nameCond_same hs a hb.1 x).1 h3⟩
    · rintro ⟨o, h1, h2, h3⟩
      exact ⟨o, (nameDen_same hs inp hb.2 c o).2 h1, h2, (nameCond_same hs a hb.1 x).2 h3⟩
  | .filter _ _, _, _, _ => Iff.rfl
  | .call _ _ _, _, _, _ => Iff.rfl
  | .anil, _, _, _ => Iff.rfl
  | .acons _ _, _, _, _ => Iff.rfl
  | .oper _ _ _, _, _, _ => Iff.rfl
  | .str _, _, _, _ => Iff.rfl
  | .num _, _, _, _ => Iff.rfl
  | .group _, _, _, _ => Iff.rfl
  | .var _ _, _, _, _ => Iff.rfl

/-- **whole paths**: the plan built for a predicate-free path of bound name tests selects the same
node set in two documents that differ only in the prefixes they use -/
theorem prefix_irrelevant_path {d₁ d₂ : Doc} (wf₁ : WF d₁) (hs : SameNames d₁ d₂) (cfg : ECfg)
    (hi : cfg.nsIface = true) (hinj₁ : HashInj d₁ cfg) (hinj₂ : HashInj d₂ cfg)
    (regexOk : RegexOk) (limit : Nat) (sdf : Bool)
    (ns : Option (List (String × String))) (p : Ast) (hp : NamePath ns p) (hb : AllBound p)
    (st : BState) (o : BOut) (hbd : build regexOk limit true sdf p {} st = .ok o)
    (c : Ref) (hc : validRef d₁ c = true) :
    ∃ out₁ out₂, sel (F := F) d₁ cfg o.q c = .ok out₁ ∧ sel (F := F) d₂ cfg o.q c = .ok out₂ ∧
      ∀ x, x ∈ refs out₁ ↔ x ∈ refs out₂ := by
  have wf₂ : WF d₂ := hs.toSameShape.wf wf₁
  have hc₂ : validRef d₂ c = true := by rw [← validRef_shape hs.toSameShape]; exact hc
  obtain ⟨o1, _, _, h1, _, _, m1⟩ := C14_main (F := F) wf₁ cfg hi hinj₁ regexOk limit sdf ns p hp st o hbd c hc
  obtain ⟨o2, _, _, h2, _, _, m2⟩ := C14_main (F := F) wf₂ cfg hi hinj₂ regexOk limit sdf ns p hp st o hbd c hc₂
  exact ⟨o1, o2, h1, h2, fun x => by rw [m1, m2]; exact nameDen_same hs p hb c x⟩

/-- instance: rewriting every prefix of the document with an arbitrary function `f` (renaming,
merging, dropping prefixes) does not change what a bound name test selects -/
theorem prefix_irrelevant_rePrefix {d : Doc} (wf : WF d) (f : String → String) (cfg : ECfg)
    (hi : cfg.nsIface = true) (hinj₁ : HashInj d cfg) (hinj₂ : HashInj (rePrefix f d) cfg)
    (axis : String) (ha : axis ∈ axes12) (mt : NType) (hmt : mt ≠ .all)
    (pfx lname uri : String) (hl : lname ≠ "") (c : Ref) (hc : validRef d c = true) :
    ∃ out₁ out₂,
      sel (F := F) d cfg (stepPlan ⟨axis, mt, pfx, lname, "", true, uri⟩ .context) c = .ok out₁ ∧
      sel (F := F) (rePrefix f d) cfg (stepPlan ⟨axis, mt, pfx, lname, "", true, uri⟩ .context) c = .ok out₂ ∧
      ∀ x, x ∈ refs out₁ ↔ x ∈ refs out₂ :=
  prefix_irrelevant_step wf (rePrefix_same f d) cfg hi hinj₁ hinj₂ axis ha mt hmt pfx lname uri hl c hc

/-! ## 3b. a one-step text through `parse` and `compile`

Stated on the scanner states the text produces (`Scan.init text`, `nextItem`): the step token(s)
followed by end of input.  Everything between the scanner and the plan — the whole precedence chain
of `parseExpression`, `parseNodeTest`, `build`, the `nil`-query check of `compile` — is derived. -/

/-- a parser result that, when it succeeds, has consumed the whole input -/
def Final (R : PRes) : Prop := ∀ a st', R = .ok (a, st') → st'.s.typ = .eof

theorem stepPreds_done (f : Nat) (cfg : PCfg) (opnd : Ast) (st : PState) (h : st.s.typ ≠ .lbracket) :
    stepPreds (f+1) cfg opnd st = .ok (opnd, st) := by
  simp only [stepPreds, beq_iff_eq, h, ↓reduceIte]; rfl

theorem bind_final (R : PRes) (hR : Final R) (k : Ast × PState → PRes)
    (hk : ∀ a st', st'.s.typ = .eof → k (a, st') = .ok (a, st')) : (R >>= k) = R := by
  cases R with
  | error e => rfl
  | ok p =>
    obtain ⟨a, st'⟩ := p
    exact hk a st' (hR a st' rfl)

/-- `name` as a step: `child::name` -/
theorem parseStep_name (f : Nat) (cfg : PCfg) (inp : Ast) (st : PState) (ht : st.s.typ = .name)
    (hR : Final (parseNodeTest cfg inp "child" .elem st)) :
    parseStep (f+2) cfg inp st = parseNodeTest cfg inp "child" .elem st := by
  simp only [parseStep, ht, beq_iff_eq, reduceCtorEq, ↓reduceIte]
  exact bind_final _ hR _ (fun a st' he => stepPreds_done f cfg a st' (by rw [he]; decide))

/-- `@name` -/
theorem parseStep_at (f : Nat) (cfg : PCfg) (inp : Ast) (st st1 : PState) (ht : st.s.typ = .at)
    (hn : st.next = .ok st1) (hR : Final (parseNodeTest cfg inp "attribute" .attr st1)) :
    parseStep (f+2) cfg inp st = parseNodeTest cfg inp "attribute" .attr st1 := by
  simp only [parseStep, ht, beq_iff_eq, reduceCtorEq, ↓reduceIte, hn, bind, Except.bind]
  exact bind_final _ hR _ (fun a st' he => stepPreds_done f cfg a st' (by rw [he]; decide))

/-- `axis::name` -/
theorem parseStep_axe (f : Nat) (cfg : PCfg) (inp : Ast) (st st1 : PState) (ht : st.s.typ = .axe)
    (hn : st.next = .ok st1)
    (hR : Final (parseNodeTest cfg inp st.s.name (if st.s.name == "attribute" then .attr else .elem) st1)) :
    parseStep (f+2) cfg inp st =
      parseNodeTest cfg inp st.s.name (if st.s.name == "attribute" then .attr else .elem) st1 := by
  simp only [parseStep, ht, (by decide : (Tok.axe == Tok.dot || Tok.axe == Tok.dotdot) = false),
    Bool.false_eq_true, ↓reduceIte, hn, bind, Except.bind]
  generalize parseNodeTest cfg inp _ _ st1 = R' at hR ⊢
  cases R' with
  | error e => rfl
  | ok p =>
    obtain ⟨a, st'⟩ := p
    exact stepPreds_done f cfg a st' (by rw [hR a st' rfl]; decide)

theorem find_none_eof (ops : List String) (s : Scan) (h : s.typ = .eof) :
    ops.find? (tokMatches s) = none := by
  rw [List.find?_eq_none]
  intro op _ hm
  exact Lemmas.ParserFuel.tokMatches_ne_eof s op hm h

section OneStep
variable (cfg : PCfg) (st : PState) (R : PRes)
  (hS : ∀ f, parseStep (f+2) cfg .none st = R) (hR : Final R)
  (hprim : isPrimaryExpr st.s = false) (h1 : st.s.typ ≠ .slash) (h2 : st.s.typ ≠ .slashslash)
  (h3 : st.s.typ ≠ .minus)
include hS hR

theorem parseRelLoc_one (f : Nat) : parseRelLoc (f+3) cfg .none st = R := by
  simp only [parseRelLoc, hS f]
  refine bind_final _ hR _ (fun a st' he => ?_)
  simp only [he]; rfl

include h1 h2 in
theorem parseLocationPath_one (f : Nat) : parseLocationPath (f+4) cfg st = R := by
  simp only [parseLocationPath]
  exact parseRelLoc_one cfg st R hS hR f

include hprim h1 h2 in
theorem parsePathExpr_one (f : Nat) : parsePathExpr (f+5) cfg st = R := by
  simp only [parsePathExpr, hprim, Bool.false_eq_true, ↓reduceIte]
  exact parseLocationPath_one cfg st R hS hR h1 h2 f

include hprim h1 h2 h3 in
theorem parseChain_one : ∀ (stages : List Stage) (f : Nat),
    parseChain (f + 6 + stages.length) cfg stages st = R
  | [], f => by
    simp only [List.length_nil, Nat.add_zero, parseChain]
    exact parsePathExpr_one cfg st R hS hR hprim h1 h2 f
  | .tier ops :: rest, f => by
    have ih := parseChain_one rest f
    have e : f + 6 + (Stage.tier ops :: rest).length = (f + 5 + rest.length) + 1 + 1 := by
      simp only [List.length_cons]; omega
    rw [e]
    simp only [parseChain]
    have e' : f + 5 + rest.length + 1 = f + 6 + rest.length := by omega
    rw [e', ih]
    refine bind_final _ hR _ (fun a st' he => ?_)
    rw [← e']
    simp only [tierLoop, find_none_eof ops st'.s he]; rfl
  | .unary :: rest, f => by
    have ih := parseChain_one rest f
    have e : f + 6 + (Stage.unary :: rest).length = (f + 6 + rest.length) + 1 := by
      simp only [List.length_cons]; omega
    rw [e]
    simp only [parseChain, skipMinus, beq_iff_eq, h3, ↓reduceIte, bind, Except.bind, pure, Except.pure, ih]
    cases R with
    | error e => rfl
    | ok p => rfl

end OneStep

/-- the parse tree of a parser result -/
def resAst : PRes → Except PErr Ast
  | .ok (a, _) => .ok a
  | .error e => .error e

/-- **the whole parser on a one-step text**: when the first token starts a step (it is no primary
expression, `/`, `//` or `-`), `parseStep` yields `R` on it and `R` consumes the input, then
`parse` yields the parse tree of `R`, or its error -/
theorem parse_one_step (cfg : PCfg) (hdl : 1 ≤ cfg.depthLimit) (text : List Char) (s : Scan)
    (hinit : Scan.init text = .ok s) (R : PRes)
    (hS : ∀ f, parseStep (f+2) cfg .none ⟨s, 1⟩ = R) (hR : Final R)
    (hprim : isPrimaryExpr s = false) (h1 : s.typ ≠ .slash) (h2 : s.typ ≠ .slashslash)
    (h3 : s.typ ≠ .minus) (fuel : Nat) (hf : 7 + cfg.chain.length ≤ fuel) :
    parse fuel cfg text = resAst R := by
  obtain ⟨f, rfl⟩ : ∃ f, fuel = (f + 6 + cfg.chain.length) + 1 := ⟨fuel - 7 - cfg.chain.length, by omega⟩
  have hd : ¬ (0 + 1 > cfg.depthLimit) := by omega
  simp only [parse, hinit, parseExpression, hd, ↓reduceIte]
  rw [parseChain_one cfg ⟨s, 1⟩ R hS hR hprim h1 h2 h3 cfg.chain f]
  cases hRe : R with
  | error e => rfl
  | ok p =>
    obtain ⟨a, st'⟩ := p
    have := hR a st' hRe
    simp only [bind, Except.bind, pure, Except.pure, this, beq_self_eq_true, ↓reduceIte, resAst]

theorem fuelFor_ge (text : List Char) : 7 + (defaultCfg ns).chain.length ≤ fuelFor text := by
  show 7 + stages.length ≤ 40 * (text.length + 2)
  rw [Lemmas.ParserFuel.stages_length]; omega

theorem defaultCfg_depth (ns : Option (List (String × String))) : 1 ≤ (defaultCfg ns).depthLimit := by
  show 1 ≤ Generated.parseDepthLimit.getD 0
  decide

/-- the text `name` / `pfx:name` (one name token that is not a function call, then end of input):
`parse` gives the step `child::…` with the `AxisInfo` of `nameInfo`, or `prefixUndefined` -/
theorem parse_name_text (ns : Option (List (String × String))) (text : List Char) (s s1 : Scan)
    (hinit : Scan.init text = .ok s) (ht : s.typ = .name) (hcf : s.canBeFunc = false)
    (hnext : s.nextItem = .ok s1) (he : s1.typ = .eof) :
    parse (fuelFor text) (defaultCfg ns) text =
      match nameInfo ns "child" .elem s.pfx (if s.name == "*" then "" else s.name) with
      | some a => .ok (.axis a .none)
      | none => .error (.prefixUndefined) := by
  have hnx : (⟨s, 1⟩ : PState).next = .ok ⟨s1, 1⟩ := by simp [PState.next, hnext]
  have hspec := parseNodeTest_name_spec (defaultCfg ns) .none "child" .elem ⟨s, 1⟩ ⟨s1, 1⟩ ht
    (by simp [hcf]) hnx
  have hR : Final (parseNodeTest (defaultCfg ns) .none "child" .elem ⟨s, 1⟩) := by
    intro a st' h
    rw [hspec] at h
    split at h
    · cases h; exact he
    · cases h
  rw [parse_one_step (defaultCfg ns) (defaultCfg_depth ns) text s hinit _
    (fun f => parseStep_name f _ .none ⟨s, 1⟩ ht hR) hR
    (by simp [isPrimaryExpr, ht, hcf]) (by rw [ht]; decide) (by rw [ht]; decide) (by rw [ht]; decide)
    (fuelFor text) (fuelFor_ge text), hspec]
  show resAst (match nameInfo ns "child" .elem s.pfx (scannedLocal ⟨s, 1⟩) with
      | some a => (Except.ok (Ast.axis a .none, (⟨s1, 1⟩ : PState)) : PRes)
      | none => .error .prefixUndefined) = _
  unfold scannedLocal
  cases nameInfo ns "child" .elem s.pfx (if s.name == "*" then "" else s.name) <;> rfl

/-- **unbound prefix, top level**: `CompileWithNS(text, m)` on a one-step text `pfx:name` whose
prefix `m` does not bind is the compile error "prefix undefined" -/
theorem compile_unbound_prefix (cc : CompileCfg) (m : List (String × String)) (text : List Char)
    (s s1 : Scan) (hinit : Scan.init text = .ok s) (ht : s.typ = .name) (hcf : s.canBeFunc = false)
    (hnext : s.nextItem = .ok s1) (he : s1.typ = .eof)
    (hp : s.pfx ≠ "") (hl : m.lookup s.pfx = none) :
    compile cc (some m) text = .error (.parse .prefixUndefined) := by
  have hne : text.isEmpty = false := by
    cases text with
    | nil =>
      have : Scan.init [] = .ok { } := rfl
      rw [this] at hinit; cases hinit; cases ht
    | cons _ _ => rfl
  unfold compile
  rw [parse_name_text (some m) text s s1 hinit ht hcf hnext he]
  simp [hne, nameInfo, hp, hl]

/-! ### `@name`, `axis::name` texts -/

/-- the result of `parseNodeTest` on a name token, as a function of the `nameInfo` -/
def nameRes (o : Option AxisInfo) (inp : Ast) (st : PState) : PRes :=
  match o with
  | some a => .ok (.axis a inp, st)
  | none => .error .prefixUndefined

theorem parseNodeTest_name_res (cfg : PCfg) (inp : Ast) (axis : String) (mt : NType) (st st1 : PState)
    (ht : st.s.typ = .name) (hnf : (st.s.canBeFunc && isNodeType st.s) = false)
    (hnext : st.next = .ok st1) :
    parseNodeTest cfg inp axis mt st =
      nameRes (nameInfo cfg.ns axis mt st.s.pfx (scannedLocal st)) inp st1 := by
  rw [parseNodeTest_name_spec cfg inp axis mt st st1 ht hnf hnext]
  generalize nameInfo cfg.ns axis mt st.s.pfx (scannedLocal st) = o
  cases o <;> rfl

theorem nameRes_final (o : Option AxisInfo) (inp : Ast) (st : PState) (h : st.s.typ = .eof) :
    Final (nameRes o inp st) := by
  intro a st' e
  cases o with
  | none => cases e
  | some b => cases e; exact h

/-- the parse tree (or error) of a one-step text whose node test is a name -/
def nameAst (o : Option AxisInfo) : Except PErr Ast :=
  match o with
  | some a => .ok (.axis a .none)
  | none => .error .prefixUndefined

theorem resAst_nameRes (o : Option AxisInfo) (st : PState) : resAst (nameRes o .none st) = nameAst o := by
  cases o <;> rfl

theorem pstate_next (s s1 : Scan) (n : Nat) (h : s.nextItem = .ok s1) :
    (⟨s, n⟩ : PState).next = .ok ⟨s1, n⟩ := by
  simp [PState.next, h]

/-- `@name`, `@pfx:name`: the step `attribute::…` with principal node type *attribute* -/
theorem parse_attr_text (ns : Option (List (String × String))) (text : List Char) (s s1 s2 : Scan)
    (hinit : Scan.init text = .ok s) (ht : s.typ = .at) (hn1 : s.nextItem = .ok s1)
    (ht1 : s1.typ = .name) (hnf : (s1.canBeFunc && isNodeType s1) = false)
    (hn2 : s1.nextItem = .ok s2) (he : s2.typ = .eof) :
    parse (fuelFor text) (defaultCfg ns) text =
      nameAst (nameInfo ns "attribute" .attr s1.pfx (if s1.name == "*" then "" else s1.name)) := by
  have hspec := parseNodeTest_name_res (defaultCfg ns) .none "attribute" .attr ⟨s1, 1⟩ ⟨s2, 1⟩ ht1 hnf
    (pstate_next s1 s2 1 hn2)
  have hR : Final (parseNodeTest (defaultCfg ns) .none "attribute" .attr ⟨s1, 1⟩) := by
    rw [hspec]; exact nameRes_final _ _ _ he
  rw [parse_one_step (defaultCfg ns) (defaultCfg_depth ns) text s hinit _
    (fun f => parseStep_at f _ .none ⟨s, 1⟩ ⟨s1, 1⟩ ht (pstate_next s s1 1 hn1) hR) hR
    (by simp [isPrimaryExpr, ht]) (by rw [ht]; decide) (by rw [ht]; decide) (by rw [ht]; decide)
    (fuelFor text) (fuelFor_ge text), hspec, resAst_nameRes]
  rfl

/-- `axis::name`, `axis::pfx:name`: the step on that axis; the principal node type is *attribute*
on the attribute axis and *element* otherwise -/
theorem parse_axis_text (ns : Option (List (String × String))) (text : List Char) (s s1 s2 : Scan)
    (hinit : Scan.init text = .ok s) (ht : s.typ = .axe) (hn1 : s.nextItem = .ok s1)
    (ht1 : s1.typ = .name) (hnf : (s1.canBeFunc && isNodeType s1) = false)
    (hn2 : s1.nextItem = .ok s2) (he : s2.typ = .eof) :
    parse (fuelFor text) (defaultCfg ns) text =
      nameAst (nameInfo ns s.name (if s.name == "attribute" then .attr else .elem) s1.pfx
        (if s1.name == "*" then "" else s1.name)) := by
  have hspec := parseNodeTest_name_res (defaultCfg ns) .none s.name
    (if s.name == "attribute" then .attr else .elem) ⟨s1, 1⟩ ⟨s2, 1⟩ ht1 hnf (pstate_next s1 s2 1 hn2)
  have hR : Final (parseNodeTest (defaultCfg ns) .none s.name
      (if s.name == "attribute" then .attr else .elem) ⟨s1, 1⟩) := by
    rw [hspec]; exact nameRes_final _ _ _ he
  rw [parse_one_step (defaultCfg ns) (defaultCfg_depth ns) text s hinit _
    (fun f => parseStep_axe f _ .none ⟨s, 1⟩ ⟨s1, 1⟩ ht (pstate_next s s1 1 hn1) hR) hR
    (by simp [isPrimaryExpr, ht]) (by rw [ht]; decide) (by rw [ht]; decide) (by rw [ht]; decide)
    (fuelFor text) (fuelFor_ge text), hspec, resAst_nameRes]
  rfl

/-! ### the three spellings, with the recorded local name as `localOf`

The local name is decided on the name token itself (`scannedLocal`), so nothing about the token that
follows is needed (`Lemmas.ScanKeep.nextItem_keep`/`nextItem_eof_keep` still hold for the scanner but
are no longer used here). -/

/-- the local name recorded for a scanned name: `*` (from `pfx:*`) becomes the empty name -/
def localOf (n : String) : String := if n == "*" then "" else n

theorem parse_name_text' (ns : Option (List (String × String))) (text : List Char) (s s1 : Scan)
    (hinit : Scan.init text = .ok s) (ht : s.typ = .name) (hcf : s.canBeFunc = false)
    (hnext : s.nextItem = .ok s1) (he : s1.typ = .eof) :
    parse (fuelFor text) (defaultCfg ns) text = nameAst (nameInfo ns "child" .elem s.pfx (localOf s.name)) := by
  have h := parse_name_text ns text s s1 hinit ht hcf hnext he
  rw [h]; unfold nameAst localOf
  cases nameInfo ns "child" .elem s.pfx (if s.name == "*" then "" else s.name) <;> rfl

theorem parse_attr_text' (ns : Option (List (String × String))) (text : List Char) (s s1 s2 : Scan)
    (hinit : Scan.init text = .ok s) (ht : s.typ = .at) (hn1 : s.nextItem = .ok s1)
    (ht1 : s1.typ = .name) (hnf : (s1.canBeFunc && isNodeType s1) = false)
    (hn2 : s1.nextItem = .ok s2) (he : s2.typ = .eof) :
    parse (fuelFor text) (defaultCfg ns) text =
      nameAst (nameInfo ns "attribute" .attr s1.pfx (localOf s1.name)) := by
  exact parse_attr_text ns text s s1 s2 hinit ht hn1 ht1 hnf hn2 he

theorem parse_axis_text' (ns : Option (List (String × String))) (text : List Char) (s s1 s2 : Scan)
    (hinit : Scan.init text = .ok s) (ht : s.typ = .axe) (hn1 : s.nextItem = .ok s1)
    (ht1 : s1.typ = .name) (hnf : (s1.canBeFunc && isNodeType s1) = false)
    (hn2 : s1.nextItem = .ok s2) (he : s2.typ = .eof) :
    parse (fuelFor text) (defaultCfg ns) text =
      nameAst (nameInfo ns s.name (if s.name == "attribute" then .attr else .elem) s1.pfx
        (localOf s1.name)) := by
  exact parse_axis_text ns text s s1 s2 hinit ht hn1 ht1 hnf hn2 he

/-! ### from the parse tree of one step to the compiled plan -/

theorem axisPlan_ne_nil (a : AxisInfo) (fl : Flags) (pr pr' : Props) (inp q : Plan)
    (h : axisPlan a fl pr inp = .ok (q, pr')) : q ≠ .nil := by
  unfold axisPlan at h
  intro hq
  subst hq
  split at h <;> first
    | (cases h)
    | (simp only [Except.ok.injEq, Prod.mk.injEq] at h
       have h := h.1
       split at h <;> cases h)

theorem init_nonempty (text : List Char) (s : Scan) (hinit : Scan.init text = .ok s) (ht : s.typ ≠ .eof) :
    text.isEmpty = false := by
  cases text with
  | nil =>
    have : Scan.init [] = .ok { } := rfl
    rw [this] at hinit; cases hinit; exact absurd rfl ht
  | cons _ _ => rfl

/-- **`compile` on a text that parses to one step**: the compiled plan has the sequence of the plain
plan of that step over the context node -/
theorem compile_step (cc : CompileCfg) (ns : Option (List (String × String))) (text : List Char)
    (hne : text.isEmpty = false) (a : AxisInfo) (ha : a.axis ∈ axes12)
    (hp : parse (fuelFor text) (defaultCfg ns) text = .ok (.axis a .none)) :
    ∃ q, compile cc ns text = .ok q ∧
      ∀ (d : Doc) (cfg : ECfg) (c : Ref),
        sel (F := F) d cfg q c = sel (F := F) d cfg (stepPlan a .context) c := by
  obtain ⟨q, pr', hq, hsel⟩ := axisPlan_sel (F := F) a ha {} rfl {} .context
  have hnil := axisPlan_ne_nil a {} {} pr' .context q hq
  refine ⟨q, ?_, hsel⟩
  have hlim : ¬ ((0 : Nat) + 1 > Generated.buildDepthLimit.getD 0) := by decide
  have hb : build cc.regexOk (Generated.buildDepthLimit.getD 0) cc.shortcutNeedsNodeTest
      cc.smartDescThroughFilter (.axis a .none) {} {} =
      .ok ⟨q, pr', { depth := 0, firstInput := if q == .nil then none else some q }⟩ := by
    rw [build]
    simp only [build.enter]
    rw [if_neg hlim]
    simp only [hq, bind, Except.bind, build.finAxis]
  unfold compile
  simp only [hne, Bool.false_eq_true, ↓reduceIte, hp, hb]
  have : (q == Plan.nil) = false := by
    cases hqq : (q == Plan.nil)
    · rfl
    · exact absurd (beq_iff_eq.1 hqq) hnil
  simp [this]

/-! ### end to end: text → tokens → parse tree → plan → node set

`hp` is what `parse_name_text`, `parse_attr_text`, `parse_axis_text` deliver for the three
spellings of a one-step expression. -/

section EndToEnd
variable {d : Doc} (wf : WF d) (cfg : ECfg) (hinj : HashInj d cfg) (cc : CompileCfg)
include wf hinj

/-- **`CompileWithNS`, bound prefix**: the compiled expression selects, from every valid context
node, exactly the nodes on the axis of the principal type whose *namespace URI* is the one the map
binds to the prefix and whose local name is the test's — whatever prefix they carry -/
theorem compile_sem_bound (hi : cfg.nsIface = true) (m : List (String × String)) (text : List Char)
    (hne : text.isEmpty = false) (axis : String) (ha : axis ∈ axes12) (mt : NType) (hmt : mt ≠ .all)
    (pfx lname uri : String) (hl : lname ≠ "") (hpfx : pfx ≠ "") (hb : m.lookup pfx = some uri)
    (hp : parse (fuelFor text) (defaultCfg (some m)) text = nameAst (nameInfo (some m) axis mt pfx lname))
    (c : Ref) (hc : validRef d c = true) :
    ∃ q out, compile cc (some m) text = .ok q ∧ sel (F := F) d cfg q c = .ok out ∧
      ∀ x, x ∈ refs out ↔
        (x ∈ (Spec.axisNodes d axis c).getD [] ∧
          nodeType d x = mt ∧ nsURL d x = uri ∧ localName d x = lname) := by
  have hinfo : nameInfo (some m) axis mt pfx lname = some ⟨axis, mt, pfx, lname, "", true, uri⟩ := by
    simp [nameInfo, hpfx, hb]
  rw [hinfo] at hp
  obtain ⟨q, hq, hsel⟩ := compile_step (F := F) cc (some m) text hne _ (by exact ha) hp
  obtain ⟨out, ho, hmem⟩ := step_NS (F := F) wf cfg hinj hi axis ha mt hmt pfx lname uri hl c hc
  exact ⟨q, out, hq, by rw [hsel, ho], hmem⟩

/-- **`Compile` (no map), or an unprefixed name under any map**: prefix and local name are compared
textually; an unprefixed test (`pfx = ""`) selects unprefixed nodes only -/
theorem compile_sem_noNS (ns : Option (List (String × String))) (text : List Char)
    (hne : text.isEmpty = false) (axis : String) (ha : axis ∈ axes12) (mt : NType) (hmt : mt ≠ .all)
    (pfx lname : String) (hl : lname ≠ "") (hno : ns = none ∨ pfx = "")
    (hp : parse (fuelFor text) (defaultCfg ns) text = nameAst (nameInfo ns axis mt pfx lname))
    (c : Ref) (hc : validRef d c = true) :
    ∃ q out, compile cc ns text = .ok q ∧ sel (F := F) d cfg q c = .ok out ∧
      ∀ x, x ∈ refs out ↔
        (x ∈ (Spec.axisNodes d axis c).getD [] ∧
          nodeType d x = mt ∧ prefixOf d x = pfx ∧ localName d x = lname) := by
  have hinfo : nameInfo ns axis mt pfx lname = some ⟨axis, mt, pfx, lname, "", false, ""⟩ := by
    rcases hno with h | h
    · subst h
      by_cases hp0 : pfx = ""
      · simp [nameInfo, hp0]
      · simp [nameInfo, hp0]
    · simp [nameInfo, h]
  rw [hinfo] at hp
  obtain ⟨q, hq, hsel⟩ := compile_step (F := F) cc ns text hne _ (by exact ha) hp
  obtain ⟨out, ho, hmem⟩ := step_noNS (F := F) wf cfg hinj axis ha mt hmt pfx lname hl c hc
  exact ⟨q, out, hq, by rw [hsel, ho], hmem⟩

end EndToEnd

/-- **`CompileWithNS`, unbound prefix**: compile error, for each spelling of the step -/
theorem compile_err_unbound (cc : CompileCfg) (m : List (String × String)) (text : List Char)
    (hne : text.isEmpty = false) (axis : String) (mt : NType) (pfx lname : String)
    (hpfx : pfx ≠ "") (hb : m.lookup pfx = none)
    (hp : parse (fuelFor text) (defaultCfg (some m)) text = nameAst (nameInfo (some m) axis mt pfx lname)) :
    compile cc (some m) text = .error (.parse .prefixUndefined) := by
  have hinfo : nameInfo (some m) axis mt pfx lname = none := by simp [nameInfo, hpfx, hb]
  rw [hinfo] at hp
  unfold compile
  simp only [hne, Bool.false_eq_true, ↓reduceIte, hp, nameAst]

/-! ### the statements of the property, per spelling of the step -/

theorem localOf_name {n : String} (h : n ≠ "*") : localOf n = n := by simp [localOf, h]

section Spellings
variable {d : Doc} (wf : WF d) (cfg : ECfg) (hinj : HashInj d cfg) (cc : CompileCfg)
include wf hinj

/-- **`CompileWithNS("pfx:local", m)`, `m` binds `pfx ↦ uri`**: child elements with namespace URI
`uri` and local name `local`, under any prefix -/
theorem compileWithNS_name (hi : cfg.nsIface = true) (m : List (String × String)) (text : List Char)
    (s s1 : Scan) (hinit : Scan.init text = .ok s) (ht : s.typ = .name) (hcf : s.canBeFunc = false)
    (hnext : s.nextItem = .ok s1) (he : s1.typ = .eof)
    (hpfx : s.pfx ≠ "") (uri : String) (hb : m.lookup s.pfx = some uri)
    (hstar : s.name ≠ "*") (hl : s.name ≠ "") (c : Ref) (hc : validRef d c = true) :
    ∃ q out, compile cc (some m) text = .ok q ∧ sel (F := F) d cfg q c = .ok out ∧
      ∀ x, x ∈ refs out ↔
        (x ∈ (Spec.axisNodes d "child" c).getD [] ∧
          nodeType d x = .elem ∧ nsURL d x = uri ∧ localName d x = s.name) := by
  have hp := parse_name_text' (some m) text s s1 hinit ht hcf hnext he
  rw [localOf_name hstar] at hp
  exact compile_sem_bound (F := F) wf cfg hinj cc hi m text
    (init_nonempty text s hinit (by rw [ht]; decide)) "child" (by decide) .elem (by decide)
    s.pfx s.name uri hl hpfx hb hp c hc

/-- **`CompileWithNS("@pfx:local", m)`**: attributes of the context node by (URI, local name) -/
theorem compileWithNS_attr (hi : cfg.nsIface = true) (m : List (String × String)) (text : List Char)
    (s s1 s2 : Scan) (hinit : Scan.init text = .ok s) (ht : s.typ = .at) (hn1 : s.nextItem = .ok s1)
    (ht1 : s1.typ = .name) (hnf : (s1.canBeFunc && isNodeType s1) = false)
    (hn2 : s1.nextItem = .ok s2) (he : s2.typ = .eof)
    (hpfx : s1.pfx ≠ "") (uri : String) (hb : m.lookup s1.pfx = some uri)
    (hstar : s1.name ≠ "*") (hl : s1.name ≠ "") (c : Ref) (hc : validRef d c = true) :
    ∃ q out, compile cc (some m) text = .ok q ∧ sel (F := F) d cfg q c = .ok out ∧
      ∀ x, x ∈ refs out ↔
        (x ∈ (Spec.axisNodes d "attribute" c).getD [] ∧
          nodeType d x = .attr ∧ nsURL d x = uri ∧ localName d x = s1.name) := by
  have hp := parse_attr_text' (some m) text s s1 s2 hinit ht hn1 ht1 hnf hn2 he
  rw [localOf_name hstar] at hp
  exact compile_sem_bound (F := F) wf cfg hinj cc hi m text
    (init_nonempty text s hinit (by rw [ht]; decide)) "attribute" (by decide) .attr (by decide)
    s1.pfx s1.name uri hl hpfx hb hp c hc

/-- **`CompileWithNS("axis::pfx:local", m)`, each of the twelve axes** -/
theorem compileWithNS_axis (hi : cfg.nsIface = true) (m : List (String × String)) (text : List Char)
    (s s1 s2 : Scan) (hinit : Scan.init text = .ok s) (ht : s.typ = .axe) (hax : s.name ∈ axes12)
    (hn1 : s.nextItem = .ok s1)
    (ht1 : s1.typ = .name) (hnf : (s1.canBeFunc && isNodeType s1) = false)
    (hn2 : s1.nextItem = .ok s2) (he : s2.typ = .eof)
    (hpfx : s1.pfx ≠ "") (uri : String) (hb : m.lookup s1.pfx = some uri)
    (hstar : s1.name ≠ "*") (hl : s1.name ≠ "") (c : Ref) (hc : validRef d c = true) :
    ∃ q out, compile cc (some m) text = .ok q ∧ sel (F := F) d cfg q c = .ok out ∧
      ∀ x, x ∈ refs out ↔
        (x ∈ (Spec.axisNodes d s.name c).getD [] ∧
          nodeType d x = (if s.name == "attribute" then NType.attr else .elem) ∧
          nsURL d x = uri ∧ localName d x = s1.name) := by
  have hp := parse_axis_text' (some m) text s s1 s2 hinit ht hn1 ht1 hnf hn2 he
  rw [localOf_name hstar] at hp
  exact compile_sem_bound (F := F) wf cfg hinj cc hi m text
    (init_nonempty text s hinit (by rw [ht]; decide)) s.name hax _ (by split <;> decide)
    s1.pfx s1.name uri hl hpfx hb hp c hc

/-- **`Compile("pfx:local")` / `Compile("local")` (no map)**: child elements whose prefix *and*
local name are the test's; `Compile("local")` selects unprefixed elements only -/
theorem compile_name_noMap (text : List Char)
    (s s1 : Scan) (hinit : Scan.init text = .ok s) (ht : s.typ = .name) (hcf : s.canBeFunc = false)
    (hnext : s.nextItem = .ok s1) (he : s1.typ = .eof)
    (hstar : s.name ≠ "*") (hl : s.name ≠ "") (c : Ref) (hc : validRef d c = true) :
    ∃ q out, compile cc none text = .ok q ∧ sel (F := F) d cfg q c = .ok out ∧
      ∀ x, x ∈ refs out ↔
        (x ∈ (Spec.axisNodes d "child" c).getD [] ∧
          nodeType d x = .elem ∧ prefixOf d x = s.pfx ∧ localName d x = s.name) := by
  have hp := parse_name_text' none text s s1 hinit ht hcf hnext he
  rw [localOf_name hstar] at hp
  exact compile_sem_noNS (F := F) wf cfg hinj cc none text
    (init_nonempty text s hinit (by rw [ht]; decide)) "child" (by decide) .elem (by decide)
    s.pfx s.name hl (Or.inl rfl) hp c hc

/-- **`CompileWithNS("local", m)`, any map**: an unprefixed name gets no namespace from the map; it
selects unprefixed child elements named `local` -/
theorem compileWithNS_unprefixed (m : List (String × String)) (text : List Char)
    (s s1 : Scan) (hinit : Scan.init text = .ok s) (ht : s.typ = .name) (hcf : s.canBeFunc = false)
    (hnext : s.nextItem = .ok s1) (he : s1.typ = .eof) (hpfx : s.pfx = "")
    (hstar : s.name ≠ "*") (hl : s.name ≠ "") (c : Ref) (hc : validRef d c = true) :
    ∃ q out, compile cc (some m) text = .ok q ∧ sel (F := F) d cfg q c = .ok out ∧
      ∀ x, x ∈ refs out ↔
        (x ∈ (Spec.axisNodes d "child" c).getD [] ∧
          nodeType d x = .elem ∧ prefixOf d x = "" ∧ localName d x = s.name) := by
  have hp := parse_name_text' (some m) text s s1 hinit ht hcf hnext he
  rw [localOf_name hstar, hpfx] at hp
  exact compile_sem_noNS (F := F) wf cfg hinj cc (some m) text
    (init_nonempty text s hinit (by rw [ht]; decide)) "child" (by decide) .elem (by decide)
    "" s.name hl (Or.inr rfl) hp c hc

end Spellings

/-- unbound prefix in `@pfx:local` -/
theorem compile_unbound_prefix_attr (cc : CompileCfg) (m : List (String × String)) (text : List Char)
    (s s1 s2 : Scan) (hinit : Scan.init text = .ok s) (ht : s.typ = .at) (hn1 : s.nextItem = .ok s1)
    (ht1 : s1.typ = .name) (hnf : (s1.canBeFunc && isNodeType s1) = false)
    (hn2 : s1.nextItem = .ok s2) (he : s2.typ = .eof)
    (hpfx : s1.pfx ≠ "") (hb : m.lookup s1.pfx = none) :
    compile cc (some m) text = .error (.parse .prefixUndefined) :=
  compile_err_unbound cc m text (init_nonempty text s hinit (by rw [ht]; decide)) _ _ _ _ hpfx hb
    (parse_attr_text' (some m) text s s1 s2 hinit ht hn1 ht1 hnf hn2 he)

/-- unbound prefix in `axis::pfx:local` -/
theorem compile_unbound_prefix_axis (cc : CompileCfg) (m : List (String × String)) (text : List Char)
    (s s1 s2 : Scan) (hinit : Scan.init text = .ok s) (ht : s.typ = .axe) (hn1 : s.nextItem = .ok s1)
    (ht1 : s1.typ = .name) (hnf : (s1.canBeFunc && isNodeType s1) = false)
    (hn2 : s1.nextItem = .ok s2) (he : s2.typ = .eof)
    (hpfx : s1.pfx ≠ "") (hb : m.lookup s1.pfx = none) :
    compile cc (some m) text = .error (.parse .prefixUndefined) :=
  compile_err_unbound cc m text (init_nonempty text s hinit (by rw [ht]; decide)) _ _ _ _ hpfx hb
    (parse_axis_text' (some m) text s s1 s2 hinit ht hn1 ht1 hnf hn2 he)

/-! ### the hypotheses are satisfiable: concrete texts through the real scanner

(kernel evaluation of `compile`; `errOf`/`toOption` only because `Except` has no `DecidableEq`) -/

def errOf {ε α : Type} : Except ε α → Option ε
  | .error e => some e
  | .ok _ => none

/-- `p:a` under a map binding `p` (second entry): URI recorded, `hasNS = true` -/
theorem ex_bound : (compile {} (some [("q", "urn:y"), ("p", "urn:x")]) "p:a".toList).toOption =
    some (.child ⟨"child", .elem, "p", "a", "", true, "urn:x"⟩ .context) := by decide +kernel

/-- re-binding: the first binding of the prefix in the list wins (`List.lookup`) -/
theorem ex_rebound : (compile {} (some [("p", "urn:z"), ("p", "urn:x")]) "p:a".toList).toOption =
    some (.child ⟨"child", .elem, "p", "a", "", true, "urn:z"⟩ .context) := by decide +kernel

theorem ex_unbound : errOf (compile {} (some [("q", "urn:y")]) "p:a".toList) =
    some (.parse .prefixUndefined) := by decide +kernel

theorem ex_noMap : (compile {} none "p:a".toList).toOption =
    some (.child ⟨"child", .elem, "p", "a", "", false, ""⟩ .context) := by decide +kernel

theorem ex_unprefixed : (compile {} (some [("", "urn:d"), ("p", "urn:x")]) "a".toList).toOption =
    some (.child ⟨"child", .elem, "", "a", "", false, ""⟩ .context) := by decide +kernel

theorem ex_attr : (compile {} (some [("p", "urn:x")]) "@p:a".toList).toOption =
    some (.attr ⟨"attribute", .attr, "p", "a", "", true, "urn:x"⟩ .context) := by decide +kernel

theorem ex_axis : (compile {} (some [("p", "urn:x")]) "ancestor::p:a".toList).toOption =
    some (.ancestor ⟨"ancestor", .elem, "p", "a", "", true, "urn:x"⟩ false .context) := by decide +kernel

theorem ex_prefix_star : (compile {} (some [("p", "urn:x")]) "p:*".toList).toOption =
    some (.child ⟨"child", .elem, "p", "", "", true, "urn:x"⟩ .context) := by decide +kernel

end XPathV.NameSem

/-! ## Axiom audit -/
section AxiomAudit
open XPathV.NameSem
end AxiomAudit
