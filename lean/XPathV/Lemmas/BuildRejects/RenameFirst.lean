import XPathV.Lemmas.BuildRejects.ScanName
import XPathV.Lemmas.BuildRejects.RenameText
/-!
# Renaming the leading function of a text, at character level

`G ++ post` and `G' ++ post` with `G`, `G'` plain names and `post` = blanks, `(`, anything: the two
token streams differ in the first token only (`before_first`), so the renaming theorem applies to
**every** such pair of texts: `compile_fails_rename_first`.
-/
namespace XPathV.BuildRejects
open XPathV XPathV.Model
open XPathV.Lemmas.ScanTail (At mkCR Done)
open XPathV.Lemmas.ParserTokens (Toks)

theorem nextItem_lparen (s : Scan) (h : s.curr = '(') : ∃ a, s.nextItem = .ok a ∧ a.typ = .lparen := by
  have hsp : isSpace '(' = false := by decide
  rw [nextItem_body, skipSpace_id s (by rw [h]; exact hsp)]
  unfold itemBody
  simp only [h]
  refine ⟨_, rfl, ?_⟩
  simp only [nextChar_typ]

/-- the scanner on `G ++ post`: the name token `G`, marked as a function name -/
theorem init_call (G post rest : List Char) (hG : plainName G = true) (hrun : NameRun G post)
    (hpost : post.dropWhile isSpace = '(' :: rest) :
    Scan.init (G ++ post) = .ok (mkTok (start (G ++ post)) post .name (String.ofList G) "") := by
  rw [init_eq, nextItem_at_name hG (start_at _), nameCont_plain hrun (by rw [hpost]; simp [mkCR]) (start_at _)]

theorem mkTok_setName (t1 t2 post : List Char) (n n' p : String) (typ : Tok) :
    mkTok (start t2) post typ n' p = setName n' (mkTok (start t1) post typ n p) := rfl

/-- **the token streams of `G(…` and `G'(…` differ in the first token only** -/
theorem before_first (G G' post rest : List Char) (hG : plainName G = true) (hG' : plainName G' = true)
    (hrun : NameRun G post) (hrun' : NameRun G' post) (hpost : post.dropWhile isSpace = '(' :: rest)
    {s : Scan} (hi : Scan.init (G ++ post) = .ok s) {ts : List Tok} (ht : Toks s ts) :
    ∃ s', Scan.init (G' ++ post) = .ok s' ∧ Before (String.ofList G) (String.ofList G') 0 s s' := by
  rw [init_call G post rest hG hrun hpost] at hi
  cases hi
  refine ⟨_, init_call G' post rest hG' hrun' hpost, ?_⟩
  rw [mkTok_setName (G ++ post) (G' ++ post) post (String.ofList G) (String.ofList G') "" .name]
  generalize hs : mkTok (start (G ++ post)) post .name (String.ofList G) "" = s at ht ⊢
  have htyp : s.typ = .name := by rw [← hs]; rfl
  have hname : s.name = String.ofList G := by rw [← hs]; rfl
  have hcur : s.curr = '(' := by rw [← hs]; simp [mkTok, hpost, mkCR]
  have hcf : s.canBeFunc = true := by rw [← hs]; simp [mkTok, hpost, mkCR]
  cases ht with
  | eof he => rw [htyp] at he; cases he
  | @cons _ a rest' hne hn hta =>
    obtain ⟨a2, hn2, hlp⟩ := nextItem_lparen s hcur
    rw [hn] at hn2; cases hn2
    have hu := nextItem_setName (String.ofList G') s
    rw [hn] at hu
    rcases hu with hu | ⟨r, hr, hu, k1, k2⟩
    · exact .mark htyp htyp hname rfl rfl hcf hcf hn hu hlp (after_of_toks (x := String.ofList G') hta _ (Or.inl rfl))
    · cases hr
      exact .mark htyp htyp hname rfl rfl hcf hcf hn hu hlp (after_of_toks (x := String.ofList G') hta _ (Or.inr ⟨rfl, k1, k2⟩))

/-- **renaming the leading function of an accepted text to an unknown name** — for *every* text
`G ++ post` (`G` a plain name, `post` = optional blanks, `(`, the rest) that the parser accepts
with a tree without superfluous arguments, and *every* plain name `G'` that is no function of the
builder (nor a node type or operator word): `Compile(G' ++ post)` is an error -/
theorem compile_fails_rename_first (cc : CompileCfg) (ns : Option (List (String × String)))
    (G G' post rest : List Char) (hG : plainName G = true) (hG' : plainName G' = true)
    (hstop : ∀ c cs, post = c :: cs → isName c = false ∧ c.toNat < 0x80)
    (hpost : post.dropWhile isSpace = '(' :: rest)
    (hne : String.ofList G ≠ String.ofList G')
    (hg : String.ofList G ∉ nodeTypes) (hg' : String.ofList G' ∉ nodeTypes)
    (ho : String.ofList G ∉ opWords stages) (ho' : String.ofList G' ∉ opWords stages)
    (hunk : fnArity (String.ofList G') = none) (hacc : acceptedTight ns (G ++ post) = true) :
    ∃ e, compile cc ns (G' ++ post) = .error e := by
  have hascii : (mkCR post).1.toNat < 0x80 := by
    cases post with
    | nil => simp at hpost
    | cons c cs => exact (hstop c cs rfl).2
  have hrun : NameRun G post := nameRun_of_plain hG (fun c cs e => (hstop c cs e).1) hascii
  have hrun' : NameRun G' post := nameRun_of_plain hG' (fun c cs e => (hstop c cs e).1) hascii
  unfold acceptedTight at hacc
  split at hacc
  · rename_i t hp
    obtain ⟨used, ⟨s, hs, ht⟩, _⟩ := Lemmas.ParserTokens.accepted_ends_in_end_token hp
    obtain ⟨s', hs', hB⟩ := before_first G G' post rest hG hG' hrun hrun' hpost hs ht
    exact compile_fails_after_rename cc ns hne hg hg' ho ho' hunk hs hs' hB hp hacc
  · cases hacc

/-- … with `(` directly after the name: `G(rest` ↦ `G'(rest` -/
theorem compile_fails_rename_first_paren (cc : CompileCfg) (ns : Option (List (String × String)))
    (G G' rest : List Char) (hG : plainName G = true) (hG' : plainName G' = true)
    (hne : String.ofList G ≠ String.ofList G')
    (hg : String.ofList G ∉ nodeTypes) (hg' : String.ofList G' ∉ nodeTypes)
    (ho : String.ofList G ∉ opWords stages) (ho' : String.ofList G' ∉ opWords stages)
    (hunk : fnArity (String.ofList G') = none) (hacc : acceptedTight ns (G ++ '(' :: rest) = true) :
    ∃ e, compile cc ns (G' ++ '(' :: rest) = .error e := by
  have h1 : isName '(' = false := by decide
  have h2 : isSpace '(' = false := by decide
  refine compile_fails_rename_first cc ns G G' ('(' :: rest) rest hG hG' ?_ ?_ hne hg hg' ho ho' hunk hacc
  · intro c cs e
    injection e with e1 _
    subst e1
    exact ⟨h1, by decide⟩
  · simp [h2]

end XPathV.BuildRejects
