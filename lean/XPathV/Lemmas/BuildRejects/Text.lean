import XPathV.Lemmas.BuildRejects.Tree
import XPathV.Lemmas.BuildRejects.Scan
import XPathV.Lemmas.NameSem
/-!
# C17, second half — from the text: `compile` fails on a text whose tree has a bad node;
unknown axis names and malformed qualified names on explicit texts
-/
namespace XPathV.BuildRejects
open XPathV XPathV.Model
open XPathV.Lemmas.ScanTail (At mkCR Done)
open XPathV.Lemmas.ParserTokens (Steps reject_scan_error)

/-! ## 1. `compile` -/

/-- an accepted text is not empty -/
theorem text_ne_nil_of_parse_ok {fuel : Nat} {cfg : PCfg} {text : List Char} {t : Ast}
    (hp : parse fuel cfg text = .ok t) : text.isEmpty = false := by
  cases text with
  | cons _ _ => rfl
  | nil =>
    exfalso
    obtain ⟨used, ⟨s, hs, ht⟩, hne, _⟩ := Lemmas.ParserTokens.accepted_ends_in_end_token hp
    have h0 : Scan.init [] = .ok { } := rfl
    rw [h0] at hs; cases hs
    have := ht.det (.eof rfl)
    cases used with
    | nil => exact hne rfl
    | cons a u => cases u <;> simp at this

/-- **from text**: if the parser's tree for `text` has a bad node (where the builder looks), then
`compile` returns a builder error — for every `CompileCfg` (regexp oracle, both source-derived
switches) and every namespace map -/
theorem compile_fails_of_bad (cc : CompileCfg) (ns : Option (List (String × String))) (text : List Char) (t : Ast)
    (hp : parse (fuelFor text) (defaultCfg ns) text = .ok t) (hb : BadNode t = true) :
    ∃ e, compile cc ns text = .error (.build e) := by
  obtain ⟨e, he⟩ := build_fails_of_bad cc.regexOk (Generated.buildDepthLimit.getD 0) cc.shortcutNeedsNodeTest
    cc.smartDescThroughFilter t {} {} hb
  refine ⟨e, ?_⟩
  unfold compile
  simp only [text_ne_nil_of_parse_ok hp, Bool.false_eq_true, ↓reduceIte, hp, he]

/-- … so `compile` never returns an expression for it -/
theorem compile_not_ok_of_bad (cc : CompileCfg) (ns : Option (List (String × String))) (text : List Char) (t : Ast)
    (hp : parse (fuelFor text) (defaultCfg ns) text = .ok t) (hb : BadNode t = true) (p : Plan) :
    compile cc ns text ≠ .ok p := by
  obtain ⟨e, he⟩ := compile_fails_of_bad cc ns text t hp hb
  rw [he]; intro h; cases h

/-- the converse reading: a text that compiles has a parse tree without bad nodes -/
theorem no_bad_node_of_compile_ok (cc : CompileCfg) (ns : Option (List (String × String))) (text : List Char) (p : Plan)
    (hc : compile cc ns text = .ok p) :
    ∃ t, parse (fuelFor text) (defaultCfg ns) text = .ok t ∧ BadNode t = false := by
  cases hp : parse (fuelFor text) (defaultCfg ns) text with
  | error e =>
    unfold compile at hc
    rw [hp] at hc
    split at hc <;> cases hc
  | ok t =>
    refine ⟨t, rfl, ?_⟩
    cases hb : BadNode t with
    | false => rfl
    | true => exact absurd hc (compile_not_ok_of_bad cc ns text t hp hb p)

/-- **renaming a function / using an unknown function**: whatever the rest of the expression is, if
the parse tree has a call the builder visits whose name is not in the function table, `compile` fails -/
theorem compile_fails_unknown_function (cc : CompileCfg) (ns : Option (List (String × String))) (text : List Char)
    (t : Ast) (hp : parse (fuelFor text) (defaultCfg ns) text = .ok t) {g pfx : String} {args : Ast}
    (hv : Visits t 0 (.call g pfx args)) (hg : fnArity g = none) :
    ∃ e, compile cc ns text = .error (.build e) :=
  compile_fails_of_bad cc ns text t hp (bad_of_visits hv (by simp [localBad, badCall, hg]))

/-- **removing required arguments** -/
theorem compile_fails_missing_arguments (cc : CompileCfg) (ns : Option (List (String × String))) (text : List Char)
    (t : Ast) (hp : parse (fuelFor text) (defaultCfg ns) text = .ok t) {g pfx : String} {args : Ast}
    {mn : Nat} {mx : Option Nat} {idx : Bool}
    (hv : Visits t 0 (.call g pfx args)) (hg : fnArity g = some (mn, mx, idx)) (hlt : args.argList.length < mn) :
    ∃ e, compile cc ns text = .error (.build e) :=
  compile_fails_of_bad cc ns text t hp (bad_of_visits hv (by simp [localBad, badCall, hg, hlt]))

/-- **unknown axis name**: `foo::a` parses (the parser is lenient) and the builder rejects it -/
theorem compile_fails_unknown_axis (cc : CompileCfg) (ns : Option (List (String × String))) (text : List Char)
    (t : Ast) (hp : parse (fuelFor text) (defaultCfg ns) text = .ok t) {a : AxisInfo} {inp : Ast}
    (hv : Visits t 0 (.axis a inp)) (ha : a.axis ∉ axisTable) :
    ∃ e, compile cc ns text = .error (.build e) :=
  compile_fails_of_bad cc ns text t hp
    (bad_of_visits hv (by simpa [localBad, badAxis, badAxisName] using ha))

/-! ## 2. Explicit texts -/

/-- a name as the scanner reads one: its first character starts a name token, all characters are
name characters (`a`, `foo`, `string-length`, `x1`, `_a.b`; not `1a`, `-a`, `a:b`) -/
def plainName (w : List Char) : Bool :=
  match w with
  | [] => false
  | c :: _ => startsName c && w.all isName

/-- the scanner state in front of a text -/
def start (text : List Char) : Scan := { curr := (mkCR text).1, rest := (mkCR text).2 }

theorem init_eq (text : List Char) : Scan.init text = (start text).nextItem := by
  unfold Scan.init
  simp only [nextChar_eq]
  rfl

theorem start_at (text : List Char) : At text (start text) := ⟨rfl, rfl⟩

theorem plainName_cons {w : List Char} (h : plainName w = true) :
    ∃ c w', w = c :: w' ∧ startsName c = true ∧ ∀ y ∈ w, isName y = true := by
  cases w with
  | nil => simp [plainName] at h
  | cons c w' =>
    simp only [plainName, Bool.and_eq_true, List.all_eq_true] at h
    exact ⟨c, w', rfl, h.1, h.2⟩

theorem startsName_not_space {c : Char} (h : startsName c = true) : isSpace c = false := by
  simp only [startsName, Bool.and_eq_true, Bool.not_eq_true'] at h
  exact h.1.1.1

/-- a name token at a scanner position: `nextItem` is `nameCont` there -/
theorem nextItem_at_name {w tail : List Char} {s : Scan} (hw : plainName w = true) (h : At (w ++ tail) s) :
    s.nextItem = nameCont s := by
  obtain ⟨c, w', rfl, hc, _⟩ := plainName_cons hw
  have hcur : s.curr = c := h.1
  have hsk : s.skipSpace = s := skipSpace_id s (by rw [hcur]; exact startsName_not_space hc)
  have := nextItem_name s (by rw [hsk, hcur]; exact hc)
  rwa [hsk] at this

theorem nameRun_of_plain {w tail : List Char} (hw : plainName w = true)
    (hstop : ∀ x xs, tail = x :: xs → isName x = false) (hascii : (mkCR tail).1.toNat < 0x80) : NameRun w tail := by
  obtain ⟨c, w', rfl, _, hall⟩ := plainName_cons hw
  exact ⟨by simp, hall, hstop, hascii⟩

theorem isName_colon : isName ':' = false := by decide

theorem nameRun_colon {w t : List Char} (hw : plainName w = true) : NameRun w (':' :: t) :=
  nameRun_of_plain hw (fun x xs h => by cases h; exact isName_colon) (by simp only [mkCR_eta]; decide)

theorem nameRun_end {w : List Char} (hw : plainName w = true) : NameRun w [] :=
  nameRun_of_plain hw (fun x xs h => by cases h) (by decide)

theorem dropWhile_plain {w : List Char} (hw : plainName w = true) (tail : List Char) :
    (w ++ tail).dropWhile isSpace = w ++ tail := by
  obtain ⟨c, w', rfl, hc, _⟩ := plainName_cons hw
  simp [startsName_not_space hc]

/-! ### unknown axis: `name::l` -/

/-- the error `axisPlan` gives for an axis name outside its table -/
def axisErr (n : String) : BErr := if n = "namespace" then .namespaceAxis else .unknownAxis n

theorem axisPlan_err (a : AxisInfo) (fl : Flags) (props : Props) (inp : Plan) (h : badAxis a = true) :
    axisPlan a fl props inp = .error (axisErr a.axis) := by
  unfold axisPlan
  split
  all_goals first
    | (rename_i hx; simp [badAxis, badAxisName, axisTable, hx] at h; done)
    | (rename_i hx; simp [axisErr, hx]; done)
    | skip
  rename_i hx
  simp only [axisErr]
  rw [if_neg (fun e => hx e)]

theorem buildLimit_pos : ¬ ((0 : Nat) + 1 > Generated.buildDepthLimit.getD 0) := by decide

/-- the builder on a single step over an unknown axis -/
theorem build_step_unknown_axis (cc : CompileCfg) (a : AxisInfo) (h : badAxis a = true) :
    build cc.regexOk (Generated.buildDepthLimit.getD 0) cc.shortcutNeedsNodeTest cc.smartDescThroughFilter
      (.axis a .none) {} {} = .error (axisErr a.axis) := by
  rw [build]
  simp only [build.enter]
  rw [if_neg buildLimit_pos]
  simp only [axisPlan_err a {} {} .context h, bind, Except.bind]

/-- **the family `name::l`**: for every name outside the builder's axis table and every plain name
`l`, `Compile(name::l)` is the builder's error for that axis name — with or without a namespace map -/
theorem compile_unknown_axis_text (cc : CompileCfg) (ns : Option (List (String × String))) (name l : List Char)
    (hn : plainName name = true) (hl : plainName l = true) (hbad : String.ofList name ∉ axisTable) :
    compile cc ns (name ++ ':' :: ':' :: l) = .error (.build (axisErr (String.ofList name))) := by
  have hl0 : l.dropWhile isSpace = l := by simpa using dropWhile_plain hl []
  -- the three tokens
  have hinit : Scan.init (name ++ ':' :: ':' :: l) =
      .ok (mkTok (start (name ++ ':' :: ':' :: l)) l .axe (String.ofList name) "") := by
    rw [init_eq, nextItem_at_name hn (start_at _), nameCont_axe (nameRun_colon hn) (start_at _)]
  generalize hs : mkTok (start (name ++ ':' :: ':' :: l)) l .axe (String.ofList name) "" = s at hinit
  have hsat : At (l ++ []) s := by
    rw [← hs, List.append_nil]
    have := mkTok_at (start (name ++ ':' :: ':' :: l)) l .axe (String.ofList name) ""
    rwa [hl0] at this
  have hstyp : s.typ = .axe := by rw [← hs]; rfl
  have hsname : s.name = String.ofList name := by rw [← hs]; rfl
  have hn1 : s.nextItem = .ok (mkTok s [] .name (String.ofList l) "") := by
    rw [nextItem_at_name hl hsat, nameCont_plain (nameRun_end hl) (by decide) hsat]
  obtain ⟨s2, hn2, he⟩ := nextItem_done (mkTok s [] .name (String.ofList l) "") (mkTok_at _ _ _ _ _)
  have hp := NameSem.parse_axis_text' ns _ s _ s2 hinit hstyp hn1 rfl (by simp [mkTok, mkCR]) hn2 he
  have hinfo : NameSem.nameInfo ns s.name (if s.name == "attribute" then .attr else .elem)
      (mkTok s [] .name (String.ofList l) "").pfx (NameSem.localOf (mkTok s [] .name (String.ofList l) "").name) =
      some ⟨String.ofList name, (if s.name == "attribute" then .attr else .elem), "",
        NameSem.localOf (String.ofList l), "", false, ""⟩ := by
    simp [NameSem.nameInfo, mkTok, hsname]
  rw [hinfo] at hp
  have hne : (name ++ ':' :: ':' :: l).isEmpty = false := by
    obtain ⟨c, w', rfl, _, _⟩ := plainName_cons hn
    rfl
  unfold compile
  simp only [hne, Bool.false_eq_true, ↓reduceIte, hp, NameSem.nameAst]
  rw [build_step_unknown_axis cc _ (by simpa [badAxis, badAxisName] using hbad)]

/-! ### malformed qualified names -/

theorem compile_scan_error (cc : CompileCfg) (ns : Option (List (String × String))) (text : List Char) (e : ScanErr)
    (hne : text.isEmpty = false) (h : Scan.init text = .error e) :
    compile cc ns text = .error (.parse (.scan e)) := by
  unfold compile parse
  simp only [hne, Bool.false_eq_true, ↓reduceIte, h]

theorem compile_parse_error (cc : CompileCfg) (ns : Option (List (String × String))) (text : List Char)
    (h : ∃ e, parse (fuelFor text) (defaultCfg ns) text = .error e) : ∃ e, compile cc ns text = .error e := by
  obtain ⟨e, he⟩ := h
  unfold compile
  split
  · exact ⟨_, rfl⟩
  · rw [he]; exact ⟨_, rfl⟩

theorem plain_append_nonempty {w : List Char} (hw : plainName w = true) (tail : List Char) :
    (w ++ tail).isEmpty = false := by
  obtain ⟨c, w', rfl, _, _⟩ := plainName_cons hw
  rfl

/-- **`name:` not followed by `:`, `*` or a name-start character** (`a:`, `a: b`, `a:1`, `a:-b`,
`a:.`, `a:(`): the scanner's "invalid QName" error, whatever follows -/
theorem compile_qname_without_local (cc : CompileCfg) (ns : Option (List (String × String))) (w t1 : List Char)
    (hw : plainName w = true) (h1 : (mkCR t1).1 ≠ ':') (h2 : (mkCR t1).1 ≠ '*')
    (h3 : isNameStart (mkCR t1).1 = false) :
    compile cc ns (w ++ ':' :: t1) = .error (.parse (.scan .invalidQName)) := by
  refine compile_scan_error cc ns _ _ (plain_append_nonempty hw _) ?_
  rw [init_eq, nextItem_at_name hw (start_at _), nameCont_colon_bad (nameRun_colon hw) h1 h2 h3 (start_at _)]

/-- **a text that starts with `:`** (after optional blanks: `:a`, `::a`, ` :a`): "invalid token" -/
theorem compile_leading_colon (cc : CompileCfg) (ns : Option (List (String × String))) (text rest : List Char)
    (h : text.dropWhile isSpace = ':' :: rest) :
    compile cc ns text = .error (.parse (.scan .invalidToken)) := by
  have hne : text.isEmpty = false := by
    cases text with
    | nil => simp at h
    | cons _ _ => rfl
  refine compile_scan_error cc ns _ _ hne ?_
  rw [init_eq]
  apply nextItem_colon
  rw [skipSpace_at (start_at text), h]
  rfl

/-- **`name`, blanks, `:` not followed by `:`** (`a :b`, `a : b`, `a :`): "invalid QName" -/
theorem compile_name_blank_colon (cc : CompileCfg) (ns : Option (List (String × String))) (w tail t3 : List Char)
    (hw : plainName w = true) (hr : NameRun w tail) (hc : (mkCR tail).1 ≠ ':')
    (hsp : tail.dropWhile isSpace = ':' :: t3) (h3 : (mkCR t3).1 ≠ ':') :
    compile cc ns (w ++ tail) = .error (.parse (.scan .invalidQName)) := by
  refine compile_scan_error cc ns _ _ (plain_append_nonempty hw _) ?_
  rw [init_eq, nextItem_at_name hw (start_at _), nameCont_space_colon_bad hr hc hsp h3 (start_at _)]

/-- the local part of a qualified name as the scanner reads one -/
def localPart (w : List Char) : Bool :=
  match w with
  | [] => false
  | c :: _ => isNameStart c && w.all isName

theorem isNameStart_star : isNameStart '*' = false := by decide

theorem nameRun_local {w2 t : List Char} (h : localPart w2 = true) : NameRun w2 (':' :: t) := by
  cases w2 with
  | nil => simp [localPart] at h
  | cons c w' =>
    simp only [localPart, Bool.and_eq_true, List.all_eq_true] at h
    exact ⟨by simp, h.2, fun x xs e => by cases e; exact isName_colon, by simp only [mkCR_eta]; decide⟩

/-- the scanner on `prefix:local:…` — the token `prefix:local`, standing at the second colon -/
theorem init_qname_colon (w w2 rest : List Char) (hw : plainName w = true) (hw2 : localPart w2 = true) :
    Scan.init (w ++ ':' :: (w2 ++ ':' :: rest)) =
      .ok (mkTok (start (w ++ ':' :: (w2 ++ ':' :: rest))) (':' :: rest) .name (String.ofList w2) (String.ofList w)) := by
  have hstart : ∀ c, w2.head? = some c → isNameStart c = true := by
    intro c hc
    cases w2 with
    | nil => cases hc
    | cons d w' =>
      simp only [List.head?_cons, Option.some.injEq] at hc
      subst hc
      simp only [localPart, Bool.and_eq_true] at hw2
      exact hw2.1
  have hstar : w2.head? ≠ some '*' := by
    intro e
    have := hstart _ e
    rw [isNameStart_star] at this
    cases this
  rw [init_eq, nextItem_at_name hw (start_at _),
    nameCont_qname (nameRun_colon hw) (nameRun_local hw2) hstar hstart (start_at _)]

/-- **`a:b:c`** (a second colon after a qualified name; also `a:b:`, `a:b::c`, `a:b:*`): the token
`a:b` is scanned, the next token would start with `:` — "invalid token" -/
theorem compile_second_colon (cc : CompileCfg) (ns : Option (List (String × String))) (w w2 rest : List Char)
    (hw : plainName w = true) (hw2 : localPart w2 = true) :
    compile cc ns (w ++ ':' :: (w2 ++ ':' :: rest)) = .error (.parse (.scan .invalidToken)) := by
  have hinit := init_qname_colon w w2 rest hw hw2
  generalize hs : mkTok (start (w ++ ':' :: (w2 ++ ':' :: rest))) (':' :: rest) .name (String.ofList w2)
    (String.ofList w) = s at hinit
  have hsp : isSpace ':' = false := by decide
  have hcur : s.curr = ':' := by rw [← hs]; simp [mkTok, hsp, mkCR]
  have htyp : s.typ = .name := by rw [← hs]; rfl
  have hcf : s.canBeFunc = false := by rw [← hs]; simp [mkTok, hsp, mkCR]
  have hnext : s.nextItem = .error .invalidToken :=
    nextItem_colon s (by rw [skipSpace_id s (by rw [hcur]; exact hsp)]; exact hcur)
  have hR : NameSem.Final (.error (.scan .invalidToken)) := fun a st' h => by cases h
  have hS : ∀ f, parseStep (f+2) (defaultCfg ns) .none ⟨s, 1⟩ = .error (.scan .invalidToken) := by
    intro f
    simp [parseStep, parseNodeTest, htyp, hcf, PState.next, hnext, bind, Except.bind]
  have hp := NameSem.parse_one_step (defaultCfg ns) (NameSem.defaultCfg_depth ns)
    (w ++ ':' :: (w2 ++ ':' :: rest)) s hinit _ hS hR
    (by simp [isPrimaryExpr, htyp, hcf]) (by rw [htyp]; decide) (by rw [htyp]; decide) (by rw [htyp]; decide)
    (fuelFor (w ++ ':' :: (w2 ++ ':' :: rest))) (NameSem.fuelFor_ge (ns := ns) _)
  unfold compile
  simp only [plain_append_nonempty hw, Bool.false_eq_true, ↓reduceIte, hp, NameSem.resAst]

/-! ### … anywhere in a text (scanner-state level; for every fuel and configuration) -/

/-- a malformed qualified name at any token position the scanner reaches: rejected -/
theorem parse_fails_qname_without_local (fuel : Nat) (cfg : PCfg) {text : List Char} {s s1 : Scan} {u : List Tok}
    (hs : Scan.init text = .ok s) (hu : Steps s u s1) (hne : s1.typ ≠ .eof)
    {w t1 : List Char} (hw : plainName w = true) (hat : At (w ++ ':' :: t1) s1)
    (h1 : (mkCR t1).1 ≠ ':') (h2 : (mkCR t1).1 ≠ '*') (h3 : isNameStart (mkCR t1).1 = false) :
    ∃ e, parse fuel cfg text = .error e :=
  reject_scan_error fuel cfg hs hu hne
    (by rw [nextItem_at_name hw hat, nameCont_colon_bad (nameRun_colon hw) h1 h2 h3 hat])

/-- a colon where a token should start, at any token position the scanner reaches: rejected -/
theorem parse_fails_colon_token (fuel : Nat) (cfg : PCfg) {text : List Char} {s s1 : Scan} {u : List Tok}
    (hs : Scan.init text = .ok s) (hu : Steps s u s1) (hne : s1.typ ≠ .eof) (hc : s1.skipSpace.curr = ':') :
    ∃ e, parse fuel cfg text = .error e :=
  reject_scan_error fuel cfg hs hu hne (nextItem_colon s1 hc)

/-- `name`, blanks, `:` (no second colon) at any token position the scanner reaches: rejected -/
theorem parse_fails_name_blank_colon (fuel : Nat) (cfg : PCfg) {text : List Char} {s s1 : Scan} {u : List Tok}
    (hs : Scan.init text = .ok s) (hu : Steps s u s1) (hne : s1.typ ≠ .eof)
    {w tail t3 : List Char} (hw : plainName w = true) (hr : NameRun w tail) (hat : At (w ++ tail) s1)
    (hc : (mkCR tail).1 ≠ ':') (hsp : tail.dropWhile isSpace = ':' :: t3) (h3 : (mkCR t3).1 ≠ ':') :
    ∃ e, parse fuel cfg text = .error e :=
  reject_scan_error fuel cfg hs hu hne
    (by rw [nextItem_at_name hw hat, nameCont_space_colon_bad hr hc hsp h3 hat])

end XPathV.BuildRejects
