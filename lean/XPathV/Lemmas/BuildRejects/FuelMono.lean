import XPathV.Model.Parser
/-!
# More fuel does not change a successful parse

`parseX f … = .ok r → parseX (f+1) … = .ok r` for the fifteen parser functions (mutual induction on
the fuel), hence `parse f cfg text = .ok t → f ≤ f' → parse f' cfg text = .ok t`.
-/
namespace XPathV.BuildRejects.FuelMono
open XPathV XPathV.Model

def Le {α : Type} (R R' : Except PErr α) : Prop := ∀ r, R = .ok r → R' = .ok r

theorem Le.refl {α : Type} (R : Except PErr α) : Le R R := fun _ h => h
theorem Le.err {α : Type} {e : PErr} {R' : Except PErr α} : Le (.error e) R' := fun _ h => by cases h

theorem Le.bind {α β : Type} {R R' : Except PErr α} {k k' : α → Except PErr β} (h : Le R R')
    (hk : ∀ a, Le (k a) (k' a)) : Le (R >>= k) (R' >>= k') := by
  intro r e
  cases hR : R with
  | error err => rw [hR] at e; cases e
  | ok a =>
    rw [hR] at e
    rw [h a hR]
    exact hk a r e

theorem skipMinus_mono : ∀ (f : Nat) (st : PState) (m : Bool), Le (skipMinus f st m) (skipMinus (f+1) st m)
  | 0, _, _ => by simp only [skipMinus]; exact Le.err
  | f+1, st, m => by
    rw [skipMinus, skipMinus]
    split
    · exact Le.bind (Le.refl _) fun st1 => skipMinus_mono f st1 (!m)
    · exact Le.refl _

section
variable (cfg : PCfg)

def MExpr (f : Nat) : Prop := ∀ st, Le (parseExpression f cfg st) (parseExpression (f+1) cfg st)
def MChain (f : Nat) : Prop := ∀ stages st, Le (parseChain f cfg stages st) (parseChain (f+1) cfg stages st)
def MTier (f : Nat) : Prop := ∀ ops rest opnd st,
  Le (tierLoop f cfg ops rest opnd st) (tierLoop (f+1) cfg ops rest opnd st)
def MPath (f : Nat) : Prop := ∀ st, Le (parsePathExpr f cfg st) (parsePathExpr (f+1) cfg st)
def MFilter (f : Nat) : Prop := ∀ st, Le (parseFilterExpr f cfg st) (parseFilterExpr (f+1) cfg st)
def MPred (f : Nat) : Prop := ∀ st, Le (parsePredicate f cfg st) (parsePredicate (f+1) cfg st)
def MPrimary (f : Nat) : Prop := ∀ st, Le (parsePrimary f cfg st) (parsePrimary (f+1) cfg st)
def MMethod (f : Nat) : Prop := ∀ st, Le (parseMethod f cfg st) (parseMethod (f+1) cfg st)
def MArgs (f : Nat) : Prop := ∀ st, Le (parseArgs f cfg st) (parseArgs (f+1) cfg st)
def MLoc (f : Nat) : Prop := ∀ st, Le (parseLocationPath f cfg st) (parseLocationPath (f+1) cfg st)
def MRel (f : Nat) : Prop := ∀ inp st, Le (parseRelLoc f cfg inp st) (parseRelLoc (f+1) cfg inp st)
def MStep (f : Nat) : Prop := ∀ inp st, Le (parseStep f cfg inp st) (parseStep (f+1) cfg inp st)
def MPreds (f : Nat) : Prop := ∀ opnd st, Le (stepPreds f cfg opnd st) (stepPreds (f+1) cfg opnd st)
def MSeq (f : Nat) : Prop := ∀ inp st, Le (parseSequence f cfg inp st) (parseSequence (f+1) cfg inp st)
def MSeqLoop (f : Nat) : Prop := ∀ inp opnd st, Le (seqLoop f cfg inp opnd st) (seqLoop (f+1) cfg inp opnd st)

def MAll (f : Nat) : Prop :=
  MExpr cfg f ∧ MChain cfg f ∧ MTier cfg f ∧ MPath cfg f ∧ MFilter cfg f ∧ MPred cfg f ∧ MPrimary cfg f ∧
  MMethod cfg f ∧ MArgs cfg f ∧ MLoc cfg f ∧ MRel cfg f ∧ MStep cfg f ∧ MPreds cfg f ∧ MSeq cfg f ∧ MSeqLoop cfg f

variable {cfg}

theorem step_expr {f : Nat} (ih : MChain cfg f) : MExpr cfg (f+1) := by
  intro st
  rw [parseExpression, parseExpression]
  split
  · exact Le.err
  · exact Le.bind (ih _ _) fun _ => Le.refl _

theorem step_chain {f : Nat} (ihChain : MChain cfg f) (ihTier : MTier cfg f) (ihPath : MPath cfg f) :
    MChain cfg (f+1) := by
  intro stages st
  cases stages with
  | nil => rw [parseChain, parseChain]; exact ihPath st
  | cons s rest =>
    cases s with
    | tier ops =>
      rw [parseChain, parseChain]
      exact Le.bind (ihChain rest st) fun ⟨opnd, st1⟩ => ihTier ops rest opnd st1
    | unary =>
      rw [parseChain, parseChain]
      refine Le.bind (skipMinus_mono (f+1) st false) fun ⟨minus, st1⟩ => ?_
      exact Le.bind (ihChain rest st1) fun _ => Le.refl _

theorem step_tier {f : Nat} (ihChain : MChain cfg f) (ihTier : MTier cfg f) : MTier cfg (f+1) := by
  intro ops rest opnd st
  rw [tierLoop, tierLoop]
  split
  · exact Le.refl _
  · refine Le.bind (Le.refl _) fun st1 => ?_
    exact Le.bind (ihChain rest st1) fun ⟨r, st2⟩ => ihTier ops rest _ st2

theorem step_path {f : Nat} (ihFilter : MFilter cfg f) (ihRel : MRel cfg f) (ihLoc : MLoc cfg f) :
    MPath cfg (f+1) := by
  intro st
  rw [parsePathExpr, parsePathExpr]
  split
  · refine Le.bind (ihFilter st) fun ⟨opnd, st1⟩ => ?_
    dsimp only
    split
    · exact Le.bind (Le.refl _) fun st2 => ihRel _ st2
    · exact Le.bind (Le.refl _) fun st2 => ihRel _ st2
    · exact Le.refl _
  · exact ihLoc st

theorem step_filter {f : Nat} (ihPrimary : MPrimary cfg f) (ihPreds : MPreds cfg f) : MFilter cfg (f+1) := by
  intro st
  rw [parseFilterExpr, parseFilterExpr]
  exact Le.bind (ihPrimary st) fun ⟨opnd, st1⟩ => ihPreds opnd st1

theorem step_pred {f : Nat} (ihExpr : MExpr cfg f) : MPred cfg (f+1) := by
  intro st
  rw [parsePredicate, parsePredicate]
  refine Le.bind (Le.refl _) fun st1 => ?_
  exact Le.bind (ihExpr st1) fun _ => Le.refl _

theorem step_primary {f : Nat} (ihExpr : MExpr cfg f) (ihMethod : MMethod cfg f) : MPrimary cfg (f+1) := by
  intro st
  rw [parsePrimary, parsePrimary]
  split
  · exact Le.refl _
  · exact Le.refl _
  · exact Le.refl _
  · refine Le.bind (Le.refl _) fun st1 => ?_
    exact Le.bind (ihExpr st1) fun _ => Le.refl _
  · split
    · exact ihMethod st
    · exact Le.refl _
  · exact Le.refl _

theorem step_method {f : Nat} (ihArgs : MArgs cfg f) : MMethod cfg (f+1) := by
  intro st
  rw [parseMethod, parseMethod]
  refine Le.bind (Le.refl _) fun st1 => ?_
  refine Le.bind (Le.refl _) fun st2 => ?_
  dsimp only
  split
  · exact Le.bind (ihArgs st2) fun _ => Le.refl _
  · exact Le.refl _

theorem step_args {f : Nat} (ihExpr : MExpr cfg f) (ihArgs : MArgs cfg f) : MArgs cfg (f+1) := by
  intro st
  rw [parseArgs, parseArgs]
  refine Le.bind (ihExpr st) fun ⟨a, st1⟩ => ?_
  dsimp only
  split
  · exact Le.refl _
  · refine Le.bind (Le.refl _) fun st2 => ?_
    exact Le.bind (ihArgs st2) fun _ => Le.refl _

theorem step_loc {f : Nat} (ihRel : MRel cfg f) : MLoc cfg (f+1) := by
  intro st
  rw [parseLocationPath, parseLocationPath]
  split
  · refine Le.bind (Le.refl _) fun st1 => ?_
    split
    · exact ihRel _ st1
    · exact Le.refl _
  · exact Le.bind (Le.refl _) fun st1 => ihRel _ st1
  · exact ihRel _ st

theorem step_rel {f : Nat} (ihRel : MRel cfg f) (ihStep : MStep cfg f) : MRel cfg (f+1) := by
  intro inp st
  rw [parseRelLoc, parseRelLoc]
  refine Le.bind (ihStep inp st) fun ⟨opnd, st1⟩ => ?_
  dsimp only
  split
  · exact Le.bind (Le.refl _) fun st2 => ihRel _ st2
  · exact Le.bind (Le.refl _) fun st2 => ihRel _ st2
  · exact Le.refl _

theorem step_step {f : Nat} (ihSeq : MSeq cfg f) (ihPreds : MPreds cfg f) : MStep cfg (f+1) := by
  intro inp st
  rw [parseStep, parseStep]
  split
  · refine Le.bind (Le.refl _) fun st1 => ?_
    split
    · exact Le.refl _
    · exact ihPreds _ st1
  · split
    · exact ihSeq inp st
    · refine Le.bind (Le.refl _) fun st1 => ?_
      exact Le.bind (Le.refl _) fun ⟨opnd, st2⟩ => ihPreds opnd st2
    · refine Le.bind (Le.refl _) fun st1 => ?_
      exact Le.bind (Le.refl _) fun ⟨opnd, st2⟩ => ihPreds opnd st2
    · exact Le.bind (Le.refl _) fun ⟨opnd, st2⟩ => ihPreds opnd st2

theorem step_preds {f : Nat} (ihPred : MPred cfg f) (ihPreds : MPreds cfg f) : MPreds cfg (f+1) := by
  intro opnd st
  rw [stepPreds, stepPreds]
  split
  · exact Le.bind (ihPred st) fun ⟨c, st1⟩ => ihPreds _ st1
  · exact Le.refl _

theorem step_seq {f : Nat} (ihStep : MStep cfg f) (ihSeqLoop : MSeqLoop cfg f) : MSeq cfg (f+1) := by
  intro inp st
  rw [parseSequence, parseSequence]
  split
  · exact Le.err
  · refine Le.bind (Le.refl _) fun st1 => ?_
    refine Le.bind (ihStep inp st1) fun ⟨opnd, st2⟩ => ?_
    exact Le.bind (ihSeqLoop inp opnd st2) fun _ => Le.refl _

theorem step_seqLoop {f : Nat} (ihStep : MStep cfg f) (ihSeqLoop : MSeqLoop cfg f) : MSeqLoop cfg (f+1) := by
  intro inp opnd st
  rw [seqLoop, seqLoop]
  split
  · refine Le.bind (Le.refl _) fun st1 => ?_
    exact Le.bind (ihStep inp st1) fun ⟨o2, st2⟩ => ihSeqLoop inp _ st2
  · exact Le.refl _

theorem all_mono : ∀ f, MAll cfg f
  | 0 => by
    refine ⟨?_, ?_, ?_, ?_, ?_, ?_, ?_, ?_, ?_, ?_, ?_, ?_, ?_, ?_, ?_⟩ <;> intro <;> intros
    all_goals
      intro r e
      simp only [parseExpression, parseChain, tierLoop, parsePathExpr, parseFilterExpr, parsePredicate,
        parsePrimary, parseMethod, parseArgs, parseLocationPath, parseRelLoc, parseStep, stepPreds, parseSequence,
        seqLoop] at e
      cases e
  | f+1 => by
    obtain ⟨hExpr, hChain, hTier, hPath, hFilter, hPred, hPrimary, hMethod, hArgs, hLoc, hRel, hStep, hPreds,
      hSeq, hSeqLoop⟩ := all_mono f
    exact ⟨step_expr hChain, step_chain hChain hTier hPath, step_tier hChain hTier,
      step_path hFilter hRel hLoc, step_filter hPrimary hPreds, step_pred hExpr,
      step_primary hExpr hMethod, step_method hArgs, step_args hExpr hArgs, step_loc hRel,
      step_rel hRel hStep, step_step hSeq hPreds, step_preds hPred hPreds, step_seq hStep hSeqLoop,
      step_seqLoop hStep hSeqLoop⟩

end

theorem parseExpression_mono (cfg : PCfg) {f f' : Nat} (h : f ≤ f') (st : PState) :
    Le (parseExpression f cfg st) (parseExpression f' cfg st) := by
  induction h with
  | refl => exact Le.refl _
  | step _ ih => exact fun r e => (all_mono _).1 st r (ih r e)

/-- more fuel does not change an accepted parse -/
theorem parse_mono (cfg : PCfg) {f f' : Nat} (h : f ≤ f') (text : List Char) (t : Ast)
    (hp : parse f cfg text = .ok t) : parse f' cfg text = .ok t := by
  unfold parse at hp ⊢
  split
  · rename_i e he; rw [he] at hp; cases hp
  · rename_i s hs
    rw [hs] at hp
    dsimp only at hp ⊢
    cases hr : parseExpression f cfg { s := s, d := 0 } with
    | error e => rw [hr] at hp; cases hp
    | ok r =>
      rw [parseExpression_mono cfg h _ r hr]
      rw [hr] at hp
      exact hp

end XPathV.BuildRejects.FuelMono
