import XPathV.Lemmas.ParserShape
/-!
# C17, second half — what the parser records for a function name and an axis name

Local facts (every fuel, every configuration): a name token directly followed by `(` that is no
node-type name becomes a `.call` node carrying the name and prefix *as written*; an axis specifier
`name::` becomes an `.axis` node carrying `name` as its axis, whatever the name (the parser checks
nothing; the builder does).
-/
namespace XPathV.BuildRejects
open XPathV XPathV.Model
open XPathV.Lemmas.ParserShape (bind_ok)

/-- `parseMethod` records the function name and prefix of the current token -/
theorem parseMethod_records (f : Nat) (cfg : PCfg) (st st' : PState) (a : Ast)
    (h : parseMethod f cfg st = .ok (a, st')) : ∃ args, a = .call st.s.name st.s.pfx args := by
  cases f with
  | zero => simp [parseMethod] at h
  | succ f =>
    simp only [parseMethod] at h
    obtain ⟨st1, _, h⟩ := bind_ok h
    obtain ⟨st2, _, h⟩ := bind_ok h
    split at h
    · obtain ⟨x, _, h⟩ := bind_ok h
      obtain ⟨st3, _, h⟩ := bind_ok h
      cases h
      exact ⟨_, rfl⟩
    · obtain ⟨x, _, h⟩ := bind_ok h
      obtain ⟨st3, _, h⟩ := bind_ok h
      cases h
      exact ⟨_, rfl⟩

/-- a name token followed by `(` that is no node-type test is parsed as a function call under the
name as written — known function or not -/
theorem parsePrimary_call_records (f : Nat) (cfg : PCfg) (st st' : PState) (a : Ast)
    (ht : st.s.typ = .name) (hc : st.s.canBeFunc = true) (hn : isNodeType st.s = false)
    (h : parsePrimary f cfg st = .ok (a, st')) : ∃ args, a = .call st.s.name st.s.pfx args := by
  cases f with
  | zero => simp [parsePrimary] at h
  | succ f =>
    simp only [parsePrimary, ht, hc, hn, Bool.not_false, Bool.and_self, ↓reduceIte] at h
    exact parseMethod_records f cfg st st' a h

/-- such a token is a primary expression: `parsePathExpr` goes to `parseFilterExpr` -/
theorem isPrimaryExpr_call (s : Scan) (ht : s.typ = .name) (hc : s.canBeFunc = true) (hn : isNodeType s = false) :
    isPrimaryExpr s = true := by
  simp [isPrimaryExpr, ht, hc, hn]

/-- the axis name of a step with its predicates stripped -/
def stepAxis : Ast → Option String
  | .axis a _ => some a.axis
  | .filter i _ => stepAxis i
  | _ => none

theorem parseNodeTest_axis (cfg : PCfg) (inp : Ast) (axis : String) (mt : NType) (st st' : PState) (a : Ast)
    (h : parseNodeTest cfg inp axis mt st = .ok (a, st')) : ∃ info, a = .axis info inp ∧ info.axis = axis := by
  unfold parseNodeTest at h
  split at h
  · split at h
    · obtain ⟨s1, _, h⟩ := bind_ok h
      obtain ⟨s2, _, h⟩ := bind_ok h
      dsimp only at h
      split at h
      · split at h
        · obtain ⟨s3, _, h⟩ := bind_ok h
          obtain ⟨x, _, h⟩ := bind_ok h
          obtain ⟨s4, _, h⟩ := bind_ok h
          cases h
          exact ⟨_, rfl, rfl⟩
        · obtain ⟨x, hx, _⟩ := bind_ok h
          cases hx
      · obtain ⟨x, _, h⟩ := bind_ok h
        obtain ⟨s4, _, h⟩ := bind_ok h
        cases h
        exact ⟨_, rfl, rfl⟩
    · obtain ⟨s1, _, h⟩ := bind_ok h
      revert h
      repeat' split
      all_goals (intro h; first | (cases h; exact ⟨_, rfl, rfl⟩) | cases h)
  · obtain ⟨s1, _, h⟩ := bind_ok h
    cases h
    exact ⟨_, rfl, rfl⟩
  · cases h

theorem stepPreds_stepAxis : ∀ (f : Nat) (cfg : PCfg) (opnd : Ast) (st st' : PState) (a : Ast),
    stepPreds f cfg opnd st = .ok (a, st') → stepAxis a = stepAxis opnd
  | 0, _, _, _, _, _, h => by simp [stepPreds] at h
  | f+1, cfg, opnd, st, st', a, h => by
    simp only [stepPreds] at h
    split at h
    · obtain ⟨⟨c, st1⟩, _, h⟩ := bind_ok h
      rw [stepPreds_stepAxis f cfg _ st1 st' a h]
      rfl
    · cases h; rfl

/-- **an axis specifier `name::` is recorded as written**: the step (under its predicates) is an
`.axis` node whose axis is the name of the specifier token — `foo::a` parses -/
theorem parseStep_axe_records (f : Nat) (cfg : PCfg) (inp : Ast) (st st' : PState) (a : Ast)
    (ht : st.s.typ = .axe) (h : parseStep f cfg inp st = .ok (a, st')) : stepAxis a = some st.s.name := by
  cases f with
  | zero => simp [parseStep] at h
  | succ f =>
    simp only [parseStep, ht, beq_iff_eq, reduceCtorEq, ↓reduceIte] at h
    obtain ⟨s1, _, h⟩ := bind_ok h
    obtain ⟨⟨opnd, s2⟩, h2, h⟩ := bind_ok h
    obtain ⟨info, rfl, hi⟩ := parseNodeTest_axis _ _ _ _ _ _ _ h2
    rw [stepPreds_stepAxis f cfg _ s2 st' a h]
    simp [stepAxis, hi]

end XPathV.BuildRejects
