import XPathV.Model.Builder
/-!
# C17, second half — tree level: the builder model rejects every tree with a bad node

`Bad t k` follows exactly the sub-trees `build` visits when it is called on `t` with `flags.take = k`
(the `take` field only matters for argument lists: `build` builds the first `take` arguments of an
`.acons` chain and ignores the others).  A *bad node* is

* (a) a `.call name _ args` with `fnArity name = none` — unknown function;
* (b) a `.call name _ args` whose number of arguments is below the minimum or above the explicit
  maximum `build` enforces for `name` (`badCall`);
* (c) an `.axis a _` whose axis name is not one of the twelve names `axisPlan` accepts
  (`badAxis`; this includes the XPath axis `namespace`, which the builder refuses with its own error).

What `build` does **not** visit, and `Bad` therefore does not look at:
* the arguments of a call beyond the first `fnUsed name n` (all arguments of `true false last
  position`; everything after the first argument of `count sum not string-length …`; the 4th, 5th …
  argument of `substring`): `true(foo())`, `count(a, foo())` are accepted by the model;
* the prefix of a function name (`p:count(a)` is `count(a)`);
* the input `.none` of a first step.
-/
namespace XPathV.BuildRejects
open XPathV XPathV.Model

/-- the axis names `axisPlan` turns into a query -/
def axisTable : List String :=
  ["ancestor", "ancestor-or-self", "attribute", "child", "descendant", "descendant-or-self", "following",
   "following-sibling", "parent", "preceding", "preceding-sibling", "self"]

def badAxisName (s : String) : Bool := !(axisTable.contains s)

def badAxis (a : AxisInfo) : Bool := badAxisName a.axis

/-- a call of `name` with `n` arguments is outside the arity window of `processFunction`
(or `name` is no function at all) -/
def badCall (name : String) (n : Nat) : Bool :=
  match fnArity name with
  | none => true
  | some (mn, mx, _) => decide (n < mn) || (match mx with | some m => decide (n > m) | none => false)

/-- `Bad t k`: the builder, called on `t` with `flags.take = k`, visits a bad node -/
def Bad : Ast → Nat → Bool
  | .acons h t, k => k != 0 && (Bad h 0 || Bad t (k - 1))
  | .call name _ args, _ => badCall name args.argList.length || Bad args (fnUsed name args.argList.length)
  | .axis a inp, _ => badAxis a || Bad inp 0
  | .filter i c, k => Bad i k || Bad c k
  | .oper _ l r, _ => Bad l 0 || Bad r 0
  | .group x, _ => Bad x 0
  | _, _ => false

/-- the predicate for a whole expression (`compile` starts `build` with `take = 0`) -/
abbrev BadNode (t : Ast) : Bool := Bad t 0

def Fails {ε α : Type} (x : Except ε α) : Prop := ∃ e, x = .error e

theorem Fails.error {ε α : Type} (e : ε) : Fails (.error e : Except ε α) := ⟨e, rfl⟩

theorem Fails.not_ok {ε α : Type} {x : Except ε α} (h : Fails x) (v : α) : x ≠ .ok v := by
  obtain ⟨e, he⟩ := h; rw [he]; intro h; cases h

theorem Fails.of_not_ok {ε α : Type} {x : Except ε α} (h : ∀ v, x ≠ .ok v) : Fails x := by
  cases x with
  | error e => exact ⟨e, rfl⟩
  | ok v => exact absurd rfl (h v)

theorem Fails.bind_left {ε α β : Type} {x : Except ε α} {f : α → Except ε β} (h : Fails x) : Fails (x >>= f) := by
  obtain ⟨e, he⟩ := h; exact ⟨e, by rw [he]; rfl⟩

theorem Fails.bind {ε α β : Type} {x : Except ε α} {f : α → Except ε β} (h : ∀ v, x = .ok v → Fails (f v)) :
    Fails (x >>= f) := by
  cases x with
  | error e => exact ⟨e, rfl⟩
  | ok v => exact h v rfl

theorem enter_fails {lim : Nat} {st : BState} {k : BState → Except BErr BOut}
    (h : ∀ n, Fails (k { st with depth := n })) : Fails (build.enter lim st k) := by
  unfold build.enter
  split
  · exact Fails.error _
  · exact h _

theorem axisPlan_fails (a : AxisInfo) (fl : Flags) (props : Props) (inp : Plan) (h : badAxis a = true) :
    Fails (axisPlan a fl props inp) := by
  unfold axisPlan
  split
  all_goals first
    | exact Fails.error _
    | (rename_i hx; simp [badAxis, badAxisName, axisTable, hx] at h)

theorem axisPlan_error_iff (a : AxisInfo) (fl : Flags) (props : Props) (inp : Plan) :
    Fails (axisPlan a fl props inp) ↔ badAxis a = true := by
  refine ⟨fun h => ?_, axisPlan_fails a fl props inp⟩
  obtain ⟨e, he⟩ := h
  unfold axisPlan at he
  split at he
  all_goals first
    | cases he; done
    | (rename_i hx; simp [badAxis, badAxisName, axisTable, hx]; done)
    | (simp only [badAxis, badAxisName, axisTable, List.contains_cons, List.contains_nil, Bool.or_false,
        Bool.not_eq_true', Bool.or_eq_false_iff, beq_eq_false_iff_ne, ne_eq]
       refine ⟨?_, ?_, ?_, ?_, ?_, ?_, ?_, ?_, ?_, ?_, ?_, ?_⟩ <;> assumption)


/-- **tree level, the core**: whatever the configuration, the flags and the builder state, `build`
fails on a tree in which it visits a bad node -/
theorem build_fails_of_bad (rx : RegexOk) (lim : Nat) (sn sd : Bool) (t : Ast) (fl : Flags) (st : BState) :
    Bad t fl.take = true → Fails (build rx lim sn sd t fl st) := by
  induction t, fl, st using build.induct sd with
  | case1 s fl st | case2 s fl st | case3 s fl st => intro h; simp [Bad] at h
  | case4 p n fl st => intro h; simp [Bad] at h
  | case5 fl st => intro h; simp [Bad] at h
  | case6 fl st => intro h; simp [Bad] at h
  | case7 h t fl st htake =>
    intro hb
    simp only [beq_iff_eq] at htake
    simp [Bad, htake] at hb
  | case8 h t fl st htake ihh iht =>
    intro hb
    simp only [Bad, Bool.and_eq_true, Bool.or_eq_true] at hb
    simp only [build, htake]
    rcases hb.2 with hb | hb
    · exact Fails.bind_left (ihh hb)
    · exact Fails.bind fun ho _ => Fails.bind_left (iht ho hb)
  | case9 x fl st ih =>
    intro hb
    simp only [Bad] at hb
    simp only [build]
    exact enter_fails fun n => Fails.bind_left (ih _ hb)
  | case10 op l r fl st ihl ihr =>
    intro hb
    simp only [Bad, Bool.or_eq_true] at hb
    simp only [build]
    refine enter_fails fun n => ?_
    rcases hb with hb | hb
    · exact Fails.bind_left (ihl _ hb)
    · exact Fails.bind fun lo _ => Fails.bind_left (ihr lo hb)
  | case11 name pfx args fl st ih =>
    intro hb
    simp only [Bad, Bool.or_eq_true] at hb
    simp -zeta only [build]
    refine enter_fails fun n => ?_
    extract_lets n1
    split
    · exact Fails.error _
    · rename_i mn mx idx harity
      split
      · exact Fails.error _
      · rename_i hmin
        split
        all_goals split
        all_goals first
          | exact Fails.error _
          | skip
        all_goals
          rename_i hmax
          rcases hb with hb | hb
          · exfalso
            simp only [n1] at hmin hmax
            simp only [badCall, harity, Bool.or_eq_true, decide_eq_true_eq] at hb
            rcases hb with hb | hb
            · exact hmin hb
            · first | exact hmax (decide_eq_true hb) | simp at hb
          · exact Fails.bind_left (ih _ hb)
  | case12 a fl st =>
    intro hb
    simp only [Bad, Bool.or_false] at hb
    simp only [build]
    exact enter_fails fun n => Fails.bind_left (axisPlan_fails a fl {} .context hb)
  | case13 a b grand fl st ihg ihi =>
    intro hb
    simp only [build]
    refine enter_fails fun n => ?_
    split
    · rename_i hsc
      -- the `//name` shortcut: `a` is `child`, `b` is `descendant-or-self`; only `grand` can be bad
      have ha : badAxis a = false := by
        simp only [Bool.and_eq_true, beq_iff_eq] at hsc
        simp [badAxis, badAxisName, axisTable, hsc.1.2]
      have hbx : badAxis b = false := by
        simp only [Bool.and_eq_true, isPlainDos, beq_iff_eq] at hsc
        simp [badAxis, badAxisName, axisTable, hsc.2.1]
      simp only [Bad, ha, hbx, Bool.false_or] at hb
      split
      · simp [Bad] at hb
      · rename_i hne
        have h := ihg ⟨n, st.firstInput, st.predInput⟩
        dsimp only at h
        split at h
        · exact absurd rfl (hne · )
        · exact Fails.bind_left (h hb)
    · simp only [Bad, Bool.or_eq_true] at hb
      rcases hb with hb | hb
      · exact Fails.bind fun o _ => Fails.bind_left (axisPlan_fails a fl _ _ hb)
      · refine Fails.bind_left (ihi ⟨n, st.firstInput, st.predInput⟩ ?_)
        have : (build.inFlagsOf a fl).take = 0 := by unfold build.inFlagsOf; split <;> rfl
        rw [this]
        simpa [Bad] using hb
  | case14 a other fl st h1 h2 ih =>
    intro hb
    simp only [Bad, Bool.or_eq_true] at hb
    simp only [build]
    refine enter_fails fun n => ?_
    rcases hb with hb | hb
    · exact Fails.bind fun o _ => Fails.bind_left (axisPlan_fails a fl _ _ hb)
    · refine Fails.bind_left (ih ⟨n, st.firstInput, st.predInput⟩ ?_)
      have : (build.inFlagsOf a fl).take = 0 := by unfold build.inFlagsOf; split <;> rfl
      rw [this]
      exact hb
  | case15 inp cond fl st ihi ihc =>
    intro hb
    simp only [Bad, Bool.or_eq_true] at hb
    simp -zeta only [build]
    refine enter_fails fun n => ?_
    extract_lets first inFlags
    rcases hb with hb | hb
    · exact Fails.bind_left (ihi _ hb)
    · exact Fails.bind fun io _ => Fails.bind_left (ihc io hb)

/-- the same, read the other way: a tree the builder accepts has no bad node where the builder looks -/
theorem not_bad_of_build_ok (rx : RegexOk) (lim : Nat) (sn sd : Bool) (t : Ast) (fl : Flags) (st : BState) (o : BOut)
    (h : build rx lim sn sd t fl st = .ok o) : Bad t fl.take = false := by
  cases hb : Bad t fl.take with
  | false => rfl
  | true => exact absurd h ((build_fails_of_bad rx lim sn sd t fl st hb).not_ok o)

/-- for a whole expression (every caller other than an argument list passes `take = 0`) -/
theorem build_ok_not_BadNode (rx : RegexOk) (lim : Nat) (sn sd : Bool) (t : Ast) (fl : Flags) (st : BState) (o : BOut)
    (htake : fl.take = 0) (h : build rx lim sn sd t fl st = .ok o) : BadNode t = false := by
  have := not_bad_of_build_ok rx lim sn sd t fl st o h
  rwa [htake] at this


/-! ## The same predicate as "a visited sub-tree is locally bad" -/

/-- the node itself is one of the three damage classes -/
def localBad : Ast → Bool
  | .call name _ args => badCall name args.argList.length
  | .axis a _ => badAxis a
  | _ => false

/-- `Visits t k s`: `s` is `t` or a sub-tree of `t` that `build`, called on `t` with `take = k`,
recurses into (unless something fails before) -/
inductive Visits : Ast → Nat → Ast → Prop
  | here (t : Ast) (k : Nat) : Visits t k t
  | cons_hd {h t s : Ast} {k : Nat} : k ≠ 0 → Visits h 0 s → Visits (.acons h t) k s
  | cons_tl {h t s : Ast} {k : Nat} : k ≠ 0 → Visits t (k - 1) s → Visits (.acons h t) k s
  | call_arg {name pfx : String} {args s : Ast} {k : Nat} :
      Visits args (fnUsed name args.argList.length) s → Visits (.call name pfx args) k s
  | axis_in {a : AxisInfo} {inp s : Ast} {k : Nat} : Visits inp 0 s → Visits (.axis a inp) k s
  | filter_in {i c s : Ast} {k : Nat} : Visits i k s → Visits (.filter i c) k s
  | filter_cond {i c s : Ast} {k : Nat} : Visits c k s → Visits (.filter i c) k s
  | oper_l {op : String} {l r s : Ast} {k : Nat} : Visits l 0 s → Visits (.oper op l r) k s
  | oper_r {op : String} {l r s : Ast} {k : Nat} : Visits r 0 s → Visits (.oper op l r) k s
  | group {x s : Ast} {k : Nat} : Visits x 0 s → Visits (.group x) k s

theorem bad_of_visits {t s : Ast} {k : Nat} (h : Visits t k s) (hs : localBad s = true) : Bad t k = true := by
  induction h with
  | here t k =>
    cases t <;> simp_all [localBad, Bad]
  | cons_hd hk _ ih => simp [Bad, hk, ih hs]
  | cons_tl hk _ ih => simp [Bad, hk, ih hs]
  | call_arg _ ih => simp [Bad, ih hs]
  | axis_in _ ih => simp [Bad, ih hs]
  | filter_in _ ih => simp [Bad, ih hs]
  | filter_cond _ ih => simp [Bad, ih hs]
  | oper_l _ ih => simp [Bad, ih hs]
  | oper_r _ ih => simp [Bad, ih hs]
  | group _ ih => simp [Bad, ih hs]

theorem visits_of_bad : ∀ (t : Ast) (k : Nat), Bad t k = true → ∃ s, Visits t k s ∧ localBad s = true
  | .acons h t, k, hb => by
    simp only [Bad, Bool.and_eq_true, Bool.or_eq_true, bne_iff_ne, ne_eq] at hb
    rcases hb.2 with h1 | h1
    · obtain ⟨s, hv, hs⟩ := visits_of_bad h 0 h1
      exact ⟨s, .cons_hd hb.1 hv, hs⟩
    · obtain ⟨s, hv, hs⟩ := visits_of_bad t (k - 1) h1
      exact ⟨s, .cons_tl hb.1 hv, hs⟩
  | .call name pfx args, k, hb => by
    simp only [Bad, Bool.or_eq_true] at hb
    rcases hb with h1 | h1
    · exact ⟨_, .here _ _, by simpa [localBad] using h1⟩
    · obtain ⟨s, hv, hs⟩ := visits_of_bad args _ h1
      exact ⟨s, .call_arg hv, hs⟩
  | .axis a inp, k, hb => by
    simp only [Bad, Bool.or_eq_true] at hb
    rcases hb with h1 | h1
    · exact ⟨_, .here _ _, by simpa [localBad] using h1⟩
    · obtain ⟨s, hv, hs⟩ := visits_of_bad inp 0 h1
      exact ⟨s, .axis_in hv, hs⟩
  | .filter i c, k, hb => by
    simp only [Bad, Bool.or_eq_true] at hb
    rcases hb with h1 | h1
    · obtain ⟨s, hv, hs⟩ := visits_of_bad i k h1
      exact ⟨s, .filter_in hv, hs⟩
    · obtain ⟨s, hv, hs⟩ := visits_of_bad c k h1
      exact ⟨s, .filter_cond hv, hs⟩
  | .oper op l r, k, hb => by
    simp only [Bad, Bool.or_eq_true] at hb
    rcases hb with h1 | h1
    · obtain ⟨s, hv, hs⟩ := visits_of_bad l 0 h1
      exact ⟨s, .oper_l hv, hs⟩
    · obtain ⟨s, hv, hs⟩ := visits_of_bad r 0 h1
      exact ⟨s, .oper_r hv, hs⟩
  | .group x, k, hb => by
    simp only [Bad] at hb
    obtain ⟨s, hv, hs⟩ := visits_of_bad x 0 hb
    exact ⟨s, .group hv, hs⟩
  | .none, _, hb | .root _, _, hb | .anil, _, hb | .str _, _, hb | .num _, _, hb | .var _ _, _, hb => by
    simp [Bad] at hb

/-- `Bad` = "some sub-tree the builder visits is an unknown function, a call with a wrong number of
arguments, or a step on an unknown axis" -/
theorem bad_iff_visits (t : Ast) (k : Nat) : Bad t k = true ↔ ∃ s, Visits t k s ∧ localBad s = true :=
  ⟨visits_of_bad t k, fun ⟨_, hv, hs⟩ => bad_of_visits hv hs⟩

/-- the three damage classes, each as a statement about a visited node -/
theorem build_fails_unknown_function (rx : RegexOk) (lim : Nat) (sn sd : Bool) (t : Ast) (fl : Flags) (st : BState)
    {name pfx : String} {args : Ast} (hv : Visits t fl.take (.call name pfx args)) (hn : fnArity name = none) :
    Fails (build rx lim sn sd t fl st) :=
  build_fails_of_bad rx lim sn sd t fl st (bad_of_visits hv (by simp [localBad, badCall, hn]))

theorem build_fails_too_few_arguments (rx : RegexOk) (lim : Nat) (sn sd : Bool) (t : Ast) (fl : Flags) (st : BState)
    {name pfx : String} {args : Ast} {mn : Nat} {mx : Option Nat} {idx : Bool}
    (hv : Visits t fl.take (.call name pfx args)) (hn : fnArity name = some (mn, mx, idx))
    (hlt : args.argList.length < mn) : Fails (build rx lim sn sd t fl st) :=
  build_fails_of_bad rx lim sn sd t fl st (bad_of_visits hv (by simp [localBad, badCall, hn, hlt]))

theorem build_fails_too_many_arguments (rx : RegexOk) (lim : Nat) (sn sd : Bool) (t : Ast) (fl : Flags) (st : BState)
    {name pfx : String} {args : Ast} {mn m : Nat} {idx : Bool}
    (hv : Visits t fl.take (.call name pfx args)) (hn : fnArity name = some (mn, some m, idx))
    (hgt : m < args.argList.length) : Fails (build rx lim sn sd t fl st) :=
  build_fails_of_bad rx lim sn sd t fl st (bad_of_visits hv (by simp [localBad, badCall, hn, hgt]))

theorem build_fails_unknown_axis (rx : RegexOk) (lim : Nat) (sn sd : Bool) (t : Ast) (fl : Flags) (st : BState)
    {a : AxisInfo} {inp : Ast} (hv : Visits t fl.take (.axis a inp)) (ha : a.axis ∉ axisTable) :
    Fails (build rx lim sn sd t fl st) :=
  build_fails_of_bad rx lim sn sd t fl st (bad_of_visits hv (by simpa [localBad, badAxis, badAxisName] using ha))

end XPathV.BuildRejects
