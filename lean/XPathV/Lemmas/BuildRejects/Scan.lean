import XPathV.Lemmas.ScanTail
/-!
# C17, second half — scanner level: name tokens, axis specifiers, malformed qualified names

What the scanner model does when the next token starts with a name character (`nameCont`, the name
branch of `Scan.nextItem`), evaluated for each shape of the text that follows the name.
-/
namespace XPathV.BuildRejects
open XPathV XPathV.Model
open XPathV.Lemmas.ScanTail (At mkCR Done)

/-- the characters `nextItem` tests before it comes to `isName` -/
def punct : List Char :=
  ['\x00', ',', '@', '(', ')', '|', '*', '[', ']', '+', '-', '=', '$', '#', '<', '>', '!', '/', '.', '"', '\'']

/-- `c` starts a name token: `nextItem` (after skipping blanks) reaches its name branch on `c` -/
def startsName (c : Char) : Bool := !isSpace c && !punct.contains c && !isDigit c && isName c

/-- the name branch of `Scan.nextItem` (same text) -/
def nameCont (s : Scan) : Except ScanErr Scan :=
  let adv (s : Scan) : Scan := s.nextChar.1
  let (nm, s1) := s.scanName
  let s1 := { s1 with typ := .name, name := nm, pfx := "" }
  let fin (s : Scan) : Except ScanErr Scan :=
    let s' := s.skipSpace
    .ok { s' with canBeFunc := s'.curr == '(' }
  if s1.curr == ':' then
    let s2 := adv s1
    if s2.curr == ':' then fin (adv { s2 with typ := .axe })
    else
      let s2 := { s2 with pfx := nm }
      if s2.curr == '*' then fin (adv { s2 with name := "*" })
      else if isNameStart s2.curr then
        let (nm2, s3) := s2.scanName
        fin { s3 with name := nm2 }
      else .error .invalidQName
  else
    let s2 := s1.skipSpace
    if s2.curr == ':' then
      let s3 := adv s2
      if s3.curr == ':' then fin (adv { s3 with typ := .axe })
      else .error .invalidQName
    else fin s2

theorem skipSpaceAux_id (c : Char) (r : List Char) (h : isSpace c = false) : skipSpaceAux c r = (c, r) := by
  cases r <;> simp [skipSpaceAux, h]

theorem skipSpace_id (s : Scan) (h : isSpace s.curr = false) : s.skipSpace = s := by
  simp [Scan.skipSpace, skipSpaceAux_id _ _ h]

theorem nextItem_name (s0 : Scan) (h : startsName s0.skipSpace.curr = true) :
    s0.nextItem = nameCont s0.skipSpace := by
  simp only [startsName, punct, List.contains_cons, List.contains_nil, Bool.or_false, Bool.and_eq_true,
    Bool.not_eq_true', Bool.or_eq_false_iff, beq_eq_false_iff_ne, ne_eq] at h
  obtain ⟨⟨⟨hsp, hp⟩, hd⟩, hn⟩ := h
  unfold Scan.nextItem nameCont
  simp only [beq_iff_eq, hp, hd, hn, ↓reduceIte, Bool.false_eq_true, Bool.or_eq_true, or_self]
  

/-! ## runs and blanks on explicit texts -/

theorem mkCR_eta (c : Char) (r : List Char) : mkCR (c :: r) = (c, r) := rfl

theorem at_iff (w : List Char) (s : Scan) : At w s ↔ (s.curr, s.rest) = mkCR w := by
  unfold At
  constructor
  · intro h; rw [h.1, h.2]
  · intro h; rw [← h]; exact ⟨rfl, rfl⟩

/-- a run `w` of `p`-characters followed by `tail` whose first character is no `p`-character -/
theorem takeRun_run (p : Char → Bool) (tail : List Char) (ht : ∀ x xs, tail = x :: xs → p x = false) :
    ∀ (w : List Char) (c : Char), (∀ y ∈ c :: w, p y = true) →
      takeRun p c (w ++ tail) = (c :: w, (mkCR tail).1, (mkCR tail).2)
  | [], c, hall => by
    have hc : p c = true := hall c (List.mem_cons_self ..)
    cases tail with
    | nil => simp [takeRun, hc, mkCR]
    | cons x xs =>
      have hx : p x = false := ht x xs rfl
      have : takeRun p x xs = ([], x, xs) := by cases xs <;> simp [takeRun, hx]
      simp [takeRun, hc, this, mkCR]
  | y :: w, c, hall => by
    have hc : p c = true := hall c (List.mem_cons_self ..)
    have ih := takeRun_run p tail ht w y (fun z hz => hall z (List.mem_cons_of_mem _ hz))
    simp only [List.cons_append, takeRun, hc, ↓reduceIte, ih]

theorem isSpace_nul : isSpace '\x00' = false := by decide

theorem skipSpaceAux_mkCR : ∀ (t : List Char), skipSpaceAux (mkCR t).1 (mkCR t).2 = mkCR (t.dropWhile isSpace)
  | [] => by simp [mkCR, skipSpaceAux, isSpace_nul]
  | [c] => by
    by_cases h : isSpace c = true <;> simp [mkCR, skipSpaceAux, h]
  | c :: r :: rs => by
    have ih := skipSpaceAux_mkCR (r :: rs)
    by_cases h : isSpace c = true
    · simp only [mkCR, skipSpaceAux, h, ↓reduceIte, List.dropWhile_cons] at ih ⊢
      exact ih
    · simp [mkCR, skipSpaceAux, h]

theorem skipSpace_at {t : List Char} {s : Scan} (h : At t s) :
    s.skipSpace = { s with curr := (mkCR (t.dropWhile isSpace)).1, rest := (mkCR (t.dropWhile isSpace)).2 } := by
  unfold Scan.skipSpace
  rw [h.1, h.2, skipSpaceAux_mkCR]

theorem dropWhile_idem (p : Char → Bool) (t : List Char) : (t.dropWhile p).dropWhile p = t.dropWhile p := by
  induction t with
  | nil => rfl
  | cons c r ih =>
    by_cases h : p c = true
    · simp [h, ih]
    · simp [h]

/-- the token the scanner leaves when a name-like token of type `typ` ends and `t` is the unread text -/
def mkTok (s : Scan) (t : List Char) (typ : Tok) (name pfx : String) : Scan :=
  { s with curr := (mkCR (t.dropWhile isSpace)).1, rest := (mkCR (t.dropWhile isSpace)).2,
           typ := typ, name := name, pfx := pfx, canBeFunc := (mkCR (t.dropWhile isSpace)).1 == '(' }

theorem mkTok_at (s : Scan) (t : List Char) (typ : Tok) (name pfx : String) :
    At (t.dropWhile isSpace) (mkTok s t typ name pfx) := ⟨rfl, rfl⟩


/-- `w` is a maximal run of name characters in front of `tail`, and the character after it is
ASCII (the model marks a non-ASCII terminator in the name, see `Scan.scanName`) -/
structure NameRun (w tail : List Char) : Prop where
  ne : w ≠ []
  all : ∀ y ∈ w, isName y = true
  stop : ∀ x xs, tail = x :: xs → isName x = false
  ascii : (mkCR tail).1.toNat < 0x80

theorem scanName_run {w tail : List Char} {s : Scan} (hr : NameRun w tail) (h : At (w ++ tail) s) :
    s.scanName = (String.ofList w, { s with curr := (mkCR tail).1, rest := (mkCR tail).2 }) := by
  obtain ⟨hne, hall, hstop, hascii⟩ := hr
  cases w with
  | nil => exact absurd rfl hne
  | cons c w' =>
    obtain ⟨h1, h2⟩ := h
    simp only [List.cons_append, mkCR] at h1 h2
    unfold Scan.scanName
    rw [h1, h2, takeRun_run isName tail hstop w' c hall]
    have : ¬ ((mkCR tail).1.toNat ≥ 0x80) := by omega
    simp only [this, ↓reduceIte]

/-- the state after the name run: what `nameCont` continues from -/
def afterName (s : Scan) (w tail : List Char) : Scan :=
  { s with curr := (mkCR tail).1, rest := (mkCR tail).2, typ := .name, name := String.ofList w, pfx := "" }

theorem nextChar_eq (s : Scan) :
    s.nextChar.1 = { s with curr := (mkCR s.rest).1, rest := (mkCR s.rest).2 } := by
  unfold Scan.nextChar
  cases s.rest <;> rfl

/-- **`name::`** — an axis specifier, whatever the name -/
theorem nameCont_axe {w t2 : List Char} {s : Scan} (hr : NameRun w (':' :: ':' :: t2)) (h : At (w ++ ':' :: ':' :: t2) s) :
    nameCont s = .ok (mkTok s t2 .axe (String.ofList w) "") := by
  unfold nameCont
  rw [scanName_run hr h]
  simp only [mkCR, beq_self_eq_true, ↓reduceIte, nextChar_eq]
  rw [skipSpace_at (t := t2) ⟨rfl, rfl⟩]
  rfl


/-- **`prefix:*`** -/
theorem nameCont_pfx_star {w t2 : List Char} {s : Scan} (hr : NameRun w (':' :: '*' :: t2))
    (h : At (w ++ ':' :: '*' :: t2) s) :
    nameCont s = .ok (mkTok s t2 .name "*" (String.ofList w)) := by
  unfold nameCont
  rw [scanName_run hr h]
  simp only [mkCR, beq_self_eq_true, ↓reduceIte, nextChar_eq, beq_iff_eq, Char.reduceEq]
  rw [skipSpace_at (t := t2) ⟨rfl, rfl⟩]
  rfl

theorem isNameStart_isName {c : Char} (h : isNameStart c = true) : isName c = true := by
  by_cases hs : c = '/'
  · subst hs; revert h; decide
  · simp only [isNameStart, Bool.and_eq_true, bne_iff_ne, ne_eq, decide_eq_true_eq] at h
    simp [isName, h.1.1, h.1.2, h.2, hs]

/-- **`prefix:local`**: a qualified name -/
theorem nameCont_qname {w w2 tail2 : List Char} {s : Scan} (hr : NameRun w (':' :: (w2 ++ tail2)))
    (hr2 : NameRun w2 tail2) (hstar : w2.head? ≠ some '*')
    (hstart : ∀ c, w2.head? = some c → isNameStart c = true)
    (h : At (w ++ ':' :: (w2 ++ tail2)) s) :
    nameCont s = .ok (mkTok s tail2 .name (String.ofList w2) (String.ofList w)) := by
  unfold nameCont
  rw [scanName_run hr h]
  cases w2 with
  | nil => exact absurd rfl hr2.ne
  | cons c w2' =>
    have hc : isNameStart c = true := hstart c rfl
    have hcs : c ≠ '*' := fun e => hstar (by rw [e]; rfl)
    have hcc : c ≠ ':' := by
      intro e; subst e; revert hc; decide
    simp only [mkCR, beq_self_eq_true, ↓reduceIte, nextChar_eq, beq_iff_eq, List.cons_append, hcc, hcs, hc]
    have hsn := scanName_run
      (s := (⟨c, w2' ++ tail2, .name, String.ofList w, String.ofList w, s.strval, s.numlex, s.canBeFunc⟩ : Scan))
      hr2 ⟨rfl, rfl⟩
    simp only [hsn]
    rw [skipSpace_at (t := tail2) ⟨rfl, rfl⟩]
    rfl

/-- **`name:` followed by something that cannot continue a qualified name** (not `:`, not `*`, no
name-start character; in particular a blank, a digit, `-`, `.`, `(`, or the end of the text):
the scanner fails -/
theorem nameCont_colon_bad {w t1 : List Char} {s : Scan} (hr : NameRun w (':' :: t1))
    (h1 : (mkCR t1).1 ≠ ':') (h2 : (mkCR t1).1 ≠ '*') (h3 : isNameStart (mkCR t1).1 = false)
    (h : At (w ++ ':' :: t1) s) :
    nameCont s = .error .invalidQName := by
  unfold nameCont
  rw [scanName_run hr h]
  simp only [mkCR_eta, beq_self_eq_true, ↓reduceIte, nextChar_eq, beq_iff_eq, h1, h2, h3, Bool.false_eq_true]

/-- **`name`, blanks, `::`** — still an axis specifier -/
theorem nameCont_space_axe {w tail t3 : List Char} {s : Scan} (hr : NameRun w tail) (hc : (mkCR tail).1 ≠ ':')
    (hsp : tail.dropWhile isSpace = ':' :: ':' :: t3) (h : At (w ++ tail) s) :
    nameCont s = .ok (mkTok s t3 .axe (String.ofList w) "") := by
  unfold nameCont
  rw [scanName_run hr h]
  simp only [beq_iff_eq, hc, ↓reduceIte]
  rw [skipSpace_at (t := tail) ⟨rfl, rfl⟩]
  simp only [hsp, mkCR, ↓reduceIte, nextChar_eq]
  rw [skipSpace_at (t := t3) ⟨rfl, rfl⟩]
  rfl

/-- **`name`, blanks, `:` not followed by `:`**: the scanner fails (`a :b`, `a : b`, `a :`) -/
theorem nameCont_space_colon_bad {w tail t3 : List Char} {s : Scan} (hr : NameRun w tail) (hc : (mkCR tail).1 ≠ ':')
    (hsp : tail.dropWhile isSpace = ':' :: t3) (h3 : (mkCR t3).1 ≠ ':') (h : At (w ++ tail) s) :
    nameCont s = .error .invalidQName := by
  unfold nameCont
  rw [scanName_run hr h]
  simp only [beq_iff_eq, hc, ↓reduceIte]
  rw [skipSpace_at (t := tail) ⟨rfl, rfl⟩]
  simp only [hsp, mkCR_eta, ↓reduceIte, nextChar_eq, h3]

/-- **a plain name** (no colon after it, even after blanks) -/
theorem nameCont_plain {w tail : List Char} {s : Scan} (hr : NameRun w tail)
    (hc : (mkCR (tail.dropWhile isSpace)).1 ≠ ':') (h : At (w ++ tail) s) :
    nameCont s = .ok (mkTok s tail .name (String.ofList w) "") := by
  have hc0 : (mkCR tail).1 ≠ ':' := by
    intro e
    cases tail with
    | nil => simp [mkCR] at e
    | cons x xs =>
      simp only [mkCR] at e
      subst e
      have : isSpace ':' = false := by decide
      simp [this, mkCR] at hc
  unfold nameCont
  rw [scanName_run hr h]
  simp only [beq_iff_eq, hc0, ↓reduceIte]
  rw [skipSpace_at (t := tail) ⟨rfl, rfl⟩]
  simp only [hc, ↓reduceIte]
  rw [skipSpace_at (t := tail.dropWhile isSpace) ⟨rfl, rfl⟩, dropWhile_idem]
  rfl

/-- **a token cannot start with `:`** (`:a`, `::a`, the second colon of `a:b:c`, `a:::b`) -/
theorem nextItem_colon (s : Scan) (h : s.skipSpace.curr = ':') : s.nextItem = .error .invalidToken := by
  unfold Scan.nextItem
  have hn : isName ':' = false := by decide
  have hd : isDigit ':' = false := by decide
  simp [h, hn, hd]

/-- at the end of the text the scanner yields the end token -/
theorem nextItem_done (s : Scan) (h : At [] s) : ∃ s', s.nextItem = .ok s' ∧ s'.typ = .eof :=
  Lemmas.ScanTail.done_nextItem h

end XPathV.BuildRejects
