import XPathV.Lemmas.BuildRejects.Rename
import XPathV.Lemmas.BuildRejects.FuelMono
import XPathV.Lemmas.BuildRejects.Text
/-!
# C17, second half — renaming a function in a text: `compile` level, and a checker for the
token-stream hypothesis
-/
namespace XPathV.BuildRejects
open XPathV XPathV.Model

/-! ## the operator words of a configuration -/

def opWords : List Stage → List String
  | [] => []
  | .tier ops :: rest => ops ++ opWords rest
  | .unary :: rest => opWords rest

theorem okStages_of_opWords {g g' : String} : ∀ {l : List Stage}, g ∉ opWords l → g' ∉ opWords l → okStages g g' l
  | [], _, _ => fun _ h => by cases h
  | .unary :: rest, h1, h2 => by
    intro ops hm
    cases hm with
    | tail _ hm => exact okStages_of_opWords (l := rest) h1 h2 ops hm
  | .tier o :: rest, h1, h2 => by
    simp only [opWords, List.mem_append, not_or] at h1 h2
    intro ops hm
    cases hm with
    | head => exact ⟨h1.1, h2.1⟩
    | tail _ hm => exact okStages_of_opWords (l := rest) h1.2 h2.2 ops hm

/-- the operator strings of the source configuration (symbols and the four operator words) -/
theorem opWords_stages : opWords stages =
    ["or", "and", "=", "!=", "<", ">", "<=", ">=", "+", "-", "*", "div", "mod", "|"] := by decide

/-! ## a checker for `After` / `Before` -/

instance (s s' : Scan) : Decidable (obsEq s s') := by unfold obsEq; exact inferInstance

def afterCheck : Nat → Scan → Scan → Bool
  | 0, _, _ => false
  | f+1, s, s' =>
    if s.typ = .eof then decide (s'.typ = .eof)
    else decide (obsEq s s') &&
      (match s.nextItem, s'.nextItem with
        | .ok a, .ok b => afterCheck f a b
        | _, _ => false)

theorem afterCheck_sound : ∀ (f : Nat) (s s' : Scan), afterCheck f s s' = true → After s s'
  | 0, _, _, h => by simp [afterCheck] at h
  | f+1, s, s', h => by
    unfold afterCheck at h
    split at h
    · rename_i he
      exact .eof he (by simpa using h)
    · rename_i hne
      simp only [Bool.and_eq_true, decide_eq_true_eq] at h
      obtain ⟨ho, h⟩ := h
      split at h
      · rename_i a b ha hb
        exact .step hne ho ha hb (afterCheck_sound f a b h)
      · cases h

def beforeCheck (g g' : String) (fuel : Nat) : Nat → Scan → Scan → Bool
  | 0, s, s' =>
    decide (s.typ = .name) && decide (s'.typ = .name) && decide (s.name = g) && decide (s'.name = g') &&
      decide (s.pfx = s'.pfx) && s.canBeFunc && s'.canBeFunc &&
      (match s.nextItem, s'.nextItem with
        | .ok a, .ok b => decide (a.typ = .lparen) && afterCheck fuel a b
        | _, _ => false)
  | k+1, s, s' =>
    decide (s.typ ≠ .eof) && decide (obsEq s s') &&
      (match s.nextItem, s'.nextItem with
        | .ok a, .ok b => beforeCheck g g' fuel k a b
        | _, _ => false)

theorem beforeCheck_sound (g g' : String) (fuel : Nat) : ∀ (k : Nat) (s s' : Scan),
    beforeCheck g g' fuel k s s' = true → Before g g' k s s'
  | 0, s, s', h => by
    unfold beforeCheck at h
    simp only [Bool.and_eq_true, decide_eq_true_eq] at h
    obtain ⟨⟨⟨⟨⟨⟨⟨h1, h2⟩, h3⟩, h4⟩, h5⟩, h6⟩, h7⟩, h⟩ := h
    split at h
    · rename_i a b ha hb
      simp only [Bool.and_eq_true, decide_eq_true_eq] at h
      exact .mark h1 h2 h3 h4 h5 h6 h7 ha hb h.1 (afterCheck_sound fuel a b h.2)
    · cases h
  | k+1, s, s', h => by
    unfold beforeCheck at h
    simp only [Bool.and_eq_true, decide_eq_true_eq] at h
    obtain ⟨⟨h1, h2⟩, h⟩ := h
    split at h
    · rename_i a b ha hb
      exact .step h1 h2 ha hb (beforeCheck_sound g g' fuel k a b h)
    · cases h

/-- the token streams of `text` and `text'` agree except at token number `k` (counting from 0),
where `text` has the name `g` and `text'` the name `g'`, both directly followed by `(` -/
def renamedAt (g g' : String) (k : Nat) (text text' : List Char) : Bool :=
  match Scan.init text, Scan.init text' with
  | .ok s, .ok s' => beforeCheck g g' (text.length + 2) k s s'
  | _, _ => false

theorem renamedAt_sound {g g' : String} {k : Nat} {text text' : List Char} (h : renamedAt g g' k text text' = true) :
    ∃ s s', Scan.init text = .ok s ∧ Scan.init text' = .ok s' ∧ Before g g' k s s' := by
  unfold renamedAt at h
  split at h
  · rename_i s s' hs hs'
    exact ⟨s, s', hs, hs', beforeCheck_sound g g' _ k s s' h⟩
  · cases h

/-! ## `compile` after a renaming -/

/-- no superfluous arguments anywhere, and the tree is an expression -/
def NoSuperfluousArgs (t : Ast) : Bool := !isCons t && AllUsed t

/-- **renaming a function to an unknown name, in a text**: `text` is accepted by the parser with a
tree that passes no superfluous arguments; `text'` has the same token stream except that one
function name `g` is replaced by `g'`, which is no function the builder knows (and no node-type
name or operator word).  Then `Compile(text')` is an error. -/
theorem compile_fails_after_rename (cc : CompileCfg) (ns : Option (List (String × String))) {g g' : String}
    (hne : g ≠ g') (hg : g ∉ nodeTypes) (hg' : g' ∉ nodeTypes) (ho : g ∉ opWords stages) (ho' : g' ∉ opWords stages)
    (hunk : fnArity g' = none) {text text' : List Char} {s s' : Scan} {k : Nat}
    (hi : Scan.init text = .ok s) (hi' : Scan.init text' = .ok s') (hB : Before g g' k s s')
    {t : Ast} (hp : parse (fuelFor text) (defaultCfg ns) text = .ok t) (hu : NoSuperfluousArgs t = true) :
    ∃ e, compile cc ns text' = .error e := by
  have hK : okStages g g' (defaultCfg ns).chain := okStages_of_opWords (l := stages) ho ho'
  simp only [NoSuperfluousArgs, Bool.and_eq_true, Bool.not_eq_true'] at hu
  -- a fuel that serves both texts
  have key : ∀ t'', parse (fuelFor text') (defaultCfg ns) text' = .ok t'' → BadNode t'' = true := by
    intro t'' hp''
    rcases Nat.le_total (fuelFor text) (fuelFor text') with hle | hle
    · have hp1 := FuelMono.parse_mono (defaultCfg ns) hle text t hp
      obtain ⟨t', hp', hr, hd⟩ := parse_rename hne hg hg' hK (fuelFor text') hi hi' hB hp1
      rw [hp'] at hp''; cases hp''
      exact badNode_of_ren hunk hr hd hu.2 hu.1
    · obtain ⟨t', hp', hr, hd⟩ := parse_rename hne hg hg' hK (fuelFor text) hi hi' hB hp
      have hp2 := FuelMono.parse_mono (defaultCfg ns) hle text' t'' hp''
      rw [hp'] at hp2; cases hp2
      exact badNode_of_ren hunk hr hd hu.2 hu.1
  cases hp'' : parse (fuelFor text') (defaultCfg ns) text' with
  | error e => exact compile_parse_error cc ns text' ⟨e, hp''⟩
  | ok t'' =>
    obtain ⟨e, he⟩ := compile_fails_of_bad cc ns text' t'' hp'' (key t'' hp'')
    exact ⟨_, he⟩

/-- the same with the decidable token-stream check -/
theorem compile_fails_after_rename_checked (cc : CompileCfg) (ns : Option (List (String × String))) {g g' : String}
    (hne : g ≠ g') (hg : g ∉ nodeTypes) (hg' : g' ∉ nodeTypes) (ho : g ∉ opWords stages) (ho' : g' ∉ opWords stages)
    (hunk : fnArity g' = none) {text text' : List Char} {k : Nat} (hchk : renamedAt g g' k text text' = true)
    {t : Ast} (hp : parse (fuelFor text) (defaultCfg ns) text = .ok t) (hu : NoSuperfluousArgs t = true) :
    ∃ e, compile cc ns text' = .error e := by
  obtain ⟨s, s', hi, hi', hB⟩ := renamedAt_sound hchk
  exact compile_fails_after_rename cc ns hne hg hg' ho ho' hunk hi hi' hB hp hu

/-- `text` is accepted by the parser (source configuration) with a tree without superfluous arguments -/
def acceptedTight (ns : Option (List (String × String))) (text : List Char) : Bool :=
  match parse (fuelFor text) (defaultCfg ns) text with
  | .ok t => NoSuperfluousArgs t
  | .error _ => false

/-- … with both hypotheses in decidable form (for concrete texts: `by decide +kernel`) -/
theorem compile_fails_after_rename_dec (cc : CompileCfg) (ns : Option (List (String × String))) {g g' : String}
    (hne : g ≠ g') (hg : g ∉ nodeTypes) (hg' : g' ∉ nodeTypes) (ho : g ∉ opWords stages) (ho' : g' ∉ opWords stages)
    (hunk : fnArity g' = none) {text text' : List Char} {k : Nat} (hacc : acceptedTight ns text = true)
    (hchk : renamedAt g g' k text text' = true) : ∃ e, compile cc ns text' = .error e := by
  unfold acceptedTight at hacc
  split at hacc
  · rename_i t hp
    exact compile_fails_after_rename_checked cc ns hne hg hg' ho ho' hunk hchk hp hacc
  · cases hacc

end XPathV.BuildRejects
