import XPathV.Lemmas.BuildRejects.Scan
import XPathV.Lemmas.BuildRejects.Rename
import XPathV.Lemmas.ParserTokens
/-!
# The scanner does not look at a stale `name` field

`Scan.nextItem` copies the `name` field of its input into its output unless the new token is a name
or an axis specifier (which overwrite it): `nextItem_setName`.  Hence two scanner states that differ
only in a stale name show the parser the same tokens from there to the end (`after_of_toks`).
`itemBody` is `Scan.nextItem` after the blanks, cut into one function per token class.
-/
namespace XPathV.BuildRejects
open XPathV XPathV.Model
open XPathV.Lemmas.ParserTokens (Toks)

def setName (x : String) (s : Scan) : Scan := { s with name := x }

def tkSingle (s : Scan) (t : Tok) : Except ScanErr Scan := .ok ({ s with typ := t } : Scan).nextChar.1

def tkTwo (s : Scan) (t1 t2 : Tok) (c2 : Char) : Except ScanErr Scan :=
  let s1 := ({ s with typ := t1 } : Scan).nextChar.1
  if s1.curr == c2 then .ok ({ s1 with typ := t2 } : Scan).nextChar.1 else .ok s1

def tkDot (s : Scan) : Except ScanErr Scan :=
  let s1 := ({ s with typ := .dot } : Scan).nextChar.1
  if s1.curr == '.' then .ok ({ s1 with typ := .dotdot } : Scan).nextChar.1
  else if isDigit s1.curr then
    let (run, c', r') := takeRun isDigit s1.curr s1.rest
    if run.all isAsciiDigit then
      .ok { s1 with typ := .number, numlex := String.ofList ('.' :: run), curr := c', rest := r' }
    else .error .badNumber
  else .ok s1

def tkString (s : Scan) : Except ScanErr Scan :=
  match scanStringAux s.curr s.rest with
  | none => .error .unclosedString
  | some (str, rest) =>
    .ok ({ s with typ := .string, strval := String.ofList str, rest := rest } : Scan).nextChar.1

def tkNumber (s : Scan) : Except ScanErr Scan :=
  let (ip, c1, r1) := takeRun isDigit s.curr s.rest
  let (fp, c2, r2) :=
    if c1 == '.' then
      match r1 with
      | [] => (['.'], '\x00', [])
      | x :: xs => let (run, c', r') := takeRun isDigit x xs; ('.' :: run, c', r')
    else ([], c1, r1)
  if (ip ++ fp).all (fun ch => isAsciiDigit ch || ch == '.') && !numOverflows ip (fp.drop 1) then
    .ok { s with typ := .number, numlex := String.ofList (ip ++ fp), curr := c2, rest := r2 }
  else .error .badNumber

/-- `nextItem` after the blanks have been skipped -/
def itemBody (s : Scan) : Except ScanErr Scan :=
  let c := s.curr
  if c == '\x00' then .ok { s with typ := .eof }
  else if c == ',' then tkSingle s .comma
  else if c == '@' then tkSingle s .at
  else if c == '(' then tkSingle s .lparen
  else if c == ')' then tkSingle s .rparen
  else if c == '|' then tkSingle s .union
  else if c == '*' then tkSingle s .star
  else if c == '[' then tkSingle s .lbracket
  else if c == ']' then tkSingle s .rbracket
  else if c == '+' then tkSingle s .plus
  else if c == '-' then tkSingle s .minus
  else if c == '=' then tkSingle s .eq
  else if c == '$' then tkSingle s .dollar
  else if c == '#' then .error .unknownItem
  else if c == '<' then tkTwo s .lt .le '='
  else if c == '>' then tkTwo s .gt .ge '='
  else if c == '!' then tkTwo s .bang .ne '='
  else if c == '/' then tkTwo s .slash .slashslash '/'
  else if c == '.' then tkDot s
  else if c == '"' || c == '\'' then tkString s
  else if isDigit c then tkNumber s
  else if isName c then nameCont s
  else .error .invalidToken

theorem nextItem_body (s0 : Scan) : s0.nextItem = itemBody s0.skipSpace := by
  unfold Scan.nextItem itemBody nameCont tkSingle tkTwo tkDot tkString tkNumber
  rfl

theorem nextChar_setName (x : String) (s : Scan) : (setName x s).nextChar.1 = setName x s.nextChar.1 := by
  unfold Scan.nextChar setName
  cases s.rest <;> rfl

theorem nextChar_typ (s : Scan) : s.nextChar.1.typ = s.typ := by
  unfold Scan.nextChar; cases s.rest <;> rfl

theorem nameCont_setName (x : String) (t : Scan) : nameCont (setName x t) = nameCont t := by
  unfold nameCont Scan.scanName setName
  rfl

def UpTo (x : String) (A B : Except ScanErr Scan) : Prop :=
  A = B ∨ ∃ r, B = .ok r ∧ A = .ok (setName x r) ∧ r.typ ≠ .name ∧ r.typ ≠ .axe

theorem UpTo.refl (x : String) (A : Except ScanErr Scan) : UpTo x A A := Or.inl rfl

theorem UpTo.mk (x : String) (r : Scan) (h1 : r.typ ≠ .name) (h2 : r.typ ≠ .axe) :
    UpTo x (.ok (setName x r)) (.ok r) := Or.inr ⟨r, rfl, rfl, h1, h2⟩

theorem UpTo.adv (x : String) (s : Scan) (h1 : s.typ ≠ .name) (h2 : s.typ ≠ .axe) :
    UpTo x (.ok (setName x s).nextChar.1) (.ok s.nextChar.1) := by
  rw [nextChar_setName]
  exact UpTo.mk x _ (by rw [nextChar_typ]; exact h1) (by rw [nextChar_typ]; exact h2)

theorem UpTo.ite {x : String} {c : Prop} [Decidable c] {A A' B B' : Except ScanErr Scan}
    (h1 : c → UpTo x A B) (h2 : ¬ c → UpTo x A' B') : UpTo x (if c then A else A') (if c then B else B') := by
  by_cases h : c
  · rw [if_pos h, if_pos h]; exact h1 h
  · rw [if_neg h, if_neg h]; exact h2 h

theorem single_setName (x : String) (t : Scan) (T : Tok) (h1 : T ≠ .name) (h2 : T ≠ .axe) :
    UpTo x (tkSingle (setName x t) T) (tkSingle t T) :=
  UpTo.adv x { t with typ := T } h1 h2

theorem two_setName (x : String) (t : Scan) (T1 T2 : Tok) (c2 : Char) (h1 : T1 ≠ .name) (h2 : T1 ≠ .axe)
    (h3 : T2 ≠ .name) (h4 : T2 ≠ .axe) : UpTo x (tkTwo (setName x t) T1 T2 c2) (tkTwo t T1 T2 c2) := by
  unfold tkTwo
  have e : ({ setName x t with typ := T1 } : Scan).nextChar.1 = setName x ({ t with typ := T1 } : Scan).nextChar.1 :=
    nextChar_setName x { t with typ := T1 }
  simp only [e]
  refine UpTo.ite (fun _ => ?_) (fun _ => ?_)
  · exact UpTo.adv x { ({ t with typ := T1 } : Scan).nextChar.1 with typ := T2 } h3 h4
  · exact UpTo.mk x _ (by rw [nextChar_typ]; exact h1) (by rw [nextChar_typ]; exact h2)

theorem dot_setName (x : String) (t : Scan) : UpTo x (tkDot (setName x t)) (tkDot t) := by
  unfold tkDot
  have e : ({ setName x t with typ := .dot } : Scan).nextChar.1 = setName x ({ t with typ := .dot } : Scan).nextChar.1 :=
    nextChar_setName x { t with typ := .dot }
  simp only [e]
  have hs : (({ t with typ := .dot } : Scan).nextChar.1).typ = .dot := nextChar_typ _
  generalize ({ t with typ := .dot } : Scan).nextChar.1 = s1 at hs
  have e1 : (setName x s1).curr = s1.curr := rfl
  have e2 : (setName x s1).rest = s1.rest := rfl
  simp only [e1, e2]
  refine UpTo.ite (fun _ => ?_) (fun _ => ?_)
  · exact UpTo.adv x { s1 with typ := .dotdot } (fun h => by cases h) (fun h => by cases h)
  · refine UpTo.ite (fun _ => ?_) (fun _ => ?_)
    · generalize takeRun isDigit s1.curr s1.rest = p
      obtain ⟨run, c', r'⟩ := p
      dsimp only
      refine UpTo.ite (fun _ => ?_) (fun _ => UpTo.refl _ _)
      exact UpTo.mk x { s1 with typ := .number, numlex := String.ofList ('.' :: run), curr := c', rest := r' }
        (fun h => by cases h) (fun h => by cases h)
    · exact UpTo.mk x s1 (by rw [hs]; decide) (by rw [hs]; decide)

theorem string_setName (x : String) (t : Scan) : UpTo x (tkString (setName x t)) (tkString t) := by
  unfold tkString
  have e1 : (setName x t).curr = t.curr := rfl
  have e2 : (setName x t).rest = t.rest := rfl
  simp only [e1, e2]
  cases scanStringAux t.curr t.rest with
  | none => exact UpTo.refl _ _
  | some p =>
    obtain ⟨str, rest⟩ := p
    exact UpTo.adv x { t with typ := .string, strval := String.ofList str, rest := rest }
      (fun h => by cases h) (fun h => by cases h)

theorem number_setName (x : String) (t : Scan) : UpTo x (tkNumber (setName x t)) (tkNumber t) := by
  unfold tkNumber
  have e1 : (setName x t).curr = t.curr := rfl
  have e2 : (setName x t).rest = t.rest := rfl
  simp only [e1, e2]
  generalize takeRun isDigit t.curr t.rest = p
  obtain ⟨ip, c1, r1⟩ := p
  dsimp only
  generalize (if (c1 == '.') = true then
      match r1 with
      | [] => (['.'], '\x00', [])
      | x :: xs => (match takeRun isDigit x xs with | (run, c', r') => ('.' :: run, c', r'))
    else ([], c1, r1)) = q
  obtain ⟨fp, c2, r2⟩ := q
  dsimp only
  refine UpTo.ite (fun _ => ?_) (fun _ => UpTo.refl _ _)
  exact UpTo.mk x { t with typ := .number, numlex := String.ofList (ip ++ fp), curr := c2, rest := r2 }
    (fun h => by cases h) (fun h => by cases h)

theorem itemBody_setName (x : String) (t : Scan) : UpTo x (itemBody (setName x t)) (itemBody t) := by
  unfold itemBody
  have e1 : (setName x t).curr = t.curr := rfl
  simp only [e1, nameCont_setName]
  repeat' (first
    | exact UpTo.refl _ _
    | exact single_setName x t _ (by decide) (by decide)
    | exact two_setName x t _ _ _ (by decide) (by decide) (by decide) (by decide)
    | exact dot_setName x t
    | exact string_setName x t
    | exact number_setName x t
    | exact UpTo.mk x { t with typ := .eof } (fun h => by cases h) (fun h => by cases h)
    | refine UpTo.ite (fun _ => ?_) (fun _ => ?_))

theorem nextItem_setName (x : String) (s : Scan) : UpTo x (setName x s).nextItem s.nextItem := by
  rw [nextItem_body, nextItem_body]
  exact itemBody_setName x s.skipSpace

/-- `b` is `a`, or `a` with another (stale) name -/
def NameOnly (x : String) (a b : Scan) : Prop := b = a ∨ (b = setName x a ∧ a.typ ≠ .name ∧ a.typ ≠ .axe)

theorem NameOnly.obs {x : String} {a b : Scan} (h : NameOnly x a b) : obsEq a b := by
  rcases h with rfl | ⟨rfl, h1, h2⟩
  · exact ⟨rfl, fun _ => ⟨rfl, rfl, rfl⟩, fun _ => rfl, fun _ => rfl, fun _ => rfl⟩
  · exact ⟨rfl, fun h => absurd h h1, fun h => absurd h h2, fun _ => rfl, fun _ => rfl⟩

/-- if the scanner reaches the end of the text from `a`, it shows the same tokens from a state that
differs from `a` only in a stale name -/
theorem after_of_toks {x : String} {a : Scan} {ts : List Tok} (ht : Toks a ts) :
    ∀ b, NameOnly x a b → After a b := by
  induction ht with
  | eof he =>
    intro b hb
    refine .eof he ?_
    rw [← hb.obs.1]; exact he
  | @cons s s1 rest hne hn _ ih =>
    intro b hb
    rcases hb with rfl | ⟨rfl, h1, h2⟩
    · exact .step hne (NameOnly.obs (x := x) (Or.inl rfl)) hn hn (ih _ (Or.inl rfl))
    · have hu := nextItem_setName x s
      rw [hn] at hu
      rcases hu with hu | ⟨r, hr, hu, k1, k2⟩
      · exact .step hne (NameOnly.obs (Or.inr ⟨rfl, h1, h2⟩)) hn hu (ih _ (Or.inl rfl))
      · cases hr
        exact .step hne (NameOnly.obs (Or.inr ⟨rfl, h1, h2⟩)) hn hu (ih _ (Or.inr ⟨rfl, k1, k2⟩))

end XPathV.BuildRejects
