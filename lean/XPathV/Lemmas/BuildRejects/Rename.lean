import XPathV.Lemmas.BuildRejects.Tree
import XPathV.Lemmas.ParserFuel
import XPathV.Lemmas.ParserShape
/-!
# C17, second half — renaming a function inside a text

Two texts whose attributed token streams agree except at one token, where the first has the name
token `g` and the second the name token `g'` (same prefix, both directly followed by `(`; neither a
node-type name nor an operator word of the configuration): if the parser model accepts the first
with tree `t`, it accepts the second with a tree `t'` that is `t` with call nodes named `g` renamed
to `g'` (`Ren g g' t t'`) and `t' ≠ t`.  (One token can end up in several nodes of the tree: the
model's sequence step `x/(a,b)` copies its input `x`.)

* `obsEq s s'`: the two scanner states show the parser the same token (type, and the attributes the
  parser reads for that type).
* `After s s'`: from here to the end of input both scanners succeed and show the same tokens.
* `Before g g' k s s'`: the same for `k` tokens, then the marked pair of name tokens, then `After`.
* `Sim`: the simulation invariant for one parser call; `Stuck` (the current token is `(`) is the way
  out for the two places where the marked token would be consumed as a name test or a variable
  name — then the `(` that follows can never be consumed and `parse` fails on the first text.
-/
namespace XPathV.BuildRejects
open XPathV XPathV.Model
open XPathV.Lemmas.ParserShape (bind_ok)

/-! ## 1. token streams that differ in one function name -/

/-- the two scanner states show the parser the same token -/
def obsEq (s s' : Scan) : Prop :=
  s.typ = s'.typ ∧
  (s.typ = .name → s.name = s'.name ∧ s.pfx = s'.pfx ∧ s.canBeFunc = s'.canBeFunc) ∧
  (s.typ = .axe → s.name = s'.name) ∧
  (s.typ = .string → s.strval = s'.strval) ∧
  (s.typ = .number → s.numlex = s'.numlex)

inductive After : Scan → Scan → Prop
  | eof {s s' : Scan} : s.typ = .eof → s'.typ = .eof → After s s'
  | step {s s' a b : Scan} : s.typ ≠ .eof → obsEq s s' → s.nextItem = .ok a → s'.nextItem = .ok b →
      After a b → After s s'

inductive Before (g g' : String) : Nat → Scan → Scan → Prop
  | mark {s s' a b : Scan} : s.typ = .name → s'.typ = .name → s.name = g → s'.name = g' → s.pfx = s'.pfx →
      s.canBeFunc = true → s'.canBeFunc = true → s.nextItem = .ok a → s'.nextItem = .ok b →
      a.typ = .lparen → After a b → Before g g' 0 s s'
  | step {k : Nat} {s s' a b : Scan} : s.typ ≠ .eof → obsEq s s' → s.nextItem = .ok a → s'.nextItem = .ok b →
      Before g g' k a b → Before g g' (k+1) s s'

/-- `t'` is `t` with some (possibly no) call nodes named `g` renamed to `g'` -/
inductive Ren (g g' : String) : Ast → Ast → Prop
  | refl (t : Ast) : Ren g g' t t
  | call (p : String) {args args' : Ast} : Ren g g' args args' → Ren g g' (.call g p args) (.call g' p args')
  | call_args (n p : String) {args args' : Ast} : Ren g g' args args' → Ren g g' (.call n p args) (.call n p args')
  | axis (a : AxisInfo) {i i' : Ast} : Ren g g' i i' → Ren g g' (.axis a i) (.axis a i')
  | filter {i i' c c' : Ast} : Ren g g' i i' → Ren g g' c c' → Ren g g' (.filter i c) (.filter i' c')
  | acons {h h' t t' : Ast} : Ren g g' h h' → Ren g g' t t' → Ren g g' (.acons h t) (.acons h' t')
  | oper (op : String) {l l' r r' : Ast} : Ren g g' l l' → Ren g g' r r' → Ren g g' (.oper op l r) (.oper op l' r')
  | group {x x' : Ast} : Ren g g' x x' → Ren g g' (.group x) (.group x')

theorem obsEq.typ {s s' : Scan} (h : obsEq s s') : s.typ = s'.typ := h.1

theorem After.obs {s s' : Scan} (h : After s s') : obsEq s s' := by
  cases h with
  | eof h1 h2 =>
    refine ⟨by rw [h1, h2], ?_, ?_, ?_, ?_⟩ <;> (intro h; rw [h1] at h; cases h)
  | step _ ho _ _ _ => exact ho

theorem After.inv {s s' : Scan} (h : After s s') (hne : s.typ ≠ .eof) :
    ∃ a b, s.nextItem = .ok a ∧ s'.nextItem = .ok b ∧ After a b := by
  cases h with
  | eof h1 _ => exact absurd h1 hne
  | step _ _ ha hb hab => exact ⟨_, _, ha, hb, hab⟩

def nodeTypes : List String := ["node", "text", "processing-instruction", "comment"]

theorem isNodeType_false {s : Scan} (h : s.name ∉ nodeTypes) : isNodeType s = false := by
  simp only [nodeTypes, List.mem_cons, List.not_mem_nil, or_false, not_or] at h
  simp [isNodeType, h]

theorem obsEq.isNodeType {s s' : Scan} (h : obsEq s s') (ht : s.typ = .name) : isNodeType s = isNodeType s' := by
  obtain ⟨h1, h2, h3⟩ := h.2.1 ht
  simp [Model.isNodeType, h1, h2]

theorem obsEq.tokMatches {s s' : Scan} (h : obsEq s s') (op : String) : tokMatches s op = tokMatches s' op := by
  unfold Model.tokMatches
  split
  all_goals first
    | (rw [h.1]; done)
    | skip
  by_cases ht : s.typ = .name
  · obtain ⟨h1, h2, _⟩ := h.2.1 ht
    rw [← h.1, h1, h2]
  · have ht' : s'.typ ≠ .name := by rw [← h.1]; exact ht
    have e1 : (s.typ == Tok.name) = false := beq_eq_false_iff_ne.mpr ht
    have e2 : (s'.typ == Tok.name) = false := beq_eq_false_iff_ne.mpr ht'
    simp only [e1, e2, Bool.false_and]

theorem find_congr {α : Type} {p q : α → Bool} : ∀ {l : List α}, (∀ x ∈ l, p x = q x) → l.find? p = l.find? q
  | [], _ => rfl
  | x :: l, h => by
    simp only [List.find?_cons, h x (List.mem_cons_self ..)]
    rw [find_congr (fun y hy => h y (List.mem_cons_of_mem _ hy))]

/-- at a name token whose name is none of `ops`, no operator matches -/
theorem tokMatches_name_false {s : Scan} {op : String} (ht : s.typ = .name) (hn : s.name ≠ op) :
    tokMatches s op = false := by
  unfold Model.tokMatches
  split
  all_goals first
    | (rw [ht]; rfl)
    | skip
  simp [hn]

section
variable (g g' : String)

/-- the phase: `some k` — the marked token is `k` tokens ahead; `none` — it has been consumed -/
def SR (φ : Option Nat) (st st' : PState) : Prop :=
  st.d = st'.d ∧ match φ with
    | some k => Before g g' k st.s st'.s
    | none => After st.s st'.s

def dec : Option Nat → Option Nat
  | some (k+1) => some k
  | _ => none

variable {g g'}

theorem SR.typ_eq {φ : Option Nat} {st st' : PState} (h : SR g g' φ st st') : st'.s.typ = st.s.typ := by
  obtain ⟨_, h⟩ := h
  cases φ with
  | none => exact h.obs.1.symm
  | some k =>
    cases h with
    | mark h1 h2 => rw [h1, h2]
    | step _ ho => exact ho.1.symm

theorem SR.mark_typ {st st' : PState} (h : SR g g' (some 0) st st') : st.s.typ = .name := by
  obtain ⟨_, h⟩ := h
  cases h with
  | mark h1 _ => exact h1

theorem SR.ne_mark {φ : Option Nat} {st st' : PState} (_h : SR g g' φ st st') (ht : st.s.typ ≠ .name) : φ ≠ some 0 := by
  intro e; subst e; exact ht _h.mark_typ

theorem SR.obs {φ : Option Nat} {st st' : PState} (h : SR g g' φ st st') (hφ : φ ≠ some 0) : obsEq st.s st'.s := by
  obtain ⟨_, h⟩ := h
  cases φ with
  | none => exact h.obs
  | some k =>
    cases h with
    | mark => exact absurd rfl hφ
    | step _ ho => exact ho

theorem SR.setD {φ : Option Nat} {st st' : PState} (h : SR g g' φ st st') (n : Nat) :
    SR g g' φ { st with d := n } { st' with d := n } := ⟨rfl, h.2⟩

theorem SR.d_eq {φ : Option Nat} {st st' : PState} (h : SR g g' φ st st') : st'.d = st.d := h.1.symm

theorem next_ok {st st1 : PState} (h : st.next = .ok st1) : ∃ a, st.s.nextItem = .ok a ∧ st1 = { st with s := a } := by
  unfold PState.next at h
  split at h
  · rename_i a ha
    cases h
    exact ⟨a, ha, rfl⟩
  · cases h

theorem next_of {st : PState} {a : Scan} (h : st.s.nextItem = .ok a) : st.next = .ok { st with s := a } := by
  simp [PState.next, h]

/-- one token forward, away from the marked token -/
theorem SR.next {φ : Option Nat} {st st' st1 : PState} (h : SR g g' φ st st') (hφ : φ ≠ some 0)
    (hne : st.s.typ ≠ .eof) (hn : st.next = .ok st1) :
    ∃ st1', st'.next = .ok st1' ∧ SR g g' (dec φ) st1 st1' := by
  obtain ⟨a, ha, rfl⟩ := next_ok hn
  obtain ⟨hd, h⟩ := h
  cases φ with
  | none =>
    obtain ⟨a2, b, ha2, hb, hab⟩ := After.inv h hne
    rw [ha] at ha2; cases ha2
    exact ⟨_, next_of hb, hd, hab⟩
  | some k =>
    cases h with
    | mark => exact absurd rfl hφ
    | step _ _ ha2 hb hab =>
      rw [ha] at ha2; cases ha2
      exact ⟨_, next_of hb, hd, hab⟩

/-- one token forward, over the marked token -/
theorem SR.next_mark {st st' st1 : PState} (h : SR g g' (some 0) st st') (hn : st.next = .ok st1) :
    ∃ st1', st'.next = .ok st1' ∧ SR g g' none st1 st1' ∧ st1.s.typ = .lparen := by
  obtain ⟨a, ha, rfl⟩ := next_ok hn
  obtain ⟨hd, h⟩ := h
  cases h with
  | mark _ _ _ _ _ _ _ ha2 hb hlp hab =>
    rw [ha] at ha2; cases ha2
    exact ⟨_, next_of hb, ⟨hd, hab⟩, hlp⟩

theorem skipItem_ok {st st1 : PState} {t : Tok} (h : st.skipItem t = .ok st1) : st.s.typ = t ∧ st.next = .ok st1 := by
  unfold PState.skipItem at h
  split at h
  · rename_i ht
    exact ⟨eq_of_beq ht, h⟩
  · cases h

theorem skipItem_of {st : PState} {t : Tok} (ht : st.s.typ = t) : st.skipItem t = st.next := by
  simp [PState.skipItem, ht]

theorem SR.skipItem {φ : Option Nat} {st st' st1 : PState} {t : Tok} (h : SR g g' φ st st') (ht1 : t ≠ .name)
    (ht2 : t ≠ .eof) (hn : st.skipItem t = .ok st1) :
    ∃ st1', st'.skipItem t = .ok st1' ∧ SR g g' (dec φ) st1 st1' := by
  obtain ⟨ht, hn⟩ := skipItem_ok hn
  obtain ⟨st1', h1, h2⟩ := h.next (h.ne_mark (by rw [ht]; exact ht1)) (by rw [ht]; exact ht2) hn
  exact ⟨st1', by rw [skipItem_of (by rw [h.typ_eq, ht])]; exact h1, h2⟩

end

/-! ## 2. the simulation invariant -/

/-- single-sided: a continuation entered at `(` (after a sub-parse) ends at `(` or fails -/
def Passes (k : Ast × PState → PRes) : Prop :=
  ∀ a st, st.s.typ = .lparen → ∀ b st2, k (a, st) = .ok (b, st2) → st2.s.typ = .lparen

section
variable (g g' : String)

def Sim (φ : Option Nat) (D : Prop) (R R' : PRes) : Prop :=
  ∀ a st1, R = .ok (a, st1) → st1.s.typ = .lparen ∨
    ∃ a' st1' φ', R' = .ok (a', st1') ∧ SR g g' φ' st1 st1' ∧ Ren g g' a a' ∧ (φ = none → φ' = none) ∧
      ((D ∨ (φ.isSome = true ∧ φ' = none)) → a ≠ a')

variable {g g'}

theorem Sim.err {φ : Option Nat} {D : Prop} {e : PErr} {R' : PRes} : Sim g g' φ D (.error e) R' := by
  intro a st1 h; cases h

theorem Sim.pure {φ : Option Nat} {D : Prop} {a a' : Ast} {st st' : PState} (h : SR g g' φ st st')
    (hr : Ren g g' a a') (hd : D → a ≠ a') : Sim g g' φ D (Pure.pure (a, st)) (Pure.pure (a', st')) := by
  intro b st1 e
  cases e
  refine Or.inr ⟨a', st', φ, rfl, h, hr, fun h => h, ?_⟩
  rintro (h | ⟨h1, h2⟩)
  · exact hd h
  · rw [h2] at h1; cases h1

theorem Sim.stuck {φ : Option Nat} {D : Prop} {a : Ast} {st : PState} {R' : PRes} (h : st.s.typ = .lparen) :
    Sim g g' φ D (Pure.pure (a, st)) R' := by
  intro b st1 e
  cases e
  exact Or.inl h

theorem Sim.weaken {φ : Option Nat} {D D' : Prop} {R R' : PRes} (h : Sim g g' φ D' R R') (hd : D → D') :
    Sim g g' φ D R R' := by
  intro a st1 e
  rcases h a st1 e with h | ⟨a', st1', φ', h1, h2, h3, h4, h5⟩
  · exact Or.inl h
  · refine Or.inr ⟨a', st1', φ', h1, h2, h3, h4, ?_⟩
    rintro (h | h)
    · exact h5 (Or.inl (hd h))
    · exact h5 (Or.inr h)

theorem Sim.bind {φ : Option Nat} {D D₁ : Prop} {R R' : PRes} {k k' : Ast × PState → PRes}
    (h : Sim g g' φ D₁ R R') (hst : Passes k)
    (hk : ∀ a st1 a' st1' φ', SR g g' φ' st1 st1' → Ren g g' a a' → (φ = none → φ' = none) →
      ((D₁ ∨ (φ.isSome = true ∧ φ' = none)) → a ≠ a') → Sim g g' φ' (D ∨ a ≠ a') (k (a, st1)) (k' (a', st1'))) :
    Sim g g' φ D (R >>= k) (R' >>= k') := by
  intro b st2 e
  obtain ⟨⟨a, st1⟩, e1, e2⟩ := bind_ok e
  rcases h a st1 e1 with h | ⟨a', st1', φ', h1, h2, h3, h4, h5⟩
  · exact Or.inl (hst a st1 h b st2 e2)
  · rcases hk a st1 a' st1' φ' h2 h3 h4 h5 b st2 e2 with h | ⟨b', st2', φ'', k1, k2, k3, k4, k5⟩
    · exact Or.inl h
    · refine Or.inr ⟨b', st2', φ'', ?_, k2, k3, fun e => k4 (h4 e), ?_⟩
      · rw [h1]; exact k1
      · rintro (hD | ⟨hs, hn⟩)
        · exact k5 (Or.inl (Or.inl hD))
        · cases φ' with
          | none => exact k5 (Or.inl (Or.inr (h5 (Or.inr ⟨hs, rfl⟩))))
          | some j => exact k5 (Or.inr ⟨rfl, hn⟩)

/-- state-only steps (`next`, `skipItem`) away from the marked token -/
def SimS (φ : Option Nat) (R R' : Except PErr PState) : Prop :=
  ∀ st1, R = .ok st1 → φ ≠ some 0 ∧ ∃ st1', R' = .ok st1' ∧ SR g g' (dec φ) st1 st1'

theorem SimS.bind {φ : Option Nat} {D : Prop} {R R' : Except PErr PState} {k k' : PState → PRes}
    (h : SimS (g := g) (g' := g') φ R R')
    (hk : ∀ st1 st1', SR g g' (dec φ) st1 st1' → Sim g g' (dec φ) D (k st1) (k' st1')) :
    Sim g g' φ D (R >>= k) (R' >>= k') := by
  intro b st2 e
  obtain ⟨st1, e1, e2⟩ := bind_ok e
  obtain ⟨hφ, st1', h1, h2⟩ := h st1 e1
  rcases hk st1 st1' h2 b st2 e2 with h | ⟨b', st2', φ'', k1, k2, k3, k4, k5⟩
  · exact Or.inl h
  · refine Or.inr ⟨b', st2', φ'', ?_, k2, k3, ?_, ?_⟩
    · rw [h1]; exact k1
    · intro e; subst e; exact k4 rfl
    · rintro (hD | ⟨hs, hn⟩)
      · exact k5 (Or.inl hD)
      · cases φ with
        | none => cases hs
        | some j =>
          cases j with
          | zero => exact absurd rfl hφ
          | succ j => exact k5 (Or.inr ⟨rfl, hn⟩)

theorem simS_next {φ : Option Nat} {st st' : PState} (h : SR g g' φ st st') (hφ : φ ≠ some 0)
    (hne : st.s.typ ≠ .eof) : SimS (g := g) (g' := g') φ st.next st'.next :=
  fun _ e => ⟨hφ, h.next hφ hne e⟩

/-- `next` at a token that is no name (hence not the marked one) -/
theorem simS_next' {φ : Option Nat} {st st' : PState} (h : SR g g' φ st st') (hn : st.s.typ ≠ .name)
    (hne : st.s.typ ≠ .eof) : SimS (g := g) (g' := g') φ st.next st'.next :=
  simS_next h (h.ne_mark hn) hne

theorem simS_skipItem {φ : Option Nat} {st st' : PState} {t : Tok} (h : SR g g' φ st st') (ht1 : t ≠ .name)
    (ht2 : t ≠ .eof) : SimS (g := g) (g' := g') φ (st.skipItem t) (st'.skipItem t) :=
  fun _ e => ⟨h.ne_mark (by rw [(skipItem_ok e).1]; exact ht1), h.skipItem ht1 ht2 e⟩

end

/-! ### renamings: congruences and differences -/

theorem Ren.mkAxis {g g' : String} {i i' : Ast} (ax : String) (tt : NType) (l p pr : String) (h : Ren g g' i i') :
    Ren g g' (mkAxis ax tt l p pr i) (mkAxis ax tt l p pr i') := Ren.axis _ h

theorem Ren.dos {g g' : String} {i i' : Ast} (h : Ren g g' i i') : Ren g g' (dosNode i) (dosNode i') := Ren.axis _ h

theorem mkAxis_ne {i i' : Ast} (ax : String) (tt : NType) (l p pr : String) (h : i ≠ i') :
    mkAxis ax tt l p pr i ≠ mkAxis ax tt l p pr i' := by
  intro e; simp only [mkAxis, Ast.axis.injEq, true_and] at e; exact h e

theorem dos_ne {i i' : Ast} (h : i ≠ i') : dosNode i ≠ dosNode i' := mkAxis_ne _ _ _ _ _ h

/-! ## 3. leaves: `skipMinus`, `parseNodeTest`, and the loops at `(` -/

section
variable {g g' : String}

def SimM (g g' : String) (φ : Option Nat) (R R' : Except PErr (Bool × PState)) : Prop :=
  ∀ m st1, R = .ok (m, st1) → ∃ st1' φ', R' = .ok (m, st1') ∧ SR g g' φ' st1 st1' ∧ φ.isSome = φ'.isSome

theorem dec_isSome {φ : Option Nat} (h : φ ≠ some 0) : (dec φ).isSome = φ.isSome := by
  cases φ with
  | none => rfl
  | some k =>
    cases k with
    | zero => exact absurd rfl h
    | succ k => rfl

theorem skipMinus_sim : ∀ (f : Nat) (φ : Option Nat) (st st' : PState) (m : Bool), SR g g' φ st st' →
    SimM g g' φ (skipMinus f st m) (skipMinus f st' m)
  | 0, _, _, _, _, _ => by intro m st1 e; simp [skipMinus] at e
  | f+1, φ, st, st', m, h => by
    intro m1 st1 e
    unfold skipMinus at e ⊢
    rw [h.typ_eq]
    by_cases ht : st.s.typ = .minus
    · simp only [ht, beq_self_eq_true, ↓reduceIte] at e ⊢
      obtain ⟨s1, e1, e2⟩ := bind_ok e
      have hφ : φ ≠ some 0 := h.ne_mark (by rw [ht]; decide)
      obtain ⟨s1', h1, h2⟩ := h.next hφ (by rw [ht]; decide) e1
      obtain ⟨st1', φ', k1, k2, k3⟩ := skipMinus_sim f (dec φ) s1 s1' (!m) h2 m1 st1 e2
      refine ⟨st1', φ', ?_, k2, ?_⟩
      · rw [h1]; exact k1
      · rw [← k3, dec_isSome hφ]
    · have : (st.s.typ == Tok.minus) = false := beq_eq_false_iff_ne.mpr ht
      simp only [this, Bool.false_eq_true, ↓reduceIte] at e ⊢
      cases e
      exact ⟨st', φ, rfl, h, rfl⟩

theorem SimM.bind {φ : Option Nat} {D : Prop} {R R' : Except PErr (Bool × PState)} {k k' : Bool × PState → PRes}
    (h : SimM g g' φ R R')
    (hk : ∀ m st1 st1' φ', SR g g' φ' st1 st1' → φ.isSome = φ'.isSome → Sim g g' φ' D (k (m, st1)) (k' (m, st1'))) :
    Sim g g' φ D (R >>= k) (R' >>= k') := by
  intro b st2 e
  obtain ⟨⟨m, st1⟩, e1, e2⟩ := bind_ok e
  obtain ⟨st1', φ', h1, h2, h3⟩ := h m st1 e1
  rcases hk m st1 st1' φ' h2 h3 b st2 e2 with h | ⟨b', st2', φ'', k1, k2, k3, k4, k5⟩
  · exact Or.inl h
  · refine Or.inr ⟨b', st2', φ'', ?_, k2, k3, ?_, ?_⟩
    · rw [h1]; exact k1
    · intro e
      subst e
      cases φ' with
      | none => exact k4 rfl
      | some j => cases h3
    · rintro (hD | ⟨hs, hn⟩)
      · exact k5 (Or.inl hD)
      · exact k5 (Or.inr ⟨by rw [← h3]; exact hs, hn⟩)

/-! the loops entered at `(` return at once -/

theorem stepPreds_lparen (f : Nat) (cfg : PCfg) (opnd : Ast) (st : PState) (h : st.s.typ = .lparen)
    (b : Ast) (st2 : PState) (e : stepPreds f cfg opnd st = .ok (b, st2)) : st2.s.typ = .lparen := by
  cases f with
  | zero => simp [stepPreds] at e
  | succ f =>
    simp only [stepPreds, h, beq_iff_eq, reduceCtorEq, ↓reduceIte] at e
    cases e; exact h

theorem tokMatches_lparen {s : Scan} (h : s.typ = .lparen) (op : String) : tokMatches s op = false := by
  unfold Model.tokMatches
  split <;> (rw [h]; rfl)

theorem tierLoop_lparen (f : Nat) (cfg : PCfg) (ops : List String) (rest : List Stage) (opnd : Ast) (st : PState)
    (h : st.s.typ = .lparen) (b : Ast) (st2 : PState) (e : tierLoop f cfg ops rest opnd st = .ok (b, st2)) :
    st2.s.typ = .lparen := by
  cases f with
  | zero => simp [tierLoop] at e
  | succ f =>
    have hf : ops.find? (tokMatches st.s) = none := by
      rw [List.find?_eq_none]
      intro op _
      simp [tokMatches_lparen h op]
    simp only [tierLoop, hf] at e
    cases e; exact h

theorem seqLoop_lparen (f : Nat) (cfg : PCfg) (inp opnd : Ast) (st : PState) (h : st.s.typ = .lparen)
    (b : Ast) (st2 : PState) (e : seqLoop f cfg inp opnd st = .ok (b, st2)) : st2.s.typ = .lparen := by
  cases f with
  | zero => simp [seqLoop] at e
  | succ f =>
    simp only [seqLoop, h, beq_iff_eq, reduceCtorEq, ↓reduceIte] at e
    cases e; exact h

/-- the marked state: what `Before … 0` says -/
theorem SR.mark_facts {st st' : PState} (h : SR g g' (some 0) st st') :
    st.s.typ = .name ∧ st'.s.typ = .name ∧ st.s.name = g ∧ st'.s.name = g' ∧ st.s.pfx = st'.s.pfx ∧
      st.s.canBeFunc = true ∧ st'.s.canBeFunc = true := by
  obtain ⟨_, h⟩ := h
  cases h with
  | mark h1 h2 h3 h4 h5 h6 h7 => exact ⟨h1, h2, h3, h4, h5, h6, h7⟩

theorem SR.next2 {φ : Option Nat} {st st' st1 : PState} (h : SR g g' φ st st') (hφ : φ ≠ some 0)
    (hne : st.s.typ ≠ .eof) (hn : st.next = .ok st1) :
    ∃ st1', st'.next = .ok st1' ∧ SR g g' (dec φ) st1 st1' ∧ (dec φ).isSome = φ.isSome := by
  obtain ⟨st1', h1, h2⟩ := h.next hφ hne hn
  exact ⟨st1', h1, h2, dec_isSome hφ⟩

theorem SR.skipItem2 {φ : Option Nat} {st st' st1 : PState} {t : Tok} (h : SR g g' φ st st') (ht1 : t ≠ .name)
    (ht2 : t ≠ .eof) (hn : st.skipItem t = .ok st1) :
    ∃ st1', st'.skipItem t = .ok st1' ∧ SR g g' (dec φ) st1 st1' ∧ (dec φ).isSome = φ.isSome := by
  obtain ⟨st1', h1, h2⟩ := h.skipItem ht1 ht2 hn
  exact ⟨st1', h1, h2, dec_isSome (h.ne_mark (by rw [(skipItem_ok hn).1]; exact ht1))⟩

theorem no_cross {φ φ' : Option Nat} (h : φ'.isSome = φ.isSome) : ¬ (φ.isSome = true ∧ φ' = none) := by
  rintro ⟨h1, h2⟩
  subst h2
  rw [h1] at h
  cases h

theorem mono_of_isSome {φ φ' : Option Nat} (h : φ'.isSome = φ.isSome) : φ = none → φ' = none := by
  intro e; subst e
  cases φ' with
  | none => rfl
  | some _ => cases h

/-- `parseNodeTest`: at the marked token it reads the name as a name test and is stuck at the `(` -/
theorem nodeTest_sim (hg : g ∉ nodeTypes) (cfg : PCfg) (inp inp' : Ast) (axis : String) (mt : NType) (φ : Option Nat)
    (st st' : PState) (hr : Ren g g' inp inp') (h : SR g g' φ st st') :
    Sim g g' φ (inp ≠ inp') (parseNodeTest cfg inp axis mt st) (parseNodeTest cfg inp' axis mt st') := by
  by_cases hm : φ = some 0
  · subst hm
    intro a st1 e
    left
    obtain ⟨h1, _, h3, _⟩ := h.mark_facts
    have hnt : isNodeType st.s = false := isNodeType_false (by rw [h3]; exact hg)
    simp only [parseNodeTest, h1, hnt, Bool.and_false, Bool.false_eq_true, ↓reduceIte] at e
    obtain ⟨stn, e1, e2⟩ := bind_ok e
    obtain ⟨_, _, _, hlp⟩ := h.next_mark e1
    have : st1 = stn := by
      revert e2
      simp only [mkAxis]
      repeat' split
      all_goals (intro e2; first | (cases e2; rfl) | cases e2)
    rw [this]; exact hlp
  · have obs := h.obs hm
    have htyp := h.typ_eq
    have fin : ∀ {φ' : Option Nat} {x : Ast → Ast} {s4 s4' : PState}, SR g g' φ' s4 s4' → φ'.isSome = φ.isSome →
        (∀ i i', Ren g g' i i' → Ren g g' (x i) (x i')) → (∀ i i', i ≠ i' → x i ≠ x i') →
        ∃ a' st1' φ', (Except.ok (x inp', s4') : PRes) = .ok (a', st1') ∧ SR g g' φ' s4 st1' ∧ Ren g g' (x inp) a' ∧
          (φ = none → φ' = none) ∧ ((inp ≠ inp' ∨ (φ.isSome = true ∧ φ' = none)) → x inp ≠ a') := by
      intro φ' x s4 s4' r hs hx1 hx2
      refine ⟨_, _, φ', rfl, r, hx1 _ _ hr, mono_of_isSome hs, ?_⟩
      rintro (hd | hc)
      · exact hx2 _ _ hd
      · exact absurd hc (no_cross hs)
    intro a st1 e
    right
    unfold parseNodeTest at e ⊢
    rw [htyp]
    split at e
    · -- a name token
      rename_i hname
      obtain ⟨hn, hp, hc⟩ := obs.2.1 hname
      have hnt : isNodeType st'.s = isNodeType st.s := (obs.isNodeType hname).symm
      simp only [← hn, ← hp, ← hc, hnt]
      split at e
      · -- node-type test
        rename_i hcond
        simp only [hcond, ↓reduceIte]
        obtain ⟨s1, e1, e⟩ := bind_ok e
        obtain ⟨s1', h1, r1, i1⟩ := h.next2 hm (by rw [hname]; decide) e1
        obtain ⟨s2, e2, e⟩ := bind_ok e
        obtain ⟨s2', h2, r2, i2⟩ := r1.skipItem2 (by decide) (by decide) e2
        dsimp only at e
        split at e
        · rename_i hc1
          split at e
          · rename_i hc2
            have hstr : s2.s.typ = .string := eq_of_beq hc2
            have hm2 : dec (dec φ) ≠ some 0 := r2.ne_mark (by rw [hstr]; decide)
            have hsv : s2.s.strval = s2'.s.strval := (r2.obs hm2).2.2.2.1 hstr
            obtain ⟨s3, e3, e⟩ := bind_ok e
            obtain ⟨s3', h3, r3, i3⟩ := r2.next2 hm2 (by rw [hstr]; decide) e3
            obtain ⟨x, e5, e⟩ := bind_ok e
            cases e5
            obtain ⟨s4, e4, e⟩ := bind_ok e
            obtain ⟨s4', h4, r4, i4⟩ := r3.skipItem2 (by decide) (by decide) e4
            cases e
            simp only [h1, h2, bind, Except.bind]
            rw [r2.typ_eq, if_pos hc1, if_pos hc2]
            simp only [h3, h4, Pure.pure, Except.pure, ← hsv]
            exact fin (x := fun i => mkAxis axis _ s2.s.strval "" st.s.name i) r4 (by rw [i4, i3, i2, i1])
              (fun _ _ => Ren.mkAxis _ _ _ _ _) (fun _ _ => mkAxis_ne _ _ _ _ _)
          · obtain ⟨x, e5, _⟩ := bind_ok e
            cases e5
        · rename_i hc1
          obtain ⟨x, e5, e⟩ := bind_ok e
          cases e5
          obtain ⟨s4, e4, e⟩ := bind_ok e
          obtain ⟨s4', h4, r4, i4⟩ := r2.skipItem2 (by decide) (by decide) e4
          cases e
          simp only [h1, h2, bind, Except.bind]
          rw [r2.typ_eq, if_neg hc1]
          simp only [h4, Pure.pure, Except.pure]
          exact fin (x := fun i => mkAxis axis _ "" "" st.s.name i) r4 (by rw [i4, i2, i1])
            (fun _ _ => Ren.mkAxis _ _ _ _ _) (fun _ _ => mkAxis_ne _ _ _ _ _)
      · -- a name test
        rename_i hcond
        simp only [hcond]
        obtain ⟨s1, e1, e⟩ := bind_ok e
        obtain ⟨s1', h1, r1, i1⟩ := h.next2 hm (by rw [hname]; decide) e1
        simp only [h1, bind, Except.bind]
        by_cases hpf : (st.s.pfx != "") = true
        · simp only [hpf, ↓reduceIte] at e ⊢
          cases hns : cfg.ns with
          | none =>
            simp only [hns] at e ⊢
            cases e
            exact fin (x := fun i => mkAxis axis mt _ _ "" i) r1 i1
              (fun _ _ => Ren.mkAxis _ _ _ _ _) (fun _ _ => mkAxis_ne _ _ _ _ _)
          | some m =>
            simp only [hns] at e ⊢
            cases hl : m.lookup st.s.pfx with
            | none => simp only [hl] at e; cases e
            | some uri =>
              simp only [hl] at e ⊢
              cases e
              exact fin (x := fun i => Ast.axis _ i) r1 i1 (fun _ _ => Ren.axis _)
                (fun _ _ hne e => hne (by injection e))
        · simp only [hpf, Bool.false_eq_true, ↓reduceIte] at e ⊢
          cases e
          exact fin (x := fun i => mkAxis axis mt _ _ "" i) r1 i1
            (fun _ _ => Ren.mkAxis _ _ _ _ _) (fun _ _ => mkAxis_ne _ _ _ _ _)
    · -- `*`
      rename_i hstar
      obtain ⟨s1, e1, e⟩ := bind_ok e
      obtain ⟨s1', h1, r1, i1⟩ := h.next2 hm (by rw [hstar]; decide) e1
      cases e
      simp only [h1, bind, Except.bind, Pure.pure, Except.pure]
      exact fin (x := fun i => mkAxis axis mt "" "" "" i) r1 i1
        (fun _ _ => Ren.mkAxis _ _ _ _ _) (fun _ _ => mkAxis_ne _ _ _ _ _)
    · cases e

end

/-! ## 4. the fifteen parser functions -/

section
variable (g g' : String) (cfg : PCfg)

def okOps (ops : List String) : Prop := g ∉ ops ∧ g' ∉ ops
def okStages (l : List Stage) : Prop := ∀ ops, Stage.tier ops ∈ l → okOps g g' ops

def XExpr (f : Nat) : Prop := ∀ φ st st', SR g g' φ st st' →
  Sim g g' φ False (parseExpression f cfg st) (parseExpression f cfg st')
def XChain (f : Nat) : Prop := ∀ stages φ st st', okStages g g' stages → SR g g' φ st st' →
  Sim g g' φ False (parseChain f cfg stages st) (parseChain f cfg stages st')
def XTier (f : Nat) : Prop := ∀ ops rest opnd opnd' φ st st', okOps g g' ops → okStages g g' rest →
  Ren g g' opnd opnd' → SR g g' φ st st' →
  Sim g g' φ (opnd ≠ opnd') (tierLoop f cfg ops rest opnd st) (tierLoop f cfg ops rest opnd' st')
def XPath (f : Nat) : Prop := ∀ φ st st', SR g g' φ st st' →
  Sim g g' φ False (parsePathExpr f cfg st) (parsePathExpr f cfg st')
def XFilter (f : Nat) : Prop := ∀ φ st st', SR g g' φ st st' →
  Sim g g' φ False (parseFilterExpr f cfg st) (parseFilterExpr f cfg st')
def XPred (f : Nat) : Prop := ∀ φ st st', SR g g' φ st st' →
  Sim g g' φ False (parsePredicate f cfg st) (parsePredicate f cfg st')
def XPrimary (f : Nat) : Prop := ∀ φ st st', SR g g' φ st st' →
  Sim g g' φ False (parsePrimary f cfg st) (parsePrimary f cfg st')
def XMethod (f : Nat) : Prop := ∀ φ st st', SR g g' φ st st' →
  Sim g g' φ False (parseMethod f cfg st) (parseMethod f cfg st')
def XArgs (f : Nat) : Prop := ∀ φ st st', SR g g' φ st st' →
  Sim g g' φ False (parseArgs f cfg st) (parseArgs f cfg st')
def XLoc (f : Nat) : Prop := ∀ φ st st', SR g g' φ st st' →
  Sim g g' φ False (parseLocationPath f cfg st) (parseLocationPath f cfg st')
def XRel (f : Nat) : Prop := ∀ inp inp' φ st st', Ren g g' inp inp' → SR g g' φ st st' →
  Sim g g' φ (inp ≠ inp') (parseRelLoc f cfg inp st) (parseRelLoc f cfg inp' st')
def XStep (f : Nat) : Prop := ∀ inp inp' φ st st', Ren g g' inp inp' → SR g g' φ st st' →
  Sim g g' φ (inp ≠ inp') (parseStep f cfg inp st) (parseStep f cfg inp' st')
def XPreds (f : Nat) : Prop := ∀ opnd opnd' φ st st', Ren g g' opnd opnd' → SR g g' φ st st' →
  Sim g g' φ (opnd ≠ opnd') (stepPreds f cfg opnd st) (stepPreds f cfg opnd' st')
def XSeq (f : Nat) : Prop := ∀ inp inp' φ st st', Ren g g' inp inp' → SR g g' φ st st' →
  Sim g g' φ (inp ≠ inp') (parseSequence f cfg inp st) (parseSequence f cfg inp' st')
def XSeqLoop (f : Nat) : Prop := ∀ inp inp' opnd opnd' φ st st', Ren g g' inp inp' → Ren g g' opnd opnd' →
  SR g g' φ st st' →
  Sim g g' φ (opnd ≠ opnd') (seqLoop f cfg inp opnd st) (seqLoop f cfg inp' opnd' st')

variable {g g' cfg}

/-- closing a `Passes` goal whose continuation only inspects the token type or fails -/
syntax "passes_tac" : tactic
macro_rules
  | `(tactic| passes_tac) => `(tactic|
      (intro a st h b st2 e
       first
         | (simp only [h] at e; cases e; exact h)
         | (simp [PState.skipItem, h, Functor.map, Except.map, bind, Except.bind] at e)))

theorem step_expr (hK : okStages g g' cfg.chain) {f : Nat} (ih : XChain g g' cfg f) : XExpr g g' cfg (f+1) := by
  intro φ st st' h
  simp only [parseExpression]
  rw [h.d_eq]
  split
  · exact Sim.err
  · refine Sim.bind (ih cfg.chain φ _ _ hK (h.setD (st.d + 1))) ?_ ?_
    · intro a st h b st2 e; cases e; exact h
    · intro a st1 a' st1' φ' hSR hren _ _
      refine Sim.pure ?_ hren (by rintro (h | h); cases h; exact h)
      have := hSR.setD (st1.d - 1)
      rw [hSR.d_eq]
      exact this

theorem okStages_tail {s : Stage} {rest : List Stage} (h : okStages g g' (s :: rest)) : okStages g g' rest :=
  fun ops hm => h ops (List.mem_cons_of_mem _ hm)

theorem step_chain {f : Nat} (ihChain : XChain g g' cfg f) (ihTier : XTier g g' cfg f) (ihPath : XPath g g' cfg f) :
    XChain g g' cfg (f+1) := by
  intro stages φ st st' hk h
  cases stages with
  | nil =>
    simp only [parseChain]
    exact ihPath φ st st' h
  | cons s rest =>
    have hrest := okStages_tail hk
    cases s with
    | tier ops =>
      have hops : okOps g g' ops := hk ops (List.mem_cons_self ..)
      simp only [parseChain]
      refine Sim.bind (ihChain rest φ st st' hrest h) ?_ ?_
      · intro a st h b st2 e; exact tierLoop_lparen _ _ _ _ _ _ h b st2 e
      · intro a st1 a' st1' φ' hSR hren _ _
        exact (ihTier ops rest a a' φ' st1 st1' hops hrest hren hSR).weaken (by rintro (h | h); cases h; exact h)
    | unary =>
      simp only [parseChain]
      rw [h.typ_eq]
      refine SimM.bind (skipMinus_sim (f+1) φ st st' false h) ?_
      intro m st1 st1' φ' hSR _
      refine Sim.bind (ihChain rest φ' st1 st1' hrest hSR) ?_ ?_
      · intro a st h b st2 e; cases e; exact h
      · intro a st2 a' st2' φ'' hSR2 hren _ _
        refine Sim.pure hSR2 ?_ ?_
        · split
          · exact Ren.oper _ hren (Ren.refl _)
          · split
            · exact Ren.oper _ (Ren.oper _ hren (Ren.refl _)) (Ren.refl _)
            · exact hren
        · rintro (h | h)
          · cases h
          · split
            · intro e; injection e with _ e _; exact h e
            · split
              · intro e; injection e with _ e _; injection e with _ e _; exact h e
              · exact h

theorem tier_find {φ : Option Nat} {st st' : PState} {ops : List String} (hops : okOps g g' ops)
    (h : SR g g' φ st st') :
    ops.find? (tokMatches st'.s) = ops.find? (tokMatches st.s) ∧
      (∀ op, ops.find? (tokMatches st.s) = some op → φ ≠ some 0 ∧ st.s.typ ≠ .eof) := by
  by_cases hm : φ = some 0
  · subst hm
    obtain ⟨h1, h2, h3, h4, _⟩ := h.mark_facts
    have e1 : ops.find? (tokMatches st.s) = none := by
      rw [List.find?_eq_none]
      intro op hop
      rw [tokMatches_name_false h1 (by rw [h3]; intro e; exact hops.1 (e ▸ hop))]
      simp
    have e2 : ops.find? (tokMatches st'.s) = none := by
      rw [List.find?_eq_none]
      intro op hop
      rw [tokMatches_name_false h2 (by rw [h4]; intro e; exact hops.2 (e ▸ hop))]
      simp
    rw [e1, e2]
    exact ⟨rfl, fun op e => by cases e⟩
  · refine ⟨find_congr (fun op _ => ((h.obs hm).tokMatches op).symm), fun op e => ⟨hm, ?_⟩⟩
    exact Lemmas.ParserFuel.tokMatches_ne_eof _ op (List.find?_some e)

theorem step_tier {f : Nat} (ihChain : XChain g g' cfg f) (ihTier : XTier g g' cfg f) : XTier g g' cfg (f+1) := by
  intro ops rest opnd opnd' φ st st' hops hrest hren h
  simp only [tierLoop]
  obtain ⟨hfind, hsome⟩ := tier_find hops h
  rw [hfind]
  split
  · exact Sim.pure h hren (fun h => h)
  · rename_i op hop
    obtain ⟨hφ, hne⟩ := hsome op hop
    refine SimS.bind (simS_next h hφ hne) ?_
    intro st1 st1' hSR
    refine Sim.bind (ihChain rest _ st1 st1' hrest hSR) ?_ ?_
    · intro a st h b st2 e; exact tierLoop_lparen _ _ _ _ _ _ h b st2 e
    · intro r st2 r' st2' φ' hSR2 hren2 _ _
      refine (ihTier ops rest (.oper op opnd r) (.oper op opnd' r') φ' st2 st2' hops hrest
        (Ren.oper op hren hren2) hSR2).weaken ?_
      rintro (h | h) e
      · injection e with _ e _; exact h e
      · injection e with _ _ e; exact h e

theorem isPrimary_eq (hg : g ∉ nodeTypes) (hg' : g' ∉ nodeTypes) {φ : Option Nat} {st st' : PState}
    (h : SR g g' φ st st') : isPrimaryExpr st'.s = isPrimaryExpr st.s := by
  by_cases hm : φ = some 0
  · subst hm
    obtain ⟨h1, h2, h3, h4, _, h6, h7⟩ := h.mark_facts
    simp [isPrimaryExpr, h1, h2, h6, h7, isNodeType_false (s := st.s) (by rw [h3]; exact hg),
      isNodeType_false (s := st'.s) (by rw [h4]; exact hg')]
  · have obs := h.obs hm
    unfold isPrimaryExpr
    rw [← obs.1]
    by_cases hn : st.s.typ = .name
    · obtain ⟨_, _, hc⟩ := obs.2.1 hn
      rw [← hc, ← obs.isNodeType hn]
    · have : (st.s.typ == Tok.name) = false := beq_eq_false_iff_ne.mpr hn
      simp only [this, Bool.false_and]

/-- the "function call?" test of `parsePrimary` -/
theorem isCall_eq (hg : g ∉ nodeTypes) (hg' : g' ∉ nodeTypes) {φ : Option Nat} {st st' : PState}
    (h : SR g g' φ st st') (hn : st.s.typ = .name) :
    (st'.s.canBeFunc && !isNodeType st'.s) = (st.s.canBeFunc && !isNodeType st.s) := by
  by_cases hm : φ = some 0
  · subst hm
    obtain ⟨h1, h2, h3, h4, _, h6, h7⟩ := h.mark_facts
    simp [h6, h7, isNodeType_false (s := st.s) (by rw [h3]; exact hg),
      isNodeType_false (s := st'.s) (by rw [h4]; exact hg')]
  · have obs := h.obs hm
    obtain ⟨_, _, hc⟩ := obs.2.1 hn
    rw [← hc, ← obs.isNodeType hn]

theorem step_path (hg : g ∉ nodeTypes) (hg' : g' ∉ nodeTypes) {f : Nat} (ihFilter : XFilter g g' cfg f)
    (ihRel : XRel g g' cfg f) (ihLoc : XLoc g g' cfg f) : XPath g g' cfg (f+1) := by
  intro φ st st' h
  simp only [parsePathExpr]
  rw [isPrimary_eq hg hg' h]
  split
  · refine Sim.bind (ihFilter φ st st' h) (by passes_tac) ?_
    intro opnd st1 opnd' st1' φ' hSR hren _ _
    dsimp only
    rw [hSR.typ_eq]
    split
    · rename_i ht
      refine SimS.bind (simS_next' hSR (by rw [ht]; decide) (by rw [ht]; decide)) ?_
      intro st2 st2' hSR2
      exact (ihRel opnd opnd' _ st2 st2' hren hSR2).weaken (by rintro (h | h); cases h; exact h)
    · rename_i ht
      refine SimS.bind (simS_next' hSR (by rw [ht]; decide) (by rw [ht]; decide)) ?_
      intro st2 st2' hSR2
      exact (ihRel _ _ _ st2 st2' (Ren.dos hren) hSR2).weaken (by rintro (h | h); cases h; exact dos_ne h)
    · exact Sim.pure hSR hren (by rintro (h | h); cases h; exact h)
  · exact ihLoc φ st st' h

theorem step_filter {f : Nat} (ihPrimary : XPrimary g g' cfg f) (ihPreds : XPreds g g' cfg f) :
    XFilter g g' cfg (f+1) := by
  intro φ st st' h
  simp only [parseFilterExpr]
  refine Sim.bind (ihPrimary φ st st' h) ?_ ?_
  · intro a st h b st2 e; exact stepPreds_lparen _ _ _ _ h b st2 e
  · intro a st1 a' st1' φ' hSR hren _ _
    exact (ihPreds a a' φ' st1 st1' hren hSR).weaken (by rintro (h | h); cases h; exact h)

theorem step_pred {f : Nat} (ihExpr : XExpr g g' cfg f) : XPred g g' cfg (f+1) := by
  intro φ st st' h
  simp only [parsePredicate]
  refine SimS.bind (simS_skipItem h (by decide) (by decide)) ?_
  intro st1 st1' hSR1
  refine Sim.bind (ihExpr _ st1 st1' hSR1) (by passes_tac) ?_
  intro a st2 a' st2' φ' hSR2 hren _ _
  refine SimS.bind (simS_skipItem hSR2 (by decide) (by decide)) ?_
  intro st3 st3' hSR3
  exact Sim.pure hSR3 hren (by rintro (h | h); cases h; exact h)

theorem Ren.isConst {a a' : Ast} (h : Ren g g' a a') : isConstOperand a' = isConstOperand a := by
  cases h <;> rfl

theorem step_primary (hg : g ∉ nodeTypes) (hg' : g' ∉ nodeTypes) {f : Nat} (ihExpr : XExpr g g' cfg f)
    (ihMethod : XMethod g g' cfg f) : XPrimary g g' cfg (f+1) := by
  intro φ st st' h
  simp only [parsePrimary]
  rw [h.typ_eq]
  split
  · -- string
    rename_i ht
    have hm : φ ≠ some 0 := h.ne_mark (by rw [ht]; decide)
    rw [← (h.obs hm).2.2.2.1 ht]
    refine SimS.bind (simS_next h hm (by rw [ht]; decide)) ?_
    intro st1 st1' hSR
    exact Sim.pure hSR (Ren.refl _) (by intro h; cases h)
  · -- number
    rename_i ht
    have hm : φ ≠ some 0 := h.ne_mark (by rw [ht]; decide)
    rw [← (h.obs hm).2.2.2.2 ht]
    refine SimS.bind (simS_next h hm (by rw [ht]; decide)) ?_
    intro st1 st1' hSR
    exact Sim.pure hSR (Ren.refl _) (by intro h; cases h)
  · -- `$name`
    rename_i ht
    refine SimS.bind (simS_next' h (by rw [ht]; decide) (by rw [ht]; decide)) ?_
    intro st1 st1' hSR
    rw [hSR.typ_eq]
    split
    · rename_i hn
      have hn : st1.s.typ = .name := eq_of_beq hn
      by_cases hm : dec φ = some 0
      · -- the marked token as a variable name: stuck at the `(`
        intro b st2 e
        left
        obtain ⟨stn, e1, e2⟩ := bind_ok e
        cases e2
        rw [hm] at hSR
        exact (hSR.next_mark e1).choose_spec.2.2
      · obtain ⟨hnm, hpf, _⟩ := (hSR.obs hm).2.1 hn
        rw [← hnm, ← hpf]
        refine SimS.bind (simS_next hSR hm (by rw [hn]; decide)) ?_
        intro st2 st2' hSR2
        exact Sim.pure hSR2 (Ren.refl _) (by intro h; cases h)
    · exact Sim.err
  · -- `( expr )`
    rename_i ht
    refine SimS.bind (simS_next' h (by rw [ht]; decide) (by rw [ht]; decide)) ?_
    intro st1 st1' hSR
    refine Sim.bind (ihExpr _ st1 st1' hSR) (by passes_tac) ?_
    intro a st2 a' st2' φ' hSR2 hren _ _
    dsimp only
    refine SimS.bind (simS_skipItem hSR2 (by decide) (by decide)) ?_
    intro st3 st3' hSR3
    rw [hren.isConst]
    refine Sim.pure hSR3 ?_ ?_
    · split
      · exact hren
      · exact Ren.group hren
    · rintro (h | h)
      · cases h
      · split
        · exact h
        · intro e; injection e with e; exact h e
  · -- a name
    rename_i ht
    rw [isCall_eq hg hg' h ht]
    split
    · exact ihMethod φ st st' h
    · exact Sim.pure h (Ren.refl _) (by intro h; cases h)
  · exact Sim.pure h (Ren.refl _) (by intro h; cases h)

/-- `parseMethod` after its name token -/
def methodTail (f : Nat) (cfg : PCfg) (name pfx : String) (st : PState) : PRes :=
  st.skipItem .lparen >>= fun st =>
    (if st.s.typ != .rparen then parseArgs f cfg st else pure (.anil, st)) >>= fun p =>
      p.2.skipItem .rparen >>= fun st => pure (.call name pfx p.1, st)

theorem parseMethod_eq (f : Nat) (cfg : PCfg) (st : PState) :
    parseMethod (f+1) cfg st = st.skipItem .name >>= methodTail f cfg st.s.name st.s.pfx := by
  simp only [parseMethod, methodTail, bind, Except.bind]
  cases st.skipItem .name with
  | error e => rfl
  | ok st1 =>
    dsimp only
    cases st1.skipItem .lparen with
    | error e => rfl
    | ok st2 =>
      dsimp only
      split <;> rfl

theorem methodTail_sim {f : Nat} (ihArgs : XArgs g g' cfg f) (n n' p : String) (hn : n = n' ∨ (n = g ∧ n' = g'))
    (φ : Option Nat) (st st' : PState) (h : SR g g' φ st st') :
    Sim g g' φ (n ≠ n') (methodTail f cfg n p st) (methodTail f cfg n' p st') := by
  unfold methodTail
  refine SimS.bind (simS_skipItem h (by decide) (by decide)) ?_
  intro st1 st1' hSR1
  have hargs : Sim g g' (dec φ) False
      (if st1.s.typ != .rparen then parseArgs f cfg st1 else pure (.anil, st1))
      (if st1'.s.typ != .rparen then parseArgs f cfg st1' else pure (.anil, st1')) := by
    rw [hSR1.typ_eq]
    split
    · exact ihArgs _ st1 st1' hSR1
    · exact Sim.pure hSR1 (Ren.refl _) (by intro h; cases h)
  refine Sim.bind hargs (by passes_tac) ?_
  intro args st2 args' st2' φ' hSR2 hren _ _
  refine SimS.bind (simS_skipItem hSR2 (by decide) (by decide)) ?_
  intro st3 st3' hSR3
  refine Sim.pure hSR3 ?_ ?_
  · rcases hn with rfl | ⟨rfl, rfl⟩
    · exact Ren.call_args _ _ hren
    · exact Ren.call _ hren
  · rintro (h | h) e
    · injection e with e _ _; exact h e
    · injection e with _ _ e; exact h e

theorem step_method (hne : g ≠ g') {f : Nat} (ihArgs : XArgs g g' cfg f) : XMethod g g' cfg (f+1) := by
  intro φ st st' h
  rw [parseMethod_eq, parseMethod_eq]
  intro b stF e
  obtain ⟨st1, e1, e2⟩ := bind_ok e
  obtain ⟨htyp, hnext⟩ := skipItem_ok e1
  by_cases hm : φ = some 0
  · -- the marked token: the call is recorded under the two names
    subst hm
    obtain ⟨_, h2, h3, h4, h5, _⟩ := h.mark_facts
    obtain ⟨st1', hn', hSR1, _⟩ := h.next_mark hnext
    rcases methodTail_sim ihArgs st.s.name st'.s.name st.s.pfx (Or.inr ⟨h3, h4⟩) none st1 st1' hSR1 b stF e2 with
      hs | ⟨b', stF', φ', k1, k2, k3, _, k5⟩
    · exact Or.inl hs
    · refine Or.inr ⟨b', stF', φ', ?_, k2, k3, (fun e => by cases e), fun _ => ?_⟩
      · rw [skipItem_of h2, hn', ← h5]
        exact k1
      · exact k5 (Or.inl (by rw [h3, h4]; exact hne))
  · obtain ⟨hnm, hpf, _⟩ := (h.obs hm).2.1 htyp
    obtain ⟨st1', hn', hSR1⟩ := h.next hm (by rw [htyp]; decide) hnext
    rcases methodTail_sim ihArgs st.s.name st.s.name st.s.pfx (Or.inl rfl) (dec φ) st1 st1' hSR1 b stF e2 with
      hs | ⟨b', stF', φ', k1, k2, k3, k4, k5⟩
    · exact Or.inl hs
    · refine Or.inr ⟨b', stF', φ', ?_, k2, k3, ?_, ?_⟩
      · rw [skipItem_of (by rw [h.typ_eq, htyp]), hn', ← hnm, ← hpf]
        exact k1
      · intro e; subst e; exact k4 rfl
      · rintro (hD | ⟨hs, hn⟩)
        · cases hD
        · refine k5 (Or.inr ⟨?_, hn⟩)
          rw [dec_isSome hm]; exact hs

theorem step_args {f : Nat} (ihExpr : XExpr g g' cfg f) (ihArgs : XArgs g g' cfg f) : XArgs g g' cfg (f+1) := by
  intro φ st st' h
  simp only [parseArgs]
  refine Sim.bind (ihExpr φ st st' h) (by passes_tac) ?_
  intro a st1 a' st1' φ' hSR hren _ _
  dsimp only
  rw [hSR.typ_eq]
  split
  · refine Sim.pure hSR (Ren.acons hren (Ren.refl _)) ?_
    rintro (h | h) e
    · cases h
    · injection e with e _; exact h e
  · refine SimS.bind (simS_skipItem hSR (by decide) (by decide)) ?_
    intro st2 st2' hSR2
    refine Sim.bind (ihArgs _ st2 st2' hSR2) (by passes_tac) ?_
    intro rest st3 rest' st3' φ'' hSR3 hren3 _ _
    refine Sim.pure hSR3 (Ren.acons hren hren3) ?_
    rintro ((h | h) | h) e
    · cases h
    · injection e with e _; exact h e
    · injection e with _ e; exact h e

theorem step_loc {f : Nat} (ihRel : XRel g g' cfg f) : XLoc g g' cfg (f+1) := by
  intro φ st st' h
  simp only [parseLocationPath]
  rw [h.typ_eq]
  split
  · rename_i ht
    refine SimS.bind (simS_next' h (by rw [ht]; decide) (by rw [ht]; decide)) ?_
    intro st1 st1' hSR
    rw [hSR.typ_eq]
    split
    · exact (ihRel _ _ _ st1 st1' (Ren.refl _) hSR).weaken (by intro h; cases h)
    · exact Sim.pure hSR (Ren.refl _) (by intro h; cases h)
  · rename_i ht
    refine SimS.bind (simS_next' h (by rw [ht]; decide) (by rw [ht]; decide)) ?_
    intro st1 st1' hSR
    exact (ihRel _ _ _ st1 st1' (Ren.refl _) hSR).weaken (by intro h; cases h)
  · exact (ihRel _ _ _ st st' (Ren.refl _) h).weaken (by intro h; cases h)

theorem step_rel {f : Nat} (ihRel : XRel g g' cfg f) (ihStep : XStep g g' cfg f) : XRel g g' cfg (f+1) := by
  intro inp inp' φ st st' hren h
  simp only [parseRelLoc]
  refine Sim.bind (ihStep inp inp' φ st st' hren h) (by passes_tac) ?_
  intro opnd st1 opnd' st1' φ' hSR hren1 _ hne
  dsimp only
  rw [hSR.typ_eq]
  have hd : (inp ≠ inp' ∨ opnd ≠ opnd') → opnd ≠ opnd' := by
    rintro (h | h)
    · exact hne (Or.inl h)
    · exact h
  split
  · rename_i ht
    refine SimS.bind (simS_next' hSR (by rw [ht]; decide) (by rw [ht]; decide)) ?_
    intro st2 st2' hSR2
    exact (ihRel _ _ _ st2 st2' (Ren.dos hren1) hSR2).weaken (fun h => dos_ne (hd h))
  · rename_i ht
    refine SimS.bind (simS_next' hSR (by rw [ht]; decide) (by rw [ht]; decide)) ?_
    intro st2 st2' hSR2
    exact (ihRel _ _ _ st2 st2' hren1 hSR2).weaken hd
  · exact Sim.pure hSR hren1 hd

theorem step_preds {f : Nat} (ihPred : XPred g g' cfg f) (ihPreds : XPreds g g' cfg f) : XPreds g g' cfg (f+1) := by
  intro opnd opnd' φ st st' hren h
  simp only [stepPreds]
  rw [h.typ_eq]
  split
  · refine Sim.bind (ihPred φ st st' h) ?_ ?_
    · intro a st h b st2 e; exact stepPreds_lparen _ _ _ _ h b st2 e
    · intro c st1 c' st1' φ' hSR hrenc _ _
      refine (ihPreds _ _ φ' st1 st1' (Ren.filter hren hrenc) hSR).weaken ?_
      rintro (h | h) e
      · injection e with e _; exact h e
      · injection e with _ e; exact h e
  · exact Sim.pure h hren (fun h => h)

theorem step_step (hg : g ∉ nodeTypes) {f : Nat} (ihSeq : XSeq g g' cfg f) (ihPreds : XPreds g g' cfg f) :
    XStep g g' cfg (f+1) := by
  intro inp inp' φ st st' hren h
  simp only [parseStep]
  rw [h.typ_eq]
  have afterTest : ∀ (axis : String) (mt : NType) (ψ : Option Nat) (s1 s1' : PState), SR g g' ψ s1 s1' →
      Sim g g' ψ (inp ≠ inp')
        (parseNodeTest cfg inp axis mt s1 >>= fun x => stepPreds f cfg x.1 x.2)
        (parseNodeTest cfg inp' axis mt s1' >>= fun x => stepPreds f cfg x.1 x.2) := by
    intro axis mt ψ s1 s1' hs
    refine Sim.bind (nodeTest_sim hg cfg inp inp' axis mt ψ s1 s1' hren hs) ?_ ?_
    · intro a st h b st2 e; exact stepPreds_lparen _ _ _ _ h b st2 e
    · intro opnd st2 opnd' st2' φ' hSR2 hren2 _ hne
      refine (ihPreds opnd opnd' φ' st2 st2' hren2 hSR2).weaken ?_
      rintro (h | h)
      · exact hne (Or.inl h)
      · exact h
  split
  · -- `.` and `..`
    rename_i ht
    have ht : st.s.typ = .dot ∨ st.s.typ = .dotdot := by simpa using ht
    have hn : st.s.typ ≠ .name := by rcases ht with h | h <;> (rw [h]; decide)
    have he : st.s.typ ≠ .eof := by rcases ht with h | h <;> (rw [h]; decide)
    refine SimS.bind (simS_next' h hn he) ?_
    intro st1 st1' hSR
    rw [hSR.typ_eq]
    have hr : Ren g g'
        (if (st.s.typ == Tok.dot) = true then mkAxis "self" .all "" "" "" inp else mkAxis "parent" .all "" "" "" inp)
        (if (st.s.typ == Tok.dot) = true then mkAxis "self" .all "" "" "" inp' else mkAxis "parent" .all "" "" "" inp') := by
      split <;> exact Ren.mkAxis _ _ _ _ _ hren
    have hd : inp ≠ inp' →
        (if (st.s.typ == Tok.dot) = true then mkAxis "self" .all "" "" "" inp else mkAxis "parent" .all "" "" "" inp) ≠
        (if (st.s.typ == Tok.dot) = true then mkAxis "self" .all "" "" "" inp' else mkAxis "parent" .all "" "" "" inp') := by
      intro hne
      split <;> exact mkAxis_ne _ _ _ _ _ hne
    split
    · exact Sim.pure hSR hr hd
    · exact (ihPreds _ _ _ st1 st1' hr hSR).weaken hd
  · split
    · exact ihSeq inp inp' φ st st' hren h
    · rename_i ht
      refine SimS.bind (simS_next' h (by rw [ht]; decide) (by rw [ht]; decide)) ?_
      intro st1 st1' hSR
      exact afterTest _ _ _ st1 st1' hSR
    · rename_i ht
      have hm : φ ≠ some 0 := h.ne_mark (by rw [ht]; decide)
      rw [← (h.obs hm).2.2.1 ht]
      refine SimS.bind (simS_next h hm (by rw [ht]; decide)) ?_
      intro st1 st1' hSR
      exact afterTest _ _ _ st1 st1' hSR
    · exact afterTest _ _ _ st st' h

theorem step_seq {f : Nat} (ihStep : XStep g g' cfg f) (ihSeqLoop : XSeqLoop g g' cfg f) : XSeq g g' cfg (f+1) := by
  intro inp inp' φ st st' hren h
  simp only [parseSequence]
  rw [h.d_eq]
  split
  · exact Sim.err
  · have h1 : SR g g' φ { st with d := st.d + 1 } { st' with d := st.d + 1 } := h.setD _
    refine SimS.bind (simS_skipItem h1 (by decide) (by decide)) ?_
    intro st1 st1' hSR1
    refine Sim.bind (ihStep inp inp' _ st1 st1' hren hSR1) ?_ ?_
    · intro a st h b st2 e
      obtain ⟨⟨c, st3⟩, e1, e2⟩ := bind_ok e
      have := seqLoop_lparen _ _ _ _ _ h c st3 e1
      simp [PState.skipItem, this, bind, Except.bind] at e2
    · intro opnd st2 opnd' st2' φ' hSR2 hren2 _ hne2
      refine Sim.bind (ihSeqLoop inp inp' opnd opnd' φ' st2 st2' hren hren2 hSR2) (by passes_tac) ?_
      intro o3 st3 o3' st3' φ'' hSR3 hren3 _ hne3
      refine SimS.bind (simS_skipItem hSR3 (by decide) (by decide)) ?_
      intro st4 st4' hSR4
      refine Sim.pure ?_ hren3 ?_
      · have := hSR4.setD (st4.d - 1)
        rw [hSR4.d_eq]
        exact this
      · rintro ((h | h) | h)
        · exact hne3 (Or.inl (hne2 (Or.inl h)))
        · exact hne3 (Or.inl h)
        · exact h

theorem step_seqLoop {f : Nat} (ihStep : XStep g g' cfg f) (ihSeqLoop : XSeqLoop g g' cfg f) :
    XSeqLoop g g' cfg (f+1) := by
  intro inp inp' opnd opnd' φ st st' hren hreno h
  simp only [seqLoop]
  rw [h.typ_eq]
  split
  · rename_i ht
    have ht : st.s.typ = .comma := eq_of_beq ht
    refine SimS.bind (simS_next' h (by rw [ht]; decide) (by rw [ht]; decide)) ?_
    intro st1 st1' hSR1
    refine Sim.bind (ihStep inp inp' _ st1 st1' hren hSR1) ?_ ?_
    · intro a st h b st2 e; exact seqLoop_lparen _ _ _ _ _ h b st2 e
    · intro o2 st2 o2' st2' φ' hSR2 hren2 _ _
      refine (ihSeqLoop inp inp' _ _ φ' st2 st2' hren (Ren.oper "|" hreno hren2) hSR2).weaken ?_
      rintro (h | h) e
      · injection e with _ e _; exact h e
      · injection e with _ _ e; exact h e
  · exact Sim.pure h hreno (fun h => h)

def XAll (g g' : String) (cfg : PCfg) (f : Nat) : Prop :=
  XExpr g g' cfg f ∧ XChain g g' cfg f ∧ XTier g g' cfg f ∧ XPath g g' cfg f ∧ XFilter g g' cfg f ∧
  XPred g g' cfg f ∧ XPrimary g g' cfg f ∧ XMethod g g' cfg f ∧ XArgs g g' cfg f ∧ XLoc g g' cfg f ∧
  XRel g g' cfg f ∧ XStep g g' cfg f ∧ XPreds g g' cfg f ∧ XSeq g g' cfg f ∧ XSeqLoop g g' cfg f

theorem all_sim (hne : g ≠ g') (hg : g ∉ nodeTypes) (hg' : g' ∉ nodeTypes) (hK : okStages g g' cfg.chain) :
    ∀ f, XAll g g' cfg f
  | 0 => by
    refine ⟨?_, ?_, ?_, ?_, ?_, ?_, ?_, ?_, ?_, ?_, ?_, ?_, ?_, ?_, ?_⟩ <;> intro <;> intros
    all_goals simp only [parseExpression, parseChain, tierLoop, parsePathExpr, parseFilterExpr, parsePredicate,
      parsePrimary, parseMethod, parseArgs, parseLocationPath, parseRelLoc, parseStep, stepPreds, parseSequence,
      seqLoop]
    all_goals exact Sim.err
  | f+1 => by
    obtain ⟨hExpr, hChain, hTier, hPath, hFilter, hPred, hPrimary, hMethod, hArgs, hLoc, hRel, hStep, hPreds,
      hSeq, hSeqLoop⟩ := all_sim hne hg hg' hK f
    exact ⟨step_expr hK hChain, step_chain hChain hTier hPath, step_tier hChain hTier,
      step_path hg hg' hFilter hRel hLoc, step_filter hPrimary hPreds, step_pred hExpr,
      step_primary hg hg' hExpr hMethod, step_method hne hArgs, step_args hExpr hArgs, step_loc hRel,
      step_rel hRel hStep, step_step hg hSeq hPreds, step_preds hPred hPreds, step_seq hStep hSeqLoop,
      step_seqLoop hStep hSeqLoop⟩

theorem Before.ne_eof {k : Nat} {s s' : Scan} (h : Before g g' k s s') : s.typ ≠ .eof := by
  cases h with
  | mark h1 => rw [h1]; decide
  | step h1 => exact h1

/-- **renaming a function inside a text** (parser level, every fuel and configuration): if the two
token streams agree except for one name token `g` / `g'` directly followed by `(` (`Before`), the
names are different, no node-type names and no operator words of the configuration, and the parser
accepts the first text with tree `t`, then it accepts the second with a tree `t'` that is `t` with
calls of `g` renamed to `g'`, and at least one call is renamed -/
theorem parse_rename (hne : g ≠ g') (hg : g ∉ nodeTypes) (hg' : g' ∉ nodeTypes) (hK : okStages g g' cfg.chain)
    (fuel : Nat) {text text' : List Char} {s s' : Scan} (hi : Scan.init text = .ok s)
    (hi' : Scan.init text' = .ok s') {k : Nat} (hB : Before g g' k s s') {t : Ast}
    (hp : parse fuel cfg text = .ok t) :
    ∃ t', parse fuel cfg text' = .ok t' ∧ Ren g g' t t' ∧ t ≠ t' := by
  unfold parse at hp ⊢
  rw [hi] at hp
  rw [hi']
  dsimp only at hp ⊢
  obtain ⟨⟨a, st1⟩, e1, e2⟩ := bind_ok hp
  have hSR : SR g g' (some k) { s := s, d := 0 } { s := s', d := 0 } := ⟨rfl, hB⟩
  have heof : st1.s.typ = .eof := by
    dsimp only at e2
    split at e2
    · rename_i h; exact eq_of_beq h
    · cases e2
  have ht : a = t := by
    dsimp only at e2
    rw [if_pos (by rw [heof]; rfl)] at e2
    cases e2; rfl
  subst ht
  rcases (all_sim hne hg hg' hK fuel).1 (some k) _ _ hSR a st1 e1 with hs | ⟨a', st1', φ', k1, k2, k3, _, k5⟩
  · rw [heof] at hs; cases hs
  · cases φ' with
    | some j => exact absurd heof (Before.ne_eof k2.2)
    | none =>
      refine ⟨a', ?_, k3, k5 (Or.inr ⟨rfl, rfl⟩)⟩
      rw [k1]
      have : st1'.s.typ = .eof := by rw [k2.typ_eq, heof]
      simp [bind, Except.bind, this, pure, Except.pure]

end

/-! ## 5. a renamed call is a bad node, unless it sits in an argument the builder ignores -/

def isCons : Ast → Bool
  | .acons _ _ => true
  | _ => false

/-- no call passes more arguments than the builder reads for that function (`true(1)`,
`count(a, b)`, `substring(a, 1, 2, 3)` do), and argument lists occur only as argument lists -/
def AllUsed : Ast → Bool
  | .call name _ args => decide (args.argList.length ≤ fnUsed name args.argList.length) && AllUsed args
  | .acons h t => !isCons h && AllUsed h && AllUsed t
  | .axis _ i => !isCons i && AllUsed i
  | .filter i c => !isCons i && !isCons c && AllUsed i && AllUsed c
  | .oper _ l r => !isCons l && !isCons r && AllUsed l && AllUsed r
  | .group x => !isCons x && AllUsed x
  | _ => true

theorem argList_of_not_cons {a : Ast} (h : isCons a = false) : a.argList = [] := by
  cases a <;> first | rfl | simp [isCons] at h

theorem Ren.argList_length {g g' : String} {a a' : Ast} (h : Ren g g' a a') :
    a'.argList.length = a.argList.length := by
  induction h with
  | acons _ _ _ ih => simp [Ast.argList, ih]
  | _ => rfl

theorem bad_of_ren {g g' : String} (hunk : fnArity g' = none) {t t' : Ast} (h : Ren g g' t t') :
    ∀ k, t ≠ t' → AllUsed t = true → t.argList.length ≤ k → Bad t' k = true := by
  induction h with
  | refl t => intro k hne; exact absurd rfl hne
  | call p _ _ => intro k _ _ _; simp [Bad, badCall, hunk]
  | call_args n p hr ih =>
    rename_i args args'
    intro k hne hu _
    simp only [AllUsed, Bool.and_eq_true, decide_eq_true_eq] at hu
    have hne' : args ≠ args' := fun e => hne (by rw [e])
    simp only [Bad, Bool.or_eq_true]
    right
    rw [hr.argList_length]
    exact ih _ hne' hu.2 hu.1
  | axis a hr ih =>
    rename_i i i'
    intro k hne hu _
    simp only [AllUsed, Bool.and_eq_true, Bool.not_eq_true'] at hu
    have hne' : i ≠ i' := fun e => hne (by rw [e])
    simp only [Bad, Bool.or_eq_true]
    right
    exact ih 0 hne' hu.2 (by rw [argList_of_not_cons hu.1]; exact Nat.le_refl _)
  | filter hi hc ihi ihc =>
    rename_i i i' c c'
    intro k hne hu _
    simp only [AllUsed, Bool.and_eq_true, Bool.not_eq_true'] at hu
    simp only [Bad, Bool.or_eq_true]
    by_cases e : i = i'
    · right
      have hne' : c ≠ c' := fun e2 => hne (by rw [e, e2])
      exact ihc k hne' hu.2 (by rw [argList_of_not_cons hu.1.1.2]; exact Nat.zero_le _)
    · left
      exact ihi k e hu.1.2 (by rw [argList_of_not_cons hu.1.1.1]; exact Nat.zero_le _)
  | acons hh ht ihh iht =>
    rename_i h h' t t'
    intro k hne hu hk
    simp only [AllUsed, Bool.and_eq_true, Bool.not_eq_true'] at hu
    simp only [Ast.argList, List.length_cons] at hk
    have hk0 : k ≠ 0 := by omega
    simp only [Bad, Bool.and_eq_true, bne_iff_ne, ne_eq, hk0, not_false_eq_true, true_and, Bool.or_eq_true]
    by_cases e : h = h'
    · right
      have hne' : t ≠ t' := fun e2 => hne (by rw [e, e2])
      exact iht (k - 1) hne' hu.2 (by omega)
    · left
      exact ihh 0 e hu.1.2 (by rw [argList_of_not_cons hu.1.1]; exact Nat.le_refl _)
  | oper op hl hr ihl ihr =>
    rename_i l l' r r'
    intro k hne hu _
    simp only [AllUsed, Bool.and_eq_true, Bool.not_eq_true'] at hu
    simp only [Bad, Bool.or_eq_true]
    by_cases e : l = l'
    · right
      have hne' : r ≠ r' := fun e2 => hne (by rw [e, e2])
      exact ihr 0 hne' hu.2 (by rw [argList_of_not_cons hu.1.1.2]; exact Nat.le_refl _)
    · left
      exact ihl 0 e hu.1.2 (by rw [argList_of_not_cons hu.1.1.1]; exact Nat.le_refl _)
  | group hx ih =>
    rename_i x x'
    intro k hne hu _
    simp only [AllUsed, Bool.and_eq_true, Bool.not_eq_true'] at hu
    have hne' : x ≠ x' := fun e => hne (by rw [e])
    simp only [Bad]
    exact ih 0 hne' hu.2 (by rw [argList_of_not_cons hu.1]; exact Nat.le_refl _)

/-- **tree level**: rename calls of `g` to an unknown name `g'` (at least one) in a tree that
passes no superfluous arguments — the result has a bad node where the builder looks -/
theorem badNode_of_ren {g g' : String} (hunk : fnArity g' = none) {t t' : Ast} (h : Ren g g' t t') (hne : t ≠ t')
    (hu : AllUsed t = true) (hc : isCons t = false) : BadNode t' = true :=
  bad_of_ren hunk h 0 hne hu (by rw [argList_of_not_cons hc]; exact Nat.le_refl _)

end XPathV.BuildRejects
