import XPathV.Lemmas.PredSem.Build
import XPathV.Lemmas.SourceConfig
/-!
# C02 — boolean predicates keep exactly the nodes for which the predicate is true

Extends `PathSem.C01_main` (predicate-free paths) to paths whose steps carry boolean-valued
predicates — first for *naive* plans (`predPlan`: no builder rewrite), then for the plans `build`
makes (all rewrites, including the merge rewrite of `processFilter`).

Helper files under `XPathV/Lemmas/PredSem/`:

* `Filter`   — `sel_filter_bool` (model `.filter` arm of `sel`), `filterPos_bool` (oracle `filterPos`)
* `Truth`    — `PathOK`, `PredOK` and the per-constructor truth lemmas `predOK_*`
* `Path`     — `pathOK_axis`, `filter_sem`, `pathOK_filter`, `holds`
* `Frag`     — the fragments `PredB` (task statement: predicates over predicate-free paths) and `Frag`
               (predicates on every step, stacked, nested), `predPlan`, `frag_sem`, `pred_truth`,
               `filtered_step_sem`, `C02_naive`, `C02_filter_keeps_true`
* `BuildInv` — inversion of `build` on the constructors of the fragment (`build_filter_inv`, …)
* `BuildSem` — `rel_filter`, `merge_sem` (the merge rewrite preserves the node set), plan shapes
* `Build`    — `build_frag` (induction over the fragment for `build`)

This file: the end-to-end statements for `build` (`C02_main`, `C02_evalTop`, `C02_source_config`,
`C02_main_keeps_true`) and the axiom audit.

Standing assumptions as for C01: `WF d`, `cfg.nsIface = true`, `HashInj d cfg`; the builder runs with
the `//name` shortcut guarded by the node test and `smartDescThroughFilter = false` (both are the
values read off the source, `Lemmas.SourceConfig`).
-/
namespace XPathV.PredSem
open XPathV XPathV.Model XPathV.PathSem

variable {F : Type} [NumAlg F]

/-- **C02 for `build`**: for every well-formed document, every valid context node and every path of
the fragment `Frag` — location paths over the twelve axes whose steps carry any number of
boolean-valued predicates (existence tests, comparisons of a path with a string or number literal,
`not`, `and`, `or`, nested arbitrarily) — the plan the builder produces, with all its rewrites,
yields exactly the XPath 1.0 node-set of the path; neither side fails -/
theorem C02_main {d : Doc} (wf : WF d) (cfg : ECfg) (hns : cfg.nsIface = true)
    (hinj : HashInj d cfg) (regexOk : RegexOk) (limit : Nat) (p : Ast) (hp : Frag true p)
    (st : BState) (o : BOut) (hb : build regexOk limit true false p {} st = .ok o)
    (c : Ref) (hc : validRef d c = true) :
    ∃ out ns g, sel (F := F) d cfg o.q c = .ok out ∧
      Spec.eval (F := F) d p ⟨c, 1, 1⟩ = .ok (.val (.nodes ns) g) ∧
      ∀ x, x ∈ refs out ↔ x ∈ ns := by
  obtain ⟨_, _, hrel⟩ :=
    ((build_frag (F := F) wf cfg hns hinj regexOk limit true p hp).1 rfl).1 {} st o hb
  obtain ⟨out, nv, h1, h2, _, heq, _⟩ := hrel c hc
  obtain ⟨nv', ns, g, h2', hev, hmem, _⟩ := C02_naive (F := F) wf cfg hns hinj p hp c hc
  rw [h2] at h2'; cases h2'
  exact ⟨out, ns, g, h1, hev, fun x => (heq rfl x).trans (hmem x)⟩

/-- C02 against the top-level oracle `evalTop` -/
theorem C02_evalTop {d : Doc} (wf : WF d) (cfg : ECfg) (hns : cfg.nsIface = true)
    (hinj : HashInj d cfg) (regexOk : RegexOk) (limit : Nat) (p : Ast) (hp : Frag true p)
    (st : BState) (o : BOut) (hb : build regexOk limit true false p {} st = .ok o)
    (c : Ref) (hc : validRef d c = true) :
    ∃ out ns, sel (F := F) d cfg o.q c = .ok out ∧
      Spec.evalTop (F := F) d p c = .ok (.nodes ns) ∧ ∀ x, x ∈ refs out ↔ x ∈ ns := by
  obtain ⟨out, ns, g, h1, h2, h3⟩ := C02_main (F := F) wf cfg hns hinj regexOk limit p hp st o hb c hc
  refine ⟨out, ns, h1, ?_, h3⟩
  simp [Spec.evalTop, h2, bind, Except.bind, pure, Except.pure, Spec.Res.value]

/-- C02 at the configuration the model reads off the source -/
theorem C02_source_config {d : Doc} (wf : WF d) (cfg : ECfg) (hns : cfg.nsIface = true)
    (hinj : HashInj d cfg) (regexOk : RegexOk) (limit : Nat) (p : Ast) (hp : Frag true p) (o : BOut)
    (hb : build regexOk limit shortcutNeedsNodeTestFromSource smartDescThroughFilterFromSource p {} {} = .ok o)
    (c : Ref) (hc : validRef d c = true) :
    ∃ out ns, sel (F := F) d cfg o.q c = .ok out ∧
      Spec.evalTop (F := F) d p c = .ok (.nodes ns) ∧ ∀ x, x ∈ refs out ↔ x ∈ ns := by
  rw [Lemmas.SourceConfig.shortcut_guard_from_source,
    Lemmas.SourceConfig.smartdesc_stops_at_filters_from_source] at hb
  exact C02_evalTop wf cfg hns hinj regexOk limit p hp {} o hb c hc

/-- **C02 for `build`, the property itself**: the built plan of `p[b]` selects exactly the nodes
the built plan of `p` selects at which `b` is true (`holds`: `boolean()` of the oracle's value of
`b` at that node) — and these are the oracle's node sets of `p[b]` and `p` -/
theorem C02_main_keeps_true {d : Doc} (wf : WF d) (cfg : ECfg) (hns : cfg.nsIface = true)
    (hinj : HashInj d cfg) (regexOk : RegexOk) (limit : Nat) (p b : Ast) (hp : Frag true p)
    (hb : Frag false b) (st0 st : BState) (o0 o : BOut)
    (hb0 : build regexOk limit true false p {} st0 = .ok o0)
    (hb1 : build regexOk limit true false (.filter p b) {} st = .ok o)
    (c : Ref) (hc : validRef d c = true) :
    ∃ out0 ns0 g0 out ns g,
      sel (F := F) d cfg o0.q c = .ok out0 ∧
      Spec.eval (F := F) d p ⟨c, 1, 1⟩ = .ok (.val (.nodes ns0) g0) ∧
      (∀ x, x ∈ refs out0 ↔ x ∈ ns0) ∧
      sel (F := F) d cfg o.q c = .ok out ∧
      Spec.eval (F := F) d (.filter p b) ⟨c, 1, 1⟩ = .ok (.val (.nodes ns) g) ∧
      (∀ x, x ∈ refs out ↔ x ∈ ns) ∧
      (∀ x, x ∈ refs out ↔ x ∈ refs out0 ∧ holds (F := F) d b x = true) ∧
      (∀ x, x ∈ ns ↔ x ∈ ns0 ∧ holds (F := F) d b x = true) := by
  obtain ⟨out0, ns0, g0, hs0, he0, hm0⟩ :=
    C02_main (F := F) wf cfg hns hinj regexOk limit p hp st0 o0 hb0 c hc
  obtain ⟨out, ns, g, hs, he, hm⟩ :=
    C02_main (F := F) wf cfg hns hinj regexOk limit (.filter p b) (.filter p b hp hb) st o hb1 c hc
  obtain ⟨_, ns0', _, _, ns', _, _, he0', _, _, he', _, hchar, _⟩ :=
    C02_filter_keeps_true (F := F) wf cfg hns hinj p b hp hb c hc
  rw [he0] at he0'; cases he0'
  rw [he] at he'; cases he'
  refine ⟨out0, ns0, g0, out, ns, g, hs0, he0, hm0, hs, he, hm, fun x => ?_, hchar⟩
  rw [hm, hchar, hm0]

/-! ## Non-vacuity: the builder succeeds on the fragment, and the merge rewrite does fire -/

section Examples

private def ch (n : String) : AxisInfo := ⟨"child", .elem, "", n, "", false, ""⟩

/-- `/a/b[not(c)]` as the parser produces it -/
def exNot : Ast :=
  .filter (.axis (ch "b") (.axis (ch "a") (.root "/")))
    (.call "not" "" (.acons (.axis (ch "c") .none) .anil))

theorem exNot_frag : Frag true exNot :=
  .filter _ _ (.axis _ _ (.axis _ _ (.root _) (by simp [axes12, ch])) (by simp [axes12, ch]))
    (.not _ _ (.exist _ (.axis _ _ .none (by simp [axes12, ch]))))

/-- the builder turns it into the merge form -/
theorem exNot_build : (build (fun _ => true) 100 true false exNot {} {}).map (·.q) =
    .ok (.merge (.child (ch "a") .absolute)
      (.filter (.child (ch "b") .context)
        (.func "not" .nil (.pcons (.child (ch "c") .context) .pnil)))) := rfl

/-- `a[b = 'x'][c or 3 < @d]/e` -/
def exStack : Ast :=
  .axis (ch "e") (.filter (.filter (.axis (ch "a") .none)
      (.oper "=" (.axis (ch "b") .none) (.str "x")))
    (.oper "or" (.axis (ch "c") .none)
      (.oper "<" (.num "3") (.axis ⟨"attribute", .attr, "", "d", "", false, ""⟩ .none))))

theorem exStack_frag : Frag true exStack :=
  .axis _ _ (.filter _ _ (.filter _ _ (.axis _ _ .none (by simp [axes12, ch]))
      (.eqStr _ _ (.axis _ _ .none (by simp [axes12, ch]))))
    (.or _ _ (.exist _ (.axis _ _ .none (by simp [axes12, ch])))
      (.cmpNumL _ _ _ (by simp [cmpOps]) (.axis _ _ .none (by simp [axes12])))))
    (by simp [axes12, ch])

theorem exStack_build : ∃ o, build (fun _ => true) 100 true false exStack {} {} = .ok o := ⟨_, rfl⟩

/-- the main theorem applied: no hypothesis left but the standing ones -/
example {d : Doc} (wf : WF d) (cfg : ECfg) (hns : cfg.nsIface = true) (hinj : HashInj d cfg)
    (c : Ref) (hc : validRef d c = true) :
    ∃ out ns, sel (F := F) d cfg (.merge (.child (ch "a") .absolute)
        (.filter (.child (ch "b") .context)
          (.func "not" .nil (.pcons (.child (ch "c") .context) .pnil)))) c = .ok out ∧
      Spec.evalTop (F := F) d exNot c = .ok (.nodes ns) ∧ ∀ x, x ∈ refs out ↔ x ∈ ns := by
  cases hb : build (fun _ => true) 100 true false exNot {} {} with
  | error e => have := exNot_build; rw [hb] at this; cases this
  | ok o =>
    have hq := exNot_build; rw [hb] at hq
    simp only [Except.map, Except.ok.injEq] at hq
    rw [← hq]
    exact C02_evalTop wf cfg hns hinj _ 100 exNot exNot_frag {} o hb c hc

end Examples

end XPathV.PredSem

/-! ## Axiom audit -/
section AxiomAudit
open XPathV.PredSem
end AxiomAudit
