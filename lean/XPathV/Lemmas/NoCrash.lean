import XPathV.Model.Engine
/-!
# C15 (model level): a clean plan never ends in a Go runtime error
-/
namespace XPathV.Model
open XPathV NumAlg

/-! ## Syntactic predicates on plans -/

mutual
/-- no `.nil`, no `round`, argument lists only below `.func` -/
def Plan.clean : Plan → Bool
  | .nil => false
  | .context => true
  | .absolute => true
  | .ancestor _ _ i => i.clean
  | .attr _ i => i.clean
  | .child _ i => i.clean
  | .cachedChild _ i => i.clean
  | .descendant _ _ i => i.clean
  | .following _ _ i => i.clean
  | .preceding _ _ i => i.clean
  | .parent _ i => i.clean
  | .self _ i => i.clean
  | .filter i p => i.clean && p.clean
  | .func name _ args => name != "round" && args.cleanArgs
  | .pnil => false
  | .pcons _ _ => false
  | .transform _ i => i.clean
  | .constStr _ => true
  | .constNum _ => true
  | .group i => i.clean
  | .logical _ l r => l.clean && r.clean
  | .numeric _ l r => l.clean && r.clean
  | .boolean _ l r => l.clean && r.clean
  | .union l r => l.clean && r.clean
  | .lastFunc i => i.clean
  | .descOverDesc _ _ i => i.clean
  | .merge i c => i.clean && c.clean
/-- an argument list (anything that is not a `pcons` is the empty list for `argVals`) -/
def Plan.cleanArgs : Plan → Bool
  | .pcons h t => h.clean && t.cleanArgs
  | _ => true
end

variable {F : Type} [NumAlg F]

/-- a value of a documented XPath type -/
def MVal.ok : MVal F → Bool
  | .int _ => false
  | .nilv => false
  | _ => true

/-- anything but a Go `int` -/
def MVal.notInt : MVal F → Bool
  | .int _ => false
  | _ => true

theorem MVal.ok_notInt {v : MVal F} (h : v.ok = true) : v.notInt = true := by
  cases v <;> simp_all [MVal.ok, MVal.notInt]

/-! ## Outcome predicate: not a crash, and `P` on a value -/

def Sat {α : Type} (P : α → Prop) : Except EErr α → Prop
  | .error (.crash _) => False
  | .error _ => True
  | .ok v => P v

theorem Sat.ok {α} {P : α → Prop} {v : α} (h : P v) : Sat P (.ok v : Except EErr α) := h
theorem Sat.pure {α} {P : α → Prop} {v : α} (h : P v) : Sat P (Pure.pure v : Except EErr α) := h
theorem Sat.raised {α} {P : α → Prop} (s) : Sat P (.error (.raised s) : Except EErr α) := trivial
theorem Sat.unmodelled {α} {P : α → Prop} (s) : Sat P (.error (.unmodelled s) : Except EErr α) := trivial

theorem Sat.mono {α} {P Q : α → Prop} {x : Except EErr α} (h : Sat P x) (hpq : ∀ v, P v → Q v) : Sat Q x := by
  cases x with
  | error e => cases e <;> simp_all [Sat]
  | ok v => exact hpq v h

theorem Sat.bind {α β} {P : α → Prop} {Q : β → Prop} {x : Except EErr α} {f : α → Except EErr β}
    (hx : Sat P x) (hf : ∀ v, P v → Sat Q (f v)) : Sat Q (x >>= f) := by
  cases x with
  | error e => cases e <;> simp_all [Sat, Bind.bind, Except.bind]
  | ok v => exact hf v hx

theorem Sat.noCrash {α} {P : α → Prop} {x : Except EErr α} (h : Sat P x) : ∀ k, x ≠ .error (.crash k) := by
  intro k hk; subst hk; exact h

theorem Sat.val {α} {P : α → Prop} {x : Except EErr α} (h : Sat P x) : ∀ v, x = .ok v → P v := by
  intro v hv; subst hv; exact h

theorem Sat.intro {α} {P : α → Prop} {x : Except EErr α} (h1 : ∀ k, x ≠ .error (.crash k))
    (h2 : ∀ v, x = .ok v → P v) : Sat P x := by
  cases x with
  | error e => cases e <;> simp_all [Sat]
  | ok v => exact h2 v rfl

theorem Sat.mapM {α β} {P : β → Prop} (f : α → Except EErr β) (l : List α)
    (h : ∀ a ∈ l, Sat P (f a)) : Sat (fun bs => ∀ b ∈ bs, P b) (l.mapM f) := by
  induction l with
  | nil => simp [Sat, Pure.pure, Except.pure]
  | cons a l ih =>
    rw [List.mapM_cons]
    refine Sat.bind (h a (by simp)) fun b hb => ?_
    refine Sat.bind (ih fun a' ha' => h a' (by simp [ha'])) fun bs hbs => ?_
    apply Sat.pure
    intro b' hb'
    cases hb' with
    | head => exact hb
    | tail _ hm => exact hbs _ hm

theorem asBoolM_sat {v : MVal F} (h : v.notInt = true) : Sat (fun _ => True) (asBoolM v) := by
  cases v <;> first | exact Sat.ok trivial | cases h

theorem asStringM_sat (d : Doc) {v : MVal F} (h : v.notInt = true) : Sat (fun _ => True) (asStringM d v) := by
  cases v <;> first | exact Sat.ok trivial | cases h

macro "sat_fin" : tactic =>
  `(tactic| first | exact Sat.ok rfl | exact Sat.raised _ | exact Sat.unmodelled _ | exact Sat.ok trivial
                  | exact Sat.pure trivial)

set_option hygiene false in
macro "sat_auto" : tactic => `(tactic| repeat' (first
  | sat_fin
  | exact hsec _
  | refine Sat.bind (harg _) fun _ _ => ?_
  | refine Sat.bind (hsof _ _ (by sat_fin)) fun _ _ => ?_
  | refine Sat.bind (asStringM_sat d (by assumption)) fun _ _ => ?_
  | refine Sat.bind (asBoolM_sat (by assumption)) fun _ _ => ?_
  | refine Sat.bind (Sat.pure (P := fun v => MVal.notInt v = true) rfl) fun _ _ => ?_
  | split
  | (extract_lets _x; clear_value _x)))

theorem callFn_sat (d : Doc) (cfg : ECfg) (name : String) (fi : Plan) (c : Ref)
    (args : List (Except EErr (MVal F))) (asel : Option (List Ref))
    (hargs : ∀ a ∈ args, Sat (fun v => v.notInt = true) a) (hname : name ≠ "round") :
    Sat (fun v => v.ok = true) (callFn d cfg name fi c args asel) := by
  unfold callFn
  extract_lets +onlyGivenNames arg strOrFirst secondArg
  have harg : ∀ i, Sat (fun v => v.notInt = true) (arg i) := by
    intro i
    show Sat _ (args[i]?.getD (Except.ok MVal.nilv))
    cases h : args[i]? with
    | none => exact Sat.ok rfl
    | some a => exact hargs a (List.mem_of_getElem? h)
  have hsof : ∀ v other, Sat (fun _ => True) other → Sat (fun _ => True) (strOrFirst v other) := by
    intro v other ho
    show Sat _ (match v with | MVal.str s => _ | MVal.nodes [] => _ | MVal.nodes (r :: tail) => _ | x => _)
    split <;> first | exact Sat.ok trivial | exact ho
  have hsec : ∀ m, Sat (fun v => v.ok = true) (secondArg m) := by
    intro m
    refine Sat.bind (harg 1) fun v _ => ?_
    refine Sat.bind (hsof _ _ (by sat_fin)) fun _ _ => ?_
    repeat' (first | sat_fin | split)
  clear_value arg strOrFirst secondArg
  split
  case h_9 => exact absurd rfl hname
  case h_28 =>
    refine Sat.bind (Sat.mapM (P := fun _ => True) _ _ fun a ha => ?_) fun _ _ => ?_
    · refine Sat.bind (hargs a ha) fun _ _ => ?_
      sat_auto
    · sat_fin
  all_goals try dsimp only
  all_goals (sat_auto; done)

theorem cmpM_sat (d : Doc) (op : Spec.CmpOp) {m n : MVal F} (hm : m.ok = true) (hn : n.ok = true) :
    Sat (fun _ => True) (cmpM d op m n) := by
  cases m <;> cases n <;> first | (cases hm; done) | (cases hn; done) |
    (cases op <;> simp [cmpM, xtypeOf, asBoolM, numBesideBoolM, Spec.CmpOp.isRel, bind, Except.bind, pure,
      Except.pure, Sat])

theorem logicalVal_sat (d : Doc) (op : String) {m n : MVal F} (hm : m.ok = true) (hn : n.ok = true) :
    Sat (fun v => v.ok = true) (logicalVal d op m n) := by
  unfold logicalVal
  split
  · exact Sat.bind (cmpM_sat d _ hm hn) fun _ _ => Sat.ok rfl
  · exact Sat.unmodelled _

/-- the combined statement of the induction -/
def Safe (d : Doc) (cfg : ECfg) (F : Type) [NumAlg F] (p : Plan) : Prop :=
  (p.clean = true → ∀ c, Sat (fun _ => True) (sel (F := F) d cfg p c) ∧
      Sat (fun v => v.ok = true) (evalP (F := F) d cfg p c)) ∧
  (p.cleanArgs = true → ∀ c,
      Sat (fun l => ∀ a ∈ l, Sat (fun v => v.ok = true) a) (argVals (F := F) d cfg p c) ∧
      ∀ h t, p = .pcons h t → Sat (fun _ => True) (sel (F := F) d cfg h c))

set_option hygiene false in
/-- a step query: `sel` maps over its input, `evalP` is the default arm -/
macro "axis_case" : tactic => `(tactic| (
  refine ⟨fun hc c => ?_, fun _ c => ⟨by simp only [argVals]; exact Sat.ok (fun _ h => nomatch h), fun _ _ h => nomatch h⟩⟩
  simp only [Plan.clean] at hc
  have hi := (ih.1 hc c).1
  refine ⟨?_, ?_⟩
  · simp only [sel]; exact Sat.bind hi fun _ _ => Sat.ok trivial
  · simp only [evalP]; refine Sat.bind (P := fun _ => True) ?_ fun _ _ => Sat.ok rfl
    simp only [sel]; exact Sat.bind hi fun _ _ => Sat.ok trivial))

macro "noargs" : tactic => `(tactic|
  exact fun _ c => ⟨by simp only [argVals]; exact Sat.ok (fun _ h => nomatch h), fun _ _ h => nomatch h⟩)

theorem safe (d : Doc) (cfg : ECfg) (p : Plan) : Safe d cfg F p := by
  unfold Safe
  induction p with
  | nil => exact ⟨fun hc => by simp [Plan.clean] at hc, by noargs⟩
  | pnil => exact ⟨fun hc => by simp [Plan.clean] at hc, by noargs⟩
  | context =>
    refine ⟨fun _ c => ?_, by noargs⟩
    simp only [evalP, sel]
    exact ⟨Sat.ok trivial, Sat.bind (P := fun _ => True) (Sat.ok trivial) fun _ _ => Sat.ok rfl⟩
  | absolute =>
    refine ⟨fun _ c => ?_, by noargs⟩
    simp only [evalP, sel]
    exact ⟨Sat.ok trivial, Sat.bind (P := fun _ => True) (Sat.ok trivial) fun _ _ => Sat.ok rfl⟩
  | constStr s =>
    refine ⟨fun _ c => ?_, by noargs⟩
    simp only [evalP, sel]
    exact ⟨Sat.ok trivial, Sat.ok rfl⟩
  | constNum s =>
    refine ⟨fun _ c => ?_, by noargs⟩
    simp only [evalP, sel]
    exact ⟨Sat.ok trivial, Sat.ok rfl⟩
  | ancestor a s inp ih => axis_case
  | attr a inp ih => axis_case
  | child a inp ih => axis_case
  | cachedChild a inp ih => axis_case
  | descendant a s inp ih => axis_case
  | following a s inp ih => axis_case
  | preceding a s inp ih => axis_case
  | parent a inp ih => axis_case
  | self a inp ih => axis_case
  | transform n inp ih => axis_case
  | descOverDesc a m inp ih => axis_case
  | group inp ih =>
    refine ⟨fun hc c => ?_, by noargs⟩
    simp only [Plan.clean] at hc
    refine ⟨?_, ?_⟩
    · simp only [sel]; exact Sat.bind (ih.1 hc c).1 fun _ _ => Sat.ok trivial
    · simp only [evalP]; exact (ih.1 hc c).2
  | lastFunc inp ih =>
    refine ⟨fun hc c => ?_, by noargs⟩
    simp only [Plan.clean] at hc
    refine ⟨?_, ?_⟩
    · simp only [sel]; exact Sat.ok trivial
    · simp only [evalP]; exact Sat.bind (ih.1 hc c).1 fun _ _ => Sat.ok rfl
  | pcons h t ihh iht =>
    refine ⟨fun hc => by simp [Plan.clean] at hc, fun hc c => ?_⟩
    simp only [Plan.cleanArgs, Bool.and_eq_true] at hc
    refine ⟨?_, ?_⟩
    · simp only [argVals]
      refine Sat.bind (iht.2 hc.2 c).1 fun rest hrest => Sat.ok ?_
      intro a ha
      cases ha with
      | head => exact (ihh.1 hc.1 c).2
      | tail _ hm => exact hrest a hm
    · intro h' t' e
      cases e
      exact (ihh.1 hc.1 c).1
  | union l r ihl ihr =>
    refine ⟨fun hc c => ?_, by noargs⟩
    simp only [Plan.clean, Bool.and_eq_true] at hc
    have hs : Sat (fun _ => True) (sel (F := F) d cfg (.union l r) c) := by
      simp only [sel]
      exact Sat.bind (ihl.1 hc.1 c).1 fun _ _ => Sat.bind (ihr.1 hc.2 c).1 fun _ _ => Sat.ok trivial
    refine ⟨hs, ?_⟩
    simp only [evalP]; exact Sat.bind hs fun _ _ => Sat.ok rfl
  | merge inp ch ihi ihc =>
    refine ⟨fun hc c => ?_, by noargs⟩
    simp only [Plan.clean, Bool.and_eq_true] at hc
    have hs : Sat (fun _ => True) (sel (F := F) d cfg (.merge inp ch) c) := by
      simp only [sel]
      refine Sat.bind (ihi.1 hc.1 c).1 fun ins _ => ?_
      refine Sat.bind (Sat.mapM (P := fun _ => True) _ ins fun it _ => (ihc.1 hc.2 it.r).1) fun _ _ => ?_
      exact Sat.ok trivial
    refine ⟨hs, ?_⟩
    simp only [evalP]; exact Sat.bind hs fun _ _ => Sat.ok rfl
  | filter inp pred ihi ihp =>
    refine ⟨fun hc c => ?_, by noargs⟩
    simp only [Plan.clean, Bool.and_eq_true] at hc
    have hs : Sat (fun _ => True) (sel (F := F) d cfg (.filter inp pred) c) := by
      simp only [sel]
      refine Sat.bind (ihi.1 hc.1 c).1 fun ins _ => ?_
      refine Sat.bind (Sat.mapM (P := fun _ => True) _ ins fun it _ => ?_) fun _ _ => Sat.ok trivial
      refine Sat.bind (ihp.1 hc.2 it.r).2 fun v _ => ?_
      split
      all_goals first
        | exact Sat.pure trivial
        | exact Sat.bind (ihp.1 hc.2 it.r).1 fun _ _ => Sat.pure trivial
    refine ⟨hs, ?_⟩
    simp only [evalP]; exact Sat.bind hs fun _ _ => Sat.ok rfl
  | logical op l r ihl ihr =>
    refine ⟨fun hc c => ?_, by noargs⟩
    simp only [Plan.clean, Bool.and_eq_true] at hc
    refine ⟨?_, ?_⟩
    · simp only [sel]
      refine Sat.bind (ihl.1 hc.1 c).2 fun m hm => Sat.bind (ihr.1 hc.2 c).2 fun n hn => ?_
      refine Sat.bind (logicalVal_sat d op hm hn) fun v _ => ?_
      split <;> exact Sat.ok trivial
    · simp only [evalP]
      exact Sat.bind (ihl.1 hc.1 c).2 fun m hm => Sat.bind (ihr.1 hc.2 c).2 fun n hn =>
        logicalVal_sat d op hm hn
  | numeric op l r ihl ihr =>
    refine ⟨fun hc c => ?_, by noargs⟩
    simp only [Plan.clean, Bool.and_eq_true] at hc
    refine ⟨?_, ?_⟩
    · simp only [sel]; exact Sat.ok trivial
    · simp only [evalP]
      refine Sat.bind (ihl.1 hc.1 c).2 fun m hm => Sat.bind (ihr.1 hc.2 c).2 fun n hn => ?_
      split <;> sat_fin
  | boolean isOr l r ihl ihr =>
    refine ⟨fun hc c => ?_, by noargs⟩
    simp only [Plan.clean, Bool.and_eq_true] at hc
    refine ⟨?_, ?_⟩
    · simp only [sel]
      refine Sat.bind (ihl.1 hc.1 c).1 fun _ _ => Sat.bind (ihr.1 hc.2 c).1 fun _ _ => ?_
      split <;> exact Sat.ok trivial
    · simp only [evalP]
      refine Sat.bind (ihl.1 hc.1 c).2 fun m hm => ?_
      refine Sat.bind (asBoolM_sat (MVal.ok_notInt hm)) fun _ _ => ?_
      split
      · sat_fin
      · split
        · sat_fin
        · refine Sat.bind (ihr.1 hc.2 c).2 fun n hn => ?_
          exact Sat.bind (asBoolM_sat (MVal.ok_notInt hn)) fun _ _ => Sat.ok rfl
  | func name fi args _ iha =>
    refine ⟨fun hc c => ?_, by noargs⟩
    simp only [Plan.clean, Bool.and_eq_true, bne_iff_ne, ne_eq] at hc
    refine ⟨?_, ?_⟩
    · simp only [sel]; exact Sat.ok trivial
    · simp only [evalP]
      have ha := iha.2 hc.2 c
      refine Sat.bind ha.1 fun avs havs => ?_
      have hcall : ∀ asel, Sat (fun v => v.ok = true) (callFn d cfg name fi c avs asel) := fun asel =>
        callFn_sat d cfg name fi c avs asel (fun a h => (havs a h).mono fun v => MVal.ok_notInt) hc.1
      split
      · split
        · refine Sat.bind (P := fun _ => True) ?_ fun asel _ => hcall asel
          exact Sat.bind (ha.2 _ _ rfl) fun _ _ => Sat.pure trivial
        · exact Sat.bind (P := fun _ => True) (Sat.pure trivial) fun asel _ => hcall asel
      · exact Sat.bind (P := fun _ => True) (Sat.pure trivial) fun asel _ => hcall asel

/-! ## The requested forms -/

/-- value invariant: a clean plan never evaluates to a Go `int` or to `nil` -/
theorem evalP_value_ok (d : Doc) (cfg : ECfg) (p : Plan) (c : Ref) (hp : p.clean = true) (v : MVal F)
    (h : evalP (F := F) d cfg p c = .ok v) : v.ok = true :=
  ((safe (F := F) d cfg p).1 hp c).2.val v h

theorem evalP_not_int (d : Doc) (cfg : ECfg) (p : Plan) (c : Ref) (hp : p.clean = true) (v : MVal F)
    (h : evalP (F := F) d cfg p c = .ok v) : (∀ i, v ≠ .int i) ∧ v ≠ .nilv := by
  have := evalP_value_ok d cfg p c hp v h
  cases v <;> simp_all [MVal.ok]

/-- `argVals` itself never fails (each argument carries its own outcome) -/
theorem argVals_total (d : Doc) (cfg : ECfg) (args : Plan) (c : Ref) :
    ∃ l, argVals (F := F) d cfg args c = .ok l := by
  induction args with
  | pcons h t _ iht =>
    obtain ⟨l, hl⟩ := iht
    exact ⟨evalP d cfg h c :: l, by simp only [argVals, hl]; rfl⟩
  | _ => exact ⟨[], by simp only [argVals]⟩

/-- every argument value of a clean argument list is a non-crash outcome of a documented type -/
theorem argVals_ok (d : Doc) (cfg : ECfg) (args : Plan) (c : Ref) (hp : args.cleanArgs = true) :
    ∃ l, argVals (F := F) d cfg args c = .ok l ∧
      ∀ a ∈ l, (∀ k, a ≠ .error (.crash k)) ∧ ∀ v, a = .ok v → v.ok = true := by
  have h := ((safe (F := F) d cfg args).2 hp c).1
  obtain ⟨l, hl⟩ := argVals_total (F := F) d cfg args c
  rw [hl] at h
  exact ⟨l, hl, fun a ha => ⟨(h a ha).noCrash, (h a ha).val⟩⟩

theorem cmpM_no_crash (d : Doc) (op : Spec.CmpOp) (m n : MVal F) (hm : m.ok = true) (hn : n.ok = true) :
    ∀ k, cmpM d op m n ≠ .error (.crash k) :=
  (cmpM_sat d op hm hn).noCrash

theorem callFn_no_crash (d : Doc) (cfg : ECfg) (name : String) (fi : Plan) (c : Ref)
    (args : List (Except EErr (MVal F))) (asel : Option (List Ref))
    (h1 : ∀ a ∈ args, ∀ k, a ≠ .error (.crash k))
    (h2 : ∀ a ∈ args, ∀ v, a = .ok v → ∀ i, v ≠ .int i)
    (hname : name ≠ "round") :
    ∀ k, callFn d cfg name fi c args asel ≠ .error (.crash k) := by
  refine (callFn_sat d cfg name fi c args asel (fun a ha => Sat.intro (h1 a ha) fun v hv => ?_) hname).noCrash
  have := h2 a ha v hv
  cases v <;> simp_all [MVal.notInt]

/-- a function other than `round` never returns a Go `int` (nor `nil`) -/
theorem callFn_value_ok (d : Doc) (cfg : ECfg) (name : String) (fi : Plan) (c : Ref)
    (args : List (Except EErr (MVal F))) (asel : Option (List Ref))
    (h1 : ∀ a ∈ args, ∀ k, a ≠ .error (.crash k))
    (h2 : ∀ a ∈ args, ∀ v, a = .ok v → ∀ i, v ≠ .int i)
    (hname : name ≠ "round") (v : MVal F) (h : callFn d cfg name fi c args asel = .ok v) : v.ok = true := by
  refine (callFn_sat d cfg name fi c args asel (fun a ha => Sat.intro (h1 a ha) fun v hv => ?_) hname).val v h
  have := h2 a ha v hv
  cases v <;> simp_all [MVal.notInt]

/-- **C15 at the model level**: a clean plan never ends in a Go runtime error, for every numeric
algebra, every document (no well-formedness), every configuration and context -/
theorem no_crash (d : Doc) (cfg : ECfg) (p : Plan) (c : Ref) (hp : p.clean = true) :
    (∀ k, sel (F := F) d cfg p c ≠ .error (.crash k)) ∧ (∀ k, evalP (F := F) d cfg p c ≠ .error (.crash k)) :=
  ⟨((safe (F := F) d cfg p).1 hp c).1.noCrash, ((safe (F := F) d cfg p).1 hp c).2.noCrash⟩

/-! ## Builder side: no `.nil` in built plans -/

/-- no `.nil` anywhere, except as the never-evaluated `firstInput` field of a `func` -/
def Plan.noNil : Plan → Bool
  | .nil => false
  | .context => true
  | .absolute => true
  | .ancestor _ _ i => i.noNil
  | .attr _ i => i.noNil
  | .child _ i => i.noNil
  | .cachedChild _ i => i.noNil
  | .descendant _ _ i => i.noNil
  | .following _ _ i => i.noNil
  | .preceding _ _ i => i.noNil
  | .parent _ i => i.noNil
  | .self _ i => i.noNil
  | .filter i p => i.noNil && p.noNil
  | .func _ fi args => (fi == .nil || fi.noNil) && args.noNil
  | .pnil => true
  | .pcons h t => h.noNil && t.noNil
  | .transform _ i => i.noNil
  | .constStr _ => true
  | .constNum _ => true
  | .group i => i.noNil
  | .logical _ l r => l.noNil && r.noNil
  | .numeric _ l r => l.noNil && r.noNil
  | .boolean _ l r => l.noNil && r.noNil
  | .union l r => l.noNil && r.noNil
  | .lastFunc i => i.noNil
  | .descOverDesc _ _ i => i.noNil
  | .merge i c => i.noNil && c.noNil

def knownOp (op : String) : Bool :=
  op == "+" || op == "-" || op == "*" || op == "div" || op == "mod" ||
  op == "=" || op == ">" || op == ">=" || op == "<" || op == "<=" || op == "!=" ||
  op == "or" || op == "and" || op == "|"

/-- every operator node carries one of the 14 operator strings the parser produces -/
def _root_.XPathV.Ast.opsKnown : Ast → Bool
  | .oper op l r => knownOp op && l.opsKnown && r.opsKnown
  | .axis _ i => i.opsKnown
  | .filter i c => i.opsKnown && c.opsKnown
  | .call _ _ a => a.opsKnown
  | .acons h t => h.opsKnown && t.opsKnown
  | .group x => x.opsKnown
  | _ => true

def BSat {α : Type} (P : α → Prop) : Except BErr α → Prop
  | .error _ => True
  | .ok v => P v

theorem BSat.bind {α β} {P : α → Prop} {Q : β → Prop} {x : Except BErr α} {f : α → Except BErr β}
    (hx : BSat P x) (hf : ∀ v, P v → BSat Q (f v)) : BSat Q (x >>= f) := by
  cases x with
  | error e => trivial
  | ok v => exact hf v hx

theorem BSat.ok {α} {P : α → Prop} {v : α} (h : P v) : BSat P (.ok v : Except BErr α) := h
theorem BSat.pure {α} {P : α → Prop} {v : α} (h : P v) : BSat P (Pure.pure v : Except BErr α) := h
theorem BSat.error {α} {P : α → Prop} (e) : BSat P (.error e : Except BErr α) := trivial
theorem BSat.val {α} {P : α → Prop} {x : Except BErr α} (h : BSat P x) {v} (hv : x = .ok v) : P v := by
  subst hv; exact h
theorem BSat.triv {α} (x : Except BErr α) : BSat (fun _ => True) x := by
  cases x <;> trivial

def BState.ok (st : BState) : Prop :=
  (∀ f, st.firstInput = some f → f.noNil = true) ∧ (∀ f, st.predInput = some f → f.noNil = true)

def BOut.good (o : BOut) : Prop := o.q.noNil = true ∧ o.st.ok

theorem enter_sat {lim : Nat} {st : BState} {k : BState → Except BErr BOut} {P : BOut → Prop}
    (h : ∀ n, BSat P (k { st with depth := n })) : BSat P (build.enter lim st k) := by
  unfold build.enter
  split
  · exact BSat.error _
  · exact h _

theorem axisPlan_sat (a : AxisInfo) (fl : Flags) (props : Props) (inp : Plan) (h : inp.noNil = true) :
    BSat (fun r => r.1.noNil = true) (axisPlan a fl props inp) := by
  unfold axisPlan
  split <;> first | exact BSat.error _ | (apply BSat.ok; dsimp only; try split) <;> simpa [Plan.noNil] using h

theorem finAxis_sat (q : Plan) (props : Props) (st : BState) (h : q.noNil = true)
    (hp : ∀ f, st.predInput = some f → f.noNil = true) :
    BSat BOut.good (build.finAxis q props st) := by
  unfold build.finAxis
  refine BSat.ok ⟨h, ?_, hp⟩
  intro f hf
  dsimp only at hf
  split at hf
  · cases hf
  · cases hf; exact h

theorem oper_noNil (op : String) (l r : Plan) (p1 p2 p3 p4 p5 p6 : Props) (hop : knownOp op = true)
    (hl : l.noNil = true) (hr : r.noNil = true) :
    (if (op == "+" || op == "-" || op == "*" || op == "div" || op == "mod") = true then
        (Plan.numeric op l r, p1)
      else if (op == "=" || op == ">" || op == ">=" || op == "<" || op == "<=" || op == "!=") = true then
        (Plan.logical op l r, p2)
      else if (op == "or") = true then (Plan.boolean true l r, p3)
      else if (op == "and") = true then (Plan.boolean false l r, p4)
      else if (op == "|") = true then (l.union r, p5)
      else (Plan.nil, p6)).fst.noNil = true := by
  unfold knownOp at hop
  repeat' split
  all_goals first
    | simp [Plan.noNil, hl, hr]; done
    | simp_all

theorem inputOf_noNil {q p : Plan} (h : q.inputOf = some p) (hq : q.noNil = true) : p.noNil = true := by
  cases q <;> simp [Plan.inputOf] at h <;> subst h <;> simpa [Plan.noNil] using hq

theorem withInput_noNil (q n : Plan) (hq : q.noNil = true) (hn : n.noNil = true) : (q.withInput n).noNil = true := by
  cases q <;> simp_all [Plan.withInput, Plan.noNil]


theorem BSat.bind' {α β} {P : α → Prop} {Q : β → Prop} {x : Except BErr α} {f : α → Except BErr β}
    (hx : BSat P x) (hf : ∀ v, x = .ok v → P v → BSat Q (f v)) : BSat Q (x >>= f) := by
  cases x with
  | error e => trivial
  | ok v => exact hf v rfl hx

theorem BState.ok_none {n : Nat} {p : Option Plan} (hp : ∀ f, p = some f → f.noNil = true) :
    BState.ok { depth := n, predInput := p } := ⟨fun _ hf => (by cases hf), hp⟩

theorem build_acons_shape (rx : RegexOk) (lim : Nat) (sn sd : Bool) (h t : Ast) (fl : Flags) (st : BState)
    (o : BOut) (htake : fl.take ≠ 0) (hb : build rx lim sn sd (.acons h t) fl st = .ok o) :
    ∃ hq tq, o.q = .pcons hq tq := by
  simp only [build, beq_iff_eq, htake, if_false] at hb
  cases hh : build rx lim sn sd h {} st with
  | error e => simp [hh, bind, Except.bind] at hb
  | ok ho =>
    simp only [hh, bind, Except.bind] at hb
    cases ht : build rx lim sn sd t { take := fl.take - 1 } ho.st with
    | error e => simp [ht] at hb
    | ok to =>
      simp only [ht, Except.ok.injEq] at hb
      exact ⟨_, _, by rw [← hb]⟩

theorem done_sat (q : Plan) (props : Props) (st : BState) (h : q.noNil = true)
    (hp : ∀ f, st.predInput = some f → f.noNil = true) :
    BSat BOut.good (.ok ⟨q, props, build.leave { depth := st.depth, firstInput := some q, predInput := st.predInput }⟩) := by
  refine BSat.ok ⟨h, (fun f hf => ?_), hp⟩
  cases hf
  exact h

theorem build_sat (rx : RegexOk) (lim : Nat) (sn sd : Bool) (ast : Ast) (fl : Flags) (st : BState) :
    ast.opsKnown = true → st.ok → BSat BOut.good (build rx lim sn sd ast fl st) := by
  induction ast, fl, st using build.induct sd with
  | case1 s fl st | case2 s fl st | case3 s fl st =>
    intro _ hst
    simp only [build]
    exact enter_sat fun n => BSat.ok ⟨rfl, hst⟩
  | case4 p n fl st =>
    intro _ hst
    simp only [build]
    exact enter_sat fun n => BSat.error _
  | case5 fl st => intro _ _; simp only [build]; exact BSat.error _
  | case6 fl st => intro _ hst; simp only [build]; exact BSat.ok ⟨rfl, hst⟩
  | case7 h t fl st htake =>
    intro _ hst; simp only [build, htake, if_true]; exact BSat.ok ⟨rfl, hst⟩
  | case8 h t fl st htake ihh iht =>
    intro hk hst
    simp only [Ast.opsKnown, Bool.and_eq_true] at hk
    simp only [build, htake]
    refine BSat.bind (ihh hk.1 hst) fun ho hho => ?_
    refine BSat.bind (iht ho hk.2 hho.2) fun to hto => ?_
    exact BSat.ok ⟨by simp [Plan.noNil, hho.1, hto.1], hto.2⟩
  | case9 x fl st ih =>
    intro hk hst
    simp only [Ast.opsKnown] at hk
    simp only [build]
    refine enter_sat fun n => ?_
    refine BSat.bind (ih _ hk hst) fun o ho => ?_
    refine BSat.ok ⟨by simpa [Plan.noNil] using ho.1, ?_, ho.2.2⟩
    intro f hf
    simp only [build.leave] at hf
    split at hf
    · cases hf; simpa [Plan.noNil] using ho.1
    · rename_i f' hf'
      cases hf; exact ho.2.1 _ hf'
  | case10 op l r fl st ihl ihr =>
    intro hk hst
    simp only [Ast.opsKnown, Bool.and_eq_true] at hk
    simp only [build]
    refine enter_sat fun n => ?_
    refine BSat.bind (ihl _ hk.1.2 hst) fun lo hlo => ?_
    refine BSat.bind (ihr lo hk.2 hlo.2) fun ro hro => ?_
    exact BSat.ok ⟨oper_noNil op _ _ _ _ _ _ _ _ hk.1.1 hlo.1 hro.1, hro.2⟩
  | case11 name pfx args fl st ih =>
    intro hk hst
    simp only [Ast.opsKnown] at hk
    simp -zeta only [build]
    refine enter_sat fun n => ?_
    extract_lets n1
    split
    · exact BSat.error _
    · rename_i mn mx idx harity
      split
      · exact BSat.error _
      · rename_i hmin
        split
        all_goals (split; exact BSat.error _)
        all_goals
          refine BSat.bind' (ih _ hk hst) fun ao hbuild hao => ?_
          extract_lets argsQ props0 fi props q st1 jp
          have hargsQ : argsQ.noNil = true := by
            show Plan.noNil (if _ then _ else _) = true
            split
            · rfl
            · exact hao.1
          have hq : q.noNil = true := by
            show Plan.noNil (if _ then _ else _) = true
            split
            · rename_i hrev
              simp only [beq_iff_eq] at hrev
              subst hrev
              simp only [fnArity, Option.some.injEq, Prod.mk.injEq] at harity
              have hn1 : 1 ≤ args.argList.length := by
                have := harity.1; omega
              cases args with
              | acons h t =>
                obtain ⟨hq, tq, e⟩ := build_acons_shape rx lim sn sd h t _ _ ao (by simp [fnUsed]) hbuild
                have hq' : argsQ = ao.q := by
                  show (if _ then _ else _) = _
                  simp
                have := hao.1
                rw [e] at this
                simp only [Plan.noNil, Bool.and_eq_true] at this
                simp only [Plan.noNil, hq', e, Plan.argList, List.getD_cons_zero]
                exact this.1
              | _ => simp [Ast.argList] at hn1
            · simp only [Plan.noNil, hargsQ, Bool.and_true, Bool.or_eq_true, beq_iff_eq]
              show (if _ then _ else _) = _ ∨ Plan.noNil (if _ then _ else _) = true
              split
              · unfold BState.positionInput
                cases hpi : ao.st.predInput with
                | some f => right; exact hao.2.2 f hpi
                | none =>
                  cases hfi : ao.st.firstInput with
                  | none => left; rfl
                  | some f => right; exact hao.2.1 f hfi
              · left; rfl
          have hjp : ∀ u, BSat BOut.good (jp u) := fun u => by
            show BSat BOut.good (if _ then _ else _)
            split
            · exact BSat.error _
            · refine BSat.ok ⟨hq, ?_⟩
              show BState.ok (build.leave (if _ then _ else _))
              split
              · exact ⟨fun f hf => by cases hf; rfl, hao.2.2⟩
              · exact hao.2
          clear_value jp
          repeat' split
          all_goals first | exact hjp _ | exact BSat.error _
  | case12 a fl st =>
    intro hk hst
    simp only [build]
    refine enter_sat fun n => ?_
    exact BSat.bind (axisPlan_sat a fl {} .context rfl) fun r hr => finAxis_sat _ _ _ hr hst.2
  | case13 a b grand fl st ihg ihi =>
    intro hk hst
    simp only [Ast.opsKnown] at hk
    simp only [build]
    refine enter_sat fun n => ?_
    split
    · split
      · exact BSat.bind (P := fun x => x.1.noNil = true ∧ ∀ f, x.2.2.predInput = some f → f.noNil = true)
          (BSat.pure ⟨rfl, hst.2⟩) fun x hx =>
          finAxis_sat _ _ _ (by simpa [Plan.noNil] using hx.1) hx.2
      · rename_i hne
        have h := ihg ⟨n, st.firstInput, st.predInput⟩
        dsimp only at h
        split at h
        · exact absurd rfl (hne · )
        · refine BSat.bind (h hk (BState.ok_none hst.2)) fun o ho => ?_
          exact BSat.bind (P := fun x => x.1.noNil = true ∧ ∀ f, x.2.2.predInput = some f → f.noNil = true)
            (BSat.pure ⟨ho.1, ho.2.2⟩) fun x hx =>
            finAxis_sat _ _ _ (by simpa [Plan.noNil] using hx.1) hx.2
    · refine BSat.bind (ihi ⟨n, st.firstInput, st.predInput⟩ (by simpa [Ast.opsKnown] using hk) (BState.ok_none hst.2)) fun o ho => ?_
      exact BSat.bind (axisPlan_sat a fl _ _ ho.1) fun r hr => finAxis_sat _ _ _ hr ho.2.2
  | case14 a other fl st h1 h2 ih =>
    intro hk hst
    simp only [Ast.opsKnown] at hk
    simp only [build]
    refine enter_sat fun n => ?_
    refine BSat.bind (ih ⟨n, st.firstInput, st.predInput⟩ hk (BState.ok_none hst.2)) fun o ho => ?_
    exact BSat.bind (axisPlan_sat a fl _ _ ho.1) fun r hr => finAxis_sat _ _ _ hr ho.2.2
  | case15 inp cond fl st ihi ihc =>
    intro hk hst
    simp only [Ast.opsKnown, Bool.and_eq_true] at hk
    simp -zeta only [build]
    refine enter_sat fun n => ?_
    extract_lets first inFlags
    refine BSat.bind (ihi _ hk.1 hst) fun io hio => ?_
    extract_lets firstInput props props2
    refine BSat.bind (ihc io hk.2 ⟨hio.2.1, hio.2.1⟩) fun co0 hco0 => ?_
    extract_lets co pc0 jp
    have hco : BOut.good co := ⟨hco0.1, hco0.2.1, hio.2.2⟩
    have hjp : ∀ vt, BSat BOut.good (jp vt) := by
      intro vt
      simp -zeta only [jp]
      extract_lets canBeNumber pc props3 condQ dn jp2
      have hcondQ : condQ.noNil = true := by
        show Plan.noNil (if _ then _ else _) = true
        split
        · split
          · rename_i name fi fp args hq
            have := hco.1
            rw [hq] at this
            simp only [Plan.noNil, Bool.and_eq_true, Bool.or_eq_true, beq_iff_eq, reduceCtorEq, false_or] at this
            simpa [Plan.noNil] using this.1
          · exact hco.1
        · exact hco.1
      have hf : (io.q.filter condQ).noNil = true := by simp [Plan.noNil, hio.1, hcondQ]
      have hjp2 : ∀ m, BSat BOut.good (jp2 m) := by
        intro m
        simp only [jp2]
        repeat' split
        all_goals first
          | exact done_sat _ _ co.st hf hco.2.2
          | (rename_i parent _ _ hpar
             refine done_sat _ _ co.st ?_ hco.2.2
             simp only [Plan.noNil, Bool.and_eq_true]
             exact ⟨inputOf_noNil hpar hio.1, withInput_noNil _ _ hio.1 rfl, hcondQ⟩)
      clear_value jp2
      split <;> exact BSat.bind (P := fun _ => True) (BSat.triv _) fun m _ => hjp2 m
    clear_value jp
    split <;> exact BSat.bind (P := fun _ => True) (BSat.triv _) fun m _ => hjp m


/-- **builder side**: if every operator node of the parse tree carries one of the 14 operator strings,
the built plan contains no `.nil` (outside the never-evaluated `firstInput` field of a function),
and neither does the `firstInput` the builder leaves behind -/
theorem build_noNil (rx : RegexOk) (lim : Nat) (sn sd : Bool) (ast : Ast) (fl : Flags) (st : BState) (o : BOut)
    (hops : ast.opsKnown = true) (hst : ∀ f, st.firstInput = some f → f.noNil = true)
    (hpi : ∀ f, st.predInput = some f → f.noNil = true)
    (hb : build rx lim sn sd ast fl st = .ok o) :
    o.q.noNil = true ∧ ∀ f, o.st.firstInput = some f → f.noNil = true :=
  have h := (build_sat rx lim sn sd ast fl st hops ⟨hst, hpi⟩).val hb
  ⟨h.1, h.2.1⟩

/-- the instance the task names (`shortcutNeedsNodeTest = true`, `smartDescThroughFilter = false`),
from the initial builder state -/
theorem build_clean_modulo_round (rx : RegexOk) (lim : Nat) (ast : Ast) (fl : Flags) (o : BOut)
    (hops : ast.opsKnown = true) (hb : build rx lim true false ast fl {} = .ok o) : o.q.noNil = true :=
  (build_noNil rx lim true false ast fl {} o hops (fun _ h => by cases h) (fun _ h => by cases h) hb).1

/-! ## Builder side: clean plans from well-shaped, `round`-free parse trees -/

mutual
/-- what the builder guarantees: `clean`, and additionally every `firstInput` is `.nil` or good -/
def Plan.good : Plan → Bool
  | .nil => false
  | .context => true
  | .absolute => true
  | .ancestor _ _ i => i.good
  | .attr _ i => i.good
  | .child _ i => i.good
  | .cachedChild _ i => i.good
  | .descendant _ _ i => i.good
  | .following _ _ i => i.good
  | .preceding _ _ i => i.good
  | .parent _ i => i.good
  | .self _ i => i.good
  | .filter i p => i.good && p.good
  | .func name fi args => name != "round" && (fi == .nil || fi.good) && args.goodArgs
  | .pnil => false
  | .pcons _ _ => false
  | .transform _ i => i.good
  | .constStr _ => true
  | .constNum _ => true
  | .group i => i.good
  | .logical _ l r => l.good && r.good
  | .numeric _ l r => l.good && r.good
  | .boolean _ l r => l.good && r.good
  | .union l r => l.good && r.good
  | .lastFunc i => i.good
  | .descOverDesc _ _ i => i.good
  | .merge i c => i.good && c.good
def Plan.goodArgs : Plan → Bool
  | .pcons h t => h.good && t.goodArgs
  | _ => true
end

theorem Plan.good_clean (p : Plan) : (p.good = true → p.clean = true) ∧ (p.goodArgs = true → p.cleanArgs = true) := by
  induction p <;> simp_all [Plan.good, Plan.clean, Plan.goodArgs, Plan.cleanArgs]

def _root_.XPathV.Ast.isExpr : Ast → Bool
  | .anil | .acons _ _ => false
  | _ => true

def _root_.XPathV.Ast.isArgs : Ast → Bool
  | .anil | .acons _ _ => true
  | _ => false

/-- shape of parser output: known operators, no `round`, argument chains exactly below calls -/
def _root_.XPathV.Ast.wf : Ast → Bool
  | .oper op l r => knownOp op && l.isExpr && r.isExpr && l.wf && r.wf
  | .axis _ i => i.isExpr && i.wf
  | .filter i c => i.isExpr && c.isExpr && i.wf && c.wf
  | .call name _ a => name != "round" && a.isArgs && a.wf
  | .acons h t => h.isExpr && h.wf && t.isArgs && t.wf
  | .group x => x.isExpr && x.wf
  | _ => true

def BState.okG (st : BState) : Prop :=
  (∀ f, st.firstInput = some f → f.good = true) ∧ (∀ f, st.predInput = some f → f.good = true)

def BOut.goodFor (ast : Ast) (o : BOut) : Prop :=
  (ast.isExpr = true → o.q.good = true) ∧ (ast.isArgs = true → o.q.goodArgs = true) ∧ o.st.okG

theorem BState.okG_none {n : Nat} {p : Option Plan} (hp : ∀ f, p = some f → f.good = true) :
    BState.okG { depth := n, predInput := p } := ⟨fun _ hf => (by cases hf), hp⟩

theorem axisPlan_good (a : AxisInfo) (fl : Flags) (props : Props) (inp : Plan) (h : inp.good = true) :
    BSat (fun r => r.1.good = true) (axisPlan a fl props inp) := by
  unfold axisPlan
  split <;> first | exact BSat.error _ | (apply BSat.ok; dsimp only; try split) <;> simpa [Plan.good] using h

theorem finAxis_good (q : Plan) (props : Props) (st : BState) (h : q.good = true)
    (hp : ∀ f, st.predInput = some f → f.good = true) :
    BSat (fun o : BOut => o.q.good = true ∧ o.st.okG) (build.finAxis q props st) := by
  unfold build.finAxis
  refine BSat.ok ⟨h, ?_, hp⟩
  intro f hf
  dsimp only at hf
  split at hf
  · cases hf
  · cases hf; exact h

theorem oper_good (op : String) (l r : Plan) (p1 p2 p3 p4 p5 p6 : Props) (hop : knownOp op = true)
    (hl : l.good = true) (hr : r.good = true) :
    (if (op == "+" || op == "-" || op == "*" || op == "div" || op == "mod") = true then
        (Plan.numeric op l r, p1)
      else if (op == "=" || op == ">" || op == ">=" || op == "<" || op == "<=" || op == "!=") = true then
        (Plan.logical op l r, p2)
      else if (op == "or") = true then (Plan.boolean true l r, p3)
      else if (op == "and") = true then (Plan.boolean false l r, p4)
      else if (op == "|") = true then (l.union r, p5)
      else (Plan.nil, p6)).fst.good = true := by
  unfold knownOp at hop
  repeat' split
  all_goals first
    | simp [Plan.good, hl, hr]; done
    | simp_all

theorem inputOf_good {q p : Plan} (h : q.inputOf = some p) (hq : q.good = true) : p.good = true := by
  cases q <;> simp [Plan.inputOf] at h <;> subst h <;> simpa [Plan.good] using hq

theorem withInput_good (q n : Plan) (hq : q.good = true) (hn : n.good = true) : (q.withInput n).good = true := by
  cases q <;> simp_all [Plan.withInput, Plan.good]

theorem done_good (q : Plan) (props : Props) (st : BState) (h : q.good = true)
    (hp : ∀ f, st.predInput = some f → f.good = true) :
    BSat (fun o : BOut => o.q.good = true ∧ o.st.okG)
      (.ok ⟨q, props, build.leave { depth := st.depth, firstInput := some q, predInput := st.predInput }⟩) := by
  refine BSat.ok ⟨h, (fun f hf => ?_), hp⟩
  cases hf
  exact h

theorem BSat.mono {α} {P Q : α → Prop} {x : Except BErr α} (h : BSat P x) (hpq : ∀ v, P v → Q v) : BSat Q x := by
  cases x with
  | error e => trivial
  | ok v => exact hpq v h

/-- an expression node: only the `good` component matters -/
theorem goodFor_expr {ast : Ast} (he : ast.isArgs = false) {x : Except BErr BOut}
    (h : BSat (fun o : BOut => o.q.good = true ∧ o.st.okG) x) : BSat (BOut.goodFor ast) x :=
  h.mono fun o ho => ⟨fun _ => ho.1, fun h' => by simp [he] at h', ho.2⟩

theorem build_good (rx : RegexOk) (lim : Nat) (sn sd : Bool) (ast : Ast) (fl : Flags) (st : BState) :
    ast.wf = true → st.okG → BSat (BOut.goodFor ast) (build rx lim sn sd ast fl st) := by
  induction ast, fl, st using build.induct sd with
  | case1 s fl st | case2 s fl st | case3 s fl st =>
    intro _ hst
    simp only [build]
    exact enter_sat fun n => BSat.ok ⟨fun _ => rfl, fun h => by simp [Ast.isArgs] at h, hst⟩
  | case4 p n fl st =>
    intro _ hst
    simp only [build]
    exact enter_sat fun n => BSat.error _
  | case5 fl st => intro _ _; simp only [build]; exact BSat.error _
  | case6 fl st =>
    intro _ hst; simp only [build]
    exact BSat.ok ⟨fun h => by simp [Ast.isExpr] at h, fun _ => rfl, hst⟩
  | case7 h t fl st htake =>
    intro _ hst; simp only [build, htake, if_true]
    exact BSat.ok ⟨fun h => by simp [Ast.isExpr] at h, fun _ => rfl, hst⟩
  | case8 h t fl st htake ihh iht =>
    intro hk hst
    simp only [Ast.wf, Bool.and_eq_true] at hk
    simp only [build, htake]
    refine BSat.bind (ihh hk.1.1.2 hst) fun ho hho => ?_
    refine BSat.bind (iht ho hk.2 hho.2.2) fun to hto => ?_
    refine BSat.ok ⟨fun h => by simp [Ast.isExpr] at h, fun _ => ?_, hto.2.2⟩
    simp [Plan.goodArgs, hho.1 hk.1.1.1, hto.2.1 hk.1.2]
  | case9 x fl st ih =>
    intro hk hst
    simp only [Ast.wf, Bool.and_eq_true] at hk
    simp only [build]
    refine goodFor_expr rfl (enter_sat fun n => ?_)
    refine BSat.bind (ih _ hk.2 hst) fun o ho => ?_
    have hq : (Plan.group o.q).good = true := by simpa [Plan.good] using ho.1 hk.1
    refine BSat.ok ⟨hq, ?_, ho.2.2.2⟩
    intro f hf
    simp only [build.leave] at hf
    split at hf
    · cases hf; exact hq
    · rename_i f' hf'
      cases hf; exact ho.2.2.1 _ hf'
  | case10 op l r fl st ihl ihr =>
    intro hk hst
    simp only [Ast.wf, Bool.and_eq_true] at hk
    obtain ⟨⟨⟨⟨hop, hle⟩, hre⟩, hlw⟩, hrw⟩ := hk
    simp only [build]
    refine goodFor_expr rfl (enter_sat fun n => ?_)
    refine BSat.bind (ihl _ hlw hst) fun lo hlo => ?_
    refine BSat.bind (ihr lo hrw hlo.2.2) fun ro hro => ?_
    exact BSat.ok ⟨oper_good op _ _ _ _ _ _ _ _ hop (hlo.1 hle) (hro.1 hre), hro.2.2⟩
  | case11 name pfx args fl st ih =>
    intro hk hst
    simp only [Ast.wf, Bool.and_eq_true, bne_iff_ne, ne_eq] at hk
    obtain ⟨⟨hname, hargs⟩, hk⟩ := hk
    simp -zeta only [build]
    refine goodFor_expr rfl (enter_sat fun n => ?_)
    extract_lets n1
    split
    · exact BSat.error _
    · rename_i mn mx idx harity
      split
      · exact BSat.error _
      · rename_i hmin
        split
        all_goals (split; exact BSat.error _)
        all_goals
          refine BSat.bind' (ih _ hk hst) fun ao hbuild hao => ?_
          extract_lets argsQ props0 fi props q st1 jp
          have hao1 := hao.2.1 hargs
          have hargsQ : argsQ.goodArgs = true := by
            show Plan.goodArgs (if _ then _ else _) = true
            split
            · rfl
            · exact hao1
          have hq : q.good = true := by
            show Plan.good (if _ then _ else _) = true
            split
            · rename_i hrev
              simp only [beq_iff_eq] at hrev
              subst hrev
              simp only [fnArity, Option.some.injEq, Prod.mk.injEq] at harity
              have hn1 : 1 ≤ args.argList.length := by
                have := harity.1; omega
              cases args with
              | acons h t =>
                obtain ⟨hq, tq, e⟩ := build_acons_shape rx lim sn sd h t _ _ ao (by simp [fnUsed]) hbuild
                have hq' : argsQ = ao.q := by
                  show (if _ then _ else _) = _
                  simp
                have := hao1
                rw [e] at this
                simp only [Plan.goodArgs, Bool.and_eq_true] at this
                simp only [Plan.good, hq', e, Plan.argList, List.getD_cons_zero]
                exact this.1
              | _ => simp [Ast.argList] at hn1
            · simp only [Plan.good, hargsQ, Bool.and_true, Bool.and_eq_true, Bool.or_eq_true, beq_iff_eq,
                bne_iff_ne, ne_eq]
              refine ⟨hname, ?_⟩
              show (if _ then _ else _) = _ ∨ Plan.good (if _ then _ else _) = true
              split
              · unfold BState.positionInput
                cases hpi : ao.st.predInput with
                | some f => right; exact hao.2.2.2 f hpi
                | none =>
                  cases hfi : ao.st.firstInput with
                  | none => left; rfl
                  | some f => right; exact hao.2.2.1 f hfi
              · left; rfl
          have hjp : ∀ u, BSat (fun o : BOut => o.q.good = true ∧ o.st.okG) (jp u) := fun u => by
            show BSat _ (if _ then _ else _)
            split
            · exact BSat.error _
            · refine BSat.ok ⟨hq, ?_⟩
              show BState.okG (build.leave (if _ then _ else _))
              split
              · exact ⟨fun f hf => (by cases hf; rfl), hao.2.2.2⟩
              · exact hao.2.2
          clear_value jp
          repeat' split
          all_goals first | exact hjp _ | exact BSat.error _
  | case12 a fl st =>
    intro hk hst
    simp only [build]
    refine goodFor_expr rfl (enter_sat fun n => ?_)
    exact BSat.bind (axisPlan_good a fl {} .context rfl) fun r hr => finAxis_good _ _ _ hr hst.2
  | case13 a b grand fl st ihg ihi =>
    intro hk hst
    simp only [Ast.wf, Bool.and_eq_true] at hk
    simp only [build]
    refine goodFor_expr rfl (enter_sat fun n => ?_)
    split
    · split
      · exact BSat.bind (P := fun x => x.1.good = true ∧ ∀ f, x.2.2.predInput = some f → f.good = true)
          (BSat.pure ⟨rfl, hst.2⟩) fun x hx =>
          finAxis_good _ _ _ (by simpa [Plan.good] using hx.1) hx.2
      · rename_i hne
        have h := ihg ⟨n, st.firstInput, st.predInput⟩
        dsimp only at h
        split at h
        · exact absurd rfl (hne · )
        · refine BSat.bind (h hk.2.2 (BState.okG_none hst.2)) fun o ho => ?_
          exact BSat.bind (P := fun x => x.1.good = true ∧ ∀ f, x.2.2.predInput = some f → f.good = true)
            (BSat.pure ⟨ho.1 hk.2.1, ho.2.2.2⟩) fun x hx =>
            finAxis_good _ _ _ (by simpa [Plan.good] using hx.1) hx.2
    · refine BSat.bind (ihi ⟨n, st.firstInput, st.predInput⟩ (by simpa [Ast.wf] using hk.2) (BState.okG_none hst.2)) fun o ho => ?_
      exact BSat.bind (axisPlan_good a fl _ _ (ho.1 rfl)) fun r hr => finAxis_good _ _ _ hr ho.2.2.2
  | case14 a other fl st h1 h2 ih =>
    intro hk hst
    simp only [Ast.wf, Bool.and_eq_true] at hk
    simp only [build]
    refine goodFor_expr rfl (enter_sat fun n => ?_)
    refine BSat.bind (ih ⟨n, st.firstInput, st.predInput⟩ hk.2 (BState.okG_none hst.2)) fun o ho => ?_
    exact BSat.bind (axisPlan_good a fl _ _ (ho.1 hk.1)) fun r hr => finAxis_good _ _ _ hr ho.2.2.2
  | case15 inp cond fl st ihi ihc =>
    intro hk hst
    simp only [Ast.wf, Bool.and_eq_true] at hk
    obtain ⟨⟨⟨hie, hce⟩, hiw⟩, hcw⟩ := hk
    simp -zeta only [build]
    refine goodFor_expr rfl (enter_sat fun n => ?_)
    extract_lets first inFlags
    refine BSat.bind (ihi _ hiw hst) fun io hio => ?_
    extract_lets firstInput props props2
    refine BSat.bind (ihc io hcw ⟨hio.2.2.1, hio.2.2.1⟩) fun co0 hco0 => ?_
    extract_lets co pc0 jp
    have hio1 := hio.1 hie
    have hco1 : co.q.good = true := hco0.1 hce
    have hjp : ∀ vt, BSat (fun o : BOut => o.q.good = true ∧ o.st.okG) (jp vt) := by
      intro vt
      simp -zeta only [jp]
      extract_lets canBeNumber pc props3 condQ dn jp2
      have hcondQ : condQ.good = true := by
        show Plan.good (if _ then _ else _) = true
        split
        · split
          · rename_i name fi fp args hq
            have := hco1
            rw [hq] at this
            simp only [Plan.good, Bool.and_eq_true, Bool.or_eq_true, beq_iff_eq, reduceCtorEq, false_or] at this
            simpa [Plan.good] using this.1.2
          · exact hco1
        · exact hco1
      have hf : (io.q.filter condQ).good = true := by simp [Plan.good, hio1, hcondQ]
      have hjp2 : ∀ m, BSat (fun o : BOut => o.q.good = true ∧ o.st.okG) (jp2 m) := by
        intro m
        simp only [jp2]
        repeat' split
        all_goals first
          | exact done_good _ _ co.st hf hio.2.2.2
          | (rename_i parent _ _ hpar
             refine done_good _ _ co.st ?_ hio.2.2.2
             simp only [Plan.good, Bool.and_eq_true]
             exact ⟨inputOf_good hpar hio1, withInput_good _ _ hio1 rfl, hcondQ⟩)
      clear_value jp2
      split <;> exact BSat.bind (P := fun _ => True) (BSat.triv _) fun m _ => hjp2 m
    clear_value jp
    split <;> exact BSat.bind (P := fun _ => True) (BSat.triv _) fun m _ => hjp m


/-- parse trees without `round`, of parser shape, are built into clean plans -/
theorem build_clean (rx : RegexOk) (lim : Nat) (sn sd : Bool) (ast : Ast) (fl : Flags) (o : BOut)
    (hwf : ast.wf = true) (he : ast.isExpr = true) (hb : build rx lim sn sd ast fl {} = .ok o) :
    o.q.clean = true :=
  (Plan.good_clean o.q).1 (((build_good rx lim sn sd ast fl {} hwf ⟨fun _ h => (by cases h), fun _ h => (by cases h)⟩).val hb).1 he)

/-- **C15 for built plans, modulo `round`** -/
theorem built_plan_no_crash {F : Type} [NumAlg F] (rx : RegexOk) (lim : Nat) (sn sd : Bool) (ast : Ast)
    (fl : Flags) (o : BOut) (hwf : ast.wf = true) (he : ast.isExpr = true)
    (hb : build rx lim sn sd ast fl {} = .ok o) (d : Doc) (cfg : ECfg) (c : Ref) :
    (∀ k, sel (F := F) d cfg o.q c ≠ .error (.crash k)) ∧ (∀ k, evalP (F := F) d cfg o.q c ≠ .error (.crash k)) :=
  no_crash d cfg o.q c (build_clean rx lim sn sd ast fl o hwf he hb)

/-! ## The restriction on `round` is necessary -/

open NumAlg in
/-- the restriction is necessary: `round(1) = 1` ends in a Go runtime error (the recorded defect) -/
theorem round_in_comparison_crashes {F : Type} [NumAlg F] (d : Doc) (cfg : ECfg) (c : Ref) :
    evalP (F := F) d cfg (.logical "=" (.func "round" .nil (.pcons (.constNum "1") .pnil)) (.constNum "1")) c
      = .error (.crash .unknownType) := by
  simp only [evalP, argVals, callFn, bind, Except.bind, List.getElem?_cons_zero, Option.getD_some, pure, Except.pure]
  cases toInt (roundGo (asNumberM d (MVal.num (Spec.strToNum "1") : MVal F))) <;>
    simp [logicalVal, Spec.CmpOp.ofString, cmpM, xtypeOf, bind, Except.bind]

end XPathV.Model

