import XPathV.GenTypes
import XPathV.Generated.StructFacts
import XPathV.Generated.ApiFacts
import XPathV.Generated.ClosureFacts
import XPathV.Generated.CallGraph
import XPathV.Generated.PanicSites
import XPathV.Generated.ConvFacts
import XPathV.Generated.CmpTable
import XPathV.Generated.BuilderFacts
import XPathV.Generated.ScannerFacts
import XPathV.Generated.CacheFacts
import XPathV.Generated.Constants
import XPathV.Generated.NameTables
import XPathV.Generated.PrecChain
/-!
# Decidable predicates over the regenerated facts (layer T0)

Each predicate is what a property needs from the *structure* of the Go source; the theorems in
`Theorems/Cxx.lean` instantiate them on `XPathV.Generated.*`, which the extractor rewrites from the
current working tree on every run.  The hand-written classifications below (which fields are
iteration state that is re-initialised when an iterator is created, which closure writes are
per-call locals) are part of the trusted base and are kept next to their justification.
-/
namespace XPathV.Facts
open XPathV.Gen

def subset (a b : List String) : Bool := a.all (fun x => b.contains x)

/-- iteration-state fields that `Select` itself re-initialises before reading them whenever it
creates a new iterator (`iterator == nil`, which `Evaluate` forces) or pulls a new input node -/
def reinitOnNewIterator : List (String × String) := [
  ("childQuery", "posit"), ("cachedChildQuery", "posit"),
  ("descendantQuery", "posit"), ("descendantQuery", "level"),
  ("followingQuery", "posit"), ("precedingQuery", "posit"),
  -- set when `level == 0`, which `Evaluate` forces
  ("descendantOverDescendantQuery", "posit"), ("descendantOverDescendantQuery", "currentNode"),
  -- `booleanQuery.Select` (a node-set made with and/or, not XPath 1.0) is outside every fragment
  ("booleanQuery", "iterator")]

/-- C02: every field `Select` writes is reset by `Evaluate` or re-initialised before its next read -/
def resetOk (s : StructFact) : Bool :=
  s.selectAssigns.all (fun f => s.evalAssigns.contains f || reinitOnNewIterator.contains (s.name, f))

/-- sub-queries an `Evaluate` must forward the reset to -/
def forwardsOk (s : StructFact) : Bool :=
  -- lastFuncQuery/functionQuery compute a value from their input instead of forwarding
  s.name == "lastFuncQuery" || s.name == "functionQuery" ||
  (["Input", "Left", "Right"].filter (fun f => s.fields.contains f)).all (fun f => s.evalForwards.contains f)

def stateFields (s : StructFact) : List String := (s.selectAssigns ++ s.evalAssigns).eraseDups

/-- `Clone` constructs the expected type -/
def cloneTypeOk (s : StructFact) : Bool :=
  if s.name == "cachedChildQuery" then s.cloneType == "childQuery"   -- same sequence, see `cachedChild_eq_child`
  else if s.name == "constantQuery" then s.cloneType == "self"        -- immutable
  else s.cloneType == s.name

/-- C04: `Clone` copies every configuration field, no state field, and clones sub-queries -/
def cloneOk (s : StructFact) : Bool :=
  cloneTypeOk s &&
  (s.name == "constantQuery" ||
    -- `name` (a debugging label no method reads) and `filterQuery.NoPosition` (never read) need not be copied
    ((s.fields.filter (fun f => !(stateFields s).contains f && f != "name" && !(s.name == "filterQuery" && f == "NoPosition"))).all
        (fun f => s.cloneFields.contains f)) &&
    (s.cloneFields.all (fun f => !(stateFields s).contains f)) &&
    ((["Input", "Left", "Right", "Child"] ++ (if s.name == "filterQuery" then ["Predicate"] else [])).filter
        (fun f => s.fields.contains f)).all (fun f => s.cloneRecursive.contains f))

/-- closure writes that target a variable created per call of the enclosing function (not shared
between evaluations): `build`'s named result inside its deferred recover; `reverseFunc`'s index `i`
declared inside `reverseFunc`, which runs once per `transformFunctionQuery` iterator -/
def perCallClosureWrites : List ClosureWrite := [⟨"build", "err"⟩, ⟨"reverseFunc", "i"⟩]

def closureWritesOk (ws : List ClosureWrite) : Bool := ws.all (fun w => perCallClosureWrites.contains w)

def globalsOk (gs : List GlobalVar) : Bool := gs.all (fun g => g.writers.isEmpty)

def lockedOk (ws : List (String × String × Bool)) : Bool := ws.all (fun w => w.2.2)

/-- recursion that does not pass a depth guard but is bounded by the depth of an already built
query tree (itself built under `builder.processNode`'s guard) -/
def planBoundedRecursion : List (List String) := [["filterQuery.Properties"], ["groupQuery.ValueType"]]

def cyclesGuarded (unguarded : List (List String)) : Bool :=
  unguarded.all (fun c => planBoundedRecursion.contains c)

def panicTypesOk (ps : List PanicSite) : Bool := ps.all (fun p => p.argType == "string" || p.argType == "error")

end XPathV.Facts
