import XPathV.Lemmas.ParserShape
import XPathV.Lemmas.ParserTokens
import XPathV.Spec.Grammar
/-!
# C10: the parser's tree is THE tree the XPath 1.0 operator grammar assigns

* `DerivesS S ts e` — the operator grammar of `Spec/Grammar.lean`, generic in the stage list `S`
  (one production pair per `.tier ops`, the unary production pair for `.unary`, atoms at the end);
  `derivesS_iff_grammar : DerivesS (stages.drop k) ts e ↔ Grammar.Derives k ts e` for `k ≤ 8`.
* `Consumes cfg st ts st'` — the flat abstraction of a parser run into a chain: `.atom a` is what one
  successful `parsePathExpr` call returned, `.op s` is one operator token matched by `tokMatches`
  (binary operators of `tierLoop`, minus signs of `skipMinus`) and stepped over.
* soundness (`parseChain_sound`, `parseExpression_sound`): a successful run consumed a chain `ts`,
  `ts` derives some `e` at the run's tier, and the returned tree is `e.toAst`.
* unambiguity (`derivesS_unique`, `derives_unique`): `Derives k ts e₁ → Derives k ts e₂ → e₁ = e₂`.
* `C10_main` / `C10_parse`: the tree `parseExpression` / `parse` returns is `e.toAst` for EVERY `e` the
  grammar derives from the consumed chain.
* `refTier_sound`, `C10_ref`: the executable reference parser only accepts what the grammar derives,
  so the parser's tree is the reference tree on every chain the reference accepts.
* token rules: `tokMatches_unique` (a scanner token is at most one operator), `derives_ops`.
* examples (`a - b - c`, `a or b and c`, `- a * b`, `a | b * c`, `-a | b`, …) for grammar and parser.

Everything is tier-generic: induction over the stage list, instantiated at `stages.drop k`.
-/
namespace XPathV.Lemmas.ParserGrammar
open XPathV XPathV.Model XPathV.Spec.Grammar XPathV.Lemmas.ParserShape

/-! ## 1. the grammar, generic in the stage list -/

/-- `Spec.Grammar.Derives` with the tier index replaced by the list of the stages still to come:
`X ::= Y | X op Y` for a tier, `U ::= Y | '-' U` for the unary stage, an atom after the last stage -/
inductive DerivesS : List Stage → List T → E → Prop
  | atom (a : Ast) : DerivesS [] [.atom a] (.atom a)
  | tierUp {ops : List String} {rest : List Stage} {ts : List T} {e : E} :
      DerivesS rest ts e → DerivesS (.tier ops :: rest) ts e
  | tierOp {ops : List String} {rest : List Stage} {ts₁ ts₂ : List T} {e₁ e₂ : E} {op : String} :
      op ∈ ops → DerivesS (.tier ops :: rest) ts₁ e₁ → DerivesS rest ts₂ e₂ →
      DerivesS (.tier ops :: rest) (ts₁ ++ [.op op] ++ ts₂) (.bin op e₁ e₂)
  | unaryUp {rest : List Stage} {ts : List T} {e : E} :
      DerivesS rest ts e → DerivesS (.unary :: rest) ts e
  | neg {rest : List Stage} {ts : List T} {e : E} :
      DerivesS (.unary :: rest) ts e → DerivesS (.unary :: rest) (.op "-" :: ts) (.neg e)

/-- side condition under which the stage-list grammar is unambiguous: the operator sets of the tiers
are pairwise disjoint and there is at most one unary stage -/
def okStages : List Stage → Bool
  | [] => true
  | .tier ops :: rest => ops.all (fun o => !(stageOps rest).contains o) && okStages rest
  | .unary :: rest => !rest.contains .unary && okStages rest

theorem okStages_stages : okStages stages = true := by decide

/-! ### inversion -/

theorem derivesS_nil_inv {ts : List T} {e : E} (h : DerivesS [] ts e) : ∃ a, ts = [.atom a] ∧ e = .atom a := by
  cases h with
  | atom a => exact ⟨a, rfl, rfl⟩

theorem derivesS_tier_inv {ops : List String} {rest : List Stage} {ts : List T} {e : E}
    (h : DerivesS (.tier ops :: rest) ts e) :
    DerivesS rest ts e ∨ ∃ ts₁ ts₂ e₁ e₂ op, op ∈ ops ∧ DerivesS (.tier ops :: rest) ts₁ e₁ ∧
      DerivesS rest ts₂ e₂ ∧ ts = ts₁ ++ [.op op] ++ ts₂ ∧ e = .bin op e₁ e₂ := by
  cases h with
  | tierUp h => exact .inl h
  | tierOp hop h1 h2 => exact .inr ⟨_, _, _, _, _, hop, h1, h2, rfl, rfl⟩

theorem derivesS_unary_inv {rest : List Stage} {ts : List T} {e : E}
    (h : DerivesS (.unary :: rest) ts e) :
    DerivesS rest ts e ∨ ∃ ts' e', DerivesS (.unary :: rest) ts' e' ∧ ts = .op "-" :: ts' ∧ e = .neg e' := by
  cases h with
  | unaryUp h => exact .inl h
  | neg h => exact .inr ⟨_, _, h, rfl, rfl⟩

/-! ### shape of derivable chains -/

/-- every derivable chain ends with an atom -/
theorem derivesS_ends {S : List Stage} {ts : List T} {e : E} (h : DerivesS S ts e) :
    ∃ l a, ts = l ++ [T.atom a] := by
  induction h with
  | atom a => exact ⟨[], a, rfl⟩
  | tierUp _ ih => exact ih
  | @tierOp ops rest ts₁ ts₂ e₁ e₂ op _ _ _ _ ih2 =>
    obtain ⟨l, a, hl⟩ := ih2
    exact ⟨ts₁ ++ [.op op] ++ l, a, by rw [hl]; simp⟩
  | unaryUp _ ih => exact ih
  | @neg rest ts e _ ih =>
    obtain ⟨l, a, hl⟩ := ih
    exact ⟨.op "-" :: l, a, by rw [hl]; rfl⟩

/-- below the unary stage every derivable chain starts with an atom -/
theorem derivesS_starts {S : List Stage} {ts : List T} {e : E} (h : DerivesS S ts e) (hu : Stage.unary ∉ S) :
    ∃ a l, ts = T.atom a :: l := by
  induction h with
  | atom a => exact ⟨a, [], rfl⟩
  | tierUp _ ih => exact ih (fun hm => hu (List.mem_cons_of_mem _ hm))
  | @tierOp ops rest ts₁ ts₂ e₁ e₂ op _ _ _ ih1 _ =>
    obtain ⟨a, l, hl⟩ := ih1 hu
    exact ⟨a, l ++ [.op op] ++ ts₂, by rw [hl]; simp⟩
  | unaryUp _ _ => exact absurd (List.mem_cons_self) hu
  | neg _ _ => exact absurd (List.mem_cons_self) hu

/-- below the unary stage no tree is a negation -/
theorem derivesS_not_neg {S : List Stage} {ts : List T} {e : E} (h : DerivesS S ts e) (hu : Stage.unary ∉ S) :
    ∀ x, e ≠ .neg x := by
  induction h with
  | atom a => intro x hx; cases hx
  | tierUp _ ih => exact ih (fun hm => hu (List.mem_cons_of_mem _ hm))
  | tierOp _ _ _ _ _ => intro x hx; cases hx
  | unaryUp _ _ => exact absurd (List.mem_cons_self) hu
  | neg _ _ => exact absurd (List.mem_cons_self) hu

/-- an operator of `ops` occurs in binary position (directly after an atom) -/
def AtomOp (ops : List String) (ts : List T) : Prop :=
  ∃ l a o r, ts = l ++ T.atom a :: T.op o :: r ∧ o ∈ ops

theorem split3 {x y l r : List T} {p o : String} {a : Ast}
    (h : x ++ [T.op p] ++ y = l ++ T.atom a :: T.op o :: r) :
    (∃ r', x = l ++ T.atom a :: T.op o :: r') ∨ (x = l ++ [T.atom a] ∧ p = o ∧ y = r) ∨
    (∃ l', y = l' ++ T.atom a :: T.op o :: r) := by
  rw [List.append_assoc, List.append_eq_append_iff] at h
  rcases h with ⟨as, h1, h2⟩ | ⟨cs, h1, h2⟩
  · cases as with
    | nil => simp at h2
    | cons t as =>
      simp only [List.cons_append, List.nil_append, List.cons.injEq] at h2
      exact .inr (.inr ⟨as, h2.2⟩)
  · cases cs with
    | nil => simp at h2
    | cons t cs =>
      cases cs with
      | nil =>
        simp only [List.cons_append, List.nil_append, List.cons.injEq, T.op.injEq] at h2
        exact .inr (.inl ⟨by rw [h1, ← h2.1], h2.2.1.symm, h2.2.2.symm⟩)
      | cons t' cs =>
        simp only [List.cons_append, List.nil_append, List.cons.injEq] at h2
        exact .inl ⟨cs, by rw [h1, ← h2.1, ← h2.2.1]⟩

/-- a chain derived by the stages `R` has no operator foreign to `R` in binary position -/
theorem derivesS_no_atomOp {R : List Stage} {ts : List T} {e : E} (h : DerivesS R ts e)
    {ops : List String} (hd : ∀ o ∈ ops, o ∉ stageOps R) : ¬ AtomOp ops ts := by
  induction h with
  | atom a =>
    rintro ⟨l, a', o, r, h, _⟩
    have := congrArg List.length h
    simp at this
    omega
  | @tierUp ops' rest ts e _ ih =>
    exact ih (fun o ho hm => hd o ho (by simp [stageOps, hm]))
  | @tierOp ops' rest ts₁ ts₂ e₁ e₂ op hop _ _ ih1 ih2 =>
    rintro ⟨l, a', o, r, h, ho⟩
    rcases split3 h with ⟨r', h1⟩ | ⟨_, h1, _⟩ | ⟨l', h1⟩
    · exact ih1 hd ⟨l, a', o, r', h1, ho⟩
    · subst h1
      exact hd op ho (by simp [stageOps, hop])
    · exact ih2 (fun o ho hm => hd o ho (by simp [stageOps, hm])) ⟨l', a', o, r, h1, ho⟩
  | unaryUp _ ih => exact ih (fun o ho hm => hd o ho (by simpa [stageOps] using hm))
  | neg _ ih =>
    rintro ⟨l, a', o, r, h, ho⟩
    cases l with
    | nil => simp at h
    | cons t l =>
      simp only [List.cons_append, List.cons.injEq] at h
      exact ih hd ⟨l, a', o, r, h.2, ho⟩

/-- the split at a binary operator of the tier is unique (one direction) -/
theorem split_unique_aux {ops : List String} {x y x' y' : List T} {o o' : String}
    (h : x ++ [T.op o] ++ y = x' ++ [T.op o'] ++ y')
    (hx' : ∃ l a, x' = l ++ [T.atom a]) (hy : ¬ AtomOp ops y) (ho' : o' ∈ ops)
    (hlen : x.length ≤ x'.length) : x = x' ∧ o = o' ∧ y = y' := by
  rw [List.append_assoc, List.append_assoc, List.append_eq_append_iff] at h
  rcases h with ⟨as, h1, h2⟩ | ⟨cs, h1, h2⟩
  · cases as with
    | nil =>
      simp only [List.append_nil, List.nil_append, List.singleton_append, List.cons.injEq, T.op.injEq] at h1 h2
      exact ⟨h1.symm, h2.1, h2.2⟩
    | cons t as =>
      exfalso
      simp only [List.cons_append, List.nil_append, List.cons.injEq] at h2
      obtain ⟨l, a, hl⟩ := hx'
      -- `x' = x ++ t :: as` ends with an atom, so `as` is nonempty and ends with that atom
      rw [h1] at hl
      have has : ∃ as', as = as' ++ [T.atom a] := by
        rcases List.eq_nil_or_concat as with rfl | ⟨as', b, rfl⟩
        · rw [← h2.1] at hl
          have := congrArg List.reverse hl
          simp at this
        · have := congrArg List.reverse hl
          simp at this
          exact ⟨as', by rw [List.concat_eq_append, this.1]⟩
      obtain ⟨as', rfl⟩ := has
      exact hy ⟨as', a, o', y', by rw [h2.2]; simp, ho'⟩
  · have : cs = [] := by
      have := congrArg List.length h1
      simp at this
      cases cs with
      | nil => rfl
      | cons _ _ => simp at this; omega
    subst this
    simp only [List.append_nil, List.nil_append, List.singleton_append, List.cons.injEq, T.op.injEq] at h1 h2
    exact ⟨h1, h2.1.symm, h2.2.symm⟩

theorem split_unique {ops : List String} {x y x' y' : List T} {o o' : String}
    (h : x ++ [T.op o] ++ y = x' ++ [T.op o'] ++ y')
    (hx : ∃ l a, x = l ++ [T.atom a]) (hx' : ∃ l a, x' = l ++ [T.atom a])
    (hy : ¬ AtomOp ops y) (hy' : ¬ AtomOp ops y') (ho : o ∈ ops) (ho' : o' ∈ ops) :
    x = x' ∧ o = o' ∧ y = y' := by
  rcases Nat.le_total x.length x'.length with hl | hl
  · exact split_unique_aux h hx' hy ho' hl
  · obtain ⟨h1, h2, h3⟩ := split_unique_aux h.symm hx hy' ho hl
    exact ⟨h1.symm, h2.symm, h3.symm⟩

/-! ## 3. unambiguity -/

theorem okStages_tier {ops : List String} {rest : List Stage} (h : okStages (.tier ops :: rest) = true) :
    (∀ o ∈ ops, o ∉ stageOps rest) ∧ okStages rest = true := by
  simp only [okStages, Bool.and_eq_true, List.all_eq_true, Bool.not_eq_true', List.contains_eq_mem,
    decide_eq_false_iff_not] at h
  exact h

theorem okStages_unary {rest : List Stage} (h : okStages (.unary :: rest) = true) :
    Stage.unary ∉ rest ∧ okStages rest = true := by
  simp only [okStages, Bool.and_eq_true, Bool.not_eq_true', List.contains_eq_mem,
    decide_eq_false_iff_not] at h
  exact h

/-- **the stage-list grammar is unambiguous**: a chain derives at most one tree -/
theorem derivesS_unique : ∀ (S : List Stage), okStages S = true → ∀ (n : Nat) (ts : List T), ts.length ≤ n →
    ∀ e₁ e₂, DerivesS S ts e₁ → DerivesS S ts e₂ → e₁ = e₂ := by
  intro S
  induction S with
  | nil =>
    intro _ n ts _ e₁ e₂ h1 h2
    obtain ⟨a, ha, rfl⟩ := derivesS_nil_inv h1
    obtain ⟨b, hb, rfl⟩ := derivesS_nil_inv h2
    rw [ha] at hb
    simp only [List.cons.injEq, T.atom.injEq, and_true] at hb
    rw [hb]
  | cons s rest ihS =>
    intro hok n
    cases s with
    | tier ops =>
      obtain ⟨hdis, hokr⟩ := okStages_tier hok
      induction n with
      | zero =>
        intro ts hlen e₁ e₂ h1 _
        obtain ⟨l, a, rfl⟩ := derivesS_ends h1
        simp at hlen
      | succ n ihn =>
        intro ts hlen e₁ e₂ h1 h2
        rcases derivesS_tier_inv h1 with h1 | ⟨x, y, l₁, r₁, o, ho, hx, hy, hts, rfl⟩
        · rcases derivesS_tier_inv h2 with h2 | ⟨x', y', l₂, r₂, o', ho', hx', hy', hts', rfl⟩
          · exact ihS hokr _ ts (Nat.le_refl _) _ _ h1 h2
          · exfalso
            obtain ⟨l, a, rfl⟩ := derivesS_ends hx'
            exact derivesS_no_atomOp h1 hdis ⟨l, a, o', y', by rw [hts']; simp, ho'⟩
        · rcases derivesS_tier_inv h2 with h2 | ⟨x', y', l₂, r₂, o', ho', hx', hy', hts', rfl⟩
          · exfalso
            obtain ⟨l, a, rfl⟩ := derivesS_ends hx
            exact derivesS_no_atomOp h2 hdis ⟨l, a, o, y, by rw [hts]; simp, ho⟩
          · rw [hts] at hts'
            obtain ⟨rfl, rfl, rfl⟩ := split_unique hts' (derivesS_ends hx) (derivesS_ends hx')
              (derivesS_no_atomOp hy hdis) (derivesS_no_atomOp hy' hdis) ho ho'
            have hxl : x.length ≤ n := by
              rw [hts] at hlen
              simp at hlen
              omega
            rw [ihn x hxl _ _ hx hx', ihS hokr _ y (Nat.le_refl _) _ _ hy hy']
    | unary =>
      obtain ⟨hnu, hokr⟩ := okStages_unary hok
      induction n with
      | zero =>
        intro ts hlen e₁ e₂ h1 _
        obtain ⟨l, a, rfl⟩ := derivesS_ends h1
        simp at hlen
      | succ n ihn =>
        intro ts hlen e₁ e₂ h1 h2
        rcases derivesS_unary_inv h1 with h1 | ⟨t₁, x₁, hx₁, hts, rfl⟩
        · rcases derivesS_unary_inv h2 with h2 | ⟨t₂, x₂, hx₂, hts', rfl⟩
          · exact ihS hokr _ ts (Nat.le_refl _) _ _ h1 h2
          · exfalso
            obtain ⟨a, l, hal⟩ := derivesS_starts h1 hnu
            rw [hal] at hts'
            simp at hts'
        · rcases derivesS_unary_inv h2 with h2 | ⟨t₂, x₂, hx₂, hts', rfl⟩
          · exfalso
            obtain ⟨a, l, hal⟩ := derivesS_starts h2 hnu
            rw [hal] at hts
            simp at hts
          · rw [hts] at hts'
            simp only [List.cons.injEq, true_and] at hts'
            subst hts'
            have hl : t₁.length ≤ n := by
              rw [hts] at hlen
              simp at hlen
              omega
            rw [ihn t₁ hl _ _ hx₁ hx₂]

/-! ## the stage-list grammar at the parser's stage list IS `Spec.Grammar.Derives` -/

theorem k_cases {k : Nat} (hk : k ≤ 8) :
    k = 0 ∨ k = 1 ∨ k = 2 ∨ k = 3 ∨ k = 4 ∨ k = 5 ∨ k = 6 ∨ k = 7 ∨ k = 8 := by omega

theorem drop_tier {k : Nat} {ops : List String} {rest : List Stage} (hk : k ≤ 8)
    (h : Stage.tier ops :: rest = stages.drop k) :
    k < 8 ∧ k ≠ 6 ∧ rest = stages.drop (k+1) ∧ (upperTiers[k]? = some ops ∨ (k = 7 ∧ ops = ["|"])) := by
  rcases k_cases hk with rfl | rfl | rfl | rfl | rfl | rfl | rfl | rfl | rfl <;>
    simp [stages_eq] at h <;> (obtain ⟨rfl, rfl⟩ := h; decide)

theorem drop_unary {k : Nat} {rest : List Stage} (hk : k ≤ 8)
    (h : Stage.unary :: rest = stages.drop k) : k = 6 ∧ rest = stages.drop 7 := by
  rcases k_cases hk with rfl | rfl | rfl | rfl | rfl | rfl | rfl | rfl | rfl <;>
    simp [stages_eq] at h <;> (subst h; decide)

theorem drop_nil {k : Nat} (hk : k ≤ 8) (h : [] = stages.drop k) : k = 8 := by
  rcases k_cases hk with rfl | rfl | rfl | rfl | rfl | rfl | rfl | rfl | rfl <;>
    simp [stages_eq] at h <;> rfl

theorem derivesS_to_grammar {S : List Stage} {ts : List T} {e : E} (h : DerivesS S ts e) :
    ∀ k, k ≤ 8 → S = stages.drop k → Derives k ts e := by
  induction h with
  | atom a =>
    intro k hk hS
    obtain rfl := drop_nil hk hS
    exact Derives.atom a
  | tierUp _ ih =>
    intro k hk hS
    obtain ⟨h1, h2, h3, _⟩ := drop_tier hk hS
    exact Derives.up h1 h2 (ih (k+1) (by omega) h3)
  | tierOp hop _ _ ih1 ih2 =>
    intro k hk hS
    obtain ⟨h1, h2, h3, h4 | ⟨rfl, rfl⟩⟩ := drop_tier hk hS
    · exact Derives.binU h4 hop (ih1 k hk hS) (ih2 (k+1) (by omega) h3)
    · simp only [List.mem_singleton] at hop
      subst hop
      exact Derives.binL (ih1 7 hk hS) (ih2 8 (by omega) h3)
  | unaryUp _ ih =>
    intro k hk hS
    obtain ⟨rfl, h3⟩ := drop_unary hk hS
    exact Derives.unaryUp (ih 7 (by omega) h3)
  | neg _ ih =>
    intro k hk hS
    obtain ⟨rfl, h3⟩ := drop_unary hk hS
    exact Derives.neg (ih 6 hk hS)

theorem upper_drop {k : Nat} {ops : List String} (h : upperTiers[k]? = some ops) :
    stages.drop k = .tier ops :: stages.drop (k+1) := by
  have hk : k < 6 := by
    rcases Nat.lt_or_ge k 6 with h6 | h6
    · exact h6
    · rw [List.getElem?_eq_none (by simpa [upperTiers] using h6)] at h
      cases h
  have : k = 0 ∨ k = 1 ∨ k = 2 ∨ k = 3 ∨ k = 4 ∨ k = 5 := by omega
  rcases this with rfl | rfl | rfl | rfl | rfl | rfl <;>
    simp [upperTiers] at h <;> (subst h; decide)

theorem up_drop {k : Nat} (hk : k < 8) (h6 : k ≠ 6) :
    ∃ ops, stages.drop k = .tier ops :: stages.drop (k+1) := by
  have : k = 0 ∨ k = 1 ∨ k = 2 ∨ k = 3 ∨ k = 4 ∨ k = 5 ∨ k = 7 := by omega
  rcases this with rfl | rfl | rfl | rfl | rfl | rfl | rfl
  · exact ⟨["or"], by decide⟩
  · exact ⟨["and"], by decide⟩
  · exact ⟨["=", "!="], by decide⟩
  · exact ⟨["<", ">", "<=", ">="], by decide⟩
  · exact ⟨["+", "-"], by decide⟩
  · exact ⟨["*", "div", "mod"], by decide⟩
  · exact ⟨["|"], by decide⟩

theorem grammar_to_derivesS {k : Nat} {ts : List T} {e : E} (h : Derives k ts e) :
    k ≤ 8 ∧ DerivesS (stages.drop k) ts e := by
  have e8 : stages.drop 8 = [] := by decide
  have e7 : stages.drop 7 = [.tier ["|"]] := by decide
  have e6 : stages.drop 6 = .unary :: stages.drop 7 := by decide
  induction h with
  | atom a => exact ⟨Nat.le_refl _, by rw [e8]; exact .atom a⟩
  | up hk h6 _ ih =>
    obtain ⟨ops, ho⟩ := up_drop hk h6
    exact ⟨by omega, by rw [ho]; exact .tierUp ih.2⟩
  | binU hops hop _ _ ih1 ih2 =>
    have ho := upper_drop hops
    refine ⟨ih1.1, ?_⟩
    have h1 := ih1.2
    rw [ho] at h1 ⊢
    exact .tierOp hop h1 ih2.2
  | binL _ _ ih1 ih2 =>
    refine ⟨by omega, ?_⟩
    have h1 := ih1.2
    have h2 := ih2.2
    rw [e7] at h1 ⊢
    rw [e8] at h2
    exact .tierOp (by simp) h1 h2
  | unaryUp _ ih =>
    refine ⟨by omega, ?_⟩
    rw [e6]
    exact .unaryUp ih.2
  | neg _ ih =>
    refine ⟨by omega, ?_⟩
    have h1 := ih.2
    rw [e6] at h1 ⊢
    exact .neg h1

/-- the generic grammar instantiated at the suffix of the parser's stage list for tier `k` is the
reference grammar of `Spec/Grammar.lean` -/
theorem derivesS_iff_grammar {k : Nat} (hk : k ≤ 8) {ts : List T} {e : E} :
    DerivesS (stages.drop k) ts e ↔ Derives k ts e :=
  ⟨fun h => derivesS_to_grammar h k hk rfl, fun h => (grammar_to_derivesS h).2⟩

theorem okStages_drop : ∀ k, okStages (stages.drop k) = true := by
  intro k
  rcases Nat.lt_or_ge k 9 with h | h
  · have : k = 0 ∨ k = 1 ∨ k = 2 ∨ k = 3 ∨ k = 4 ∨ k = 5 ∨ k = 6 ∨ k = 7 ∨ k = 8 := by omega
    rcases this with rfl | rfl | rfl | rfl | rfl | rfl | rfl | rfl | rfl <;> decide
  · rw [List.drop_eq_nil_of_le (by simpa [stages_eq] using (by omega : 8 ≤ k))]
    rfl

/-- **3. the XPath 1.0 operator grammar is unambiguous** on chains with opaque atoms, at every tier -/
theorem derives_unique {k : Nat} {ts : List T} {e₁ e₂ : E} (h1 : Derives k ts e₁) (h2 : Derives k ts e₂) :
    e₁ = e₂ :=
  derivesS_unique (stages.drop k) (okStages_drop k) ts.length ts (Nat.le_refl _) e₁ e₂
    (grammar_to_derivesS h1).2 (grammar_to_derivesS h2).2

/-! ## 1./2. abstraction of a parser run into a chain, and soundness -/

/-- `Consumes cfg st ts st'`: going from parser state `st` to `st'` the parser consumed the chain
`ts`: an `.atom a` is one successful `parsePathExpr` call returning `a`, an `.op o` is one token that
`tokMatches` recognises as the operator `o` (symbol or word) and that is stepped over.  Flat: nothing
about how the chain was grouped is recorded. -/
inductive Consumes (cfg : PCfg) : PState → List T → PState → Prop
  | nil (st : PState) : Consumes cfg st [] st
  | atom {f : Nat} {st st₁ st' : PState} {a : Ast} {ts : List T} :
      parsePathExpr f cfg st = .ok (a, st₁) → Consumes cfg st₁ ts st' → Consumes cfg st (.atom a :: ts) st'
  | op {st st₁ st' : PState} {o : String} {ts : List T} :
      tokMatches st.s o = true → st.next = .ok st₁ → Consumes cfg st₁ ts st' → Consumes cfg st (.op o :: ts) st'

theorem Consumes.append {cfg : PCfg} {st st₁ st₂ : PState} {ts₁ ts₂ : List T}
    (h1 : Consumes cfg st ts₁ st₁) (h2 : Consumes cfg st₁ ts₂ st₂) : Consumes cfg st (ts₁ ++ ts₂) st₂ := by
  induction h1 with
  | nil st => simpa using h2
  | atom hp _ ih => exact .atom hp (ih h2)
  | op hm hn _ ih => exact .op hm hn (ih h2)

/-- the scanner tokens under a consumed chain (link to `ParserTokens`) -/
theorem Consumes.steps {cfg : PCfg} {st st' : PState} {ts : List T} (h : Consumes cfg st ts st') :
    ∃ u, ParserTokens.Steps st.s u st'.s := by
  induction h with
  | nil st => exact ⟨[], .nil _⟩
  | atom hp _ ih =>
    obtain ⟨u, hu, _⟩ := ParserTokens.parsePathExpr_tokens hp
    obtain ⟨v, hv⟩ := ih
    exact ⟨u ++ v, hu.trans hv⟩
  | op hm hn _ ih =>
    obtain ⟨v, hv⟩ := ih
    have hne := ParserTokens.isOpTok_ne_eof (ParserTokens.tokMatches_isOpTok _ _ hm)
    exact ⟨_, (ParserTokens.next_steps hn hne).trans hv⟩

/-- `n` nested negations -/
def negs : Nat → E → E
  | 0, e => e
  | n+1, e => .neg (negs n e)

theorem derivesS_negs {rest : List Stage} {ts : List T} {e : E} (h : DerivesS rest ts e) :
    ∀ n, DerivesS (.unary :: rest) (List.replicate n (T.op "-") ++ ts) (negs n e) := by
  intro n
  induction n with
  | zero => simpa [negs] using DerivesS.unaryUp h
  | succ n ih =>
    rw [List.replicate_succ, List.cons_append]
    exact .neg ih

theorem negAst_negs {e₀ : E} (h0 : ∀ x, e₀ ≠ .neg x) : ∀ k n,
    E.toAst.negAst (negs k e₀) n = if n % 2 = (k + 1) % 2 then .oper "*" e₀.toAst (.num "-1")
      else .oper "*" (.oper "*" e₀.toAst (.num "-1")) (.num "-1") := by
  intro k
  induction k with
  | zero =>
    intro n
    have hm : (n % 2 == 1) = decide (n % 2 = (0 + 1) % 2) := by
      rcases Nat.mod_two_eq_zero_or_one n with h | h <;> simp [h]
    cases e₀ with
    | neg x => exact absurd rfl (h0 x)
    | atom a => simp only [negs, E.toAst.negAst, hm, decide_eq_true_eq]
    | bin op l r => simp only [negs, E.toAst.negAst, hm, decide_eq_true_eq]
  | succ k ih =>
    intro n
    simp only [negs, E.toAst.negAst]
    rw [ih (n+1)]
    have : ((n + 1) % 2 = (k + 1) % 2) ↔ (n % 2 = (k + 1 + 1) % 2) := by omega
    simp only [this]

/-- the Go encoding of `n` minus signs in front of a union expression: `x * -1` iff `n` is odd,
`(x * -1) * -1` for an even `n ≥ 1` (the operand is still converted to a number), `x` itself for
`n = 0` -/
theorem toAst_negs {e₀ : E} (h0 : ∀ x, e₀ ≠ .neg x) (n : Nat) :
    (negs n e₀).toAst = if n % 2 = 1 then .oper "*" e₀.toAst (.num "-1")
      else if n = 0 then e₀.toAst else .oper "*" (.oper "*" e₀.toAst (.num "-1")) (.num "-1") := by
  cases n with
  | zero => simp [negs]
  | succ k =>
    simp only [negs, E.toAst]
    rw [negAst_negs h0 k 1]
    have : (1 % 2 = (k + 1) % 2) ↔ ((k + 1) % 2 = 1) := by omega
    simp only [this, Nat.add_one_ne_zero, if_false]

/-- `skipMinus_sound` with the link between the first token and the number of signs consumed: at
least one sign is consumed iff the run starts at a `-` token (`signed` in `parseChain`) -/
theorem skipMinus_sound_signed {cfg : PCfg} : ∀ (f : Nat) (st : PState) (b m : Bool) (st' : PState),
    skipMinus f st b = .ok (m, st') →
    ∃ n, Consumes cfg st (List.replicate n (T.op "-")) st' ∧ m = (b != decide (n % 2 = 1)) ∧
      (st'.s.typ == .minus) = false ∧ (st.s.typ == .minus) = decide (n ≠ 0) := by
  intro f
  induction f with
  | zero => intro st b m st' h; simp [skipMinus] at h
  | succ f ih =>
    intro st b m st' h
    simp only [skipMinus] at h
    split at h
    · rename_i hmin
      obtain ⟨st1, h1, h⟩ := bind_ok h
      obtain ⟨n, hc, hm, hs, _⟩ := ih _ _ _ _ h
      refine ⟨n+1, ?_, ?_, hs, by simpa using hmin⟩
      · rw [List.replicate_succ]
        exact .op (by simpa [tokMatches] using hmin) h1 hc
      · rw [hm]
        rcases Nat.mod_two_eq_zero_or_one n with h2 | h2
        · have : (n + 1) % 2 = 1 := by omega
          cases b <;> simp [h2, this]
        · have : (n + 1) % 2 = 0 := by omega
          cases b <;> simp [h2, this]
    · rename_i hmin
      simp only [pure, Except.pure, Except.ok.injEq, Prod.mk.injEq] at h
      refine ⟨0, ?_, ?_, ?_, by simpa using hmin⟩
      · rw [← h.2]; exact .nil _
      · simp [h.1]
      · rw [← h.2]; simpa using hmin

theorem skipMinus_sound {cfg : PCfg} (f : Nat) (st : PState) (b m : Bool) (st' : PState)
    (h : skipMinus f st b = .ok (m, st')) :
    ∃ n, Consumes cfg st (List.replicate n (T.op "-")) st' ∧ m = (b != decide (n % 2 = 1)) ∧
      (st'.s.typ == .minus) = false := by
  obtain ⟨n, hc, hm, hs, _⟩ := skipMinus_sound_signed (cfg := cfg) f st b m st' h
  exact ⟨n, hc, hm, hs⟩

/-- what a stage list's run returns: a consumed chain, a derivation of it, the tree of the derivation -/
def SoundAt (cfg : PCfg) (S : List Stage) : Prop :=
  ∀ f st a st', parseChain f cfg S st = .ok (a, st') →
    ∃ ts e, Consumes cfg st ts st' ∧ DerivesS S ts e ∧ a = e.toAst

/-- the tier loop extends a derivation of the accumulator to the left-nested derivation of the result -/
theorem tierLoop_sound {cfg : PCfg} {ops : List String} {rest : List Stage} (ihRest : SoundAt cfg rest) :
    ∀ (f : Nat) (acc : Ast) (st : PState) (a : Ast) (st' : PState),
      tierLoop f cfg ops rest acc st = .ok (a, st') →
      ∀ ts₀ e₀, DerivesS (.tier ops :: rest) ts₀ e₀ → acc = e₀.toAst →
        ∃ ts e, Consumes cfg st ts st' ∧ DerivesS (.tier ops :: rest) (ts₀ ++ ts) e ∧ a = e.toAst := by
  intro f
  induction f with
  | zero => intro acc st a st' h; simp [tierLoop] at h
  | succ f ih =>
    intro acc st a st' h ts₀ e₀ hd hacc
    simp only [tierLoop] at h
    split at h
    · simp only [pure, Except.pure, Except.ok.injEq, Prod.mk.injEq] at h
      refine ⟨[], e₀, ?_, by simpa using hd, by rw [← h.1, hacc]⟩
      rw [← h.2]; exact .nil _
    · rename_i op hfind
      obtain ⟨st1, h1, h⟩ := bind_ok h
      obtain ⟨⟨r, st2⟩, h2, h⟩ := bind_ok h
      have hop : op ∈ ops := List.mem_of_find?_eq_some hfind
      have hmatch : tokMatches st.s op = true := List.find?_some hfind
      obtain ⟨ts₂, e₂, hc2, hd2, hr⟩ := ihRest _ _ _ _ h2
      obtain ⟨ts, e, hc, hde, ha⟩ := ih _ _ _ _ h (ts₀ ++ [.op op] ++ ts₂) (.bin op e₀ e₂)
        (.tierOp hop hd hd2) (by rw [hacc, hr]; simp [E.toAst])
      refine ⟨.op op :: (ts₂ ++ ts), e, .op hmatch h1 (hc2.append hc), ?_, ha⟩
      simpa using hde

/-- **2. soundness, generic in the stage list** -/
theorem parseChain_sound {cfg : PCfg} : ∀ (S : List Stage), okStages S = true → SoundAt cfg S := by
  intro S
  induction S with
  | nil =>
    intro _ f st a st' h
    cases f with
    | zero => simp [parseChain] at h
    | succ f =>
      simp only [parseChain] at h
      exact ⟨[.atom a], .atom a, .atom h (.nil _), .atom a, by simp [E.toAst]⟩
  | cons s rest ihS =>
    intro hok f st a st' h
    cases s with
    | tier ops =>
      obtain ⟨_, hokr⟩ := okStages_tier hok
      cases f with
      | zero => simp [parseChain] at h
      | succ f =>
        simp only [parseChain] at h
        obtain ⟨⟨first, st1⟩, h1, h⟩ := bind_ok h
        obtain ⟨ts₀, e₀, hc0, hd0, hf⟩ := ihS hokr _ _ _ _ h1
        obtain ⟨ts, e, hc, hd, ha⟩ := tierLoop_sound (ihS hokr) _ _ _ _ _ h ts₀ e₀ (.tierUp hd0) hf
        exact ⟨ts₀ ++ ts, e, hc0.append hc, hd, ha⟩
    | unary =>
      obtain ⟨hnu, hokr⟩ := okStages_unary hok
      cases f with
      | zero => simp [parseChain] at h
      | succ f =>
        simp only [parseChain] at h
        obtain ⟨⟨minus, st1⟩, h1, h⟩ := bind_ok h
        obtain ⟨⟨x, st2⟩, h2, h⟩ := bind_ok h
        simp only [pure, Except.pure, Except.ok.injEq, Prod.mk.injEq] at h
        obtain ⟨n, hcn, hm, _, hsg⟩ := skipMinus_sound_signed (cfg := cfg) _ _ _ _ _ h1
        obtain ⟨ts₀, e₀, hc0, hd0, hx⟩ := ihS hokr _ _ _ _ h2
        refine ⟨List.replicate n (T.op "-") ++ ts₀, negs n e₀, ?_, derivesS_negs hd0 n, ?_⟩
        · rw [← h.2]; exact hcn.append hc0
        · rw [toAst_negs (derivesS_not_neg hd0 hnu), ← h.1, hm, hx, hsg]
          by_cases hn : n % 2 = 1
          · simp [hn]
          · by_cases hz : n = 0 <;> simp [hn, hz]

/-- soundness at tier `k` of the XPath grammar: running the suffix of the computed stage list that
starts at tier `k` consumes a chain which `Spec.Grammar.Derives` at tier `k`, and returns its tree -/
theorem parseChain_sound_tier {cfg : PCfg} {k f : Nat} (hk : k ≤ 8) {st st' : PState} {a : Ast}
    (h : parseChain f cfg (stages.drop k) st = .ok (a, st')) :
    ∃ ts e, Consumes cfg st ts st' ∧ Derives k ts e ∧ a = e.toAst := by
  obtain ⟨ts, e, hc, hd, ha⟩ := parseChain_sound (stages.drop k) (okStages_drop k) _ _ _ _ h
  exact ⟨ts, e, hc, (derivesS_iff_grammar hk).1 hd, ha⟩

/-- soundness of `parseExpression` (which only adds the depth bookkeeping around the chain) -/
theorem parseExpression_sound {ns : Option (List (String × String))} {f : Nat} {st st' : PState} {a : Ast}
    (h : parseExpression f (defaultCfg ns) st = .ok (a, st')) :
    ∃ ts e st'', Consumes (defaultCfg ns) { st with d := st.d + 1 } ts st'' ∧
      st' = { st'' with d := st''.d - 1 } ∧ Derives 0 ts e ∧ a = e.toAst := by
  cases f with
  | zero => simp [parseExpression] at h
  | succ f =>
    obtain ⟨st'', h1, hst, _⟩ := parseExpression_chain h
    obtain ⟨ts, e, hc, hd, ha⟩ := parseChain_sound_tier (k := 0) (by omega) h1
    exact ⟨ts, e, st'', hc, hst, hd, ha⟩

/-! ## 4. the parse tree is the one the XPath 1.0 grammar assigns -/

/-- **C10**: `parseExpression` succeeds with tree `a` ⇒ it consumed a chain `ts` of atoms (the trees
of its `parsePathExpr` calls) and operator tokens; the XPath 1.0 grammar derives `ts`; and for EVERY
`e` the grammar derives from `ts` at the `OrExpr` tier, `a` is the tree of `e`. -/
theorem C10_main {ns : Option (List (String × String))} {f : Nat} {st st' : PState} {a : Ast}
    (h : parseExpression f (defaultCfg ns) st = .ok (a, st')) :
    ∃ ts st'', Consumes (defaultCfg ns) { st with d := st.d + 1 } ts st'' ∧
      st' = { st'' with d := st''.d - 1 } ∧
      (∃ e, Derives 0 ts e) ∧ ∀ e, Derives 0 ts e → a = e.toAst := by
  obtain ⟨ts, e, st'', hc, hst, hd, ha⟩ := parseExpression_sound h
  refine ⟨ts, st'', hc, hst, ⟨e, hd⟩, ?_⟩
  intro e' hd'
  rw [ha, derives_unique hd hd']

/-- the same for a whole text: `parse` returns the grammar's tree of the chain that covers the text
up to the end-of-input token -/
theorem C10_parse {ns : Option (List (String × String))} {fuel : Nat} {text : List Char} {a : Ast}
    (h : parse fuel (defaultCfg ns) text = .ok a) :
    ∃ s ts st', Scan.init text = .ok s ∧ Consumes (defaultCfg ns) { s := s, d := 1 } ts st' ∧
      st'.s.typ = .eof ∧ (∃ e, Derives 0 ts e) ∧ ∀ e, Derives 0 ts e → a = e.toAst := by
  simp only [parse] at h
  split at h
  · cases h
  · rename_i s hs
    obtain ⟨⟨a', st1⟩, h1, h⟩ := bind_ok h
    split at h
    · rename_i heof
      simp only [pure, Except.pure, Except.ok.injEq] at h
      subst h
      obtain ⟨ts, st'', hc, hst, hex, hall⟩ := C10_main h1
      refine ⟨s, ts, st'', hs, hc, ?_, hex, hall⟩
      rw [hst] at heof
      simpa using heof
    · cases h

/-! ## the executable reference parser `refTier` is sound for the grammar

so whenever `refTier` accepts the chain the parser consumed, the parser's tree is the reference tree
(this is what the harness compares on generated chains via `refParse`) -/

/-- the stage list `refTier` still has to go through in state `(tl, low)` -/
def stagesOf (tl : List (List String)) (low : Bool) : List Stage :=
  tl.map Stage.tier ++ (if low then [] else Stage.unary :: lowerTiers.map Stage.tier)

theorem stagesOf_upper : stagesOf upperTiers false = stages := by decide

theorem isOpIn_some {ops : List String} {t : T} {op : String} (h : isOpIn ops t = some op) :
    t = .op op ∧ op ∈ ops := by
  cases t with
  | atom a => simp [isOpIn] at h
  | op s =>
    simp only [isOpIn] at h
    split at h
    · rename_i hc
      simp only [Option.some.injEq] at h
      subst h
      exact ⟨rfl, by simpa using hc⟩
    · cases h

theorem ref_sound : ∀ f : Nat,
    (∀ tl low toks e r, refTier f tl low toks = some (e, r) →
      ∃ ts, toks = ts ++ r ∧ DerivesS (stagesOf tl low) ts e) ∧
    (∀ ops more low acc toks e r, refLoop f ops more low acc toks = some (e, r) →
      ∀ ts₀, DerivesS (.tier ops :: stagesOf more low) ts₀ acc →
        ∃ ts, toks = ts ++ r ∧ DerivesS (.tier ops :: stagesOf more low) (ts₀ ++ ts) e) := by
  intro f
  induction f with
  | zero =>
    refine ⟨?_, ?_⟩
    · intro tl low toks e r h; simp [refTier] at h
    · intro ops more low acc toks e r h; simp [refLoop] at h
  | succ f ih =>
    obtain ⟨ihT, ihL⟩ := ih
    refine ⟨?_, ?_⟩
    · intro tl low toks e r h
      cases tl with
      | nil =>
        cases low with
        | false =>
          have hs : stagesOf [] false = .unary :: stagesOf lowerTiers true := by simp [stagesOf]
          simp only [refTier] at h
          split at h
          · rename_i rest
            split at h
            · rename_i e' r' hr
              simp only [Option.some.injEq, Prod.mk.injEq] at h
              obtain ⟨ts, hts, hd⟩ := ihT _ _ _ _ _ hr
              refine ⟨.op "-" :: ts, by rw [hts, ← h.2]; rfl, ?_⟩
              rw [← h.1]
              exact .neg hd
            · cases h
          · obtain ⟨ts, hts, hd⟩ := ihT _ _ _ _ _ h
            exact ⟨ts, hts, by rw [hs]; exact .unaryUp hd⟩
        | true =>
          simp only [refTier] at h
          split at h
          · rename_i a rest
            simp only [Option.some.injEq, Prod.mk.injEq] at h
            refine ⟨[.atom a], by rw [← h.2]; rfl, ?_⟩
            rw [← h.1]
            exact .atom a
          · cases h
      | cons ops more =>
        have hs : stagesOf (ops :: more) low = .tier ops :: stagesOf more low := by simp [stagesOf]
        simp only [refTier] at h
        split at h
        · rename_i e' rest hr
          obtain ⟨ts₁, hts₁, hd₁⟩ := ihT _ _ _ _ _ hr
          obtain ⟨ts, hts, hd⟩ := ihL _ _ _ _ _ _ _ h ts₁ (.tierUp hd₁)
          exact ⟨ts₁ ++ ts, by rw [hts₁, hts, List.append_assoc], by rw [hs]; exact hd⟩
        · cases h
    · intro ops more low acc toks e r h ts₀ hd₀
      simp only [refLoop] at h
      split at h
      · rename_i t rest
        split at h
        · rename_i op hop
          obtain ⟨rfl, hmem⟩ := isOpIn_some hop
          split at h
          · rename_i e' r' hr
            obtain ⟨ts₂, hts₂, hd₂⟩ := ihT _ _ _ _ _ hr
            obtain ⟨ts, hts, hd⟩ := ihL _ _ _ _ _ _ _ h (ts₀ ++ [.op op] ++ ts₂) (.tierOp hmem hd₀ hd₂)
            refine ⟨.op op :: (ts₂ ++ ts), by rw [hts₂, hts]; simp, ?_⟩
            simpa using hd
          · cases h
        · simp only [Option.some.injEq, Prod.mk.injEq] at h
          exact ⟨[], by simp [h.2], by simpa [← h.1] using hd₀⟩
      · simp only [Option.some.injEq, Prod.mk.injEq] at h
        exact ⟨[], by simp [← h.2], by simpa [← h.1] using hd₀⟩

/-- what the reference parser accepts entirely is derived by the grammar -/
theorem refTier_sound {f : Nat} {ts : List T} {e : E} (h : refTier f upperTiers false ts = some (e, [])) :
    Derives 0 ts e := by
  obtain ⟨ts', hts, hd⟩ := (ref_sound f).1 _ _ _ _ _ h
  rw [stagesOf_upper] at hd
  simp only [List.append_nil] at hts
  subst hts
  exact derivesS_to_grammar hd 0 (by omega) rfl

/-- the parser agrees with the executable reference on every chain the reference accepts -/
theorem C10_ref {ns : Option (List (String × String))} {f : Nat} {st st' : PState} {a : Ast}
    (h : parseExpression f (defaultCfg ns) st = .ok (a, st')) :
    ∃ ts st'', Consumes (defaultCfg ns) { st with d := st.d + 1 } ts st'' ∧
      st' = { st'' with d := st''.d - 1 } ∧
      ∀ fuel e, refTier fuel upperTiers false ts = some (e, []) → a = e.toAst := by
  obtain ⟨ts, st'', hc, hst, _, hall⟩ := C10_main h
  exact ⟨ts, st'', hc, hst, fun fuel e hr => hall e (refTier_sound hr)⟩

/-! ## token rules: the operator token of a chain is determined by the scanner token -/

/-- the scanner token (and, for the word operators, the name) an operator spelling stands for -/
def opKey (op : String) : Tok × String :=
  match op with
  | "=" => (.eq, "") | "!=" => (.ne, "")
  | "<" => (.lt, "") | ">" => (.gt, "") | "<=" => (.le, "") | ">=" => (.ge, "")
  | "+" => (.plus, "") | "-" => (.minus, "")
  | "*" => (.star, "") | "|" => (.union, "")
  | w => (.name, w)

theorem tokMatches_key {s : Scan} : ∀ op ∈ allOps, tokMatches s op = true →
    opKey op = (s.typ, if s.typ = .name then s.name else "") := by
  intro op hop h
  simp only [allOps, List.mem_cons, List.not_mem_nil, or_false] at hop
  rcases hop with rfl | rfl | rfl | rfl | rfl | rfl | rfl | rfl | rfl | rfl | rfl | rfl | rfl | rfl
  all_goals (simp [tokMatches] at h; simp [opKey, h])

theorem opKey_inj : ∀ o₁ ∈ allOps, ∀ o₂ ∈ allOps, opKey o₁ = opKey o₂ → o₁ = o₂ := by decide

/-- one scanner token is at most one operator of the XPath vocabulary: the `.op` entries of a
consumed chain are determined by the tokens -/
theorem tokMatches_unique {s : Scan} {o₁ o₂ : String} (h1 : o₁ ∈ allOps) (h2 : o₂ ∈ allOps)
    (m1 : tokMatches s o₁ = true) (m2 : tokMatches s o₂ = true) : o₁ = o₂ :=
  opKey_inj o₁ h1 o₂ h2 (by rw [tokMatches_key o₁ h1 m1, tokMatches_key o₂ h2 m2])

/-- the operator tokens of a derivable chain belong to the stage list's vocabulary -/
theorem derivesS_ops {S : List Stage} {ts : List T} {e : E} (h : DerivesS S ts e) :
    ∀ o, T.op o ∈ ts → o ∈ stageOps S ∨ (o = "-" ∧ Stage.unary ∈ S) := by
  induction h with
  | atom a => intro o ho; simp at ho
  | tierUp _ ih =>
    intro o ho
    rcases ih o ho with h1 | ⟨h1, h2⟩
    · exact .inl (by simp [stageOps, h1])
    · exact .inr ⟨h1, List.mem_cons_of_mem _ h2⟩
  | tierOp hop _ _ ih1 ih2 =>
    intro o ho
    simp only [List.mem_append, List.mem_singleton, T.op.injEq] at ho
    rcases ho with (ho | rfl) | ho
    · exact ih1 o ho
    · exact .inl (by simp [stageOps, hop])
    · rcases ih2 o ho with h1 | ⟨h1, h2⟩
      · exact .inl (by simp [stageOps, h1])
      · exact .inr ⟨h1, List.mem_cons_of_mem _ h2⟩
  | unaryUp _ ih =>
    intro o ho
    rcases ih o ho with h1 | ⟨h1, h2⟩
    · exact .inl (by simpa [stageOps] using h1)
    · exact .inr ⟨h1, List.mem_cons_of_mem _ h2⟩
  | neg _ ih =>
    intro o ho
    simp only [List.mem_cons, T.op.injEq] at ho
    rcases ho with rfl | ho
    · exact .inr ⟨rfl, List.mem_cons_self⟩
    · exact ih o ho

/-- every operator token of a chain the grammar derives is one of the fourteen XPath operators -/
theorem derives_ops {k : Nat} {ts : List T} {e : E} (h : Derives k ts e) : ∀ o, T.op o ∈ ts → o ∈ allOps := by
  intro o ho
  have hd := (grammar_to_derivesS h).2
  rcases derivesS_ops hd o ho with h1 | ⟨rfl, _⟩
  · have : o ∈ stageOps stages := by
      have hsub : ∀ (S : List Stage) (k : Nat), o ∈ stageOps (S.drop k) → o ∈ stageOps S := by
        intro S
        induction S with
        | nil => intro k hk; simpa using hk
        | cons s S ih =>
          intro k hk
          cases k with
          | zero => simpa using hk
          | succ k =>
            have := ih k (by simpa using hk)
            cases s <;> simp [stageOps, this]
      exact hsub stages k h1
    rw [← stageOps_stages]; exact this
  · decide

/-! ## examples: precedence, associativity, unary minus -/

deriving instance DecidableEq for XPathV.Spec.Grammar.E
deriving instance DecidableEq for XPathV.Spec.Grammar.T

/-- the name test `child::s` -/
def nm (s : String) : Ast := Ast.axis ⟨"child", .elem, "", s, "", false, ""⟩ .none

/-- the model parser on a text -/
def parseText (t : String) : Option Ast := (parse (fuelFor t.toList) (defaultCfg none) t.toList).toOption

/-- `a - b - c` is `(a - b) - c` -/
example : Derives 0 [.atom (nm "a"), .op "-", .atom (nm "b"), .op "-", .atom (nm "c")]
      (.bin "-" (.bin "-" (.atom (nm "a")) (.atom (nm "b"))) (.atom (nm "c"))) ∧
    parseText "a - b - c" = some (.oper "-" (.oper "-" (nm "a") (nm "b")) (nm "c")) :=
  ⟨refTier_sound (f := 40) (by decide), by decide +kernel⟩

/-- `a or b and c` is `a or (b and c)` -/
example : Derives 0 [.atom (nm "a"), .op "or", .atom (nm "b"), .op "and", .atom (nm "c")]
      (.bin "or" (.atom (nm "a")) (.bin "and" (.atom (nm "b")) (.atom (nm "c")))) ∧
    parseText "a or b and c" = some (.oper "or" (nm "a") (.oper "and" (nm "b") (nm "c"))) :=
  ⟨refTier_sound (f := 40) (by decide), by decide +kernel⟩

/-- `- a * b` is `(-a) * b`, with `-a` encoded as `a * -1` -/
example : Derives 0 [.op "-", .atom (nm "a"), .op "*", .atom (nm "b")]
      (.bin "*" (.neg (.atom (nm "a"))) (.atom (nm "b"))) ∧
    (E.bin "*" (.neg (.atom (nm "a"))) (.atom (nm "b"))).toAst =
      .oper "*" (.oper "*" (nm "a") (.num "-1")) (nm "b") ∧
    parseText "- a * b" = some (.oper "*" (.oper "*" (nm "a") (.num "-1")) (nm "b")) :=
  ⟨refTier_sound (f := 40) (by decide), by simp [E.toAst, E.toAst.negAst], by decide +kernel⟩

/-- `a | b * c` is `(a | b) * c` -/
example : Derives 0 [.atom (nm "a"), .op "|", .atom (nm "b"), .op "*", .atom (nm "c")]
      (.bin "*" (.bin "|" (.atom (nm "a")) (.atom (nm "b"))) (.atom (nm "c"))) ∧
    parseText "a | b * c" = some (.oper "*" (.oper "|" (nm "a") (nm "b")) (nm "c")) :=
  ⟨refTier_sound (f := 40) (by decide), by decide +kernel⟩

/-- `-a | b` is `-(a | b)`: the union binds tighter than the unary minus -/
example : Derives 0 [.op "-", .atom (nm "a"), .op "|", .atom (nm "b")]
      (.neg (.bin "|" (.atom (nm "a")) (.atom (nm "b")))) ∧
    (E.neg (.bin "|" (.atom (nm "a")) (.atom (nm "b")))).toAst =
      .oper "*" (.oper "|" (nm "a") (nm "b")) (.num "-1") ∧
    parseText "-a | b" = some (.oper "*" (.oper "|" (nm "a") (nm "b")) (.num "-1")) :=
  ⟨refTier_sound (f := 40) (by decide), by simp [E.toAst, E.toAst.negAst], by decide +kernel⟩

/-- `- - a` is `(a * -1) * -1` (the pair cancels numerically, the operand is still converted to a
number), `a - - b` is `a - (-b)`, `a * - b` multiplies by the negation -/
example : parseText "- - a" = some (.oper "*" (.oper "*" (nm "a") (.num "-1")) (.num "-1")) ∧
    parseText "- - - a" = some (.oper "*" (nm "a") (.num "-1")) ∧
    parseText "a - - b" = some (.oper "-" (nm "a") (.oper "*" (nm "b") (.num "-1"))) ∧
    parseText "a * - b" = some (.oper "*" (nm "a") (.oper "*" (nm "b") (.num "-1"))) ∧
    parseText "a = b < c" = some (.oper "=" (nm "a") (.oper "<" (nm "b") (nm "c"))) ∧
    parseText "a div b mod c" = some (.oper "mod" (.oper "div" (nm "a") (nm "b")) (nm "c")) := by
  decide +kernel

/-- and by uniqueness these are the ONLY trees: e.g. `a - b - c` is not `a - (b - c)` -/
example : ¬ Derives 0 [.atom (nm "a"), .op "-", .atom (nm "b"), .op "-", .atom (nm "c")]
      (.bin "-" (.atom (nm "a")) (.bin "-" (.atom (nm "b")) (.atom (nm "c")))) := by
  intro h
  have h' : Derives 0 [.atom (nm "a"), .op "-", .atom (nm "b"), .op "-", .atom (nm "c")]
      (.bin "-" (.bin "-" (.atom (nm "a")) (.atom (nm "b"))) (.atom (nm "c"))) :=
    refTier_sound (f := 40) (by decide)
  exact absurd (derives_unique h h') (by decide)


end XPathV.Lemmas.ParserGrammar
