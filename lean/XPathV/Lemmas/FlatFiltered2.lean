import XPathV.Lemmas.FlatFiltered
import XPathV.Lemmas.PredSem2
/-!
# C12, first half — flat paths with the predicates of the whole C02 fragment `Frag2`

`FlatFiltered.flatFrag_main` states that the plan `build` makes of a flat path (child / attribute /
self steps from the context node or the root) whose predicates are in `PredSem.Frag false` yields a
*sequence* that is the oracle's document-ordered node list, element by element.  The C02 fragment
has grown to `PredSem2.Frag2` (`count(P) op n`, `not(count(P))`, `contains(S, T)` …,
`local-name(…) = 'lit'`, path `op` path, path `op` string literal, `(P)[b]` inside predicates).
This module lifts the statement:

* `flatFrag2_main` — for `Frag2 true p` and `FlatAny p` (the pair `Frag2`'s own constructors
  `countR`, `strPath` … use): `sel` succeeds, the sequence is strictly increasing in document order
  and duplicate-free, the oracle yields a node list, the members agree — and the sequence *is* that
  list.
* `FlatFrag2` — the same shape as `FlatFiltered.FlatFrag` with the predicates in `Frag2 false`;
  `FlatFrag2.flatAny`, `FlatFrag2.frag2`; `flatFrag2_main_frag` is `flatFrag2_main` stated for it.
* `flatFrag2_of_flatFrag`: `FlatFrag ⊆ FlatFrag2`; `flatFrag2_iff`: `FlatFrag2 p ↔ Frag2 true p ∧
  FlatAny p`, i.e. the two ways of stating the hypothesis coincide.
-/
namespace XPathV.FlatFiltered2
open XPathV XPathV.Model XPathV.PathSem XPathV.PredSem XPathV.PredSem2 XPathV.FlatFiltered
open XPathV.ArithSem (flatAxes flatAxes_axes12)

variable {F : Type} [NumAlg F]

/-! ## the fragment -/

/-- flat paths with the boolean-valued predicates of the whole C02 fragment (`PredSem2.Frag2 false`:
those of `PredSem.Frag false` and `count(P) op n`, `n op count(P)`, `not(count(P))`, the string
tests `contains`/`starts-with`/`ends-with`, `local-name(…) = 'lit'`, path `op` path, path `op`
string literal, either side; the paths inside predicates range over all twelve axes, and may be
parenthesised filters) on any step -/
inductive FlatFrag2 : Ast → Prop
  | none : FlatFrag2 .none
  | root (s : String) : FlatFrag2 (.root s)
  | axis (a : AxisInfo) (inp : Ast) : a.axis ∈ flatAxes → FlatFrag2 inp → FlatFrag2 (.axis a inp)
  | filter (inp b : Ast) : FlatFrag2 inp → Frag2 false b → FlatFrag2 (.filter inp b)

theorem FlatFrag2.flatAny {p : Ast} (h : FlatFrag2 p) : FlatAny p := by
  induction h with
  | none => exact .none
  | root s => exact .root s
  | axis a inp ha _ ih => exact .axis a inp ha ih
  | filter inp b _ _ ih => exact .filter inp b ih

theorem FlatFrag2.frag2 {p : Ast} (h : FlatFrag2 p) : Frag2 true p := by
  induction h with
  | none => exact .none
  | root s => exact .root s
  | axis a inp ha _ ih => exact .axis a inp ih (flatAxes_axes12 ha)
  | filter inp b _ hb ih => exact .filter inp b ih hb

/-- the old fragment is contained in the new one -/
theorem flatFrag2_of_flatFrag {p : Ast} (h : FlatFrag p) : FlatFrag2 p := by
  induction h with
  | none => exact .none
  | root s => exact .root s
  | axis a inp ha _ ih => exact .axis a inp ha ih
  | filter inp b _ hb ih => exact .filter inp b ih (frag2_of_frag false b hb)

/-- a path of `Frag2` that is flat is a member of `FlatFrag2` -/
theorem flatFrag2_of_frag2_flatAny {p : Ast} (hflat : FlatAny p) : Frag2 true p → FlatFrag2 p := by
  induction hflat with
  | none => exact fun _ => .none
  | root s => exact fun _ => .root s
  | axis a inp ha _ ih =>
    intro hp
    cases hp with
    | axis _ _ hinp _ => exact .axis a inp ha (ih hinp)
  | filter inp b hinp ih =>
    intro hp
    cases hp with
    | filter _ _ hi hb => exact .filter inp b (ih hi) hb
    | gfilter q _ _ _ => cases hinp

/-- the two ways of stating the hypothesis coincide -/
theorem flatFrag2_iff (p : Ast) : FlatFrag2 p ↔ Frag2 true p ∧ FlatAny p :=
  ⟨fun h => ⟨h.frag2, h.flatAny⟩, fun h => flatFrag2_of_frag2_flatAny h.2 h.1⟩

/-! ## the engine's sequence *is* the oracle's list -/

section Main
variable {d : Doc} (wf : WF d) (cfg : ECfg) (hns : cfg.nsIface = true) (hinj : HashInj d cfg)
  (regexOk : RegexOk) (limit : Nat)
include wf hns hinj

/-- **C12 for `build`, flat paths with the predicates of the whole C02 fragment on any step**: the
plan the builder makes (plain filters or the merge form) succeeds from every valid context node; its
sequence is strictly increasing in document order, repeats no node, has exactly the members of the
oracle's node-set — and therefore *is* the oracle's node list, element by element -/
theorem flatFrag2_main (p : Ast) (hp : Frag2 true p) (hflat : FlatAny p) (st : BState) (o : BOut)
    (hb : build regexOk limit true false p {} st = .ok o) (c : Ref) (hc : validRef d c = true) :
    ∃ l ns g, sel (F := F) d cfg o.q c = .ok l ∧
      (refs l).Pairwise (fun a b => Ref.lt a b = true) ∧ (refs l).Nodup ∧
      Spec.eval (F := F) d p ⟨c, 1, 1⟩ = .ok (.val (.nodes ns) g) ∧
      (∀ x, x ∈ refs l ↔ x ∈ ns) ∧ refs l = ns := by
  obtain ⟨l, ns, g, h1, h2, h3⟩ :=
    C02_main2 (F := F) wf cfg hns hinj regexOk limit p hp st o hb c hc
  obtain ⟨hs, hn⟩ := flatAny_sorted (F := F) wf cfg regexOk limit true false p hflat {} st o hb c l h1
  exact ⟨l, ns, g, h1, hs, hn, h2, h3,
    FlatFiltered.sorted_ext _ _ hs (flatAny_spec_sorted (F := F) d p hflat _ ns g h2) h3⟩

/-- `flatFrag2_main` stated for the inductive fragment `FlatFrag2` -/
theorem flatFrag2_main_frag (p : Ast) (hp : FlatFrag2 p) (st : BState) (o : BOut)
    (hb : build regexOk limit true false p {} st = .ok o) (c : Ref) (hc : validRef d c = true) :
    ∃ l ns g, sel (F := F) d cfg o.q c = .ok l ∧
      (refs l).Pairwise (fun a b => Ref.lt a b = true) ∧ (refs l).Nodup ∧
      Spec.eval (F := F) d p ⟨c, 1, 1⟩ = .ok (.val (.nodes ns) g) ∧
      (∀ x, x ∈ refs l ↔ x ∈ ns) ∧ refs l = ns :=
  flatFrag2_main (F := F) wf cfg hns hinj regexOk limit p hp.frag2 hp.flatAny st o hb c hc

end Main

end XPathV.FlatFiltered2

/-! ## Axiom audit -/
section AxiomAudit
open XPathV.FlatFiltered2
end AxiomAudit
