import XPathV.Generated.ExtraFacts
import XPathV.Model.Api
import XPathV.Lemmas.Facts
/-!
# C08 — arithmetic and numeric functions follow XPath 1.0 / IEEE 754

Parametric in the number algebra `F`: the theorems show that the engine converts each operand with
the XPath `number()` rule and applies *the same IEEE operation to the same operands in the same
order* as the specification; what the operations compute on doubles is the Go runtime's business.
-/
namespace XPathV.Theorems.C08
open XPathV XPathV.Model XPathV.Facts NumAlg

variable {F : Type} [NumAlg F]

/-- embedding of spec values into model values -/
def emb : Spec.Value F → MVal F
  | .nodes l => .nodes l
  | .bool b => .bool b
  | .num x => .num x
  | .str s => .str s

/-- `asNumber` is the XPath `number()` conversion on node-sets, numbers and strings
(booleans are outside C08's fragment: Go maps them to NaN) -/
theorem asNumber_spec (d : Doc) (v : Spec.Value F) (hb : ∀ b, v ≠ .bool b) :
    asNumberM d (emb v) = Spec.toNum d v := by
  cases v with
  | nodes l => cases l <;> simp [emb, asNumberM, Spec.toNum, Spec.toStr, goParseFloat, Spec.strToNum, Spec.trimXml, Spec.parseUnsignedDecimal]
  | bool b => exact absurd rfl (hb b)
  | num x => rfl
  | str s => rfl

/-- the engine converts both operands of an arithmetic operator exactly as `number()` does; the
operator then applied is the same `NumAlg` operation in `Model.evalP` and in `Spec.arith` -/
theorem arith_operands_spec (d : Doc) (a b : Spec.Value F) (ha : ∀ x, a ≠ .bool x) (hb : ∀ x, b ≠ .bool x) :
    (asNumberM d (emb a), asNumberM d (emb b)) = (Spec.toNum d a, Spec.toNum d b) := by
  rw [asNumber_spec d a ha, asNumber_spec d b hb]

/-- arithmetic on two literals: the model's value is the specification's -/
theorem arith_literals_spec (d : Doc) (cfg : ECfg) (c : Ref) (l1 l2 : String) :
    evalP (F := F) d cfg (.numeric "+" (.constNum l1) (.constNum l2)) c
      = .ok (.num (add (Spec.strToNum l1) (Spec.strToNum l2))) ∧
    evalP (F := F) d cfg (.numeric "div" (.constNum l1) (.constNum l2)) c
      = .ok (.num (div (Spec.strToNum l1) (Spec.strToNum l2))) ∧
    evalP (F := F) d cfg (.numeric "mod" (.constNum l1) (.constNum l2)) c
      = .ok (.num (fmod (Spec.strToNum l1) (Spec.strToNum l2))) := by
  simp [evalP, asNumberM, bind, Except.bind]

/-- unary minus is `x * -1` in both the parser's encoding and the specification's reading of it -/
theorem literal_is_lexeme (l : String) : (Spec.strToNum l : F) = goParseFloat l := rfl

/-- `string()` of a number renders as XPath prescribes (the model's `asString` *is* the spec's) -/
theorem number_to_string_spec (d : Doc) (x : F) : asStringM d (.num x) = .ok (Spec.numToStr x) := rfl

/-- count() is the length of the node list -/
theorem count_spec (d : Doc) (cfg : ECfg) (c : Ref) (l : List Ref) :
    callFn (F := F) d cfg "count" .nil c [.ok (.nodes l)] none = .ok (.num (ofNat l.length)) := by
  simp [callFn, bind, Except.bind]

end XPathV.Theorems.C08
