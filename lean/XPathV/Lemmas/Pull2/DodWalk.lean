import XPathV.Lemmas.Pull2.Walks
/-!
# Walk lemmas for `descendantOverDescendantQuery`

* `topMost_unfold`: the fuel of `topMostFrom` is never the limit on sibling chains; the top-most
  matching descendants of `s` are the `topOf`-expansions of its children
* `moveNext_parent`, `moveChild_parent`: siblings share the parent, the first child's parent
* `dodUp_spec`, `dodInner_spec`: the two loops of `Select` against `dodRest`
-/
namespace XPathV.Model
open XPathV

section
variable (d : Doc) (t : Ref → Bool)

/-! ## `topMostFrom` on sibling chains -/

/-- a sibling chain: every tail is the list of following siblings of its head -/
def chainOK : List Ref → Prop
  | [] => True
  | c :: cs => cs = sibCands d c false

def chainB : List Ref → Nat
  | [] => 0
  | c :: _ => (d.length - c.idx) + 1

theorem chainOK_children (c : Ref) : chainOK d (childrenM d c) := by
  have hu := sibCands_unfold d c true
  simp only [sibCands, if_true] at hu
  rw [hu]
  cases Nav.moveChild d c with
  | none => trivial
  | some ch => simp only [chainOK, sibCands, Bool.false_eq_true, if_false]

theorem chainOK_tail {c : Ref} {cs : List Ref} (h : chainOK d (c :: cs)) : chainOK d cs := by
  simp only [chainOK] at h
  rw [h, sibCands_unfold d c false]
  simp only [Bool.false_eq_true, if_false]
  cases Nav.moveNext d c with
  | none => trivial
  | some n => simp only [chainOK]

theorem chainB_children (c : Ref) : chainB d (childrenM d c) + 1 ≤ chainB d [c] := by
  have hu := sibCands_unfold d c true
  simp only [sibCands, if_true] at hu
  rw [hu]
  cases hm : Nav.moveChild d c with
  | none => simp [chainB]
  | some ch =>
    obtain ⟨i, rfl, rfl, hi⟩ := moveChild_some hm
    simp only [chainB, Ref.idx]; omega

theorem chainB_tail {c : Ref} {cs : List Ref} (h : chainOK d (c :: cs)) : chainB d cs + 1 ≤ chainB d (c :: cs) := by
  simp only [chainOK] at h
  rw [h, sibCands_unfold d c false]
  simp only [Bool.false_eq_true, if_false]
  cases hm : Nav.moveNext d c with
  | none => simp [chainB]
  | some n =>
    obtain ⟨i, j, rfl, rfl, hij, hj, _⟩ := moveNext_some hm
    simp only [chainB, Ref.idx]; omega

theorem topMostFrom_nil (f : Nat) : topMostFrom d t f [] = [] := by
  cases f <;> rfl

theorem topMostFrom_stable : ∀ (k : Nat) (l : List Ref), chainOK d l → chainB d l ≤ k →
    ∀ f f', chainB d l ≤ f → chainB d l ≤ f' → topMostFrom d t f l = topMostFrom d t f' l := by
  intro k
  induction k with
  | zero =>
    intro l hl hk f f' _ _
    cases l with
    | nil => rw [topMostFrom_nil, topMostFrom_nil]
    | cons c cs => simp [chainB] at hk
  | succ k ih =>
    intro l hl hk f f' hf hf'
    cases l with
    | nil => rw [topMostFrom_nil, topMostFrom_nil]
    | cons c cs =>
      have hb1 := chainB_children d c
      have hb2 := chainB_tail d hl
      have hbc : chainB d [c] = chainB d (c :: cs) := rfl
      obtain ⟨f1, rfl⟩ : ∃ f1, f = f1 + 1 := ⟨f - 1, by simp only [chainB] at hf; omega⟩
      obtain ⟨f2, rfl⟩ : ∃ f2, f' = f2 + 1 := ⟨f' - 1, by simp only [chainB] at hf'; omega⟩
      simp only [topMostFrom]
      rw [ih (childrenM d c) (chainOK_children d c) (by omega) f1 f2 (by omega) (by omega),
        ih cs (chainOK_tail d hl) (by omega) f1 f2 (by omega) (by omega)]

theorem chainB_le (l : List Ref) : chainB d l ≤ d.length + 1 := by
  cases l with
  | nil => simp [chainB]
  | cons c cs => simp only [chainB]; omega

/-- `topMostFrom` at the fuel `topMost` uses -/
def TM (l : List Ref) : List Ref := topMostFrom d t (2 * d.length + 2) l

theorem TM_cons {c : Ref} {cs : List Ref} (h : chainOK d (c :: cs)) :
    TM d t (c :: cs) = (if t c then [c] else TM d t (childrenM d c)) ++ TM d t cs := by
  unfold TM
  have e : 2 * d.length + 2 = (2 * d.length + 1) + 1 := rfl
  rw [e, topMostFrom]
  have h1 := chainB_le d (childrenM d c)
  have h2 := chainB_le d cs
  rw [topMostFrom_stable d t _ (childrenM d c) (chainOK_children d c) (Nat.le_refl _) (2 * d.length + 1)
      (2 * d.length + 1 + 1) (by omega) (by omega),
    topMostFrom_stable d t _ cs (chainOK_tail d h) (Nat.le_refl _) (2 * d.length + 1)
      (2 * d.length + 1 + 1) (by omega) (by omega)]

theorem topOf_eq (c : Ref) : topOf d t c = if t c then [c] else TM d t (childrenM d c) := rfl

theorem TM_flat : ∀ (l : List Ref), chainOK d l → TM d t l = l.flatMap (topOf d t)
  | [], _ => by simp [TM, topMostFrom_nil]
  | c :: cs, h => by
    rw [TM_cons d t h, TM_flat cs (chainOK_tail d h), List.flatMap_cons, topOf_eq]

/-- the top-most matching proper descendants of `s`: expand every child -/
theorem topMost_unfold (s : Ref) : topMost d t s = (childrenM d s).flatMap (topOf d t) :=
  TM_flat d t _ (chainOK_children d s)

/-! ## parents of siblings and of the first child -/

theorem parentFrom_skip (di : Nat) : ∀ (j i : Nat), i ≤ j → (∀ k, i ≤ k → k < j → ¬ dep d k < di) →
    parentFrom d di j = parentFrom d di i
  | 0, i, h, _ => by have : i = 0 := by omega
                     subst this; rfl
  | j+1, i, h, hk => by
    by_cases hij : i = j + 1
    · subst hij; rfl
    · simp only [parentFrom]
      rw [if_neg (hk j (by omega) (by omega))]
      exact parentFrom_skip di j i (by omega) (fun k h1 h2 => hk k h1 (by omega))

theorem moveNext_parent {r n : Ref} (h : Nav.moveNext d r = some n) : Nav.moveParent d n = Nav.moveParent d r := by
  cases r with
  | attr i k => simp [Nav.moveNext] at h
  | node i =>
    simp only [Nav.moveNext] at h
    split at h
    · rename_i hc
      injection h with h; subst h
      simp only [Nav.moveParent, hc.2.2]
      rw [parentFrom_skip d (dep d i) (endOf d i) i (Nat.le_of_lt (endOf_gt d i))]
      intro k h1 h2
      rcases Nat.eq_or_lt_of_le h1 with h1 | h1
      · subst h1; omega
      · have := endOf_inside d i k h1 h2; omega
    · cases h

theorem moveChild_parent {s c : Ref} (h : Nav.moveChild d s = some c) : Nav.moveParent d c = some s := by
  cases s with
  | attr i k => simp [Nav.moveChild] at h
  | node i =>
    simp only [Nav.moveChild] at h
    split at h
    · rename_i hc
      injection h with h; subst h
      simp only [Nav.moveParent, parentFrom]
      rw [if_pos (by omega)]; rfl
    · cases h

/-! ## `dodRest` -/

theorem nextSibs_eq (c : Ref) : nextSibsM d c = sibCands d c false := by
  simp [sibCands]

theorem dodRest_zero (cn : Ref) : dodRest d t 0 cn = [] := rfl

theorem dodRest_succ (l : Nat) (cn : Ref) : dodRest d t (l+1) cn
    = (nextSibsM d cn).flatMap (topOf d t) ++
      (match Nav.moveParent d cn with
        | some p => dodRest d t l p
        | none => []) := rfl

/-- `dodRest` follows the climbing loop: if the climb finds a next node `n` (at level `l'`), what is
left is the expansion of `n` followed by what is left after `n`; if not, nothing is left -/
theorem dodRest_climb : ∀ (lv : Nat) (cn : Ref),
    match climb d (lv+1) cn with
    | some (n, l') => 1 ≤ l' ∧ dodRest d t (lv+1) cn = topOf d t n ++ dodRest d t l' n
    | none => dodRest d t (lv+1) cn = [] := by
  intro lv
  induction lv with
  | zero =>
    intro cn
    simp only [climb]
    cases hm : Nav.moveNext d cn with
    | some n =>
      simp only
      refine ⟨Nat.le_refl _, ?_⟩
      have hs : nextSibsM d cn = n :: nextSibsM d n := by
        rw [nextSibs_eq, sibCands_unfold, nextSibs_eq]; simp [hm]
      simp only [dodRest, hs, List.flatMap_cons, moveNext_parent d hm, List.append_assoc]
    | none =>
      have hs : nextSibsM d cn = [] := by
        rw [nextSibs_eq, sibCands_unfold]; simp [hm]
      cases hp : Nav.moveParent d cn <;> simp [dodRest, hs, hp]
  | succ lv ih =>
    intro cn
    rw [climb]
    cases hm : Nav.moveNext d cn with
    | some n =>
      simp only
      refine ⟨by omega, ?_⟩
      have hs : nextSibsM d cn = n :: nextSibsM d n := by
        rw [nextSibs_eq, sibCands_unfold, nextSibs_eq]; simp [hm]
      rw [dodRest_succ d t (lv+1) cn, hs, dodRest_succ d t (lv+1) n, moveNext_parent d hm]
      simp only [List.flatMap_cons, List.append_assoc]
    | none =>
      have hs : nextSibsM d cn = [] := by
        rw [nextSibs_eq, sibCands_unfold]; simp [hm]
      cases hp : Nav.moveParent d cn with
      | none =>
        simp only
        rw [dodRest_succ d t (lv+1) cn, hs, hp]; rfl
      | some p =>
        simp only
        have := ih p
        rw [dodRest_succ d t (lv+1) cn, hs, hp]
        simp only [List.flatMap_nil, List.nil_append]
        exact this

/-! ## The two loops -/

/-- `moveUpUntilNext` is the climbing loop of `descendantQuery` -/
theorem dodUp_pclimb : ∀ (lv : Nat) (cn : Ref), ∃ f0, ∀ f, f0 ≤ f →
    match pclimb d (lv+1) cn with
    | some (n, l') => dodUp d f cn (lv+1) = (.yield (n, l'), (n, l'))
    | none => ∃ cn', dodUp d f cn (lv+1) = (.done, (cn', 0)) := by
  intro lv
  induction lv with
  | zero =>
    intro cn
    refine ⟨1, fun f hf => ?_⟩
    obtain ⟨f', rfl⟩ : ∃ f', f = f' + 1 := ⟨f - 1, by omega⟩
    simp only [pclimb, dodUp]
    cases hm : Nav.moveNext d cn with
    | some n => simp
    | none => simp
  | succ lv ih =>
    intro cn
    obtain ⟨f0, h0⟩ := ih ((Nav.moveParent d cn).getD cn)
    refine ⟨f0 + 1, fun f hf => ?_⟩
    obtain ⟨f', rfl⟩ : ∃ f', f = f' + 1 := ⟨f - 1, by omega⟩
    rw [pclimb, dodUp]
    cases hm : Nav.moveNext d cn with
    | some n => simp
    | none =>
      simp only [Nat.add_sub_cancel]
      rw [if_neg (by simp)]
      exact h0 f' (by omega)

/-- `moveUpUntilNext` from `(cn, lv+1)`: either it finds a later node `n` and what is left is the
expansion of `n` and the rest after `n`, or it ends at level 0 and nothing is left -/
theorem dodUp_spec (lv : Nat) (cn : Ref) :
    (∃ f0 n l', (∀ f, f0 ≤ f → dodUp d f cn (lv+1) = (.yield (n, l'), (n, l'))) ∧ Good d n ∧ cn.idx < n.idx ∧
      1 ≤ l' ∧ dodRest d t (lv+1) cn = topOf d t n ++ dodRest d t l' n) ∨
    (∃ f0, (∀ f, f0 ≤ f → ∃ cn', dodUp d f cn (lv+1) = (.done, (cn', 0))) ∧ dodRest d t (lv+1) cn = []) := by
  obtain ⟨f0, h0⟩ := dodUp_pclimb d lv cn
  have hr := dodRest_climb d t lv cn
  rw [pclimb_eq] at h0
  cases hc : climb d (lv+1) cn with
  | none =>
    rw [hc] at hr
    exact Or.inr ⟨f0, fun f hf => by have := h0 f hf; rw [hc] at this; exact this, hr⟩
  | some nl =>
    obtain ⟨n, l'⟩ := nl
    rw [hc] at hr
    obtain ⟨h1, h2⟩ := climb_gt (lv+1) cn cn.idx (Nat.le_refl _) (fun k h1 h2 => by omega) hc
    exact Or.inl ⟨f0, n, l', fun f hf => by have := h0 f hf; rw [hc] at this; exact this, h2, h1, hr.1, hr.2⟩

/-- the inner loop from `(s, level)`: it descends along first children until a match (reported) or
a childless node -/
theorem dodInner_spec : ∀ (k : Nat) (s : Ref) (level : Nat), Good d s → d.length - s.idx ≤ k →
    ∃ f0 j l, Good d j ∧ level ≤ l ∧ s.idx ≤ j.idx ∧
      (((∀ f, f0 ≤ f → dodInner d t f s level = (.yield (), (j, l))) ∧
          topOf d t s ++ dodRest d t level s = j :: dodRest d t l j) ∨
       ((∀ f, f0 ≤ f → dodInner d t f s level = (.done, (j, l))) ∧
          topOf d t s ++ dodRest d t level s = dodRest d t l j)) := by
  intro k
  induction k with
  | zero => intro s level hg hk; simp only [Good] at hg; omega
  | succ k ih =>
    intro s level hg hk
    by_cases hts : t s = true
    · refine ⟨1, s, level, hg, Nat.le_refl _, Nat.le_refl _, Or.inl ⟨fun f hf => ?_, ?_⟩⟩
      · obtain ⟨f', rfl⟩ : ∃ f', f = f' + 1 := ⟨f - 1, by omega⟩
        simp only [dodInner, hts, if_true]
      · simp only [topOf, hts, if_true, List.singleton_append]
    · have htop : topOf d t s = (childrenM d s).flatMap (topOf d t) := by
        simp only [topOf, hts, if_false, Bool.false_eq_true, topMost_unfold]
      have hu := sibCands_unfold d s true
      simp only [sibCands, if_true] at hu
      cases hm : Nav.moveChild d s with
      | none =>
        rw [hm] at hu; simp only at hu
        refine ⟨1, s, level, hg, Nat.le_refl _, Nat.le_refl _, Or.inr ⟨fun f hf => ?_, ?_⟩⟩
        · obtain ⟨f', rfl⟩ : ∃ f', f = f' + 1 := ⟨f - 1, by omega⟩
          simp only [dodInner, hts, if_false, Bool.false_eq_true, hm]
        · rw [htop, hu]; rfl
      | some c =>
        rw [hm] at hu; simp only at hu
        have hpar := moveChild_parent d hm
        obtain ⟨i, rfl, rfl, hi⟩ := moveChild_some hm
        have hgc : Good d (.node (i+1)) := hi
        obtain ⟨f0, j, l, hgj, hl, hj, hres⟩ := ih (.node (i+1)) (level + 1) hgc (by
          simp only [Ref.idx] at hk ⊢; omega)
        have hstr : topOf d t (.node i) ++ dodRest d t level (.node i)
            = topOf d t (.node (i+1)) ++ dodRest d t (level + 1) (.node (i+1)) := by
          rw [htop, hu, dodRest_succ d t level (.node (i+1)), hpar]
          simp only [List.flatMap_cons, List.append_assoc, Bool.false_eq_true, if_false]
        refine ⟨f0 + 1, j, l, hgj, by omega, by simp only [Ref.idx] at hj ⊢; omega, ?_⟩
        rcases hres with ⟨h1, h2⟩ | ⟨h1, h2⟩
        · refine Or.inl ⟨fun f hf => ?_, by rw [hstr]; exact h2⟩
          obtain ⟨f', rfl⟩ : ∃ f', f = f' + 1 := ⟨f - 1, by omega⟩
          simp only [dodInner, hts, if_false, Bool.false_eq_true, hm]
          exact h1 f' (by omega)
        · refine Or.inr ⟨fun f hf => ?_, by rw [hstr]; exact h2⟩
          obtain ⟨f', rfl⟩ : ∃ f', f = f' + 1 := ⟨f - 1, by omega⟩
          simp only [dodInner, hts, if_false, Bool.false_eq_true, hm]
          exact h1 f' (by omega)

end

end XPathV.Model
