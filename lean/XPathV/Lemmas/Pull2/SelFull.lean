import XPathV.Lemmas.Pull2.Laws
import XPathV.Lemmas.PredSem.Filter
/-!
# The whole sequence of a configuration is the sequence model's `sel`

`full2 c q` (the stream of the reset machine, `Pull2/Spec.lean`) equals `sel d cfg q.plan c` of
`Model/Engine.lean`, provided the decision function `dec` agrees with the engine's evaluation of
every filter predicate occurring in `q` (`DecOK`).
-/
namespace XPathV.Model
open XPathV XPathV.PredSem

section
variable {F : Type} [NumAlg F] (d : Doc) (cfg : ECfg) (dec : Plan → Ref → Bool)

/-- `dec` is the engine's verdict for every filter predicate in `q`: the predicate evaluates to the
boolean `dec pred r` on every node -/
def PQ2.DecOK : PQ2 → Prop
  | .context _ => True
  | .absolute _ => True
  | .child _ inp _ _ | .cachedChild _ inp _ _ | .attr _ inp _ | .self _ inp | .parent _ inp
  | .descendant _ _ inp _ _ _ | .ancestor _ _ inp _ _ | .following _ _ inp _ _ | .preceding _ _ inp _ _
  | .group inp _ | .descOverDesc _ _ inp _ _ _ => PQ2.DecOK inp
  | .filter inp pred _ _ => PQ2.DecOK inp ∧ ∀ r, evalP (F := F) d cfg pred r = .ok (.bool (dec pred r))
  | .union l r _ => PQ2.DecOK l ∧ PQ2.DecOK r
  | .merge inp ch _ => PQ2.DecOK inp ∧ PQ2.DecOK ch

theorem fmapR_self (t : Ref → Bool) : ∀ xs : List Item,
    fmapR (selfG t) (fun _ => 1) (fun _ => 0) () xs = plain ((xs.map (·.r)).filter t)
  | [] => rfl
  | x :: xs => by
    simp only [fmapR, selfG, List.map_cons, List.filter_cons]
    by_cases h : t x.r = true
    · simp only [h, if_true, fmapR_self t xs, plain, List.map_cons]
    · simp only [h, if_false, Bool.false_eq_true, fmapR_self t xs]

theorem fmapR_parent (t : Ref → Bool) : ∀ xs : List Item,
    fmapR (parentG d t) (fun _ => 1) (fun _ => 0) () xs
      = xs.flatMap (fun it => plain (((Nav.moveParent d it.r).toList).filter t))
  | [] => rfl
  | x :: xs => by
    simp only [fmapR, parentG, List.flatMap_cons]
    cases hp : Nav.moveParent d x.r with
    | none => simp [fmapR_parent t xs, plain]
    | some p =>
      by_cases h : t p = true
      · simp [Option.filter, h, fmapR_parent t xs, plain]
      · simp [Option.filter, h, fmapR_parent t xs, plain]

theorem fmapR_group : ∀ (xs : List Item) (k : Nat),
    fmapR groupG id (fun _ => 0) k xs = numFrom k (xs.map (·.r))
  | [], _ => rfl
  | x :: xs, k => by
    simp only [fmapR, groupG, List.map_cons, numFrom, fmapR_group xs (k+1), id]

theorem fmapR_filter_none (pred : Plan) (pos : Nat) (xs : List Item) :
    fmapR (filterG dec pred) (·.1) (fun _ => 0) (pos, none) xs
      = fmapR (filterG dec pred) (·.1) (fun _ => 0) (pos, some []) xs := by
  cases xs with
  | nil => rfl
  | cons x xs => simp only [fmapR, filterG, Option.getD_none, Option.getD_some]

theorem fmapR_filter (pred : Plan) : ∀ (xs : List Item) (pos : Nat) (m : List (Nat × Nat)) (out : List Item),
    ((xs.filter (fun it => dec pred it.r)).foldl
      (fun (acc : List Item × List (Nat × Nat)) (it : Item) =>
        let (out, counts) := acc
        let c := ((counts.lookup it.lvl).getD 0) + 1
        (out ++ [⟨it.r, c, 0⟩], (it.lvl, c) :: counts.filter (fun p => p.1 != it.lvl))) (out, m)).1
      = out ++ fmapR (filterG dec pred) (·.1) (fun _ => 0) (pos, some m) xs
  | [], _, _, out => by simp [fmapR]
  | x :: xs, pos, m, out => by
    by_cases h : dec pred x.r = true
    · simp only [List.filter_cons, h, if_true, List.foldl_cons, fmapR, filterG, Option.getD_some, bumpMap]
      rw [fmapR_filter pred xs ((List.lookup x.lvl m).getD 0 + 1) _ _]
      simp only [List.append_assoc, List.singleton_append]
    · simp only [List.filter_cons, h, if_false, Bool.false_eq_true, fmapR, filterG, Option.getD_some]
      exact fmapR_filter pred xs pos m out

theorem filterPositions_eq (pred : Plan) (xs : List Item) :
    filterPositions (xs.filter (fun it => dec pred it.r))
      = fmapR (filterG dec pred) (·.1) (fun _ => 0) (0, none) xs := by
  rw [fmapR_filter_none]
  unfold filterPositions
  rw [fmapR_filter dec pred xs 0 [] []]
  rfl

theorem flatMap_plain_flatten (ins : List Item) (g : Ref → List Item) :
    plain (((ins.map (fun it => g it.r)).flatten).map (·.r)) = ins.flatMap (fun x => plain ((g x.r).map (·.r))) := by
  induction ins with
  | nil => rfl
  | cons a t ih =>
    simp only [List.map_cons, List.flatten_cons, List.map_append, List.flatMap_cons]
    rw [← ih]
    simp only [plain, List.map_append]

/-- **The reset machine's stream is the sequence model's sequence.** -/
theorem sel_full2 : ∀ (q : PQ2), q.DecOK (F := F) d cfg dec → ∀ c,
    sel (F := F) d cfg q.plan c = .ok (full2 d cfg dec c q) := by
  intro q
  induction q with
  | context n => intro _ c; simp only [PQ2.plan, sel, full2]
  | absolute n => intro _ c; simp only [PQ2.plan, sel, full2]
  | child a inp it pos ih | cachedChild a inp it pos ih | attr a inp it ih =>
    intro h c; simp only [PQ2.plan, sel, ih h c, full2]; rfl
  | self a inp ih =>
    intro h c; simp only [PQ2.plan, sel, ih h c, full2, fmapR_self]; rfl
  | parent a inp ih =>
    intro h c; simp only [PQ2.plan, sel, ih h c, full2, fmapR_parent]; rfl
  | descendant a s inp it pos level ih =>
    intro h c; simp only [PQ2.plan, sel, ih h c, full2, descItems]; rfl
  | ancestor a s inp it tb ih =>
    intro h c; simp only [PQ2.plan, sel, ih h c, full2, ancCands, Bool.true_and]; rfl
  | following a sib inp it pos ih | preceding a sib inp it pos ih =>
    intro h c; simp only [PQ2.plan, sel, ih h c, full2]; rfl
  | descOverDesc a ms inp level pos cn ih =>
    intro h c; simp only [PQ2.plan, sel, ih h c, full2]; rfl
  | group inp pos ih =>
    intro h c; simp only [PQ2.plan, sel, ih h c, full2, fmapR_group, numbered_eq]; rfl
  | union l r it ihl ihr =>
    intro h c; simp only [PQ2.plan, sel, ihl h.1 c, ihr h.2 c, full2]; rfl
  | merge inp ch it ih ihc =>
    intro h c
    simp only [PQ2.plan, sel, ih h.1 c, full2, bind, Except.bind]
    rw [mapM_ok _ (fun it => full2 d cfg dec it.r ch) _ (fun x _ => ihc h.2 x.r)]
    exact congrArg _ (flatMap_plain_flatten _ (fun r => full2 d cfg dec r ch))
  | filter inp pred pos pm ih =>
    intro h c
    simp only [PQ2.plan, sel, ih h.1 c, full2, bind, Except.bind]
    rw [mapM_ok _ (fun it => dec pred it.r) _ ?_]
    · simp only [zip_map_filterMap, filterPositions_eq]
    · intro it _
      rw [h.2 it.r]
      simp [pure, Except.pure, predDecision]

end

end XPathV.Model
