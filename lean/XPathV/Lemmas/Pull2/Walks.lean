import XPathV.Lemmas.Pull2.Laws
import XPathV.Lemmas.DocLemmas
/-!
# Walk lemmas for the new closure bodies

One-step unfoldings of the fuel-bounded walks of the sequence model (`ancestorsM`, `prevSibsM`),
range facts, and the specifications of the closure bodies `ancUp/ancIter/ancLoop`, `precSibIter`.
-/
namespace XPathV.Model
open XPathV

section
variable (d : Doc)

/-! ## ranges -/

theorem sibCands_good : ∀ (k : Nat) (n : Ref) (first : Bool), (sibCands d n first).length ≤ k →
    ∀ x ∈ sibCands d n first, Good d x := by
  intro k
  induction k with
  | zero =>
    intro n first hlen x hx
    have : sibCands d n first = [] := List.eq_nil_of_length_eq_zero (by omega)
    rw [this] at hx; cases hx
  | succ k ih =>
    intro n first hlen x hx
    have hu := sibCands_unfold d n first
    cases hm : (if first then Nav.moveChild d n else Nav.moveNext d n) with
    | none => rw [hm] at hu; rw [hu] at hx; cases hx
    | some c =>
      rw [hm] at hu; simp only at hu
      have hgc : Good d c := by
        cases first with
        | true =>
          simp only [if_true] at hm
          obtain ⟨i, rfl, rfl, hi⟩ := moveChild_some hm
          exact hi
        | false =>
          simp only [Bool.false_eq_true, if_false] at hm
          obtain ⟨i, j, rfl, rfl, _, hj, _⟩ := moveNext_some hm
          exact hj
      rw [hu] at hx hlen
      simp only [List.length_cons] at hlen
      cases hx with
      | head => exact hgc
      | tail _ hx => exact ih c false (by omega) x hx

theorem attrCands_good : ∀ (k : Nat) (n : Ref) (isAttr : Bool), (attrCands d n isAttr).length ≤ k → Good d n →
    ∀ x ∈ attrCands d n isAttr, Good d x := by
  intro k
  induction k with
  | zero =>
    intro n ia hlen _ x hx
    have : attrCands d n ia = [] := List.eq_nil_of_length_eq_zero (by omega)
    rw [this] at hx; cases hx
  | succ k ih =>
    intro n ia hlen hg x hx
    have hu := attrCands_unfold d n ia
    cases ia with
    | true => simp only [if_true] at hu; rw [hu] at hx; cases hx
    | false =>
      simp only [Bool.false_eq_true, if_false] at hu
      cases hm : Nav.moveNextAttr d n with
      | none => rw [hm] at hu; rw [hu] at hx; cases hx
      | some c =>
        rw [hm] at hu; simp only at hu
        have hgc : Good d c := by
          cases n with
          | node i =>
            simp only [Nav.moveNextAttr] at hm
            split at hm
            · injection hm with hm; subst hm; exact hg
            · cases hm
          | attr i j =>
            simp only [Nav.moveNextAttr] at hm
            split at hm
            · injection hm with hm; subst hm; exact hg
            · cases hm
        rw [hu] at hx hlen
        simp only [List.length_cons] at hlen
        cases hx with
        | head => exact hgc
        | tail _ hx => exact ih c false (by omega) hgc x hx

theorem walkD_good : ∀ (k : Nat) (n : Ref) (l : Nat), (walkD d d.length n l).length ≤ k →
    ∀ x ∈ walkD d d.length n l, Good d x.1 := by
  intro k
  induction k with
  | zero =>
    intro n l hlen x hx
    have : walkD d d.length n l = [] := List.eq_nil_of_length_eq_zero (by omega)
    rw [this] at hx; cases hx
  | succ k ih =>
    intro n l hlen x hx
    have hu := walkD_unfold d n l
    cases hm : stepD d n l with
    | none => rw [hm] at hu; rw [hu] at hx; cases hx
    | some c =>
      obtain ⟨c, lc⟩ := c
      rw [hm] at hu; simp only at hu
      rw [hu] at hx hlen
      simp only [List.length_cons] at hlen
      cases hx with
      | head => exact (stepD_gt hm).2
      | tail _ hx => exact ih c lc (by omega) x hx

/-! ## ancestors -/

/-- the measure that `MoveToParent` decreases -/
def ancM : Ref → Nat
  | .node i => i
  | .attr i _ => i + 1

theorem moveParent_ancM {r p : Ref} (h : Nav.moveParent d r = some p) : ancM p < ancM r ∧ (Good d r → Good d p) := by
  cases r with
  | attr i k =>
    simp only [Nav.moveParent] at h
    injection h with h; subst h
    exact ⟨by simp [ancM], fun hg => hg⟩
  | node i =>
    simp only [Nav.moveParent] at h
    cases hp : parentFrom d (dep d i) i with
    | none => simp [hp] at h
    | some q =>
      simp only [hp, Option.map] at h
      injection h with h; subst h
      obtain ⟨h1, _, _⟩ := parentFrom_some hp
      exact ⟨by simp only [ancM]; exact h1, fun hg => by simp only [Good, Ref.idx] at hg ⊢; omega⟩

theorem ancestorsFrom_stable : ∀ (f f' : Nat) (r : Ref), ancM r ≤ f → ancM r ≤ f' →
    ancestorsFrom d f r = ancestorsFrom d f' r
  | 0, 0, _, _, _ => rfl
  | 0, f'+1, r, h, _ => by
    simp only [ancestorsFrom]
    cases hp : Nav.moveParent d r with
    | none => rfl
    | some p => have := (moveParent_ancM d hp).1; omega
  | f+1, 0, r, _, h => by
    simp only [ancestorsFrom]
    cases hp : Nav.moveParent d r with
    | none => rfl
    | some p => have := (moveParent_ancM d hp).1; omega
  | f+1, f'+1, r, h, h' => by
    simp only [ancestorsFrom]
    cases hp : Nav.moveParent d r with
    | none => rfl
    | some p =>
      have := (moveParent_ancM d hp).1
      simp only
      rw [ancestorsFrom_stable f f' p (by omega) (by omega)]

theorem ancM_le {r : Ref} (h : Good d r) : ancM r ≤ d.length := by
  cases r <;> simp only [Good, Ref.idx] at h <;> simp only [ancM] <;> omega

theorem ancestorsM_unfold {r : Ref} (hg : Good d r) :
    ancestorsM d r =
      match Nav.moveParent d r with
      | none => []
      | some p => p :: ancestorsM d p := by
  have hr := ancM_le d hg
  unfold ancestorsM
  rw [ancestorsFrom]
  cases hp : Nav.moveParent d r with
  | none => rfl
  | some p =>
    obtain ⟨h1, h2⟩ := moveParent_ancM d hp
    simp only
    rw [ancestorsFrom_stable d d.length (d.length + 1) p (by omega) (by omega)]

variable (t : Ref → Bool)

theorem ancUp_spec : ∀ (k : Nat) (n : Ref), Good d n → (ancestorsM d n).length ≤ k →
    ∃ f0, (∀ f, f0 ≤ f → ancUp d t f n = hdR ((ancestorsM d n).filter t)) ∧
      (∀ j rest, (ancestorsM d n).filter t = j :: rest → (ancestorsM d j).filter t = rest ∧ Good d j) := by
  intro k
  induction k with
  | zero =>
    intro n hg hlen
    have hnil : ancestorsM d n = [] := List.eq_nil_of_length_eq_zero (by omega)
    have hu := ancestorsM_unfold d hg
    rw [hnil] at hu
    cases hm : Nav.moveParent d n with
    | some c => rw [hm] at hu; cases hu
    | none =>
      refine ⟨1, fun f hf => ?_, fun j rest h => by simp [hnil] at h⟩
      obtain ⟨f', rfl⟩ : ∃ f', f = f' + 1 := ⟨f - 1, by omega⟩
      simp only [ancUp, hm, hnil, List.filter_nil, hdR]
  | succ k ih =>
    intro n hg hlen
    have hu := ancestorsM_unfold d hg
    cases hm : Nav.moveParent d n with
    | none =>
      rw [hm] at hu; simp only at hu
      refine ⟨1, fun f hf => ?_, fun j rest h => by simp [hu] at h⟩
      obtain ⟨f', rfl⟩ : ∃ f', f = f' + 1 := ⟨f - 1, by omega⟩
      simp only [ancUp, hm, hu, List.filter_nil, hdR]
    | some c =>
      rw [hm] at hu; simp only at hu
      have hgc : Good d c := (moveParent_ancM d hm).2 hg
      have hlen' : (ancestorsM d c).length ≤ k := by
        rw [hu] at hlen; simp only [List.length_cons] at hlen; omega
      by_cases htc : t c = true
      · refine ⟨1, fun f hf => ?_, fun j rest h => ?_⟩
        · obtain ⟨f', rfl⟩ : ∃ f', f = f' + 1 := ⟨f - 1, by omega⟩
          simp only [ancUp, hm, hu, List.filter_cons, htc, if_true, hdR]
        · rw [hu, List.filter_cons, if_pos htc] at h
          injection h with h1 h2
          subst h1; exact ⟨h2, hgc⟩
      · obtain ⟨f0, h1, h2⟩ := ih c hgc hlen'
        refine ⟨f0 + 1, fun f hf => ?_, fun j rest h => ?_⟩
        · obtain ⟨f', rfl⟩ : ∃ f', f = f' + 1 := ⟨f - 1, by omega⟩
          simp only [ancUp, hm, hu, List.filter_cons, htc, if_false, Bool.false_eq_true]
          exact h1 f' (by omega)
        · rw [hu, List.filter_cons, if_neg htc] at h
          exact h2 j rest h

theorem ancCands_false (self : Bool) (n : Ref) : ancCands d t self n false = (ancestorsM d n).filter t := by
  simp [ancCands]

/-- the closure body returns the head of its candidate list; the new state `(j, false)` has the tail -/
theorem ancIter_spec (self : Bool) (n : Ref) (first : Bool) (hg : Good d n) :
    ∃ f0, (∀ f, f0 ≤ f → ancIter d t self f n first = hdR (ancCands d t self n first)) ∧
      (∀ j rest, ancCands d t self n first = j :: rest → ancCands d t self j false = rest ∧ Good d j) := by
  obtain ⟨f0, h1, h2⟩ := ancUp_spec d t _ n hg (Nat.le_refl _)
  by_cases hown : (first && self && t n) = true
  · have hfs : (first && self) = true := by
      cases first <;> cases self <;> simp_all
    have htn : t n = true := by
      cases first <;> cases self <;> simp_all
    have hc : ancCands d t self n first = n :: (ancestorsM d n).filter t := by
      simp [ancCands, hfs, htn]
    refine ⟨0, fun f _ => ?_, fun j rest h => ?_⟩
    · simp only [ancIter, hown, if_true, hc, hdR]
    · rw [hc] at h
      injection h with h1 h2
      subst h1
      exact ⟨by rw [ancCands_false]; exact h2, hg⟩
  · have hc : ancCands d t self n first = (ancestorsM d n).filter t := by
      simp only [ancCands]
      by_cases hfs : (first && self) = true
      · have htn : t n = false := by
          cases first <;> cases self <;> simp_all
        simp [hfs, htn]
      · simp [hfs]
    refine ⟨f0, fun f hf => ?_, fun j rest h => ?_⟩
    · simp only [ancIter, hown, if_false, Bool.false_eq_true, hc]
      exact h1 f hf
    · rw [hc] at h
      rw [ancCands_false]
      exact h2 j rest h

variable (key : Ref → String)

/-- the `for node := a.iterator(); …` loop: it reports the first candidate whose key is not in the
table and records it, or runs the closure dry -/
theorem ancLoop_spec (self : Bool) : ∀ (k : Nat) (n : Ref) (first : Bool) (tb : List String), Good d n →
    (ancCands d t self n first).length ≤ k →
    (∃ f0 j, (∀ f, f0 ≤ f → ancLoop d t key self f n first tb = .yield (j, key j :: tb)) ∧ Good d j ∧
      ∀ ys, dedupByKey key (ancCands d t self n first ++ ys) tb
        = j :: dedupByKey key (ancCands d t self j false ++ ys) (key j :: tb)) ∨
    (∃ f0, (∀ f, f0 ≤ f → ancLoop d t key self f n first tb = .done) ∧
      ∀ ys, dedupByKey key (ancCands d t self n first ++ ys) tb = dedupByKey key ys tb) := by
  intro k
  induction k with
  | zero =>
    intro n first tb hg hlen
    have hnil : ancCands d t self n first = [] := List.eq_nil_of_length_eq_zero (by omega)
    obtain ⟨f0, h1, _⟩ := ancIter_spec d t self n first hg
    refine Or.inr ⟨f0 + 1, fun f hf => ?_, fun ys => by rw [hnil]; rfl⟩
    obtain ⟨f', rfl⟩ : ∃ f', f = f' + 1 := ⟨f - 1, by omega⟩
    simp only [ancLoop, h1 f' (by omega), hnil, hdR]
  | succ k ih =>
    intro n first tb hg hlen
    obtain ⟨f0, h1, h2⟩ := ancIter_spec d t self n first hg
    cases hc : ancCands d t self n first with
    | nil =>
      refine Or.inr ⟨f0 + 1, fun f hf => ?_, fun ys => rfl⟩
      obtain ⟨f', rfl⟩ : ∃ f', f = f' + 1 := ⟨f - 1, by omega⟩
      simp only [ancLoop, h1 f' (by omega), hc, hdR]
    | cons j rest =>
      obtain ⟨hrest, hgj⟩ := h2 j rest hc
      by_cases hm : tb.contains (key j) = true
      · have hlen' : (ancCands d t self j false).length ≤ k := by
          rw [hrest]; rw [hc] at hlen; simp only [List.length_cons] at hlen; omega
        rcases ih j false tb hgj hlen' with ⟨f1, j', hy, hgj', hd⟩ | ⟨f1, hy, hd⟩
        · refine Or.inl ⟨max f0 f1 + 1, j', fun f hf => ?_, hgj', fun ys => ?_⟩
          · obtain ⟨f', rfl⟩ : ∃ f', f = f' + 1 := ⟨f - 1, by omega⟩
            simp only [ancLoop, h1 f' (by omega), hc, hdR, hm, if_true]
            exact hy f' (by omega)
          · simp only [List.cons_append, dedupByKey, hm, if_true]
            rw [← hrest]; exact hd ys
        · refine Or.inr ⟨max f0 f1 + 1, fun f hf => ?_, fun ys => ?_⟩
          · obtain ⟨f', rfl⟩ : ∃ f', f = f' + 1 := ⟨f - 1, by omega⟩
            simp only [ancLoop, h1 f' (by omega), hc, hdR, hm, if_true]
            exact hy f' (by omega)
          · simp only [List.cons_append, dedupByKey, hm, if_true]
            rw [← hrest]; exact hd ys
      · refine Or.inl ⟨f0 + 1, j, fun f hf => ?_, hgj, fun ys => ?_⟩
        · obtain ⟨f', rfl⟩ : ∃ f', f = f' + 1 := ⟨f - 1, by omega⟩
          simp only [ancLoop, h1 f' (by omega), hc, hdR, hm, if_false, Bool.false_eq_true]
        · simp only [List.cons_append, dedupByKey, hm, if_false, Bool.false_eq_true, hrest]

/-! ## previous siblings -/

theorem movePrev_some {r p : Ref} (h : Nav.movePrev d r = some p) :
    ∃ i j, r = .node i ∧ p = .node j ∧ j < i := by
  cases r with
  | attr i k => simp [Nav.movePrev] at h
  | node i =>
    simp only [Nav.movePrev] at h
    cases hp : prevFrom d (dep d i) i with
    | none => simp [hp] at h
    | some q =>
      simp only [hp, Option.map] at h
      injection h with h; subst h
      exact ⟨i, q, rfl, rfl, (prevFrom_some d _ _ _ hp).1⟩

theorem prevSibsFrom_stable : ∀ (f f' : Nat) (r : Ref), r.idx ≤ f → r.idx ≤ f' →
    prevSibsFrom d f r = prevSibsFrom d f' r
  | 0, 0, _, _, _ => rfl
  | 0, f'+1, r, h, _ => by
    simp only [prevSibsFrom]
    cases hp : Nav.movePrev d r with
    | none => rfl
    | some p => obtain ⟨i, j, rfl, rfl, hij⟩ := movePrev_some d hp; simp only [Ref.idx] at h; omega
  | f+1, 0, r, _, h => by
    simp only [prevSibsFrom]
    cases hp : Nav.movePrev d r with
    | none => rfl
    | some p => obtain ⟨i, j, rfl, rfl, hij⟩ := movePrev_some d hp; simp only [Ref.idx] at h; omega
  | f+1, f'+1, r, h, h' => by
    simp only [prevSibsFrom]
    cases hp : Nav.movePrev d r with
    | none => rfl
    | some p =>
      obtain ⟨i, j, rfl, rfl, hij⟩ := movePrev_some d hp
      simp only [Ref.idx] at h h'
      simp only
      rw [prevSibsFrom_stable f f' (.node j) (by simp only [Ref.idx]; omega) (by simp only [Ref.idx]; omega)]

theorem prevSibsM_unfold {r : Ref} (hg : Good d r) :
    prevSibsM d r =
      match Nav.movePrev d r with
      | none => []
      | some p => p :: prevSibsM d p := by
  unfold prevSibsM
  have hg' : r.idx < d.length := hg
  rw [prevSibsFrom_stable d d.length (d.length + 1) r (by omega) (by omega), prevSibsFrom]
  cases hp : Nav.movePrev d r with
  | none => rfl
  | some p => rfl

theorem movePrev_good {r p : Ref} (h : Nav.movePrev d r = some p) (hg : Good d r) : Good d p := by
  obtain ⟨i, j, rfl, rfl, hij⟩ := movePrev_some d h
  simp only [Good, Ref.idx] at hg ⊢; omega

theorem precSibIter_spec : ∀ (k : Nat) (n : Ref), Good d n → (prevSibsM d n).length ≤ k →
    ∃ f0, (∀ f, f0 ≤ f → precSibIter d t f n = hdR ((prevSibsM d n).filter t)) ∧
      (∀ j rest, (prevSibsM d n).filter t = j :: rest → (prevSibsM d j).filter t = rest ∧ Good d j) := by
  intro k
  induction k with
  | zero =>
    intro n hg hlen
    have hnil : prevSibsM d n = [] := List.eq_nil_of_length_eq_zero (by omega)
    have hu := prevSibsM_unfold d hg
    rw [hnil] at hu
    cases hm : Nav.movePrev d n with
    | some c => rw [hm] at hu; cases hu
    | none =>
      refine ⟨1, fun f hf => ?_, fun j rest h => by simp [hnil] at h⟩
      obtain ⟨f', rfl⟩ : ∃ f', f = f' + 1 := ⟨f - 1, by omega⟩
      simp only [precSibIter, hm, hnil, List.filter_nil, hdR]
  | succ k ih =>
    intro n hg hlen
    have hu := prevSibsM_unfold d hg
    cases hm : Nav.movePrev d n with
    | none =>
      rw [hm] at hu; simp only at hu
      refine ⟨1, fun f hf => ?_, fun j rest h => by simp [hu] at h⟩
      obtain ⟨f', rfl⟩ : ∃ f', f = f' + 1 := ⟨f - 1, by omega⟩
      simp only [precSibIter, hm, hu, List.filter_nil, hdR]
    | some c =>
      rw [hm] at hu; simp only at hu
      have hgc : Good d c := movePrev_good d hm hg
      have hlen' : (prevSibsM d c).length ≤ k := by
        rw [hu] at hlen; simp only [List.length_cons] at hlen; omega
      by_cases htc : t c = true
      · refine ⟨1, fun f hf => ?_, fun j rest h => ?_⟩
        · obtain ⟨f', rfl⟩ : ∃ f', f = f' + 1 := ⟨f - 1, by omega⟩
          simp only [precSibIter, hm, hu, List.filter_cons, htc, if_true, hdR]
        · rw [hu, List.filter_cons, if_pos htc] at h
          injection h with h1 h2
          subst h1; exact ⟨h2, hgc⟩
      · obtain ⟨f0, h1, h2⟩ := ih c hgc hlen'
        refine ⟨f0 + 1, fun f hf => ?_, fun j rest h => ?_⟩
        · obtain ⟨f', rfl⟩ : ∃ f', f = f' + 1 := ⟨f - 1, by omega⟩
          simp only [precSibIter, hm, hu, List.filter_cons, htc, if_false, Bool.false_eq_true]
          exact h1 f' (by omega)
        · rw [hu, List.filter_cons, if_neg htc] at h
          exact h2 j rest h

end

end XPathV.Model
