import XPathV.Lemmas.Pull2.Generic
/-!
# Specification side of the extended pull machine

`rem2 c q`: the items (node, `position()`, `depth()`) a machine in state `q` still yields when
`t.Current() = c`, written with the walks of the sequence model (`Model/Engine.lean`).
`full2 c q`: the whole sequence of the configuration of `q` (state ignored).
`PQ2.Inv` / `PQ2.Cons`: the state invariants under which the one-pull lemma holds.
-/
namespace XPathV.Model
open XPathV

section
variable (d : Doc) (cfg : ECfg) (dec : Plan → Ref → Bool)

/-- candidates an `ancestorQuery` closure in state `(n, first)` still visits (before the table) -/
def ancCands (t : Ref → Bool) (self : Bool) (n : Ref) (first : Bool) : List Ref :=
  ((if first && self then [n] else []) ++ ancestorsM d n).filter t

/-- one root's contribution to `following`/`preceding`: the root and its descendants that match -/
def subtreeMatches (t : Ref → Bool) (root : Ref) : List Ref :=
  (root :: (descM d root).map (·.1)).filter t

/-- drop the `depth()` of an inner `descendantQuery` item (`followingQuery` has no `depth()`) -/
def noLvl (x : Item) : Item := ⟨x.r, x.pos, 0⟩

/-- what the non-sibling `followingQuery` closure in state `(node, q)` still yields; the captured
`q` walks the subtree of `node` (its `startQuery` holds a copy of `node`): `rem … node q` -/
def folCur (a : AxisInfo) (node : Ref) (q : Option PQ) : List Item :=
  (match q with
    | none => []
    | some q => (rem d cfg node q).map noLvl)
  ++ (followRoots d (2 * d.length + 2) node).flatMap (fun root => numbered (subtreeMatches d (test d cfg a) root))

/-- items of the roots `rs` of a `precedingQuery` with running `posit` -/
def precTail (t : Ref → Bool) : List (Ref × Bool) → Nat → List Item
  | [], _ => []
  | (root, reset) :: rs, cnt =>
    numFrom (if reset then 0 else cnt) (subtreeMatches d t root)
      ++ precTail t rs ((if reset then 0 else cnt) + (subtreeMatches d t root).length)

/-- what the non-sibling `precedingQuery` closure in state `(node, q)` with `posit = pos` still yields -/
def precCur (a : AxisInfo) (node : Ref) (q : Option PQ) (pos : Nat) : List Item :=
  (match q with
    | none => []
    | some q => numFrom pos ((rem d cfg node q).map (·.r)))
  ++ precTail d (test d cfg a) (precRoots d (2 * d.length + 2) node false)
      (pos + (match q with | none => 0 | some q => (rem d cfg node q).length))

/-- `topMost`-expansion of one node: itself if it matches, else its top-most matching descendants -/
def topOf (t : Ref → Bool) (s : Ref) : List Ref := if t s then [s] else topMost d t s

/-- what `descendantOverDescendantQuery` still yields below the current input node when it resumes
with `moveUpUntilNext` at `(cn, level)` -/
def dodRest (t : Ref → Bool) : Nat → Ref → List Ref
  | 0, _ => []
  | l+1, cn => (nextSibsM d cn).flatMap (topOf d t) ++
    (match Nav.moveParent d cn with
      | some p => dodRest t l p
      | none => [])

/-- filter decision as a filter/map step: fields `(posit, positmap)` -/
def filterG (pred : Plan) (n : Ref) (_pos lvl : Nat) (p : Nat × Option (List (Nat × Nat))) :
    Option Ref × (Nat × Option (List (Nat × Nat))) :=
  if dec pred n then (some n, (((p.2.getD []).lookup lvl).getD 0 + 1, some (bumpMap (p.2.getD []) lvl)))
  else (none, (p.1, some (p.2.getD [])))

def groupG (n : Ref) (_pos _lvl : Nat) (p : Nat) : Option Ref × Nat := (some n, p + 1)
def selfG (t : Ref → Bool) (n : Ref) (_pos _lvl : Nat) (_p : Unit) : Option Ref × Unit :=
  (if t n then some n else none, ())
def parentG (t : Ref → Bool) (n : Ref) (_pos _lvl : Nat) (_p : Unit) : Option Ref × Unit :=
  ((Nav.moveParent d n).filter t, ())

/-- contribution of one input node to the closure-type queries -/
def childContrib (a : AxisInfo) (x : Ref) : List Item := numbered ((childrenM d x).filter (test d cfg a))
def attrContrib (a : AxisInfo) (x : Ref) : List Item := plain ((attrsM d x).filter (test d cfg a))
def folContrib (a : AxisInfo) (sib : Bool) (x : Ref) : List Item :=
  if sib then numbered ((nextSibsM d x).filter (test d cfg a)) else followingItems d cfg a x
def precContrib (a : AxisInfo) (sib : Bool) (x : Ref) : List Item :=
  if sib then numbered ((prevSibsM d x).filter (test d cfg a)) else precedingItems d cfg a x
def dodContrib (a : AxisInfo) (ms : Bool) (x : Ref) : List Item :=
  if ms && test d cfg a x then [⟨x, 1, 0⟩] else numbered (topMost d (test d cfg a) x)

/-- the whole sequence of the configuration of `q` with context node `c` (state ignored) -/
def full2 : Ref → PQ2 → List Item
  | c, .context _ => [⟨c, 1, 0⟩]
  | _, .absolute _ => [⟨Nav.root d, 1, 0⟩]
  | c, .child a inp _ _ => (full2 c inp).flatMap (fun x => childContrib d cfg a x.r)
  | c, .cachedChild a inp _ _ => (full2 c inp).flatMap (fun x => childContrib d cfg a x.r)
  | c, .attr a inp _ => (full2 c inp).flatMap (fun x => attrContrib d cfg a x.r)
  | c, .self a inp => fmapR (selfG (test d cfg a)) (fun _ => 1) (fun _ => 0) () (full2 c inp)
  | c, .parent a inp => fmapR (parentG d (test d cfg a)) (fun _ => 1) (fun _ => 0) () (full2 c inp)
  | c, .descendant a s inp _ _ _ => (full2 c inp).flatMap (fun x => descItems d cfg a s x.r)
  | c, .ancestor a s inp _ _ =>
    plain (dedupByKey (identityHash d cfg) ((full2 c inp).flatMap (fun x => ancCands d (test d cfg a) s x.r true)) [])
  | c, .following a sib inp _ _ => (full2 c inp).flatMap (fun x => folContrib d cfg a sib x.r)
  | c, .preceding a sib inp _ _ => (full2 c inp).flatMap (fun x => precContrib d cfg a sib x.r)
  | c, .filter inp pred _ _ => fmapR (filterG dec pred) (·.1) (fun _ => 0) (0, none) (full2 c inp)
  | c, .union l r _ => plain (dedupByKey (identityHash d cfg) ((full2 c l ++ full2 c r).map (·.r)) [])
  | c, .group inp _ => fmapR groupG id (fun _ => 0) 0 (full2 c inp)
  | c, .descOverDesc a ms inp _ _ _ => (full2 c inp).flatMap (fun x => dodContrib d cfg a ms x.r)
  | c, .merge inp ch _ => (full2 c inp).flatMap (fun x => plain ((full2 x.r ch).map (·.r)))

/-- The items a machine in state `q` still yields when `t.Current() = c`. -/
def rem2 : Ref → PQ2 → List Item
  | c, .context n => if n > 0 then [] else [⟨c, 1, 0⟩]
  | _, .absolute n => if n > 0 then [] else [⟨Nav.root d, 1, 0⟩]
  | c, .child a inp it pos =>
    (match it with
      | none => []
      | some (n, first) => numFrom pos ((sibCands d n first).filter (test d cfg a)))
    ++ (rem2 c inp).flatMap (fun x => childContrib d cfg a x.r)
  | c, .cachedChild a inp it pos =>
    (match it with
      | none => []
      | some (n, first) => numFrom pos ((sibCands d n first).filter (test d cfg a)))
    ++ (rem2 c inp).flatMap (fun x => childContrib d cfg a x.r)
  | c, .attr a inp it =>
    (match it with
      | none => []
      | some (n, isAttr) => plain ((attrCands d n isAttr).filter (test d cfg a)))
    ++ (rem2 c inp).flatMap (fun x => attrContrib d cfg a x.r)
  | c, .self a inp => fmapR (selfG (test d cfg a)) (fun _ => 1) (fun _ => 0) () (rem2 c inp)
  | c, .parent a inp => fmapR (parentG d (test d cfg a)) (fun _ => 1) (fun _ => 0) () (rem2 c inp)
  | c, .descendant a s inp it pos level =>
    (match it with
      | none => []
      | some (n, first) =>
        numFromL pos ((if first && s && test d cfg a n then [(n, level)] else [])
          ++ (walkD d d.length n level).filter (fun p => test d cfg a p.1)))
    ++ (rem2 c inp).flatMap (fun x => descItems d cfg a s x.r)
  | c, .ancestor a s inp it tb =>
    plain (dedupByKey (identityHash d cfg)
      ((match it with
          | none => []
          | some (n, first) => ancCands d (test d cfg a) s n first)
        ++ (rem2 c inp).flatMap (fun x => ancCands d (test d cfg a) s x.r true)) (tb.getD []))
  | c, .following a sib inp it pos =>
    (match it with
      | none => []
      | some (node, q) =>
        if sib then numFrom pos ((sibCands d node false).filter (test d cfg a)) else folCur d cfg a node q)
    ++ (rem2 c inp).flatMap (fun x => folContrib d cfg a sib x.r)
  | c, .preceding a sib inp it pos =>
    (match it with
      | none => []
      | some (node, q) =>
        if sib then numFrom pos ((prevSibsM d node).filter (test d cfg a)) else precCur d cfg a node q pos)
    ++ (rem2 c inp).flatMap (fun x => precContrib d cfg a sib x.r)
  | c, .filter inp pred pos pm => fmapR (filterG dec pred) (·.1) (fun _ => 0) (pos, pm) (rem2 c inp)
  | c, .union l r it =>
    match it with
    | none => plain (dedupByKey (identityHash d cfg) ((rem2 c l ++ rem2 c r).map (·.r)) [])
    | some buf => plain buf
  | c, .group inp pos => fmapR groupG id (fun _ => 0) pos (rem2 c inp)
  | c, .descOverDesc a ms inp level pos cn =>
    numFrom pos (dodRest d (test d cfg a) level cn)
    ++ (rem2 c inp).flatMap (fun x => dodContrib d cfg a ms x.r)
  | c, .merge inp ch it =>
    (match it with
      | none => []
      | some buf => plain buf)
    ++ (rem2 c inp).flatMap (fun x => plain ((full2 d cfg dec x.r ch).map (·.r)))

/-- a reference into the document -/
def Good (r : Ref) : Prop := r.idx < d.length

/-- the inner `*descendantQuery` of a following/preceding closure has pulled its `startQuery` -/
def innerOK : Option PQ → Prop
  | none => True
  | some q => ∃ a s c it p l, q = .descendant a s (.context c) it p l ∧ c > 0 ∧ ∀ n f, it = some (n, f) → Good d n

/-- … or is the freshly created one (its first pull takes the start node from its `startQuery`) -/
def innerInv (q : Option PQ) : Prop := innerOK d q ∨ ∃ a s, q = some (innerDesc a s)

def itOK (it : Option (Ref × Bool)) : Prop := ∀ n f, it = some (n, f) → Good d n
def fitOK (it : Option (Ref × Option PQ)) : Prop := ∀ n q, it = some (n, q) → Good d n ∧ innerOK d q
def fitInv (it : Option (Ref × Option PQ)) : Prop := ∀ n q, it = some (n, q) → Good d n ∧ innerInv d q
def bufOK (it : Option (List Ref)) : Prop := ∀ buf, it = some buf → ∀ x ∈ buf, Good d x

/-- consumed: no `contextQuery` the state still depends on is unread; stored cursors are in range -/
def PQ2.Cons : PQ2 → Prop
  | .context c => c > 0
  | .absolute _ => True
  | .child _ inp it _ => PQ2.Cons inp ∧ itOK d it
  | .cachedChild _ inp it _ => PQ2.Cons inp ∧ itOK d it
  | .attr _ inp it => PQ2.Cons inp ∧ itOK d it
  | .self _ inp => PQ2.Cons inp
  | .parent _ inp => PQ2.Cons inp
  | .descendant _ _ inp it _ _ => PQ2.Cons inp ∧ itOK d it
  | .ancestor _ _ inp it _ => PQ2.Cons inp ∧ itOK d it
  | .following _ _ inp it _ => PQ2.Cons inp ∧ fitOK d it
  | .preceding _ _ inp it _ => PQ2.Cons inp ∧ fitOK d it
  | .filter inp _ _ _ => PQ2.Cons inp
  | .union _ _ it => it.isSome = true ∧ bufOK d it
  | .group inp _ => PQ2.Cons inp
  | .descOverDesc _ _ inp level _ cn => PQ2.Cons inp ∧ (0 < level → Good d cn)
  | .merge inp _ it => PQ2.Cons inp ∧ bufOK d it

/-- the invariant of the one-pull lemma: a live closure implies a consumed input.  Every state
produced by `Evaluate`, `Clone` or the builder, and every state reached from one by `Select`,
satisfies it. -/
def PQ2.Inv : PQ2 → Prop
  | .context _ => True
  | .absolute _ => True
  | .child _ inp it _ => (it = none ∧ PQ2.Inv inp) ∨ (PQ2.Cons d inp ∧ itOK d it)
  | .cachedChild _ inp it _ => (it = none ∧ PQ2.Inv inp) ∨ (PQ2.Cons d inp ∧ itOK d it)
  | .attr _ inp it => (it = none ∧ PQ2.Inv inp) ∨ (PQ2.Cons d inp ∧ itOK d it)
  | .self _ inp => PQ2.Inv inp
  | .parent _ inp => PQ2.Inv inp
  | .descendant _ _ inp it _ _ => (it = none ∧ PQ2.Inv inp) ∨ (PQ2.Cons d inp ∧ itOK d it)
  | .ancestor _ _ inp it _ => (it = none ∧ PQ2.Inv inp) ∨ (PQ2.Cons d inp ∧ itOK d it)
  | .following _ _ inp it _ => (it = none ∧ PQ2.Inv inp) ∨ (PQ2.Cons d inp ∧ fitInv d it)
  | .preceding _ _ inp it _ => (it = none ∧ PQ2.Inv inp) ∨ (PQ2.Cons d inp ∧ fitInv d it)
  | .filter inp _ _ _ => PQ2.Inv inp
  | .union l r it => (it = none ∧ PQ2.Inv l ∧ PQ2.Inv r) ∨ (it.isSome = true ∧ bufOK d it)
  | .group inp _ => PQ2.Inv inp
  | .descOverDesc _ _ inp level _ cn => (level = 0 ∧ PQ2.Inv inp) ∨ (PQ2.Cons d inp ∧ (0 < level → Good d cn))
  | .merge inp _ it => (it = none ∧ PQ2.Inv inp) ∨ (PQ2.Cons d inp ∧ bufOK d it)

/-- the extended pull machine as an abstract machine -/
def mach2 : Mach PQ2 where
  sel := PQ2.select d cfg dec
  rem := rem2 d cfg dec
  pos := PQ2.position
  lvl := PQ2.depth
  Inv := PQ2.Inv d
  Cons := PQ2.Cons d
  Same := fun s s' => s'.plan = s.plan

theorem mach2_sel : (mach2 d cfg dec).sel = PQ2.select d cfg dec := rfl
theorem mach2_rem : (mach2 d cfg dec).rem = rem2 d cfg dec := rfl
theorem mach2_pos : (mach2 d cfg dec).pos = PQ2.position := rfl
theorem mach2_lvl : (mach2 d cfg dec).lvl = PQ2.depth := rfl
theorem mach2_Inv : (mach2 d cfg dec).Inv = PQ2.Inv d := rfl
theorem mach2_Cons : (mach2 d cfg dec).Cons = PQ2.Cons d := rfl
theorem mach2_Same (s s' : PQ2) : (mach2 d cfg dec).Same s s' = (s'.plan = s.plan) := rfl

end

end XPathV.Model
