import XPathV.Lemmas.Pull2.Spec
/-! # Structural laws of the extended pull machine: `Cons → Inv`, independence of `t.Current()`,
`Evaluate`/`Clone` facts -/
namespace XPathV.Model
open XPathV

section
variable (d : Doc) (cfg : ECfg) (dec : Plan → Ref → Bool)

theorem PQ2.cons_inv : ∀ q : PQ2, q.Cons d → q.Inv d := by
  intro q
  induction q with
  | context c => intro _; trivial
  | absolute c => intro _; trivial
  | self a inp ih | parent a inp ih | filter inp pred pos pm ih | group inp pos ih =>
    intro h; exact ih h
  | child a inp it pos ih | cachedChild a inp it pos ih | attr a inp it ih | descendant a s inp it pos level ih
  | ancestor a s inp it tb ih | merge inp ch it ih _ =>
    intro h; exact Or.inr h
  | following a sib inp it pos ih | preceding a sib inp it pos ih =>
    intro h; exact Or.inr ⟨h.1, fun n q hq => ⟨(h.2 n q hq).1, Or.inl (h.2 n q hq).2⟩⟩
  | union l r it _ _ => intro h; exact Or.inr h
  | descOverDesc a ms inp level pos cn ih => intro h; exact Or.inr h

theorem rem_innerOK {q : PQ} (h : innerOK d (some q)) (c c' : Ref) : rem d cfg c q = rem d cfg c' q := by
  obtain ⟨a, s, n, it, p, l, rfl, hn, _⟩ := h
  simp only [rem, hn, if_true]

theorem rem2_cons_indep : ∀ q : PQ2, q.Cons d → ∀ c c', rem2 d cfg dec c q = rem2 d cfg dec c' q := by
  intro q
  induction q with
  | context n => intro h c c'; simp only [PQ2.Cons] at h; simp only [rem2, h, if_true]
  | absolute n => intro h c c'; rfl
  | self a inp ih | parent a inp ih | filter inp pred pos pm ih | group inp pos ih =>
    intro h c c'; simp only [rem2, ih h c c']
  | child a inp it pos ih | cachedChild a inp it pos ih | attr a inp it ih | descendant a s inp it pos level ih
  | ancestor a s inp it tb ih =>
    intro h c c'; simp only [rem2, ih h.1 c c']
  | descOverDesc a ms inp level pos cn ih => intro h c c'; simp only [rem2, ih h.1 c c']
  | merge inp ch it ih _ => intro h c c'; simp only [rem2, ih h.1 c c']
  | union l r it _ _ =>
    intro h c c'
    cases it with
    | none => simp [PQ2.Cons] at h
    | some buf => rfl
  | following a sib inp it pos ih =>
    intro h c c'
    simp only [rem2, ih h.1 c c']
  | preceding a sib inp it pos ih =>
    intro h c c'
    simp only [rem2, ih h.1 c c']

theorem mach2_laws : (mach2 d cfg dec).Laws where
  cons_inv := PQ2.cons_inv d
  cons_indep := rem2_cons_indep d cfg dec
  same_refl := fun _ => rfl
  same_trans := fun s s' s'' h1 h2 => by
    show s''.plan = s.plan
    have h1 : s'.plan = s.plan := h1
    have h2 : s''.plan = s'.plan := h2
    rw [h2, h1]

/-! ## `Evaluate` and `Clone` -/

theorem PQ2.evaluate_plan : ∀ q : PQ2, q.evaluate.plan = q.plan := by
  intro q; induction q <;> simp_all [PQ2.evaluate, PQ2.plan]

/-- every state produced by `Evaluate` satisfies the invariant — whatever the state was before -/
theorem PQ2.inv_evaluate : ∀ q : PQ2, q.evaluate.Inv d := by
  intro q
  induction q with
  | context c => trivial
  | absolute c => trivial
  | self a inp ih | parent a inp ih | filter inp pred pos pm ih | group inp pos ih => exact ih
  | child a inp it pos ih | cachedChild a inp it pos ih | attr a inp it ih | descendant a s inp it pos level ih
  | ancestor a s inp it tb ih | following a sib inp it pos ih | preceding a sib inp it pos ih
  | merge inp ch it ih _ =>
    exact Or.inl ⟨rfl, ih⟩
  | union l r it ihl ihr => exact Or.inl ⟨rfl, ihl, ihr⟩
  | descOverDesc a ms inp level pos cn ih => exact Or.inl ⟨rfl, ih⟩

theorem PQ2.inv_clone : ∀ q : PQ2, q.clone.Inv d := by
  intro q
  induction q with
  | context c => trivial
  | absolute c => trivial
  | self a inp ih | parent a inp ih | filter inp pred pos pm ih | group inp pos ih => exact ih
  | child a inp it pos ih | cachedChild a inp it pos ih | attr a inp it ih | descendant a s inp it pos level ih
  | ancestor a s inp it tb ih | following a sib inp it pos ih | preceding a sib inp it pos ih
  | merge inp ch it ih _ =>
    exact Or.inl ⟨rfl, ih⟩
  | union l r it ihl ihr => exact Or.inl ⟨rfl, ihl, ihr⟩
  | descOverDesc a ms inp level pos cn ih => exact Or.inl ⟨rfl, ih⟩

/-- the remaining stream of a state produced by `Evaluate` is the whole sequence of its
configuration: nothing of the previous evaluation survives -/
theorem rem2_evaluate : ∀ (q : PQ2) (c : Ref), rem2 d cfg dec c q.evaluate = full2 d cfg dec c q := by
  intro q
  induction q with
  | context n => intro c; rfl
  | absolute n => intro c; rfl
  | self a inp ih | parent a inp ih | group inp pos ih | filter inp pred pos pm ih =>
    intro c; simp only [PQ2.evaluate, rem2, full2, ih c]
  | child a inp it pos ih | cachedChild a inp it pos ih | attr a inp it ih | descendant a s inp it pos level ih
  | ancestor a s inp it tb ih | following a sib inp it pos ih | preceding a sib inp it pos ih =>
    intro c; simp [PQ2.evaluate, rem2, full2, ih c]
  | merge inp ch it ih _ => intro c; simp [PQ2.evaluate, rem2, full2, ih c]
  | union l r it ihl ihr => intro c; simp only [PQ2.evaluate, rem2, full2, ihl c, ihr c]
  | descOverDesc a ms inp level pos cn ih =>
    intro c; simp [PQ2.evaluate, rem2, full2, ih c, dodRest, numFrom]

/-- `Clone` gives the same whole sequence (a `cachedChildQuery` is cloned into a `childQuery`) -/
theorem full2_clone : ∀ (q : PQ2) (c : Ref), full2 d cfg dec c q.clone = full2 d cfg dec c q := by
  intro q
  induction q with
  | context n => intro c; rfl
  | absolute n => intro c; rfl
  | self a inp ih | parent a inp ih | group inp pos ih | filter inp pred pos pm ih
  | child a inp it pos ih | cachedChild a inp it pos ih | attr a inp it ih | descendant a s inp it pos level ih
  | ancestor a s inp it tb ih | following a sib inp it pos ih | preceding a sib inp it pos ih
  | descOverDesc a ms inp level pos cn ih =>
    intro c; simp only [PQ2.clone, full2, ih c]
  | merge inp ch it ih ihc => intro c; simp only [PQ2.clone, full2, ih c, ihc]
  | union l r it ihl ihr => intro c; simp only [PQ2.clone, full2, ihl c, ihr c]

/-- a cloned machine is in its reset state -/
theorem PQ2.clone_evaluate : ∀ q : PQ2, q.clone.evaluate = q.clone := by
  intro q; induction q <;> simp_all [PQ2.clone, PQ2.evaluate]

/-- the whole sequence depends on the configuration only -/
theorem full2_plan_congr : ∀ (q q' : PQ2), q'.plan = q.plan → ∀ c, full2 d cfg dec c q' = full2 d cfg dec c q := by
  intro q
  induction q with
  | context n => intro q' h c; cases q' <;> simp_all [PQ2.plan, full2]
  | absolute n => intro q' h c; cases q' <;> simp_all [PQ2.plan, full2]
  | self a inp ih | parent a inp ih | group inp pos ih | filter inp pred pos pm ih
  | child a inp it pos ih | cachedChild a inp it pos ih | attr a inp it ih | descendant a s inp it pos level ih
  | ancestor a s inp it tb ih | following a sib inp it pos ih | preceding a sib inp it pos ih
  | descOverDesc a ms inp level pos cn ih =>
    intro q' h c; cases q' <;> simp_all [PQ2.plan, full2]
  | merge inp ch it ih ihc => intro q' h c; cases q' <;> simp_all [PQ2.plan, full2]
  | union l r it ihl ihr => intro q' h c; cases q' <;> simp_all [PQ2.plan, full2]

theorem rem2_clone (q : PQ2) (c : Ref) : rem2 d cfg dec c q.clone = full2 d cfg dec c q := by
  rw [← PQ2.clone_evaluate, rem2_evaluate, full2_clone]

end

end XPathV.Model
