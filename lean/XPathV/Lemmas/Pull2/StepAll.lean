import XPathV.Lemmas.Pull2.FolWalk
/-!
# The one-pull lemma for every state of every node-set iterator type
-/
namespace XPathV.Model
open XPathV

section
variable (d : Doc) (cfg : ECfg) (dec : Plan → Ref → Bool)

/-- `followingQuery{Sibling: false}` (well-formed documents) -/
theorem step2_following_nonsib (wf : WF d) (n : Nat) (hin : StepIH d cfg dec n) (a : AxisInfo)
    (inp : PQ2) (hp : PSz d n inp) (it : Option (Ref × Option PQ)) (pos : Nat) (c : Ref)
    (hi : (PQ2.following a false inp it pos).Inv d) (hg : Good d c) :
    Step2 d cfg dec (.following a false inp it pos) c :=
  step2_following_gen d cfg dec n hin a false (fun x c hgx _ => fol_start d cfg wf a x c hgx)
    (fun k p c hk hgc => fol_body d cfg wf a k p c hk hgc) inp hp it pos c hi hg

/-- `precedingQuery{Sibling: false}` -/
theorem step2_preceding_nonsib (n : Nat) (hin : StepIH d cfg dec n) (a : AxisInfo)
    (inp : PQ2) (hp : PSz d n inp) (it : Option (Ref × Option PQ)) (pos : Nat) (c : Ref)
    (hi : (PQ2.preceding a false inp it pos).Inv d) (hg : Good d c) :
    Step2 d cfg dec (.preceding a false inp it pos) c :=
  step2_preceding_gen d cfg dec n hin a false (fun x c _ _ => prec_start d cfg a x c)
    (fun k p c hk hgc => prec_body d cfg a k p c hk hgc) inp hp it pos c hi hg

theorem select_step2_aux (hd : 0 < d.length) : ∀ n, StepIH d cfg dec n := by
  intro n
  induction n with
  | zero => intro q h; cases q <;> simp [PSz, PQ2.plan] at h
  | succ n ih =>
    intro q h hi c hg
    obtain ⟨hsz, hs⟩ := h
    cases q with
    | context k => exact step2_context d cfg dec k c hg
    | absolute k => exact step2_absolute d cfg dec hd k c hg
    | child a inp it pos =>
      exact step2_child d cfg dec n ih a inp ⟨by simp [PQ2.plan] at hsz; omega, hs⟩ it pos c hi hg
    | cachedChild a inp it pos =>
      exact step2_cachedChild d cfg dec n ih a inp ⟨by simp [PQ2.plan] at hsz; omega, hs⟩ it pos c hi hg
    | attr a inp it =>
      exact step2_attr d cfg dec n ih a inp ⟨by simp [PQ2.plan] at hsz; omega, hs⟩ it c hi hg
    | self a inp =>
      exact step2_self d cfg dec n ih a inp ⟨by simp [PQ2.plan] at hsz; omega, hs⟩ c hi hg
    | parent a inp =>
      exact step2_parent d cfg dec n ih a inp ⟨by simp [PQ2.plan] at hsz; omega, hs⟩ c hi hg
    | descendant a s inp it pos level =>
      exact step2_descendant d cfg dec n ih a s inp ⟨by simp [PQ2.plan] at hsz; omega, hs⟩ it pos level c hi hg
    | ancestor a s inp it tb =>
      exact step2_ancestor d cfg dec n ih a s inp ⟨by simp [PQ2.plan] at hsz; omega, hs⟩ it tb c hi hg
    | following a sib inp it pos =>
      have hp : PSz d n inp := ⟨by simp [PQ2.plan] at hsz; omega, fun h => hs (Or.inr h)⟩
      cases sib with
      | true => exact step2_following_sib d cfg dec n ih a inp hp it pos c hi hg
      | false => exact step2_following_nonsib d cfg dec (hs (Or.inl rfl)) n ih a inp hp it pos c hi hg
    | preceding a sib inp it pos =>
      have hp : PSz d n inp := ⟨by simp [PQ2.plan] at hsz; omega, hs⟩
      cases sib with
      | true => exact step2_preceding_sib d cfg dec n ih a inp hp it pos c hi hg
      | false => exact step2_preceding_nonsib d cfg dec n ih a inp hp it pos c hi hg
    | filter inp pred pos pm =>
      exact step2_filter d cfg dec n ih inp pred ⟨by simp [PQ2.plan] at hsz; omega, hs⟩ pos pm c hi hg
    | union l r it =>
      exact step2_union d cfg dec n ih l r ⟨by simp [PQ2.plan] at hsz; omega, fun h => hs (Or.inl h)⟩
        ⟨by simp [PQ2.plan] at hsz; omega, fun h => hs (Or.inr h)⟩ it c hi hg
    | group inp pos =>
      exact step2_group d cfg dec n ih inp ⟨by simp [PQ2.plan] at hsz; omega, hs⟩ pos c hi hg
    | descOverDesc a ms inp level pos cn =>
      exact step2_dod d cfg dec n ih a ms inp ⟨by simp [PQ2.plan] at hsz; omega, hs⟩ level pos cn c hi hg
    | merge inp ch it =>
      exact step2_merge d cfg dec n ih inp ch ⟨by simp [PQ2.plan] at hsz; omega, fun h => hs (Or.inl h)⟩
        ⟨by simp [PQ2.plan] at hsz; omega, fun h => hs (Or.inr h)⟩ it c hi hg

/-- **One-pull lemma.**  From every state `q` (of any node-set iterator type) satisfying the
invariant, with `t.Current() = c`, given enough fuel, `Select` returns the head of `rem2 c q` (or
`nil` when it is empty) and moves to a state whose remaining stream is the tail (for every later
`t.Current()`, since the new state is consumed); the configuration is unchanged,
`position()`/`depth()` are those of the reported item.  Only a configuration containing a
non-sibling `followingQuery` needs the document to be well-formed. -/
theorem select_step2 (hd : 0 < d.length) (q : PQ2) (hw : NeedsWF q.plan → WF d) (hi : q.Inv d) (c : Ref)
    (hg : Good d c) : Step2 d cfg dec q c :=
  select_step2_aux d cfg dec hd _ q ⟨Nat.le_refl _, hw⟩ hi c hg

end

end XPathV.Model
