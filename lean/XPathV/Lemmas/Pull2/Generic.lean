import XPathV.Model.Pull2
import XPathV.Lemmas.PullProofs
/-!
# Generic one-pull lemmas for pull machines

An abstract machine `Mach σ` is a `Select` function with fuel over states `σ` (threading
`t.Current()`), together with its specification: the stream `rem c s` a state still yields when
`t.Current() = c`.  `Step` is the one-pull lemma for one state.  Two composition schemes cover
most query types:

* `closure_step`: the "closure per input node" scheme (`if iterator == nil { pull input; build closure };
  if node := iterator(); node != nil { return node }; iterator = nil`),
* `fmap_step`: the "filter/map the input" scheme (`for { node := Input.Select(t); …; if ok { return … } }`);
  `gcur` is where the loop body puts `t.Current()` (a filter: on the candidate), `fin c x` what the
  `Select` leaves when it was entered with `c` and its loop left `x` (a filter: `c`, restored by a `defer`).

Both are compositional: they assume the one-pull lemma for the input states and conclude it for
the composed states.
-/
namespace XPathV.Model
open XPathV

structure Mach (σ : Type) where
  sel : Nat → σ → Ref → Res Ref × σ × Ref
  rem : Ref → σ → List Item
  pos : σ → Nat
  lvl : σ → Nat
  /-- precondition of the one-pull lemma -/
  Inv : σ → Prop
  /-- the state no longer reads `t.Current()` -/
  Cons : σ → Prop
  /-- same configuration -/
  Same : σ → σ → Prop

/-- laws every instance satisfies -/
structure Mach.Laws {σ : Type} (M : Mach σ) : Prop where
  cons_inv : ∀ s, M.Cons s → M.Inv s
  cons_indep : ∀ s, M.Cons s → ∀ c c', M.rem c s = M.rem c' s
  same_refl : ∀ s, M.Same s s
  same_trans : ∀ s s' s'', M.Same s s' → M.Same s' s'' → M.Same s s''

/-- **One pull** from state `s` with `t.Current() = c`, given enough fuel: the answer is the head of
`rem c s`; the new state's stream is the tail, it is consumed, has the same configuration; the new
`t.Current()` is good; `position()`/`depth()` are those of the item and the item is good. -/
def Mach.Step {σ : Type} (M : Mach σ) (Good : Ref → Prop) (s : σ) (c : Ref) : Prop :=
  ∃ s' c' f0, (∀ f, f0 ≤ f → M.sel f s c = (headRes (M.rem c s), s', c')) ∧
    M.rem c' s' = (M.rem c s).tail ∧ M.Cons s' ∧ M.Same s s' ∧ Good c' ∧
    (∀ x xs, M.rem c s = x :: xs → M.pos s' = x.pos ∧ M.lvl s' = x.lvl ∧ Good x.r)

section Closure
variable {σ κ π : Type} (M : Mach σ) (L : M.Laws) (Good : Ref → Prop)
variable (P : σ → Prop) (hP : ∀ s s', P s → M.Same s s' → P s')
variable (hin : ∀ s, P s → M.Inv s → ∀ c, Good c → M.Step Good s c)
variable (mk : σ → Option κ → π → σ)
variable (KOk KCons : κ → Prop)
variable (reset idle : π → π) (posOf lvlOf : π → Nat)
variable (start : Nat → Ref → π → Ref → Option (κ × π × Ref))
variable (body : Nat → κ → π → Ref → Res (Ref × κ × π) × Ref)
variable (R : Option κ → π → Ref → List Item → List Item)
-- structure of the composed states
variable (rem_mk : ∀ inp it p c, M.rem c (mk inp it p) = R it p c (M.rem c inp))
variable (inv_none : ∀ inp p, M.Inv (mk inp none p) → M.Inv inp)
variable (inv_some : ∀ inp k p, M.Inv (mk inp (some k) p) → M.Cons inp ∧ KOk k)
variable (cons_mk : ∀ inp it p, M.Cons inp → (∀ k, it = some k → KCons k) → M.Cons (mk inp it p))
variable (same_mk : ∀ inp inp' it it' p p', M.Same inp inp' → M.Same (mk inp it p) (mk inp' it' p'))
variable (pos_mk : ∀ inp it p, M.pos (mk inp it p) = posOf p)
variable (lvl_mk : ∀ inp it p, M.lvl (mk inp it p) = lvlOf p)
-- the `Select` method
variable (sel_none_yield : ∀ f inp p c n inp' c' k p' c'', M.sel f inp c = (.yield n, inp', c') →
  start f n (reset p) c' = some (k, p', c'') → M.sel (f+1) (mk inp none p) c = M.sel f (mk inp' (some k) p') c'')
variable (sel_none_done : ∀ f inp p c inp' c', M.sel f inp c = (.done, inp', c') →
  M.sel (f+1) (mk inp none p) c = (.done, mk inp' none (reset p), c'))
variable (sel_some_yield : ∀ f inp k p c j k' p' c', body f k p c = (.yield (j, k', p'), c') →
  M.sel (f+1) (mk inp (some k) p) c = (.yield j, mk inp (some k') p', c'))
variable (sel_some_done : ∀ f inp k p c c', body f k p c = (.done, c') →
  M.sel (f+1) (mk inp (some k) p) c = M.sel f (mk inp none (idle p)) c')
-- the specification
variable (R_nil : ∀ p c, R none p c [] = [])
variable (start_spec : ∀ (x : Item) (xs : List Item) (p : π) (c c0 : Ref), Good x.r → Good c →
  ∃ k p' c'' f0, (∀ f, f0 ≤ f → start f x.r (reset p) c = some (k, p', c'')) ∧ KOk k ∧ Good c'' ∧
    R none p c0 (x :: xs) = R (some k) p' c'' xs)
variable (body_spec : ∀ k p c, KOk k → Good c →
  (∃ j k' p' c' f0, (∀ f, f0 ≤ f → body f k p c = (.yield (j, k', p'), c')) ∧ KCons k' ∧ Good c' ∧ Good j ∧
    ∀ xs, R (some k) p c xs = ⟨j, posOf p', lvlOf p'⟩ :: R (some k') p' c' xs) ∨
  (∃ c' f0, (∀ f, f0 ≤ f → body f k p c = (.done, c')) ∧ Good c' ∧
    ∀ xs, R (some k) p c xs = R none (idle p) c' xs))

include L sel_some_yield sel_some_done body_spec rem_mk cons_mk same_mk pos_mk lvl_mk in
theorem closure_some (inp : σ) (hc : M.Cons inp)
    (hn : ∀ p c, Good c → M.Step Good (mk inp none p) c) (k : κ) (p : π) (c : Ref) (hk : KOk k)
    (hg : Good c) : M.Step Good (mk inp (some k) p) c := by
  rcases body_spec k p c hk hg with ⟨j, k', p', c', f0, hb, hk', hgc', hgj, hR⟩ | ⟨c', f0, hb, hgc', hR⟩
  · refine ⟨mk inp (some k') p', c', f0 + 1, fun f hf => ?_, ?_, ?_, ?_, hgc', ?_⟩
    · obtain ⟨f', rfl⟩ : ∃ f', f = f' + 1 := ⟨f - 1, by omega⟩
      rw [sel_some_yield f' inp k p c j k' p' c' (hb f' (by omega)), rem_mk, hR]; rfl
    · rw [rem_mk, rem_mk, hR, L.cons_indep inp hc c' c]; rfl
    · exact cons_mk inp _ p' hc (fun k0 h0 => by injection h0 with h0; subst h0; exact hk')
    · exact same_mk _ _ _ _ _ _ (L.same_refl inp)
    · intro x xs hx
      rw [rem_mk, hR] at hx
      injection hx with hx1 hx2
      subst hx1
      exact ⟨pos_mk _ _ _, lvl_mk _ _ _, hgj⟩
  · obtain ⟨s', c2, f1, hsel, hrem, hcons, hsame, hgc2, hpos⟩ := hn (idle p) c' hgc'
    have heq : M.rem c (mk inp (some k) p) = M.rem c' (mk inp none (idle p)) := by
      rw [rem_mk, rem_mk, hR, L.cons_indep inp hc c c']
    refine ⟨s', c2, max f0 f1 + 1, fun f hf => ?_, ?_, hcons, ?_, hgc2, ?_⟩
    · obtain ⟨f', rfl⟩ : ∃ f', f = f' + 1 := ⟨f - 1, by omega⟩
      rw [sel_some_done f' inp k p c c' (hb f' (by omega)), hsel f' (by omega), heq]
    · rw [heq]; exact hrem
    · exact L.same_trans _ _ _ (same_mk _ _ _ _ _ _ (L.same_refl inp)) hsame
    · rw [heq]; exact hpos

include L hP hin sel_none_yield sel_none_done sel_some_yield sel_some_done R_nil start_spec body_spec
  rem_mk cons_mk same_mk pos_mk lvl_mk in
theorem closure_none : ∀ (l : List Item) (inp : σ), P inp → M.Inv inp → ∀ c, Good c → M.rem c inp = l →
    ∀ p, M.Step Good (mk inp none p) c := by
  intro l
  induction l with
  | nil =>
    intro inp hp hi c hg hr p
    obtain ⟨inp', c', f1, hsel, hrem, hcons, hsame, hgc', _⟩ := hin inp hp hi c hg
    rw [hr] at hsel hrem
    refine ⟨mk inp' none (reset p), c', f1 + 1, fun f hf => ?_, ?_, ?_, ?_, hgc', ?_⟩
    · obtain ⟨f', rfl⟩ : ∃ f', f = f' + 1 := ⟨f - 1, by omega⟩
      rw [sel_none_done f' inp p c inp' c' (hsel f' (by omega)), rem_mk, hr, R_nil]; rfl
    · rw [rem_mk, rem_mk, hrem, hr]; simp only [List.tail_nil]; rw [R_nil, R_nil]; rfl
    · exact cons_mk inp' none _ hcons (fun k h => by cases h)
    · exact same_mk _ _ _ _ _ _ hsame
    · intro x xs hx; rw [rem_mk, hr, R_nil] at hx; cases hx
  | cons x xs ih =>
    intro inp hp hi c hg hr p
    obtain ⟨inp', c', f1, hsel, hrem, hcons, hsame, hgc', hpos⟩ := hin inp hp hi c hg
    have hgx := (hpos x xs hr).2.2
    rw [hr] at hsel hrem
    simp only [List.tail_cons] at hrem
    obtain ⟨k, p', c'', f2, hst, hk, hgc'', hR⟩ := start_spec x xs p c' c hgx hgc'
    have hp' : P inp' := hP inp inp' hp hsame
    have hrem'' : M.rem c'' inp' = xs := by rw [L.cons_indep inp' hcons c'' c']; exact hrem
    have hn : ∀ p c, Good c → M.Step Good (mk inp' none p) c := fun p0 c0 hg0 =>
      ih inp' hp' (L.cons_inv inp' hcons) c0 hg0 (by rw [L.cons_indep inp' hcons c0 c']; exact hrem) p0
    obtain ⟨s', c3, f3, hsel3, hrem3, hcons3, hsame3, hgc3, hpos3⟩ :=
      closure_some M L Good mk KOk KCons idle posOf lvlOf body R rem_mk cons_mk same_mk pos_mk lvl_mk
        sel_some_yield sel_some_done body_spec inp' hcons hn k p' c'' hk hgc''
    have heq : M.rem c (mk inp none p) = M.rem c'' (mk inp' (some k) p') := by
      rw [rem_mk, rem_mk, hr, hR, hrem'']
    refine ⟨s', c3, max f1 (max f2 f3) + 1, fun f hf => ?_, ?_, hcons3, ?_, hgc3, ?_⟩
    · obtain ⟨f', rfl⟩ : ∃ f', f = f' + 1 := ⟨f - 1, by omega⟩
      have h1 : M.sel f' inp c = (.yield x.r, inp', c') := by rw [hsel f' (by omega)]; rfl
      rw [sel_none_yield f' inp p c x.r inp' c' k p' c'' h1 (hst f' (by omega)), hsel3 f' (by omega), heq]
    · rw [heq]; exact hrem3
    · exact L.same_trans _ _ _ (same_mk _ _ none (some k) p p' hsame) hsame3
    · rw [heq]; exact hpos3

include L hP hin sel_none_yield sel_none_done sel_some_yield sel_some_done R_nil start_spec body_spec
  rem_mk inv_none inv_some cons_mk same_mk pos_mk lvl_mk in
/-- **Closure scheme.**  If the one-pull lemma holds for the input states, it holds for the
composed states `mk inp it p`. -/
theorem closure_step (inp : σ) (hp : P inp) (it : Option κ) (p : π) (c : Ref)
    (hi : M.Inv (mk inp it p)) (hg : Good c) : M.Step Good (mk inp it p) c := by
  have hnone : ∀ inp, P inp → M.Inv inp → ∀ p c, Good c → M.Step Good (mk inp none p) c :=
    fun inp hp hi p c hg =>
      closure_none M L Good P hP hin mk KOk KCons reset idle posOf lvlOf start body R rem_mk cons_mk same_mk pos_mk
        lvl_mk sel_none_yield sel_none_done sel_some_yield sel_some_done R_nil start_spec body_spec
        _ inp hp hi c hg rfl p
  cases it with
  | none => exact hnone inp hp (inv_none inp p hi) p c hg
  | some k =>
    obtain ⟨hc, hk⟩ := inv_some inp k p hi
    exact closure_some M L Good mk KOk KCons idle posOf lvlOf body R rem_mk cons_mk same_mk pos_mk lvl_mk
      sel_some_yield sel_some_done body_spec inp hc (fun p c hg => hnone inp hp (L.cons_inv inp hc) p c hg)
      k p c hk hg

end Closure


/-! ## The closure scheme with a `flatMap` specification -/

/-- what is left of the current closure, then the contribution of every remaining input node -/
def flatR {κ π : Type} (curOf : κ → π → Ref → List Item) (contrib : Ref → List Item) :
    Option κ → π → Ref → List Item → List Item :=
  fun it p c xs => (match it with | none => [] | some k => curOf k p c) ++ xs.flatMap (fun x => contrib x.r)

section Flat
variable {σ κ π : Type} (M : Mach σ) (L : M.Laws) (Good : Ref → Prop)
variable (P : σ → Prop) (hP : ∀ s s', P s → M.Same s s' → P s')
variable (hin : ∀ s, P s → M.Inv s → ∀ c, Good c → M.Step Good s c)
variable (mk : σ → Option κ → π → σ)
variable (KOk KCons : κ → Prop)
variable (reset idle : π → π) (posOf lvlOf : π → Nat)
variable (start : Nat → Ref → π → Ref → Option (κ × π × Ref))
variable (body : Nat → κ → π → Ref → Res (Ref × κ × π) × Ref)
variable (curOf : κ → π → Ref → List Item) (contrib : Ref → List Item)
variable (rem_mk : ∀ inp it p c, M.rem c (mk inp it p) = flatR curOf contrib it p c (M.rem c inp))
variable (inv_none : ∀ inp p, M.Inv (mk inp none p) → M.Inv inp)
variable (inv_some : ∀ inp k p, M.Inv (mk inp (some k) p) → M.Cons inp ∧ KOk k)
variable (cons_mk : ∀ inp it p, M.Cons inp → (∀ k, it = some k → KCons k) → M.Cons (mk inp it p))
variable (same_mk : ∀ inp inp' it it' p p', M.Same inp inp' → M.Same (mk inp it p) (mk inp' it' p'))
variable (pos_mk : ∀ inp it p, M.pos (mk inp it p) = posOf p)
variable (lvl_mk : ∀ inp it p, M.lvl (mk inp it p) = lvlOf p)
variable (sel_none_yield : ∀ f inp p c n inp' c' k p' c'', M.sel f inp c = (.yield n, inp', c') →
  start f n (reset p) c' = some (k, p', c'') → M.sel (f+1) (mk inp none p) c = M.sel f (mk inp' (some k) p') c'')
variable (sel_none_done : ∀ f inp p c inp' c', M.sel f inp c = (.done, inp', c') →
  M.sel (f+1) (mk inp none p) c = (.done, mk inp' none (reset p), c'))
variable (sel_some_yield : ∀ f inp k p c j k' p' c', body f k p c = (.yield (j, k', p'), c') →
  M.sel (f+1) (mk inp (some k) p) c = (.yield j, mk inp (some k') p', c'))
variable (sel_some_done : ∀ f inp k p c c', body f k p c = (.done, c') →
  M.sel (f+1) (mk inp (some k) p) c = M.sel f (mk inp none (idle p)) c')
variable (start_spec : ∀ (n : Ref) (p : π) (c : Ref), Good n → Good c →
  ∃ k p' c'' f0, (∀ f, f0 ≤ f → start f n (reset p) c = some (k, p', c'')) ∧ KOk k ∧ Good c'' ∧
    curOf k p' c'' = contrib n)
variable (body_spec : ∀ k p c, KOk k → Good c →
  (∃ j k' p' c' f0, (∀ f, f0 ≤ f → body f k p c = (.yield (j, k', p'), c')) ∧ KCons k' ∧ Good c' ∧ Good j ∧
    curOf k p c = ⟨j, posOf p', lvlOf p'⟩ :: curOf k' p' c') ∨
  (∃ c' f0, (∀ f, f0 ≤ f → body f k p c = (.done, c')) ∧ Good c' ∧ curOf k p c = []))

include L hP hin sel_none_yield sel_none_done sel_some_yield sel_some_done start_spec body_spec
  rem_mk inv_none inv_some cons_mk same_mk pos_mk lvl_mk in
/-- **Closure scheme, `flatMap` form.** -/
theorem closure_flat (inp : σ) (hp : P inp) (it : Option κ) (p : π) (c : Ref)
    (hi : M.Inv (mk inp it p)) (hg : Good c) : M.Step Good (mk inp it p) c := by
  refine closure_step M L Good P hP hin mk KOk KCons reset idle posOf lvlOf start body (flatR curOf contrib)
    rem_mk inv_none inv_some cons_mk same_mk pos_mk lvl_mk sel_none_yield sel_none_done sel_some_yield
    sel_some_done (fun p c => rfl) ?_ ?_ inp hp it p c hi hg
  · intro x xs p c c0 hgx hgc
    obtain ⟨k, p', c'', f0, h1, h2, h3, h4⟩ := start_spec x.r p c hgx hgc
    refine ⟨k, p', c'', f0, h1, h2, h3, ?_⟩
    simp only [flatR, List.flatMap_cons, List.nil_append, h4]
  · intro k p c hk hgc
    rcases body_spec k p c hk hgc with ⟨j, k', p', c', f0, h1, h2, h3, h4, h5⟩ | ⟨c', f0, h1, h2, h3⟩
    · exact Or.inl ⟨j, k', p', c', f0, h1, h2, h3, h4, fun xs => by simp only [flatR, h5, List.cons_append]⟩
    · exact Or.inr ⟨c', f0, h1, h2, fun xs => by simp only [flatR, h3]⟩

end Flat

/-! ## The filter/map scheme -/

/-- specification of the filter/map scheme: `g n pos lvl p` decides on input item `n` (with the
input's `position()`/`depth()`), returning the node to report (if any) and the new fields -/
def fmapR {π : Type} (g : Ref → Nat → Nat → π → Option Ref × π) (posOf lvlOf : π → Nat) :
    π → List Item → List Item
  | _, [] => []
  | p, x :: xs =>
    match g x.r x.pos x.lvl p with
    | (some m, p') => ⟨m, posOf p', lvlOf p'⟩ :: fmapR g posOf lvlOf p' xs
    | (none, p') => fmapR g posOf lvlOf p' xs

section FMap
variable {σ π : Type} (M : Mach σ) (L : M.Laws) (Good : Ref → Prop)
variable (P : σ → Prop) (hP : ∀ s s', P s → M.Same s s' → P s')
variable (hin : ∀ s, P s → M.Inv s → ∀ c, Good c → M.Step Good s c)
variable (mk : σ → π → σ)
variable (g : Ref → Nat → Nat → π → Option Ref × π) (gcur : Ref → Ref → Ref) (fin : Ref → Ref → Ref) (pdone : π → π)
variable (posOf lvlOf : π → Nat)
variable (rem_mk : ∀ inp p c, M.rem c (mk inp p) = fmapR g posOf lvlOf p (M.rem c inp))
variable (inv_mk : ∀ inp p, M.Inv (mk inp p) → M.Inv inp)
variable (cons_mk : ∀ inp p, M.Cons inp → M.Cons (mk inp p))
variable (same_mk : ∀ inp inp' p p', M.Same inp inp' → M.Same (mk inp p) (mk inp' p'))
variable (pos_mk : ∀ inp p, M.pos (mk inp p) = posOf p)
variable (lvl_mk : ∀ inp p, M.lvl (mk inp p) = lvlOf p)
variable (sel_yield_some : ∀ f inp p c n inp' c' m p', M.sel f inp c = (.yield n, inp', c') →
  g n (M.pos inp') (M.lvl inp') p = (some m, p') →
  M.sel (f+1) (mk inp p) c = (.yield m, mk inp' p', fin c (gcur n c')))
variable (sel_yield_none : ∀ f inp p c n inp' c' p', M.sel f inp c = (.yield n, inp', c') →
  g n (M.pos inp') (M.lvl inp') p = (none, p') →
  M.sel (f+1) (mk inp p) c =
    ((M.sel f (mk inp' p') (gcur n c')).1, (M.sel f (mk inp' p') (gcur n c')).2.1,
      fin c (M.sel f (mk inp' p') (gcur n c')).2.2))
variable (sel_done : ∀ f inp p c inp' c', M.sel f inp c = (.done, inp', c') →
  M.sel (f+1) (mk inp p) c = (.done, mk inp' (pdone p), fin c c'))
variable (g_good : ∀ n a b p m p', g n a b p = (some m, p') → Good n → Good m)
variable (gcur_good : ∀ n c, Good n → Good c → Good (gcur n c))
variable (fin_good : ∀ c x, Good c → Good x → Good (fin c x))

include L hP hin rem_mk cons_mk same_mk pos_mk lvl_mk sel_yield_some sel_yield_none sel_done g_good gcur_good
  fin_good in
theorem fmap_aux : ∀ (l : List Item) (inp : σ), P inp → M.Inv inp → ∀ c, Good c → M.rem c inp = l →
    ∀ p, M.Step Good (mk inp p) c := by
  intro l
  induction l with
  | nil =>
    intro inp hp hi c hg hr p
    obtain ⟨inp', c', f1, hsel, hrem, hcons, hsame, hgc', _⟩ := hin inp hp hi c hg
    rw [hr] at hsel hrem
    refine ⟨mk inp' (pdone p), fin c c', f1 + 1, fun f hf => ?_, ?_, cons_mk _ _ hcons, same_mk _ _ _ _ hsame,
      fin_good _ _ hg hgc', ?_⟩
    · obtain ⟨f', rfl⟩ : ∃ f', f = f' + 1 := ⟨f - 1, by omega⟩
      rw [sel_done f' inp p c inp' c' (hsel f' (by omega)), rem_mk, hr]; rfl
    · rw [rem_mk, rem_mk, L.cons_indep inp' hcons _ c', hrem, hr]; rfl
    · intro x xs hx; rw [rem_mk, hr] at hx; cases hx
  | cons x xs ih =>
    intro inp hp hi c hg hr p
    obtain ⟨inp', c', f1, hsel, hrem, hcons, hsame, hgc', hpos⟩ := hin inp hp hi c hg
    obtain ⟨hpx, hlx, hgx⟩ := hpos x xs hr
    rw [hr] at hsel hrem
    simp only [List.tail_cons] at hrem
    have hp' : P inp' := hP inp inp' hp hsame
    have hgc2 : Good (gcur x.r c') := gcur_good _ _ hgx hgc'
    have hrem2 : M.rem (gcur x.r c') inp' = xs := by rw [L.cons_indep inp' hcons _ c']; exact hrem
    have h1 : ∀ f, f1 ≤ f → M.sel f inp c = (.yield x.r, inp', c') := fun f hf => by rw [hsel f hf]; rfl
    cases hgv : g x.r x.pos x.lvl p with
    | mk o p' =>
      cases o with
      | some m =>
        refine ⟨mk inp' p', fin c (gcur x.r c'), f1 + 1, fun f hf => ?_, ?_, cons_mk _ _ hcons, same_mk _ _ _ _ hsame,
          fin_good _ _ hg hgc2, ?_⟩
        · obtain ⟨f', rfl⟩ : ∃ f', f = f' + 1 := ⟨f - 1, by omega⟩
          rw [sel_yield_some f' inp p c x.r inp' c' m p' (h1 f' (by omega)) (by rw [hpx, hlx]; exact hgv),
            rem_mk, hr]
          simp only [fmapR, hgv, headRes]
        · rw [rem_mk, rem_mk, L.cons_indep inp' hcons _ (gcur x.r c'), hrem2, hr]
          simp only [fmapR, hgv, List.tail_cons]
        · intro y ys hy
          rw [rem_mk, hr] at hy
          simp only [fmapR, hgv] at hy
          injection hy with hy1 hy2
          subst hy1
          exact ⟨pos_mk _ _, lvl_mk _ _, g_good _ _ _ _ _ _ hgv hgx⟩
      | none =>
        obtain ⟨s', c3, f3, hsel3, hrem3, hcons3, hsame3, hgc3, hpos3⟩ :=
          ih inp' hp' (L.cons_inv _ hcons) (gcur x.r c') hgc2 hrem2 p'
        have heq : M.rem c (mk inp p) = M.rem (gcur x.r c') (mk inp' p') := by
          rw [rem_mk, rem_mk, hr, hrem2]; simp only [fmapR, hgv]
        refine ⟨s', fin c c3, max f1 f3 + 1, fun f hf => ?_, ?_, hcons3, ?_, fin_good _ _ hg hgc3, ?_⟩
        · obtain ⟨f', rfl⟩ : ∃ f', f = f' + 1 := ⟨f - 1, by omega⟩
          rw [sel_yield_none f' inp p c x.r inp' c' p' (h1 f' (by omega)) (by rw [hpx, hlx]; exact hgv),
            hsel3 f' (by omega), heq]
        · rw [heq, L.cons_indep s' hcons3 _ c3]; exact hrem3
        · exact L.same_trans _ _ _ (same_mk _ _ p p' hsame) hsame3
        · rw [heq]; exact hpos3

include L hP hin rem_mk inv_mk cons_mk same_mk pos_mk lvl_mk sel_yield_some sel_yield_none sel_done g_good
  gcur_good fin_good in
/-- **Filter/map scheme**, general form: the `Select` leaves `fin c x` in `t.Current()` when it was
entered with `c` and its loop left `x`. -/
theorem fmap_step_fin (inp : σ) (hp : P inp) (p : π) (c : Ref) (hi : M.Inv (mk inp p)) (hg : Good c) :
    M.Step Good (mk inp p) c :=
  fmap_aux M L Good P hP hin mk g gcur fin pdone posOf lvlOf rem_mk cons_mk same_mk pos_mk lvl_mk sel_yield_some
    sel_yield_none sel_done g_good gcur_good fin_good _ inp hp (inv_mk inp p hi) c hg rfl p

end FMap

section FMapId
variable {σ π : Type} (M : Mach σ) (L : M.Laws) (Good : Ref → Prop)
variable (P : σ → Prop) (hP : ∀ s s', P s → M.Same s s' → P s')
variable (hin : ∀ s, P s → M.Inv s → ∀ c, Good c → M.Step Good s c)
variable (mk : σ → π → σ)
variable (g : Ref → Nat → Nat → π → Option Ref × π) (gcur : Ref → Ref → Ref) (pdone : π → π)
variable (posOf lvlOf : π → Nat)
variable (rem_mk : ∀ inp p c, M.rem c (mk inp p) = fmapR g posOf lvlOf p (M.rem c inp))
variable (inv_mk : ∀ inp p, M.Inv (mk inp p) → M.Inv inp)
variable (cons_mk : ∀ inp p, M.Cons inp → M.Cons (mk inp p))
variable (same_mk : ∀ inp inp' p p', M.Same inp inp' → M.Same (mk inp p) (mk inp' p'))
variable (pos_mk : ∀ inp p, M.pos (mk inp p) = posOf p)
variable (lvl_mk : ∀ inp p, M.lvl (mk inp p) = lvlOf p)
variable (sel_yield_some : ∀ f inp p c n inp' c' m p', M.sel f inp c = (.yield n, inp', c') →
  g n (M.pos inp') (M.lvl inp') p = (some m, p') → M.sel (f+1) (mk inp p) c = (.yield m, mk inp' p', gcur n c'))
variable (sel_yield_none : ∀ f inp p c n inp' c' p', M.sel f inp c = (.yield n, inp', c') →
  g n (M.pos inp') (M.lvl inp') p = (none, p') → M.sel (f+1) (mk inp p) c = M.sel f (mk inp' p') (gcur n c'))
variable (sel_done : ∀ f inp p c inp' c', M.sel f inp c = (.done, inp', c') →
  M.sel (f+1) (mk inp p) c = (.done, mk inp' (pdone p), c'))
variable (g_good : ∀ n a b p m p', g n a b p = (some m, p') → Good n → Good m)
variable (gcur_good : ∀ n c, Good n → Good c → Good (gcur n c))

include L hP hin rem_mk inv_mk cons_mk same_mk pos_mk lvl_mk sel_yield_some sel_yield_none sel_done g_good
  gcur_good in
/-- **Filter/map scheme** for a `Select` that leaves `t.Current()` where its loop left it. -/
theorem fmap_step (inp : σ) (hp : P inp) (p : π) (c : Ref) (hi : M.Inv (mk inp p)) (hg : Good c) :
    M.Step Good (mk inp p) c :=
  fmap_step_fin M L Good P hP hin mk g gcur (fun _ x => x) pdone posOf lvlOf rem_mk inv_mk cons_mk same_mk pos_mk lvl_mk
    sel_yield_some (fun f inp p c n inp' c' p' h1 h2 => by rw [sel_yield_none f inp p c n inp' c' p' h1 h2])
    sel_done g_good gcur_good (fun _ _ _ h => h) inp hp p c hi hg

end FMapId

/-! ## Draining another query inside a `Select` (union, merge) -/

/-- the table after the `if !m[code] { m[code] = true }` loop over `xs` -/
def seenAfter (key : Ref → String) : List Ref → List String → List String
  | [], m => m
  | x :: xs, m => if m.contains (key x) then seenAfter key xs m else seenAfter key xs (key x :: m)

theorem dedupByKey_append (key : Ref → String) : ∀ (xs ys : List Ref) (m : List String),
    dedupByKey key (xs ++ ys) m = dedupByKey key xs m ++ dedupByKey key ys (seenAfter key xs m)
  | [], ys, m => rfl
  | x :: xs, ys, m => by
    simp only [List.cons_append, dedupByKey, seenAfter]
    split
    · exact dedupByKey_append key xs ys m
    · rw [dedupByKey_append key xs ys (key x :: m)]; rfl

section Collect
variable {σ : Type} (M : Mach σ) (L : M.Laws) (Good : Ref → Prop)
variable (P : σ → Prop) (hP : ∀ s s', P s → M.Same s s' → P s')
variable (hin : ∀ s, P s → M.Inv s → ∀ c, Good c → M.Step Good s c)

include L hP hin in
theorem collectM_spec : ∀ (l : List Item) (q : σ), P q → M.Inv q → ∀ c, Good c → M.rem c q = l →
    ∃ q' c' f0, (∀ fs fl list, f0 ≤ fs → f0 ≤ fl →
        collectM (M.sel fs) fl q c list = some (list ++ l.map (·.r), q', c')) ∧
      M.Cons q' ∧ M.Same q q' ∧ Good c' ∧ (∀ c'', M.rem c'' q' = []) ∧ (∀ x ∈ l, Good x.r) := by
  intro l
  induction l with
  | nil =>
    intro q hp hi c hg hr
    obtain ⟨q', c', f1, hsel, hrem, hcons, hsame, hgc', _⟩ := hin q hp hi c hg
    rw [hr] at hsel hrem
    refine ⟨q', c', f1 + 1, fun fs fl list h1 h2 => ?_, hcons, hsame, hgc', ?_, fun x hx => by cases hx⟩
    · obtain ⟨fl', rfl⟩ : ∃ f', fl = f' + 1 := ⟨fl - 1, by omega⟩
      simp only [collectM, hsel fs (by omega), headRes, List.map_nil, List.append_nil]
    · intro c''; rw [L.cons_indep q' hcons c'' c', hrem]; rfl
  | cons x xs ih =>
    intro q hp hi c hg hr
    obtain ⟨q1, c1, f1, hsel, hrem, hcons, hsame, hgc1, hpos⟩ := hin q hp hi c hg
    have hgx := (hpos x xs hr).2.2
    rw [hr] at hsel hrem
    simp only [List.tail_cons] at hrem
    obtain ⟨q', c', f2, hcol, hcons', hsame', hgc', hnil, hall⟩ :=
      ih q1 (hP q q1 hp hsame) (L.cons_inv _ hcons) c1 hgc1 hrem
    refine ⟨q', c', max f1 f2 + 1, fun fs fl list h1 h2 => ?_, hcons', L.same_trans _ _ _ hsame hsame', hgc',
      hnil, ?_⟩
    · obtain ⟨fl', rfl⟩ : ∃ f', fl = f' + 1 := ⟨fl - 1, by omega⟩
      simp only [collectM, hsel fs (by omega), headRes]
      rw [hcol fs fl' (list ++ [x.r]) (by omega) (by omega)]
      simp only [List.map_cons, List.append_assoc, List.singleton_append]
    · intro y hy
      cases hy with
      | head => exact hgx
      | tail _ hy => exact hall y hy

include L hP hin in
theorem collectU_spec (key : Ref → String) : ∀ (l : List Item) (q : σ), P q → M.Inv q → ∀ c, Good c →
    M.rem c q = l →
    ∃ q' c' f0, (∀ fs fl list m, f0 ≤ fs → f0 ≤ fl →
        collectU (M.sel fs) key fl q c list m =
          some (list ++ dedupByKey key (l.map (·.r)) m, seenAfter key (l.map (·.r)) m, q', c')) ∧
      M.Cons q' ∧ M.Same q q' ∧ Good c' ∧ (∀ c'', M.rem c'' q' = []) ∧ (∀ x ∈ l, Good x.r) := by
  intro l
  induction l with
  | nil =>
    intro q hp hi c hg hr
    obtain ⟨q', c', f1, hsel, hrem, hcons, hsame, hgc', _⟩ := hin q hp hi c hg
    rw [hr] at hsel hrem
    refine ⟨q', c', f1 + 1, fun fs fl list m h1 h2 => ?_, hcons, hsame, hgc', ?_, fun x hx => by cases hx⟩
    · obtain ⟨fl', rfl⟩ : ∃ f', fl = f' + 1 := ⟨fl - 1, by omega⟩
      simp only [collectU, hsel fs (by omega), headRes, List.map_nil, dedupByKey, seenAfter, List.append_nil]
    · intro c''; rw [L.cons_indep q' hcons c'' c', hrem]; rfl
  | cons x xs ih =>
    intro q hp hi c hg hr
    obtain ⟨q1, c1, f1, hsel, hrem, hcons, hsame, hgc1, hpos⟩ := hin q hp hi c hg
    have hgx := (hpos x xs hr).2.2
    rw [hr] at hsel hrem
    simp only [List.tail_cons] at hrem
    obtain ⟨q', c', f2, hcol, hcons', hsame', hgc', hnil, hall⟩ :=
      ih q1 (hP q q1 hp hsame) (L.cons_inv _ hcons) c1 hgc1 hrem
    refine ⟨q', c', max f1 f2 + 1, fun fs fl list m h1 h2 => ?_, hcons', L.same_trans _ _ _ hsame hsame', hgc',
      hnil, ?_⟩
    · obtain ⟨fl', rfl⟩ : ∃ f', fl = f' + 1 := ⟨fl - 1, by omega⟩
      simp only [collectU, hsel fs (by omega), headRes, List.map_cons, dedupByKey, seenAfter]
      by_cases hm : m.contains (key x.r) = true
      · simp only [hm, if_true]
        exact hcol fs fl' list m (by omega) (by omega)
      · simp only [hm, if_false, Bool.false_eq_true]
        rw [hcol fs fl' (list ++ [x.r]) (key x.r :: m) (by omega) (by omega)]
        simp only [List.append_assoc, List.singleton_append]
    · intro y hy
      cases hy with
      | head => exact hgx
      | tail _ hy => exact hall y hy

end Collect

end XPathV.Model
