import XPathV.Lemmas.Pull2.Walks
import XPathV.Lemmas.Pull2.DodWalk
/-!
# The one-pull lemma of the extended pull machine, type by type
-/
namespace XPathV.Model
open XPathV

section
variable (d : Doc) (cfg : ECfg) (dec : Plan → Ref → Bool)

/-- the configuration contains a non-sibling `followingQuery`: only for that type the one-pull
lemma needs a well-formed document (the fuel `2·|d|+2` of `followRoots` in the sequence model is
justified by depth ≤ index) -/
def NeedsWF : Plan → Prop
  | .following _ sib i => sib = false ∨ NeedsWF i
  | .preceding _ _ i | .child _ i | .cachedChild _ i | .attr _ i | .self _ i | .parent _ i | .descendant _ _ i | .ancestor _ _ i
  | .group i | .filter i _ | .descOverDesc _ _ i => NeedsWF i
  | .union l r => NeedsWF l ∨ NeedsWF r
  | .merge i c => NeedsWF i ∨ NeedsWF c
  | _ => False

/-- induction measure: the size of the configuration (and: the document is well-formed if the
configuration needs it) -/
def PSz (n : Nat) (s : PQ2) : Prop := sizeOf s.plan ≤ n ∧ (NeedsWF s.plan → WF d)

theorem PSz_same (n : Nat) : ∀ s s' : PQ2, PSz d n s → (mach2 d cfg dec).Same s s' → PSz d n s' := by
  intro s s' h hs
  have hs : s'.plan = s.plan := hs
  simp only [PSz, hs]; exact h

/-- the one-pull lemma for state `q` with `t.Current() = c` -/
abbrev Step2 (q : PQ2) (c : Ref) : Prop := (mach2 d cfg dec).Step (Good d) q c

/-- induction hypothesis of the one-pull lemma -/
abbrev StepIH (n : Nat) : Prop := ∀ s, PSz d n s → s.Inv d → ∀ c, Good d c → Step2 d cfg dec s c

/-! ## Shared closure body: the sibling loop of `childQuery`, `cachedChildQuery`, `followingQuery{Sibling}` -/

/-- the closure call of the three sibling-walking types as a body of the closure scheme -/
def sibBody (t : Ref → Bool) (f : Nat) (k : Ref × Bool) (p : Nat) (c : Ref) : Res (Ref × (Ref × Bool) × Nat) × Ref :=
  (match childIter d t f k.1 k.2 with
    | .yield j => .yield (j, (j, false), p + 1)
    | .done => .done
    | .fuel => .fuel, c)

theorem sibBody_spec (t : Ref → Bool) (k : Ref × Bool) (p : Nat) (c : Ref) (hg : Good d c) :
    (∃ j k' p' c' f0, (∀ f, f0 ≤ f → sibBody d t f k p c = (.yield (j, k', p'), c')) ∧ Good d k'.1 ∧ Good d c' ∧
      Good d j ∧ numFrom p ((sibCands d k.1 k.2).filter t) = ⟨j, p', 0⟩ :: numFrom p' ((sibCands d k'.1 k'.2).filter t)) ∨
    (∃ c' f0, (∀ f, f0 ≤ f → sibBody d t f k p c = (.done, c')) ∧ Good d c' ∧
      numFrom p ((sibCands d k.1 k.2).filter t) = []) := by
  obtain ⟨n, first⟩ := k
  obtain ⟨f0, h1, h2⟩ := childIter_spec d t _ n first (Nat.le_refl _)
  cases hc : (sibCands d n first).filter t with
  | nil =>
    refine Or.inr ⟨c, f0, fun f hf => ?_, hg, rfl⟩
    simp only [sibBody, h1 f hf, hc, hdR]
  | cons j rest =>
    have hgj : Good d j := by
      have hm : j ∈ (sibCands d n first).filter t := by rw [hc]; exact List.mem_cons_self
      exact sibCands_good d _ n first (Nat.le_refl _) j (List.mem_filter.mp hm).1
    refine Or.inl ⟨j, (j, false), p + 1, c, f0, fun f hf => ?_, hgj, hg, hgj, ?_⟩
    · simp only [sibBody, h1 f hf, hc, hdR]
    · simp only [numFrom, h2 j rest hc]

/-! ## childQuery -/

theorem step2_child (n : Nat) (hin : StepIH d cfg dec n) (a : AxisInfo) (inp : PQ2) (hp : PSz d n inp)
    (it : Option (Ref × Bool)) (pos : Nat) (c : Ref) (hi : (PQ2.child a inp it pos).Inv d) (hg : Good d c) :
    Step2 d cfg dec (.child a inp it pos) c := by
  refine closure_flat (mach2 d cfg dec) (mach2_laws d cfg dec) (Good d) (PSz d n) (PSz_same d cfg dec n) hin
    (fun inp it p => .child a inp it p) (fun k => Good d k.1) (fun k => Good d k.1) (fun _ => 0) id id (fun _ => 0)
    (fun _ n p c => some ((n, true), p, c)) (sibBody d (test d cfg a))
    (fun k p _ => numFrom p ((sibCands d k.1 k.2).filter (test d cfg a))) (childContrib d cfg a)
    ?rem_mk ?inv_none ?inv_some ?cons_mk ?same_mk ?pos_mk ?lvl_mk ?sny ?snd ?ssy ?ssd ?start ?body inp hp it pos c hi hg
  case rem_mk => intro inp it p c; cases it <;> rfl
  case inv_none =>
    intro inp p h
    rcases h with ⟨_, h⟩ | ⟨h, _⟩
    · exact h
    · exact PQ2.cons_inv d _ h
  case inv_some =>
    intro inp k p h
    rcases h with ⟨h, _⟩ | ⟨h1, h2⟩
    · cases h
    · exact ⟨h1, h2 k.1 k.2 rfl⟩
  case cons_mk =>
    intro inp it p h1 h2
    exact ⟨h1, fun n f h => h2 (n, f) h⟩
  case same_mk =>
    intro inp inp' it it' p p' h
    have h : inp'.plan = inp.plan := h
    show (PQ2.child a inp' it' p').plan = (PQ2.child a inp it p).plan
    simp only [PQ2.plan, h]
  case pos_mk => intros; rfl
  case lvl_mk => intros; rfl
  case sny =>
    intro f inp p c n inp' c' k p' c'' h1 h2
    have h1 : PQ2.select d cfg dec f inp c = (.yield n, inp', c') := h1
    injection h2 with h2
    injection h2 with h2 h3
    injection h3 with h3 h4
    subst h2; subst h3; subst h4
    show PQ2.select d cfg dec (f+1) _ _ = PQ2.select d cfg dec f _ _
    simp only [PQ2.select, h1]
  case snd =>
    intro f inp p c inp' c' h1
    have h1 : PQ2.select d cfg dec f inp c = (.done, inp', c') := h1
    show PQ2.select d cfg dec (f+1) _ _ = _
    simp only [PQ2.select, h1]
  case ssy =>
    intro f inp k p c j k' p' c' h
    obtain ⟨n, first⟩ := k
    show PQ2.select d cfg dec (f+1) _ _ = _
    simp only [sibBody] at h
    cases hci : childIter d (test d cfg a) f n first with
    | fuel => rw [hci] at h; simp at h
    | done => rw [hci] at h; simp at h
    | yield j' =>
      rw [hci] at h
      simp only [Prod.mk.injEq, Res.yield.injEq] at h
      obtain ⟨⟨rfl, rfl, rfl⟩, rfl⟩ := h
      simp only [PQ2.select, hci]
  case ssd =>
    intro f inp k p c c' h
    obtain ⟨n, first⟩ := k
    show PQ2.select d cfg dec (f+1) _ _ = PQ2.select d cfg dec f _ _
    simp only [sibBody] at h
    cases hci : childIter d (test d cfg a) f n first with
    | fuel => rw [hci] at h; simp at h
    | yield j' => rw [hci] at h; simp at h
    | done =>
      rw [hci] at h
      simp only [Prod.mk.injEq, true_and] at h
      subst h
      simp only [PQ2.select, hci]; rfl
  case start =>
    intro n p c hgn hgc
    refine ⟨(n, true), 0, c, 0, fun f _ => rfl, hgn, hgc, ?_⟩
    simp only [childContrib, numbered_eq, sibCands, if_true]
  case body =>
    intro k p c hk hgc
    exact sibBody_spec d (test d cfg a) k p c hgc


/-! ## cachedChildQuery (the same `Select` body as childQuery) -/

theorem step2_cachedChild (n : Nat) (hin : StepIH d cfg dec n) (a : AxisInfo) (inp : PQ2) (hp : PSz d n inp)
    (it : Option (Ref × Bool)) (pos : Nat) (c : Ref) (hi : (PQ2.cachedChild a inp it pos).Inv d) (hg : Good d c) :
    Step2 d cfg dec (.cachedChild a inp it pos) c := by
  refine closure_flat (mach2 d cfg dec) (mach2_laws d cfg dec) (Good d) (PSz d n) (PSz_same d cfg dec n) hin
    (fun inp it p => .cachedChild a inp it p) (fun k => Good d k.1) (fun k => Good d k.1) (fun _ => 0) id id (fun _ => 0)
    (fun _ n p c => some ((n, true), p, c)) (sibBody d (test d cfg a))
    (fun k p _ => numFrom p ((sibCands d k.1 k.2).filter (test d cfg a))) (childContrib d cfg a)
    ?rem_mk ?inv_none ?inv_some ?cons_mk ?same_mk ?pos_mk ?lvl_mk ?sny ?snd ?ssy ?ssd ?start ?body inp hp it pos c hi hg
  case rem_mk => intro inp it p c; cases it <;> rfl
  case inv_none =>
    intro inp p h
    rcases h with ⟨_, h⟩ | ⟨h, _⟩
    · exact h
    · exact PQ2.cons_inv d _ h
  case inv_some =>
    intro inp k p h
    rcases h with ⟨h, _⟩ | ⟨h1, h2⟩
    · cases h
    · exact ⟨h1, h2 k.1 k.2 rfl⟩
  case cons_mk =>
    intro inp it p h1 h2
    exact ⟨h1, fun n f h => h2 (n, f) h⟩
  case same_mk =>
    intro inp inp' it it' p p' h
    have h : inp'.plan = inp.plan := h
    show (PQ2.cachedChild a inp' it' p').plan = (PQ2.cachedChild a inp it p).plan
    simp only [PQ2.plan, h]
  case pos_mk => intros; rfl
  case lvl_mk => intros; rfl
  case sny =>
    intro f inp p c n inp' c' k p' c'' h1 h2
    have h1 : PQ2.select d cfg dec f inp c = (.yield n, inp', c') := h1
    injection h2 with h2
    injection h2 with h2 h3
    injection h3 with h3 h4
    subst h2; subst h3; subst h4
    show PQ2.select d cfg dec (f+1) _ _ = PQ2.select d cfg dec f _ _
    simp only [PQ2.select, h1]
  case snd =>
    intro f inp p c inp' c' h1
    have h1 : PQ2.select d cfg dec f inp c = (.done, inp', c') := h1
    show PQ2.select d cfg dec (f+1) _ _ = _
    simp only [PQ2.select, h1]
  case ssy =>
    intro f inp k p c j k' p' c' h
    obtain ⟨n, first⟩ := k
    show PQ2.select d cfg dec (f+1) _ _ = _
    simp only [sibBody] at h
    cases hci : childIter d (test d cfg a) f n first with
    | fuel => rw [hci] at h; simp at h
    | done => rw [hci] at h; simp at h
    | yield j' =>
      rw [hci] at h
      simp only [Prod.mk.injEq, Res.yield.injEq] at h
      obtain ⟨⟨rfl, rfl, rfl⟩, rfl⟩ := h
      simp only [PQ2.select, hci]
  case ssd =>
    intro f inp k p c c' h
    obtain ⟨n, first⟩ := k
    show PQ2.select d cfg dec (f+1) _ _ = PQ2.select d cfg dec f _ _
    simp only [sibBody] at h
    cases hci : childIter d (test d cfg a) f n first with
    | fuel => rw [hci] at h; simp at h
    | yield j' => rw [hci] at h; simp at h
    | done =>
      rw [hci] at h
      simp only [Prod.mk.injEq, true_and] at h
      subst h
      simp only [PQ2.select, hci]; rfl
  case start =>
    intro n p c hgn hgc
    refine ⟨(n, true), 0, c, 0, fun f _ => rfl, hgn, hgc, ?_⟩
    simp only [childContrib, numbered_eq, sibCands, if_true]
  case body =>
    intro k p c hk hgc
    exact sibBody_spec d (test d cfg a) k p c hgc

/-! ## attributeQuery -/

def attrBody (t : Ref → Bool) (f : Nat) (k : Ref × Bool) (p : Unit) (c : Ref) : Res (Ref × (Ref × Bool) × Unit) × Ref :=
  (match attrIter d t f k.1 k.2 with
    | .yield j => .yield (j, (j, k.2), p)
    | .done => .done
    | .fuel => .fuel, c)

theorem attrBody_spec (t : Ref → Bool) (k : Ref × Bool) (p : Unit) (c : Ref) (hk : Good d k.1) (hg : Good d c) :
    (∃ j k' p' c' f0, (∀ f, f0 ≤ f → attrBody d t f k p c = (.yield (j, k', p'), c')) ∧ Good d k'.1 ∧ Good d c' ∧
      Good d j ∧ plain ((attrCands d k.1 k.2).filter t) = ⟨j, 1, 0⟩ :: plain ((attrCands d k'.1 k'.2).filter t)) ∨
    (∃ c' f0, (∀ f, f0 ≤ f → attrBody d t f k p c = (.done, c')) ∧ Good d c' ∧
      plain ((attrCands d k.1 k.2).filter t) = []) := by
  obtain ⟨n, ia⟩ := k
  obtain ⟨f0, h1, h2⟩ := attrIter_spec d t _ n ia (Nat.le_refl _)
  cases hc : (attrCands d n ia).filter t with
  | nil =>
    refine Or.inr ⟨c, f0, fun f hf => ?_, hg, rfl⟩
    simp only [attrBody, h1 f hf, hc, hdR]
  | cons j rest =>
    have hgj : Good d j := by
      have hm : j ∈ (attrCands d n ia).filter t := by rw [hc]; exact List.mem_cons_self
      exact attrCands_good d _ n ia (Nat.le_refl _) hk j (List.mem_filter.mp hm).1
    refine Or.inl ⟨j, (j, ia), (), c, f0, fun f hf => ?_, hgj, hg, hgj, ?_⟩
    · simp only [attrBody, h1 f hf, hc, hdR]
    · simp only [plain, List.map_cons, h2 j rest hc]

theorem step2_attr (n : Nat) (hin : StepIH d cfg dec n) (a : AxisInfo) (inp : PQ2) (hp : PSz d n inp)
    (it : Option (Ref × Bool)) (c : Ref) (hi : (PQ2.attr a inp it).Inv d) (hg : Good d c) :
    Step2 d cfg dec (.attr a inp it) c := by
  refine closure_flat (mach2 d cfg dec) (mach2_laws d cfg dec) (Good d) (PSz d n) (PSz_same d cfg dec n) hin
    (fun inp it (_ : Unit) => .attr a inp it) (fun k => Good d k.1) (fun k => Good d k.1) id id (fun _ => 1) (fun _ => 0)
    (fun _ n p c => some ((n, n.isAttr), p, c)) (attrBody d (test d cfg a))
    (fun k _ _ => plain ((attrCands d k.1 k.2).filter (test d cfg a))) (attrContrib d cfg a)
    ?rem_mk ?inv_none ?inv_some ?cons_mk ?same_mk ?pos_mk ?lvl_mk ?sny ?snd ?ssy ?ssd ?start ?body inp hp it () c hi hg
  case rem_mk => intro inp it p c; cases it <;> rfl
  case inv_none =>
    intro inp p h
    rcases h with ⟨_, h⟩ | ⟨h, _⟩
    · exact h
    · exact PQ2.cons_inv d _ h
  case inv_some =>
    intro inp k p h
    rcases h with ⟨h, _⟩ | ⟨h1, h2⟩
    · cases h
    · exact ⟨h1, h2 k.1 k.2 rfl⟩
  case cons_mk =>
    intro inp it p h1 h2
    exact ⟨h1, fun n f h => h2 (n, f) h⟩
  case same_mk =>
    intro inp inp' it it' p p' h
    have h : inp'.plan = inp.plan := h
    show (PQ2.attr a inp' it').plan = (PQ2.attr a inp it).plan
    simp only [PQ2.plan, h]
  case pos_mk => intros; rfl
  case lvl_mk => intros; rfl
  case sny =>
    intro f inp p c n inp' c' k p' c'' h1 h2
    have h1 : PQ2.select d cfg dec f inp c = (.yield n, inp', c') := h1
    injection h2 with h2
    injection h2 with h2 h3
    injection h3 with h3 h4
    subst h2; subst h3; subst h4
    show PQ2.select d cfg dec (f+1) _ _ = PQ2.select d cfg dec f _ _
    simp only [PQ2.select, h1]
  case snd =>
    intro f inp p c inp' c' h1
    have h1 : PQ2.select d cfg dec f inp c = (.done, inp', c') := h1
    show PQ2.select d cfg dec (f+1) _ _ = _
    simp only [PQ2.select, h1]
  case ssy =>
    intro f inp k p c j k' p' c' h
    obtain ⟨n, ia⟩ := k
    show PQ2.select d cfg dec (f+1) _ _ = _
    simp only [attrBody] at h
    cases hci : attrIter d (test d cfg a) f n ia with
    | fuel => rw [hci] at h; simp at h
    | done => rw [hci] at h; simp at h
    | yield j' =>
      rw [hci] at h
      simp only [Prod.mk.injEq, Res.yield.injEq] at h
      obtain ⟨⟨rfl, rfl, _⟩, rfl⟩ := h
      simp only [PQ2.select, hci]
  case ssd =>
    intro f inp k p c c' h
    obtain ⟨n, ia⟩ := k
    show PQ2.select d cfg dec (f+1) _ _ = PQ2.select d cfg dec f _ _
    simp only [attrBody] at h
    cases hci : attrIter d (test d cfg a) f n ia with
    | fuel => rw [hci] at h; simp at h
    | yield j' => rw [hci] at h; simp at h
    | done =>
      rw [hci] at h
      simp only [Prod.mk.injEq, true_and] at h
      subst h
      simp only [PQ2.select, hci]
  case start =>
    intro n p c hgn hgc
    exact ⟨(n, n.isAttr), (), c, 0, fun f _ => rfl, hgn, hgc, rfl⟩
  case body =>
    intro k p c hk hgc
    exact attrBody_spec d (test d cfg a) k p c hk hgc

/-! ## descendantQuery -/

def descBody (t : Ref → Bool) (s : Bool) (f : Nat) (k : Ref × Bool) (p : Nat × Nat) (c : Ref) :
    Res (Ref × (Ref × Bool) × (Nat × Nat)) × Ref :=
  (match descIter d t s f k.1 k.2 p.2 with
    | .yield (j, l) => .yield (j, (j, false), (p.1 + 1, l))
    | .done => .done
    | .fuel => .fuel, c)

def descCur (t : Ref → Bool) (s : Bool) (k : Ref × Bool) (p : Nat × Nat) : List Item :=
  numFromL p.1 ((if k.2 && s && t k.1 then [(k.1, p.2)] else [])
    ++ (walkD d d.length k.1 p.2).filter (fun x => t x.1))

theorem descBody_spec (t : Ref → Bool) (s : Bool) (k : Ref × Bool) (p : Nat × Nat) (c : Ref) (hk : Good d k.1)
    (hg : Good d c) :
    (∃ j k' p' c' f0, (∀ f, f0 ≤ f → descBody d t s f k p c = (.yield (j, k', p'), c')) ∧ Good d k'.1 ∧ Good d c' ∧
      Good d j ∧ descCur d t s k p = ⟨j, p'.1, p'.2⟩ :: descCur d t s k' p') ∨
    (∃ c' f0, (∀ f, f0 ≤ f → descBody d t s f k p c = (.done, c')) ∧ Good d c' ∧ descCur d t s k p = []) := by
  obtain ⟨n, first⟩ := k
  obtain ⟨pos, level⟩ := p
  by_cases hown : (first && s && t n) = true
  · refine Or.inl ⟨n, (n, false), (pos + 1, level), c, 0, fun f _ => ?_, hk, hg, hk, ?_⟩
    · simp only [descBody, descIter, hown, if_true]
    · simp [descCur, hown, numFromL]
  · obtain ⟨f0, h1, h2⟩ := descLoop_spec d t _ n level (Nat.le_refl _)
    cases hc : (walkD d d.length n level).filter (fun x => t x.1) with
    | nil =>
      refine Or.inr ⟨c, f0, fun f hf => ?_, hg, ?_⟩
      · simp only [descBody, descIter, hown, if_false, Bool.false_eq_true, h1 f hf, hc, hdR]
      · simp [descCur, hown, hc, numFromL]
    | cons jl rest =>
      obtain ⟨j, l⟩ := jl
      have hgj : Good d j := by
        have hm : (j, l) ∈ (walkD d d.length n level).filter (fun x => t x.1) := by rw [hc]; exact List.mem_cons_self
        exact walkD_good d _ n level (Nat.le_refl _) (j, l) (List.mem_filter.mp hm).1
      refine Or.inl ⟨j, (j, false), (pos + 1, l), c, f0, fun f hf => ?_, hgj, hg, hgj, ?_⟩
      · simp only [descBody, descIter, hown, if_false, Bool.false_eq_true, h1 f hf, hc, hdR]
      · simp [descCur, hown, hc, numFromL, h2 j l rest hc]

theorem step2_descendant (n : Nat) (hin : StepIH d cfg dec n) (a : AxisInfo) (s : Bool) (inp : PQ2) (hp : PSz d n inp)
    (it : Option (Ref × Bool)) (pos level : Nat) (c : Ref) (hi : (PQ2.descendant a s inp it pos level).Inv d)
    (hg : Good d c) : Step2 d cfg dec (.descendant a s inp it pos level) c := by
  refine closure_flat (mach2 d cfg dec) (mach2_laws d cfg dec) (Good d) (PSz d n) (PSz_same d cfg dec n) hin
    (fun inp it (p : Nat × Nat) => .descendant a s inp it p.1 p.2) (fun k => Good d k.1) (fun k => Good d k.1)
    (fun p => (0, p.2)) (fun p => (p.1, 0)) (fun p => p.1) (fun p => p.2)
    (fun _ n _ c => some ((n, true), (0, 0), c)) (descBody d (test d cfg a) s)
    (fun k p _ => descCur d (test d cfg a) s k p) (descItems d cfg a s)
    ?rem_mk ?inv_none ?inv_some ?cons_mk ?same_mk ?pos_mk ?lvl_mk ?sny ?snd ?ssy ?ssd ?start ?body inp hp it
    (pos, level) c hi hg
  case rem_mk => intro inp it p c; cases it <;> rfl
  case inv_none =>
    intro inp p h
    rcases h with ⟨_, h⟩ | ⟨h, _⟩
    · exact h
    · exact PQ2.cons_inv d _ h
  case inv_some =>
    intro inp k p h
    rcases h with ⟨h, _⟩ | ⟨h1, h2⟩
    · cases h
    · exact ⟨h1, h2 k.1 k.2 rfl⟩
  case cons_mk =>
    intro inp it p h1 h2
    exact ⟨h1, fun n f h => h2 (n, f) h⟩
  case same_mk =>
    intro inp inp' it it' p p' h
    have h : inp'.plan = inp.plan := h
    show (PQ2.descendant a s inp' it' p'.1 p'.2).plan = (PQ2.descendant a s inp it p.1 p.2).plan
    simp only [PQ2.plan, h]
  case pos_mk => intros; rfl
  case lvl_mk => intros; rfl
  case sny =>
    intro f inp p c n inp' c' k p' c'' h1 h2
    have h1 : PQ2.select d cfg dec f inp c = (.yield n, inp', c') := h1
    injection h2 with h2
    injection h2 with h2 h3
    injection h3 with h3 h4
    subst h2; subst h3; subst h4
    show PQ2.select d cfg dec (f+1) _ _ = PQ2.select d cfg dec f _ _
    simp only [PQ2.select, h1]
  case snd =>
    intro f inp p c inp' c' h1
    have h1 : PQ2.select d cfg dec f inp c = (.done, inp', c') := h1
    show PQ2.select d cfg dec (f+1) _ _ = _
    simp only [PQ2.select, h1]
  case ssy =>
    intro f inp k p c j k' p' c' h
    obtain ⟨n, first⟩ := k
    show PQ2.select d cfg dec (f+1) _ _ = _
    simp only [descBody] at h
    cases hci : descIter d (test d cfg a) s f n first p.2 with
    | fuel => rw [hci] at h; simp at h
    | done => rw [hci] at h; simp at h
    | yield jl =>
      obtain ⟨j', l'⟩ := jl
      rw [hci] at h
      simp only [Prod.mk.injEq, Res.yield.injEq] at h
      obtain ⟨⟨rfl, rfl, rfl⟩, rfl⟩ := h
      simp only [PQ2.select, hci]
  case ssd =>
    intro f inp k p c c' h
    obtain ⟨n, first⟩ := k
    show PQ2.select d cfg dec (f+1) _ _ = PQ2.select d cfg dec f _ _
    simp only [descBody] at h
    cases hci : descIter d (test d cfg a) s f n first p.2 with
    | fuel => rw [hci] at h; simp at h
    | yield j' => rw [hci] at h; simp at h
    | done =>
      rw [hci] at h
      simp only [Prod.mk.injEq, true_and] at h
      subst h
      simp only [PQ2.select, hci]
  case start =>
    intro n p c hgn hgc
    refine ⟨(n, true), (0, 0), c, 0, fun f _ => rfl, hgn, hgc, ?_⟩
    simp only [descCur, descItems_eq, Bool.true_and]
  case body =>
    intro k p c hk hgc
    exact descBody_spec d (test d cfg a) s k p c hk hgc


/-! ## contextQuery, absoluteQuery -/

theorem step2_context (n : Nat) (c : Ref) (hg : Good d c) : Step2 d cfg dec (.context n) c := by
  by_cases hc : n > 0
  · refine ⟨.context n, c, 1, fun f hf => ?_, ?_, hc, rfl, hg, ?_⟩
    · obtain ⟨f', rfl⟩ : ∃ f', f = f' + 1 := ⟨f - 1, by omega⟩
      simp [mach2, PQ2.select, rem2, hc, headRes]
    · simp [mach2, rem2, hc]
    · intro x xs hx; simp [mach2, rem2, hc] at hx
  · refine ⟨.context (n+1), c, 1, fun f hf => ?_, ?_, Nat.succ_pos n, rfl, hg, ?_⟩
    · obtain ⟨f', rfl⟩ : ∃ f', f = f' + 1 := ⟨f - 1, by omega⟩
      simp [mach2, PQ2.select, rem2, hc, headRes]
    · simp [mach2, rem2, hc]
    · intro x xs hx
      simp [mach2, rem2, hc] at hx
      obtain ⟨hx, _⟩ := hx; subst hx
      exact ⟨rfl, rfl, hg⟩

theorem step2_absolute (hd : 0 < d.length) (n : Nat) (c : Ref) (hg : Good d c) : Step2 d cfg dec (.absolute n) c := by
  by_cases hc : n > 0
  · refine ⟨.absolute n, c, 1, fun f hf => ?_, ?_, trivial, rfl, hg, ?_⟩
    · obtain ⟨f', rfl⟩ : ∃ f', f = f' + 1 := ⟨f - 1, by omega⟩
      simp [mach2, PQ2.select, rem2, hc, headRes]
    · simp [mach2, rem2, hc]
    · intro x xs hx; simp [mach2, rem2, hc] at hx
  · refine ⟨.absolute (n+1), c, 1, fun f hf => ?_, ?_, trivial, rfl, hg, ?_⟩
    · obtain ⟨f', rfl⟩ : ∃ f', f = f' + 1 := ⟨f - 1, by omega⟩
      simp [mach2, PQ2.select, rem2, hc, headRes]
    · simp [mach2, rem2, hc]
    · intro x xs hx
      simp [mach2, rem2, hc] at hx
      obtain ⟨hx, _⟩ := hx; subst hx
      exact ⟨rfl, rfl, hd⟩

/-! ## selfQuery, parentQuery (filter/map scheme) -/

theorem step2_self (n : Nat) (hin : StepIH d cfg dec n) (a : AxisInfo) (inp : PQ2) (hp : PSz d n inp)
    (c : Ref) (hi : (PQ2.self a inp).Inv d) (hg : Good d c) : Step2 d cfg dec (.self a inp) c := by
  refine fmap_step (mach2 d cfg dec) (mach2_laws d cfg dec) (Good d) (PSz d n) (PSz_same d cfg dec n) hin
    (fun inp (_ : Unit) => .self a inp) (selfG (test d cfg a)) (fun _ c' => c') id (fun _ => 1) (fun _ => 0)
    ?rem_mk ?inv_mk ?cons_mk ?same_mk ?pos_mk ?lvl_mk ?sys ?syn ?sd ?gg ?gc inp hp () c hi hg
  case rem_mk => intros; rfl
  case inv_mk => intro inp p h; exact h
  case cons_mk => intro inp p h; exact h
  case same_mk =>
    intro inp inp' p p' h
    have h : inp'.plan = inp.plan := h
    show (PQ2.self a inp').plan = (PQ2.self a inp).plan
    simp only [PQ2.plan, h]
  case pos_mk => intros; rfl
  case lvl_mk => intros; rfl
  case sys =>
    intro f inp p c n inp' c' m p' h1 h2
    have h1 : PQ2.select d cfg dec f inp c = (.yield n, inp', c') := h1
    show PQ2.select d cfg dec (f+1) _ _ = _
    simp only [selfG] at h2
    by_cases ht : test d cfg a n = true
    · simp only [ht, if_true, Prod.mk.injEq, Option.some.injEq] at h2
      obtain ⟨rfl, _⟩ := h2
      simp only [PQ2.select, h1, ht, if_true]
    · simp [ht] at h2
  case syn =>
    intro f inp p c n inp' c' p' h1 h2
    have h1 : PQ2.select d cfg dec f inp c = (.yield n, inp', c') := h1
    show PQ2.select d cfg dec (f+1) _ _ = PQ2.select d cfg dec f _ _
    simp only [selfG] at h2
    by_cases ht : test d cfg a n = true
    · simp [ht] at h2
    · simp only [PQ2.select, h1, ht, if_false, Bool.false_eq_true]
  case sd =>
    intro f inp p c inp' c' h1
    have h1 : PQ2.select d cfg dec f inp c = (.done, inp', c') := h1
    show PQ2.select d cfg dec (f+1) _ _ = _
    simp only [PQ2.select, h1]
  case gg =>
    intro n a' b p m p' h hgn
    simp only [selfG] at h
    split at h
    · simp only [Prod.mk.injEq, Option.some.injEq] at h; obtain ⟨rfl, _⟩ := h; exact hgn
    · simp at h
  case gc => intro n c _ h; exact h

theorem step2_parent (n : Nat) (hin : StepIH d cfg dec n) (a : AxisInfo) (inp : PQ2) (hp : PSz d n inp)
    (c : Ref) (hi : (PQ2.parent a inp).Inv d) (hg : Good d c) : Step2 d cfg dec (.parent a inp) c := by
  refine fmap_step (mach2 d cfg dec) (mach2_laws d cfg dec) (Good d) (PSz d n) (PSz_same d cfg dec n) hin
    (fun inp (_ : Unit) => .parent a inp) (parentG d (test d cfg a)) (fun _ c' => c') id (fun _ => 1) (fun _ => 0)
    ?rem_mk ?inv_mk ?cons_mk ?same_mk ?pos_mk ?lvl_mk ?sys ?syn ?sd ?gg ?gc inp hp () c hi hg
  case rem_mk => intros; rfl
  case inv_mk => intro inp p h; exact h
  case cons_mk => intro inp p h; exact h
  case same_mk =>
    intro inp inp' p p' h
    have h : inp'.plan = inp.plan := h
    show (PQ2.parent a inp').plan = (PQ2.parent a inp).plan
    simp only [PQ2.plan, h]
  case pos_mk => intros; rfl
  case lvl_mk => intros; rfl
  case sys =>
    intro f inp p c n inp' c' m p' h1 h2
    have h1 : PQ2.select d cfg dec f inp c = (.yield n, inp', c') := h1
    show PQ2.select d cfg dec (f+1) _ _ = _
    simp only [parentG, Prod.mk.injEq] at h2
    simp only [PQ2.select, h1, h2.1]
  case syn =>
    intro f inp p c n inp' c' p' h1 h2
    have h1 : PQ2.select d cfg dec f inp c = (.yield n, inp', c') := h1
    show PQ2.select d cfg dec (f+1) _ _ = PQ2.select d cfg dec f _ _
    simp only [parentG, Prod.mk.injEq] at h2
    simp only [PQ2.select, h1, h2.1]
  case sd =>
    intro f inp p c inp' c' h1
    have h1 : PQ2.select d cfg dec f inp c = (.done, inp', c') := h1
    show PQ2.select d cfg dec (f+1) _ _ = _
    simp only [PQ2.select, h1]
  case gg =>
    intro n a' b p m p' h hgn
    simp only [parentG, Prod.mk.injEq] at h
    cases hp : Nav.moveParent d n with
    | none => rw [hp] at h; simp at h
    | some q =>
      rw [hp] at h
      have hq := (moveParent_ancM d hp).2 hgn
      simp only [Option.filter] at h
      split at h
      · simp only [Option.some.injEq] at h; rw [← h.1]; exact hq
      · simp at h
  case gc => intro n c _ h; exact h

/-! ## groupQuery -/

theorem step2_group (n : Nat) (hin : StepIH d cfg dec n) (inp : PQ2) (hp : PSz d n inp) (pos : Nat)
    (c : Ref) (hi : (PQ2.group inp pos).Inv d) (hg : Good d c) : Step2 d cfg dec (.group inp pos) c := by
  refine fmap_step (mach2 d cfg dec) (mach2_laws d cfg dec) (Good d) (PSz d n) (PSz_same d cfg dec n) hin
    (fun inp (p : Nat) => .group inp p) groupG (fun _ c' => c') id id (fun _ => 0)
    ?rem_mk ?inv_mk ?cons_mk ?same_mk ?pos_mk ?lvl_mk ?sys ?syn ?sd ?gg ?gc inp hp pos c hi hg
  case rem_mk => intros; rfl
  case inv_mk => intro inp p h; exact h
  case cons_mk => intro inp p h; exact h
  case same_mk =>
    intro inp inp' p p' h
    have h : inp'.plan = inp.plan := h
    show (PQ2.group inp' p').plan = (PQ2.group inp p).plan
    simp only [PQ2.plan, h]
  case pos_mk => intros; rfl
  case lvl_mk => intros; rfl
  case sys =>
    intro f inp p c n inp' c' m p' h1 h2
    have h1 : PQ2.select d cfg dec f inp c = (.yield n, inp', c') := h1
    show PQ2.select d cfg dec (f+1) _ _ = _
    simp only [groupG, Prod.mk.injEq, Option.some.injEq] at h2
    obtain ⟨rfl, rfl⟩ := h2
    simp only [PQ2.select, h1]
  case syn =>
    intro f inp p c n inp' c' p' h1 h2
    simp [groupG] at h2
  case sd =>
    intro f inp p c inp' c' h1
    have h1 : PQ2.select d cfg dec f inp c = (.done, inp', c') := h1
    show PQ2.select d cfg dec (f+1) _ _ = _
    simp only [PQ2.select, h1]; rfl
  case gg =>
    intro n a' b p m p' h hgn
    simp only [groupG, Prod.mk.injEq, Option.some.injEq] at h
    rw [← h.1]; exact hgn
  case gc => intro n c _ h; exact h

/-! ## filterQuery (boolean predicate as a decision function) -/

theorem step2_filter (n : Nat) (hin : StepIH d cfg dec n) (inp : PQ2) (pred : Plan) (hp : PSz d n inp) (pos : Nat)
    (pm : Option (List (Nat × Nat))) (c : Ref) (hi : (PQ2.filter inp pred pos pm).Inv d) (hg : Good d c) :
    Step2 d cfg dec (.filter inp pred pos pm) c := by
  -- the loop puts `t.Current()` on the candidate (`gcur`); the `defer` restores the caller's (`fin`)
  refine fmap_step_fin (mach2 d cfg dec) (mach2_laws d cfg dec) (Good d) (PSz d n) (PSz_same d cfg dec n) hin
    (fun inp (p : Nat × Option (List (Nat × Nat))) => .filter inp pred p.1 p.2) (filterG dec pred)
    (fun n _ => n) (fun c _ => c) (fun p => (p.1, some (p.2.getD []))) (·.1) (fun _ => 0)
    ?rem_mk ?inv_mk ?cons_mk ?same_mk ?pos_mk ?lvl_mk ?sys ?syn ?sd ?gg ?gc ?fg inp hp (pos, pm) c hi hg
  case rem_mk => intros; rfl
  case inv_mk => intro inp p h; exact h
  case cons_mk => intro inp p h; exact h
  case same_mk =>
    intro inp inp' p p' h
    have h : inp'.plan = inp.plan := h
    show (PQ2.filter inp' pred p'.1 p'.2).plan = (PQ2.filter inp pred p.1 p.2).plan
    simp only [PQ2.plan, h]
  case pos_mk => intros; rfl
  case lvl_mk => intros; rfl
  case sys =>
    intro f inp p c n inp' c' m p' h1 h2
    have h1 : PQ2.select d cfg dec f inp c = (.yield n, inp', c') := h1
    show PQ2.select d cfg dec (f+1) _ _ = _
    simp only [filterG] at h2
    by_cases ht : dec pred n = true
    · simp only [ht, if_true, Prod.mk.injEq, Option.some.injEq] at h2
      obtain ⟨rfl, rfl⟩ := h2
      rw [PQ2.select_filter, h1]
      simp only [ht, if_true]; rfl
    · simp [ht] at h2
  case syn =>
    intro f inp p c n inp' c' p' h1 h2
    have h1 : PQ2.select d cfg dec f inp c = (.yield n, inp', c') := h1
    show PQ2.select d cfg dec (f+1) _ _ = (_, _, _)
    simp only [filterG] at h2
    by_cases ht : dec pred n = true
    · simp [ht] at h2
    · simp only [ht, if_false, Bool.false_eq_true, Prod.mk.injEq, true_and] at h2
      subst h2
      rw [PQ2.select_filter, h1]
      simp only [ht, if_false, Bool.false_eq_true]
      rfl
  case sd =>
    intro f inp p c inp' c' h1
    have h1 : PQ2.select d cfg dec f inp c = (.done, inp', c') := h1
    show PQ2.select d cfg dec (f+1) _ _ = _
    rw [PQ2.select_filter, h1]
  case gg =>
    intro n a' b p m p' h hgn
    simp only [filterG] at h
    split at h
    · simp only [Prod.mk.injEq, Option.some.injEq] at h; rw [← h.1]; exact hgn
    · simp at h
  case gc => intro n c h _; exact h
  case fg => intro c x h _; exact h


/-! ## ancestorQuery -/

def ancBody (t : Ref → Bool) (key : Ref → String) (s : Bool) (f : Nat) (k : Ref × Bool) (p : Option (List String))
    (c : Ref) : Res (Ref × (Ref × Bool) × Option (List String)) × Ref :=
  (match ancLoop d t key s f k.1 k.2 (p.getD []) with
    | .yield (j, tb') => .yield (j, (j, false), some tb')
    | .done => .done
    | .fuel => .fuel, c)

/-- specification of an ancestor state: de-duplicate (against the table) what is left of the closure
followed by the candidates of the remaining input nodes -/
def ancR (t : Ref → Bool) (key : Ref → String) (s : Bool) (it : Option (Ref × Bool)) (tb : Option (List String))
    (_c : Ref) (xs : List Item) : List Item :=
  plain (dedupByKey key
    ((match it with
        | none => []
        | some k => ancCands d t s k.1 k.2)
      ++ xs.flatMap (fun x => ancCands d t s x.r true)) (tb.getD []))

theorem step2_ancestor (n : Nat) (hin : StepIH d cfg dec n) (a : AxisInfo) (s : Bool) (inp : PQ2) (hp : PSz d n inp)
    (it : Option (Ref × Bool)) (tb : Option (List String)) (c : Ref) (hi : (PQ2.ancestor a s inp it tb).Inv d)
    (hg : Good d c) : Step2 d cfg dec (.ancestor a s inp it tb) c := by
  refine closure_step (mach2 d cfg dec) (mach2_laws d cfg dec) (Good d) (PSz d n) (PSz_same d cfg dec n) hin
    (fun inp it p => .ancestor a s inp it p) (fun k => Good d k.1) (fun k => Good d k.1) (fun p => some (p.getD [])) (fun p => some (p.getD []))
    (fun _ => 1) (fun _ => 0)
    (fun _ n p c => some ((n, true), p, c)) (ancBody d (test d cfg a) (identityHash d cfg) s)
    (ancR d (test d cfg a) (identityHash d cfg) s)
    ?rem_mk ?inv_none ?inv_some ?cons_mk ?same_mk ?pos_mk ?lvl_mk ?sny ?snd ?ssy ?ssd ?rnil ?start ?body inp hp it tb c hi hg
  case rem_mk => intro inp it p c; rcases it with _ | ⟨n, first⟩ <;> rfl
  case inv_none =>
    intro inp p h
    rcases h with ⟨_, h⟩ | ⟨h, _⟩
    · exact h
    · exact PQ2.cons_inv d _ h
  case inv_some =>
    intro inp k p h
    rcases h with ⟨h, _⟩ | ⟨h1, h2⟩
    · cases h
    · exact ⟨h1, h2 k.1 k.2 rfl⟩
  case cons_mk =>
    intro inp it p h1 h2
    exact ⟨h1, fun n f h => h2 (n, f) h⟩
  case same_mk =>
    intro inp inp' it it' p p' h
    have h : inp'.plan = inp.plan := h
    show (PQ2.ancestor a s inp' it' p').plan = (PQ2.ancestor a s inp it p).plan
    simp only [PQ2.plan, h]
  case pos_mk => intros; rfl
  case lvl_mk => intros; rfl
  case sny =>
    intro f inp p c n inp' c' k p' c'' h1 h2
    have h1 : PQ2.select d cfg dec f inp c = (.yield n, inp', c') := h1
    injection h2 with h2
    injection h2 with h2 h3
    injection h3 with h3 h4
    subst h2; subst h3; subst h4
    show PQ2.select d cfg dec (f+1) _ _ = PQ2.select d cfg dec f _ _
    simp only [PQ2.select, h1]
  case snd =>
    intro f inp p c inp' c' h1
    have h1 : PQ2.select d cfg dec f inp c = (.done, inp', c') := h1
    show PQ2.select d cfg dec (f+1) _ _ = _
    simp only [PQ2.select, h1]
  case ssy =>
    intro f inp k p c j k' p' c' h
    obtain ⟨n, first⟩ := k
    show PQ2.select d cfg dec (f+1) _ _ = _
    simp only [ancBody] at h
    cases hci : ancLoop d (test d cfg a) (identityHash d cfg) s f n first (p.getD []) with
    | fuel => rw [hci] at h; simp at h
    | done => rw [hci] at h; simp at h
    | yield jt =>
      obtain ⟨j', tb'⟩ := jt
      rw [hci] at h
      simp only [Prod.mk.injEq, Res.yield.injEq] at h
      obtain ⟨⟨rfl, rfl, rfl⟩, rfl⟩ := h
      simp only [PQ2.select, hci]
  case ssd =>
    intro f inp k p c c' h
    obtain ⟨n, first⟩ := k
    show PQ2.select d cfg dec (f+1) _ _ = PQ2.select d cfg dec f _ _
    simp only [ancBody] at h
    cases hci : ancLoop d (test d cfg a) (identityHash d cfg) s f n first (p.getD []) with
    | fuel => rw [hci] at h; simp at h
    | yield j' => rw [hci] at h; simp at h
    | done =>
      rw [hci] at h
      simp only [Prod.mk.injEq, true_and] at h
      subst h
      simp only [PQ2.select, hci]
  case rnil => intro p c; simp [ancR, dedupByKey, plain]
  case start =>
    intro x xs p c c0 hgx hgc
    refine ⟨(x.r, true), some (p.getD []), c, 0, fun f _ => rfl, hgx, hgc, ?_⟩
    simp only [ancR, List.flatMap_cons, List.nil_append, Option.getD_some]
  case body =>
    intro k p c hk hgc
    obtain ⟨n, first⟩ := k
    rcases ancLoop_spec d (test d cfg a) (identityHash d cfg) s _ n first (p.getD []) hk (Nat.le_refl _) with
      ⟨f0, j, hy, hgj, hd⟩ | ⟨f0, hy, hd⟩
    · refine Or.inl ⟨j, (j, false), some (identityHash d cfg j :: p.getD []), c, f0, fun f hf => ?_, hgj, hgc, hgj,
        fun xs => ?_⟩
      · simp only [ancBody, hy f hf]
      · simp only [ancR, hd, plain, List.map_cons, Option.getD_some]
    · refine Or.inr ⟨c, f0, fun f hf => ?_, hgc, fun xs => ?_⟩
      · simp only [ancBody, hy f hf]
      · simp only [ancR, hd, List.nil_append, Option.getD_some]

/-! ## followingQuery -/

/-- what is left of a `followingQuery` closure (it does not depend on `t.Current()`) -/
def folCurOf (a : AxisInfo) (sib : Bool) (k : Ref × Option PQ) (p : Nat) (_c : Ref) : List Item :=
  if sib then numFrom p ((sibCands d k.1 false).filter (test d cfg a)) else folCur d cfg a k.1 k.2

/-- `f.iterator()` as a body of the closure scheme: `t.Current()` is passed through untouched -/
def folBody (a : AxisInfo) (sib : Bool) (f : Nat) (k : Ref × Option PQ) (p : Nat) (c : Ref) :
    Res (Ref × (Ref × Option PQ) × Nat) × Ref :=
  (folCall d cfg a sib f k p, c)

/-- the one-pull lemma for `followingQuery`, given the specification of the closure for this `Sibling` -/
theorem step2_following_gen (n : Nat) (hin : StepIH d cfg dec n) (a : AxisInfo) (sib : Bool)
    (hstart : ∀ (x : Ref) (c : Ref), Good d x → Good d c →
      (Good d (folStart d a sib x).1 ∧ innerInv d (folStart d a sib x).2) ∧
        folCurOf d cfg a sib (folStart d a sib x) 0 c = folContrib d cfg a sib x)
    (hbody : ∀ (k : Ref × Option PQ) (p : Nat) (c : Ref), (Good d k.1 ∧ innerInv d k.2) → Good d c →
      (∃ j k' p' c' f0, (∀ f, f0 ≤ f → folBody d cfg a sib f k p c = (.yield (j, k', p'), c')) ∧
        (Good d k'.1 ∧ innerOK d k'.2) ∧ Good d c' ∧ Good d j ∧
        folCurOf d cfg a sib k p c = ⟨j, p', 0⟩ :: folCurOf d cfg a sib k' p' c') ∨
      (∃ c' f0, (∀ f, f0 ≤ f → folBody d cfg a sib f k p c = (.done, c')) ∧ Good d c' ∧
        folCurOf d cfg a sib k p c = []))
    (inp : PQ2) (hp : PSz d n inp) (it : Option (Ref × Option PQ)) (pos : Nat) (c : Ref)
    (hi : (PQ2.following a sib inp it pos).Inv d) (hg : Good d c) :
    Step2 d cfg dec (.following a sib inp it pos) c := by
  refine closure_flat (mach2 d cfg dec) (mach2_laws d cfg dec) (Good d) (PSz d n) (PSz_same d cfg dec n) hin
    (fun inp it p => .following a sib inp it p) (fun k => Good d k.1 ∧ innerInv d k.2)
    (fun k => Good d k.1 ∧ innerOK d k.2) (fun _ => 0) id id (fun _ => 0)
    (fun _ x p c => some (folStart d a sib x, p, c)) (folBody d cfg a sib)
    (folCurOf d cfg a sib) (folContrib d cfg a sib)
    ?rem_mk ?inv_none ?inv_some ?cons_mk ?same_mk ?pos_mk ?lvl_mk ?sny ?snd ?ssy ?ssd ?start ?body inp hp it pos c hi hg
  case rem_mk => intro inp it p c; rcases it with _ | ⟨node, q⟩ <;> rfl
  case inv_none =>
    intro inp p h
    rcases h with ⟨_, h⟩ | ⟨h, _⟩
    · exact h
    · exact PQ2.cons_inv d _ h
  case inv_some =>
    intro inp k p h
    rcases h with ⟨h, _⟩ | ⟨h1, h2⟩
    · cases h
    · exact ⟨h1, h2 k.1 k.2 rfl⟩
  case cons_mk =>
    intro inp it p h1 h2
    exact ⟨h1, fun n q h => h2 (n, q) h⟩
  case same_mk =>
    intro inp inp' it it' p p' h
    have h : inp'.plan = inp.plan := h
    show (PQ2.following a sib inp' it' p').plan = (PQ2.following a sib inp it p).plan
    simp only [PQ2.plan, h]
  case pos_mk => intros; rfl
  case lvl_mk => intros; rfl
  case sny =>
    intro f inp p c n inp' c' k p' c'' h1 h2
    have h1 : PQ2.select d cfg dec f inp c = (.yield n, inp', c') := h1
    injection h2 with h2
    injection h2 with h2 h3
    injection h3 with h3 h4
    subst h2; subst h3; subst h4
    show PQ2.select d cfg dec (f+1) _ _ = PQ2.select d cfg dec f _ _
    simp only [PQ2.select, h1]
  case snd =>
    intro f inp p c inp' c' h1
    have h1 : PQ2.select d cfg dec f inp c = (.done, inp', c') := h1
    show PQ2.select d cfg dec (f+1) _ _ = _
    simp only [PQ2.select, h1]
  case ssy =>
    intro f inp k p c j k' p' c' h
    obtain ⟨node, q⟩ := k
    show PQ2.select d cfg dec (f+1) _ _ = _
    simp only [folBody, Prod.mk.injEq] at h
    obtain ⟨h, rfl⟩ := h
    simp only [PQ2.select, h]
  case ssd =>
    intro f inp k p c c' h
    obtain ⟨node, q⟩ := k
    show PQ2.select d cfg dec (f+1) _ _ = PQ2.select d cfg dec f _ _
    simp only [folBody, Prod.mk.injEq] at h
    obtain ⟨h, rfl⟩ := h
    simp only [PQ2.select, h]; rfl
  case start =>
    intro x p c hgx hgc
    obtain ⟨h1, h3⟩ := hstart x c hgx hgc
    exact ⟨folStart d a sib x, 0, c, 0, fun f _ => rfl, h1, hgc, h3⟩
  case body =>
    intro k p c hk hgc
    exact hbody k p c hk hgc

/-- `followingQuery{Sibling: true}` -/
theorem step2_following_sib (n : Nat) (hin : StepIH d cfg dec n) (a : AxisInfo)
    (inp : PQ2) (hp : PSz d n inp) (it : Option (Ref × Option PQ)) (pos : Nat) (c : Ref)
    (hi : (PQ2.following a true inp it pos).Inv d) (hg : Good d c) :
    Step2 d cfg dec (.following a true inp it pos) c := by
  refine step2_following_gen d cfg dec n hin a true ?_ ?_ inp hp it pos c hi hg
  · intro x c hgx hgc
    refine ⟨⟨hgx, Or.inl trivial⟩, ?_⟩
    simp only [folStart, if_true, folCurOf, folContrib, numbered_eq, sibCands, Bool.false_eq_true, if_false]
  · intro k p c hk hgc
    obtain ⟨node, q⟩ := k
    obtain ⟨f0, h1, h2⟩ := childIter_spec d (test d cfg a) _ node false (Nat.le_refl _)
    cases hc : (sibCands d node false).filter (test d cfg a) with
    | nil =>
      refine Or.inr ⟨c, f0, fun f hf => ?_, hgc, ?_⟩
      · simp only [folBody, folCall, if_true, h1 f hf, hc, hdR]
      · simp only [folCurOf, if_true, hc, numFrom]
    | cons j rest =>
      have hgj : Good d j := by
        have hm : j ∈ (sibCands d node false).filter (test d cfg a) := by rw [hc]; exact List.mem_cons_self
        exact sibCands_good d _ node false (Nat.le_refl _) j (List.mem_filter.mp hm).1
      refine Or.inl ⟨j, (j, none), p + 1, c, f0, fun f hf => ?_, ⟨hgj, trivial⟩, hgc, hgj, ?_⟩
      · simp only [folBody, folCall, if_true, h1 f hf, hc, hdR]
      · simp only [folCurOf, if_true, hc, numFrom, h2 j rest hc]

/-! ## precedingQuery -/

def precCurOf (a : AxisInfo) (sib : Bool) (k : Ref × Option PQ) (p : Nat) (_c : Ref) : List Item :=
  if sib then numFrom p ((prevSibsM d k.1).filter (test d cfg a)) else precCur d cfg a k.1 k.2 p

/-- `p.iterator()` as a body of the closure scheme: `t.Current()` is passed through untouched -/
def precBody (a : AxisInfo) (sib : Bool) (f : Nat) (k : Ref × Option PQ) (p : Nat) (c : Ref) :
    Res (Ref × (Ref × Option PQ) × Nat) × Ref :=
  (precCall d cfg a sib f k p, c)

theorem step2_preceding_gen (n : Nat) (hin : StepIH d cfg dec n) (a : AxisInfo) (sib : Bool)
    (hstart : ∀ (x : Ref) (c : Ref), Good d x → Good d c →
        precCurOf d cfg a sib (x, none) 0 c = precContrib d cfg a sib x)
    (hbody : ∀ (k : Ref × Option PQ) (p : Nat) (c : Ref), (Good d k.1 ∧ innerInv d k.2) → Good d c →
      (∃ j k' p' c' f0, (∀ f, f0 ≤ f → precBody d cfg a sib f k p c = (.yield (j, k', p'), c')) ∧
        (Good d k'.1 ∧ innerOK d k'.2) ∧ Good d c' ∧ Good d j ∧
        precCurOf d cfg a sib k p c = ⟨j, p', 0⟩ :: precCurOf d cfg a sib k' p' c') ∨
      (∃ c' f0, (∀ f, f0 ≤ f → precBody d cfg a sib f k p c = (.done, c')) ∧ Good d c' ∧
        precCurOf d cfg a sib k p c = []))
    (inp : PQ2) (hp : PSz d n inp) (it : Option (Ref × Option PQ)) (pos : Nat) (c : Ref)
    (hi : (PQ2.preceding a sib inp it pos).Inv d) (hg : Good d c) :
    Step2 d cfg dec (.preceding a sib inp it pos) c := by
  refine closure_flat (mach2 d cfg dec) (mach2_laws d cfg dec) (Good d) (PSz d n) (PSz_same d cfg dec n) hin
    (fun inp it p => .preceding a sib inp it p) (fun k => Good d k.1 ∧ innerInv d k.2)
    (fun k => Good d k.1 ∧ innerOK d k.2) (fun _ => 0) id id (fun _ => 0)
    (fun _ x p c => some ((x, none), p, c)) (precBody d cfg a sib)
    (precCurOf d cfg a sib) (precContrib d cfg a sib)
    ?rem_mk ?inv_none ?inv_some ?cons_mk ?same_mk ?pos_mk ?lvl_mk ?sny ?snd ?ssy ?ssd ?start ?body inp hp it pos c hi hg
  case rem_mk => intro inp it p c; rcases it with _ | ⟨node, q⟩ <;> rfl
  case inv_none =>
    intro inp p h
    rcases h with ⟨_, h⟩ | ⟨h, _⟩
    · exact h
    · exact PQ2.cons_inv d _ h
  case inv_some =>
    intro inp k p h
    rcases h with ⟨h, _⟩ | ⟨h1, h2⟩
    · cases h
    · exact ⟨h1, h2 k.1 k.2 rfl⟩
  case cons_mk =>
    intro inp it p h1 h2
    exact ⟨h1, fun n q h => h2 (n, q) h⟩
  case same_mk =>
    intro inp inp' it it' p p' h
    have h : inp'.plan = inp.plan := h
    show (PQ2.preceding a sib inp' it' p').plan = (PQ2.preceding a sib inp it p).plan
    simp only [PQ2.plan, h]
  case pos_mk => intros; rfl
  case lvl_mk => intros; rfl
  case sny =>
    intro f inp p c n inp' c' k p' c'' h1 h2
    have h1 : PQ2.select d cfg dec f inp c = (.yield n, inp', c') := h1
    injection h2 with h2
    injection h2 with h2 h3
    injection h3 with h3 h4
    subst h2; subst h3; subst h4
    show PQ2.select d cfg dec (f+1) _ _ = PQ2.select d cfg dec f _ _
    simp only [PQ2.select, h1]
  case snd =>
    intro f inp p c inp' c' h1
    have h1 : PQ2.select d cfg dec f inp c = (.done, inp', c') := h1
    show PQ2.select d cfg dec (f+1) _ _ = _
    simp only [PQ2.select, h1]
  case ssy =>
    intro f inp k p c j k' p' c' h
    obtain ⟨node, q⟩ := k
    show PQ2.select d cfg dec (f+1) _ _ = _
    simp only [precBody, Prod.mk.injEq] at h
    obtain ⟨h, rfl⟩ := h
    simp only [PQ2.select, h]
  case ssd =>
    intro f inp k p c c' h
    obtain ⟨node, q⟩ := k
    show PQ2.select d cfg dec (f+1) _ _ = PQ2.select d cfg dec f _ _
    simp only [precBody, Prod.mk.injEq] at h
    obtain ⟨h, rfl⟩ := h
    simp only [PQ2.select, h]; rfl
  case start =>
    intro x p c hgx hgc
    exact ⟨(x, none), 0, c, 0, fun f _ => rfl, ⟨hgx, Or.inl trivial⟩, hgc, hstart x c hgx hgc⟩
  case body =>
    intro k p c hk hgc
    exact hbody k p c hk hgc

/-- `precedingQuery{Sibling: true}` -/
theorem step2_preceding_sib (n : Nat) (hin : StepIH d cfg dec n) (a : AxisInfo)
    (inp : PQ2) (hp : PSz d n inp) (it : Option (Ref × Option PQ)) (pos : Nat) (c : Ref)
    (hi : (PQ2.preceding a true inp it pos).Inv d) (hg : Good d c) :
    Step2 d cfg dec (.preceding a true inp it pos) c := by
  refine step2_preceding_gen d cfg dec n hin a true ?_ ?_ inp hp it pos c hi hg
  · intro x c hgx hgc
    simp only [precCurOf, precContrib, if_true, numbered_eq]
  · intro k p c hk hgc
    obtain ⟨node, q⟩ := k
    obtain ⟨f0, h1, h2⟩ := precSibIter_spec d (test d cfg a) _ node hk.1 (Nat.le_refl _)
    cases hc : (prevSibsM d node).filter (test d cfg a) with
    | nil =>
      refine Or.inr ⟨c, f0, fun f hf => ?_, hgc, ?_⟩
      · simp only [precBody, precCall, if_true, h1 f hf, hc, hdR]
      · simp only [precCurOf, if_true, hc, numFrom]
    | cons j rest =>
      obtain ⟨hrest, hgj⟩ := h2 j rest hc
      refine Or.inl ⟨j, (j, none), p + 1, c, f0, fun f hf => ?_, ⟨hgj, trivial⟩, hgc, hgj, ?_⟩
      · simp only [precBody, precCall, if_true, h1 f hf, hc, hdR]
      · simp only [precCurOf, if_true, hc, numFrom, hrest]


/-! ## unionQuery -/

theorem mem_dedupByKey (key : Ref → String) : ∀ (xs : List Ref) (m : List String) (x : Ref),
    x ∈ dedupByKey key xs m → x ∈ xs
  | [], _, _, h => by cases h
  | y :: ys, m, x, h => by
    simp only [dedupByKey] at h
    split at h
    · exact List.mem_cons_of_mem _ (mem_dedupByKey key ys m x h)
    · cases h with
      | head => exact List.mem_cons_self
      | tail _ h => exact List.mem_cons_of_mem _ (mem_dedupByKey key ys _ x h)

/-- `unionQuery` with its list built: `return u.iterator()` -/
theorem step2_union_some (l r : PQ2) (buf : List Ref) (c : Ref) (hb : ∀ x ∈ buf, Good d x) (hg : Good d c) :
    Step2 d cfg dec (.union l r (some buf)) c := by
  cases buf with
  | nil =>
    refine ⟨.union l r (some []), c, 1, fun f hf => ?_, rfl, ⟨rfl, fun b hb x hx => ?_⟩, rfl, hg, ?_⟩
    · obtain ⟨f', rfl⟩ : ∃ f', f = f' + 1 := ⟨f - 1, by omega⟩
      simp [mach2, PQ2.select, rem2, plain, headRes]
    · injection hb with hb; subst hb; cases hx
    · intro x xs hx; simp [mach2, rem2, plain] at hx
  | cons y rest =>
    refine ⟨.union l r (some rest), c, 1, fun f hf => ?_, rfl, ⟨rfl, fun b hb' x hx => ?_⟩, rfl, hg, ?_⟩
    · obtain ⟨f', rfl⟩ : ∃ f', f = f' + 1 := ⟨f - 1, by omega⟩
      simp [mach2, PQ2.select, rem2, plain, headRes]
    · injection hb' with hb'; subst hb'; exact hb x (List.mem_cons_of_mem _ hx)
    · intro x xs hx
      simp [mach2, rem2, plain] at hx
      obtain ⟨hx, _⟩ := hx; subst hx
      exact ⟨rfl, rfl, hb y List.mem_cons_self⟩

theorem step2_union (n : Nat) (hin : StepIH d cfg dec n) (l r : PQ2) (hpl : PSz d n l) (hpr : PSz d n r)
    (it : Option (List Ref)) (c : Ref) (hi : (PQ2.union l r it).Inv d) (hg : Good d c) :
    Step2 d cfg dec (.union l r it) c := by
  cases it with
  | some buf =>
    rcases hi with ⟨h, _⟩ | ⟨_, h⟩
    · cases h
    · exact step2_union_some d cfg dec l r buf c (h buf rfl) hg
  | none =>
    obtain ⟨hil, hir⟩ : PQ2.Inv d l ∧ PQ2.Inv d r := by
      rcases hi with ⟨_, hil, hir⟩ | ⟨h, _⟩
      · exact ⟨hil, hir⟩
      · cases h
    obtain ⟨l', c1, f1, hcl, _, hsl, _, _, hgl⟩ :=
      collectU_spec (mach2 d cfg dec) (mach2_laws d cfg dec) (Good d) (PSz d n) (PSz_same d cfg dec n) hin
        (identityHash d cfg) _ l hpl hil c hg rfl
    obtain ⟨r', c2, f2, hcr, _, hsr, hgc2, _, hgr⟩ :=
      collectU_spec (mach2 d cfg dec) (mach2_laws d cfg dec) (Good d) (PSz d n) (PSz_same d cfg dec n) hin
        (identityHash d cfg) _ r hpr hir c hg rfl
    have hsl : l'.plan = l.plan := hsl
    have hsr : r'.plan = r.plan := hsr
    simp only [mach2_rem, mach2_sel] at hcl hcr hgl hgr
    -- the list built by the two loops
    have hlist : ∀ m, [] ++ dedupByKey (identityHash d cfg) ((rem2 d cfg dec c l).map (·.r)) m
        ++ dedupByKey (identityHash d cfg) ((rem2 d cfg dec c r).map (·.r))
            (seenAfter (identityHash d cfg) ((rem2 d cfg dec c l).map (·.r)) m)
        = dedupByKey (identityHash d cfg) ((rem2 d cfg dec c l ++ rem2 d cfg dec c r).map (·.r)) m := by
      intro m; rw [List.map_append, dedupByKey_append]; rfl
    have hgood : ∀ x ∈ dedupByKey (identityHash d cfg) ((rem2 d cfg dec c l ++ rem2 d cfg dec c r).map (·.r)) [],
        Good d x := by
      intro x hx
      have hx := mem_dedupByKey _ _ _ _ hx
      obtain ⟨y, hy, rfl⟩ := List.mem_map.mp hx
      rcases List.mem_append.mp hy with hy | hy
      · exact hgl y hy
      · exact hgr y hy
    obtain ⟨s', c3, f3, hsel3, hrem3, hcons3, hsame3, hgc3, hpos3⟩ :=
      step2_union_some d cfg dec l' r' _ c2 hgood hgc2
    have hsame3 : s'.plan = (PQ2.union l' r' _).plan := hsame3
    have heq : (mach2 d cfg dec).rem c (.union l r none) = (mach2 d cfg dec).rem c2 (.union l' r' (some
        (dedupByKey (identityHash d cfg) ((rem2 d cfg dec c l ++ rem2 d cfg dec c r).map (·.r)) []))) := rfl
    refine ⟨s', c3, max f1 (max f2 f3) + 1, fun f hf => ?_, ?_, hcons3, ?_, hgc3, ?_⟩
    · obtain ⟨f', rfl⟩ : ∃ f', f = f' + 1 := ⟨f - 1, by omega⟩
      have h1 := hcl f' f' [] [] (by omega) (by omega)
      have h1 : collectU (PQ2.select d cfg dec f') (identityHash d cfg) f' l c [] [] = _ := h1
      have h2 := hcr f' f' ([] ++ dedupByKey (identityHash d cfg) ((rem2 d cfg dec c l).map (·.r)) [])
        (seenAfter (identityHash d cfg) ((rem2 d cfg dec c l).map (·.r)) []) (by omega) (by omega)
      have h2 : collectU (PQ2.select d cfg dec f') (identityHash d cfg) f' r c _ _ = _ := h2
      show PQ2.select d cfg dec (f'+1) _ _ = _
      simp only [PQ2.select]
      rw [h1]; simp only
      rw [h2]; simp only
      have h3 := hsel3 f' (by omega)
      rw [← hlist] at h3
      rw [heq, ← hlist]
      exact h3
    · rw [heq]; exact hrem3
    · show s'.plan = (PQ2.union l r none).plan
      rw [hsame3]; simp only [PQ2.plan, hsl, hsr]
    · rw [heq]; exact hpos3

/-! ## mergeQuery -/

theorem step2_merge_some (inp ch0 : PQ2) (hc : inp.Cons d)
    (hn : ∀ ch c, ch.plan = ch0.plan → Good d c → Step2 d cfg dec (.merge inp ch none) c)
    (buf : List Ref) (ch : PQ2) (hch : ch.plan = ch0.plan) (c : Ref) (hb : ∀ x ∈ buf, Good d x) (hg : Good d c) :
    Step2 d cfg dec (.merge inp ch (some buf)) c := by
  cases buf with
  | nil =>
    obtain ⟨s', c2, f1, hsel, hrem, hcons, hsame, hgc2, hpos⟩ := hn ch c hch hg
    have heq : (mach2 d cfg dec).rem c (.merge inp ch (some [])) = (mach2 d cfg dec).rem c (.merge inp ch none) := rfl
    refine ⟨s', c2, f1 + 1, fun f hf => ?_, ?_, hcons, hsame, hgc2, ?_⟩
    · obtain ⟨f', rfl⟩ : ∃ f', f = f' + 1 := ⟨f - 1, by omega⟩
      show PQ2.select d cfg dec (f'+1) _ _ = _
      simp only [PQ2.select]
      rw [heq]; exact hsel f' (by omega)
    · rw [heq]; exact hrem
    · rw [heq]; exact hpos
  | cons y rest =>
    refine ⟨.merge inp ch (some rest), c, 1, fun f hf => ?_, rfl, ⟨hc, fun b hb' x hx => ?_⟩, rfl, hg, ?_⟩
    · obtain ⟨f', rfl⟩ : ∃ f', f = f' + 1 := ⟨f - 1, by omega⟩
      simp [mach2, PQ2.select, rem2, plain, headRes]
    · injection hb' with hb'; subst hb'; exact hb x (List.mem_cons_of_mem _ hx)
    · intro x xs hx
      simp [mach2, rem2, plain] at hx
      obtain ⟨hx, _⟩ := hx; subst hx
      exact ⟨rfl, rfl, hb y List.mem_cons_self⟩

theorem step2_merge_none (n : Nat) (hin : StepIH d cfg dec n) (ch0 : PQ2) (hpc : PSz d n ch0) :
    ∀ (l : List Item) (inp : PQ2), PSz d n inp → inp.Inv d → ∀ c, Good d c → rem2 d cfg dec c inp = l →
    ∀ ch, ch.plan = ch0.plan → Step2 d cfg dec (.merge inp ch none) c := by
  intro l
  induction l with
  | nil =>
    intro inp hp hi c hg hr ch hch
    obtain ⟨inp', c', f1, hsel, hrem, hcons, hsame, hgc', _⟩ := hin inp hp hi c hg
    have hsel : ∀ f, f1 ≤ f → PQ2.select d cfg dec f inp c = (headRes (rem2 d cfg dec c inp), inp', c') := hsel
    have hrem : rem2 d cfg dec c' inp' = (rem2 d cfg dec c inp).tail := hrem
    have hsame : inp'.plan = inp.plan := hsame
    rw [hr] at hsel hrem
    refine ⟨.merge inp' ch none, c', f1 + 1, fun f hf => ?_, ?_, ⟨hcons, fun b hb => by cases hb⟩, ?_, hgc', ?_⟩
    · obtain ⟨f', rfl⟩ : ∃ f', f = f' + 1 := ⟨f - 1, by omega⟩
      show PQ2.select d cfg dec (f'+1) _ _ = _
      simp only [PQ2.select, hsel f' (by omega), headRes, mach2, rem2, hr, List.flatMap_nil, List.append_nil]
    · show rem2 d cfg dec c' (.merge inp' ch none) = (rem2 d cfg dec c (.merge inp ch none)).tail
      simp only [rem2, hrem, hr, List.tail_nil, List.flatMap_nil, List.append_nil]
    · show (PQ2.merge inp' ch none).plan = (PQ2.merge inp ch none).plan
      simp only [PQ2.plan, hsame]
    · intro x xs hx
      simp [mach2, rem2, hr] at hx
  | cons x xs ih =>
    intro inp hp hi c hg hr ch hch
    obtain ⟨inp', c', f1, hsel, hrem, hcons, hsame, hgc', hpos⟩ := hin inp hp hi c hg
    have hgx := (hpos x xs hr).2.2
    have hsel : ∀ f, f1 ≤ f → PQ2.select d cfg dec f inp c = (headRes (rem2 d cfg dec c inp), inp', c') := hsel
    have hrem : rem2 d cfg dec c' inp' = (rem2 d cfg dec c inp).tail := hrem
    have hsame' : inp'.plan = inp.plan := hsame
    rw [hr] at hsel hrem
    simp only [List.tail_cons] at hrem
    -- drain the child from its reset state with `t.Current()` on the root
    have hpe : PSz d n ch.evaluate := by simp only [PSz, PQ2.evaluate_plan, hch]; exact hpc
    obtain ⟨ch', c2, f2, hcol, _, hsc, hgc2, _, hgl⟩ :=
      collectM_spec (mach2 d cfg dec) (mach2_laws d cfg dec) (Good d) (PSz d n) (PSz_same d cfg dec n) hin
        _ ch.evaluate hpe (PQ2.inv_evaluate d ch) x.r hgx rfl
    have hsc : ch'.plan = ch.evaluate.plan := hsc
    have hch' : ch'.plan = ch0.plan := by rw [hsc, PQ2.evaluate_plan, hch]
    have hremE : (mach2 d cfg dec).rem x.r ch.evaluate = full2 d cfg dec x.r ch := rem2_evaluate d cfg dec ch x.r
    rw [hremE] at hcol hgl
    have hp' : PSz d n inp' := PSz_same d cfg dec n inp inp' hp hsame
    have hn : ∀ ch c, ch.plan = ch0.plan → Good d c → Step2 d cfg dec (.merge inp' ch none) c :=
      fun ch1 c1 h1 hg1 => ih inp' hp' (PQ2.cons_inv d _ hcons) c1 hg1
        (by rw [rem2_cons_indep d cfg dec inp' hcons c1 c']; exact hrem) ch1 h1
    have hbuf : ∀ y ∈ (full2 d cfg dec x.r ch).map (·.r), Good d y := by
      intro y hy
      obtain ⟨z, hz, rfl⟩ := List.mem_map.mp hy
      exact hgl z hz
    -- `t.Current().MoveTo(ctx)`: the buffer is served with `t.Current()` where `m.Input.Select(t)` left it
    obtain ⟨s', c3, f3, hsel3, hrem3, hcons3, hsame3, hgc3, hpos3⟩ :=
      step2_merge_some d cfg dec inp' ch0 hcons hn _ ch' hch' c' hbuf hgc'
    have hsame3 : s'.plan = (PQ2.merge inp' ch' _).plan := hsame3
    have hfull : ∀ y, full2 d cfg dec y ch' = full2 d cfg dec y ch :=
      fun y => full2_plan_congr d cfg dec ch ch' (by rw [hch', hch]) y
    have heq : (mach2 d cfg dec).rem c (.merge inp ch none)
        = (mach2 d cfg dec).rem c' (.merge inp' ch' (some ((full2 d cfg dec x.r ch).map (·.r)))) := by
      show rem2 d cfg dec c _ = rem2 d cfg dec c' _
      simp only [rem2, hr, List.flatMap_cons, List.nil_append, hrem, hfull]
    refine ⟨s', c3, max f1 (max f2 f3) + 1, fun f hf => ?_, ?_, hcons3, ?_, hgc3, ?_⟩
    · obtain ⟨f', rfl⟩ : ∃ f', f = f' + 1 := ⟨f - 1, by omega⟩
      have h1 : PQ2.select d cfg dec f' inp c = (.yield x.r, inp', c') := by rw [hsel f' (by omega)]; rfl
      have h2 := hcol f' f' [] (by omega) (by omega)
      have h2 : collectM (PQ2.select d cfg dec f') f' ch.evaluate x.r [] = _ := h2
      show PQ2.select d cfg dec (f'+1) _ _ = _
      simp only [PQ2.select, h1]
      rw [h2]; simp only [List.nil_append]
      rw [heq]
      exact hsel3 f' (by omega)
    · rw [heq]; exact hrem3
    · show s'.plan = (PQ2.merge inp ch none).plan
      rw [hsame3]; simp only [PQ2.plan, hsame', hch', hch]
    · rw [heq]; exact hpos3

theorem step2_merge (n : Nat) (hin : StepIH d cfg dec n) (inp ch : PQ2) (hp : PSz d n inp) (hpc : PSz d n ch)
    (it : Option (List Ref)) (c : Ref) (hi : (PQ2.merge inp ch it).Inv d) (hg : Good d c) :
    Step2 d cfg dec (.merge inp ch it) c := by
  cases it with
  | none =>
    rcases hi with ⟨_, hi⟩ | ⟨hi, _⟩
    · exact step2_merge_none d cfg dec n hin ch hpc _ inp hp hi c hg rfl ch rfl
    · exact step2_merge_none d cfg dec n hin ch hpc _ inp hp (PQ2.cons_inv d _ hi) c hg rfl ch rfl
  | some buf =>
    rcases hi with ⟨h, _⟩ | ⟨hc, hb⟩
    · cases h
    · exact step2_merge_some d cfg dec inp ch hc
        (fun ch1 c1 h1 hg1 => step2_merge_none d cfg dec n hin ch hpc _ inp hp (PQ2.cons_inv d _ hc) c1 hg1 rfl ch1 h1)
        buf ch rfl c (hb buf rfl) hg


/-! ## descendantOverDescendantQuery -/

/-- a state with `d.level > 0` (it resumes with `moveUpUntilNext`), over a consumed input -/
theorem step2_dod_live (a : AxisInfo) (ms : Bool) (inp : PQ2) (hc : inp.Cons d)
    (hn : ∀ pos cn c, Good d c → Step2 d cfg dec (.descOverDesc a ms inp 0 pos cn) c) :
    ∀ (m lv pos : Nat) (cn c : Ref), Good d cn → d.length - cn.idx ≤ m → Good d c →
      Step2 d cfg dec (.descOverDesc a ms inp (lv+1) pos cn) c := by
  intro m
  induction m with
  | zero => intro lv pos cn c hg hm; simp only [Good] at hg; omega
  | succ m ih =>
    intro lv pos cn c hgcn hm hg
    rcases dodUp_spec d (test d cfg a) lv cn with ⟨f1, n, l', hup, hgn, hlt, hl', hrest⟩ | ⟨f1, hup, hrest⟩
    · obtain ⟨f2, j, l, hgj, hl, hj, hres⟩ := dodInner_spec d (test d cfg a) _ n l' hgn (Nat.le_refl _)
      rcases hres with ⟨hinn, hstr⟩ | ⟨hinn, hstr⟩
      · -- reported from inside the inner loop
        refine ⟨.descOverDesc a ms inp l (pos+1) j, c, max f1 f2 + 1, fun f hf => ?_, ?_, ⟨hc, fun _ => hgj⟩, rfl, hg, ?_⟩
        · obtain ⟨f', rfl⟩ : ∃ f', f = f' + 1 := ⟨f - 1, by omega⟩
          show PQ2.select d cfg dec (f'+1) _ _ = (headRes (rem2 d cfg dec c _), _, _)
          simp only [PQ2.select, hup f' (by omega), hinn f' (by omega), rem2, hrest, hstr, numFrom, List.cons_append,
            headRes]
        · show rem2 d cfg dec c _ = (rem2 d cfg dec c _).tail
          simp only [rem2, hrest, hstr, numFrom, List.cons_append, List.tail_cons]
        · intro x xs hx
          have hx : rem2 d cfg dec c _ = x :: xs := hx
          simp only [rem2, hrest, hstr, numFrom, List.cons_append] at hx
          injection hx with hx1 _
          subst hx1
          exact ⟨rfl, rfl, hgj⟩
      · -- fell out of the inner loop at a childless node: `continue`
        obtain ⟨l0, rfl⟩ : ∃ l0, l = l0 + 1 := ⟨l - 1, by omega⟩
        obtain ⟨s', c2, f3, hsel3, hrem3, hcons3, hsame3, hgc3, hpos3⟩ :=
          ih l0 pos j c hgj (by omega) hg
        have heq : (mach2 d cfg dec).rem c (.descOverDesc a ms inp (lv+1) pos cn)
            = (mach2 d cfg dec).rem c (.descOverDesc a ms inp (l0+1) pos j) := by
          show rem2 d cfg dec c _ = rem2 d cfg dec c _
          simp only [rem2, hrest, hstr]
        refine ⟨s', c2, max f1 (max f2 f3) + 1, fun f hf => ?_, ?_, hcons3, hsame3, hgc3, ?_⟩
        · obtain ⟨f', rfl⟩ : ∃ f', f = f' + 1 := ⟨f - 1, by omega⟩
          show PQ2.select d cfg dec (f'+1) _ _ = _
          simp only [PQ2.select, hup f' (by omega), hinn f' (by omega)]
          rw [heq]; exact hsel3 f' (by omega)
        · rw [heq]; exact hrem3
        · rw [heq]; exact hpos3
    · -- `moveUpUntilNext` returned false: level 0, `continue`
      have heq : ∀ cn', (mach2 d cfg dec).rem c (.descOverDesc a ms inp (lv+1) pos cn)
          = (mach2 d cfg dec).rem c (.descOverDesc a ms inp 0 pos cn') := by
        intro cn'
        show rem2 d cfg dec c _ = rem2 d cfg dec c _
        simp only [rem2, hrest, dodRest_zero]
      -- the node the cursor stops on depends on the fuel only formally: fix it at fuel `f1`
      obtain ⟨cn', hcn'⟩ := hup f1 (Nat.le_refl _)
      have hup' : ∀ f, f1 ≤ f → dodUp d f cn (lv+1) = (.done, (cn', 0)) := by
        intro f hf
        obtain ⟨cn'', h⟩ := hup f hf
        have hmono : ∀ (f : Nat) (cn : Ref) (level : Nat) (r : Res (Ref × Nat) × (Ref × Nat)),
            dodUp d f cn level = r → r.1 ≠ .fuel → dodUp d (f+1) cn level = r := by
          intro f
          induction f with
          | zero => intro cn level r h hne; simp only [dodUp] at h; subst h; exact absurd rfl hne
          | succ f ihf =>
            intro cn level r h hne
            rw [dodUp] at h ⊢
            cases hmv : Nav.moveNext d cn with
            | some nn => rw [hmv] at h; exact h
            | none =>
              rw [hmv] at h
              simp only at h ⊢
              split
              · rename_i h0; rw [if_pos h0] at h; exact h
              · rename_i h0; rw [if_neg h0] at h; exact ihf _ _ _ h hne
        have hle : ∀ k, dodUp d (f1 + k) cn (lv+1) = (.done, (cn', 0)) := by
          intro k
          induction k with
          | zero => exact hcn'
          | succ k ihk => exact hmono _ _ _ _ ihk (by simp)
        obtain ⟨k, rfl⟩ : ∃ k, f = f1 + k := ⟨f - f1, by omega⟩
        exact hle k
      obtain ⟨s', c2, f3, hsel3, hrem3, hcons3, hsame3, hgc3, hpos3⟩ := hn pos cn' c hg
      refine ⟨s', c2, max f1 f3 + 1, fun f hf => ?_, ?_, hcons3, hsame3, hgc3, ?_⟩
      · obtain ⟨f', rfl⟩ : ∃ f', f = f' + 1 := ⟨f - 1, by omega⟩
        show PQ2.select d cfg dec (f'+1) _ _ = _
        simp only [PQ2.select, hup' f' (by omega)]
        rw [heq cn']; exact hsel3 f' (by omega)
      · rw [heq cn']; exact hrem3
      · rw [heq cn']; exact hpos3

/-- a state with `d.level == 0` (it pulls the input) -/
theorem step2_dod_idle (n : Nat) (hin : StepIH d cfg dec n) (a : AxisInfo) (ms : Bool) :
    ∀ (l : List Item) (inp : PQ2), PSz d n inp → inp.Inv d → ∀ c, Good d c → rem2 d cfg dec c inp = l →
    ∀ pos cn, Step2 d cfg dec (.descOverDesc a ms inp 0 pos cn) c := by
  intro l
  induction l with
  | nil =>
    intro inp hp hi c hg hr pos cn
    obtain ⟨inp', c', f1, hsel, hrem, hcons, hsame, hgc', _⟩ := hin inp hp hi c hg
    simp only [mach2_sel, mach2_rem] at hsel hrem
    have hsame : inp'.plan = inp.plan := hsame
    rw [hr] at hsel hrem
    refine ⟨.descOverDesc a ms inp' 0 pos cn, c', f1 + 1, fun f hf => ?_, ?_, ⟨hcons, fun h => by omega⟩, ?_, hgc', ?_⟩
    · obtain ⟨f', rfl⟩ : ∃ f', f = f' + 1 := ⟨f - 1, by omega⟩
      show PQ2.select d cfg dec (f'+1) _ _ = (headRes (rem2 d cfg dec c _), _, _)
      simp only [PQ2.select, hsel f' (by omega), headRes, rem2, hr, dodRest_zero, numFrom, List.flatMap_nil,
        List.append_nil]
    · show rem2 d cfg dec c' _ = (rem2 d cfg dec c _).tail
      simp only [rem2, hrem, hr, dodRest_zero, numFrom, List.tail_nil, List.flatMap_nil, List.append_nil]
    · show (PQ2.descOverDesc a ms inp' 0 pos cn).plan = (PQ2.descOverDesc a ms inp 0 pos cn).plan
      simp only [PQ2.plan, hsame]
    · intro x xs hx
      have hx : rem2 d cfg dec c _ = x :: xs := hx
      simp [rem2, hr, dodRest_zero, numFrom] at hx
  | cons x xs ih =>
    intro inp hp hi c hg hr pos cn
    obtain ⟨inp', c', f1, hsel, hrem, hcons, hsame, hgc', hpos⟩ := hin inp hp hi c hg
    simp only [mach2_sel, mach2_rem] at hsel hrem hpos
    have hgx := (hpos x xs hr).2.2
    have hsame' : inp'.plan = inp.plan := hsame
    rw [hr] at hsel hrem
    simp only [List.tail_cons] at hrem
    have h1 : ∀ f, f1 ≤ f → PQ2.select d cfg dec f inp c = (.yield x.r, inp', c') := fun f hf => by
      rw [hsel f hf]; rfl
    have hp' : PSz d n inp' := PSz_same d cfg dec n inp inp' hp hsame
    have hn : ∀ pos cn c, Good d c → Step2 d cfg dec (.descOverDesc a ms inp' 0 pos cn) c :=
      fun p0 cn0 c0 hg0 => ih inp' hp' (PQ2.cons_inv d _ hcons) c0 hg0
        (by rw [rem2_cons_indep d cfg dec inp' hcons c0 c']; exact hrem) p0 cn0
    have hplan : ∀ l p cn', (PQ2.descOverDesc a ms inp' l p cn').plan = (PQ2.descOverDesc a ms inp 0 pos cn).plan := by
      intro l p cn'; simp only [PQ2.plan, hsame']
    by_cases hself : (ms && test d cfg a x.r) = true
    · -- `d.MatchSelf && d.Predicate(d.currentNode)`: `d.posit = 1; return d.currentNode`
      refine ⟨.descOverDesc a ms inp' 0 1 x.r, c', f1 + 1, fun f hf => ?_, ?_, ⟨hcons, fun h => by omega⟩,
        hplan _ _ _, hgc', ?_⟩
      · obtain ⟨f', rfl⟩ : ∃ f', f = f' + 1 := ⟨f - 1, by omega⟩
        show PQ2.select d cfg dec (f'+1) _ _ = (headRes (rem2 d cfg dec c _), _, _)
        simp only [PQ2.select, h1 f' (by omega), hself, if_true, rem2, hr, dodRest_zero, numFrom, List.nil_append,
          List.flatMap_cons, dodContrib, List.cons_append, headRes]
      · show rem2 d cfg dec c' _ = (rem2 d cfg dec c _).tail
        simp only [rem2, hrem, hr, dodRest_zero, numFrom, List.nil_append, List.flatMap_cons, dodContrib, hself, if_true,
          List.cons_append, List.tail_cons]
      · intro y ys hy
        have hy : rem2 d cfg dec c _ = y :: ys := hy
        simp only [rem2, hr, dodRest_zero, numFrom, List.nil_append, List.flatMap_cons, dodContrib, hself, if_true,
          List.cons_append] at hy
        injection hy with hy1 _
        subst hy1
        exact ⟨rfl, rfl, hgx⟩
    · have hcontrib : dodContrib d cfg a ms x.r
          = numFrom 0 ((childrenM d x.r).flatMap (topOf d (test d cfg a))) := by
        simp only [dodContrib, hself, if_false, Bool.false_eq_true, numbered_eq, topMost_unfold]
      have hu := sibCands_unfold d x.r true
      simp only [sibCands, if_true] at hu
      cases hm : Nav.moveChild d x.r with
      | none =>
        -- `if !d.moveToFirstChild() { continue }`
        rw [hm] at hu; simp only at hu
        obtain ⟨s', c3, f3, hsel3, hrem3, hcons3, hsame3, hgc3, hpos3⟩ := hn 0 x.r c' hgc'
        have hsame3 : s'.plan = _ := hsame3
        have heq : (mach2 d cfg dec).rem c (.descOverDesc a ms inp 0 pos cn)
            = (mach2 d cfg dec).rem c' (.descOverDesc a ms inp' 0 0 x.r) := by
          show rem2 d cfg dec c _ = rem2 d cfg dec c' _
          simp only [rem2, hr, hrem, dodRest_zero, numFrom, List.nil_append, List.flatMap_cons, hcontrib, hu,
            List.flatMap_nil]
        refine ⟨s', c3, max f1 f3 + 1, fun f hf => ?_, ?_, hcons3, ?_, hgc3, ?_⟩
        · obtain ⟨f', rfl⟩ : ∃ f', f = f' + 1 := ⟨f - 1, by omega⟩
          show PQ2.select d cfg dec (f'+1) _ _ = _
          simp only [PQ2.select, h1 f' (by omega), hself, if_false, Bool.false_eq_true, hm]
          rw [heq]; exact hsel3 f' (by omega)
        · rw [heq]; exact hrem3
        · show s'.plan = _
          rw [hsame3]; exact hplan _ _ _
        · rw [heq]; exact hpos3
      | some ch =>
        rw [hm] at hu; simp only at hu
        have hpar := moveChild_parent d hm
        obtain ⟨i, hxi, rfl, hi⟩ := moveChild_some hm
        have hgch : Good d (.node (i+1)) := hi
        obtain ⟨f2, j, l, hgj, hl, hj, hres⟩ :=
          dodInner_spec d (test d cfg a) _ (.node (i+1)) 1 hgch (Nat.le_refl _)
        have hstr0 : (childrenM d x.r).flatMap (topOf d (test d cfg a))
            = topOf d (test d cfg a) (.node (i+1)) ++ dodRest d (test d cfg a) 1 (.node (i+1)) := by
          rw [hu, dodRest_succ, hpar]
          simp only [List.flatMap_cons, dodRest_zero, List.append_nil, Bool.false_eq_true, if_false]
        rcases hres with ⟨hinn, hstr⟩ | ⟨hinn, hstr⟩
        · refine ⟨.descOverDesc a ms inp' l 1 j, c', max f1 f2 + 1, fun f hf => ?_, ?_, ⟨hcons, fun _ => hgj⟩,
            hplan _ _ _, hgc', ?_⟩
          · obtain ⟨f', rfl⟩ : ∃ f', f = f' + 1 := ⟨f - 1, by omega⟩
            show PQ2.select d cfg dec (f'+1) _ _ = (headRes (rem2 d cfg dec c _), _, _)
            simp only [PQ2.select, h1 f' (by omega), hself, if_false, Bool.false_eq_true, hm, hinn f' (by omega),
              rem2, hr, dodRest_zero, numFrom, List.nil_append, List.flatMap_cons, hcontrib, hstr0, hstr,
              List.cons_append, headRes]
          · show rem2 d cfg dec c' _ = (rem2 d cfg dec c _).tail
            simp only [rem2, hrem, hr, dodRest_zero, numFrom, List.nil_append, List.flatMap_cons, hcontrib, hstr0, hstr,
              List.cons_append, List.tail_cons]
          · intro y ys hy
            have hy : rem2 d cfg dec c _ = y :: ys := hy
            simp only [rem2, hr, dodRest_zero, numFrom, List.nil_append, List.flatMap_cons, hcontrib, hstr0, hstr,
              List.cons_append] at hy
            injection hy with hy1 _
            subst hy1
            exact ⟨rfl, rfl, hgj⟩
        · obtain ⟨l0, rfl⟩ : ∃ l0, l = l0 + 1 := ⟨l - 1, by omega⟩
          obtain ⟨s', c3, f3, hsel3, hrem3, hcons3, hsame3, hgc3, hpos3⟩ :=
            step2_dod_live d cfg dec a ms inp' hcons hn _ l0 0 j c' hgj (Nat.le_refl _) hgc'
          have hsame3 : s'.plan = _ := hsame3
          have heq : (mach2 d cfg dec).rem c (.descOverDesc a ms inp 0 pos cn)
              = (mach2 d cfg dec).rem c' (.descOverDesc a ms inp' (l0+1) 0 j) := by
            show rem2 d cfg dec c _ = rem2 d cfg dec c' _
            simp only [rem2, hr, hrem, List.flatMap_cons, hcontrib, hstr0, hstr]
            simp only [dodRest_zero, numFrom, List.nil_append]
          refine ⟨s', c3, max f1 (max f2 f3) + 1, fun f hf => ?_, ?_, hcons3, ?_, hgc3, ?_⟩
          · obtain ⟨f', rfl⟩ : ∃ f', f = f' + 1 := ⟨f - 1, by omega⟩
            show PQ2.select d cfg dec (f'+1) _ _ = _
            simp only [PQ2.select, h1 f' (by omega), hself, if_false, Bool.false_eq_true, hm, hinn f' (by omega)]
            rw [heq]; exact hsel3 f' (by omega)
          · rw [heq]; exact hrem3
          · show s'.plan = _
            rw [hsame3]; exact hplan _ _ _
          · rw [heq]; exact hpos3

theorem step2_dod (n : Nat) (hin : StepIH d cfg dec n) (a : AxisInfo) (ms : Bool) (inp : PQ2) (hp : PSz d n inp)
    (level pos : Nat) (cn c : Ref) (hi : (PQ2.descOverDesc a ms inp level pos cn).Inv d) (hg : Good d c) :
    Step2 d cfg dec (.descOverDesc a ms inp level pos cn) c := by
  cases level with
  | zero =>
    rcases hi with ⟨_, hi⟩ | ⟨hi, _⟩
    · exact step2_dod_idle d cfg dec n hin a ms _ inp hp hi c hg rfl pos cn
    · exact step2_dod_idle d cfg dec n hin a ms _ inp hp (PQ2.cons_inv d _ hi) c hg rfl pos cn
  | succ lv =>
    rcases hi with ⟨h, _⟩ | ⟨hc, hgcn⟩
    · cases h
    · exact step2_dod_live d cfg dec a ms inp hc
        (fun p0 cn0 c0 hg0 => step2_dod_idle d cfg dec n hin a ms _ inp hp (PQ2.cons_inv d _ hc) c0 hg0 rfl p0 cn0)
        _ lv pos cn c (hgcn (Nat.succ_pos _)) (Nat.le_refl _) hg

end

end XPathV.Model
