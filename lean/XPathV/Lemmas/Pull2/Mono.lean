import XPathV.Model.Pull2
import XPathV.Lemmas.PullProofs
/-!
# More fuel never changes an answer (extended pull machine)

`select_mono2`: if `Select` answered (a node or `nil`) with fuel `f`, it gives the same answer, the
same new state and the same `t.Current()` with fuel `f+1`.  Hence every answer other than "out of
fuel" is *the* answer of the one-pull lemma, whatever fuel was given.
-/
namespace XPathV.Model
open XPathV

section
variable (d : Doc) (cfg : ECfg)

/-! ## the closure bodies -/

theorem ancUp_mono {t : Ref → Bool} : ∀ (f : Nat) (n : Ref) (r : Res Ref),
    ancUp d t f n = r → r ≠ .fuel → ancUp d t (f+1) n = r
  | 0, _, r, h, hne => by simp only [ancUp] at h; exact absurd h.symm hne
  | f+1, n, r, h, hne => by
    rw [ancUp] at h ⊢
    cases hm : Nav.moveParent d n with
    | none => rw [hm] at h; exact h
    | some p =>
      rw [hm] at h
      simp only at h ⊢
      by_cases htp : t p = true
      · simp only [htp, if_true] at h ⊢; exact h
      · simp only [htp, if_false, Bool.false_eq_true] at h ⊢
        exact ancUp_mono f p r h hne

theorem ancIter_mono {t : Ref → Bool} {s : Bool} (f : Nat) (n : Ref) (first : Bool) (r : Res Ref)
    (h : ancIter d t s f n first = r) (hne : r ≠ .fuel) : ancIter d t s (f+1) n first = r := by
  simp only [ancIter] at h ⊢
  split at h
  · rename_i hc; rw [if_pos hc]; exact h
  · rename_i hc; rw [if_neg hc]; exact ancUp_mono d f n r h hne

theorem ancLoop_mono {t : Ref → Bool} {key : Ref → String} {s : Bool} : ∀ (f : Nat) (n : Ref) (first : Bool)
    (tb : List String) (r : Res (Ref × List String)),
    ancLoop d t key s f n first tb = r → r ≠ .fuel → ancLoop d t key s (f+1) n first tb = r
  | 0, _, _, _, r, h, hne => by simp only [ancLoop] at h; exact absurd h.symm hne
  | f+1, n, first, tb, r, h, hne => by
    rw [ancLoop] at h ⊢
    cases hi : ancIter d t s f n first with
    | fuel => rw [hi] at h; exact absurd h.symm hne
    | done => rw [hi] at h; rw [ancIter_mono d f n first _ hi (by simp)]; exact h
    | yield j =>
      rw [hi] at h; rw [ancIter_mono d f n first _ hi (by simp)]
      simp only at h ⊢
      by_cases hc : tb.contains (key j) = true
      · simp only [hc, if_true] at h ⊢; exact ancLoop_mono f j false tb r h hne
      · simp only [hc, if_false, Bool.false_eq_true] at h ⊢; exact h

theorem precSibIter_mono {t : Ref → Bool} : ∀ (f : Nat) (n : Ref) (r : Res Ref),
    precSibIter d t f n = r → r ≠ .fuel → precSibIter d t (f+1) n = r
  | 0, _, r, h, hne => by simp only [precSibIter] at h; exact absurd h.symm hne
  | f+1, n, r, h, hne => by
    rw [precSibIter] at h ⊢
    cases hm : Nav.movePrev d n with
    | none => rw [hm] at h; exact h
    | some p =>
      rw [hm] at h
      simp only at h ⊢
      by_cases htp : t p = true
      · simp only [htp, if_true] at h ⊢; exact h
      · simp only [htp, if_false, Bool.false_eq_true] at h ⊢
        exact precSibIter_mono f p r h hne

theorem folClimb_mono : ∀ (f : Nat) (n : Ref) (r : Res Ref),
    folClimb d f n = r → r ≠ .fuel → folClimb d (f+1) n = r
  | 0, _, r, h, hne => by simp only [folClimb] at h; exact absurd h.symm hne
  | f+1, n, r, h, hne => by
    rw [folClimb] at h ⊢
    cases hm : Nav.moveNext d n with
    | some m => rw [hm] at h; exact h
    | none =>
      rw [hm] at h
      simp only at h ⊢
      cases hp : Nav.moveParent d n with
      | none => rw [hp] at h; exact h
      | some p => rw [hp] at h; exact folClimb_mono f p r h hne

theorem precClimb_mono : ∀ (f : Nat) (n : Ref) (pos : Nat) (r : Res (Ref × Nat)),
    precClimb d f n pos = r → r ≠ .fuel → precClimb d (f+1) n pos = r
  | 0, _, _, r, h, hne => by simp only [precClimb] at h; exact absurd h.symm hne
  | f+1, n, pos, r, h, hne => by
    rw [precClimb] at h ⊢
    cases hm : Nav.movePrev d n with
    | some m => rw [hm] at h; exact h
    | none =>
      rw [hm] at h
      simp only at h ⊢
      cases hp : Nav.moveParent d n with
      | none => rw [hp] at h; exact h
      | some p => rw [hp] at h; exact precClimb_mono f p 0 r h hne

theorem folIter_mono (a : AxisInfo) : ∀ (f : Nat) (node : Ref) (q : Option PQ)
    (r : Res (Ref × (Ref × Option PQ) × Nat)),
    folIter d cfg a f node q = r → r ≠ .fuel → folIter d cfg a (f+1) node q = r
  | 0, _, _, r, h, hne => by simp only [folIter] at h; exact absurd h.symm hne
  | f+1, node, none, r, h, hne => by
    rw [folIter] at h ⊢
    cases hc : folClimb d f node with
    | fuel => rw [hc] at h; exact absurd h.symm hne
    | done => rw [hc] at h; rw [folClimb_mono d f node _ hc (by simp)]; exact h
    | yield m =>
      rw [hc] at h; rw [folClimb_mono d f node _ hc (by simp)]
      exact folIter_mono a f m _ r h hne
  | f+1, node, some q, r, h, hne => by
    rw [folIter] at h ⊢
    cases hs : PQ.select d cfg node f q with
    | mk o q' =>
      rw [hs] at h
      cases o with
      | fuel => simp only at h; exact absurd h.symm hne
      | done =>
        rw [select_mono d cfg node f q _ _ hs (by simp)]
        simp only at h ⊢
        exact folIter_mono a f node none r h hne
      | yield j =>
        rw [select_mono d cfg node f q _ _ hs (by simp)]
        exact h

theorem precIter_mono (a : AxisInfo) : ∀ (f : Nat) (node : Ref) (q : Option PQ) (pos : Nat)
    (r : Res (Ref × (Ref × Option PQ) × Nat)),
    precIter d cfg a f node q pos = r → r ≠ .fuel → precIter d cfg a (f+1) node q pos = r
  | 0, _, _, _, r, h, hne => by simp only [precIter] at h; exact absurd h.symm hne
  | f+1, node, none, pos, r, h, hne => by
    rw [precIter] at h ⊢
    cases hc : precClimb d f node pos with
    | fuel => rw [hc] at h; exact absurd h.symm hne
    | done => rw [hc] at h; rw [precClimb_mono d f node pos _ hc (by simp)]; exact h
    | yield mp =>
      obtain ⟨m, p'⟩ := mp
      rw [hc] at h; rw [precClimb_mono d f node pos _ hc (by simp)]
      exact precIter_mono a f m _ p' r h hne
  | f+1, node, some q, pos, r, h, hne => by
    rw [precIter] at h ⊢
    cases hs : PQ.select d cfg node f q with
    | mk o q' =>
      rw [hs] at h
      cases o with
      | fuel => simp only at h; exact absurd h.symm hne
      | done =>
        rw [select_mono d cfg node f q _ _ hs (by simp)]
        simp only at h ⊢
        exact precIter_mono a f node none pos r h hne
      | yield j =>
        rw [select_mono d cfg node f q _ _ hs (by simp)]
        exact h

theorem folCall_mono (a : AxisInfo) (sib : Bool) (f : Nat) (k : Ref × Option PQ) (pos : Nat)
    (r : Res (Ref × (Ref × Option PQ) × Nat))
    (h : folCall d cfg a sib f k pos = r) (hne : r ≠ .fuel) : folCall d cfg a sib (f+1) k pos = r := by
  cases sib with
  | false =>
    simp only [folCall, Bool.false_eq_true, if_false] at h ⊢
    exact folIter_mono d cfg a f k.1 k.2 r h hne
  | true =>
    simp only [folCall, if_true] at h ⊢
    cases hc : childIter d (test d cfg a) f k.1 false with
    | fuel => rw [hc] at h; exact absurd h.symm hne
    | done => rw [hc] at h; rw [childIter_mono d f k.1 false _ hc (by simp)]; exact h
    | yield j => rw [hc] at h; rw [childIter_mono d f k.1 false _ hc (by simp)]; exact h

theorem precCall_mono (a : AxisInfo) (sib : Bool) (f : Nat) (k : Ref × Option PQ) (pos : Nat)
    (r : Res (Ref × (Ref × Option PQ) × Nat))
    (h : precCall d cfg a sib f k pos = r) (hne : r ≠ .fuel) : precCall d cfg a sib (f+1) k pos = r := by
  cases sib with
  | false =>
    simp only [precCall, Bool.false_eq_true, if_false] at h ⊢
    exact precIter_mono d cfg a f k.1 k.2 pos r h hne
  | true =>
    simp only [precCall, if_true] at h ⊢
    cases hc : precSibIter d (test d cfg a) f k.1 with
    | fuel => rw [hc] at h; exact absurd h.symm hne
    | done => rw [hc] at h; rw [precSibIter_mono d f k.1 _ hc (by simp)]; exact h
    | yield j => rw [hc] at h; rw [precSibIter_mono d f k.1 _ hc (by simp)]; exact h

theorem dodUp_mono : ∀ (f : Nat) (cn : Ref) (level : Nat) (r : Res (Ref × Nat) × (Ref × Nat)),
    dodUp d f cn level = r → r.1 ≠ .fuel → dodUp d (f+1) cn level = r
  | 0, _, _, r, h, hne => by simp only [dodUp] at h; subst h; exact absurd rfl hne
  | f+1, cn, level, r, h, hne => by
    rw [dodUp] at h ⊢
    cases hmv : Nav.moveNext d cn with
    | some nn => rw [hmv] at h; exact h
    | none =>
      rw [hmv] at h
      simp only at h ⊢
      split
      · rename_i h0; rw [if_pos h0] at h; exact h
      · rename_i h0; rw [if_neg h0] at h; exact dodUp_mono f _ _ r h hne

theorem dodInner_mono {t : Ref → Bool} : ∀ (f : Nat) (cn : Ref) (level : Nat) (r : Res Unit × (Ref × Nat)),
    dodInner d t f cn level = r → r.1 ≠ .fuel → dodInner d t (f+1) cn level = r
  | 0, _, _, r, h, hne => by simp only [dodInner] at h; subst h; exact absurd rfl hne
  | f+1, cn, level, r, h, hne => by
    rw [dodInner] at h ⊢
    by_cases htc : t cn = true
    · simp only [htc, if_true] at h ⊢; exact h
    · simp only [htc, if_false, Bool.false_eq_true] at h ⊢
      cases hm : Nav.moveChild d cn with
      | none => rw [hm] at h; exact h
      | some c => rw [hm] at h; exact dodInner_mono f c (level+1) r h hne

end

/-! ## the loops over another query's `Select` -/

section
variable {σ : Type} (step step' : σ → Ref → Res Ref × σ × Ref)
variable (hstep : ∀ q c o q' c', step q c = (o, q', c') → o ≠ .fuel → step' q c = (o, q', c'))

include hstep in
theorem collectM_mono : ∀ (f : Nat) (q : σ) (c : Ref) (l : List Ref) (r : List Ref × σ × Ref),
    collectM step f q c l = some r → collectM step' (f+1) q c l = some r
  | 0, _, _, _, _, h => by simp [collectM] at h
  | f+1, q, c, l, r, h => by
    rw [collectM] at h ⊢
    cases hs : step q c with
    | mk o rest =>
      obtain ⟨q', c'⟩ := rest
      rw [hs] at h
      cases o with
      | fuel => simp at h
      | done => rw [hstep q c _ _ _ hs (by simp)]; exact h
      | yield n =>
        rw [hstep q c _ _ _ hs (by simp)]
        simp only at h ⊢
        exact collectM_mono f q' c' _ r h

include hstep in
theorem collectU_mono (key : Ref → String) : ∀ (f : Nat) (q : σ) (c : Ref) (l : List Ref) (m : List String)
    (r : List Ref × List String × σ × Ref),
    collectU step key f q c l m = some r → collectU step' key (f+1) q c l m = some r
  | 0, _, _, _, _, _, h => by simp [collectU] at h
  | f+1, q, c, l, m, r, h => by
    rw [collectU] at h ⊢
    cases hs : step q c with
    | mk o rest =>
      obtain ⟨q', c'⟩ := rest
      rw [hs] at h
      cases o with
      | fuel => simp at h
      | done => rw [hstep q c _ _ _ hs (by simp)]; exact h
      | yield n =>
        rw [hstep q c _ _ _ hs (by simp)]
        simp only at h ⊢
        by_cases hc : m.contains (key n) = true
        · simp only [hc, if_true] at h ⊢; exact collectU_mono key f q' c' _ _ r h
        · simp only [hc, if_false, Bool.false_eq_true] at h ⊢; exact collectU_mono key f q' c' _ _ r h

end


/-! ## `Select` -/

section
variable (d : Doc) (cfg : ECfg) (dec : Plan → Ref → Bool)

/-- the answer is not "out of fuel" -/
abbrev NF (r : Out2) : Prop := r.1 ≠ .fuel

/-- arms of the form `match Input.Select(t) with | yield n => Select again (new closure) | done => done` -/
local macro "mono_pull" ih:ident h:ident hne:ident f:ident inp:ident c:ident : tactic => `(tactic| (
  simp only [PQ2.select] at $h:ident ⊢
  cases hr : PQ2.select d cfg dec $f $inp $c with
  | mk o1 rest =>
    obtain ⟨inp1, c1⟩ := rest
    rw [hr] at $h:ident
    cases o1 with
    | fuel => simp only at $h:ident; injection $h with h1 _; exact absurd h1.symm $hne
    | done => rw [$ih:ident $inp $c _ _ _ hr (by simp)]; exact $h
    | yield x =>
      rw [$ih:ident $inp $c _ _ _ hr (by simp)]
      simp only at $h:ident ⊢
      exact $ih:ident _ _ _ _ _ $h $hne))

theorem select_mono2 : ∀ (f : Nat) (q : PQ2) (c : Ref) (o : Res Ref) (q' : PQ2) (c' : Ref),
    PQ2.select d cfg dec f q c = (o, q', c') → o ≠ .fuel → PQ2.select d cfg dec (f+1) q c = (o, q', c') := by
  intro f
  induction f with
  | zero =>
    intro q c o q' c' h hne
    simp only [PQ2.select] at h
    injection h with h1 _
    exact absurd h1.symm hne
  | succ f ih =>
    intro q c o q' c' h hne
    cases q with
    | context k => simp only [PQ2.select] at h ⊢; exact h
    | absolute k => simp only [PQ2.select] at h ⊢; exact h
    | child a inp it pos =>
      cases it with
      | none => mono_pull ih h hne f inp c
      | some nf =>
        obtain ⟨n, first⟩ := nf
        simp only [PQ2.select] at h ⊢
        cases hr : childIter d (test d cfg a) f n first with
        | fuel => rw [hr] at h; simp only at h; injection h with h1 _; exact absurd h1.symm hne
        | done =>
          rw [hr] at h; rw [childIter_mono d f n first _ hr (by simp)]
          simp only at h ⊢; exact ih _ _ _ _ _ h hne
        | yield j => rw [hr] at h; rw [childIter_mono d f n first _ hr (by simp)]; exact h
    | cachedChild a inp it pos =>
      cases it with
      | none => mono_pull ih h hne f inp c
      | some nf =>
        obtain ⟨n, first⟩ := nf
        simp only [PQ2.select] at h ⊢
        cases hr : childIter d (test d cfg a) f n first with
        | fuel => rw [hr] at h; simp only at h; injection h with h1 _; exact absurd h1.symm hne
        | done =>
          rw [hr] at h; rw [childIter_mono d f n first _ hr (by simp)]
          simp only at h ⊢; exact ih _ _ _ _ _ h hne
        | yield j => rw [hr] at h; rw [childIter_mono d f n first _ hr (by simp)]; exact h
    | attr a inp it =>
      cases it with
      | none => mono_pull ih h hne f inp c
      | some nf =>
        obtain ⟨n, ia⟩ := nf
        simp only [PQ2.select] at h ⊢
        cases hr : attrIter d (test d cfg a) f n ia with
        | fuel => rw [hr] at h; simp only at h; injection h with h1 _; exact absurd h1.symm hne
        | done =>
          rw [hr] at h; rw [attrIter_mono d f n ia _ hr (by simp)]
          simp only at h ⊢; exact ih _ _ _ _ _ h hne
        | yield j => rw [hr] at h; rw [attrIter_mono d f n ia _ hr (by simp)]; exact h
    | descendant a s inp it pos level =>
      cases it with
      | none => mono_pull ih h hne f inp c
      | some nf =>
        obtain ⟨n, first⟩ := nf
        simp only [PQ2.select] at h ⊢
        cases hr : descIter d (test d cfg a) s f n first level with
        | fuel => rw [hr] at h; simp only at h; injection h with h1 _; exact absurd h1.symm hne
        | done =>
          rw [hr] at h; rw [descIter_mono d f n first level _ hr (by simp)]
          simp only at h ⊢; exact ih _ _ _ _ _ h hne
        | yield jl => rw [hr] at h; rw [descIter_mono d f n first level _ hr (by simp)]; exact h
    | ancestor a s inp it tb =>
      cases it with
      | none => mono_pull ih h hne f inp c
      | some nf =>
        obtain ⟨n, first⟩ := nf
        simp only [PQ2.select] at h ⊢
        cases hr : ancLoop d (test d cfg a) (identityHash d cfg) s f n first (tb.getD []) with
        | fuel => rw [hr] at h; simp only at h; injection h with h1 _; exact absurd h1.symm hne
        | done =>
          rw [hr] at h; rw [ancLoop_mono d f n first _ _ hr (by simp)]
          simp only at h ⊢; exact ih _ _ _ _ _ h hne
        | yield jl => rw [hr] at h; rw [ancLoop_mono d f n first _ _ hr (by simp)]; exact h
    | following a sib inp it pos =>
      cases it with
      | none => mono_pull ih h hne f inp c
      | some nq =>
        obtain ⟨node, q⟩ := nq
        simp only [PQ2.select] at h ⊢
        cases hr : folCall d cfg a sib f (node, q) pos with
        | fuel => rw [hr] at h; simp only at h; injection h with h1 _; exact absurd h1.symm hne
        | done =>
          rw [hr] at h; rw [folCall_mono d cfg a sib f _ pos _ hr (by simp)]
          simp only at h ⊢; exact ih _ _ _ _ _ h hne
        | yield jkp => rw [hr] at h; rw [folCall_mono d cfg a sib f _ pos _ hr (by simp)]; exact h
    | preceding a sib inp it pos =>
      cases it with
      | none => mono_pull ih h hne f inp c
      | some nq =>
        obtain ⟨node, q⟩ := nq
        simp only [PQ2.select] at h ⊢
        cases hr : precCall d cfg a sib f (node, q) pos with
        | fuel => rw [hr] at h; simp only at h; injection h with h1 _; exact absurd h1.symm hne
        | done =>
          rw [hr] at h; rw [precCall_mono d cfg a sib f _ pos _ hr (by simp)]
          simp only at h ⊢; exact ih _ _ _ _ _ h hne
        | yield jkp => rw [hr] at h; rw [precCall_mono d cfg a sib f _ pos _ hr (by simp)]; exact h
    | self a inp =>
      simp only [PQ2.select] at h ⊢
      cases hr : PQ2.select d cfg dec f inp c with
      | mk o1 rest =>
        obtain ⟨inp1, c1⟩ := rest
        rw [hr] at h
        cases o1 with
        | fuel => simp only at h; injection h with h1 _; exact absurd h1.symm hne
        | done => rw [ih inp c _ _ _ hr (by simp)]; exact h
        | yield x =>
          rw [ih inp c _ _ _ hr (by simp)]
          simp only at h ⊢
          by_cases ht : test d cfg a x = true
          · simp only [ht, if_true] at h ⊢; exact h
          · simp only [ht, if_false, Bool.false_eq_true] at h ⊢; exact ih _ _ _ _ _ h hne
    | parent a inp =>
      simp only [PQ2.select] at h ⊢
      cases hr : PQ2.select d cfg dec f inp c with
      | mk o1 rest =>
        obtain ⟨inp1, c1⟩ := rest
        rw [hr] at h
        cases o1 with
        | fuel => simp only at h; injection h with h1 _; exact absurd h1.symm hne
        | done => rw [ih inp c _ _ _ hr (by simp)]; exact h
        | yield x =>
          rw [ih inp c _ _ _ hr (by simp)]
          simp only at h ⊢
          cases hp : (Nav.moveParent d x).filter (test d cfg a) with
          | some p => rw [hp] at h; exact h
          | none => rw [hp] at h; simp only at h ⊢; exact ih _ _ _ _ _ h hne
    | filter inp pred pos pm =>
      rw [PQ2.select_filter] at h ⊢
      cases hr : PQ2.select d cfg dec f inp c with
      | mk o1 rest =>
        obtain ⟨inp1, c1⟩ := rest
        rw [hr] at h
        cases o1 with
        | fuel => simp only at h; injection h with h1 _; exact absurd h1.symm hne
        | done => rw [ih inp c _ _ _ hr (by simp)]; exact h
        | yield x =>
          rw [ih inp c _ _ _ hr (by simp)]
          simp only at h ⊢
          by_cases ht : dec pred x = true
          · simp only [ht, if_true] at h ⊢; exact h
          · simp only [ht, if_false, Bool.false_eq_true] at h ⊢
            cases hr2 : PQ2.select d cfg dec f (.filter inp1 pred pos (some (pm.getD []))) x with
            | mk o2 rest2 =>
              obtain ⟨q2, c2⟩ := rest2
              rw [hr2] at h
              simp only [Prod.mk.injEq] at h
              obtain ⟨h1, h2, h3⟩ := h
              subst h1
              rw [ih _ _ _ _ _ hr2 hne]
              simp only [h2, h3]
    | group inp pos =>
      simp only [PQ2.select] at h ⊢
      cases hr : PQ2.select d cfg dec f inp c with
      | mk o1 rest =>
        obtain ⟨inp1, c1⟩ := rest
        rw [hr] at h
        cases o1 with
        | fuel => simp only at h; injection h with h1 _; exact absurd h1.symm hne
        | done => rw [ih inp c _ _ _ hr (by simp)]; exact h
        | yield x => rw [ih inp c _ _ _ hr (by simp)]; exact h
    | union l r it =>
      cases it with
      | some buf =>
        cases buf with
        | nil => simp only [PQ2.select] at h ⊢; exact h
        | cons x rest => simp only [PQ2.select] at h ⊢; exact h
      | none =>
        simp only [PQ2.select] at h ⊢
        cases h1 : collectU (PQ2.select d cfg dec f) (identityHash d cfg) f l c [] [] with
        | none => rw [h1] at h; simp only at h; injection h with h1 _; exact absurd h1.symm hne
        | some r1 =>
          obtain ⟨list1, m1, l', c1⟩ := r1
          rw [h1] at h
          rw [collectU_mono _ _ (fun q c o q' c' hs hn => ih q c o q' c' hs hn) _ f l c [] [] _ h1]
          simp only at h ⊢
          cases h2 : collectU (PQ2.select d cfg dec f) (identityHash d cfg) f r c list1 m1 with
          | none => rw [h2] at h; simp only at h; injection h with h1 _; exact absurd h1.symm hne
          | some r2 =>
            obtain ⟨list2, m2, r', c2⟩ := r2
            rw [h2] at h
            rw [collectU_mono _ _ (fun q c o q' c' hs hn => ih q c o q' c' hs hn) _ f r c list1 m1 _ h2]
            simp only at h ⊢
            exact ih _ _ _ _ _ h hne
    | merge inp ch it =>
      cases it with
      | some buf =>
        cases buf with
        | nil => simp only [PQ2.select] at h ⊢; exact ih _ _ _ _ _ h hne
        | cons x rest => simp only [PQ2.select] at h ⊢; exact h
      | none =>
        simp only [PQ2.select] at h ⊢
        cases hr : PQ2.select d cfg dec f inp c with
        | mk o1 rest =>
          obtain ⟨inp1, c1⟩ := rest
          rw [hr] at h
          cases o1 with
          | fuel => simp only at h; injection h with h1 _; exact absurd h1.symm hne
          | done => rw [ih inp c _ _ _ hr (by simp)]; exact h
          | yield x =>
            rw [ih inp c _ _ _ hr (by simp)]
            simp only at h ⊢
            cases h1 : collectM (PQ2.select d cfg dec f) f ch.evaluate x [] with
            | none => rw [h1] at h; simp only at h; injection h with h1 _; exact absurd h1.symm hne
            | some r1 =>
              obtain ⟨list, ch', c2⟩ := r1
              rw [h1] at h
              rw [collectM_mono _ _ (fun q c o q' c' hs hn => ih q c o q' c' hs hn) f ch.evaluate x [] _ h1]
              simp only at h ⊢
              exact ih _ _ _ _ _ h hne
    | descOverDesc a ms inp level pos cn =>
      cases level with
      | zero =>
        simp only [PQ2.select] at h ⊢
        cases hr : PQ2.select d cfg dec f inp c with
        | mk o1 rest =>
          obtain ⟨inp1, c1⟩ := rest
          rw [hr] at h
          cases o1 with
          | fuel => simp only at h; injection h with h1 _; exact absurd h1.symm hne
          | done => rw [ih inp c _ _ _ hr (by simp)]; exact h
          | yield x =>
            rw [ih inp c _ _ _ hr (by simp)]
            simp only at h ⊢
            by_cases hs : (ms && test d cfg a x) = true
            · simp only [hs, if_true] at h ⊢; exact h
            · simp only [hs, if_false, Bool.false_eq_true] at h ⊢
              cases hm : Nav.moveChild d x with
              | none => rw [hm] at h; simp only at h ⊢; exact ih _ _ _ _ _ h hne
              | some ch =>
                rw [hm] at h
                simp only at h ⊢
                cases hi : dodInner d (test d cfg a) f ch 1 with
                | mk o2 jl =>
                  obtain ⟨j, l⟩ := jl
                  rw [hi] at h
                  cases o2 with
                  | fuel => simp only at h; injection h with h1 _; exact absurd h1.symm hne
                  | done =>
                    rw [dodInner_mono d f ch 1 _ hi (by simp)]
                    simp only at h ⊢; exact ih _ _ _ _ _ h hne
                  | yield u => rw [dodInner_mono d f ch 1 _ hi (by simp)]; exact h
      | succ lv =>
        simp only [PQ2.select] at h ⊢
        cases hu : dodUp d f cn (lv+1) with
        | mk o1 nl =>
          obtain ⟨cn', l'⟩ := nl
          rw [hu] at h
          cases o1 with
          | fuel => simp only at h; injection h with h1 _; exact absurd h1.symm hne
          | done =>
            rw [dodUp_mono d f cn (lv+1) _ hu (by simp)]
            simp only at h ⊢; exact ih _ _ _ _ _ h hne
          | yield u =>
            rw [dodUp_mono d f cn (lv+1) _ hu (by simp)]
            simp only at h ⊢
            cases hi : dodInner d (test d cfg a) f cn' l' with
            | mk o2 jl =>
              obtain ⟨j, l⟩ := jl
              rw [hi] at h
              cases o2 with
              | fuel => simp only at h; injection h with h1 _; exact absurd h1.symm hne
              | done =>
                rw [dodInner_mono d f cn' l' _ hi (by simp)]
                simp only at h ⊢; exact ih _ _ _ _ _ h hne
              | yield u => rw [dodInner_mono d f cn' l' _ hi (by simp)]; exact h

theorem select_mono2_le {f f' : Nat} {q : PQ2} {c : Ref} {o : Res Ref} {q' : PQ2} {c' : Ref}
    (h : PQ2.select d cfg dec f q c = (o, q', c')) (hne : o ≠ .fuel) (hle : f ≤ f') :
    PQ2.select d cfg dec f' q c = (o, q', c') := by
  induction hle with
  | refl => exact h
  | step _ ih => exact select_mono2 d cfg dec _ q c o q' c' ih hne

end

end XPathV.Model
