import XPathV.Lemmas.Pull2.Steps
import XPathV.Lemmas.AxesLemmas
/-!
# Walk lemmas for the non-sibling `followingQuery` / `precedingQuery`

* the captured inner `descendantQuery` over a `startQuery` (`inner_step`; the `PQ` machine over
  `.context`, run with the start node in the place of `t.Current()`)
* one-step unfoldings of `followRoots` (needs `WF`: the fuel `2·|d|+2` is justified by depth ≤ index)
  and `precRoots` (no `WF`), and the climbing loops `folClimb`, `precClimb`
* the closure bodies `folIter`, `precIter` against `folCur`, `precCur`
* `followingItems`, `precedingItems` as the streams of a fresh closure
-/
namespace XPathV.Model
open XPathV

section
variable (d : Doc) (cfg : ECfg)

/-! ## numbering -/

theorem numFromL_noLvl : ∀ (l : List (Ref × Nat)) (k : Nat), (numFromL k l).map noLvl = numFrom k (l.map (·.1))
  | [], _ => rfl
  | p :: ps, k => by simp only [numFromL, List.map_cons, numFrom, noLvl, numFromL_noLvl ps (k+1)]

theorem numFromL_refs : ∀ (l : List (Ref × Nat)) (k : Nat), (numFromL k l).map (·.r) = l.map (·.1)
  | [], _ => rfl
  | p :: ps, k => by simp only [numFromL, List.map_cons, numFromL_refs ps (k+1)]

theorem map_filter_fst (t : Ref → Bool) : ∀ l : List (Ref × Nat),
    (l.filter (fun p => t p.1)).map (·.1) = (l.map (·.1)).filter t
  | [] => rfl
  | p :: ps => by
    simp only [List.filter_cons, List.map_cons]
    by_cases h : t p.1 = true
    · simp only [h, if_true, List.map_cons, map_filter_fst t ps]
    · simp only [h, if_false, Bool.false_eq_true, map_filter_fst t ps]

/-- the refs of what a `descendantQuery{Self}` yields below one node -/
theorem descItems_refs (a : AxisInfo) (s : Bool) (m : Ref) :
    (descItems d cfg a s m).map (·.r)
      = ((if s then [m] else []) ++ (descM d m).map (·.1)).filter (test d cfg a) := by
  rw [descItems_eq, numFromL_refs]
  simp only [List.map_append, map_filter_fst, List.filter_append, descM]
  cases s with
  | false => simp
  | true =>
    by_cases h : test d cfg a m = true
    · simp [h]
    · simp [h]

theorem descItems_noLvl (a : AxisInfo) (s : Bool) (m : Ref) :
    (descItems d cfg a s m).map noLvl
      = numbered (((if s then [m] else []) ++ (descM d m).map (·.1)).filter (test d cfg a)) := by
  rw [descItems_eq, numFromL_noLvl, numbered_eq]
  simp only [List.map_append, map_filter_fst, List.filter_append, descM]
  cases s with
  | false => simp
  | true =>
    by_cases h : test d cfg a m = true
    · simp [h]
    · simp [h]

/-! ## the captured inner `descendantQuery` -/

theorem rem_inner_cons (a : AxisInfo) (s : Bool) (cnt : Nat) (hc : cnt > 0) (it : Option (Ref × Bool)) (p l : Nat)
    (c : Ref) :
    rem d cfg c (.descendant a s (.context cnt) it p l)
      = match it with
        | none => []
        | some k => descCur d (test d cfg a) s k (p, l) := by
  rcases it with _ | ⟨n, first⟩ <;> simp [rem, hc, descCur]

theorem descIter_ge {t : Ref → Bool} {s : Bool} {f0 f : Nat} {n : Ref} {first : Bool} {level : Nat}
    {r : Res (Ref × Nat)} (hf : f0 ≤ f) (h : descIter d t s f0 n first level = r) (hne : r ≠ .fuel) :
    descIter d t s f n first level = r := by
  induction hf with
  | refl => exact h
  | step _ ih => exact descIter_mono d _ n first level r ih hne

/-- one pull from a consumed inner machine -/
theorem inner_step_cons (a : AxisInfo) (s : Bool) (cnt : Nat) (hc : cnt > 0) (it : Option (Ref × Bool))
    (hit : itOK d it) (p l : Nat) (cur : Ref) (hg : Good d cur) :
    ∃ q' f0, (∀ f, f0 ≤ f → PQ.select d cfg cur f (.descendant a s (.context cnt) it p l)
        = (headRes (rem d cfg cur (.descendant a s (.context cnt) it p l)), q')) ∧
      innerOK d (some q') ∧
      (∀ c', rem d cfg c' q' = (rem d cfg cur (.descendant a s (.context cnt) it p l)).tail) ∧
      (∀ x xs, rem d cfg cur (.descendant a s (.context cnt) it p l) = x :: xs → q'.position = x.pos ∧ Good d x.r) := by
  have hdone : ∀ (p0 l0 : Nat) (f : Nat), 2 ≤ f →
      PQ.select d cfg cur f (.descendant a s (.context cnt) none p0 l0)
        = (.done, .descendant a s (.context cnt) none 0 l0) := by
    intro p0 l0 f hf
    obtain ⟨f', rfl⟩ : ∃ f', f = f' + 2 := ⟨f - 2, by omega⟩
    simp [PQ.select, hc]
  rcases it with _ | ⟨n, first⟩
  · refine ⟨.descendant a s (.context cnt) none 0 l, 2, fun f hf => ?_, ?_, fun c' => ?_, ?_⟩
    · rw [hdone p l f hf, rem_inner_cons d cfg a s cnt hc]; rfl
    · exact ⟨a, s, cnt, none, 0, l, rfl, hc, fun n f h => by cases h⟩
    · rw [rem_inner_cons d cfg a s cnt hc, rem_inner_cons d cfg a s cnt hc]; rfl
    · intro x xs hx; rw [rem_inner_cons d cfg a s cnt hc] at hx; cases hx
  · have hgn : Good d n := hit n first rfl
    rcases descBody_spec d (test d cfg a) s (n, first) (p, l) cur hgn hg with
      ⟨j, k', p', c', f0, hb, hk', _, hgj, hcur⟩ | ⟨c', f0, hb, _, hcur⟩
    · -- extract the shape of the result at fuel `f0`
      have h0 := hb f0 (Nat.le_refl _)
      simp only [descBody] at h0
      cases hdi : descIter d (test d cfg a) s f0 n first l with
      | fuel => rw [hdi] at h0; simp at h0
      | done => rw [hdi] at h0; simp at h0
      | yield jl =>
        obtain ⟨j0, l0⟩ := jl
        rw [hdi] at h0
        simp only [Prod.mk.injEq, Res.yield.injEq] at h0
        obtain ⟨⟨rfl, rfl, rfl⟩, rfl⟩ := h0
        have hdi' : ∀ f, f0 ≤ f → descIter d (test d cfg a) s f n first l = .yield (j0, l0) :=
          fun f hf => descIter_ge d hf hdi (by simp)
        refine ⟨.descendant a s (.context cnt) (some (j0, false)) (p+1) l0, f0 + 1, fun f hf => ?_, ?_, fun c' => ?_, ?_⟩
        · obtain ⟨f', rfl⟩ : ∃ f', f = f' + 1 := ⟨f - 1, by omega⟩
          rw [rem_inner_cons d cfg a s cnt hc]
          simp only [PQ.select, hdi' f' (by omega), hcur, headRes]
        · exact ⟨a, s, cnt, some (j0, false), p+1, l0, rfl, hc, fun n' f' h => by
            injection h with h; injection h with h1 h2; subst h1; exact hgj⟩
        · rw [rem_inner_cons d cfg a s cnt hc, rem_inner_cons d cfg a s cnt hc]
          simp only [hcur, List.tail_cons]
        · intro x xs hx
          rw [rem_inner_cons d cfg a s cnt hc] at hx
          simp only [hcur] at hx
          injection hx with hx1 _
          subst hx1
          exact ⟨rfl, hgj⟩
    · have hdi' : ∀ f, f0 ≤ f → descIter d (test d cfg a) s f n first l = .done := by
        intro f hf
        have h1 := hb f hf
        simp only [descBody] at h1
        cases hdf : descIter d (test d cfg a) s f n first l with
        | fuel => rw [hdf] at h1; simp at h1
        | done => rfl
        | yield jl' => rw [hdf] at h1; simp at h1
      refine ⟨.descendant a s (.context cnt) none 0 0, max f0 2 + 1, fun f hf => ?_, ?_, fun c' => ?_, ?_⟩
      · obtain ⟨f', rfl⟩ : ∃ f', f = f' + 1 := ⟨f - 1, by omega⟩
        rw [rem_inner_cons d cfg a s cnt hc]
        simp only [PQ.select, hdi' f' (by omega), hcur, headRes]
        exact hdone p 0 f' (by omega)
      · exact ⟨a, s, cnt, none, 0, 0, rfl, hc, fun n f h => by cases h⟩
      · rw [rem_inner_cons d cfg a s cnt hc, rem_inner_cons d cfg a s cnt hc]
        simp only [hcur]; rfl
      · intro x xs hx
        rw [rem_inner_cons d cfg a s cnt hc] at hx
        simp only [hcur] at hx
        cases hx

theorem rem_innerDesc (a : AxisInfo) (s : Bool) (c : Ref) :
    rem d cfg c (innerDesc a s) = descItems d cfg a s c := by
  simp [innerDesc, rem]

/-- one pull from the inner machine, consumed or fresh -/
theorem inner_step (q : PQ) (h : innerInv d (some q)) (cur : Ref) (hg : Good d cur) :
    ∃ q' f0, (∀ f, f0 ≤ f → PQ.select d cfg cur f q = (headRes (rem d cfg cur q), q')) ∧
      innerOK d (some q') ∧ (∀ c', rem d cfg c' q' = (rem d cfg cur q).tail) ∧
      (∀ x xs, rem d cfg cur q = x :: xs → q'.position = x.pos ∧ Good d x.r) := by
  rcases h with ⟨a, s, cnt, it, p, l, hq, hc, hit⟩ | ⟨a, s, hq⟩
  · subst hq
    exact inner_step_cons d cfg a s cnt hc it hit p l cur hg
  · injection hq with hq; subst hq
    obtain ⟨q', f0, h1, h2, h3, h4⟩ :=
      inner_step_cons d cfg a s 1 (Nat.succ_pos 0) (some (cur, true)) (fun n f h => by
        injection h with h; injection h with h1 _; subst h1; exact hg) 0 0 cur hg
    have heq : rem d cfg cur (innerDesc a s) = rem d cfg cur (.descendant a s (.context 1) (some (cur, true)) 0 0) := by
      rw [rem_innerDesc, rem_inner_cons d cfg a s 1 (Nat.succ_pos 0), descItems_eq]
      simp only [descCur, Bool.true_and]
    refine ⟨q', f0 + 2, fun f hf => ?_, h2, fun c' => by rw [heq]; exact h3 c', fun x xs hx => h4 x xs (by rw [← heq]; exact hx)⟩
    obtain ⟨f', rfl⟩ : ∃ f', f = f' + 2 := ⟨f - 2, by omega⟩
    rw [heq, ← h1 (f'+1) (by omega)]
    simp [innerDesc, PQ.select]


/-! ## `precRoots`: both moves decrease `ancM` -/

theorem movePrev_ancM {r p : Ref} (h : Nav.movePrev d r = some p) : ancM p < ancM r := by
  obtain ⟨i, j, rfl, rfl, hij⟩ := movePrev_some d h
  exact hij

theorem precRoots_stable : ∀ (f f' : Nat) (r : Ref) (b : Bool), ancM r ≤ f → ancM r ≤ f' →
    precRoots d f r b = precRoots d f' r b
  | 0, 0, _, _, _, _ => rfl
  | 0, f'+1, r, b, h, _ => by
    simp only [precRoots]
    cases hp : Nav.movePrev d r with
    | some p => have := movePrev_ancM d hp; omega
    | none =>
      cases hq : Nav.moveParent d r with
      | none => rfl
      | some q => have := (moveParent_ancM d hq).1; omega
  | f+1, 0, r, b, _, h => by
    simp only [precRoots]
    cases hp : Nav.movePrev d r with
    | some p => have := movePrev_ancM d hp; omega
    | none =>
      cases hq : Nav.moveParent d r with
      | none => rfl
      | some q => have := (moveParent_ancM d hq).1; omega
  | f+1, f'+1, r, b, h, h' => by
    simp only [precRoots]
    cases hp : Nav.movePrev d r with
    | some p =>
      have := movePrev_ancM d hp
      simp only
      rw [precRoots_stable f f' p false (by omega) (by omega)]
    | none =>
      cases hq : Nav.moveParent d r with
      | none => rfl
      | some q =>
        have := (moveParent_ancM d hq).1
        simp only
        rw [precRoots_stable f f' q true (by omega) (by omega)]

/-- the roots `precedingQuery` visits from `r`, at the fuel the sequence model uses -/
def PR (r : Ref) (b : Bool) : List (Ref × Bool) := precRoots d (2 * d.length + 2) r b

theorem PR_unfold {r : Ref} (hg : Good d r) (b : Bool) :
    PR d r b =
      match Nav.movePrev d r with
      | some p => (p, b) :: PR d p false
      | none =>
        match Nav.moveParent d r with
        | some q => PR d q true
        | none => [] := by
  have hr := ancM_le d hg
  unfold PR
  have e : 2 * d.length + 2 = (2 * d.length + 1) + 1 := rfl
  rw [e, precRoots]
  cases hp : Nav.movePrev d r with
  | some p =>
    have := movePrev_ancM d hp
    simp only
    rw [precRoots_stable d (2 * d.length + 1) (2 * d.length + 1 + 1) p false (by omega) (by omega)]
  | none =>
    cases hq : Nav.moveParent d r with
    | none => rfl
    | some q =>
      have := (moveParent_ancM d hq).1
      simp only
      rw [precRoots_stable d (2 * d.length + 1) (2 * d.length + 1 + 1) q true (by omega) (by omega)]

/-- the climbing loop of the non-sibling `precedingQuery` closure finds the head of the roots -/
theorem precClimb_spec : ∀ (k : Nat) (r : Ref) (b : Bool) (pos : Nat), Good d r → ancM r ≤ k → (b = true → pos = 0) →
    ∃ f0, ∀ f, f0 ≤ f →
      match PR d r b with
      | [] => precClimb d f r pos = .done
      | (m, fl) :: rest => precClimb d f r pos = .yield (m, if fl then 0 else pos) ∧ PR d m false = rest ∧
          Good d m ∧ (b = true → fl = true) := by
  intro k
  induction k with
  | zero =>
    intro r b pos hg hk hb
    rw [PR_unfold d hg]
    refine ⟨1, fun f hf => ?_⟩
    obtain ⟨f', rfl⟩ : ∃ f', f = f' + 1 := ⟨f - 1, by omega⟩
    cases hp : Nav.movePrev d r with
    | some p => have := movePrev_ancM d hp; omega
    | none =>
      cases hq : Nav.moveParent d r with
      | some q => have := (moveParent_ancM d hq).1; omega
      | none => simp only [precClimb, hp, hq]
  | succ k ih =>
    intro r b pos hg hk hb
    rw [PR_unfold d hg]
    cases hp : Nav.movePrev d r with
    | some p =>
      refine ⟨1, fun f hf => ?_⟩
      obtain ⟨f', rfl⟩ : ∃ f', f = f' + 1 := ⟨f - 1, by omega⟩
      rw [precClimb, hp]
      refine ⟨?_, rfl, movePrev_good d hp hg, fun h => h⟩
      cases b with
      | false => rfl
      | true => simp [hb rfl]
    | none =>
      cases hq : Nav.moveParent d r with
      | none =>
        refine ⟨1, fun f hf => ?_⟩
        obtain ⟨f', rfl⟩ : ∃ f', f = f' + 1 := ⟨f - 1, by omega⟩
        simp only [precClimb, hp, hq]
      | some q =>
        obtain ⟨h1, h2⟩ := moveParent_ancM d hq
        obtain ⟨f0, h0⟩ := ih q true 0 (h2 hg) (by omega) (fun _ => rfl)
        refine ⟨f0 + 1, fun f hf => ?_⟩
        obtain ⟨f', rfl⟩ : ∃ f', f = f' + 1 := ⟨f - 1, by omega⟩
        have h0' := h0 f' (by omega)
        simp only
        cases hpr : PR d q true with
        | nil =>
          rw [hpr] at h0'
          simp only [precClimb, hp, hq]
          exact h0'
        | cons mf rest =>
          obtain ⟨m, fl⟩ := mf
          rw [hpr] at h0'
          obtain ⟨e1, e2, e3, e4⟩ := h0'
          have hfl : fl = true := e4 rfl
          subst hfl
          rw [precClimb, hp, hq]
          exact ⟨e1, e2, e3, fun _ => rfl⟩

/-! ## `followRoots`: the measure `(|d| − endOf c) + depth c` (needs `WF`) -/

/-- the measure that the climbing loop of the non-sibling `followingQuery` decreases -/
def folM : Ref → Nat
  | .node c => (d.length - endOf d c) + dep d c
  | .attr i _ => (d.length - endOf d i) + dep d i + 1

theorem folM_lt {r : Ref} (wf : WF d) (hg : Good d r) : folM d r < 2 * d.length + 1 := by
  cases r with
  | node c =>
    have h1 := dep_le_idx wf c hg
    have h2 := endOf_gt d c
    have hg' : c < d.length := hg
    simp only [folM]; omega
  | attr i k =>
    have h1 := dep_le_idx wf i hg
    have h2 := endOf_gt d i
    have hg' : i < d.length := hg
    simp only [folM]; omega

theorem moveNext_folM {r n : Ref} (h : Nav.moveNext d r = some n) : folM d n < folM d r ∧ Good d n := by
  obtain ⟨i, j, rfl, rfl, hij, hj, hdep⟩ := moveNext_some h
  have hje : j = endOf d i := by
    simp only [Nav.moveNext] at h
    split at h
    · injection h with h; injection h with h; exact h.symm
    · cases h
  have h2 := endOf_gt d j
  have h3 := endOf_le d j hj
  refine ⟨?_, hj⟩
  simp only [folM, hdep]
  rw [← hje]; omega

theorem moveParent_folM {r q : Ref} (wf : WF d) (hg : Good d r) (hn : Nav.moveNext d r = none)
    (h : Nav.moveParent d r = some q) : folM d q < folM d r ∧ Good d q := by
  cases r with
  | attr i k =>
    simp only [Nav.moveParent] at h
    injection h with h; subst h
    exact ⟨by simp only [folM]; omega, hg⟩
  | node c =>
    have hc : c < d.length := hg
    rw [moveNext_node] at hn
    rw [moveParent_node] at h
    cases hnx : nextOf d c with
    | some n => rw [hnx] at hn; cases hn
    | none =>
      cases hq : parentFrom d (dep d c) c with
      | none => rw [hq] at h; cases h
      | some p =>
        rw [hq] at h
        simp only [Option.map_some] at h
        injection h with h; subst h
        have hend := nextOf_none_end c hc hnx
        obtain ⟨hqc, hqe, hqn⟩ := parent_endOf wf p c hc hq
        have hdep := parent_depth wf c p hc hq
        have hgt := endOf_gt d c
        have hle := endOf_le d c hc
        have hqq : endOf d p = endOf d c := by
          apply endOf_eq d p (endOf d c) (by omega) hle
          · intro k h1 h2
            exact endOf_inside d p k h1 (by omega)
          · rcases hend with h | h
            · exact Or.inl h
            · exact Or.inr (by omega)
        refine ⟨?_, by simp only [Good, Ref.idx]; omega⟩
        simp only [folM, hqq]; omega

theorem followRoots_stable (wf : WF d) : ∀ (f f' : Nat) (r : Ref), Good d r → folM d r < f → folM d r < f' →
    followRoots d f r = followRoots d f' r
  | 0, _, _, _, h, _ => by omega
  | _+1, 0, _, _, _, h => by omega
  | f+1, f'+1, r, hg, h, h' => by
    simp only [followRoots]
    cases hn : Nav.moveNext d r with
    | some n =>
      obtain ⟨h1, h2⟩ := moveNext_folM d hn
      simp only
      rw [followRoots_stable wf f f' n h2 (by omega) (by omega)]
    | none =>
      cases hq : Nav.moveParent d r with
      | none => rfl
      | some q =>
        obtain ⟨h1, h2⟩ := moveParent_folM d wf hg hn hq
        simp only
        exact followRoots_stable wf f f' q h2 (by omega) (by omega)

/-- the roots `followingQuery` visits from `r`, at the fuel the sequence model uses -/
def FR (r : Ref) : List Ref := followRoots d (2 * d.length + 2) r

theorem FR_unfold (wf : WF d) {r : Ref} (hg : Good d r) :
    FR d r =
      match Nav.moveNext d r with
      | some n => n :: FR d n
      | none =>
        match Nav.moveParent d r with
        | some q => FR d q
        | none => [] := by
  have hr := folM_lt d wf hg
  unfold FR
  have e : 2 * d.length + 2 = (2 * d.length + 1) + 1 := rfl
  rw [e, followRoots]
  cases hn : Nav.moveNext d r with
  | some n =>
    obtain ⟨h1, h2⟩ := moveNext_folM d hn
    simp only
    rw [followRoots_stable d wf (2 * d.length + 1) (2 * d.length + 1 + 1) n h2 (by omega) (by omega)]
  | none =>
    cases hq : Nav.moveParent d r with
    | none => rfl
    | some q =>
      obtain ⟨h1, h2⟩ := moveParent_folM d wf hg hn hq
      simp only
      rw [followRoots_stable d wf (2 * d.length + 1) (2 * d.length + 1 + 1) q h2 (by omega) (by omega)]

/-- the climbing loop of the non-sibling `followingQuery` closure finds the head of the roots -/
theorem folClimb_spec (wf : WF d) : ∀ (k : Nat) (r : Ref), Good d r → folM d r ≤ k →
    ∃ f0, ∀ f, f0 ≤ f →
      match FR d r with
      | [] => folClimb d f r = .done
      | m :: rest => folClimb d f r = .yield m ∧ FR d m = rest ∧ Good d m := by
  intro k
  induction k with
  | zero =>
    intro r hg hk
    rw [FR_unfold d wf hg]
    refine ⟨1, fun f hf => ?_⟩
    obtain ⟨f', rfl⟩ : ∃ f', f = f' + 1 := ⟨f - 1, by omega⟩
    cases hn : Nav.moveNext d r with
    | some n => have := (moveNext_folM d hn).1; omega
    | none =>
      cases hq : Nav.moveParent d r with
      | some q => have := (moveParent_folM d wf hg hn hq).1; omega
      | none => simp only [folClimb, hn, hq]
  | succ k ih =>
    intro r hg hk
    rw [FR_unfold d wf hg]
    cases hn : Nav.moveNext d r with
    | some n =>
      refine ⟨1, fun f hf => ?_⟩
      obtain ⟨f', rfl⟩ : ∃ f', f = f' + 1 := ⟨f - 1, by omega⟩
      rw [folClimb, hn]
      exact ⟨rfl, rfl, (moveNext_folM d hn).2⟩
    | none =>
      cases hq : Nav.moveParent d r with
      | none =>
        refine ⟨1, fun f hf => ?_⟩
        obtain ⟨f', rfl⟩ : ∃ f', f = f' + 1 := ⟨f - 1, by omega⟩
        simp only [folClimb, hn, hq]
      | some q =>
        obtain ⟨h1, h2⟩ := moveParent_folM d wf hg hn hq
        obtain ⟨f0, h0⟩ := ih q h2 (by omega)
        refine ⟨f0 + 1, fun f hf => ?_⟩
        obtain ⟨f', rfl⟩ : ∃ f', f = f' + 1 := ⟨f - 1, by omega⟩
        have h0' := h0 f' (by omega)
        simp only
        cases hfr : FR d q with
        | nil => rw [hfr] at h0'; simp only [folClimb, hn, hq]; exact h0'
        | cons m rest => rw [hfr] at h0'; simp only [folClimb, hn, hq]; exact h0'


/-! ## The non-sibling `followingQuery` closure -/

theorem subtree_noLvl (a : AxisInfo) (m : Ref) :
    numbered (subtreeMatches d (test d cfg a) m) = (descItems d cfg a true m).map noLvl := by
  rw [descItems_noLvl]; simp [subtreeMatches]

theorem subtree_refs (a : AxisInfo) (m : Ref) :
    subtreeMatches d (test d cfg a) m = (descItems d cfg a true m).map (·.r) := by
  rw [descItems_refs]; simp [subtreeMatches]

theorem folCur_eq (a : AxisInfo) (node : Ref) (q : Option PQ) :
    folCur d cfg a node q =
      (match q with
        | none => []
        | some q => (rem d cfg node q).map noLvl)
      ++ (FR d node).flatMap (fun root => numbered (subtreeMatches d (test d cfg a) root)) := rfl

theorem folCur_none (a : AxisInfo) (node : Ref) :
    folCur d cfg a node none
      = (FR d node).flatMap (fun root => numbered (subtreeMatches d (test d cfg a) root)) := by
  rw [folCur_eq]; rfl

theorem folCur_some (a : AxisInfo) (node : Ref) (q : PQ) :
    folCur d cfg a node (some q) = (rem d cfg node q).map noLvl
      ++ (FR d node).flatMap (fun root => numbered (subtreeMatches d (test d cfg a) root)) := rfl

/-- the closure with `q == nil`: climb to the next root, create the inner query (its `startQuery`
holds the root), pull it; roots whose subtree has no match are skipped -/
theorem folIter_none_spec (wf : WF d) (a : AxisInfo) : ∀ (roots : List Ref) (node : Ref), Good d node →
    FR d node = roots →
    (∃ j k' p' f0, (∀ f, f0 ≤ f → folIter d cfg a f node none = .yield (j, k', p')) ∧
      (Good d k'.1 ∧ innerOK d k'.2) ∧ Good d j ∧
      roots.flatMap (fun root => numbered (subtreeMatches d (test d cfg a) root))
        = ⟨j, p', 0⟩ :: folCur d cfg a k'.1 k'.2) ∨
    (∃ f0, (∀ f, f0 ≤ f → folIter d cfg a f node none = .done) ∧
      roots.flatMap (fun root => numbered (subtreeMatches d (test d cfg a) root)) = []) := by
  intro roots
  induction roots with
  | nil =>
    intro node hgn hfr
    obtain ⟨f0, h0⟩ := folClimb_spec d wf _ node hgn (Nat.le_refl _)
    refine Or.inr ⟨f0 + 1, fun f hf => ?_, rfl⟩
    obtain ⟨f', rfl⟩ : ∃ f', f = f' + 1 := ⟨f - 1, by omega⟩
    have := h0 f' (by omega)
    rw [hfr] at this
    simp only [folIter, this]
  | cons m rest ih =>
    intro node hgn hfr
    obtain ⟨f0, h0⟩ := folClimb_spec d wf _ node hgn (Nat.le_refl _)
    have h0' : ∀ f, f0 ≤ f → folClimb d f node = .yield m ∧ FR d m = rest ∧ Good d m := by
      intro f hf; have := h0 f hf; rw [hfr] at this; exact this
    obtain ⟨_, hfm, hgm⟩ := h0' f0 (Nat.le_refl _)
    obtain ⟨q', f1, hsel, hok, hrem, hpos⟩ := inner_step d cfg (innerDesc a true) (Or.inr ⟨a, true, rfl⟩) m hgm
    rw [rem_innerDesc] at hsel hrem hpos
    cases hits : descItems d cfg a true m with
    | nil =>
      rw [hits] at hsel
      have hF : numbered (subtreeMatches d (test d cfg a) m) = [] := by rw [subtree_noLvl, hits]; rfl
      rcases ih m hgm hfm with ⟨j, k', p', f2, hy, hk', hgj, hR⟩ | ⟨f2, hy, hR⟩
      · refine Or.inl ⟨j, k', p', max f0 (max f1 f2) + 2, fun f hf => ?_, hk', hgj, ?_⟩
        · obtain ⟨f', rfl⟩ : ∃ f', f = f' + 2 := ⟨f - 2, by omega⟩
          rw [folIter, (h0' (f'+1) (by omega)).1]
          simp only
          rw [folIter, hsel f' (by omega)]
          simp only [headRes]
          exact hy f' (by omega)
        · simp only [List.flatMap_cons, hF, List.nil_append]; exact hR
      · refine Or.inr ⟨max f0 (max f1 f2) + 2, fun f hf => ?_, ?_⟩
        · obtain ⟨f', rfl⟩ : ∃ f', f = f' + 2 := ⟨f - 2, by omega⟩
          rw [folIter, (h0' (f'+1) (by omega)).1]
          simp only
          rw [folIter, hsel f' (by omega)]
          simp only [headRes]
          exact hy f' (by omega)
        · simp only [List.flatMap_cons, hF, List.nil_append]; exact hR
    | cons x xs =>
      rw [hits] at hsel hrem hpos
      obtain ⟨hp1, hgx⟩ := hpos x xs rfl
      refine Or.inl ⟨x.r, (m, some q'), x.pos, max f0 f1 + 2, fun f hf => ?_, ⟨hgm, hok⟩, hgx, ?_⟩
      · obtain ⟨f', rfl⟩ : ∃ f', f = f' + 2 := ⟨f - 2, by omega⟩
        rw [folIter, (h0' (f'+1) (by omega)).1]
        simp only
        rw [folIter, hsel f' (by omega)]
        simp only [headRes, hp1]
      · rw [folCur_some, hrem m, hfm]
        simp only [List.flatMap_cons, subtree_noLvl d cfg a m, hits, List.map_cons, List.tail_cons, List.cons_append,
          noLvl]

/-- `f.iterator()` of the non-sibling `followingQuery`; `t.Current()` (`c`) is not touched -/
theorem fol_body (wf : WF d) (a : AxisInfo) (k : Ref × Option PQ) (p : Nat) (c : Ref)
    (hk : Good d k.1 ∧ innerInv d k.2) (hg : Good d c) :
    (∃ j k' p' c' f0, (∀ f, f0 ≤ f → folBody d cfg a false f k p c = (.yield (j, k', p'), c')) ∧
      (Good d k'.1 ∧ innerOK d k'.2) ∧ Good d c' ∧ Good d j ∧
      folCurOf d cfg a false k p c = ⟨j, p', 0⟩ :: folCurOf d cfg a false k' p' c') ∨
    (∃ c' f0, (∀ f, f0 ≤ f → folBody d cfg a false f k p c = (.done, c')) ∧ Good d c' ∧
      folCurOf d cfg a false k p c = []) := by
  obtain ⟨node, q⟩ := k
  simp only [folBody, folCall, folCurOf, Bool.false_eq_true, if_false]
  cases q with
  | none =>
    rcases folIter_none_spec d cfg wf a _ node hk.1 rfl with ⟨j, k', p', f0, hy, hk', hgj, hR⟩ | ⟨f0, hy, hR⟩
    · exact Or.inl ⟨j, k', p', c, f0, fun f hf => by rw [hy f hf], hk', hg, hgj, by rw [folCur_none]; exact hR⟩
    · exact Or.inr ⟨c, f0, fun f hf => by rw [hy f hf], hg, by rw [folCur_none]; exact hR⟩
  | some q =>
    -- the captured `q` is pulled with its start node `node`
    obtain ⟨q', f1, hsel, hok, hrem, hpos⟩ := inner_step d cfg q hk.2 node hk.1
    cases hr : rem d cfg node q with
    | cons x xs =>
      rw [hr] at hsel hrem
      obtain ⟨hp1, hgx⟩ := hpos x xs hr
      refine Or.inl ⟨x.r, (node, some q'), x.pos, c, f1 + 1, fun f hf => ?_, ⟨hk.1, hok⟩, hg, hgx, ?_⟩
      · obtain ⟨f', rfl⟩ : ∃ f', f = f' + 1 := ⟨f - 1, by omega⟩
        rw [folIter, hsel f' (by omega)]
        simp only [headRes, hp1]
      · rw [folCur_some, folCur_some, hr, hrem node]
        simp only [List.map_cons, List.tail_cons, List.cons_append, noLvl]
    | nil =>
      rw [hr] at hsel
      rcases folIter_none_spec d cfg wf a _ node hk.1 rfl with ⟨j, k', p', f0, hy, hk', hgj, hR⟩ | ⟨f0, hy, hR⟩
      · refine Or.inl ⟨j, k', p', c, max f0 f1 + 1, fun f hf => ?_, hk', hg, hgj, ?_⟩
        · obtain ⟨f', rfl⟩ : ∃ f', f = f' + 1 := ⟨f - 1, by omega⟩
          rw [folIter, hsel f' (by omega)]
          simp only [headRes]
          rw [hy f' (by omega)]
        · rw [folCur_some, hr]; exact hR
      · refine Or.inr ⟨c, max f0 f1 + 1, fun f hf => ?_, hg, ?_⟩
        · obtain ⟨f', rfl⟩ : ∃ f', f = f' + 1 := ⟨f - 1, by omega⟩
          rw [folIter, hsel f' (by omega)]
          simp only [headRes]
          rw [hy f' (by omega)]
        · rw [folCur_some, hr]; exact hR

/-- a new input node of the non-sibling `followingQuery`: the fresh closure's stream is
`followingItems` of the sequence model -/
theorem fol_start (wf : WF d) (a : AxisInfo) (x c : Ref) (hgx : Good d x) :
    (Good d (folStart d a false x).1 ∧ innerInv d (folStart d a false x).2) ∧
      folCurOf d cfg a false (folStart d a false x) 0 c = folContrib d cfg a false x := by
  cases x with
  | node i =>
    simp only [folStart, Bool.false_eq_true, if_false, Ref.isAttr, folCurOf, folContrib, followingItems]
    exact ⟨⟨hgx, Or.inl trivial⟩, by rw [folCur_none]; rfl⟩
  | attr i k =>
    have hfr : FR d (.attr i k) = FR d (.node i) := by
      rw [FR_unfold d wf hgx]; rfl
    simp only [folStart, Bool.false_eq_true, if_false, Ref.isAttr, if_true, Nav.moveParent, folCurOf, folContrib,
      followingItems, Ref.idx]
    refine ⟨⟨hgx, Or.inr ⟨a, false, rfl⟩⟩, ?_⟩
    rw [folCur_some, rem_innerDesc, descItems_noLvl]
    simp only [Bool.false_eq_true, if_false, List.nil_append]
    show _ ++ (FR d (.node i)).flatMap _ = _ ++ (FR d (.attr i k)).flatMap _
    rw [hfr]; rfl

/-! ## The non-sibling `precedingQuery` closure -/

theorem precCur_eq (a : AxisInfo) (node : Ref) (q : Option PQ) (pos : Nat) :
    precCur d cfg a node q pos =
      (match q with
        | none => []
        | some q => numFrom pos ((rem d cfg node q).map (·.r)))
      ++ precTail d (test d cfg a) (PR d node false)
          (pos + (match q with | none => 0 | some q => (rem d cfg node q).length)) := rfl

theorem precCur_none (a : AxisInfo) (node : Ref) (pos : Nat) :
    precCur d cfg a node none pos = precTail d (test d cfg a) (PR d node false) pos := by
  rw [precCur_eq]; rfl

theorem precCur_some (a : AxisInfo) (node : Ref) (q : PQ) (pos : Nat) :
    precCur d cfg a node (some q) pos = numFrom pos ((rem d cfg node q).map (·.r))
      ++ precTail d (test d cfg a) (PR d node false) (pos + (rem d cfg node q).length) := rfl

theorem numFrom_append : ∀ (l1 l2 : List Ref) (k : Nat), numFrom k (l1 ++ l2) = numFrom k l1 ++ numFrom (k + l1.length) l2
  | [], l2, k => by simp [numFrom]
  | x :: xs, l2, k => by
    simp only [List.cons_append, numFrom, numFrom_append xs l2 (k+1), List.length_cons]
    congr 3; omega

theorem precIter_none_spec (a : AxisInfo) : ∀ (roots : List (Ref × Bool)) (node : Ref) (b : Bool) (pos : Nat),
    Good d node → (b = true → pos = 0) → PR d node b = roots →
    (∃ j k' p' f0, (∀ f, f0 ≤ f → precIter d cfg a f node none pos = .yield (j, k', p')) ∧
      (Good d k'.1 ∧ innerOK d k'.2) ∧ Good d j ∧
      precTail d (test d cfg a) roots pos = ⟨j, p', 0⟩ :: precCur d cfg a k'.1 k'.2 p') ∨
    (∃ f0, (∀ f, f0 ≤ f → precIter d cfg a f node none pos = .done) ∧
      precTail d (test d cfg a) roots pos = []) := by
  intro roots
  induction roots with
  | nil =>
    intro node b pos hgn hb hpr
    obtain ⟨f0, h0⟩ := precClimb_spec d _ node b pos hgn (Nat.le_refl _) hb
    refine Or.inr ⟨f0 + 1, fun f hf => ?_, rfl⟩
    obtain ⟨f', rfl⟩ : ∃ f', f = f' + 1 := ⟨f - 1, by omega⟩
    have := h0 f' (by omega)
    rw [hpr] at this
    simp only [precIter, this]
  | cons mf rest ih =>
    obtain ⟨m, fl⟩ := mf
    intro node b pos hgn hb hpr
    obtain ⟨f0, h0⟩ := precClimb_spec d _ node b pos hgn (Nat.le_refl _) hb
    have h0' : ∀ f, f0 ≤ f → precClimb d f node pos = .yield (m, if fl then 0 else pos) ∧ PR d m false = rest ∧
        Good d m ∧ (b = true → fl = true) := by
      intro f hf; have := h0 f hf; rw [hpr] at this; exact this
    obtain ⟨_, hpm, hgm, _⟩ := h0' f0 (Nat.le_refl _)
    obtain ⟨q', f1, hsel, hok, hrem, hpos⟩ := inner_step d cfg (innerDesc a true) (Or.inr ⟨a, true, rfl⟩) m hgm
    rw [rem_innerDesc] at hsel hrem hpos
    cases hits : descItems d cfg a true m with
    | nil =>
      rw [hits] at hsel
      have hF : subtreeMatches d (test d cfg a) m = [] := by rw [subtree_refs, hits]; rfl
      rcases ih m false (if fl then 0 else pos) hgm (fun h => by cases h) hpm with
        ⟨j, k', p', f2, hy, hk', hgj, hR⟩ | ⟨f2, hy, hR⟩
      · refine Or.inl ⟨j, k', p', max f0 (max f1 f2) + 2, fun f hf => ?_, hk', hgj, ?_⟩
        · obtain ⟨f', rfl⟩ : ∃ f', f = f' + 2 := ⟨f - 2, by omega⟩
          rw [precIter, (h0' (f'+1) (by omega)).1]
          simp only
          rw [precIter, hsel f' (by omega)]
          simp only [headRes]
          exact hy f' (by omega)
        · simp only [precTail, hF, numFrom, List.nil_append, List.length_nil, Nat.add_zero]; exact hR
      · refine Or.inr ⟨max f0 (max f1 f2) + 2, fun f hf => ?_, ?_⟩
        · obtain ⟨f', rfl⟩ : ∃ f', f = f' + 2 := ⟨f - 2, by omega⟩
          rw [precIter, (h0' (f'+1) (by omega)).1]
          simp only
          rw [precIter, hsel f' (by omega)]
          simp only [headRes]
          exact hy f' (by omega)
        · simp only [precTail, hF, numFrom, List.nil_append, List.length_nil, Nat.add_zero]; exact hR
    | cons x xs =>
      rw [hits] at hsel hrem hpos
      obtain ⟨_, hgx⟩ := hpos x xs rfl
      refine Or.inl ⟨x.r, (m, some q'), (if fl then 0 else pos) + 1, max f0 f1 + 2, fun f hf => ?_, ⟨hgm, hok⟩,
        hgx, ?_⟩
      · obtain ⟨f', rfl⟩ : ∃ f', f = f' + 2 := ⟨f - 2, by omega⟩
        rw [precIter, (h0' (f'+1) (by omega)).1]
        simp only
        rw [precIter, hsel f' (by omega)]
        simp only [headRes]
      · rw [precCur_some, hrem m, hpm]
        simp only [precTail, subtree_refs d cfg a m, hits, List.map_cons, numFrom, List.tail_cons, List.cons_append,
          List.length_cons, List.length_map]
        congr 3; omega

/-- `p.iterator()` of the non-sibling `precedingQuery`; `t.Current()` (`c`) is not touched -/
theorem prec_body (a : AxisInfo) (k : Ref × Option PQ) (p : Nat) (c : Ref)
    (hk : Good d k.1 ∧ innerInv d k.2) (hg : Good d c) :
    (∃ j k' p' c' f0, (∀ f, f0 ≤ f → precBody d cfg a false f k p c = (.yield (j, k', p'), c')) ∧
      (Good d k'.1 ∧ innerOK d k'.2) ∧ Good d c' ∧ Good d j ∧
      precCurOf d cfg a false k p c = ⟨j, p', 0⟩ :: precCurOf d cfg a false k' p' c') ∨
    (∃ c' f0, (∀ f, f0 ≤ f → precBody d cfg a false f k p c = (.done, c')) ∧ Good d c' ∧
      precCurOf d cfg a false k p c = []) := by
  obtain ⟨node, q⟩ := k
  simp only [precBody, precCall, precCurOf, Bool.false_eq_true, if_false]
  cases q with
  | none =>
    rcases precIter_none_spec d cfg a _ node false p hk.1 (fun h => by cases h) rfl with
      ⟨j, k', p', f0, hy, hk', hgj, hR⟩ | ⟨f0, hy, hR⟩
    · exact Or.inl ⟨j, k', p', c, f0, fun f hf => by rw [hy f hf], hk', hg, hgj, by rw [precCur_none]; exact hR⟩
    · exact Or.inr ⟨c, f0, fun f hf => by rw [hy f hf], hg, by rw [precCur_none]; exact hR⟩
  | some q =>
    obtain ⟨q', f1, hsel, hok, hrem, hpos⟩ := inner_step d cfg q hk.2 node hk.1
    cases hr : rem d cfg node q with
    | cons x xs =>
      rw [hr] at hsel hrem
      obtain ⟨_, hgx⟩ := hpos x xs hr
      refine Or.inl ⟨x.r, (node, some q'), p + 1, c, f1 + 1, fun f hf => ?_, ⟨hk.1, hok⟩, hg, hgx, ?_⟩
      · obtain ⟨f', rfl⟩ : ∃ f', f = f' + 1 := ⟨f - 1, by omega⟩
        rw [precIter, hsel f' (by omega)]
        simp only [headRes]
      · rw [precCur_some, precCur_some, hr, hrem node]
        simp only [List.map_cons, numFrom, List.tail_cons, List.cons_append, List.length_cons]
        congr 3; omega
    | nil =>
      rw [hr] at hsel
      rcases precIter_none_spec d cfg a _ node false p hk.1 (fun h => by cases h) rfl with
        ⟨j, k', p', f0, hy, hk', hgj, hR⟩ | ⟨f0, hy, hR⟩
      · refine Or.inl ⟨j, k', p', c, max f0 f1 + 1, fun f hf => ?_, hk', hg, hgj, ?_⟩
        · obtain ⟨f', rfl⟩ : ∃ f', f = f' + 1 := ⟨f - 1, by omega⟩
          rw [precIter, hsel f' (by omega)]
          simp only [headRes]
          rw [hy f' (by omega)]
        · rw [precCur_some, hr]; simpa [numFrom] using hR
      · refine Or.inr ⟨c, max f0 f1 + 1, fun f hf => ?_, hg, ?_⟩
        · obtain ⟨f', rfl⟩ : ∃ f', f = f' + 1 := ⟨f - 1, by omega⟩
          rw [precIter, hsel f' (by omega)]
          simp only [headRes]
          rw [hy f' (by omega)]
        · rw [precCur_some, hr]; simpa [numFrom] using hR

theorem zipIdx_cnt (cnt : Nat) : ∀ (l : List Ref) (j : Nat),
    (l.zipIdx j).map (fun (p : Ref × Nat) => (⟨p.1, cnt + p.2 + 1, 0⟩ : Item)) = numFrom (cnt + j) l
  | [], _ => rfl
  | r :: rs, j => by
    simp only [List.zipIdx_cons, List.map_cons, numFrom, zipIdx_cnt cnt rs (j+1)]
    rfl

/-- `precedingItems` of the sequence model is the stream of a fresh non-sibling closure -/
theorem precedingItems_eq (a : AxisInfo) (n : Ref) :
    precedingItems d cfg a n = precTail d (test d cfg a) (PR d n false) 0 := by
  unfold precedingItems
  have gen : ∀ (roots : List (Ref × Bool)) (out : List Item) (cnt : Nat),
      (roots.foldl (fun (acc : List Item × Nat) (rb : Ref × Bool) =>
          let (out, cnt) := acc
          let cnt := if rb.2 then 0 else cnt
          let ms := ((rb.1 :: (descM d rb.1).map (·.1)).filter (test d cfg a))
          (out ++ ms.zipIdx.map (fun (r, i) => ⟨r, cnt + i + 1, 0⟩), cnt + ms.length)) (out, cnt)).1
        = out ++ precTail d (test d cfg a) roots cnt := by
    intro roots
    induction roots with
    | nil => intro out cnt; simp [precTail]
    | cons rb rest ih =>
      intro out cnt
      obtain ⟨root, reset⟩ := rb
      rw [List.foldl_cons]
      simp only
      rw [ih]
      have hz := zipIdx_cnt (if reset then 0 else cnt) ((root :: (descM d root).map (·.1)).filter (test d cfg a)) 0
      simp only [Nat.add_zero] at hz
      simp only [precTail, subtreeMatches, List.append_assoc]
      rw [← hz]
  have := gen (precRoots d (2 * d.length + 2) n false) [] 0
  simpa [PR] using this

theorem prec_start (a : AxisInfo) (x c : Ref) :
    precCurOf d cfg a false (x, none) 0 c = precContrib d cfg a false x := by
  simp only [precCurOf, precContrib, Bool.false_eq_true, if_false]
  rw [precCur_none, precedingItems_eq]

end

end XPathV.Model
