import XPathV.Model.Pull2
/-!
# No `Select` leaves the context node moved

`t.Current()` is the context node of the whole evaluation: operands, arguments and predicates that
are evaluated *after* a node-set iterator was pulled read it.  `filterQuery.Select` moves it onto
every candidate (the predicate is evaluated there), `mergeQuery.Select` onto every parent,
`unionQuery.Select` lets both operands run on it.  In the repaired `query.go`

* `filterQuery.Select` restores it when it returns (`defer func() { t.Current().MoveTo(ctx) }()`),
* `mergeQuery.Select` restores it after the children of one parent were collected,
* `unionQuery.Select` restores it between the operands (and not after the right one),
* the non-sibling `followingQuery`/`precedingQuery` do not touch it (`startQuery`).

`select_preserves_context`: for **every** machine state `q` of the sixteen iterator types — any
nesting, any mutable state, reachable or not, any decision function, any document — a `Select` that
answers (a node or `nil`) returns `t.Current()` exactly as it found it.  The proof is an induction
on the fuel; per type:

* `context`, `absolute`, and every arm that runs a live closure (`child`, `cachedChild`, `attr`,
  `descendant`, `ancestor`, `following`, `preceding`, `descOverDesc`, the buffers of `union` and
  `merge`): the arm does not write `t.Current()`;
* arms that pull their input (`self`, `parent`, `group`, the closure types with `iterator == nil`,
  `merge`): what the input's `Select` leaves — the induction hypothesis;
* `filter`: restored, *whatever* its input does;
* `merge`: the child's walk is bracketed by `ctx := …`/`MoveTo(ctx)`, so only the input matters;
* `union`: the left operand is followed by `MoveTo(root)`; the result is what the *right* operand's
  last `Select` leaves — the induction hypothesis again (`collectU_context`).

The only outcome excluded is "out of fuel" (not an outcome of the Go code): the model interrupts
`mergeQuery`'s collecting loop with `t.Current()` on the parent.
-/
namespace XPathV.Model
open XPathV

section
variable {σ : Type} (step : σ → Ref → Res Ref × σ × Ref)
variable (hstep : ∀ q c o q' c', step q c = (o, q', c') → o ≠ .fuel → c' = c)

include hstep in
/-- the draining loop of `unionQuery` over a `Select` that returns `t.Current()` as it found it
returns it as it found it -/
theorem collectU_context (key : Ref → String) : ∀ (f : Nat) (q : σ) (c : Ref) (l : List Ref) (m : List String)
    (l' : List Ref) (m' : List String) (q' : σ) (c' : Ref),
    collectU step key f q c l m = some (l', m', q', c') → c' = c
  | 0, _, _, _, _, _, _, _, _, h => by simp [collectU] at h
  | f+1, q, c, l, m, l', m', q', c', h => by
    rw [collectU] at h
    cases hs : step q c with
    | mk o rest =>
      obtain ⟨q1, c1⟩ := rest
      rw [hs] at h
      cases o with
      | fuel => simp at h
      | done =>
        have e := hstep q c _ _ _ hs (by simp)
        simp only [Option.some.injEq, Prod.mk.injEq] at h
        rw [← h.2.2.2]; exact e
      | yield n =>
        have e := hstep q c _ _ _ hs (by simp)
        simp only at h
        split at h
        · rw [collectU_context key f q1 c1 _ _ _ _ _ _ h]; exact e
        · rw [collectU_context key f q1 c1 _ _ _ _ _ _ h]; exact e

end

section
variable (d : Doc) (cfg : ECfg) (dec : Plan → Ref → Bool)

/-- arms `match Input.Select(t) with | yield n => Select again (closure built) | done => done` -/
local macro "ctx_pull" ih:ident h:ident hne:ident f:ident inp:ident c:ident : tactic => `(tactic| (
  simp only [PQ2.select] at $h:ident
  cases hr : PQ2.select d cfg dec $f $inp $c with
  | mk o1 rest =>
    obtain ⟨inp1, c1⟩ := rest
    rw [hr] at $h:ident
    cases o1 with
    | fuel => simp only [Prod.mk.injEq] at $h:ident; exact absurd ($h).1.symm $hne
    | done =>
      have e := $ih:ident _ _ _ _ _ hr (by simp)
      simp only [Prod.mk.injEq] at $h:ident
      rw [← ($h).2.2]; exact e
    | yield x =>
      have e := $ih:ident _ _ _ _ _ hr (by simp)
      simp only at $h:ident
      rw [$ih:ident _ _ _ _ _ $h $hne]; exact e))

/-- arms that run a live closure `body` and either yield, or drop the closure and `Select` again -/
local macro "ctx_closure" ih:ident h:ident hne:ident body:term : tactic => `(tactic| (
  simp only [PQ2.select] at $h:ident
  cases hb : $body with
  | fuel => rw [hb] at $h:ident; simp only [Prod.mk.injEq] at $h:ident; exact absurd ($h).1.symm $hne
  | done => rw [hb] at $h:ident; simp only at $h:ident; exact $ih:ident _ _ _ _ _ $h $hne
  | yield j => rw [hb] at $h:ident; simp only [Prod.mk.injEq] at $h:ident; exact ($h).2.2.symm))

/-- **The context node survives every `Select`.**  Whatever the machine (any of the sixteen iterator
types over inputs of any of them), whatever its state, the decision function, the document and the
fuel: if `Select` answers — a node or `nil` — then `t.Current()` afterwards is `t.Current()` before. -/
theorem select_preserves_context : ∀ (f : Nat) (q : PQ2) (cur : Ref) (out : Res Ref) (q' : PQ2) (cur' : Ref),
    PQ2.select d cfg dec f q cur = (out, q', cur') → out ≠ .fuel → cur' = cur := by
  intro f
  induction f with
  | zero =>
    intro q c o q' c' h hne
    simp only [PQ2.select, Prod.mk.injEq] at h
    exact absurd h.1.symm hne
  | succ f ih =>
    intro q c o q' c' h hne
    cases q with
    | context k =>
      simp only [PQ2.select] at h
      split at h <;> (simp only [Prod.mk.injEq] at h; exact h.2.2.symm)
    | absolute k =>
      simp only [PQ2.select] at h
      split at h <;> (simp only [Prod.mk.injEq] at h; exact h.2.2.symm)
    | child a inp it pos =>
      cases it with
      | none => ctx_pull ih h hne f inp c
      | some nf =>
        obtain ⟨n, first⟩ := nf
        ctx_closure ih h hne (childIter d (test d cfg a) f n first)
    | cachedChild a inp it pos =>
      cases it with
      | none => ctx_pull ih h hne f inp c
      | some nf =>
        obtain ⟨n, first⟩ := nf
        ctx_closure ih h hne (childIter d (test d cfg a) f n first)
    | attr a inp it =>
      cases it with
      | none => ctx_pull ih h hne f inp c
      | some nf =>
        obtain ⟨n, ia⟩ := nf
        ctx_closure ih h hne (attrIter d (test d cfg a) f n ia)
    | descendant a s inp it pos level =>
      cases it with
      | none => ctx_pull ih h hne f inp c
      | some nf =>
        obtain ⟨n, first⟩ := nf
        ctx_closure ih h hne (descIter d (test d cfg a) s f n first level)
    | ancestor a s inp it tb =>
      cases it with
      | none => ctx_pull ih h hne f inp c
      | some nf =>
        obtain ⟨n, first⟩ := nf
        ctx_closure ih h hne (ancLoop d (test d cfg a) (identityHash d cfg) s f n first (tb.getD []))
    | following a sib inp it pos =>
      cases it with
      | none => ctx_pull ih h hne f inp c
      | some nq =>
        obtain ⟨node, q⟩ := nq
        ctx_closure ih h hne (folCall d cfg a sib f (node, q) pos)
    | preceding a sib inp it pos =>
      cases it with
      | none => ctx_pull ih h hne f inp c
      | some nq =>
        obtain ⟨node, q⟩ := nq
        ctx_closure ih h hne (precCall d cfg a sib f (node, q) pos)
    | self a inp =>
      simp only [PQ2.select] at h
      cases hr : PQ2.select d cfg dec f inp c with
      | mk o1 rest =>
        obtain ⟨inp1, c1⟩ := rest
        rw [hr] at h
        cases o1 with
        | fuel => simp only [Prod.mk.injEq] at h; exact absurd h.1.symm hne
        | done =>
          have e := ih _ _ _ _ _ hr (by simp)
          simp only [Prod.mk.injEq] at h
          rw [← h.2.2]; exact e
        | yield x =>
          have e := ih _ _ _ _ _ hr (by simp)
          simp only at h
          split at h
          · simp only [Prod.mk.injEq] at h; rw [← h.2.2]; exact e
          · rw [ih _ _ _ _ _ h hne]; exact e
    | parent a inp =>
      simp only [PQ2.select] at h
      cases hr : PQ2.select d cfg dec f inp c with
      | mk o1 rest =>
        obtain ⟨inp1, c1⟩ := rest
        rw [hr] at h
        cases o1 with
        | fuel => simp only [Prod.mk.injEq] at h; exact absurd h.1.symm hne
        | done =>
          have e := ih _ _ _ _ _ hr (by simp)
          simp only [Prod.mk.injEq] at h
          rw [← h.2.2]; exact e
        | yield x =>
          have e := ih _ _ _ _ _ hr (by simp)
          simp only at h
          cases hp : (Nav.moveParent d x).filter (test d cfg a) with
          | some p => rw [hp] at h; simp only [Prod.mk.injEq] at h; rw [← h.2.2]; exact e
          | none => rw [hp] at h; simp only at h; rw [ih _ _ _ _ _ h hne]; exact e
    | group inp pos =>
      simp only [PQ2.select] at h
      cases hr : PQ2.select d cfg dec f inp c with
      | mk o1 rest =>
        obtain ⟨inp1, c1⟩ := rest
        rw [hr] at h
        have e : o1 ≠ .fuel → c1 = c := fun hn => ih _ _ _ _ _ hr hn
        cases o1 with
        | fuel => simp only [Prod.mk.injEq] at h; exact absurd h.1.symm hne
        | done => simp only [Prod.mk.injEq] at h; rw [← h.2.2]; exact e (by simp)
        | yield x => simp only [Prod.mk.injEq] at h; rw [← h.2.2]; exact e (by simp)
    | filter inp pred pos pm =>
      -- restored on every way out, whatever the input does
      simp only [PQ2.select] at h
      cases hr : PQ2.select d cfg dec f inp c with
      | mk o1 rest =>
        obtain ⟨inp1, c1⟩ := rest
        rw [hr] at h
        cases o1 with
        | fuel => simp only [Prod.mk.injEq] at h; exact h.2.2.symm
        | done => simp only [Prod.mk.injEq] at h; exact h.2.2.symm
        | yield x =>
          simp only at h
          split at h
          · simp only [Prod.mk.injEq] at h; exact h.2.2.symm
          · simp only [Prod.mk.injEq] at h; exact h.2.2.symm
    | union l r it =>
      cases it with
      | some buf =>
        cases buf with
        | nil => simp only [PQ2.select, Prod.mk.injEq] at h; exact h.2.2.symm
        | cons x rest => simp only [PQ2.select, Prod.mk.injEq] at h; exact h.2.2.symm
      | none =>
        simp only [PQ2.select] at h
        cases h1 : collectU (PQ2.select d cfg dec f) (identityHash d cfg) f l c [] [] with
        | none => rw [h1] at h; simp only [Prod.mk.injEq] at h; exact absurd h.1.symm hne
        | some r1 =>
          obtain ⟨list1, m1, l', c1⟩ := r1
          rw [h1] at h
          simp only at h
          cases h2 : collectU (PQ2.select d cfg dec f) (identityHash d cfg) f r c list1 m1 with
          | none => rw [h2] at h; simp only [Prod.mk.injEq] at h; exact absurd h.1.symm hne
          | some r2 =>
            obtain ⟨list2, m2, r', c2⟩ := r2
            rw [h2] at h
            simp only at h
            have e : c2 = c :=
              collectU_context (PQ2.select d cfg dec f) (fun q c o q' c' hs hn => ih q c o q' c' hs hn)
                (identityHash d cfg) f r c list1 m1 _ _ _ _ h2
            rw [ih _ _ _ _ _ h hne]; exact e
    | merge inp ch it =>
      cases it with
      | some buf =>
        cases buf with
        | nil => simp only [PQ2.select] at h; exact ih _ _ _ _ _ h hne
        | cons x rest => simp only [PQ2.select, Prod.mk.injEq] at h; exact h.2.2.symm
      | none =>
        simp only [PQ2.select] at h
        cases hr : PQ2.select d cfg dec f inp c with
        | mk o1 rest =>
          obtain ⟨inp1, c1⟩ := rest
          rw [hr] at h
          cases o1 with
          | fuel => simp only [Prod.mk.injEq] at h; exact absurd h.1.symm hne
          | done =>
            have e := ih _ _ _ _ _ hr (by simp)
            simp only [Prod.mk.injEq] at h
            rw [← h.2.2]; exact e
          | yield x =>
            have e := ih _ _ _ _ _ hr (by simp)
            simp only at h
            cases h1 : collectM (PQ2.select d cfg dec f) f ch.evaluate x [] with
            | none => rw [h1] at h; simp only [Prod.mk.injEq] at h; exact absurd h.1.symm hne
            | some r1 =>
              obtain ⟨list, ch', c2⟩ := r1
              rw [h1] at h
              simp only at h
              rw [ih _ _ _ _ _ h hne]; exact e
    | descOverDesc a ms inp level pos cn =>
      cases level with
      | zero =>
        simp only [PQ2.select] at h
        cases hr : PQ2.select d cfg dec f inp c with
        | mk o1 rest =>
          obtain ⟨inp1, c1⟩ := rest
          rw [hr] at h
          cases o1 with
          | fuel => simp only [Prod.mk.injEq] at h; exact absurd h.1.symm hne
          | done =>
            have e := ih _ _ _ _ _ hr (by simp)
            simp only [Prod.mk.injEq] at h
            rw [← h.2.2]; exact e
          | yield x =>
            have e := ih _ _ _ _ _ hr (by simp)
            simp only at h
            split at h
            · simp only [Prod.mk.injEq] at h; rw [← h.2.2]; exact e
            · cases hm : Nav.moveChild d x with
              | none => rw [hm] at h; simp only at h; rw [ih _ _ _ _ _ h hne]; exact e
              | some ch =>
                rw [hm] at h
                simp only at h
                cases hi : dodInner d (test d cfg a) f ch 1 with
                | mk o2 jl =>
                  obtain ⟨j, l⟩ := jl
                  rw [hi] at h
                  cases o2 with
                  | fuel => simp only [Prod.mk.injEq] at h; exact absurd h.1.symm hne
                  | done => simp only at h; rw [ih _ _ _ _ _ h hne]; exact e
                  | yield u => simp only [Prod.mk.injEq] at h; rw [← h.2.2]; exact e
      | succ lv =>
        simp only [PQ2.select] at h
        cases hu : dodUp d f cn (lv+1) with
        | mk o1 nl =>
          obtain ⟨cn', l'⟩ := nl
          rw [hu] at h
          cases o1 with
          | fuel => simp only [Prod.mk.injEq] at h; exact absurd h.1.symm hne
          | done => simp only at h; exact ih _ _ _ _ _ h hne
          | yield u =>
            simp only at h
            cases hi : dodInner d (test d cfg a) f cn' l' with
            | mk o2 jl =>
              obtain ⟨j, l⟩ := jl
              rw [hi] at h
              cases o2 with
              | fuel => simp only [Prod.mk.injEq] at h; exact absurd h.1.symm hne
              | done => simp only at h; exact ih _ _ _ _ _ h hne
              | yield u => simp only [Prod.mk.injEq] at h; exact h.2.2.symm

/-- a `filterQuery` restores the context node even when it runs out of fuel (the `defer`) -/
theorem select_filter_context (f : Nat) (inp : PQ2) (pred : Plan) (pos : Nat) (pm : Option (List (Nat × Nat)))
    (cur : Ref) : (PQ2.select d cfg dec f (.filter inp pred pos pm) cur).2.2 = cur := by
  cases f with
  | zero => rfl
  | succ f =>
    simp only [PQ2.select]
    cases hr : PQ2.select d cfg dec f inp cur with
    | mk o1 rest =>
      obtain ⟨inp1, c1⟩ := rest
      cases o1 with
      | fuel => rfl
      | done => rfl
      | yield x =>
        simp only
        split <;> rfl

/-- `NodeIterator.MoveNext` returning false leaves `t.Current()` where it was (returning true it
moves it onto the reported node — that is its job) -/
theorem moveNext_false_context (f : Nat) (q : PQ2) (cur : Ref) (q' : PQ2) (cur' : Ref)
    (h : PQ2.moveNext d cfg dec f q cur = some (false, q', cur')) : cur' = cur := by
  simp only [PQ2.moveNext] at h
  cases hs : PQ2.select d cfg dec f q cur with
  | mk o rest =>
    obtain ⟨q1, c1⟩ := rest
    rw [hs] at h
    cases o with
    | fuel => simp at h
    | yield n => simp at h
    | done =>
      simp only [Option.some.injEq, Prod.mk.injEq, true_and] at h
      rw [← h.2]
      exact select_preserves_context d cfg dec f q cur _ _ _ hs (by simp)

end

end XPathV.Model

section AxiomAudit
open XPathV.Model
end AxiomAudit
