import XPathV.Model.Cache
/-!
# Invariants of the loading cache for every capacity, load function, thread count and schedule
-/
namespace XPathV.Model.Cache

/-- the regenerated eviction condition is the one the proofs are about: `cap > 0 ∧ len ≥ cap` -/
theorem evictCond_spec (cap len : Nat) : Generated.evictCond cap len = true ↔ (cap > 0 ∧ len ≥ cap) := by
  unfold Generated.evictCond
  simp

def Inv (cap : Nat) (load : Key → Option Val) (s : Sys) : Prop :=
  (∀ kv ∈ s.c.m, load kv.1 = some kv.2) ∧
  (cap > 0 → s.c.m.length ≤ cap) ∧
  (∀ pc ∈ s.ts, match pc with
     | .start _ => True
     | .loaded k v => load k = some v
     | .done r => ∀ v, r = some v → ∃ k, load k = some v)

theorem store_len (cap : Nat) (c : Cache) (k : Key) (v : Val) (h : cap > 0 → c.m.length ≤ cap) :
    cap > 0 → (c.store cap k v).m.length ≤ cap := by
  intro hc
  unfold Cache.store
  split
  · simp; omega
  · rename_i hne
    have hne' : ¬ (cap > 0 ∧ c.m.length ≥ cap) := fun hh => hne ((evictCond_spec _ _).2 hh)
    have h1 : c.m.length < cap := by
      rcases Nat.lt_or_ge c.m.length cap with h' | h'
      · exact h'
      · exact absurd ⟨hc, h'⟩ hne'
    have h2 : (c.m.filter (·.1 != k)).length ≤ c.m.length := List.length_filter_le _ _
    simp only [List.length_cons]; omega

theorem step_inv (cap : Nat) (load : Key → Option Val) (s : Sys) (i : Nat) (h : Inv cap load s) :
    Inv cap load (run cap load s [i]) := by
  unfold run
  cases hpc : s.ts[i]? with
  | none => simpa [run] using h
  | some pc =>
    obtain ⟨h1, h2, h3⟩ := h
    have hmem : pc ∈ s.ts := List.mem_of_getElem? hpc
    have hpcinv := h3 pc hmem
    simp only [run]
    cases pc with
    | start k =>
      simp only [stepThread]
      cases hl : s.c.lookup k with
      | some v =>
        refine ⟨h1, h2, ?_⟩
        intro pc' hpc'
        rcases List.mem_or_eq_of_mem_set hpc' with hm | rfl
        · exact h3 _ hm
        · intro v' hv'
          cases hv'
          unfold Cache.lookup at hl
          cases hf : s.c.m.find? (·.1 == k) with
          | none => simp [hf] at hl
          | some kv =>
            simp [hf] at hl
            have := List.mem_of_find?_eq_some hf
            exact ⟨kv.1, by rw [h1 kv this, hl]⟩
      | none =>
        cases hld : load k with
        | none =>
          refine ⟨h1, h2, ?_⟩
          intro pc' hpc'
          rcases List.mem_or_eq_of_mem_set hpc' with hm | rfl
          · exact h3 _ hm
          · intro v' hv'; cases hv'
        | some v =>
          refine ⟨h1, h2, ?_⟩
          intro pc' hpc'
          rcases List.mem_or_eq_of_mem_set hpc' with hm | rfl
          · exact h3 _ hm
          · exact hld
    | loaded k v =>
      simp only [stepThread]
      refine ⟨?_, store_len cap s.c k v h2, ?_⟩
      · intro kv hkv
        unfold Cache.store at hkv
        split at hkv
        · simp at hkv; subst hkv; exact hpcinv
        · simp only [List.mem_cons] at hkv
          rcases hkv with rfl | hkv
          · exact hpcinv
          · exact h1 kv (List.mem_filter.mp hkv).1
      · intro pc' hpc'
        rcases List.mem_or_eq_of_mem_set hpc' with hm | rfl
        · exact h3 _ hm
        · intro v' hv'; cases hv'; exact ⟨k, hpcinv⟩
    | done r =>
      simp only [stepThread]
      refine ⟨h1, h2, ?_⟩
      intro pc' hpc'
      rcases List.mem_or_eq_of_mem_set hpc' with hm | rfl
      · exact h3 _ hm
      · exact hpcinv

theorem run_append (cap load) (s : Sys) (a b : List Nat) :
    run cap load s (a ++ b) = run cap load (run cap load s a) b := by
  induction a generalizing s with
  | nil => rfl
  | cons i is ih =>
    simp only [List.cons_append, run]
    cases s.ts[i]? <;> simp [ih]

/-- every reachable state, every schedule, any number of threads -/
theorem run_inv (cap : Nat) (load : Key → Option Val) (s : Sys) (sched : List Nat) (h : Inv cap load s) :
    Inv cap load (run cap load s sched) := by
  induction sched generalizing s with
  | nil => exact h
  | cons i is ih =>
    have := run_append cap load s [i] is
    simp only [List.singleton_append] at this
    rw [this]
    exact ih _ (step_inv cap load s i h)

/-- a key whose load fails is never stored: the cache is unchanged by that `get` -/
theorem failed_load_not_stored (cap : Nat) (load : Key → Option Val) (c : Cache) (k : Key)
    (hmiss : c.lookup k = none) (hfail : load k = none) : get cap load c k = (c, none) := by
  simp [get, stepThread, hmiss, hfail]

/-- a hit returns the stored value and leaves the cache unchanged -/
theorem hit_returns_stored (cap : Nat) (load : Key → Option Val) (c : Cache) (k : Key) (v : Val)
    (h : c.lookup k = some v) : get cap load c k = (c, some v) := by
  simp [get, stepThread, h]

/-- a miss with a successful load returns exactly `load k` -/
theorem miss_returns_load (cap : Nat) (load : Key → Option Val) (c : Cache) (k : Key) (v : Val)
    (hmiss : c.lookup k = none) (hl : load k = some v) : (get cap load c k).2 = some v := by
  simp [get, stepThread, hmiss, hl]

/-- with capacity 0 nothing is ever evicted: the reset counter never moves -/
theorem unbounded_when_zero (c : Cache) (k : Key) (v : Val) : (c.store 0 k v).resets = c.resets := by
  unfold Cache.store
  have : Generated.evictCond 0 c.m.length = false := by
    cases h : Generated.evictCond 0 c.m.length with
    | false => rfl
    | true => exact absurd ((evictCond_spec _ _).1 h).1 (by omega)
  simp [this]

/-- the boundary: a full cache is reset to the single new entry -/
theorem full_cache_resets (cap : Nat) (c : Cache) (k : Key) (v : Val) (hc : cap > 0) (hf : c.m.length ≥ cap) :
    c.store cap k v = { m := [(k, v)], resets := c.resets + 1 } := by
  unfold Cache.store
  rw [(evictCond_spec _ _).2 ⟨hc, hf⟩]
  simp

end XPathV.Model.Cache
